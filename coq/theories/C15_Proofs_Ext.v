(* C15 - proofs, part 4 (extension): predecessor documents, total refusal
   verdicts (collect_evidence, the three SR constructors), the end-to-end
   statement construct -> write -> parse -> read evidence, key object documents
   parsed back (KeyObjectSelectionDocument.from_dataset) and get_references. *)
From Coq Require Import String ZArith List Bool Lia Permutation.
From HD Require Import Base.Val C15_Model C15_Proofs C15_Proofs_Doc.
Import ListNotations.
Open Scope Z_scope.

(* ---- predecessor documents (_collect_predecessors) ---------------------------- *)
Definition pred_step (g : sgroups) (e : evd) : sgroups :=
  group_add pair_eqb (e_study e, e_series e) (e_uid e, e_cls e) g.

Lemma pred_fold : forall pv g,
  Permutation (gflat (fold_left pred_step pv g)) (gflat g ++ map kv_of pv) /\
  (NoDup (map fst g) -> NoDup (map fst (fold_left pred_step pv g))).
Proof.
  induction pv as [|e pv IH]; intros g; cbn [fold_left map].
  - rewrite app_nil_r. split; [reflexivity|auto].
  - destruct (IH (pred_step g e)) as [P N]. split.
    + eapply Permutation_trans; [exact P|]. unfold pred_step at 1.
      rewrite (group_add_perm pair_eqb pair_eqb_spec). rewrite <- app_assoc. reflexivity.
    + intros H. apply N. unfold pred_step. now apply (group_add_keys_NoDup pair_eqb pair_eqb_spec).
Qed.

Lemma t4_kv_tup : forall l : list evd, map t4_of (map kv_of l) = map tup l.
Proof. intros l. rewrite map_map. apply map_ext. intros [u c st se]. reflexivity. Qed.

(* every previous version is listed, WITH multiplicity (no de-duplication), under the
   study / series / class it was given with; studies once, series once *)
Lemma predecessors_spec : forall pv,
  Permutation (flatten (collect_predecessors pv)) (map tup pv) /\
  NoDup (map fst (collect_predecessors pv)) /\
  NoDup (flatten_series (collect_predecessors pv)) /\
  (forall st sers, In (st, sers) (collect_predecessors pv) -> NoDup (map fst sers)).
Proof.
  intros pv. unfold collect_predecessors.
  change (fold_left (fun (g : sgroups) (e : evd) =>
            group_add pair_eqb (e_study e, e_series e) (e_uid e, e_cls e) g) pv [])
    with (fold_left pred_step pv []).
  destruct (pred_fold pv []) as [P N]. cbn [gflat flat_map app] in P.
  assert (NS : NoDup (flatten_series (create_references (fold_left pred_step pv [])))).
  { apply create_references_series_NoDup. apply N. constructor. }
  split; [|split; [apply create_references_studies_NoDup|split; [exact NS|]]].
  - rewrite create_references_perm, flat1_gflat, <- t4_kv_tup. now apply Permutation_map.
  - intros st sers Hin. exact (series_NoDup_under_study _ st sers NS Hin).
Qed.

Lemma doc_predecessors : forall c a d, sr_init c a = Ok d ->
  d_pred d = match a_previous a with None => None | Some pv => Some (collect_predecessors pv) end.
Proof.
  intros c a d H. apply sr_init_iff in H. destruct H as [root [cu [_ [-> _]]]]. reflexivity.
Qed.

(* ---- collect_evidence: total verdict ---------------------------------------------- *)
Lemma ref_uids_of_ok_wf : forall l R, ref_uids_of l = Ok R -> forall it, In it l -> i_ref it <> None.
Proof.
  induction l as [|x l IH]; intros R H it Hin; [destruct Hin|]. cbn [ref_uids_of] in H.
  destruct (i_ref x) as [uc|] eqn:E; [|discriminate].
  destruct (ref_uids_of l) as [us|k] eqn:El; cbn [bind] in H; [|discriminate].
  destruct Hin as [<-|Hin]; [congruence|]. eapply IH; eauto.
Qed.

Lemma collect_wf_of_ok : forall root R, ref_uids_of (references root) = Ok R -> refs_wf root.
Proof.
  intros root R H it Hd Hv. eapply ref_uids_of_ok_wf; [exact H|]. apply references_in. auto.
Qed.

Lemma collect_err_iff : forall has_cs ev root k,
  collect_evidence has_cs ev root = Err k <->
  (k = "AttributeError"%string /\
   (has_cs = false \/
    exists it, In it (descendants root) /\ (i_vt it = IMAGE \/ i_vt it = COMPOSITE) /\ i_ref it = None)) \/
  (k = "ValueError"%string /\ has_cs = true /\ refs_wf root /\
   ~ (forall u, referenced root u -> In u (map e_uid ev))).
Proof.
  intros has_cs ev root k. split.
  - intros H. destruct has_cs.
    + destruct (ref_uids_of (references root)) as [R|k'] eqn:ER.
      * pose proof (collect_wf_of_ok _ _ ER) as W. right.
        assert (k = "ValueError"%string).
        { unfold collect_evidence in H. cbn [negb] in H. rewrite ER in H. cbn [bind] in H.
          destruct (fold_left (collect_step R) ev ([], [], [])) as [[seen rg] ug].
          destruct (forallb (fun u => mem u seen) R); [discriminate|]. now inversion H. }
        subst k. repeat split; [exact W|]. now apply (collect_refused_iff ev root W).
      * left. destruct (ref_uids_of_err _ _ ER) as [-> [it [Hin Hn]]].
        unfold collect_evidence in H. cbn [negb] in H. rewrite ER in H. cbn [bind] in H.
        inversion H. split; [reflexivity|]. right. exists it. apply references_in in Hin. tauto.
    + unfold collect_evidence in H. cbn [negb] in H. inversion H. left. auto.
  - intros [[-> H]|[-> [-> [W Hn]]]].
    + now apply collect_attribute_error_iff.
    + now apply (collect_refused_iff ev root W).
Qed.

(* ---- the SR constructors: total refusal verdict ------------------------------------ *)
Definition verif_missing (a : sr_args) : bool :=
  a_verified a && (negb (given (a_observer a)) || negb (given (a_org a))).

(* guard order of _SR.__init__ as a decision list *)
Definition sr_base_spec (cls : Z) (a : sr_args) : res doc :=
  match a_evidence a with
  | [] => Err "ValueError"
  | _ :: _ =>
    if negb (a_ts_ok a) then Err "ValueError"
    else if verif_missing a then Err "ValueError"
    else match single_root (a_content a) with
         | None => Err "ValueError"
         | Some root =>
             if negb (i_rel root =? 0) then Err "AttributeError"
             else if negb (vt_eqb (i_vt root) CONTAINER) then Err "TypeError"
             else bind (collect_evidence (a_root_cs a) (a_evidence a) root)
                       (fun cu => Ok (built_doc cls a root cu))
         end
  end.

Lemma sr_base_init_spec : forall cls a, sr_base_init cls a = sr_base_spec cls a.
Proof.
  intros cls a. unfold sr_base_init, sr_base_spec, verif_missing, built_doc.
  destruct (a_evidence a) as [|e0 ev]; [reflexivity|].
  destruct (a_ts_ok a); cbn [negb]; [|reflexivity].
  destruct (a_verified a); cbn [andb].
  - destruct (given (a_observer a)); cbn [negb orb]; [|reflexivity].
    destruct (given (a_org a)); cbn [negb orb]; [|reflexivity].
    destruct (a_content a) as [it|[|it [|it2 l]]]; reflexivity.
  - destruct (a_content a) as [it|[|it [|it2 l]]]; reflexivity.
Qed.

(* the full clause: the constructor refuses with error class k EXACTLY in these cases,
   listed in guard order (an earlier guard decides the class) *)
Definition base_refusal (a : sr_args) (k : string) : Prop :=
  (a_evidence a = [] /\ k = "ValueError"%string) \/
  (a_evidence a <> [] /\
   ((a_ts_ok a = false /\ k = "ValueError"%string) \/
    (a_ts_ok a = true /\
     ((verif_missing a = true /\ k = "ValueError"%string) \/
      (verif_missing a = false /\
       ((single_root (a_content a) = None /\ k = "ValueError"%string) \/
        exists root, single_root (a_content a) = Some root /\
          ((i_rel root <> 0 /\ k = "AttributeError"%string) \/
           (i_rel root = 0 /\
            ((i_vt root <> CONTAINER /\ k = "TypeError"%string) \/
             (i_vt root = CONTAINER /\
              collect_evidence (a_root_cs a) (a_evidence a) root = Err k)))))))))).

Lemma sr_base_err_iff : forall cls a k, sr_base_init cls a = Err k <-> base_refusal a k.
Proof.
  intros cls a k. rewrite sr_base_init_spec. unfold sr_base_spec, base_refusal.
  destruct (a_evidence a) as [|e0 ev].
  { split; [intros H; inversion H; left; auto|].
    intros [[_ ->]|[Hne _]]; [reflexivity|congruence]. }
  assert (NE : e0 :: ev <> []) by discriminate.
  destruct (a_ts_ok a); cbn [negb].
  2:{ split; [intros H; inversion H; right; split; [exact NE|left; auto]|].
      intros [[E _]|[_ [[_ ->]|[E _]]]]; [discriminate|reflexivity|discriminate]. }
  destruct (verif_missing a).
  { split; [intros H; inversion H; right; split; [exact NE|right; split; [reflexivity|left; auto]]|].
    intros [[E _]|[_ [[E _]|[_ [[_ ->]|[E _]]]]]]; try discriminate; reflexivity. }
  destruct (single_root (a_content a)) as [root|].
  2:{ split; [intros H; inversion H; right; split; [exact NE|right; split; [reflexivity|right; split; [reflexivity|left; auto]]]|].
      intros [[E _]|[_ [[E _]|[_ [[E _]|[_ [[_ ->]|[r [E _]]]]]]]]]; try discriminate; reflexivity. }
  destruct (i_rel root =? 0) eqn:ER; cbn [negb].
  2:{ apply Z.eqb_neq in ER. split.
      - intros H; inversion H. right; split; [exact NE|right; split; [reflexivity|right; split; [reflexivity|right]]].
        exists root. split; [reflexivity|left; auto].
      - intros [[E _]|[_ [[E _]|[_ [[E _]|[_ [[E _]|[r [E [[_ ->]|[E0 _]]]]]]]]]]]; try discriminate; try reflexivity.
        inversion E; subst r. contradiction. }
  apply Z.eqb_eq in ER.
  destruct (vt_eqb (i_vt root) CONTAINER) eqn:EV; cbn [negb].
  2:{ assert (NV : i_vt root <> CONTAINER) by (intro E; apply vt_eqb_eq in E; congruence). split.
      - intros H; inversion H. right; split; [exact NE|right; split; [reflexivity|right; split; [reflexivity|right]]].
        exists root. split; [reflexivity|right; split; [exact ER|left; auto]].
      - intros [[E _]|[_ [[E _]|[_ [[E _]|[_ [[E _]|[r [E [[E0 _]|[_ [[_ ->]|[E0 _]]]]]]]]]]]]]; try discriminate; try reflexivity;
          inversion E; subst r; contradiction. }
  apply vt_eqb_eq in EV. split.
  - intros H. destruct (collect_evidence (a_root_cs a) (e0 :: ev) root) as [cu|k'] eqn:EC; cbn [bind] in H; [discriminate|].
    inversion H; subst k'. right; split; [exact NE|right; split; [reflexivity|right; split; [reflexivity|right]]].
    exists root. split; [reflexivity|right; split; [exact ER|right; split; [exact EV|exact EC]]].
  - intros [[E _]|[_ [[E _]|[_ [[E _]|[_ [[E _]|[r [E [[E0 _]|[_ [[E0 _]|[_ EC]]]]]]]]]]]]]; try discriminate;
      inversion E; subst r; try contradiction. rewrite EC. reflexivity.
Qed.

Lemma sr_init_err_iff : forall c a k,
  sr_init c a = Err k <->
  base_refusal a k \/
  (exists d0, sr_base_init (class_code c) a = Ok d0 /\ holds_3d c = false /\
              has_scoord3d (d_content d0) = true /\ k = "ValueError"%string).
Proof.
  intros c a k. rewrite <- (sr_base_err_iff (class_code c) a k). unfold sr_init.
  destruct (sr_base_init (class_code c) a) as [d0|k0] eqn:EB; cbn [bind].
  - split.
    + intros H. right. exists d0. destruct c; cbn [holds_3d];
        try (destruct (has_scoord3d (d_content d0)) eqn:E3; [inversion H; auto|discriminate]); discriminate.
    + intros [H|[d1 [E [Hc [H3 ->]]]]]; [discriminate|]. inversion E; subst d1.
      destruct c; cbn [holds_3d] in Hc; try discriminate; rewrite H3; reflexivity.
  - split; [intros H; left; exact H|]. intros [H|[d1 [E _]]]; [exact H|discriminate].
Qed.

(* in terms of the arguments only *)
Lemma sr_refusal_total : forall c a k,
  sr_init c a = Err k <->
  base_refusal a k \/
  (exists root cu, base_guards a root cu /\ holds_3d c = false /\
     (exists it, In it (descendants root) /\ i_vt it = SCOORD3D) /\ k = "ValueError"%string).
Proof.
  intros c a k. rewrite sr_init_err_iff. split; (intros [H|H]; [left; exact H|right]).
  - destruct H as [d0 [E [Hc [H3 ->]]]]. apply sr_base_init_iff in E. destruct E as [root [cu [G ->]]].
    exists root, cu. cbn [built_doc d_content] in H3. apply has_scoord3d_iff in H3. auto.
  - destruct H as [root [cu [G [Hc [H3 ->]]]]]. exists (built_doc (class_code c) a root cu).
    split; [apply sr_base_init_iff; eauto|]. cbn [built_doc d_content]. apply has_scoord3d_iff in H3. auto.
Qed.

(* only three error classes ever leave the constructors *)
Lemma sr_refusal_classes : forall c a k, sr_init c a = Err k ->
  k = "ValueError"%string \/ k = "AttributeError"%string \/ k = "TypeError"%string.
Proof.
  intros c a k H. apply sr_refusal_total in H. destruct H as [H|[r [cu [_ [_ [_ ->]]]]]]; [|auto].
  destruct H as [[_ ->]|[_ [[_ ->]|[_ [[_ ->]|[_ [[_ ->]|[r [_ [[_ ->]|[_ [[_ ->]|[_ EC]]]]]]]]]]]]]; auto.
  apply collect_err_iff in EC. destruct EC as [[-> _]|[-> _]]; auto.
Qed.

(* ---- end to end: construct -> write -> parse -> read the evidence ------------------ *)
Lemma get_evidence_set_content : forall d r b, get_evidence (set_content d r) b = get_evidence d b.
Proof. intros [] r b. reflexivity. Qed.
Lemma get_evidence_series_set_content : forall d r b,
  get_evidence_series (set_content d r) b = get_evidence_series d b.
Proof. intros [] r b. reflexivity. Qed.

Lemma doc_references_supplied : forall c a d, sr_init c a = Ok d ->
  forall u, referenced (d_content d) u -> In u (map e_uid (a_evidence a)).
Proof.
  intros c a d H u Hu. destruct (doc_collect _ _ _ H) as [oth [Hc _]].
  destruct (collect_ok _ _ _ _ Hc) as [R [HR [Hs _]]]. apply Hs. now apply (R_spec _ _ HR).
Qed.

Lemma referenced_dec : forall c a d, sr_init c a = Ok d ->
  forall u, referenced (d_content d) u \/ ~ referenced (d_content d) u.
Proof.
  intros c a d H u. destruct (doc_collect _ _ _ H) as [oth [Hc _]].
  destruct (collect_ok _ _ _ _ Hc) as [R [HR _]].
  destruct (mem u R) eqn:E.
  - left. apply (R_spec _ _ HR). now apply mem_In.
  - right. intro Hr. apply (R_spec _ _ HR) in Hr. apply mem_In in Hr. congruence.
Qed.

Lemma sr_document_end_to_end : forall c a d, sr_init c a = Ok d ->
  exists root d',
    (* the document contains the tree it was given *)
    single_root (a_content a) = Some root /\ d_content d = root /\
    (* written and parsed: same class, every descendant, the root's name and type *)
    srread d = Ok (c, d') /\
    descendants (d_content d') = descendants root /\
    i_tag (d_content d') = i_tag root /\ i_vt (d_content d') = i_vt root /\
    (root_typed root -> d' = d) /\
    (* the evidence the PARSED document reports, in terms of the arguments *)
    (forall st se u k, In (st, se, u, k) (get_evidence d' true) <->
       referenced root u /\ first_evd (a_evidence a) u = Some (Evd u k st se)) /\
    (forall st se u k, In (st, se, u, k) (get_evidence d' false) <->
       (referenced root u \/ a_record a = true) /\ first_evd (a_evidence a) u = Some (Evd u k st se)) /\
    NoDup (map uid4 (get_evidence d' false)) /\
    (* nothing referenced lacks evidence *)
    (forall u, referenced root u -> In u (map e_uid (a_evidence a))) /\
    (* no 3-D coordinates in a class that cannot hold them *)
    (holds_3d c = false -> forall it, In it (descendants root) -> i_vt it <> SCOORD3D) /\
    (* verification details recorded *)
    (a_verified a = true ->
       exists n o, a_observer a = Some n /\ a_org a = Some o /\ d_observer d' = Some (n, o)).
Proof.
  intros c a d H.
  pose proof (tree_copied _ _ _ H) as HT.
  exists (d_content d), (set_content d (reroot (d_content d))).
  destruct (reroot_keeps (d_content d)) as [K1 [K2 [K3 [K4 _]]]].
  destruct (readback _ _ _ H) as [RB1 RB2].
  destruct (doc_partition _ _ _ H) as [PC [PO [ND _]]].
  assert (DC : d_content (set_content d (reroot (d_content d))) = reroot (d_content d)) by (destruct d; reflexivity).
  split; [exact HT|]. split; [reflexivity|]. split; [exact (srread_spec _ _ _ H)|].
  rewrite DC. split; [exact K4|]. split; [exact K2|]. split; [exact K1|].
  split.
  { intros T. pose proof (proj2 (srread_roundtrip _ _ _ H) T) as E. rewrite (srread_spec _ _ _ H) in E.
    injection E as E. exact E. }
  rewrite !get_evidence_set_content, RB1, RB2.
  split; [exact PC|]. split.
  { intros st se u k. rewrite in_app_iff, PC, PO. split.
    - intros [[Hr Hf]|[Hrec [_ Hf]]]; auto.
    - intros [[Hr|Hrec] Hf]; [left; auto|].
      destruct (referenced_dec _ _ _ H u) as [Hr|Hn]; [left; auto|right; auto]. }
  split; [exact ND|]. split; [exact (doc_references_supplied _ _ _ H)|]. split.
  { intros Hc it Hd Hv. apply sr_init_iff in H. destruct H as [root [cu [_ [-> H3]]]].
    cbn [built_doc d_content] in Hd. specialize (H3 Hc).
    assert (has_scoord3d root = true) by (apply has_scoord3d_iff; eauto). congruence. }
  intros Hv. destruct (verified_recorded _ _ _ H) as [_ [_ [_ [V _]]]].
  destruct (V Hv) as [n [o [E1 [E2 [E3 _]]]]]. exists n, o. repeat split; try assumption.
Qed.

(* non-vacuity of the end-to-end statement: a depth-3 tree with a repeated reference, evidence
   over two studies with a duplicate and an unreferenced instance, verified, one predecessor
   listed twice *)
Definition e2e_tree : item :=
  Item CONTAINER 1 0 None [(1, [1500])]
    [Item IMAGE 2 1 (Some (1, 0)) [(5, [2; 3])] [];
     Item CONTAINER 3 1 None []
       [Item NUM 4 1 None [(3, [114006])] [Item SCOORD 5 3 None [] [Item IMAGE 2 4 (Some (1, 0)) [] []]];
        Item COMPOSITE 6 1 (Some (2, 2)) [] []]].
Definition e2e_args : sr_args :=
  Args [Evd 3 0 1 11; Evd 1 0 1 11; Evd 2 2 2 21; Evd 1 0 1 11] (CSequence [e2e_tree]) true true
       true false true (Some 7) (Some 8) (Some [Evd 20 2 1 5; Evd 20 2 1 5]) true
       (Extras (Some 3) (Some 4) (Some [5; 6]) None).

Lemma e2e_example :
  exists d, sr_init Enhanced e2e_args = Ok d /\ srread d = Ok (Enhanced, d) /\
    is_report (d_content d) = true /\
    get_evidence d true = [(1, 11, 1, 0); (2, 21, 2, 2)] /\
    get_evidence d false = [(1, 11, 1, 0); (2, 21, 2, 2); (1, 11, 3, 0)] /\
    d_pred d = Some [(1, [(5, [(20, 2); (20, 2)])])] /\ d_observer d = Some (7, 8) /\
    d_extras d = Recorded (Some 3) (Some 4) (Some [5; 6]) None.
Proof. eexists. split; [vm_compute; reflexivity|]. repeat split. Qed.

(* ---- key object documents parsed back ------------------------------------------------ *)
Lemma ko_from_dataset_iff : forall has_cs d d',
  ko_from_dataset has_cs d = Ok d' <->
  d_cls d = ko_code /\ has_cs = true /\ i_vt (d_content d) = CONTAINER /\
  (exists tl, attr_get k_template (i_attrs (d_content d)) = Some (2010 :: tl)) /\
  d_current d <> [] /\ d' = set_content d (reroot (d_content d)).
Proof.
  intros has_cs d d'. unfold ko_from_dataset. split.
  - intros H. destruct (d_cls d =? ko_code) eqn:EC; cbn [negb] in H; [|discriminate].
    apply Z.eqb_eq in EC. destruct has_cs; cbn [negb] in H; [|discriminate].
    destruct (attr_get k_template (i_attrs (d_content d))) as [tl|]; [|discriminate].
    destruct (vt_eqb (i_vt (d_content d)) CONTAINER) eqn:EV; cbn [negb] in H; [|discriminate].
    apply vt_eqb_eq in EV. destruct tl as [|t tl]; [discriminate|].
    destruct (t =? 2010) eqn:ET; cbn [negb] in H; [|discriminate]. apply Z.eqb_eq in ET. subst t.
    destruct (d_current d) as [|s r] eqn:ED; [discriminate|]. inversion H.
    repeat split; try assumption; [eauto|discriminate].
  - intros [EC [-> [EV [[tl ET] [ED ->]]]]].
    replace (d_cls d =? ko_code) with true by (symmetry; apply Z.eqb_eq; exact EC).
    cbn [negb]. rewrite ET. apply vt_eqb_eq in EV. rewrite EV. cbn [negb].
    replace (2010 =? 2010) with true by reflexivity. cbn [negb].
    destruct (d_current d); [congruence|reflexivity].
Qed.

Lemma resolve_set_content : forall d r u, resolve_reference (set_content d r) u = resolve_reference d u.
Proof. intros [] r u. reflexivity. Qed.

(* a KO document built from a KeyObjectSelection, written and parsed with
   KeyObjectSelectionDocument.from_dataset, is the document that was written *)
Lemma ko_roundtrip : forall ev ts title tx descr refs root d,
  ko_content title tx descr refs = Ok root -> ko_init ev ts root = Ok d ->
  ko_from_dataset true d = Ok d.
Proof.
  intros ev ts title tx descr refs root d HC HI.
  destruct (ko_init_inv _ _ _ _ HI) as [_ [_ [ER [_ [ECl [oth [st [sers [_ ED]]]]]]]]].
  apply ko_from_dataset_iff.
  unfold ko_content in HC. destruct refs as [|r0 refs]; [discriminate|]. inversion HC as [HR]. clear HC.
  assert (RR : reroot (d_content d) = d_content d).
  { rewrite ER, <- HR. destruct tx; reflexivity. }
  rewrite RR, set_content_same. rewrite ER, <- HR. cbn [i_vt i_attrs attr_get k_template Z.eqb].
  repeat split; try assumption; [exists []; reflexivity|]. rewrite ED. discriminate.
Qed.

(* what get_references lists: the selected objects, each as given (repeats kept, order kept),
   the description item never; filters select by value type and referenced SOP class; a value
   type that cannot reference an object is refused *)
Lemma filter_app_nil_l {A} (p : A -> bool) (l1 l2 : list A) :
  (forall x, In x l1 -> p x = false) -> filter p (l1 ++ l2) = filter p l2.
Proof.
  intros H. rewrite filter_app. replace (filter p l1) with (@nil A); [reflexivity|].
  symmetry. induction l1 as [|x l1 IH]; [reflexivity|]. cbn [filter]. rewrite (H x (or_introl eq_refl)).
  apply IH. intros y Hy. apply H. now right.
Qed.

Lemma ko_references_listed : forall title tx descr refs root,
  ko_content title tx descr refs = Ok root ->
  ko_get_references None None root = Ok (map ko_ref_item refs) /\
  (forall cf, ko_get_references None cf root = Ok (filter (cls_ok cf) (map ko_ref_item refs))) /\
  (forall t cf, ref_vt t = true ->
     ko_get_references (Some t) cf root =
     Ok (filter (fun it => vt_eqb (i_vt it) t && cls_ok cf it) (map ko_ref_item refs))) /\
  (forall t cf, ref_vt t = false -> ko_get_references (Some t) cf root = Err "ValueError").
Proof.
  intros title tx descr refs root HC. unfold ko_content in HC.
  destruct refs as [|r0 refs]; [discriminate|]. inversion HC as [HR]. clear HC.
  set (D := match descr with Some _ => [Item TEXT 113012 1 None [] []] | None => [] end).
  assert (HD : forall (p : item -> bool), (forall x, In x D -> p x = false) ->
               filter p (D ++ map ko_ref_item (r0 :: refs)) = filter p (map ko_ref_item (r0 :: refs))).
  { intros p Hp. now apply filter_app_nil_l. }
  assert (HT : forall x, In x D -> i_vt x = TEXT).
  { intros x Hx. subst D. destruct descr; [destruct Hx as [<-|[]]; reflexivity|destruct Hx]. }
  assert (HA : forall x, In x (map ko_ref_item (r0 :: refs)) -> ref_vt (i_vt x) = true).
  { intros x Hx. apply in_map_iff in Hx. destruct Hx as [[[u c] img] [<- _]]. destruct img; reflexivity. }
  assert (ALL : forall cf, filter (fun it => ref_vt (i_vt it) && cls_ok cf it) (map ko_ref_item (r0 :: refs)) =
                           filter (cls_ok cf) (map ko_ref_item (r0 :: refs))).
  { intros cf. apply filter_ext_in. intros x Hx. now rewrite (HA x Hx). }
  unfold ko_get_references. cbn [i_kids]. fold D.
  split; [|split; [|split]].
  - rewrite HD by (intros x Hx; rewrite (HT x Hx); reflexivity). rewrite ALL.
    f_equal. apply (proj2 (filter_id_iff (cls_ok None) _)). reflexivity.
  - intros cf. rewrite HD by (intros x Hx; rewrite (HT x Hx); reflexivity). now rewrite ALL.
  - intros t cf Ht. rewrite Ht. f_equal. apply HD. intros x Hx. rewrite (HT x Hx).
    destruct t; try reflexivity; discriminate.
  - intros t cf Ht. now rewrite Ht.
Qed.

(* the selected objects as read back: value type by kind, instance and class as given *)
Lemma ko_ref_item_spec : forall u c img,
  i_ref (ko_ref_item (u, c, img)) = Some (u, c) /\
  i_vt (ko_ref_item (u, c, img)) = (if img then IMAGE else COMPOSITE) /\
  i_rel (ko_ref_item (u, c, img)) = 1 /\ i_kids (ko_ref_item (u, c, img)) = [].
Proof. intros u c []; repeat split. Qed.

Definition ko_ex_ev : list evd := [Evd 3 0 1 11; Evd 1 0 1 11; Evd 2 1 1 12; Evd 1 0 1 11].
Lemma ko_example :
  exists root d, ko_content 113000 [4; 5; 17010] (Some 2) [(1, 0, true); (2, 1, false); (1, 0, true)] = Ok root /\
    ko_init ko_ex_ev true root = Ok d /\ ko_from_dataset true d = Ok d /\
    d_current d = [(1, [(11, [(1, 0)]); (12, [(2, 1)])])] /\
    resolve_reference d 2 = Ok (1, 12, 2) /\ resolve_reference d 3 = Err "ValueError" /\
    ko_get_references (Some IMAGE) None root = Ok [ko_ref_item (1, 0, true); ko_ref_item (1, 0, true)] /\
    ko_get_references None (Some 1) root = Ok [ko_ref_item (2, 1, false)] /\
    ko_from_dataset true (snd (ko_tamper 2 d)) = Err "ValueError" /\
    ko_from_dataset true (snd (ko_tamper 3 d)) = Err "AttributeError".
Proof. eexists. eexists. split; [reflexivity|]. split; [vm_compute; reflexivity|]. repeat split. Qed.

(* ---- get_evidence_series: exact list ------------------------------------------------------ *)
Section DedupExact.
  Context {A : Type} (eqb : A -> A -> bool).
  Hypothesis eqb_spec : forall a b, eqb a b = true <-> a = b.

  Lemma dedup_from_app_fresh : forall l1 l2 seen, NoDup l1 -> (forall x, In x l1 -> ~ In x seen) ->
    dedup_from eqb seen (l1 ++ l2) = l1 ++ dedup_from eqb (rev l1 ++ seen) l2.
  Proof.
    induction l1 as [|x l1 IH]; intros l2 seen Hn Hs; [reflexivity|].
    inversion Hn as [|? ? Hx Hl]; subst. cbn [app dedup_from rev].
    destruct (existsb (eqb x) seen) eqn:E.
    - apply (existsb_eqb_In eqb eqb_spec) in E. exfalso. apply (Hs x); [now left|assumption].
    - rewrite <- app_assoc. cbn [app]. f_equal. apply IH; [assumption|].
      intros y Hy [<-|Hin]; [contradiction|]. apply (Hs y); [now right|assumption].
  Qed.

  Lemma existsb_eqb_ext : forall x s1 s2, (forall y, In y s1 <-> In y s2) ->
    existsb (eqb x) s1 = existsb (eqb x) s2.
  Proof.
    intros x s1 s2 H. destruct (existsb (eqb x) s1) eqn:E1, (existsb (eqb x) s2) eqn:E2; try reflexivity.
    - apply (existsb_eqb_In eqb eqb_spec) in E1. apply H in E1. apply (existsb_eqb_In eqb eqb_spec) in E1. congruence.
    - apply (existsb_eqb_In eqb eqb_spec) in E2. apply H in E2. apply (existsb_eqb_In eqb eqb_spec) in E2. congruence.
  Qed.

  Lemma dedup_from_filter : forall l seen, NoDup l ->
    dedup_from eqb seen l = filter (fun x => negb (existsb (eqb x) seen)) l.
  Proof.
    induction l as [|x l IH]; intros seen Hn; [reflexivity|].
    inversion Hn as [|? ? Hx Hl]; subst. cbn [dedup_from filter].
    destruct (existsb (eqb x) seen) eqn:E; cbn [negb]; [now apply IH|].
    f_equal. rewrite (IH (x :: seen) Hl). apply filter_ext_in. intros y Hy. cbn [existsb].
    destruct (eqb y x) eqn:Eyx; [|reflexivity]. apply eqb_spec in Eyx. subst y. contradiction.
  Qed.

  Lemma dedup_app_exact : forall l1 l2, NoDup l1 -> NoDup l2 ->
    dedup eqb (l1 ++ l2) = l1 ++ filter (fun x => negb (existsb (eqb x) l1)) l2.
  Proof.
    intros l1 l2 H1 H2. unfold dedup. rewrite dedup_from_app_fresh by (auto; intros x _ []).
    f_equal. rewrite app_nil_r. rewrite (dedup_from_filter _ _ H2). apply filter_ext. intros x. f_equal.
    apply existsb_eqb_ext. intros y. symmetry. apply in_rev.
  Qed.
End DedupExact.

(* every series of the current evidence, then the series of the other evidence that are not
   already listed - the exact list, in order *)
Lemma readback_series_exact : forall c a d, sr_init c a = Ok d ->
  get_evidence_series d false =
  flatten_series (d_current d) ++
  filter (fun p => negb (existsb (pair_eqb p) (flatten_series (d_current d)))) (flatten_series (d_other d)).
Proof.
  intros c a d H. destruct (doc_partition _ _ _ H) as [_ [_ [_ [_ [N2 [_ [_ [N5 _]]]]]]]].
  unfold get_evidence_series. now apply (dedup_app_exact pair_eqb pair_eqb_spec).
Qed.

(* ---- key object documents: exact acceptance, single study --------------------------------- *)
Lemma ko_init_iff : forall ev ts root d,
  ko_init ev ts root = Ok d <->
  ev <> [] /\ ts = true /\
  exists st sers oth, collect_evidence true ev root = Ok ([(st, sers)], oth) /\
    d = Doc ko_code root [(st, sers)] [] None false false false None no_recorded.
Proof.
  intros ev ts root d. unfold ko_init. split.
  - intros H. destruct ev as [|e0 ev]; [discriminate|]. destruct ts; cbn [negb] in H; [|discriminate].
    destruct (collect_evidence true (e0 :: ev) root) as [[cur oth]|k] eqn:E; cbn [bind fst] in H; [|discriminate].
    destruct cur as [|[st sers] [|s2 cur]]; try discriminate. inversion H.
    repeat split; try discriminate. exists st, sers, oth. auto.
  - intros [Hne [-> [st [sers [oth [E ->]]]]]]. destruct ev as [|e0 ev]; [congruence|]. cbn [negb].
    rewrite E. reflexivity.
Qed.

(* every referenced instance was supplied, and all of them (by their first record) under ONE study *)
Lemma ko_single_study : forall ev ts root d, ko_init ev ts root = Ok d ->
  exists st, forall u, referenced root u ->
    exists e, first_evd ev u = Some e /\ e_study e = st.
Proof.
  intros ev ts root d H. apply ko_init_iff in H. destruct H as [_ [_ [st [sers [oth [Hc _]]]]]].
  exists st. intros u Hu.
  assert (Hs : In u (map e_uid ev)).
  { destruct (collect_ok _ _ _ _ Hc) as [R [HR [Hs _]]]. apply Hs. now apply (R_spec _ _ HR). }
  apply first_evd_some in Hs. destruct Hs as [[u' c st' se] Hf].
  destruct (first_evd_uid _ _ _ Hf) as [Eu _]. cbn [e_uid] in Eu. subst u'.
  exists (Evd u c st' se). split; [exact Hf|]. cbn [e_study].
  assert (Hin : In (st', se, u, c) (flatten [(st, sers)])) by (apply (partition_current _ _ _ _ Hc); auto).
  unfold flatten in Hin. cbn [flat_map fst snd] in Hin. rewrite app_nil_r in Hin.
  apply in_flat_map in Hin. destruct Hin as [s [_ Hin]]. apply in_map_iff in Hin.
  destruct Hin as [i [E _]]. now inversion E.
Qed.

Lemma ko_two_studies_refused : forall ev ts root u1 u2 e1 e2,
  referenced root u1 -> referenced root u2 ->
  first_evd ev u1 = Some e1 -> first_evd ev u2 = Some e2 -> e_study e1 <> e_study e2 ->
  forall d, ko_init ev ts root <> Ok d.
Proof.
  intros ev ts root u1 u2 e1 e2 H1 H2 F1 F2 Hne d H.
  destruct (ko_single_study _ _ _ _ H) as [st Hst].
  destruct (Hst u1 H1) as [x1 [G1 S1]]. destruct (Hst u2 H2) as [x2 [G2 S2]]. congruence.
Qed.

(* everything but the rebuilt root item is carried over by parsing: evidence sequences,
   predecessors, flags, verifying observer, and hence all four evidence read-backs *)
Lemma parsed_keeps_evidence : forall c a d d', sr_init c a = Ok d -> srread d = Ok (c, d') ->
  d_cls d' = d_cls d /\ d_current d' = d_current d /\ d_other d' = d_other d /\ d_pred d' = d_pred d /\
  d_complete d' = d_complete d /\ d_verified d' = d_verified d /\ d_final d' = d_final d /\
  d_observer d' = d_observer d /\ d_extras d' = d_extras d /\
  (forall b, get_evidence d' b = get_evidence d b) /\
  (forall b, get_evidence_series d' b = get_evidence_series d b).
Proof.
  intros c a d d' H HR. rewrite (srread_spec _ _ _ H) in HR. injection HR as <-.
  destruct d. repeat split.
Qed.

(* ---- arguments that are only recorded: institution, department, performed procedure codes,
   requested procedures.  They take part in NO guard of any of the three constructors: whatever
   they are, the verdict (acceptance, error class) and everything else in the document are the
   same - in particular the verification details are demanded, and recorded as given, whether or
   not an institution name (or anything else) is supplied. ------------------------------------- *)
Definition set_extras (a : sr_args) (x : extras) : sr_args :=
  Args (a_evidence a) (a_content a) (a_root_cs a) (a_ts_ok a) (a_complete a) (a_final a)
       (a_verified a) (a_observer a) (a_org a) (a_previous a) (a_record a) x.

Definition set_recorded (d : doc) (w : recorded) : doc :=
  Doc (d_cls d) (d_content d) (d_current d) (d_other d) (d_pred d)
      (d_complete d) (d_verified d) (d_final d) (d_observer d) w.

Definition map_ok {A B} (f : A -> B) (r : res A) : res B :=
  match r with Ok x => Ok (f x) | Err k => Err k end.

Lemma set_extras_same : forall a, set_extras a (a_extras a) = a.
Proof. intros []. reflexivity. Qed.

Lemma base_extras_frame : forall cls a x,
  sr_base_init cls (set_extras a x) =
  map_ok (fun d => set_recorded d (record_extras x)) (sr_base_init cls a).
Proof.
  intros cls a x. rewrite !sr_base_init_spec. unfold sr_base_spec, verif_missing, set_extras, built_doc, map_ok.
  cbn [a_evidence a_content a_root_cs a_ts_ok a_complete a_final a_verified a_observer a_org a_previous
       a_record a_extras].
  destruct (a_evidence a) as [|e0 ev]; [reflexivity|].
  destruct (a_ts_ok a); cbn [negb]; [|reflexivity].
  destruct (a_verified a && (negb (given (a_observer a)) || negb (given (a_org a)))); [reflexivity|].
  destruct (single_root (a_content a)) as [root|]; [|reflexivity].
  destruct (negb (i_rel root =? 0)); [reflexivity|].
  destruct (negb (vt_eqb (i_vt root) CONTAINER)); [reflexivity|].
  destruct (collect_evidence (a_root_cs a) (e0 :: ev) root) as [cu|k]; reflexivity.
Qed.

Lemma extras_frame : forall c a x,
  sr_init c (set_extras a x) = map_ok (fun d => set_recorded d (record_extras x)) (sr_init c a).
Proof.
  intros c a x. unfold sr_init. rewrite base_extras_frame.
  destruct (sr_base_init (class_code c) a) as [d0|k]; cbn [map_ok bind]; [|reflexivity].
  destruct d0 as [k0 ct cur oth pr co ve fi ob ex]. unfold set_recorded.
  cbn [d_content d_cls d_current d_other d_pred d_complete d_verified d_final d_observer].
  destruct c; try reflexivity; (destruct (has_scoord3d ct); reflexivity).
Qed.

(* the verdict does not depend on them *)
Lemma extras_verdict : forall c a x k,
  sr_init c (set_extras a x) = Err k <-> sr_init c a = Err k.
Proof.
  intros c a x k. rewrite extras_frame. destruct (sr_init c a); cbn [map_ok]; split; intros H; try discriminate; exact H.
Qed.

Lemma extras_recorded : forall c a d, sr_init c a = Ok d ->
  d_extras d = record_extras (a_extras a) /\
  w_institution (d_extras d) = x_institution (a_extras a) /\
  w_department (d_extras d) =
    (match x_institution (a_extras a) with Some _ => x_department (a_extras a) | None => None end) /\
  w_codes (d_extras d) = Some (match x_codes (a_extras a) with Some l => l | None => [] end) /\
  w_requests (d_extras d) = x_requests (a_extras a).
Proof.
  intros c a d H. apply sr_init_iff in H. destruct H as [root [cu [_ [-> _]]]].
  cbn [built_doc d_extras]. repeat split.
Qed.

(* the verification clause, whatever else is supplied *)
Lemma verification_whatever_else : forall c a x,
  (a_verified a = true ->
     (a_observer a = None \/ a_observer a = Some 0 \/ a_org a = None \/ a_org a = Some 0) ->
     sr_init c (set_extras a x) = Err "ValueError") /\
  (forall d, sr_init c (set_extras a x) = Ok d ->
     d_verified d = a_verified a /\
     (a_verified a = true ->
        exists n o, a_observer a = Some n /\ a_org a = Some o /\ d_observer d = Some (n, o) /\
                    n <> 0 /\ o <> 0) /\
     (a_verified a = false -> d_observer d = None)).
Proof.
  intros c a x. split.
  - intros Hv Hn. apply verified_needs_details; [assumption|].
    cbn [set_extras a_observer a_org]. rewrite !given_false_iff. tauto.
  - intros d H. destruct (verified_recorded _ _ _ H) as [V1 [_ [_ [V2 V3]]]]. auto.
Qed.

(* the verification guard as an equivalence: with evidence and a supported transfer syntax, the
   constructor of every class refuses BECAUSE OF the verification details exactly when the
   document is marked verified and a detail is absent or empty *)
Lemma verif_missing_iff : forall a,
  verif_missing a = true <->
  a_verified a = true /\
  (a_observer a = None \/ a_observer a = Some 0 \/ a_org a = None \/ a_org a = Some 0).
Proof.
  intros a. unfold verif_missing. rewrite andb_true_iff, orb_true_iff, !negb_true_iff, !given_false_iff. tauto.
Qed.

(* the scenario of a verified document without organization but with an institution name:
   refused by all three classes; with both details: accepted, the details recorded as given,
   the institution recorded as institution *)
Definition ver_args (org : option Z) (x : extras) : sr_args :=
  Args [Evd 1 0 1 11] (CDataset (Item CONTAINER 1 0 None [] [Item TEXT 2 1 None [] []])) true true
       true true true (Some 7) org None true x.
Lemma verification_example :
  sr_init Comprehensive3D (ver_args None (Extras (Some 3) (Some 4) None None)) = Err "ValueError" /\
  sr_init Comprehensive (ver_args None (Extras (Some 3) None None None)) = Err "ValueError" /\
  sr_init Enhanced (ver_args None (Extras (Some 3) None None (Some [9]))) = Err "ValueError" /\
  sr_init Comprehensive3D (ver_args (Some 0) (Extras (Some 3) None None None)) = Err "ValueError" /\
  sr_init Enhanced (ver_args (Some 0) no_extras) = Err "ValueError" /\
  exists d, sr_init Comprehensive3D (ver_args (Some 8) (Extras (Some 3) (Some 4) None (Some [9]))) = Ok d /\
    d_observer d = Some (7, 8) /\ d_extras d = Recorded (Some 3) (Some 4) (Some []) (Some [9]).
Proof. repeat split. eexists. split; [vm_compute; reflexivity|]. split; reflexivity. Qed.

(* ==== coded entries (session 6) ==============================================================
   A coded entry (concept name of an item, value of a CODE item, unit / qualifier of a NUM item)
   may carry more than code value, scheme designator and meaning: the long / URN form of the value,
   a scheme version, the context group identification and extension, the mapping resource,
   equivalent codes.  The model carries them as optional attributes 14 (name), 15 (CODE value),
   16 (NUM unit), 17 (NUM qualifier) of the item.  They are content like everything else: the
   document holds them as given, and a parsed document exposes them - those of every descendant
   because descendants are carried over whole, the one of the ROOT's concept name because
   _SR.from_dataset copies the whole ConceptNameCodeSequence (key 14 is a root key). *)
Definition entry_view (k : Z) (it : item) : Z * option (list Z) := (i_tag it, attr_get k (i_attrs it)).

Lemma coded_entries_kept : forall c a d root, sr_init c a = Ok d -> single_root (a_content a) = Some root ->
  d_content d = root /\
  exists d', srread d = Ok (c, d') /\
    entry_view k_name_entry (d_content d') = entry_view k_name_entry root /\
    descendants (d_content d') = descendants root /\
    (forall k, map (entry_view k) (descendants (d_content d')) = map (entry_view k) (descendants root)) /\
    ((forall kv, In kv (i_attrs root) -> root_key (fst kv) = true) -> i_ref root = None ->
     d' = d /\ d_content d' = root).
Proof.
  intros c a d root H HR.
  destruct (parsed_tree _ _ _ _ H HR) as [d' [S [D [_ [T [_ [K [_ E]]]]]]]].
  pose proof (tree_copied _ _ _ H) as HT. rewrite HR in HT. inversion HT as [E0].
  split; [reflexivity|]. exists d'. split; [exact S|]. rewrite <- E0 in *.
  split; [unfold entry_view; rewrite T, (K k_name_entry eq_refl); reflexivity|].
  split; [exact D|]. split; [intros k; now rewrite D|].
  intros HA HN. apply E. split; assumption.
Qed.

(* the same for every from_dataset (any target class, any dataset that is accepted) *)
Lemma coded_entries_from_dataset : forall target has_cs d d', sr_from_dataset target has_cs d = Ok d' ->
  entry_view k_name_entry (d_content d') = entry_view k_name_entry (d_content d) /\
  descendants (d_content d') = descendants (d_content d).
Proof.
  intros target has_cs d d' H. destruct (from_dataset_spec _ _ _ _ H) as [-> _].
  destruct (reroot_keeps (d_content d)) as [_ [K2 [_ [K4 [K5 _]]]]].
  replace (d_content (set_content d (reroot (d_content d)))) with (reroot (d_content d)) by (destruct d; reflexivity).
  split; [unfold entry_view; rewrite K2, (K5 k_name_entry eq_refl); reflexivity|exact K4].
Qed.

(* a key object document: the coded entry given as document title is in the document and in the
   parsed document *)
Lemma ko_title_entry : forall ev ts title tx descr refs root d,
  ko_content title tx descr refs = Ok root -> ko_init ev ts root = Ok d ->
  i_tag (d_content d) = title /\
  attr_get k_name_entry (i_attrs (d_content d)) = (match tx with [] => None | _ => Some tx end) /\
  ko_from_dataset true d = Ok d.
Proof.
  intros ev ts title tx descr refs root d HC HI. pose proof (ko_roundtrip _ _ _ _ _ _ _ _ HC HI) as R.
  destruct (ko_init_inv _ _ _ _ HI) as [_ [_ [ER _]]]. rewrite ER.
  unfold ko_content in HC. destruct refs as [|r0 refs]; [discriminate|]. inversion HC as [HR].
  cbn [i_tag i_attrs]. repeat split; [|exact R]. destruct tx; reflexivity.
Qed.

(* non-vacuity: context group identification on the root's name (14), on a CODE value at depth 2
   (15), long-form name + versioned unit + qualifier with an equivalent code on a NUM item at
   depth 3 (14, 16, 17): accepted, and the parsed document IS the document written *)
Definition entry_tree : item :=
  Item CONTAINER 1 0 None [(1, [2000]); (14, [4; 5; 17021; 27021])]
    [Item CONTAINER 2 1 None []
       [Item CODE 3 1 None [(15, [4; 5; 6; 8; 9; 17150])]
          [Item NUM 4 2 None [(3, [114006]); (14, [2]); (16, [12]); (17, [41; 50007])] []]];
     Item IMAGE 5 1 (Some (1, 0)) [(14, [3; 11])] []].
Lemma entry_example :
  exists d, sr_init Comprehensive
              (Args [Evd 1 0 1 11] (CDataset entry_tree) true true false false false None None None true no_extras) = Ok d /\
    d_content d = entry_tree /\ srread d = Ok (Comprehensive, d) /\
    map (entry_view k_qualifier_entry) (descendants (d_content d)) =
      [(2, None); (3, None); (4, Some [41; 50007]); (5, None)] /\
    entry_view k_name_entry (d_content d) = (1, Some [4; 5; 17021; 27021]).
Proof. eexists. split; [vm_compute; reflexivity|]. repeat split. Qed.
