(* C06 - end-to-end statements: get_frame = the standard's staged pipeline (one theorem),
   reuse of one transform for several frames (get_frames / _get_pixels_by_frame /
   get_volume_from_series), palette parsing, output-dtype checks, real world value range checks. *)
From Coq Require Import String ZArith List Bool Lia ZifyBool QArith Qfield Lqa Qminmax Qround.
From HD Require Import Base.Val C06_Model C06_Proofs C06_Proofs_Fold.
Import ListNotations.
Open Scope Z_scope.

(* ================================================================== *)
(* 1. the stages a discovery result stands for                         *)
(* ================================================================== *)
Definition lut_table (l : lutds) : list Z := match lut_data l with Ok d => d | Err _ => [] end.

Definition stage_mod (fd : found) : mod_stage :=
  match fd_modlut fd with
  | Some ml => MLut (ld_first ml) (lut_table ml)
  | None => match fd_rescale fd with Some (m, b) => MRescale m b | None => MNone end
  end.
Definition stage_voi (fd : found) : voi_stage :=
  match fd_window fd with
  | Some (c, w) => VWin (fd_fn fd) c w
  | None => match fd_voilut fd with
            | Some vl => VLut (ld_first vl) (lut_table vl)
            | None => VNone
            end
  end.

(* what the data must satisfy (PS3.3: window width >= 1 / > 0; LUTData is a byte string) *)
Definition lut_wf (l : lutds) : Prop := Forall (fun b => 0 <= b < 256) (ld_bytes l).
Definition fd_guards (fd : found) : Prop :=
  match fd_window fd with Some (_, w) => fn_guard (fd_fn fd) w | None => True end /\
  match fd_modlut fd with Some ml => lut_wf ml | None => True end.

Lemma Qfloor'_is_Qfloor q : Qfloor' q = Qfloor q.
Proof. destruct q; reflexivity. Qed.
Lemma Qfloor'_compat a b : (a == b)%Q -> Qfloor' a = Qfloor' b.
Proof. intros H. rewrite !Qfloor'_is_Qfloor. now apply Qfloor_comp. Qed.
Lemma Qis_int_eq q : Qis_int q = true -> (q == inject_Z (Qfloor' q))%Q.
Proof.
  unfold Qis_int, Qfloor', Qeq, inject_Z. destruct q as [n d]. cbn [Qnum Qden].
  intros H. apply Z.eqb_eq in H.
  pose proof (Z_div_mod_eq_full n (Z.pos d)). lia.
Qed.

Lemma existsb_false_Forall {A} (p : A -> bool) l : existsb p l = false -> Forall (fun x => p x = false) l.
Proof.
  induction l as [|a l IH]; intros H; [constructor|]. cbn [existsb] in H.
  apply orb_false_iff in H. destruct H. constructor; auto.
Qed.

Lemma removelast_Forall {A} (P : A -> Prop) l : Forall P l -> Forall P (removelast l).
Proof.
  induction l as [|a l IH]; intros H; [constructor|].
  inversion H; subst. destruct l; [constructor|]. cbn [removelast].
  constructor; [assumption|]. now apply IH.
Qed.
Lemma dec16_range : forall n l, (length l <= n)%nat -> Forall (fun b => 0 <= b < 256) l ->
  Forall (fun v => 0 <= v < 65536) (dec16 l).
Proof.
  induction n as [|n IH]; intros l Hl H.
  - destruct l; [constructor|cbn in Hl; lia].
  - destruct l as [|a [|b t]]; try constructor.
    + inversion H as [|? ? Ha Ht]; subst. inversion Ht as [|? ? Hb Ht']; subst. lia.
    + apply IH; [cbn [length] in Hl; lia|].
      inversion H as [|? ? Ha Ht]; subst. inversion Ht; subst. assumption.
Qed.

Lemma lut_data_ok l d : lut_data l = Ok d ->
  d <> [] /\ (ld_bits l = 8 \/ ld_bits l = 16) /\
  (lut_wf l -> Forall (fun v => 0 <= v < 2 ^ ld_bits l) d).
Proof.
  unfold lut_data, lut_entries.
  destruct (negb ((ld_bits l =? 8) || (ld_bits l =? 16))) eqn:B; [discriminate|].
  set (len := if ld_n l =? 0 then 65536 else ld_n l).
  destruct (ld_scalar l).
  { destruct ((ld_bits l =? 8) && existsb (fun v => 256 <=? v) (dec16 (ld_bytes l))) eqn:OV; [discriminate|].
    destruct (zlen (dec16 (ld_bytes l)) =? len) eqn:L; [|discriminate].
    intros H; inversion H; subst d; clear H.
    split; [|split].
    - intros E0. rewrite E0 in L. change (zlen []) with 0 in L. subst len.
      destruct (ld_n l =? 0) eqn:N; lia.
    - lia.
    - intros W. pose proof (dec16_range (length (ld_bytes l)) (ld_bytes l) (le_n _) W) as R16.
      destruct (ld_bits l =? 8) eqn:B8.
      + assert (ld_bits l = 8) as -> by lia. change (2 ^ 8) with 256. cbn [andb] in OV.
        apply existsb_false_Forall in OV.
        rewrite Forall_forall in *. intros v Hv. specialize (OV v Hv). specialize (R16 v Hv). cbn beta in *. lia.
      + assert (ld_bits l = 16) as -> by lia. exact R16. }
  set (data := if _ && _ && _ then removelast (ld_bytes l) else ld_bytes l).
  destruct (zlen (if ld_bits l =? 8 then data else dec16 data) =? len) eqn:L; [|discriminate].
  intros H; inversion H; subst d; clear H.
  assert (Hdata : lut_wf l -> Forall (fun b => 0 <= b < 256) data).
  { intros W. subst data. destruct (_ && _ && _); [now apply removelast_Forall|exact W]. }
  split; [|split].
  - intros E0. rewrite E0 in L. change (zlen []) with 0 in L. subst len.
    destruct (ld_n l =? 0) eqn:N; lia.
  - lia.
  - intros W. specialize (Hdata W). destruct (ld_bits l =? 8) eqn:B8.
    + assert (ld_bits l = 8) as -> by lia. exact Hdata.
    + assert (ld_bits l = 16) as -> by lia. change (2 ^ 16) with 65536.
      now apply (dec16_range (length data)).
Qed.

Lemma scaled_ok vdata ymin ymax inv sd : vdata <> [] ->
  scaled_lut_data vdata ymin ymax inv = Ok sd -> lmin vdata < lmax vdata.
Proof.
  intros Hne. unfold scaled_lut_data.
  destruct (Qle_bool (ymax - ymin) 0); [discriminate|].
  destruct (lmax vdata =? lmin vdata) eqn:M; [discriminate|]. intros _.
  destruct (lmin_spec vdata Hne) as [Hin Hle].
  rewrite Forall_forall in Hle.
  destruct (lmax_spec vdata Hne) as [Hin' _].
  specialize (Hle _ Hin'). lia.
Qed.

Section E2E.
Variable E : Q -> Q.
Hypothesis E_compat : forall a b, (a == b)%Q -> (E a == E b)%Q.
Hypothesis E_inv : forall t, (E (- t) * E t == 1)%Q.
Hypothesis E_pos : forall t, (0 < E t)%Q.

(* VOI LUT through a rescale, for ANY rational slope / intercept the code accepts *)
Lemma fold_rescale_voilut_general : forall f vl vdata ymin ymax odt imin imax e r x,
  fd_rwvm f = None -> fd_modlut f = None -> fd_window f = None ->
  fd_voilut f = Some vl -> lut_data vl = Ok vdata -> (ymin < ymax)%Q ->
  fold E f ymin ymax odt (Some imin) (Some imax) = Ok (e, r) ->
  r = None /\
  (eff_apply_r E ymin ymax e x ==
   staged E (match fd_rescale f with Some (m, b) => MRescale m b | None => MNone end)
          (VLut (ld_first vl) vdata) (fd_invert f) ymin ymax imin imax x)%Q.
Proof.
  clear E_compat E_inv E_pos.
  intros f vl vdata ymin ymax odt imin imax e r x Hr Hm Hw Hv Hd Hy Hfold.
  destruct (lut_data_ok _ _ Hd) as (Hne & _ & _).
  set (si := match fd_rescale f with Some p => p | None => (1%Q, 0%Q) end).
  set (mz := Qfloor' (fst si)). set (bz := Qfloor' (snd si)).
  (* the same discovery result with the rescale written as integers *)
  set (f' := Found (fd_rwvm f) (fd_modlut f) (Some (inject_Z mz, inject_Z bz)) (fd_voilut f)
                   (fd_window f) (fd_fn f) (fd_invert f)).
  assert (Hint : Qis_int (snd si) && Qis_int (fst si) = true /\ 1 <= mz /\ (ld_first vl - bz) mod mz = 0 /\
                 is_float odt = true /\ exists sd, scaled_lut_data vdata ymin ymax (fd_invert f) = Ok sd).
  { revert Hfold. unfold fold. rewrite Hr, Hm, Hw, Hv. fold si. fold mz. fold bz.
    destruct (Qis_int (snd si) && Qis_int (fst si)); [|discriminate]. cbn [negb].
    destruct (mz <=? 0) eqn:M0; [discriminate|].
    destruct (is_float odt); [|discriminate]. cbn [negb]. unfold bind. rewrite Hd.
    destruct (scaled_lut_data vdata ymin ymax (fd_invert f)) as [sd|]; [|discriminate].
    destruct ((ld_first vl - bz) mod mz =? 0) eqn:D; [|discriminate]. intros _.
    repeat split; try lia. now exists sd. }
  destruct Hint as (Hi & Hm1 & Hdiv & Hf & sd & Hsd).
  assert (Hmm : lmin vdata < lmax vdata) by (eapply scaled_ok; eassumption).
  assert (Hsame : fold E f' ymin ymax odt (Some imin) (Some imax) = fold E f ymin ymax odt (Some imin) (Some imax)).
  { unfold fold. subst f'. cbn [fd_rwvm fd_modlut fd_rescale fd_voilut fd_window fd_fn fd_invert].
    rewrite Hr, Hm, Hw, Hv. cbn [fst snd]. fold si. fold mz. fold bz.
    rewrite !Qis_int_inject, !Qfloor_inject, Hi. reflexivity. }
  destruct (fold_rescale_voilut_sound E f' vl vdata mz bz ymin ymax odt imin imax x) as (e0 & He0 & Hval);
    try assumption; try reflexivity.
  rewrite Hsame, Hfold in He0. inversion He0; subst e0 r. split; [reflexivity|].
  rewrite Hval. subst f'. cbn [fd_invert].
  apply andb_true_iff in Hi. destruct Hi as [Hib Him].
  pose proof (Qis_int_eq _ Him) as Em. pose proof (Qis_int_eq _ Hib) as Eb. fold mz in Em. fold bz in Eb.
  unfold staged, st_range, st_modality, st_voi, st_present. cbn [fst snd].
  assert (Fl : Qfloor' (inject_Z mz * inject_Z x + inject_Z bz) =
               Qfloor' (match (match fd_rescale f with Some (m, b) => MRescale m b | None => MNone end) with
                        | MLut first data => inject_Z (lut_lookup 0 first data x)
                        | MRescale s b => (s * inject_Z x + b)%Q
                        | MNone => inject_Z x end)).
  { apply Qfloor'_compat. subst si. destruct (fd_rescale f) as [[m b]|]; cbn [fst snd] in *.
    - rewrite <- Em, <- Eb. reflexivity.
    - rewrite <- Em, <- Eb. ring. }
  rewrite Fl. reflexivity.
Qed.

(* ------------------------------------------------------------------ *)
(* fold_sound as ONE theorem: whatever the discovery found (no real world value map),
   if the folding succeeds, the folded transform is the staged pipeline
   modality -> VOI -> presentation on the stages found *)
Theorem fold_staged : forall fd ymin ymax odt imin imax e r,
  fd_rwvm fd = None -> fd_guards fd -> (ymin < ymax)%Q ->
  fold E fd ymin ymax odt (Some imin) (Some imax) = Ok (e, r) ->
  r = None /\
  forall x, (eff_apply_r E ymin ymax e x ==
             staged E (stage_mod fd) (stage_voi fd) (fd_invert fd) ymin ymax imin imax x)%Q.
Proof.
  intros fd ymin ymax odt imin imax e r Hr (Gw & Gl) Hy Hfold.
  assert (Hy' : (ymin <= ymax)%Q) by lra.
  unfold stage_mod, stage_voi, lut_table.
  destruct (fd_modlut fd) as [ml|] eqn:Hm.
  - (* modality LUT *)
    assert (Hd : exists mdata, lut_data ml = Ok mdata).
    { revert Hfold. unfold fold. rewrite Hr, Hm. unfold bind.
      destruct (lut_data ml) as [d|]; [eauto|discriminate]. }
    destruct Hd as (mdata & Hd). rewrite Hd.
    destruct (lut_data_ok _ _ Hd) as (Hne & Hbits & Hrange).
    destruct (fd_window fd) as [[c w]|] eqn:Hw.
    + assert (Hf : is_float odt = true).
      { revert Hfold. unfold fold. rewrite Hr, Hm. unfold bind. rewrite Hd, Hw.
        destruct (is_float odt); [reflexivity|discriminate]. }
      destruct (fold_modlut_window_sound E E_compat E_inv E_pos fd ml mdata c w ymin ymax odt imin imax 0)
        as (e0 & He0 & _); try assumption.
      rewrite Hfold in He0. inversion He0; subst e0 r. split; [reflexivity|]. intros x.
      destruct (fold_modlut_window_sound E E_compat E_inv E_pos fd ml mdata c w ymin ymax odt imin imax x)
        as (e1 & He1 & Hv1); try assumption.
      rewrite Hfold in He1. inversion He1; subst e1. exact Hv1.
    + destruct (fd_voilut fd) as [vl|] eqn:Hv.
      * assert (Hx : is_float odt = true /\ exists vdata sd, lut_data vl = Ok vdata /\
                     scaled_lut_data vdata ymin ymax (fd_invert fd) = Ok sd).
        { revert Hfold. unfold fold. rewrite Hr, Hm. unfold bind. rewrite Hd, Hw, Hv.
          destruct (is_float odt); [|discriminate]. cbn [negb].
          destruct (lut_data vl) as [vd|] eqn:Evd; [|discriminate].
          destruct (scaled_lut_data vd ymin ymax (fd_invert fd)) as [sd|] eqn:Esd; [|discriminate].
          intros _. split; [reflexivity|]. exists vd, sd. split; [reflexivity|exact Esd]. }
        destruct Hx as (Hf & vdata & sd & Hvd & Hsd). rewrite Hvd.
        destruct (lut_data_ok _ _ Hvd) as (Hvne & _ & _).
        assert (Hmm : lmin vdata < lmax vdata) by (eapply scaled_ok; eassumption).
        destruct (fold_lut_lut_sound E fd ml mdata vl vdata ymin ymax odt imin imax 0)
          as (e0 & He0 & _); try assumption.
        rewrite Hfold in He0. inversion He0; subst e0 r. split; [reflexivity|]. intros x.
        destruct (fold_lut_lut_sound E fd ml mdata vl vdata ymin ymax odt imin imax x)
          as (e1 & He1 & Hv1); try assumption.
        rewrite Hfold in He1. inversion He1; subst e1. exact Hv1.
      * assert (Hb : 0 < ld_bits ml) by lia.
        destruct (fold_modlut_alone_sound E fd ml mdata ymin ymax odt imin imax 0)
          as (e0 & He0 & _); try assumption; [now apply Hrange|].
        rewrite Hfold in He0. inversion He0; subst e0 r. split; [reflexivity|]. intros x.
        destruct (fold_modlut_alone_sound E fd ml mdata ymin ymax odt imin imax x)
          as (e1 & He1 & Hv1); try assumption; [now apply Hrange|].
        rewrite Hfold in He1. inversion He1; subst e1. exact Hv1.
  - (* rescale or nothing *)
    destruct (fd_window fd) as [[c w]|] eqn:Hw.
    + destruct (fd_rescale fd) as [[m b]|] eqn:Hs.
      * assert (Hm0 : ~ (m == 0)%Q).
        { revert Hfold. unfold fold. rewrite Hr, Hm, Hw, Hs. cbn [fst snd].
          destruct (Qeq_bool m 0) eqn:Q0; [discriminate|]. intros _ Q1.
          apply Qeq_bool_iff in Q1. congruence. }
        destruct (fold_rescale_window_sound E E_compat E_inv E_pos fd c w m b ymin ymax odt imin imax 0)
          as (e0 & He0 & _); try assumption.
        rewrite Hfold in He0. inversion He0; subst e0 r. split; [reflexivity|]. intros x.
        destruct (fold_rescale_window_sound E E_compat E_inv E_pos fd c w m b ymin ymax odt imin imax x)
          as (e1 & He1 & Hv1); try assumption.
        rewrite Hfold in He1. inversion He1; subst e1. exact Hv1.
      * destruct (fold_window_alone_sound E E_compat E_inv E_pos fd c w ymin ymax odt imin imax 0)
          as (e0 & He0 & _); try assumption.
        rewrite Hfold in He0. inversion He0; subst e0 r. split; [reflexivity|]. intros x.
        destruct (fold_window_alone_sound E E_compat E_inv E_pos fd c w ymin ymax odt imin imax x)
          as (e1 & He1 & Hv1); try assumption.
        rewrite Hfold in He1. inversion He1; subst e1. exact Hv1.
    + destruct (fd_voilut fd) as [vl|] eqn:Hv.
      * assert (Hd : exists vdata, lut_data vl = Ok vdata).
        { revert Hfold. unfold fold. rewrite Hr, Hm, Hw, Hv.
          destruct (negb _); [discriminate|]. destruct (_ <=? 0); [discriminate|].
          destruct (negb _); [discriminate|]. unfold bind.
          destruct (lut_data vl) as [d|]; [eauto|discriminate]. }
        destruct Hd as (vdata & Hd). rewrite Hd.
        split.
        -- now destruct (fold_rescale_voilut_general fd vl vdata ymin ymax odt imin imax e r 0 Hr Hm Hw Hv Hd Hy Hfold).
        -- intros x.
           now destruct (fold_rescale_voilut_general fd vl vdata ymin ymax odt imin imax e r x Hr Hm Hw Hv Hd Hy Hfold).
      * destruct (fd_rescale fd) as [[m b]|] eqn:Hs.
        -- destruct (fold_rescale_alone_sound E fd m b ymin ymax odt imin imax 0)
             as (e0 & He0 & _); try assumption.
           rewrite Hfold in He0. inversion He0; subst e0 r. split; [reflexivity|]. intros x.
           destruct (fold_rescale_alone_sound E fd m b ymin ymax odt imin imax x)
             as (e1 & He1 & Hv1); try assumption.
           rewrite Hfold in He1. inversion He1; subst e1. exact Hv1.
        -- destruct (fold_nothing_sound E fd ymin ymax odt imin imax 0)
             as (e0 & He0 & _); try assumption.
           rewrite Hfold in He0. inversion He0; subst e0 r. split; [reflexivity|]. intros x.
           destruct (fold_nothing_sound E fd ymin ymax odt imin imax x)
             as (e1 & He1 & Hv1); try assumption.
           rewrite Hfold in He1. inversion He1; subst e1. exact Hv1.
Qed.

End E2E.

(* ================================================================== *)
(* 2. get_frame = staged pipeline, as ONE theorem                      *)
(* ================================================================== *)
Lemma Forall2_map_r {A B} (P : A -> B -> Prop) (f : A -> B) xs :
  Forall (fun x => P x (f x)) xs -> Forall2 P xs (map f xs).
Proof. induction 1; cbn [map]; constructor; auto. Qed.

Definition stored_min (ds : dataset) : Z := if d_signed ds then - 2 ^ (d_bits_stored ds - 1) else 0.
Definition stored_max (ds : dataset) : Z :=
  if d_signed ds then 2 ^ (d_bits_stored ds - 1) - 1 else 2 ^ d_bits_stored ds - 1.
Lemma input_range_int ds : d_float_in ds = false ->
  input_range ds = (Some (stored_min ds), Some (stored_max ds)).
Proof. intros H. unfold input_range, stored_min, stored_max. rewrite H. destruct (d_signed ds); reflexivity. Qed.

(* what a real world value map does to one stored value *)
Definition rwvm_value (r : rwvm_kind) (x : Z) (y : Q) : Prop :=
  match r with
  | RLin s i a b => (a <= inject_Z x)%Q /\ (inject_Z x <= b)%Q /\ (y == inject_Z x * s + i)%Q
  | RLut first data => first <= x < first + zlen data /\ nth_error data (Z.to_nat (x - first)) = Some y
  end.

Section GetFrame.
Variable E : Q -> Q.
Hypothesis E_compat : forall a b, (a == b)%Q -> (E a == E b)%Q.
Hypothesis E_inv : forall t, (E (- t) * E t == 1)%Q.
Hypothesis E_pos : forall t, (0 < E t)%Q.

Lemma finish_apply ymin ymax e odt ds imin imax e' :
  finish e odt ds imin imax = Ok e' ->
  forall x, (eff_apply_r E ymin ymax e' x == eff_apply_r E ymin ymax e x)%Q.
Proof.
  unfold finish. destruct e as [|first data clip ldt|s i|c w fn inv].
  - intros H; inversion H; reflexivity.
  - destruct (_ && _); [discriminate|]. destruct (d_float_in ds); [discriminate|].
    intros H; inversion H; reflexivity.
  - destruct (Qeq_bool s 1 && Qeq_bool i 0) eqn:Q1.
    + intros H; inversion H; subst e'. intros x. cbn [eff_apply_r].
      apply andb_true_iff in Q1. destruct Q1 as [Qs Qi].
      apply Qeq_bool_iff in Qs. apply Qeq_bool_iff in Qi. rewrite Qs, Qi. ring.
    + unfold bind. destruct (check_rescale _ _ _ _ _ _); [|discriminate].
      intros H; inversion H; reflexivity.
  - destruct (is_float odt); [|discriminate]. intros H; inversion H; reflexivity.
Qed.

Lemma cast_out_float odt q : is_float odt = true -> cast_out odt q = q.
Proof. intros H. unfold cast_out. now rewrite H. Qed.

Lemma apply_frame_float ymin ymax idt odt e r xs ys : is_float odt = true ->
  apply_frame E ymin ymax idt odt (e, r) xs = Ok ys ->
  ys = map (eff_apply_r E ymin ymax e) xs /\
  (forall a b, r = Some (a, b) -> Forall (fun x => (a <= inject_Z x)%Q /\ (inject_Z x <= b)%Q) xs) /\
  (forall first data d, e = ELut first data false d -> Forall (fun x => in_lut_range first data x = true) xs).
Proof.
  intros Hf. unfold apply_frame. cbn [fst snd].
  assert (Hmap : map (fun x => cast_out odt (eff_apply_r E ymin ymax e x)) xs = map (eff_apply_r E ymin ymax e) xs).
  { apply map_ext. intros. now apply cast_out_float. }
  assert (Hrange : forall (H : (match r with
             | Some (a, b) => existsb (fun x => negb (Qle_bool a (inject_Z x)) || negb (Qle_bool (inject_Z x) b)) xs
             | None => false end) = false),
             forall a b, r = Some (a, b) -> Forall (fun x => (a <= inject_Z x)%Q /\ (inject_Z x <= b)%Q) xs).
  { intros H a b ->. apply existsb_false_Forall in H. eapply Forall_impl; [|exact H].
    cbn beta. intros x Hx. apply orb_false_iff in Hx. destruct Hx as [H1 H2].
    apply negb_false_iff in H1. apply negb_false_iff in H2.
    split; now apply Qle_bool_iff. }
  destruct (match r with Some _ => _ | None => false end) eqn:R; [discriminate|].
  specialize (Hrange eq_refl).
  destruct e as [|first data clip ldt|s i|c w fn inv].
  - rewrite Hf. cbn [negb andb]. intros H; injection H as <-.
    split; [apply map_ext; intros; now apply cast_out_float|]. split; [exact Hrange|]. intros; discriminate.
  - destruct clip.
    + intros H; injection H as <-. split; [reflexivity|]. split; [exact Hrange|]. intros; discriminate.
    + destruct (existsb _ xs) eqn:X; [discriminate|].
      intros H; injection H as <-. split; [reflexivity|]. split; [exact Hrange|].
      intros f0 d0 dd Heq. inversion Heq; subst. apply existsb_false_Forall in X.
      eapply Forall_impl; [|exact X]. cbn beta. intros x Hx. now apply negb_false_iff in Hx.
  - intros H; injection H as <-. split; [apply map_ext; intros; now apply cast_out_float|]. split; [exact Hrange|]. intros; discriminate.
  - intros H; injection H as <-. split; [reflexivity|]. split; [exact Hrange|]. intros; discriminate.
Qed.

(* THE composite statement: whatever the dataset, the flag vector, the selectors, the output
   range and the (floating point) output dtype, a frame that get_frame returns is - value by
   value - the stored frame passed through the stages that the flag gate let through and the
   discovery found for THIS frame: the selected real world value map alone, or else
   modality (LUT / rescale) -> VOI (window / LUT) -> presentation inversion. *)
Theorem get_frame_staged : forall ds fl rsel vsel ymin ymax odt frames fi ys,
  d_float_in ds = false -> is_float odt = true ->
  get_frame E ds fl rsel vsel ymin ymax odt frames fi = Ok ys ->
  exists u fd xs,
    gate fl (d_ctype ds) = Ok u /\ (ymin < ymax)%Q /\
    discover u (f_pres fl) ds rsel vsel fi = Ok fd /\
    frame_at frames fi = Ok xs /\
    match fd_rwvm fd with
    | Some r => Forall2 (rwvm_value r) xs ys
    | None => fd_guards fd ->
        Forall2 (fun x y => (y == staged E (stage_mod fd) (stage_voi fd) (fd_invert fd) ymin ymax
                                         (stored_min ds) (stored_max ds) x)%Q) xs ys
    end.
Proof.
  intros ds fl rsel vsel ymin ymax odt frames fi ys Hfi Hfo.
  unfold get_frame, frame_at.
  destruct (if 0 <=? fi then nth_error frames (Z.to_nat fi) else None) as [xs|]; [|discriminate].
  unfold combined, bind. rewrite (input_range_int ds Hfi). cbn [fst snd].
  destruct (gate fl (d_ctype ds)) as [u|] eqn:G; [|discriminate].
  destruct (Qle_bool ymax ymin) eqn:Y; [discriminate|].
  assert (Hy : (ymin < ymax)%Q).
  { apply Qnot_le_lt. intros C. apply Qle_bool_iff in C. congruence. }
  destruct (discover u (f_pres fl) ds rsel vsel fi) as [fd|] eqn:D; [|discriminate].
  destruct (fold E fd ymin ymax odt (Some (stored_min ds)) (Some (stored_max ds))) as [[e r]|] eqn:F; [|discriminate].
  cbn [fst snd].
  destruct (use_icc u && d_icc ds); [discriminate|]. destruct (req_icc u); [discriminate|].
  destruct (finish e odt ds (Some (stored_min ds)) (Some (stored_max ds))) as [e'|] eqn:Fi; [|discriminate].
  intros HA. exists u, fd, xs. repeat (split; [reflexivity || assumption|]).
  pose proof (finish_apply ymin ymax e odt ds _ _ e' Fi) as Hsame.
  destruct (apply_frame_float ymin ymax (d_in ds) odt e' r xs ys Hfo HA) as (Hys & Hrng & Hlut).
  subst ys.
  destruct (fd_rwvm fd) as [rk|] eqn:RW.
  - rewrite (fold_rwvm_sound E fd rk ymin ymax odt _ _ RW) in F.
    apply Forall2_map_r.
    destruct rk as [s i a b|first data]; inversion F; subst e r.
    + specialize (Hrng a b eq_refl). eapply Forall_impl; [|exact Hrng]. cbn beta.
      intros x (H1 & H2). cbn [rwvm_value]. repeat (split; [assumption|]).
      rewrite Hsame. reflexivity.
    + assert (e' = ELut first data false F64) as ->.
      { revert Fi. unfold finish. destruct (_ && _); [discriminate|].
        destruct (d_float_in ds); [discriminate|]. intros H; now inversion H. }
      specialize (Hlut first data F64 eq_refl). eapply Forall_impl; [|exact Hlut]. cbn beta.
      intros x Hx. unfold in_lut_range in Hx. cbn [rwvm_value eff_apply_r].
      split; [lia|]. apply lut_lookup_inside. lia.
  - intros Gd. apply Forall2_map_r.
    destruct (fold_staged E E_compat E_inv E_pos fd ymin ymax odt _ _ e r RW Gd Hy F) as (_ & Hv).
    apply Forall_forall. intros x _. rewrite Hsame. apply Hv.
Qed.

End GetFrame.

(* ================================================================== *)
(* 3. several frames in one call: reuse of the first frame's transform *)
(* ================================================================== *)
Definition same_presence (l l' : level) : Prop :=
  (lv_rwvm l = None <-> lv_rwvm l' = None) /\
  (level_rescale l = None <-> level_rescale l' = None) /\
  (lv_win l = None <-> lv_win l' = None).
(* every per-frame functional group carries the same KINDS of parameters (what the standard
   demands of a functional group: present in every per-frame item or in none) *)
Definition uniform (ds : dataset) : Prop :=
  forall pf l l', d_perframe ds = Some pf -> In l pf -> In l' pf -> same_presence l l'.

Lemma discover_at_irrel u pres ds rsel vsel o1 o2 o3 o1' o2' o3' :
  (use_rwvm u = true -> o1 = o1') ->
  (use_rwvm u && some o1 = false -> use_mod u = true -> d_modlut ds = None -> o2 = o2') ->
  (use_rwvm u && some o1 = false -> use_voi u = true -> d_voiluts ds = None ->
   match vsel with SUserLut _ => False | SUserWin _ _ _ => False | _ => True end -> o3 = o3') ->
  discover_at u pres ds rsel vsel o1 o2 o3 = discover_at u pres ds rsel vsel o1' o2' o3'.
Proof.
  intros H1 H2 H3. unfold discover_at, bind.
  assert (Hrw : (if use_rwvm u then match o1 with None => Ok None | Some rs =>
                    match select_rwvm rs rsel with None => Err "IndexError" | Some r => Ok (Some (r_kind r)) end end
                 else Ok None) =
                (if use_rwvm u then match o1' with None => Ok None | Some rs =>
                    match select_rwvm rs rsel with None => Err "IndexError" | Some r => Ok (Some (r_kind r)) end end
                 else Ok None)).
  { destruct (use_rwvm u); [rewrite (H1 eq_refl)|]; reflexivity. }
  rewrite <- Hrw.
  destruct (if use_rwvm u then _ else _) as [[rk|]|] eqn:RW; [reflexivity| |reflexivity].
  assert (Hno : use_rwvm u && some o1 = false).
  { destruct (use_rwvm u); [|reflexivity]. destruct o1 as [rs|]; [|reflexivity].
    destruct (select_rwvm rs rsel); discriminate. }
  specialize (H2 Hno). specialize (H3 Hno). cbn [negb andb].
  assert (Hre : (if use_mod u then match d_modlut ds with Some _ => None | None => o2 end else None) =
                (if use_mod u then match d_modlut ds with Some _ => None | None => o2' end else None)).
  { destruct (use_mod u); [|reflexivity]. destruct (d_modlut ds); [reflexivity|]. now apply H2. }
  rewrite Hre.
  destruct (req_rwvm u && true); [reflexivity|].
  destruct (req_mod u && _); [reflexivity|].
  destruct (use_voi u); [|reflexivity].
  destruct vsel; try reflexivity;
    (destruct (d_voiluts ds); [reflexivity|]; rewrite (H3 eq_refl eq_refl I); reflexivity).
Qed.

Lemma first_some_3 {B} (f : level -> option B) root l sh :
  first_some f (root :: l :: sh) = match f root with Some b => Some b | None =>
                                     match f l with Some b => Some b | None => first_some f sh end end.
Proof. reflexivity. Qed.

Lemma found_shared_same {B} (f : level -> option B) root l l' sh :
  found_shared f ((root, true) :: (l, false) :: sh) = true ->
  (f l = None <-> f l' = None) ->
  first_some f (root :: l :: map fst sh) = first_some f (root :: l' :: map fst sh).
Proof.
  intros H P. rewrite !first_some_3. cbn [found_shared fold_right fst snd] in H.
  destruct (f root); [reflexivity|].
  destruct (f l) eqn:Fl; [discriminate|].
  destruct P as [P _]. rewrite (P eq_refl). reflexivity.
Qed.

Section Reuse.
Variable E : Q -> Q.

Lemma combined_reuse ds fl rsel vsel ymin ymax odt first fi u pf l0 l1 :
  uniform ds -> gate fl (d_ctype ds) = Ok u -> applies_all u ds vsel first = true ->
  d_perframe ds = Some pf ->
  0 <= first -> nth_error pf (Z.to_nat first) = Some l0 ->
  0 <= fi -> nth_error pf (Z.to_nat fi) = Some l1 ->
  combined E ds fl rsel vsel ymin ymax odt fi = combined E ds fl rsel vsel ymin ymax odt first.
Proof.
  intros U G A Hpf H0 N0 H1 N1.
  destruct (U pf l0 l1 Hpf (nth_error_In _ _ N0) (nth_error_In _ _ N1)) as (P1 & P2 & P3).
  unfold combined, bind. rewrite G. destruct (Qle_bool ymax ymin); [reflexivity|].
  assert (D : discover u (f_pres fl) ds rsel vsel fi = discover u (f_pres fl) ds rsel vsel first).
  { unfold discover, levels, bind. rewrite Hpf.
    replace (0 <=? fi) with true by lia. replace (0 <=? first) with true by lia. rewrite N0, N1.
    unfold applies_all, tagged_levels in A. rewrite Hpf in A.
    replace (0 <=? first) with true in A by lia. rewrite N0 in A.
    set (sh := match d_shared ds with Some l => [l] | None => [] end).
    set (tsh := match d_shared ds with Some l => [(l, true)] | None => [] end) in A.
    assert (Hsh : sh = map fst tsh) by (subst sh tsh; destruct (d_shared ds); reflexivity).
    cbn [map fst] in A. rewrite <- Hsh in A.
    apply andb_true_iff in A. destruct A as [A A3]. apply andb_true_iff in A. destruct A as [A1 A2].
    symmetry. apply discover_at_irrel.
    - intros Uw. rewrite Uw in A1. rewrite Hsh. now apply found_shared_same.
    - intros Hno Um Ml. unfold some in Hno.
      rewrite Hno, Um, Ml in A2. cbn [negb andb] in A2. rewrite Hsh. now apply found_shared_same.
    - intros Hno Uv Vl Hsel. unfold some in Hno.
      rewrite Hno, Uv, Vl in A3. cbn [negb andb] in A3. rewrite Hsh.
      destruct vsel; try contradiction; now apply found_shared_same. }
  rewrite D. reflexivity.
Qed.

Lemma mapM_ext {A B} (f g : A -> res B) l : (forall a, In a l -> f a = g a) -> mapM f l = mapM g l.
Proof.
  induction l as [|a l IH]; intros H; [reflexivity|]. cbn [mapM].
  rewrite (H a (or_introl eq_refl)). rewrite IH; [reflexivity|]. intros; apply H; now right.
Qed.

(* the loop of get_frames / _get_pixels_by_frame returns exactly what get_frame returns for each
   requested frame, in the requested order, the first failing frame aborting the call *)
Theorem frames_with_is_map_get_frame : forall ds fl rsel vsel ymin ymax odt frames first fis er0,
  uniform ds -> (forall pf, d_perframe ds = Some pf -> length pf = length frames) ->
  combined E ds fl rsel vsel ymin ymax odt first = Ok er0 ->
  frames_with E ds fl rsel vsel ymin ymax odt frames first fis =
  mapM (fun fi => get_frame E ds fl rsel vsel ymin ymax odt frames fi) fis.
Proof.
  intros ds fl rsel vsel ymin ymax odt frames first fis er0 U W C.
  unfold frames_with. rewrite C. unfold bind at 1.
  assert (G : exists u, gate fl (d_ctype ds) = Ok u).
  { revert C. unfold combined, bind. destruct (gate fl (d_ctype ds)); [eauto|discriminate]. }
  destruct G as (u & G). rewrite G. unfold bind at 1.
  apply mapM_ext. intros fi _. unfold get_frame, frame_at.
  destruct (if 0 <=? fi then nth_error frames (Z.to_nat fi) else None) as [xs|] eqn:FX; [|reflexivity].
  unfold bind at 1.
  destruct (applies_all u ds vsel first) eqn:A; [|reflexivity].
  destruct (d_perframe ds) as [pf|] eqn:Hpf.
  - assert (L0 : exists l0, 0 <= first /\ nth_error pf (Z.to_nat first) = Some l0).
    { revert C. unfold combined, bind. rewrite G. destruct (Qle_bool ymax ymin); [discriminate|].
      unfold discover, levels, bind. rewrite Hpf.
      destruct (0 <=? first) eqn:F0; [|discriminate].
      destruct (nth_error pf (Z.to_nat first)) as [l0|]; [|discriminate]. intros _. exists l0. split; [lia|reflexivity]. }
    destruct L0 as (l0 & H0 & N0).
    destruct (0 <=? fi) eqn:F1; [|discriminate].
    assert (L1 : exists l1, nth_error pf (Z.to_nat fi) = Some l1).
    { destruct (nth_error pf (Z.to_nat fi)) as [l1|] eqn:N1; [eauto|].
      apply nth_error_None in N1. rewrite (W pf eq_refl) in N1.
      assert (nth_error frames (Z.to_nat fi) <> None) by congruence.
      apply nth_error_Some in H. lia. }
    destruct L1 as (l1 & N1).
    rewrite (combined_reuse ds fl rsel vsel ymin ymax odt first fi u pf l0 l1 U G A Hpf H0 N0 ltac:(lia) N1).
    rewrite C. reflexivity.
  - (* no per-frame groups: every frame sees the same datasets *)
    assert (Cs : combined E ds fl rsel vsel ymin ymax odt fi = combined E ds fl rsel vsel ymin ymax odt first).
    { unfold combined, discover, levels. rewrite Hpf. reflexivity. }
    rewrite Cs, C. reflexivity.
Qed.

Theorem get_frames_is_map_get_frame : forall ds fl rsel vsel ymin ymax odt frames fis,
  uniform ds -> (forall pf, d_perframe ds = Some pf -> length pf = length frames) -> fis <> [] ->
  get_frames E ds fl rsel vsel ymin ymax odt frames fis =
  mapM (fun fi => get_frame E ds fl rsel vsel ymin ymax odt frames fi) fis.
Proof.
  intros ds fl rsel vsel ymin ymax odt frames fis U W Hne.
  destruct fis as [|f0 t]; [congruence|]. unfold get_frames.
  destruct (frame_at frames f0) as [xs|k] eqn:FA.
  - unfold bind at 1.
    destruct (combined E ds fl rsel vsel ymin ymax odt f0) as [er0|k] eqn:C.
    + now apply frames_with_is_map_get_frame with (er0 := er0).
    + unfold frames_with. rewrite C. cbn [mapM bind]. unfold get_frame.
      unfold frame_at in FA.
      destruct (if 0 <=? f0 then nth_error frames (Z.to_nat f0) else None); [|discriminate].
      rewrite C. reflexivity.
  - cbn [mapM bind]. unfold get_frame. unfold frame_at in FA.
    destruct (if 0 <=? f0 then nth_error frames (Z.to_nat f0) else None); [discriminate|].
    injection FA as <-. reflexivity.
Qed.

End Reuse.

(* without uniformity the reuse is WRONG (the code as it is): frame 0 has no window of its own
   (the shared one applies), frame 1 carries its own window; get_frames returns frame 1 windowed
   with the SHARED window, get_frame(1) with its own *)
Definition nonuniform_ds : dataset :=
  DS Mono false None false false 8 (DT KU 8) None None (Level None None None None)
     (Some (Level None None None (Some (Windows [inject_Z 15] [inject_Z 20] None None))))
     (Some [Level None None None None; Level None None None (Some (Windows [inject_Z 100] [inject_Z 50] None None))])
     None false.
Lemma get_frames_reuse_refuted :
  let fl := Flags TF TN TT true TN TN in
  let frames := [[10; 20]; [10; 20]] in
  exists ys ys',
    get_frames E0 nonuniform_ds fl (SIdx 0) (SIdx 0) 0 1 F64 frames [0; 1] = Ok ys /\
    mapM (fun fi => get_frame E0 nonuniform_ds fl (SIdx 0) (SIdx 0) 0 1 F64 frames fi) [0; 1] = Ok ys' /\
    nth 1 ys [] <> nth 1 ys' [].
Proof.
  cbv zeta. eexists. eexists. split; [vm_compute; reflexivity|]. split; [vm_compute; reflexivity|].
  cbn [nth]. intros H. inversion H.
Qed.

(* ================================================================== *)
(* 4. frame-level range check of real world value maps                 *)
(* ================================================================== *)
Definition rwvm_in_range (r : rwvm_kind) (x : Z) : bool :=
  match r with
  | RLin _ _ a b => Qle_bool a (inject_Z x) && Qle_bool (inject_Z x) b
  | RLut first data => in_lut_range first data x
  end.

(* RealWorldValueMapping.apply: accepted iff EVERY value of the frame lies in the mapped range
   (ValueError otherwise, never a clipped or extrapolated value); accepted values are mapped *)
Theorem rwvm_apply_spec : forall r xs,
  (forallb (rwvm_in_range r) xs = true ->
     exists ys, rwvm_apply r xs = Ok ys /\ Forall2 (rwvm_value r) xs ys) /\
  (forallb (rwvm_in_range r) xs = false -> rwvm_apply r xs = Err "ValueError").
Proof.
  intros r xs. unfold rwvm_apply.
  assert (X : forall p : Z -> bool, existsb (fun x => negb (p x)) xs = negb (forallb p xs)).
  { intros p. induction xs as [|a l IH]; [reflexivity|]. cbn [existsb forallb]. rewrite IH.
    destruct (p a), (forallb p l); reflexivity. }
  destruct r as [s i a b|first data].
  - change (forallb (rwvm_in_range (RLin s i a b)) xs)
      with (forallb (fun x => Qle_bool a (inject_Z x) && Qle_bool (inject_Z x) b) xs).
    assert (X' : existsb (fun x => negb (Qle_bool a (inject_Z x)) || negb (Qle_bool (inject_Z x) b)) xs =
                 negb (forallb (fun x => Qle_bool a (inject_Z x) && Qle_bool (inject_Z x) b) xs)).
    { rewrite <- X. clear X. induction xs as [|x0 l IH]; [reflexivity|]. cbn [existsb].
      rewrite IH, negb_andb. reflexivity. }
    rewrite X'. split; intros H; rewrite H; cbn [negb]; [|reflexivity].
    eexists. split; [reflexivity|]. apply Forall2_map_r. rewrite forallb_forall in H.
    apply Forall_forall. intros x Hx. specialize (H x Hx). apply andb_true_iff in H. destruct H as [H1 H2].
    cbn [rwvm_value]. split; [now apply Qle_bool_iff|]. split; [now apply Qle_bool_iff|reflexivity].
  - change (forallb (rwvm_in_range (RLut first data)) xs) with (forallb (in_lut_range first data) xs).
    rewrite X. split; intros H; rewrite H; cbn [negb]; [|reflexivity].
    eexists. split; [reflexivity|]. apply Forall2_map_r. rewrite forallb_forall in H.
    apply Forall_forall. intros x Hx. specialize (H x Hx). unfold in_lut_range in H.
    cbn [rwvm_value]. split; [lia|]. apply lut_lookup_inside. lia.
Qed.

(* ================================================================== *)
(* 5. palette colour tables                                            *)
(* ================================================================== *)
Definition pal_encode (bits : Z) (l : list Z) : list Z :=
  if bits =? 8 then (if zlen l mod 2 =? 1 then l ++ [0] else l) else enc16 l.

(* the three colour tables written as the standard prescribes (8 bit: one byte per entry, padded
   to even length; 16 bit: little endian words; descriptor 0 = 65536 entries) are parsed back
   to exactly the (r, g, b) rows they encode, the pad byte never becoming an entry *)
Theorem palette_parse_identity : forall first bits r g b,
  (bits = 8 \/ bits = 16) -> 1 <= zlen r <= 65536 -> zlen g = zlen r -> zlen b = zlen r ->
  Forall (fun v => 0 <= v < 2 ^ bits) r -> Forall (fun v => 0 <= v < 2 ^ bits) g ->
  Forall (fun v => 0 <= v < 2 ^ bits) b ->
  palette_lut (Pal ((if zlen r =? 65536 then 0 else zlen r), first, bits)
                   (pal_encode bits r) (pal_encode bits g) (pal_encode bits b)) =
  Ok (first, combine (combine r g) b, bits).
Proof.
  intros first bits r g b Hb Hn Hg Hbl Fr Fg Fb.
  unfold palette_lut. cbn [p_desc p_r p_g p_b].
  set (n0 := if zlen r =? 65536 then 0 else zlen r).
  assert (Hn0 : (if n0 =? 0 then 65536 else n0) = zlen r).
  { subst n0. destruct (zlen r =? 65536) eqn:E6; cbn; [lia|]. replace (zlen r =? 0) with false by lia. reflexivity. }
  rewrite Hn0.
  replace ((bits =? 8) || (bits =? 16)) with true by lia. cbn [negb].
  destruct Hb as [-> | ->].
  - cbn [Z.eqb Pos.eqb andb]. unfold pal_encode. cbn [Z.eqb Pos.eqb].
    rewrite Hg, Hbl.
    destruct (zlen r mod 2 =? 1) eqn:Odd.
    + rewrite !zlen_app. change (zlen [0]) with 1. rewrite Hg, Hbl, !Z.eqb_refl. cbn [andb negb].
      rewrite !removelast_last. reflexivity.
    + rewrite Hg, Hbl, !Z.eqb_refl. cbn [andb negb]. reflexivity.
  - cbn [Z.eqb Pos.eqb andb]. unfold pal_encode. cbn [Z.eqb Pos.eqb].
    rewrite !zlen_enc16, Hg, Hbl.
    replace (zlen r * 2) with (2 * zlen r) by lia. rewrite !Z.eqb_refl. cbn [andb negb].
    change (2 ^ 16) with 65536 in *.
    rewrite !dec16_enc16 by assumption. reflexivity.
Qed.

(* a table whose byte length does not match the descriptor is refused *)
Theorem palette_parse_length_mismatch : forall n0 first bits r g b,
  (bits = 8 \/ bits = 16) ->
  let n := if n0 =? 0 then 65536 else n0 in
  let expected := if bits =? 8 then (if n mod 2 =? 1 then n + 1 else n) else n * 2 in
  (zlen r <> expected \/ zlen g <> expected \/ zlen b <> expected) ->
  palette_lut (Pal (n0, first, bits) r g b) = Err "RuntimeError".
Proof.
  intros n0 first bits r g b Hb n expected H. unfold palette_lut. cbn [p_desc p_r p_g p_b].
  fold n. replace ((bits =? 8) || (bits =? 16)) with true by lia. cbn [negb].
  assert (X : (if bits =? 8 then if (bits =? 8) && (n mod 2 =? 1) then n + 1 else n else n * 2) = expected).
  { subst expected. destruct (bits =? 8); reflexivity. }
  rewrite X.
  destruct ((zlen r =? expected) && (zlen g =? expected) && (zlen b =? expected)) eqn:L; [|reflexivity].
  apply andb_true_iff in L. destruct L as [L L3]. apply andb_true_iff in L. destruct L as [L1 L2]. lia.
Qed.

(* ================================================================== *)
(* 6. non-vacuity                                                      *)
(* ================================================================== *)
Definition ex_ds : dataset :=
  DS Mono true None false false 4 (DT KU 8) None None
     (Level None (Some (inject_Z 2)) (Some (inject_Z (-3)))
            (Some (Windows [inject_Z 10] [inject_Z 12] None None)))
     None None None false.
Definition ex_fl : flags := Flags TN TN TT true TN TN.
Lemma E0_exp_like : (forall a b, (a == b)%Q -> (E0 a == E0 b)%Q) /\ (forall t, (E0 (- t) * E0 t == 1)%Q) /\
                    (forall t, (0 < E0 t)%Q).
Proof. unfold E0. repeat split; intros; try reflexivity. Qed.
Lemma get_frame_staged_nonvacuous :
  exists ys fd,
    get_frame E0 ex_ds ex_fl (SIdx 0) (SIdx 0) 0 1 F64 [[0; 7; 15]] 0 = Ok ys /\
    discover (expected_uses ex_fl) true ex_ds (SIdx 0) (SIdx 0) 0 = Ok fd /\
    fd_rwvm fd = None /\ fd_guards fd /\ fd_invert fd = true /\
    stage_mod fd = MRescale (inject_Z 2) (inject_Z (-3)) /\
    stage_voi fd = VWin Linear (inject_Z 10) (inject_Z 12) /\
    map Qred ys = [1; 4 # 11; 0]%Q.
Proof.
  eexists. eexists. split; [vm_compute; reflexivity|]. split; [vm_compute; reflexivity|].
  split; [reflexivity|]. split; [split; [vm_compute; reflexivity|exact I]|].
  repeat split.
Qed.

(* a uniform multi-frame dataset whose per-frame rescales differ: no reuse, three transforms *)
Definition ex_mf : dataset :=
  DS Mono false None false false 4 (DT KU 8) None None (Level None None None None)
     (Some (Level None None None (Some (Windows [inject_Z 10] [inject_Z 12] None None))))
     (Some [Level None (Some (inject_Z 1)) (Some (inject_Z 0)) None;
            Level None (Some (inject_Z 2)) (Some (inject_Z 5)) None])
     None false.
Lemma get_frames_nonvacuous :
  uniform ex_mf /\ applies_all (expected_uses ex_fl) ex_mf (SIdx 0) 0 = false /\
  exists ys, get_frames E0 ex_mf ex_fl (SIdx 0) (SIdx 0) 0 1 F64 [[0; 7]; [0; 7]] [1; 0] = Ok ys /\
             map (map Qred) ys = [[1 # 11; 1]; [0; 3 # 11]]%Q.
Proof.
  split.
  - intros pf l l' Hpf Hl Hl'. injection Hpf as <-.
    cbn [In] in Hl, Hl'. unfold same_presence.
    destruct Hl as [<-|[<-|[]]], Hl' as [<-|[<-|[]]]; cbn; repeat split; intros; try reflexivity; try discriminate.
  - split; [vm_compute; reflexivity|]. eexists. split; vm_compute; reflexivity.
Qed.
