(* C20 - proofs, part 6: the affine matrix from components (no form of the
   direction argument is written to; np.asarray together with an in-place
   scaling writes exactly into float64 arrays, each change alone does not; what
   an accepted call returns; accepted iff every guard holds; the scaled matrix
   differs from the caller's exactly when the spacing is not 1 everywhere) and
   decimal strings (fixed / scientific shapes are valid iff they have at most 16
   characters; the lengths format_number_as_ds asks for give exactly 16; the
   auto-formatted value is valid, the repr of a float need not be). *)
From Coq Require Import String ZArith List Bool Lia ZifyBool.
From HD Require Import Base.Val C20_Model C20_Model_Num.
Import ListNotations.
Open Scope Z_scope.

(* --------------------------------------------- ownership of the direction *)
Lemma comp_never_writes a : comp_written a = false.
Proof.
  unfold comp_written, comp_ops, comp_ops_gen, conv_array.
  destruct (g_dir a); [|reflexivity]. destruct (g_dshape a =? 1); reflexivity.
Qed.

Lemma comp_asarray_alone_never_writes a : snd (run_ops View (comp_ops_asarray a)) = false.
Proof.
  unfold comp_ops_asarray, comp_ops_gen, conv_asarray.
  destruct (g_dir a); [|reflexivity]. destruct (g_form a), (g_dshape a =? 1); reflexivity.
Qed.

Lemma comp_inplace_alone_never_writes a : snd (run_ops View (comp_ops_inplace a)) = false.
Proof.
  unfold comp_ops_inplace, comp_ops_gen, conv_array.
  destruct (g_dir a); [|reflexivity]. destruct (g_dshape a =? 1); reflexivity.
Qed.

Lemma comp_asarray_inplace_writes_iff a :
  snd (run_ops View (comp_ops_asarray_inplace a)) = true <-> (g_form a = DArr64 /\ g_dir a <> None).
Proof.
  unfold comp_ops_asarray_inplace, comp_ops_gen, conv_asarray.
  destruct (g_dir a) as [d|].
  - destruct (g_form a), (g_dshape a =? 1); cbn; split; intros H;
      try discriminate; try reflexivity; try (destruct H; discriminate); split; congruence.
  - cbn. split; [discriminate|]. intros [_ H]. congruence.
Qed.

(* ------------------------------------------------------- orientation *)
Lemma letter_cases l :
  is_none (letter_axis l) = false -> l = 0 \/ l = 1 \/ l = 2 \/ l = 3 \/ l = 4 \/ l = 5.
Proof.
  unfold letter_axis.
  destruct (l =? 0) eqn:E0; [lia|]. destruct (l =? 1) eqn:E1; [lia|]. destruct (l =? 2) eqn:E2; [lia|].
  destruct (l =? 3) eqn:E3; [lia|]. destruct (l =? 4) eqn:E4; [lia|]. destruct (l =? 5) eqn:E5; [lia|].
  cbn. discriminate.
Qed.

Lemma orient_ok_orthonormal o : orient_ok o = true -> orthonormal (orient_dir o) = true.
Proof.
  unfold orient_ok. intros H.
  apply andb_prop in H. destruct H as [H X3]. apply andb_prop in H. destruct H as [H X2].
  apply andb_prop in H. destruct H as [H X1]. apply andb_prop in H. destruct H as [HL HF].
  destruct o as [|l0 [|l1 [|l2 [|l3 r]]]]; try (cbn in HL; discriminate).
  2:{ unfold zlen in HL. cbn [length] in HL. lia. }
  cbn [forallb] in HF.
  apply andb_prop in HF. destruct HF as [F0 HF]. apply andb_prop in HF. destruct HF as [F1 HF].
  apply andb_prop in HF. destruct HF as [F2 _].
  apply negb_true_iff in F0, F1, F2.
  apply letter_cases in F0, F1, F2.
  destruct F0 as [-> | [-> | [-> | [-> | [-> | ->]]]]];
    destruct F1 as [-> | [-> | [-> | [-> | [-> | ->]]]]];
    destruct F2 as [-> | [-> | [-> | [-> | [-> | ->]]]]];
    vm_compute in X1, X2, X3; try discriminate; reflexivity.
Qed.

Lemma comp_direction_orthonormal a d : comp_direction a = Ok d -> orthonormal d = true.
Proof.
  unfold comp_direction. destruct (g_dir a) as [d0|].
  - destruct (((g_dshape a =? 0) || (g_dshape a =? 1)) && (zlen d0 =? 9)); [|discriminate].
    destruct (orthonormal d0) eqn:E; [|discriminate]. intros H. inversion H; subst. exact E.
  - destruct (g_orient a) as [o|]; [|discriminate].
    destruct (orient_ok o) eqn:E; [|discriminate]. intros H. inversion H; subst.
    apply orient_ok_orthonormal. exact E.
Qed.

(* --------------------------------------------------- the accepted call *)
Lemma comp_affine_ok a m :
  comp_affine a = Ok m ->
  exists d t,
    comp_direction a = Ok d /\ orthonormal d = true /\
    comp_translation a (scale_cols d (g_spacing a)) = Ok t /\
    m = affine8 (scale_cols d (g_spacing a)) t /\
    zlen (g_spacing a) = 3 /\ forallb (fun s => 0 <? s) (g_spacing a) = true.
Proof.
  unfold comp_affine.
  destruct (Bool.eqb (is_none (g_dir a)) (is_none (g_orient a))); [discriminate|].
  destruct (Bool.eqb (is_none (g_pos a)) (is_none (g_center a))); [discriminate|].
  destruct (zlen (g_spacing a) =? 3) eqn:E3; cbn [negb]; [|discriminate].
  destruct (forallb (fun s => 0 <? s) (g_spacing a)) eqn:Ep; cbn [negb]; [|discriminate].
  destruct (comp_direction a) as [d|k] eqn:Ed; cbn [bind]; [|discriminate].
  destruct (comp_translation a (scale_cols d (g_spacing a))) as [t|k] eqn:Et; cbn [bind]; [|discriminate].
  intros H. inversion H; subst. exists d, t.
  repeat split; try reflexivity; try assumption.
  - exact (comp_direction_orthonormal a d Ed).
  - lia.
Qed.

Lemma comp_affine_accepts_iff a : (exists m, comp_affine a = Ok m) <-> comp_accepts a = true.
Proof.
  unfold comp_affine, comp_accepts, comp_direction, comp_translation.
  destruct (Bool.eqb (is_none (g_dir a)) (is_none (g_orient a))); cbn [negb andb];
    [split; [intros [m H]; discriminate | discriminate]|].
  destruct (Bool.eqb (is_none (g_pos a)) (is_none (g_center a))); cbn [negb andb];
    [split; [intros [m H]; discriminate | discriminate]|].
  destruct (zlen (g_spacing a) =? 3); cbn [negb andb];
    [|split; [intros [m H]; discriminate | discriminate]].
  destruct (forallb (fun s => 0 <? s) (g_spacing a)); cbn [negb andb];
    [|split; [intros [m H]; discriminate | discriminate]].
  destruct (g_dir a) as [d|].
  - destruct (((g_dshape a =? 0) || (g_dshape a =? 1)) && (zlen d =? 9)); cbn [andb bind];
      [|split; [intros [m H]; discriminate | discriminate]].
    destruct (orthonormal d); cbn [andb bind];
      [|split; [intros [m H]; discriminate | discriminate]].
    destruct (g_pos a) as [p|].
    + destruct (zlen p =? 3); cbn [bind]; split; try discriminate; try reflexivity;
        [intros _; eexists; reflexivity | intros [m H]; discriminate].
    + destruct (g_shape a) as [n|]; [|split; [intros [m H]; discriminate | discriminate]].
      destruct (zlen n =? 3); cbn [negb andb];
        [|destruct (g_center a); split; try discriminate; intros [m H]; discriminate].
      destruct (g_center a) as [c|]; [|split; [intros [m H]; discriminate | discriminate]].
      destruct (zlen c =? 3); cbn [bind]; split; try discriminate; try reflexivity;
        [intros _; eexists; reflexivity | intros [m H]; discriminate].
  - destruct (g_orient a) as [o|]; cbn [andb bind];
      [|split; [intros [m H]; discriminate | discriminate]].
    destruct (orient_ok o); cbn [andb bind];
      [|split; [intros [m H]; discriminate | discriminate]].
    destruct (g_pos a) as [p|].
    + destruct (zlen p =? 3); cbn [bind]; split; try discriminate; try reflexivity;
        [intros _; eexists; reflexivity | intros [m H]; discriminate].
    + destruct (g_shape a) as [n|]; [|split; [intros [m H]; discriminate | discriminate]].
      destruct (zlen n =? 3); cbn [negb andb];
        [|destruct (g_center a); split; try discriminate; intros [m H]; discriminate].
      destruct (g_center a) as [c|]; [|split; [intros [m H]; discriminate | discriminate]].
      destruct (zlen c =? 3); cbn [bind]; split; try discriminate; try reflexivity;
        [intros _; eexists; reflexivity | intros [m H]; discriminate].
Qed.

Lemma comp_affine_error_kind a k :
  comp_affine a = Err k -> k = "TypeError"%string \/ k = "ValueError"%string.
Proof.
  unfold comp_affine, comp_direction, comp_translation.
  destruct (Bool.eqb (is_none (g_dir a)) (is_none (g_orient a))); [intros H; inversion H; auto|].
  destruct (Bool.eqb (is_none (g_pos a)) (is_none (g_center a))); [intros H; inversion H; auto|].
  destruct (zlen (g_spacing a) =? 3); cbn [negb]; [|intros H; inversion H; auto].
  destruct (forallb (fun s => 0 <? s) (g_spacing a)); cbn [negb]; [|intros H; inversion H; auto].
  destruct (g_dir a) as [d|].
  - destruct (((g_dshape a =? 0) || (g_dshape a =? 1)) && (zlen d =? 9)); cbn [bind];
      [|intros H; inversion H; auto].
    destruct (orthonormal d); cbn [bind]; [|intros H; inversion H; auto].
    destruct (g_pos a) as [p|].
    + destruct (zlen p =? 3); cbn [bind]; intros H; inversion H; auto.
    + destruct (g_shape a) as [n|]; cbn [bind]; [|intros H; inversion H; auto].
      destruct (zlen n =? 3); cbn [negb bind]; [|intros H; inversion H; auto].
      destruct (g_center a) as [c|]; cbn [bind]; [|intros H; inversion H; auto].
      destruct (zlen c =? 3); cbn [bind]; intros H; inversion H; auto.
  - destruct (g_orient a) as [o|]; cbn [bind]; [|intros H; inversion H; auto].
    destruct (orient_ok o); cbn [bind]; [|intros H; inversion H; auto].
    destruct (g_pos a) as [p|].
    + destruct (zlen p =? 3); cbn [bind]; intros H; inversion H; auto.
    + destruct (g_shape a) as [n|]; cbn [bind]; [|intros H; inversion H; auto].
      destruct (zlen n =? 3); cbn [negb bind]; [|intros H; inversion H; auto].
      destruct (g_center a) as [c|]; cbn [bind]; [|intros H; inversion H; auto].
      destruct (zlen c =? 3); cbn [bind]; intros H; inversion H; auto.
Qed.

(* the matrix an in-place scaling leaves in the caller's array (quarters) is the
   caller's matrix (in quarters: 4 * d) exactly when the spacing is 1 everywhere *)
Lemma scale_cols_unit_iff d x y z :
  orthonormal d = true ->
  (scale_cols d [x; y; z] = map (Z.mul 4) d <-> x = 4 /\ y = 4 /\ z = 4).
Proof.
  unfold orthonormal.
  destruct d as [|a [|b [|c [|d0 [|e [|f [|g [|h [|i [|j r]]]]]]]]]]; try discriminate.
  intros H.
  apply andb_prop in H. destruct H as [H _]. apply andb_prop in H. destruct H as [H _].
  apply andb_prop in H. destruct H as [H _]. apply andb_prop in H. destruct H as [H Hc].
  apply andb_prop in H. destruct H as [Ha Hb].
  apply Z.eqb_eq in Ha, Hb, Hc.
  cbn [scale_cols map]. split.
  - intros E.
    assert (E1 : a * x = 4 * a) by exact (f_equal (fun l => nth 0 l 0) E).
    assert (E2 : b * y = 4 * b) by exact (f_equal (fun l => nth 1 l 0) E).
    assert (E3 : c * z = 4 * c) by exact (f_equal (fun l => nth 2 l 0) E).
    assert (E4 : d0 * x = 4 * d0) by exact (f_equal (fun l => nth 3 l 0) E).
    assert (E5 : e * y = 4 * e) by exact (f_equal (fun l => nth 4 l 0) E).
    assert (E6 : f * z = 4 * f) by exact (f_equal (fun l => nth 5 l 0) E).
    assert (E7 : g * x = 4 * g) by exact (f_equal (fun l => nth 6 l 0) E).
    assert (E8 : h * y = 4 * h) by exact (f_equal (fun l => nth 7 l 0) E).
    assert (E9 : i * z = 4 * i) by exact (f_equal (fun l => nth 8 l 0) E).
    clear E.
    assert (X : x * (a * a + d0 * d0 + g * g) = 4 * (a * a + d0 * d0 + g * g)).
    { replace (x * (a * a + d0 * d0 + g * g)) with (a * (a * x) + d0 * (d0 * x) + g * (g * x)) by ring.
      rewrite E1, E4, E7. ring. }
    assert (Y : y * (b * b + e * e + h * h) = 4 * (b * b + e * e + h * h)).
    { replace (y * (b * b + e * e + h * h)) with (b * (b * y) + e * (e * y) + h * (h * y)) by ring.
      rewrite E2, E5, E8. ring. }
    assert (Z0 : z * (c * c + f * f + i * i) = 4 * (c * c + f * f + i * i)).
    { replace (z * (c * c + f * f + i * i)) with (c * (c * z) + f * (f * z) + i * (i * z)) by ring.
      rewrite E3, E6, E9. ring. }
    rewrite Ha in X. rewrite Hb in Y. rewrite Hc in Z0. lia.
  - intros [-> [-> ->]]. rewrite !(Z.mul_comm _ 4). reflexivity.
Qed.

(* ------------------------------------------------------ decimal strings *)
Lemma zlen_app (a b : str) : zlen (a ++ b) = zlen a + zlen b.
Proof. unfold zlen. rewrite app_length. lia. Qed.

Lemma span_digits_app ds rest :
  forallb is_digit ds = true ->
  match rest with c :: _ => is_digit c = false | [] => True end ->
  span_digits (ds ++ rest) = (length ds, rest).
Proof.
  induction ds as [|c ds IH]; intros Hd Hr.
  - cbn [app length]. destruct rest as [|c r]; [reflexivity|]. cbn [span_digits]. rewrite Hr. reflexivity.
  - cbn [forallb] in Hd. apply andb_prop in Hd. destruct Hd as [Hc Hd].
    cbn [app span_digits length]. rewrite Hc. rewrite (IH Hd Hr). reflexivity.
Qed.

Lemma span_digits_all ds : forallb is_digit ds = true -> span_digits ds = (length ds, []).
Proof. intros H. rewrite <- (app_nil_r ds) at 1. apply span_digits_app; [exact H | exact I]. Qed.

Lemma digit_not_special c : is_digit c = true -> (c =? 32) = false /\ (c =? 43) = false /\ (c =? 45) = false.
Proof. unfold is_digit. lia. Qed.

(* the front of a number: an optional '-' and then a digit *)
Lemma front_signed neg c r :
  is_digit c = true -> skip_sign (skip_spaces (sign_str neg ++ c :: r)) = c :: r.
Proof.
  intros Hc. destruct (digit_not_special c Hc) as [H32 [H43 H45]].
  destruct neg; cbn [sign_str app skip_spaces skip_sign].
  - reflexivity.
  - rewrite H32. cbn [skip_sign]. rewrite H43, H45. reflexivity.
Qed.

Lemma ds_regex_fixed neg ip fp :
  forallb is_digit ip = true -> ip <> [] -> forallb is_digit fp = true ->
  ds_regex (fixed_str neg ip fp) = true.
Proof.
  intros Hi Hn Hf. destruct ip as [|c ip']; [congruence|].
  assert (Hc : is_digit c = true) by (cbn [forallb] in Hi; apply andb_prop in Hi; tauto).
  unfold ds_regex, fixed_str. rewrite <- app_comm_cons. rewrite (front_signed neg c _ Hc).
  change (c :: ip' ++ [46] ++ fp) with ((c :: ip') ++ 46 :: fp).
  rewrite (span_digits_app (c :: ip') (46 :: fp) Hi); [|reflexivity].
  cbn [Z.eqb Pos.eqb]. rewrite (span_digits_all fp Hf). cbn [length Nat.add Nat.eqb negb andb ds_exponent].
  reflexivity.
Qed.

Lemma ds_regex_sci neg d fp eneg ep :
  is_digit d = true -> forallb is_digit fp = true -> forallb is_digit ep = true -> ep <> [] ->
  ds_regex (sci_str neg d fp eneg ep) = true.
Proof.
  intros Hd Hf He Hn. unfold ds_regex, sci_str.
  change (sign_str neg ++ [d] ++ [46] ++ fp ++ [101] ++ [if eneg then 45 else 43] ++ ep)
    with (sign_str neg ++ d :: 46 :: (fp ++ 101 :: (if eneg then 45 else 43) :: ep)).
  rewrite (front_signed neg d _ Hd).
  change (d :: 46 :: (fp ++ 101 :: (if eneg then 45 else 43) :: ep))
    with ([d] ++ 46 :: (fp ++ 101 :: (if eneg then 45 else 43) :: ep)).
  rewrite (span_digits_app [d]); [| cbn [forallb]; rewrite Hd; reflexivity | reflexivity].
  cbn [Z.eqb Pos.eqb].
  rewrite (span_digits_app fp (101 :: (if eneg then 45 else 43) :: ep) Hf); [|reflexivity].
  cbn [length Nat.add Nat.eqb negb andb ds_exponent Z.eqb Pos.eqb orb].
  assert (Hs : skip_sign ((if eneg then 45 else 43) :: ep) = ep) by (destruct eneg; reflexivity).
  rewrite Hs. rewrite (span_digits_all ep He).
  destruct ep as [|e0 ep']; [congruence|]. reflexivity.
Qed.

Lemma fixed_str_len neg ip fp : zlen (fixed_str neg ip fp) = sign_len neg + zlen ip + 1 + zlen fp.
Proof.
  unfold fixed_str. rewrite !zlen_app. destruct neg; unfold sign_str, sign_len, zlen; cbn [length]; lia.
Qed.

Lemma sci_str_len neg d fp eneg ep :
  zlen (sci_str neg d fp eneg ep) = sign_len neg + 4 + zlen fp + zlen ep.
Proof.
  unfold sci_str. rewrite !zlen_app. destruct neg; unfold sign_str, sign_len, zlen; cbn [length]; lia.
Qed.

Lemma valid_ds_nonempty s : s <> [] -> pydicom_valid_num DS s = (zlen s <=? 16) && ds_regex s.
Proof. intros H. unfold pydicom_valid_num, num_max_len. destruct s; [congruence|reflexivity]. Qed.

Lemma fixed_str_nonempty neg ip fp : fixed_str neg ip fp <> [].
Proof. unfold fixed_str. destruct neg, ip; cbn; discriminate. Qed.

Lemma sci_str_nonempty neg d fp eneg ep : sci_str neg d fp eneg ep <> [].
Proof. unfold sci_str. destruct neg; cbn; discriminate. Qed.

Lemma ds_fixed_valid_iff neg ip fp :
  forallb is_digit ip = true -> ip <> [] -> forallb is_digit fp = true ->
  pydicom_valid_num DS (fixed_str neg ip fp) = (sign_len neg + zlen ip + 1 + zlen fp <=? 16).
Proof.
  intros Hi Hn Hf. rewrite (valid_ds_nonempty _ (fixed_str_nonempty neg ip fp)).
  rewrite (ds_regex_fixed neg ip fp Hi Hn Hf), fixed_str_len. apply andb_true_r.
Qed.

Lemma ds_sci_valid_iff neg d fp eneg ep :
  is_digit d = true -> forallb is_digit fp = true -> forallb is_digit ep = true -> ep <> [] ->
  pydicom_valid_num DS (sci_str neg d fp eneg ep) = (sign_len neg + 4 + zlen fp + zlen ep <=? 16).
Proof.
  intros Hd Hf He Hn. rewrite (valid_ds_nonempty _ (sci_str_nonempty neg d fp eneg ep)).
  rewrite (ds_regex_sci neg d fp eneg ep Hd Hf He Hn), sci_str_len. apply andb_true_r.
Qed.

(* the number of decimals format_number_as_ds asks for fills the 16 characters exactly *)
Lemma ds_auto_fixed_valid neg e ip fp :
  forallb is_digit ip = true -> forallb is_digit fp = true ->
  zlen ip = (if 1 <=? e then e + 1 else 1) ->
  zlen fp = fixed_decimals neg e ->
  pydicom_valid_num DS (fixed_str neg ip fp) = true /\ zlen (fixed_str neg ip fp) = 16.
Proof.
  intros Hi Hf Li Lf.
  assert (Hn : ip <> []).
  { intros ->. unfold zlen in Li. cbn [length] in Li. destruct (1 <=? e) eqn:E; lia. }
  rewrite (ds_fixed_valid_iff neg ip fp Hi Hn Hf), fixed_str_len, Li, Lf.
  unfold fixed_decimals. destruct (1 <=? e); split; lia.
Qed.

Lemma ds_auto_sci_valid neg d fp eneg ep ne :
  is_digit d = true -> forallb is_digit fp = true -> forallb is_digit ep = true ->
  ne = 2 \/ ne = 3 -> zlen ep = ne -> zlen fp = sci_decimals neg ne ->
  pydicom_valid_num DS (sci_str neg d fp eneg ep) = true /\ zlen (sci_str neg d fp eneg ep) = 16.
Proof.
  intros Hd Hf He Hne Le Lf.
  assert (Hn : ep <> []).
  { intros ->. unfold zlen in Le. cbn [length] in Le. lia. }
  rewrite (ds_sci_valid_iff neg d fp eneg ep Hd Hf He Hn), sci_str_len, Le, Lf.
  unfold sci_decimals. destruct Hne as [-> | ->]; cbn [Z.eqb Pos.eqb]; split; lia.
Qed.

Lemma ds_auto_valid repr formatted :
  ds_regex repr = true -> pydicom_valid_num DS formatted = true ->
  pydicom_valid_num DS (ds_auto repr formatted) = true.
Proof.
  intros Hr Hf. unfold ds_auto. destruct (zlen repr <=? 16) eqn:E; [|exact Hf].
  unfold pydicom_valid_num, num_max_len. rewrite E. destruct repr; [reflexivity|exact Hr].
Qed.

Lemma ds_plain_valid_iff repr formatted :
  ds_regex repr = true -> repr <> [] ->
  (pydicom_valid_num DS (ds_plain repr formatted) = true <-> zlen repr <= 16).
Proof.
  intros Hr Hn. unfold ds_plain. rewrite (valid_ds_nonempty repr Hn), Hr, andb_true_r. lia.
Qed.

(* 0.1 + 0.2: repr "0.30000000000000004" (19 characters), re-formatted "0.30000000000000" *)
Definition repr_sum : str := [48; 46; 51; 48; 48; 48; 48; 48; 48; 48; 48; 48; 48; 48; 48; 48; 48; 48; 52].
Definition fmt_sum : str := [48; 46; 51; 48; 48; 48; 48; 48; 48; 48; 48; 48; 48; 48; 48; 48].
Lemma ds_plain_refuted :
  ds_regex repr_sum = true /\ pydicom_valid_num DS fmt_sum = true /\
  pydicom_valid_num DS (ds_plain repr_sum fmt_sum) = false /\
  pydicom_valid_num DS (ds_auto repr_sum fmt_sum) = true.
Proof. vm_compute. repeat split; reflexivity. Qed.

(* ------------------------------------------------------------ examples *)
Definition ex_args (f : dform) : comp_args :=
  {| g_form := f; g_dir := Some [0; -1; 0; 1; 0; 0; 0; 0; 1]; g_dshape := 0; g_orient := None;
     g_spacing := [10; 2; 3]; g_pos := Some [40; -80; 122]; g_center := None; g_shape := None |}.
Lemma ex_components :
  comp_accepts (ex_args DArr64) = true /\
  comp_affine (ex_args DArr64) = Ok [0; -4; 0; 80; 20; 0; 0; -160; 0; 0; 6; 244; 0; 0; 0; 8] /\
  comp_written (ex_args DArr64) = false /\
  snd (run_ops View (comp_ops_asarray_inplace (ex_args DArr64))) = true /\
  snd (run_ops View (comp_ops_asarray_inplace (ex_args DSeq))) = false /\
  scale_cols [0; -1; 0; 1; 0; 0; 0; 0; 1] [10; 2; 3] = [0; -2; 0; 10; 0; 0; 0; 0; 3] /\
  run_affine_components 1 1 (Some [1; 0; 0; 0; 0; -1; 0; 1; 0]) None [10; 2; 3] None (Some [40; -80; 122]) (Some [2; 3; 4])
    = VL [VB false; vz_list [20; 0; 0; 70; 0; 0; -6; -151; 0; 4; 0; 240; 0; 0; 0; 8]] /\
  run_affine_components 0 0 None (Some [5; 2; 0]) [4; 4; 4] (Some [0; 0; 0]) None None
    = VL [VB false; vz_list [0; 0; 8; 0; 0; 8; 0; 0; -8; 0; 0; 0; 0; 0; 0; 8]] /\
  run_affine_components 1 0 (Some [2; 0; 0; 0; 1; 0; 0; 0; 1]) None [4; 4; 4] (Some [0; 0; 0]) None None
    = VErr "ValueError" /\
  run_valid_num DS repr_sum = VB false /\ run_valid_num DS fmt_sum = VB true.
Proof. vm_compute. repeat split; reflexivity. Qed.
