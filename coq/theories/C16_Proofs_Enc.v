(* C16 - measurement values across DICOM encoding.
   (1) NumContentItem.value: Floating Point Value has precedence over Numeric Value (num_value).
   (2) `map_num fn` rewrites the two number attributes of every NUM item of a tree and nothing else; the three
       queries and every accessor except get_measurements cannot see it (ANY tree, ANY fn).  `encode trunc`
       (Numeric Value survives only as its DS string) and `with_fp fl` (Floating Point Value written for Python
       floats) are instances.
   (3) hence a report built by the template classes, with Floating Point Value on every measurement whose DS string
       is not exact, answers every query and every accessor after encoding as the records say (end to end). *)
From Coq Require Import String ZArith List Bool Lia ZifyBool.
From HD Require Import Base.Val C16_Model C16_Proofs C16_Proofs_Acc C16_Proofs_Tree C16_Proofs_E2E.
Import ListNotations.
Open Scope Z_scope.

(* ---------------------------------------------------------------------------------- *)
(* the value of a NUM item                                                              *)
(* ---------------------------------------------------------------------------------- *)
Lemma fp_code_nonzero x : fp_code x <> 0.
Proof. unfold fp_code. destruct (Z.leb_spec 0 x); lia. Qed.

Lemma num_fp_code n v r a x t k : num_fp (Item n v r a (fp_code x) t k) = Some x.
Proof.
  unfold num_fp. cbn [v2]. unfold fp_code. destruct (Z.leb_spec 0 x).
  - replace (x + 1 =? 0) with false by lia. replace (0 <? x + 1) with true by lia. f_equal. lia.
  - replace (x =? 0) with false by lia. replace (0 <? x) with false by lia. reflexivity.
Qed.

(* Floating Point Value, when present, IS the value - whatever Numeric Value says *)
Lemma num_value_prefers_fp n v r a x t k : num_value (Item n v r a (fp_code x) t k) = x.
Proof. unfold num_value. now rewrite num_fp_code. Qed.
Lemma num_value_nofp i : v2 i = 0 -> num_value i = v1 i.
Proof. intros H. unfold num_value, num_fp. now rewrite H. Qed.
Lemma num_value_v2 i j : v2 i = v2 j -> v2 i <> 0 -> num_value i = num_value j.
Proof.
  intros E H. unfold num_value, num_fp. rewrite <- E. destruct (v2 i =? 0) eqn:Z; [lia|reflexivity].
Qed.

Lemma tbl_fun_nil x : tbl_fun [] x = x.
Proof. reflexivity. Qed.

(* ---------------------------------------------------------------------------------- *)
(* map_num: what it leaves alone                                                        *)
(* ---------------------------------------------------------------------------------- *)
Lemma vt_other i v : vt_eqb (vt i) v = true -> vt_eqb v NUM = false -> vt_eqb (vt i) NUM = false.
Proof. destruct (vt i), v; vm_compute; congruence. Qed.

Section MapNum.
Variable fn : Z -> Z -> Z * Z.
Notation M := (map_num fn).

Lemma M_nm i : nm (M i) = nm i. Proof. now destruct i. Qed.
Lemma M_vt i : vt (M i) = vt i. Proof. now destruct i. Qed.
Lemma M_rl i : rl (M i) = rl i. Proof. now destruct i. Qed.
Lemma M_tmpl i : tmpl (M i) = tmpl i. Proof. now destruct i. Qed.
Lemma M_kids i : kids (M i) = map M (kids i). Proof. now destruct i. Qed.
Lemma M_v i : vt_eqb (vt i) NUM = false -> v1 (M i) = v1 i /\ v2 (M i) = v2 i.
Proof. destruct i as [n v r a b t k]. destruct v; cbn; intros H; try discriminate; now split. Qed.
Lemma M_v1 i v : vt_eqb (vt i) v = true -> vt_eqb v NUM = false -> v1 (M i) = v1 i.
Proof. intros A B. now apply M_v, (vt_other i v). Qed.
Lemma M_v2 i v : vt_eqb (vt i) v = true -> vt_eqb v NUM = false -> v2 (M i) = v2 i.
Proof. intros A B. now apply M_v, (vt_other i v). Qed.
Lemma M_num i : vt_eqb (vt i) NUM = true -> v1 (M i) = fst (fn (v1 i) (v2 i)) /\ v2 (M i) = snd (fn (v1 i) (v2 i)).
Proof. destruct i as [n v r a b t k]. destruct v; cbn; intros H; try discriminate; now split. Qed.

Lemma filter_M p l : (forall i, p (M i) = p i) -> filter p (map M l) = map M (filter p l).
Proof.
  intros H. induction l as [|a l IH]; cbn [map filter]; [reflexivity|].
  rewrite H. destruct (p a); cbn [map]; now rewrite IH.
Qed.
Lemma existsb_M q l : (forall i, In i l -> q (M i) = q i) -> existsb q (map M l) = existsb q l.
Proof. intros H. rewrite existsb_map. now apply existsb_ext_in. Qed.
Lemma forallb_M q l : (forall i, q (M i) = q i) -> forallb q (map M l) = forallb q l.
Proof. intros H. induction l as [|a l IH]; cbn [map forallb]; [reflexivity|]. now rewrite H, IH. Qed.
Lemma map_M {A} (rd : item -> A) l : (forall i, In i l -> rd (M i) = rd i) -> map rd (map M l) = map rd l.
Proof. intros H. rewrite map_map. now apply map_ext_in. Qed.

Lemma sel_M n v r i : (has_name n (M i) && has_vt v (M i) && has_rl r (M i)) = (has_name n i && has_vt v i && has_rl r i).
Proof. unfold has_name, has_vt, has_rl. now rewrite M_nm, M_vt, M_rl. Qed.
Lemma find_items_M l n v r : find_items (map M l) n v r = map M (find_items l n v r).
Proof. unfold find_items. apply filter_M. intros i. apply sel_M. Qed.
Lemma in_find_vt i l n v r : In i (find_items l n (Some v) r) -> vt_eqb (vt i) v = true.
Proof.
  unfold find_items. intros H. apply filter_In in H as [_ H]. cbn [has_vt] in H.
  apply andb_true_iff in H as [H _]. now apply andb_true_iff in H as [_ H].
Qed.

Lemma count_M p l : (forall i, p (M i) = p i) -> count p (map M l) = count p l.
Proof. intros H. unfold count. now rewrite filter_M, map_length. Qed.

Lemma is_ir_M i : is_ir (M i) = is_ir i. Proof. unfold is_ir. now rewrite M_nm, M_vt. Qed.
Lemma is_vs_M i : is_vs (M i) = is_vs i. Proof. unfold is_vs. now rewrite M_nm, M_vt. Qed.
Lemma is_rs_M i : is_rs (M i) = is_rs i. Proof. unfold is_rs. now rewrite M_nm, M_vt. Qed.
Lemma is_sf_M i : is_sf (M i) = is_sf i. Proof. unfold is_sf. now rewrite M_nm, M_vt. Qed.
Lemma is_ris_M i : is_ris (M i) = is_ris i. Proof. unfold is_ris. now rewrite M_nm, M_vt. Qed.

Lemma count_roi_items_M g : count_roi_items (M g) = count_roi_items g.
Proof.
  unfold count_roi_items. rewrite M_vt, M_nm, M_kids.
  now rewrite (count_M _ _ is_ir_M), (count_M _ _ is_vs_M), (count_M _ _ is_rs_M), (count_M _ _ is_sf_M),
    (count_M _ _ is_ris_M).
Qed.
Lemma contains_planar_M g : contains_planar (M g) = contains_planar g.
Proof. unfold contains_planar. now rewrite count_roi_items_M. Qed.
Lemma contains_volumetric_M g : contains_volumetric (M g) = contains_volumetric g.
Proof. unfold contains_volumetric. now rewrite count_roi_items_M. Qed.

(* ---- the reference items ------------------------------------------------------------ *)
Lemma is_candidate_M allowed i : is_candidate allowed (M i) = is_candidate allowed i.
Proof. unfold is_candidate. now rewrite M_rl, M_nm, M_vt. Qed.
Lemma cands_M allowed g : cands allowed (M g) = map M (cands allowed g).
Proof. unfold cands. rewrite M_kids. apply filter_M. intros i. apply is_candidate_M. Qed.
Lemma refs_ok_M r rest : refs_ok r (map M rest) = refs_ok r rest.
Proof.
  unfold refs_ok, multi_ok. rewrite forallb_M by (intros i; now rewrite M_nm). now destruct rest.
Qed.
Lemma candidate_not_num allowed c : is_candidate allowed c = true -> vt_eqb (vt c) NUM = false.
Proof.
  unfold is_candidate, expected_vt. intros H. destruct (vt c); try reflexivity. exfalso.
  apply andb_true_iff in H as [_ H].
  repeat match type of H with context[if ?b then _ else _] => destruct b end; discriminate.
Qed.

Definition on_refs (r : res (Z * list item)) : res (Z * list item) :=
  match r with Ok (x, items) => Ok (x, map M items) | Err e => Err e end.
Lemma roi_refs_M g allowed : get_roi_reference_items (M g) allowed = on_refs (get_roi_reference_items g allowed).
Proof.
  rewrite !roi_reference_spec, cands_M. destruct (cands allowed g) as [|c rest]; cbn [map on_refs]; [reflexivity|].
  rewrite M_nm, refs_ok_M. now destruct (refs_ok (nm c) rest).
Qed.
Lemma roi_refs_candidates g allowed r items : get_roi_reference_items g allowed = Ok (r, items) ->
  forall c, In c items -> is_candidate allowed c = true.
Proof.
  rewrite roi_reference_spec. unfold cands. destruct (filter (is_candidate allowed) (kids g)) as [|c0 rest] eqn:E; [discriminate|].
  destruct (refs_ok (nm c0) rest); [|discriminate]. intros H c Hc. inversion H; subst.
  rewrite <- E in Hc. now apply filter_In in Hc.
Qed.

(* ---- the filter predicates ------------------------------------------------------------ *)
Lemma contains_code_items_M l n value r : contains_code_items (map M l) n value r = contains_code_items l n value r.
Proof.
  unfold contains_code_items. rewrite find_items_M. apply existsb_M. intros i Hi.
  now rewrite (M_v1 i CODE (in_find_vt _ _ _ _ _ Hi)).
Qed.
Lemma contains_uidref_items_M l n value r : contains_uidref_items (map M l) n value r = contains_uidref_items l n value r.
Proof.
  unfold contains_uidref_items. rewrite find_items_M. apply existsb_M. intros i Hi.
  now rewrite (M_v1 i UIDREF (in_find_vt _ _ _ _ _ Hi)).
Qed.
Lemma contains_image_items_M l n cls inst r : contains_image_items (map M l) n cls inst r = contains_image_items l n cls inst r.
Proof.
  unfold contains_image_items. rewrite find_items_M. apply existsb_M. intros i Hi.
  now rewrite (M_v1 i IMAGE (in_find_vt _ _ _ _ _ Hi)), (M_v2 i IMAGE (in_find_vt _ _ _ _ _ Hi)).
Qed.
Lemma common_matches_M f g : common_matches f (M g) = common_matches f g.
Proof.
  unfold common_matches. rewrite M_kids.
  destruct (f_finding f), (f_site f), (f_tuid f); now rewrite ?contains_code_items_M, ?contains_uidref_items_M.
Qed.
Lemma gt_matches_M f c : vt_eqb (vt c) NUM = false -> gt_matches f (M c) = gt_matches f c.
Proof. intros H. unfold gt_matches. rewrite M_vt. destruct (M_v c H) as [-> _]. reflexivity. Qed.

Lemma ref_matches_planar_M f g : ref_matches_planar f (M g) = ref_matches_planar f g.
Proof.
  unfold ref_matches_planar. destruct (isSome (f_reftype f) || gt_given f || uid_given f); [|reflexivity].
  unfold get_planar_ref_item. rewrite roi_refs_M.
  destruct (get_roi_reference_items g allowed_planar) as [[found items]|e] eqn:E; cbn [on_refs bind]; [|reflexivity].
  pose proof (roi_refs_candidates _ _ _ _ E) as Hc.
  destruct items as [|c [|d rest]]; cbn [map]; try reflexivity. cbn [bind].
  assert (Hn : vt_eqb (vt c) NUM = false) by (apply (candidate_not_num allowed_planar), Hc; now left).
  rewrite (gt_matches_M f c Hn), M_vt, !M_kids, !contains_image_items_M.
  destruct (M_v c Hn) as [-> ->]. reflexivity.
Qed.

Lemma ref_matches_volumetric_M f g : ref_matches_volumetric f (M g) = ref_matches_volumetric f g.
Proof.
  unfold ref_matches_volumetric. destruct (isSome (f_reftype f) || gt_given f || uid_given f); [|reflexivity].
  rewrite roi_refs_M.
  destruct (get_roi_reference_items g allowed_volumetric) as [[found items]|e] eqn:E; cbn [on_refs bind]; [|reflexivity].
  pose proof (roi_refs_candidates _ _ _ _ E) as Hc.
  destruct items as [|c rest]; cbn [map]; [reflexivity|].
  assert (Hn : vt_eqb (vt c) NUM = false) by (apply (candidate_not_num allowed_volumetric), Hc; now left).
  rewrite (gt_matches_M f c Hn), M_kids, contains_image_items_M.
  destruct (M_v c Hn) as [-> ->].
  change (M c :: map M rest) with (map M (c :: rest)).
  rewrite (existsb_M _ (c :: rest)); [reflexivity|].
  intros i _. now rewrite M_vt, M_kids, contains_image_items_M.
Qed.

Lemma planar_group_test_M f g : planar_group_test f (M g) = planar_group_test f g.
Proof. unfold planar_group_test. now rewrite M_tmpl, contains_planar_M, ref_matches_planar_M, common_matches_M. Qed.
Lemma volumetric_group_test_M f g : volumetric_group_test f (M g) = volumetric_group_test f g.
Proof. unfold volumetric_group_test. now rewrite M_tmpl, contains_volumetric_M, ref_matches_volumetric_M, common_matches_M. Qed.
Lemma image_group_test_M f g : image_group_test f (M g) = image_group_test f g.
Proof.
  unfold image_group_test. now rewrite M_tmpl, contains_planar_M, contains_volumetric_M, common_matches_M, M_kids,
    contains_image_items_M.
Qed.

Definition on_items (r : res (list item)) : res (list item) :=
  match r with Ok l => Ok (map M l) | Err e => Err e end.
Lemma collect_M p l : (forall g, p (M g) = p g) -> collect p (map M l) = on_items (collect p l).
Proof.
  intros H. induction l as [|x t IH]; cbn [map collect]; [reflexivity|].
  rewrite H, IH. destruct (p x) as [b|e]; cbn [bind on_items]; [|reflexivity].
  destruct (collect p t) as [r|e]; cbn [bind on_items]; [|reflexivity]. now destruct b.
Qed.
Lemma find_measurement_groups_M root : find_measurement_groups (M root) = map M (find_measurement_groups root).
Proof.
  unfold find_measurement_groups. rewrite M_kids, find_items_M.
  destruct (find_items (kids root) (Some cImagingMeasurements) (Some CONTAINER) None) as [|im t]; cbn [map]; [reflexivity|].
  now rewrite M_kids, find_items_M.
Qed.

(* the queries return the same groups, rewritten, in the same order - or the same error *)
Theorem query_M k root f : query k (M root) f = on_items (query k root f).
Proof.
  rewrite !query_unfold. destruct (qcheck k f) as [[]|e]; cbn [bind]; [|reflexivity].
  rewrite find_measurement_groups_M. apply collect_M. intros g.
  destruct k; cbn [gtest]; [apply planar_group_test_M|apply volumetric_group_test_M|apply image_group_test_M].
Qed.

(* ---- the accessors --------------------------------------------------------------------- *)
Lemma first_v1_M l : (forall i, In i l -> vt_eqb (vt i) NUM = false) -> first_v1 (map M l) = first_v1 l.
Proof. destruct l as [|i t]; intros H; [reflexivity|]. cbn [map first_v1]. f_equal. apply M_v, H. now left. Qed.
Lemma first_find_M l n v : vt_eqb v NUM = false ->
  first_v1 (find_items (map M l) (Some n) (Some v) None) = first_v1 (find_items l (Some n) (Some v) None).
Proof.
  intros Hv. rewrite find_items_M. apply first_v1_M. intros i Hi. apply (vt_other i v); [|assumption].
  now apply in_find_vt in Hi.
Qed.

Lemma acc_tracking_identifier_M g : acc_tracking_identifier (M g) = acc_tracking_identifier g.
Proof. unfold acc_tracking_identifier. rewrite M_kids. now apply first_find_M. Qed.
Lemma acc_tracking_uid_M g : acc_tracking_uid (M g) = acc_tracking_uid g.
Proof. unfold acc_tracking_uid. rewrite M_kids. now apply first_find_M. Qed.
Lemma acc_finding_type_M g : acc_finding_type (M g) = acc_finding_type g.
Proof. unfold acc_finding_type. rewrite M_kids. now apply first_find_M. Qed.
Lemma acc_finding_category_M g : acc_finding_category (M g) = acc_finding_category g.
Proof. unfold acc_finding_category. rewrite M_kids. now apply first_find_M. Qed.
Lemma acc_method_M g : acc_method (M g) = acc_method g.
Proof. unfold acc_method. rewrite M_kids. now apply first_find_M. Qed.
Lemma acc_finding_sites_M g : acc_finding_sites (M g) = acc_finding_sites g.
Proof.
  unfold acc_finding_sites. rewrite M_kids, find_items_M. apply map_M. intros i Hi.
  apply in_find_vt in Hi. now apply (M_v1 i CODE).
Qed.
Lemma acc_evaluations_M g name : acc_evaluations (M g) name = acc_evaluations g name.
Proof.
  unfold acc_evaluations. rewrite M_kids, find_items_M, filter_M by (intros i; now rewrite M_nm).
  apply map_M. intros i Hi. apply filter_In in Hi as [Hi _]. apply in_find_vt in Hi.
  now rewrite M_nm, (M_v1 i CODE Hi).
Qed.
Lemma acc_source_images_M g : acc_source_images (M g) = acc_source_images g.
Proof.
  unfold acc_source_images. rewrite M_kids, find_items_M. apply map_M. intros i Hi. apply in_find_vt in Hi.
  now rewrite (M_v1 i IMAGE Hi), (M_v2 i IMAGE Hi).
Qed.
Lemma acc_reference_type_M allowed g : acc_reference_type allowed (M g) = acc_reference_type allowed g.
Proof.
  unfold acc_reference_type. rewrite M_kids, filter_M by (intros i; now rewrite M_nm).
  destruct (filter (fun i => mem (nm i) allowed) (kids g)); cbn [map]; [reflexivity|]. now rewrite M_nm.
Qed.

Lemma is_rel_item_M n v i : is_rel_item n v (M i) = is_rel_item n v i.
Proof. unfold is_rel_item. now rewrite M_nm, M_vt, M_rl. Qed.
Lemma rel_item_vt n v i : is_rel_item n v i = true -> vt_eqb (vt i) v = true.
Proof. unfold is_rel_item. intros H. apply andb_true_iff in H as [H _]. now apply andb_true_iff in H as [_ H]. Qed.

Lemma split_sources_M l : split_sources (map M l) = split_sources l.
Proof.
  unfold split_sources.
  rewrite (filter_M (is_rel_item cSrcImgSeg IMAGE)) by (intros i; apply is_rel_item_M).
  rewrite (filter_M (fun i => negb (is_rel_item cSrcImgSeg IMAGE i) && is_rel_item cSrcSeriesSeg UIDREF i))
    by (intros i; now rewrite !is_rel_item_M).
  assert (Hi : map (fun i => (v1 i, v2 i)) (map M (filter (is_rel_item cSrcImgSeg IMAGE) l))
               = map (fun i => (v1 i, v2 i)) (filter (is_rel_item cSrcImgSeg IMAGE) l)).
  { apply map_M. intros i Hi. apply filter_In in Hi as [_ Hi]. apply rel_item_vt in Hi.
    now rewrite (M_v1 i IMAGE Hi), (M_v2 i IMAGE Hi). }
  destruct (filter (is_rel_item cSrcImgSeg IMAGE) l) as [|im ims] eqn:EI;
    destruct (filter (fun i => negb (is_rel_item cSrcImgSeg IMAGE i) && is_rel_item cSrcSeriesSeg UIDREF i) l)
      as [|s [|s2 ss]] eqn:ES; cbn [map]; try reflexivity.
  - assert (Hs : vt_eqb (vt s) UIDREF = true).
    { assert (In s (filter (fun i => negb (is_rel_item cSrcImgSeg IMAGE i) && is_rel_item cSrcSeriesSeg UIDREF i) l))
        by (rewrite ES; now left).
      apply filter_In in H as [_ H]. apply andb_true_iff in H as [_ H]. now apply rel_item_vt in H. }
    now rewrite (M_v1 s UIDREF Hs).
  - cbn [map] in Hi. now rewrite Hi.
Qed.

Lemma acc_segframe_M g : acc_segframe (M g) = acc_segframe g.
Proof.
  unfold acc_segframe. rewrite acc_reference_type_M.
  destruct (acc_reference_type allowed_planar g) as [rt|e]; cbn [bind]; [|reflexivity].
  destruct (rt =? cRefSegFrame); [|reflexivity]. rewrite M_kids.
  rewrite (filter_M (is_rel_item cRefSegFrame IMAGE)) by (intros i; apply is_rel_item_M).
  rewrite (filter_M (fun i => negb (is_rel_item cRefSegFrame IMAGE i) && is_rel_item cSrcImgSeg IMAGE i))
    by (intros i; now rewrite !is_rel_item_M).
  destruct (filter (is_rel_item cRefSegFrame IMAGE) (kids g)) as [|s [|s2 ss]] eqn:ES; cbn [map]; try reflexivity.
  destruct (filter (fun i => negb (is_rel_item cRefSegFrame IMAGE i) && is_rel_item cSrcImgSeg IMAGE i) (kids g))
    as [|im [|im2 ims]] eqn:EI; cbn [map]; try reflexivity.
  assert (Hs : vt_eqb (vt s) IMAGE = true).
  { assert (In s (filter (is_rel_item cRefSegFrame IMAGE) (kids g))) by (rewrite ES; now left).
    apply filter_In in H as [_ H]. now apply rel_item_vt in H. }
  assert (Him : vt_eqb (vt im) IMAGE = true).
  { assert (In im (filter (fun i => negb (is_rel_item cRefSegFrame IMAGE i) && is_rel_item cSrcImgSeg IMAGE i) (kids g)))
      by (rewrite EI; now left).
    apply filter_In in H as [_ H]. apply andb_true_iff in H as [_ H]. now apply rel_item_vt in H. }
  now rewrite (M_v1 s IMAGE Hs), (M_v2 s IMAGE Hs), (M_v1 im IMAGE Him), (M_v2 im IMAGE Him).
Qed.

Lemma acc_segment_M g : acc_segment (M g) = acc_segment g.
Proof.
  unfold acc_segment. rewrite acc_reference_type_M.
  destruct (acc_reference_type allowed_volumetric g) as [rt|e]; cbn [bind]; [|reflexivity].
  destruct (rt =? cRefSegment); [|reflexivity]. rewrite M_kids.
  rewrite (filter_M (is_rel_item cRefSegment IMAGE)) by (intros i; apply is_rel_item_M).
  rewrite (filter_M (fun i => negb (is_rel_item cRefSegment IMAGE i))) by (intros i; now rewrite is_rel_item_M).
  rewrite split_sources_M.
  destruct (filter (is_rel_item cRefSegment IMAGE) (kids g)) as [|s [|s2 ss]] eqn:ES; cbn [map]; try reflexivity.
  assert (Hs : vt_eqb (vt s) IMAGE = true).
  { assert (In s (filter (is_rel_item cRefSegment IMAGE) (kids g))) by (rewrite ES; now left).
    apply filter_In in H as [_ H]. now apply rel_item_vt in H. }
  now rewrite (M_v1 s IMAGE Hs), (M_v2 s IMAGE Hs).
Qed.

(* the two ROI accessors read the FIRST child of an image region (its source image) without looking at its value
   type: on trees in which no child of a child of the group is a NUM item they cannot see the rewriting either *)
Definition grandkids_not_num (g : item) : Prop :=
  forall r s, In r (kids g) -> In s (kids r) -> vt_eqb (vt s) NUM = false.
Lemma grandkids_M g : grandkids_not_num g -> grandkids_not_num (M g).
Proof.
  intros H r s Hr Hs. rewrite M_kids in Hr. apply in_map_iff in Hr as [r0 [<- Hr0]].
  rewrite M_kids in Hs. apply in_map_iff in Hs as [s0 [<- Hs0]]. rewrite M_vt. eauto.
Qed.

Lemma region_source_M r : (forall s, In s (kids r) -> vt_eqb (vt s) NUM = false) ->
  match kids (M r) with s :: _ => (v1 s, v2 s) | [] => (-1, -1) end =
  match kids r with s :: _ => (v1 s, v2 s) | [] => (-1, -1) end.
Proof.
  intros H. rewrite M_kids. destruct (kids r) as [|s t]; cbn [map]; [reflexivity|].
  destruct (M_v s (H s (or_introl eq_refl))) as [-> ->]. reflexivity.
Qed.

Lemma acc_planar_roi_M g : grandkids_not_num g -> acc_planar_roi (M g) = acc_planar_roi g.
Proof.
  intros Hg. unfold acc_planar_roi. rewrite M_kids, !find_items_M.
  destruct (find_items (kids g) (Some cImageRegion) (Some SCOORD) None) as [|r t] eqn:E; cbn [map].
  - destruct (find_items (kids g) (Some cImageRegion) (Some SCOORD3D) None) as [|r t] eqn:E3; cbn [map]; [reflexivity|].
    assert (Hr : In r (find_items (kids g) (Some cImageRegion) (Some SCOORD3D) None)) by (rewrite E3; now left).
    apply in_find_vt in Hr. now rewrite (M_v1 r SCOORD3D Hr).
  - assert (Hr : In r (find_items (kids g) (Some cImageRegion) (Some SCOORD) None)) by (rewrite E; now left).
    pose proof (in_find_vt _ _ _ _ _ Hr) as Hv. unfold find_items in Hr. apply filter_In in Hr as [Hr _].
    pose proof (region_source_M r (fun s Hs => Hg r s Hr Hs)) as Hs.
    rewrite (M_v1 r SCOORD Hv eq_refl). rewrite M_kids in *.
    destruct (kids r) as [|s ss]; cbn [map] in *; [reflexivity|]. now inversion Hs.
Qed.

Lemma all_same_gt_M l : (forall i, In i l -> vt_eqb (vt i) NUM = false) -> all_same_gt (map M l) = all_same_gt l.
Proof.
  intros H. destruct l as [|x t]; [reflexivity|].
  assert (F : forall c l0, (forall i, In i l0 -> vt_eqb (vt i) NUM = false) ->
                           forallb (fun i => v1 i =? c) (map M l0) = forallb (fun i => v1 i =? c) l0).
  { intros c. induction l0 as [|a l0 IH]; intros H0; cbn [map forallb]; [reflexivity|].
    destruct (M_v a (H0 a (or_introl eq_refl))) as [-> _]. f_equal. apply IH. intros i Hi. apply H0. now right. }
  unfold all_same_gt. cbn [map]. destruct (M_v x (H x (or_introl eq_refl))) as [-> _].
  change (M x :: map M t) with (map M (x :: t)). now apply F.
Qed.

Lemma acc_vol_roi_M g : grandkids_not_num g -> acc_vol_roi (M g) = acc_vol_roi g.
Proof.
  intros Hg. unfold acc_vol_roi. rewrite acc_reference_type_M.
  destruct (acc_reference_type allowed_volumetric g) as [rt|e]; cbn [bind]; [|reflexivity].
  destruct (rt =? cImageRegion).
  - rewrite M_kids, find_items_M. do 2 f_equal. apply map_M. intros r Hr.
    pose proof (in_find_vt _ _ _ _ _ Hr) as Hv. unfold find_items in Hr. apply filter_In in Hr as [Hr _].
    rewrite (M_v1 r SCOORD Hv eq_refl). f_equal. apply region_source_M. intros s Hs. exact (Hg r s Hr Hs).
  - destruct (rt =? cVolumeSurface); [|reflexivity]. rewrite M_kids.
    rewrite (filter_M (is_rel_item cVolumeSurface SCOORD3D)) by (intros i; apply is_rel_item_M).
    rewrite (filter_M (fun i => negb (is_rel_item cVolumeSurface SCOORD3D i))) by (intros i; now rewrite is_rel_item_M).
    rewrite split_sources_M.
    assert (Hvs : forall i, In i (filter (is_rel_item cVolumeSurface SCOORD3D) (kids g)) -> vt_eqb (vt i) NUM = false).
    { intros i Hi. apply filter_In in Hi as [_ Hi]. apply rel_item_vt in Hi. now apply (vt_other i SCOORD3D). }
    rewrite all_same_gt_M by exact Hvs. rewrite map_length.
    destruct (filter (is_rel_item cVolumeSurface SCOORD3D) (kids g)) as [|x t]; cbn [map]; [reflexivity|].
    destruct (M_v x (Hvs x (or_introl eq_refl))) as [-> _]. reflexivity.
Qed.

(* get_measurements sees exactly the rewritten NUM items *)
Lemma acc_measurements_M g name :
  acc_measurements (M g) name = map (fun i => (nm i, num_value (M i))) (find_items (kids g) name (Some NUM) None).
Proof.
  unfold acc_measurements. rewrite M_kids, find_items_M, map_map. apply map_ext. intros i. now rewrite M_nm.
Qed.

(* the whole accessor observation: only the two measurement lists can differ *)
Lemma acc_val_M k g mname ename : grandkids_not_num g ->
  (forall name, acc_measurements (M g) name = acc_measurements g name) ->
  acc_val k (M g) mname ename = acc_val k g mname ename.
Proof.
  intros Hg Hm. unfold acc_val.
  rewrite acc_tracking_uid_M, acc_tracking_identifier_M, acc_finding_type_M, acc_finding_category_M, acc_method_M,
    acc_finding_sites_M, !Hm, !acc_evaluations_M.
  destruct k.
  - now rewrite acc_reference_type_M, acc_planar_roi_M, acc_segframe_M.
  - now rewrite acc_reference_type_M, acc_vol_roi_M, acc_segment_M.
  - now rewrite acc_source_images_M.
Qed.

Lemma positions_M k root f : positions (query k (M root) f) = positions (query k root f).
Proof.
  rewrite query_M. destruct (query k root f) as [l|e]; cbn [on_items positions vres]; [|reflexivity].
  f_equal. rewrite map_map. apply map_ext. intros g. now rewrite acc_tracking_identifier_M.
Qed.
End MapNum.

(* the filtered queries of the correspondence run do not depend on the numbers of the NUM items *)
Theorem run_tree_queries_map_num fn root f : run_tree_queries (map_num fn root) f = run_tree_queries root f.
Proof. unfold run_tree_queries. now rewrite !positions_M. Qed.

(* ---------------------------------------------------------------------------------- *)
(* measurements under the two instances                                                 *)
(* ---------------------------------------------------------------------------------- *)
(* encoding: a measurement keeps its value if it carries Floating Point Value, or if its Numeric Value is one the
   DS string represents exactly *)
Definition survives (trunc : Z -> Z) (i : item) : Prop := v2 i <> 0 \/ trunc (v1 i) = v1 i.

Lemma num_value_encode trunc i : vt_eqb (vt i) NUM = true -> survives trunc i ->
  num_value (encode trunc i) = num_value i.
Proof.
  intros Hv Hs. destruct (M_num (fun a b => (trunc a, b)) i Hv) as [E1 E2]. cbn [fst snd] in E1, E2.
  fold (encode trunc) in E1, E2. destruct (Z.eq_dec (v2 i) 0) as [Z|NZ].
  - rewrite !num_value_nofp by congruence. rewrite E1. destruct Hs; [contradiction|assumption].
  - apply num_value_v2; congruence.
Qed.

Theorem measurements_survive_encoding trunc g name :
  (forall i, In i (kids g) -> vt_eqb (vt i) NUM = true -> survives trunc i) ->
  acc_measurements (encode trunc g) name = acc_measurements g name.
Proof.
  intros H. unfold encode. rewrite acc_measurements_M. unfold acc_measurements. apply map_ext_in. intros i Hi.
  f_equal. pose proof (in_find_vt _ _ _ _ _ Hi) as Hv. unfold find_items in Hi. apply filter_In in Hi as [Hi _].
  apply num_value_encode; auto.
Qed.

(* the precedence is needed: an accessor preferring Numeric Value (`v1`) changes its answer under encoding although
   every measurement carries its Floating Point Value *)
Definition third_g : item :=
  Item cMeasurementGroup CONTAINER CONTAINS 0 0 (Some 1501)
       [leaf cTrackingIdentifier TEXT HAS_OBS_CONTEXT 1000 0; leaf 140 NUM CONTAINS 33333 (fp_code 33333)].
Lemma numeric_value_first_refuted :
  let alt g := map (fun i => (nm i, v1 i)) (find_items (kids g) None (Some NUM) None) in
  (forall i, In i (kids third_g) -> vt_eqb (vt i) NUM = true -> v2 i <> 0) /\
  alt (encode (fun _ => 33) third_g) <> alt third_g /\
  acc_measurements (encode (fun _ => 33) third_g) None = acc_measurements third_g None /\
  acc_measurements third_g None = [(140, 33333)].
Proof.
  cbv zeta. split; [|split; [|split]]; try (vm_compute; congruence).
  intros i [<-|[<-|[]]]; vm_compute; congruence.
Qed.

(* writing Floating Point Value (with the number given) on items that had none does not change any value *)
Lemma num_value_with_fp fl i : vt_eqb (vt i) NUM = true -> v2 i = 0 -> num_value (with_fp fl i) = num_value i.
Proof.
  intros Hv Hz. destruct (M_num (fun a b => (a, if fl a then fp_code a else b)) i Hv) as [E1 E2].
  cbn [fst snd] in E1, E2. fold (with_fp fl) in E1, E2. rewrite (num_value_nofp i Hz).
  destruct (fl (v1 i)).
  - destruct (with_fp fl i) as [n v r a b t k]. cbn [v1 v2] in E1, E2. subst a b. apply num_value_prefers_fp.
  - rewrite num_value_nofp by congruence. exact E1.
Qed.
Lemma with_fp_v fl i : vt_eqb (vt i) NUM = true -> v2 i = 0 ->
  v1 (with_fp fl i) = v1 i /\ (v2 (with_fp fl i) <> 0 <-> fl (v1 i) = true).
Proof.
  intros Hv Hz. destruct (M_num (fun a b => (a, if fl a then fp_code a else b)) i Hv) as [E1 E2].
  cbn [fst snd] in E1, E2. fold (with_fp fl) in E1, E2. split; [exact E1|]. rewrite E2.
  destruct (fl (v1 i)); [|rewrite Hz]; split; intros; try congruence. apply fp_code_nonzero.
Qed.

(* ---------------------------------------------------------------------------------- *)
(* records                                                                              *)
(* ---------------------------------------------------------------------------------- *)
Lemma ref_items_grandkids r i s : In i (ref_items r) -> In s (kids i) -> vt_eqb (vt s) NUM = false.
Proof.
  assert (Hso : forall so, In i (source_items so) -> In s (kids i) -> vt_eqb (vt s) NUM = false).
  { intros [l|u]; cbn [source_items].
    - intros H. apply in_map_iff in H as [x [<- _]]. intros [].
    - intros [<-|[]] []. }
  assert (Hreg : forall x, In s (kids (region_item x)) -> vt_eqb (vt s) NUM = false).
  { intros x [<-|[]]. reflexivity. }
  destruct r as [gt c j|gt|c j sc sj|rs|c j so|gt n so|c j|l]; cbn [ref_items].
  - intros [<-|[]]. apply Hreg.
  - intros [<-|[]] [].
  - intros [<-|[<-|[]]] [].
  - intros H. apply in_map_iff in H as [x [<- _]]. apply Hreg.
  - intros [<-|H]; [intros []|now apply (Hso so)].
  - intros H. apply in_app_or in H as [H|H]; [|now apply (Hso so)]. apply repeat_spec in H. subst i. intros [].
  - intros [<-|[]] [].
  - intros H. apply in_map_iff in H as [x [<- _]]. intros [].
Qed.

Lemma kids_build_num g i : In i (kids (build g)) -> vt_eqb (vt i) NUM = true ->
  exists m, In m (g_meas g) /\ i = leaf (fst m) NUM CONTAINS (snd m) 0.
Proof.
  rewrite kids_build. intros H. apply in_app_or in H as [H|H].
  - revert i H.
    apply (common_items_ind (fun i => vt_eqb (vt i) NUM = true ->
                                      exists m, In m (g_meas g) /\ i = leaf (fst m) NUM CONTAINS (snd m) 0));
      intros; try discriminate; eauto.
  - intros Hn. apply ref_items_vt in H as [_ [H _]]. congruence.
Qed.

Lemma grandkids_build g : grandkids_not_num (build g).
Proof.
  intros r s Hr Hs. rewrite kids_build in Hr. apply in_app_or in Hr as [Hr|Hr].
  - exfalso. revert r Hr Hs. apply (common_items_ind (fun r => In s (kids r) -> False)); intros; assumption.
  - exact (ref_items_grandkids _ _ _ Hr Hs).
Qed.

Section Records.
Variables (fl : Z -> bool) (trunc : Z -> Z).
(* a group as the template classes build it from record g when the values `fl` are given as Python floats ... *)
Definition built_mem (g : group) : item := with_fp fl (build g).
(* ... and after DICOM encoding *)
Definition built (g : group) : item := encode trunc (built_mem g).
(* every measurement value either was a float (Floating Point Value is written) or has an exact DS string *)
Definition values_ok (g : group) : Prop := forall m, In m (g_meas g) -> fl (snd m) = true \/ trunc (snd m) = snd m.

Lemma measurements_built_mem g name : acc_measurements (built_mem g) name = acc_measurements (build g) name.
Proof.
  unfold built_mem, with_fp. rewrite acc_measurements_M. unfold acc_measurements. apply map_ext_in. intros i Hi. f_equal.
  pose proof (in_find_vt _ _ _ _ _ Hi) as Hv. unfold find_items in Hi. apply filter_In in Hi as [Hi _].
  destruct (kids_build_num g i Hi Hv) as [m [_ ->]]. now apply num_value_with_fp.
Qed.

Lemma measurements_built g name : values_ok g -> acc_measurements (built g) name = acc_measurements (built_mem g) name.
Proof.
  intros Hok. unfold built. apply measurements_survive_encoding.
  intros i' Hi' Hv'. unfold built_mem, with_fp in Hi'. rewrite M_kids in Hi'. apply in_map_iff in Hi' as [i [<- Hi]].
  rewrite M_vt in Hv'. destruct (kids_build_num g i Hi Hv') as [m [Hm ->]].
  destruct (with_fp_v fl (leaf (fst m) NUM CONTAINS (snd m) 0) eq_refl eq_refl) as [E1 E2]. cbn [v1 leaf] in E1, E2.
  unfold survives. fold (with_fp fl). rewrite E1. destruct (Hok m Hm) as [F|T]; [left; now apply E2|now right].
Qed.

Lemma acc_val_built_mem k g mname ename : acc_val k (built_mem g) mname ename = acc_val k (build g) mname ename.
Proof.
  unfold built_mem, with_fp. apply acc_val_M; [apply grandkids_build|]. intros name. apply measurements_built_mem.
Qed.

Lemma acc_val_built k g mname ename : wf g = true -> g_kind g = k -> values_ok g ->
  acc_val k (built g) mname ename = spec_acc k g mname ename.
Proof.
  intros Hw Hk Hok. rewrite <- (acc_val_build k g mname ename Hw Hk), <- acc_val_built_mem.
  unfold built, encode. apply acc_val_M.
  - unfold built_mem, with_fp. apply grandkids_M, grandkids_build.
  - intros name. now apply measurements_built.
Qed.

(* the property, end to end, for a report that went through DICOM encoding: the queries answer exactly as on the
   records, and every returned group shows what its record says - measurement values included *)
Theorem end_to_end_encoded k pre gs f mname ename : no_im pre = true -> Forall good gs -> qcheck k f = Ok tt ->
  Forall values_ok gs ->
  let answer := filter (fun g => kind_eqb (g_kind g) k && satk k f g) gs in
  query k (encode trunc (with_fp fl (report pre gs))) f = Ok (map built answer) /\
  map (fun it => acc_val k it mname ename) (map built answer) = map (fun g => spec_acc k g mname ename) answer.
Proof.
  intros Hp Hg Hc Hv answer. split.
  - unfold encode, with_fp. rewrite !query_M, (query_exact k pre gs f Hp Hg Hc). cbn [on_items]. now rewrite !map_map.
  - rewrite map_map. apply map_ext_in. intros g Hin. unfold answer in Hin. apply filter_In in Hin as [Hin Hf].
    apply andb_true_iff in Hf as [Hk _]. apply kind_eqb_eq in Hk.
    rewrite Forall_forall in Hg, Hv. destruct (Hg g Hin) as [Hw _]. apply acc_val_built; auto.
Qed.

End Records.

(* What is left of the premise since NumContentItem.__init__ writes Floating Point Value for EVERY value whose DS
   string may be rounded (`fl`: floats, and ints of more than 16 characters - fix D111): no condition on the values
   of the report any more, only one on the DS behaviour - where no Floating Point Value is written (ints of at most
   16 characters, written digit by digit) the string reads back as the number. *)
Definition ds_exact_without_fp (fl : Z -> bool) (trunc : Z -> Z) : Prop := forall x, fl x = false -> trunc x = x.
Lemma values_ok_all fl trunc g : ds_exact_without_fp fl trunc -> values_ok fl trunc g.
Proof. intros H m _. destruct (fl (snd m)) eqn:E; [now left|right; now apply H]. Qed.

Theorem end_to_end_encoded_constructed fl trunc k pre gs f mname ename :
  no_im pre = true -> Forall good gs -> qcheck k f = Ok tt -> ds_exact_without_fp fl trunc ->
  let answer := filter (fun g => kind_eqb (g_kind g) k && satk k f g) gs in
  query k (encode trunc (with_fp fl (report pre gs))) f = Ok (map (built fl trunc) answer) /\
  map (fun it => acc_val k it mname ename) (map (built fl trunc) answer) = map (fun g => spec_acc k g mname ename) answer.
Proof.
  intros Hp Hg Hc Hd. apply end_to_end_encoded; auto. apply Forall_forall. intros g _. now apply values_ok_all.
Qed.

(* the premise cannot be dropped: a value without Floating Point Value whose DS string is rounded comes back changed
   (the behaviour of ints of more than 16 characters before fix D111) *)
Lemma ds_premise_needed :
  let g := Group ImageK 1 1000 None None None [] (SourceImgs []) [(140, 33333)] [] None None None true in
  good g /\ acc_measurements (built (fun _ => false) (fun _ => 33) g) None = [(140, 33)] /\
  acc_measurements (built (fun _ => true) (fun _ => 33) g) None = [(140, 33333)].
Proof. cbv zeta. split; [split; reflexivity|]. split; vm_compute; reflexivity. Qed.

(* the accessor observation of the correspondence run for encoded reports (run_accessors_enc) is the record-level
   specification, i.e. what run_accessors shows for the report that was never encoded *)
Theorem run_accessors_enc_exact floats tbl pre gs mname ename : no_im pre = true -> Forall good gs ->
  Forall (values_ok (fun x => mem x floats) (tbl_fun tbl)) gs ->
  run_accessors_enc floats tbl pre gs mname ename = run_accessors pre gs mname ename.
Proof.
  intros Hp Hg Hv. unfold run_accessors_enc, run_accessors, run_tree_accessors. f_equal. apply map_ext_in. intros k _.
  assert (Hc : qcheck k nofilt = Ok tt) by (now destruct k).
  destruct (end_to_end_encoded (fun x => mem x floats) (tbl_fun tbl) k pre gs nofilt mname ename Hp Hg Hc Hv) as [E1 E2].
  destruct (end_to_end k pre gs nofilt mname ename Hp Hg Hc) as [F1 F2].
  rewrite E1, F1. cbn [vres]. now rewrite E2, F2.
Qed.

(* non-vacuity: a planar group with a float measurement (1/3 stands for key 33333, its DS string for 33) and an
   integer one, encoded: the record is reported; without Floating Point Value the float would come back as 33 *)
Definition enc_group : group :=
  Group Planar 1 1000 None (Some 110) None [130] (Region2D 4 0 3) [(140, 33333); (141, 7)] [] None None None true.
Lemma encoded_nonvacuous :
  good enc_group /\ values_ok (fun x => mem x [33333]) (tbl_fun [(33333, 33)]) enc_group /\
  run_accessors_enc [33333] [(33333, 33)] [] [enc_group] None None = run_accessors [] [enc_group] None None /\
  run_accessors_enc [] [(33333, 33)] [] [enc_group] None None <> run_accessors [] [enc_group] None None.
Proof.
  split; [|split; [|split]].
  - split; reflexivity.
  - intros m [<-|[<-|[]]]; [left|right]; reflexivity.
  - vm_compute. reflexivity.
  - vm_compute. congruence.
Qed.
