(* C18 - proofs, part 5: the answers of one group object do not depend on the
   order in which its accessors are called (get_coordinates before or after
   get_graphic_data, cold or warm cache). *)
From Coq Require Import String ZArith List Bool Lia ZifyBool.
From HD Require Import Base.Val C18_Model C18_Proofs.
Import ListNotations.
Open Scope Z_scope.

(* what a call answers when nothing has been called before on a parsed group *)
Definition stateless (e : enc) (o : hop) : hres :=
  match o with
  | HAll cd => RAll (decode e cd)
  | HOne k cd => ROne (get_coordinates (decode e cd) k)
  end.

(* what a call must answer when the group holds [gd] *)
Definition answer (gd : list annot) (o : hop) : hres :=
  match o with
  | HAll _ => RAll (Ok gd)
  | HOne k _ => ROne (if k <? 1 then Err VE
                      else match nth_error gd (Z.to_nat (k - 1)) with
                           | Some a => Ok a
                           | None => Err "IndexError"
                           end)
  end.

(* the cache is either empty or holds exactly what decoding under [cd] gives *)
Definition cache_ok (e : enc) (cd : Z) (c : gcache) : Prop :=
  c = None \/ exists gd, c = Some (cd, gd) /\ decode e cd = Ok gd.

Lemma cached_ok : forall e cd c, cache_ok e cd c ->
  fst (cached_graphic_data e c cd) = decode e cd /\ cache_ok e cd (snd (cached_graphic_data e c cd)).
Proof.
  intros e cd c [->|(gd & -> & Hd)]; unfold cached_graphic_data.
  - destruct (decode e cd) as [gd|k] eqn:E; cbn [fst snd]; split; try reflexivity.
    + right. exists gd. split; [reflexivity|exact E].
    + left. reflexivity.
  - rewrite Z.eqb_refl. cbn [fst snd]. split; [now rewrite Hd|].
    right. exists gd. split; [reflexivity|exact Hd].
Qed.

Lemma get_coordinates_low : forall r k, k <? 1 = true -> get_coordinates r k = Err VE.
Proof. intros r k Hk. unfold get_coordinates. now rewrite Hk. Qed.

Lemma hstep_ok : forall e cd c o, cache_ok e cd c -> op_cd o = cd ->
  fst (hstep e c o) = stateless e o /\ cache_ok e cd (snd (hstep e c o)).
Proof.
  intros e cd c o Hc Ho. destruct o as [cd'|k cd']; cbn [op_cd] in Ho; subst cd'; unfold hstep, stateless.
  - destruct (cached_ok e cd c Hc) as [H1 H2]. cbn [fst snd]. rewrite H1. split; [reflexivity|exact H2].
  - destruct (k <? 1) eqn:Ek; cbn [fst snd].
    + split; [|exact Hc]. now rewrite get_coordinates_low.
    + destruct (cached_ok e cd c Hc) as [H1 H2]. rewrite H1. split; [reflexivity|exact H2].
Qed.

Lemma run_ops_ok : forall e cd ops c, cache_ok e cd c -> Forall (fun o => op_cd o = cd) ops ->
  run_ops e c ops = map (stateless e) ops.
Proof.
  intros e cd ops. induction ops as [|o t IH]; intros c Hc Hall; [reflexivity|].
  inversion Hall as [|o' t' Ho Ht]; subst. cbn [run_ops map].
  destruct (hstep_ok e (op_cd o) c o Hc eq_refl) as [H1 H2]. rewrite H1. f_equal. apply IH; assumption.
Qed.

(* parsed group, any sequence of calls under one coordinate type: every call answers
   as if it were the first one *)
Lemma history_parsed : forall e cd ops, Forall (fun o => op_cd o = cd) ops ->
  run_ops e None ops = map (stateless e) ops.
Proof. intros e cd ops H. apply (run_ops_ok e cd); [left; reflexivity|exact H]. Qed.

(* freshly built group (cache = the caller's arrays under their own type) *)
Lemma history_fresh : forall e gd d ops, Forall (fun o => op_cd o = d) ops ->
  run_ops e (Some (d, gd)) ops = map (answer gd) ops.
Proof.
  intros e gd d ops. induction ops as [|o t IH]; intros Hall; [reflexivity|].
  inversion Hall as [|o' t' Ho Ht]; subst. cbn [run_ops map].
  assert (Hs : hstep e (Some (op_cd o, gd)) o = (answer gd o, Some (op_cd o, gd))).
  { destruct o as [cd|k cd]; cbn [op_cd hstep answer cached_graphic_data].
    - rewrite Z.eqb_refl. reflexivity.
    - destruct (k <? 1) eqn:Ek; [reflexivity|]. rewrite Z.eqb_refl. cbn [fst snd].
      unfold get_coordinates. rewrite Ek. reflexivity. }
  rewrite Hs. cbn [fst snd]. f_equal. apply IH. exact Ht.
Qed.

Lemma stateless_answer : forall dbl gt gd e o,
  encode dbl gt gd = Ok e -> z_agree dbl gd = true -> op_cd o = dim gd -> stateless e o = answer gd o.
Proof.
  intros dbl gt gd e o He Hz Ho. destruct o as [cd|k cd]; cbn [op_cd] in Ho; subst cd; unfold stateless, answer.
  - now rewrite (graphic_roundtrip _ _ _ _ He Hz).
  - now rewrite (per_annotation _ _ _ _ _ He Hz).
Qed.

(* THE clause: whatever the order of the calls, a parsed group answers every call with
   the stored data - the whole list, item k-1 for 1<=k<=n, ValueError / IndexError
   outside *)
Lemma access_order_parsed : forall dbl gt gd e ops,
  encode dbl gt gd = Ok e -> z_agree dbl gd = true ->
  Forall (fun o => op_cd o = dim gd) ops ->
  run_ops e None ops = map (answer gd) ops.
Proof.
  intros dbl gt gd e ops He Hz Hall. rewrite (history_parsed e (dim gd) ops Hall).
  apply map_ext_in. intros o Ho. apply (stateless_answer dbl gt gd e o He Hz).
  rewrite Forall_forall in Hall. exact (Hall o Ho).
Qed.

Lemma access_order_fresh : forall dbl gt gd e ops,
  encode dbl gt gd = Ok e -> Forall (fun o => op_cd o = dim gd) ops ->
  run_ops e (Some (row_dim gd, gd)) ops = map (answer gd) ops.
Proof. intros dbl gt gd e ops _ Hall. apply history_fresh. exact Hall. Qed.

(* hence parsed and fresh object are indistinguishable by any history *)
Lemma parsed_like_fresh : forall dbl gt gd e ops,
  encode dbl gt gd = Ok e -> z_agree dbl gd = true ->
  Forall (fun o => op_cd o = dim gd) ops ->
  run_ops e None ops = run_ops e (Some (row_dim gd, gd)) ops.
Proof.
  intros dbl gt gd e ops He Hz Hall.
  rewrite (access_order_parsed dbl gt gd e ops He Hz Hall).
  symmetry. apply (access_order_fresh dbl gt gd e ops He Hall).
Qed.

(* once something is cached under one coordinate type, a call under the other type is
   refused (ValueError) and changes nothing *)
Lemma other_type_refused : forall e cd0 gd o, op_cd o <> cd0 ->
  hstep e (Some (cd0, gd)) o =
  (match o with HAll _ => RAll (Err VE) | HOne _ _ => ROne (Err VE) end, Some (cd0, gd)).
Proof.
  intros e cd0 gd o Ho. destruct o as [cd|k cd]; cbn [op_cd] in Ho; cbn [hstep cached_graphic_data].
  - replace (cd0 =? cd) with false by lia. reflexivity.
  - destruct (k <? 1) eqn:Ek; [reflexivity|]. replace (cd0 =? cd) with false by lia.
    cbn [fst snd]. unfold get_coordinates. rewrite Ek. reflexivity.
Qed.
