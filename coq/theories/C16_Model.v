(* C16 - model of the measurement-report queries.
   Mirrors (src/highdicom/sr):
     utils.py      find_content_items (non-recursive)
     templates.py  _count_roi_items, _contains_planar_rois, _contains_volumetric_rois,
                   _get_roi_reference_items, _get_planar_roi_reference_item,
                   _contains_code_items, _contains_uidref_items, _contains_image_items,
                   MeasurementReport._find_measurement_groups,
                   get_planar_roi_measurement_groups, get_volumetric_roi_measurement_groups,
                   get_image_measurement_groups  (argument checks, classification, filters),
                   group accessors tracking_uid, tracking_identifier, finding_type,
                   finding_category, method, finding_sites, reference_type, roi,
                   referenced_segmentation_frame, referenced_segment, source_images,
                   get_measurements, get_qualitative_evaluations,
                   and the item skeleton produced by the group constructors
                   (_MeasurementsAndQualitativeEvaluations.__init__ and subclasses).
   Coded concepts, UIDs and texts are abstract integers (their equality is the
   only thing the code uses); reserved concept names are the constants below,
   user-chosen codes are >= 100.  NO proofs in this file. *)
From Coq Require Import String ZArith List Bool.
From HD Require Import Base.Val.
Import ListNotations.
Open Scope Z_scope.

(* ---- reserved concept names ------------------------------------------------ *)
Definition cMeasurementGroup := 1.      (* DCM 125007 *)
Definition cImagingMeasurements := 2.   (* DCM 126010 *)
Definition cTrackingIdentifier := 3.    (* DCM 112039 *)
Definition cTrackingUID := 4.           (* DCM 112040 *)
Definition cFinding := 5.               (* DCM 121071 *)
Definition cFindingSite := 6.           (* SCT 363698007 *)
Definition cFindingCategory := 7.       (* SCT 276214006 *)
Definition cMethod := 8.                (* SCT 370129005 *)
Definition cImageRegion := 9.           (* DCM 111030 *)
Definition cVolumeSurface := 10.        (* DCM 121231 *)
Definition cRefSegment := 11.           (* DCM 121191 *)
Definition cRefSegFrame := 12.          (* DCM 121214 *)
Definition cRegionInSpace := 13.        (* DCM 130488 *)
Definition cSrcImgSeg := 14.            (* DCM 121233 *)
Definition cSrcSeriesSeg := 15.         (* DCM 121232 *)
Definition cSource := 16.               (* SCT 260753009 *)
Definition cGeomPurpose := 17.          (* DCM 130400 *)
Definition cTimePoint := 18.            (* UMLS C2348792 *)
Definition cTimePointType := 19.        (* DCM 126072 *)
Definition cSession := 20.              (* NCIt C67447 *)

Inductive vtype := CONTAINER | CODE | TEXT | UIDREF | NUM | IMAGE | SCOORD | SCOORD3D | COMPOSITE | PNAME.
Inductive rtype := RNone | CONTAINS | HAS_OBS_CONTEXT | HAS_CONCEPT_MOD | SELECTED_FROM | HAS_PROPERTIES | INFERRED_FROM.

Definition vt_tag (v : vtype) : Z :=
  match v with CONTAINER => 0 | CODE => 1 | TEXT => 2 | UIDREF => 3 | NUM => 4 | IMAGE => 5
             | SCOORD => 6 | SCOORD3D => 7 | COMPOSITE => 8 | PNAME => 9 end.
Definition rt_tag (r : rtype) : Z :=
  match r with RNone => 0 | CONTAINS => 1 | HAS_OBS_CONTEXT => 2 | HAS_CONCEPT_MOD => 3
             | SELECTED_FROM => 4 | HAS_PROPERTIES => 5 | INFERRED_FROM => 6 end.
Definition vt_eqb a b := vt_tag a =? vt_tag b.
Definition rt_eqb a b := rt_tag a =? rt_tag b.

(* A content item.  v1/v2: CODE value | TEXT id | UID id;
   NUM: v1 = MeasuredValueSequence[0].NumericValue (the DS element, as the number float() makes of it),
        v2 = MeasuredValueSequence[0].FloatingPointValue (FD): 0 = attribute absent, otherwise `fp_code x`
        (numbers are abstract integers - injective keys of doubles; see num_value below);
   IMAGE / COMPOSITE: referenced SOP class (v1) and instance (v2);
   SCOORD / SCOORD3D: graphic type (v1).  tmpl: ContentTemplateSequence[0].TemplateIdentifier *)
Inductive item := Item (nm : Z) (vt : vtype) (rl : rtype) (v1 v2 : Z) (tmpl : option Z) (kids : list item).
Definition nm (i : item) := let 'Item n _ _ _ _ _ _ := i in n.
Definition vt (i : item) := let 'Item _ v _ _ _ _ _ := i in v.
Definition rl (i : item) := let 'Item _ _ r _ _ _ _ := i in r.
Definition v1 (i : item) := let 'Item _ _ _ a _ _ _ := i in a.
Definition v2 (i : item) := let 'Item _ _ _ _ b _ _ := i in b.
Definition tmpl (i : item) := let 'Item _ _ _ _ _ t _ := i in t.
Definition kids (i : item) := let 'Item _ _ _ _ _ _ k := i in k.

Definition leaf n v r a b := Item n v r a b None [].

Definition mem (x : Z) (l : list Z) : bool := existsb (Z.eqb x) l.
Definition isSome {A} (o : option A) : bool := match o with Some _ => true | None => false end.
Definition opt_ok (o : option Z) (x : Z) : bool := match o with None => true | Some y => x =? y end.

(* ---- utils.find_content_items (recursive=False) ----------------------------- *)
Definition has_name (o : option Z) (i : item) := match o with None => true | Some n => nm i =? n end.
Definition has_vt (o : option vtype) (i : item) := match o with None => true | Some v => vt_eqb (vt i) v end.
Definition has_rl (o : option rtype) (i : item) :=
  match o with None => true
             | Some r => match rl i with RNone => false | r' => rt_eqb r' r end end.
Definition find_items (l : list item) (n : option Z) (v : option vtype) (r : option rtype) : list item :=
  filter (fun i => has_name n i && has_vt v i && has_rl r i) l.

(* ---- _count_roi_items / _contains_*_rois -------------------------------------- *)
Definition count (p : item -> bool) (l : list item) : Z := Z.of_nat (length (filter p l)).
Definition is_ir i := (nm i =? cImageRegion) && (vt_eqb (vt i) SCOORD || vt_eqb (vt i) SCOORD3D).
Definition is_vs i := (nm i =? cVolumeSurface) && vt_eqb (vt i) SCOORD3D.
Definition is_rs i := (nm i =? cRefSegment) && vt_eqb (vt i) IMAGE.
Definition is_sf i := (nm i =? cRefSegFrame) && vt_eqb (vt i) IMAGE.
Definition is_ris i := (nm i =? cRegionInSpace) && vt_eqb (vt i) COMPOSITE.

Definition count_roi_items (g : item) : res (Z * Z * Z * Z * Z) :=
  if negb (vt_eqb (vt g) CONTAINER) then Err "ValueError"%string
  else if negb (nm g =? cMeasurementGroup) then Err "ValueError"%string
  else Ok (count is_ir (kids g), count is_vs (kids g), count is_rs (kids g),
           count is_sf (kids g), count is_ris (kids g)).

Definition contains_planar (g : item) : res bool :=
  bind (count_roi_items g) (fun '(ir, vs, rs, sf, ris) =>
    Ok (((ir =? 1) || (0 <? sf) || (ris =? 1)) && ((vs =? 0) && (rs =? 0)))).
Definition contains_volumetric (g : item) : res bool :=
  bind (count_roi_items g) (fun '(ir, vs, rs, sf, ris) =>
    Ok (((1 <? ir) || (0 <? rs) || (0 <? vs) || (0 <? ris)) && (sf =? 0))).

(* ---- _get_roi_reference_items --------------------------------------------------- *)
Definition allowed_planar := [cImageRegion; cRefSegFrame; cRegionInSpace].
Definition allowed_volumetric := [cImageRegion; cRefSegment; cVolumeSurface; cRegionInSpace].

Definition expected_vt (n : Z) (v : vtype) : bool :=
  if n =? cImageRegion then vt_eqb v SCOORD || vt_eqb v SCOORD3D
  else if n =? cVolumeSurface then vt_eqb v SCOORD3D
  else if n =? cRefSegment then vt_eqb v IMAGE
  else if n =? cRefSegFrame then vt_eqb v IMAGE
  else if n =? cRegionInSpace then vt_eqb v COMPOSITE
  else false.

Definition is_candidate (allowed : list Z) (i : item) : bool :=
  rt_eqb (rl i) CONTAINS && mem (nm i) allowed && expected_vt (nm i) (vt i).

(* the loop, state = (reference_type, returned_items in reverse) *)
Fixpoint ref_loop (allowed : list Z) (l : list item) (rt : option Z) (acc : list item)
  : res (option Z * list item) :=
  match l with
  | [] => Ok (rt, rev acc)
  | i :: t =>
      if is_candidate allowed i then
        match rt with
        | None => ref_loop allowed t (Some (nm i)) (i :: acc)
        | Some r =>
            if negb (nm i =? r) then Err "RuntimeError"%string
            else if negb (mem r [cImageRegion; cVolumeSurface]) then Err "RuntimeError"%string
            else ref_loop allowed t rt (i :: acc)
        end
      else ref_loop allowed t rt acc
  end.

Definition get_roi_reference_items (g : item) (allowed : list Z) : res (Z * list item) :=
  bind (ref_loop allowed (kids g) None []) (fun '(rt, items) =>
    match rt, items with
    | Some r, _ :: _ => Ok (r, items)
    | _, _ => Err "RuntimeError"%string
    end).

Definition get_planar_ref_item (g : item) : res (Z * item) :=
  bind (get_roi_reference_items g allowed_planar) (fun '(r, items) =>
    match items with
    | [x] => Ok (r, x)
    | _ => Err "RuntimeError"%string
    end).

(* ---- _contains_*_items ---------------------------------------------------------------- *)
Definition contains_code_items (l : list item) (n : Z) (value : option Z) (r : rtype) : bool :=
  existsb (fun i => opt_ok value (v1 i)) (find_items l (Some n) (Some CODE) (Some r)).
Definition contains_uidref_items (l : list item) (n : Z) (value : option Z) (r : rtype) : bool :=
  existsb (fun i => opt_ok value (v1 i)) (find_items l (Some n) (Some UIDREF) (Some r)).
Definition contains_image_items (l : list item) (n : option Z) (cls inst : option Z) (r : rtype) : bool :=
  existsb (fun i => opt_ok cls (v1 i) && opt_ok inst (v2 i)) (find_items l n (Some IMAGE) (Some r)).

(* ---- MeasurementReport._find_measurement_groups ------------------------------------------ *)
Definition find_measurement_groups (root : item) : list item :=
  match find_items (kids root) (Some cImagingMeasurements) (Some CONTAINER) None with
  | [] => []
  | im :: _ => find_items (kids im) (Some cMeasurementGroup) (Some CONTAINER) None
  end.

(* ---- query arguments ------------------------------------------------------------------------ *)
(* graphic types: 2D POINT 1 MULTIPOINT 2 POLYLINE 3 CIRCLE 4 ELLIPSE 5;
                  3D POINT 1 MULTIPOINT 2 POLYLINE 3 POLYGON 4 ELLIPSE 5 ELLIPSOID 6 *)
Inductive gfilter := GNone | GBad | G2 (g : Z) | G3 (g : Z).
Record filt := Filt {
  f_tuid : option Z; f_finding : option Z; f_site : option Z;
  f_reftype : option Z; f_gt : gfilter; f_inst : option Z; f_cls : option Z }.

Definition gt_given (f : filt) := match f_gt f with GNone => false | _ => true end.
Definition uid_given (f : filt) := isSome (f_inst f) || isSome (f_cls f).

Definition check_planar (f : filt) : res unit :=
  bind (match f_gt f with
        | GNone => Ok tt
        | GBad => Err "TypeError"%string
        | G2 g => if g =? 2 then Err "ValueError"%string else Ok tt
        | G3 g => if (g =? 2) || (g =? 3) || (g =? 6) then Err "ValueError"%string
                  else if uid_given f then Err "TypeError"%string else Ok tt
        end) (fun _ =>
  match f_reftype f with
  | None => Ok tt
  | Some c => if negb (mem c allowed_planar) then Err "ValueError"%string
              else if gt_given f && negb (c =? cImageRegion) then Err "ValueError"%string
              else Ok tt
  end).

Definition check_volumetric (f : filt) : res unit :=
  bind (match f_gt f with
        | GNone => Ok tt
        | GBad => Err "TypeError"%string
        | G2 g => if g =? 2 then Err "ValueError"%string else Ok tt
        | G3 g => if (g =? 2) || (g =? 3) then Err "ValueError"%string
                  else if uid_given f then Err "TypeError"%string else Ok tt
        end) (fun _ =>
  match f_reftype f with
  | None => Ok tt
  | Some c => if negb (mem c allowed_volumetric) then Err "ValueError"%string
              else
                bind (if gt_given f then
                        if negb (mem c [cImageRegion; cVolumeSurface]) then Err "ValueError"%string
                        else if c =? cImageRegion then
                          match f_gt f with G3 _ => Err "TypeError"%string | _ => Ok tt end
                        else (* c = VolumeSurface *)
                          match f_gt f with G2 _ => Err "TypeError"%string | _ => Ok tt end
                      else Ok tt) (fun _ =>
                (* a volume surface is SCOORD3D: no referenced UIDs to test *)
                if (c =? cVolumeSurface) && uid_given f then Err "TypeError"%string else Ok tt)
  end).

(* ---- the per-group filter tests ----------------------------------------------------------------- *)
Definition common_matches (f : filt) (g : item) : bool :=
  (match f_finding f with None => true
    | Some c => contains_code_items (kids g) cFinding (Some c) CONTAINS end) &&
  (match f_site f with None => true
    | Some c => contains_code_items (kids g) cFindingSite (Some c) HAS_CONCEPT_MOD end) &&
  (match f_tuid f with None => true
    | Some u => contains_uidref_items (kids g) cTrackingUID (Some u) HAS_OBS_CONTEXT end).

Definition gt_matches (f : filt) (first_ref : item) : bool :=
  match f_gt f with
  | G2 t => if vt_eqb (vt first_ref) SCOORD then v1 first_ref =? t else false
  | G3 t => if vt_eqb (vt first_ref) SCOORD3D then v1 first_ref =? t else false
  | _ => true
  end.

Definition ref_matches_planar (f : filt) (g : item) : res bool :=
  if isSome (f_reftype f) || gt_given f || uid_given f then
    bind (get_planar_ref_item g) (fun '(found, ref) =>
      let b1 := opt_ok (f_reftype f) found in
      let b2 := gt_matches f ref in
      let b3 :=
        if uid_given f then
          (mem found [cRefSegFrame; cRegionInSpace] && opt_ok (f_inst f) (v2 ref) && opt_ok (f_cls f) (v1 ref))
          || ((found =? cImageRegion) && vt_eqb (vt ref) SCOORD &&
              contains_image_items (kids ref) None (f_cls f) (f_inst f) SELECTED_FROM)
          || ((found =? cRefSegFrame) &&
              contains_image_items (kids g) (Some cSrcImgSeg) (f_cls f) (f_inst f) CONTAINS)
        else true in
      Ok (b1 && b2 && b3))
  else Ok true.

Definition ref_matches_volumetric (f : filt) (g : item) : res bool :=
  if isSome (f_reftype f) || gt_given f || uid_given f then
    bind (get_roi_reference_items g allowed_volumetric) (fun '(found, refs) =>
      match refs with
      | [] => Err "IndexError"%string      (* unreachable: the helper refuses empty lists *)
      | ref0 :: _ =>
        let b1 := opt_ok (f_reftype f) found in
        let b2 := gt_matches f ref0 in
        let b3 :=
          if uid_given f then
            (mem found [cRefSegment; cRegionInSpace] && opt_ok (f_inst f) (v2 ref0) && opt_ok (f_cls f) (v1 ref0))
            || ((found =? cImageRegion) &&
                existsb (fun r => vt_eqb (vt r) SCOORD &&
                                  contains_image_items (kids r) None (f_cls f) (f_inst f) SELECTED_FROM) refs)
            || ((found =? cRefSegment) &&
                contains_image_items (kids g) (Some cSrcImgSeg) (f_cls f) (f_inst f) CONTAINS)
          else true in
        Ok (b1 && b2 && b3)
      end)
  else Ok true.

Fixpoint collect (p : item -> res bool) (l : list item) : res (list item) :=
  match l with
  | [] => Ok []
  | x :: t => bind (p x) (fun b => bind (collect p t) (fun r => Ok (if b then x :: r else r)))
  end.

Definition planar_group_test (f : filt) (g : item) : res bool :=
  bind (match tmpl g with Some t => Ok (t =? 1410) | None => contains_planar g end) (fun k =>
    if k then bind (ref_matches_planar f g) (fun b => Ok (common_matches f g && b)) else Ok false).
Definition volumetric_group_test (f : filt) (g : item) : res bool :=
  bind (match tmpl g with Some t => Ok (t =? 1411) | None => contains_volumetric g end) (fun k =>
    if k then bind (ref_matches_volumetric f g) (fun b => Ok (common_matches f g && b)) else Ok false).
Definition image_group_test (f : filt) (g : item) : res bool :=
  bind (match tmpl g with
        | Some t => Ok (t =? 1501)
        | None => bind (contains_planar g) (fun a => bind (contains_volumetric g) (fun b => Ok (negb (a || b))))
        end) (fun k =>
    if k then
      Ok (common_matches f g &&
          (if uid_given f then contains_image_items (kids g) (Some cSource) (f_cls f) (f_inst f) CONTAINS else true))
    else Ok false).

Definition get_planar (root : item) (f : filt) : res (list item) :=
  bind (check_planar f) (fun _ => collect (planar_group_test f) (find_measurement_groups root)).
Definition get_volumetric (root : item) (f : filt) : res (list item) :=
  bind (check_volumetric f) (fun _ => collect (volumetric_group_test f) (find_measurement_groups root)).
(* get_image_measurement_groups has no reference_type / graphic_type parameters *)
Definition get_image (root : item) (f : filt) : res (list item) :=
  collect (image_group_test f) (find_measurement_groups root).

(* ---- group accessors (on the group container item) ---------------------------------------------------- *)
Definition first_v1 (l : list item) : option Z := match l with [] => None | i :: _ => Some (v1 i) end.
Definition acc_tracking_identifier g := first_v1 (find_items (kids g) (Some cTrackingIdentifier) (Some TEXT) None).
Definition acc_tracking_uid g := first_v1 (find_items (kids g) (Some cTrackingUID) (Some UIDREF) None).
Definition acc_finding_type g := first_v1 (find_items (kids g) (Some cFinding) (Some CODE) None).
Definition acc_finding_category g := first_v1 (find_items (kids g) (Some cFindingCategory) (Some CODE) None).
Definition acc_method g := first_v1 (find_items (kids g) (Some cMethod) (Some CODE) None).
Definition acc_finding_sites g := map v1 (find_items (kids g) (Some cFindingSite) (Some CODE) None).
(* value_types.py NumContentItem.value (behind Measurement.value of every measurement get_measurements returns):
     try: return float(item.FloatingPointValue)  except AttributeError: return float(item.NumericValue)
   The exact FD attribute has precedence over the DS string (at most 16 characters once encoded).
   fp_code : Z -> Z \ {0} is a bijection, so every number can be carried next to the `absent` mark 0. *)
Definition fp_code (x : Z) : Z := if 0 <=? x then x + 1 else x.
Definition num_fp (i : item) : option Z :=
  if v2 i =? 0 then None else Some (if 0 <? v2 i then v2 i - 1 else v2 i).
Definition num_value (i : item) : Z := match num_fp i with Some x => x | None => v1 i end.
Definition acc_measurements g (name : option Z) : list (Z * Z) :=
  map (fun i => (nm i, num_value i)) (find_items (kids g) name (Some NUM) None).
Definition eval_excluded := [cFindingCategory; cGeomPurpose; cFinding; cFindingSite; cMethod].
Definition acc_evaluations g (name : option Z) : list (Z * Z) :=
  map (fun i => (nm i, v1 i))
      (filter (fun i => negb (mem (nm i) eval_excluded))
              (find_items (kids g) name (Some CODE) (Some CONTAINS))).
Definition acc_source_images g : list (Z * Z) :=
  map (fun i => (v1 i, v2 i)) (find_items (kids g) (Some cSource) (Some IMAGE) (Some CONTAINS)).

(* reference_type: first child whose NAME is an allowed reference type *)
Definition acc_reference_type (allowed : list Z) g : res Z :=
  match filter (fun i => mem (nm i) allowed) (kids g) with
  | i :: _ => Ok (nm i)
  | [] => Err "RuntimeError"%string
  end.

(* sources of a segment / volume surface: content.py *.from_sequence *)
Inductive sources := SrcImages (l : list (Z * Z)) | SrcSeries (uid : Z).
Definition is_rel_item n v (i : item) := (nm i =? n) && vt_eqb (vt i) v && rt_eqb (rl i) CONTAINS.
Definition split_sources (l : list item) : res sources :=
  let imgs := filter (is_rel_item cSrcImgSeg IMAGE) l in
  let sers := filter (fun i => negb (is_rel_item cSrcImgSeg IMAGE i) && is_rel_item cSrcSeriesSeg UIDREF i) l in
  match imgs, sers with
  | [], [] => Err "RuntimeError"%string
  | _ :: _, _ :: _ => Err "RuntimeError"%string
  | _ :: _, [] => Ok (SrcImages (map (fun i => (v1 i, v2 i)) imgs))
  | [], [s] => Ok (SrcSeries (v1 s))
  | [], _ => Err "RuntimeError"%string
  end.

(* planar roi *)
Inductive planar_roi := PR2 (gt cls inst : Z) | PR3 (gt : Z) | PRNone.
Definition acc_planar_roi g : planar_roi :=
  match find_items (kids g) (Some cImageRegion) (Some SCOORD) None with
  | r :: _ => match kids r with
              | s :: _ => PR2 (v1 r) (v1 s) (v2 s)
              | [] => PR2 (v1 r) (-1) (-1)
              end
  | [] => match find_items (kids g) (Some cImageRegion) (Some SCOORD3D) None with
          | r :: _ => PR3 (v1 r)
          | [] => PRNone
          end
  end.
(* ReferencedSegmentationFrame.from_sequence *)
Definition acc_segframe g : res (option (Z * Z * (Z * Z))) :=
  bind (acc_reference_type allowed_planar g) (fun rt =>
    if rt =? cRefSegFrame then
      match filter (is_rel_item cRefSegFrame IMAGE) (kids g),
            filter (fun i => negb (is_rel_item cRefSegFrame IMAGE i) && is_rel_item cSrcImgSeg IMAGE i) (kids g) with
      | [s], [im] => Ok (Some (v1 s, v2 s, (v1 im, v2 im)))
      | _, _ => Err "RuntimeError"%string
      end
    else Ok None).

(* volumetric roi *)
Inductive vol_roi := VRRegions (l : list (Z * (Z * Z))) | VRSurface (gt : Z) (n : Z) (so : sources) | VRNone.
Definition all_same_gt (l : list item) : bool :=
  match l with [] => true | x :: _ => forallb (fun i => v1 i =? v1 x) l end.
Definition acc_vol_roi g : res vol_roi :=
  bind (acc_reference_type allowed_volumetric g) (fun rt =>
    if rt =? cImageRegion then
      Ok (VRRegions (map (fun r => (v1 r, match kids r with s :: _ => (v1 s, v2 s) | [] => (-1, -1) end))
                         (find_items (kids g) (Some cImageRegion) (Some SCOORD) None)))
    else if rt =? cVolumeSurface then
      let vs := filter (is_rel_item cVolumeSurface SCOORD3D) (kids g) in
      let rest := filter (fun i => negb (is_rel_item cVolumeSurface SCOORD3D i)) (kids g) in
      match vs with
      | [] => Err "RuntimeError"%string
      | x :: _ => if negb (all_same_gt vs) then Err "RuntimeError"%string
                  else bind (split_sources rest) (fun so => Ok (VRSurface (v1 x) (Z.of_nat (length vs)) so))
      end
    else Ok VRNone).
(* ReferencedSegment.from_sequence *)
Definition acc_segment g : res (option (Z * Z * sources)) :=
  bind (acc_reference_type allowed_volumetric g) (fun rt =>
    if rt =? cRefSegment then
      match filter (is_rel_item cRefSegment IMAGE) (kids g) with
      | [s] => bind (split_sources (filter (fun i => negb (is_rel_item cRefSegment IMAGE i)) (kids g)))
                    (fun so => Ok (Some (v1 s, v2 s, so)))
      | _ => Err "RuntimeError"%string
      end
    else Ok None).

(* ---- constructor-level records and the skeleton built from them ---------------------------------------- *)
Inductive kind := Planar | Volumetric | ImageK.
Definition kind_eqb a b :=
  match a, b with Planar, Planar | Volumetric, Volumetric | ImageK, ImageK => true | _, _ => false end.

Inductive gref :=
| Region2D (gt cls inst : Z)                      (* ImageRegion, SCOORD, source image SELECTED FROM *)
| Region3D (gt : Z)                               (* ImageRegion3D *)
| SegFrame (cls inst scls sinst : Z)              (* ReferencedSegmentationFrame + its source image *)
| Regions (r : list (Z * (Z * Z)))                (* volumetric: list of 2D regions (gt, (cls, inst)) *)
| Segment (cls inst : Z) (so : sources)           (* ReferencedSegment + sources *)
| Surface (gt : Z) (n : nat) (so : sources)       (* VolumeSurface of n SCOORD3D items + sources *)
| RegionInSpace (cls inst : Z)                    (* COMPOSITE (third-party; not constructible via templates) *)
| SourceImgs (l : list (Z * Z)).                  (* image group: source images *)

Record group := Group {
  g_kind : kind; g_tuid : Z; g_tid : Z;
  g_category : option Z; g_finding : option Z; g_method : option Z;
  g_sites : list Z; g_ref : gref;
  g_meas : list (Z * Z); g_evals : list (Z * Z);
  g_geom : option Z; g_tptype : option Z; g_session : option Z;
  g_has_tid : bool }.

Definition opt_item (o : option Z) (f : Z -> item) : list item :=
  match o with Some x => [f x] | None => [] end.

Definition region_item (r : Z * (Z * Z)) : item :=
  Item cImageRegion SCOORD CONTAINS (fst r) 0 None
       [leaf cSource IMAGE SELECTED_FROM (fst (snd r)) (snd (snd r))].
Definition source_items (so : sources) : list item :=
  match so with
  | SrcImages l => map (fun s => leaf cSrcImgSeg IMAGE CONTAINS (fst s) (snd s)) l
  | SrcSeries u => [leaf cSrcSeriesSeg UIDREF CONTAINS u 0]
  end.
Definition ref_items (r : gref) : list item :=
  match r with
  | Region2D gt cls inst => [region_item (gt, (cls, inst))]
  | Region3D gt => [leaf cImageRegion SCOORD3D CONTAINS gt 0]
  | SegFrame cls inst scls sinst =>
      [leaf cRefSegFrame IMAGE CONTAINS cls inst; leaf cSrcImgSeg IMAGE CONTAINS scls sinst]
  | Regions rs => map region_item rs
  | Segment cls inst so => leaf cRefSegment IMAGE CONTAINS cls inst :: source_items so
  | Surface gt n so => repeat (leaf cVolumeSurface SCOORD3D CONTAINS gt 0) n ++ source_items so
  | RegionInSpace cls inst => [leaf cRegionInSpace COMPOSITE CONTAINS cls inst]
  | SourceImgs l => map (fun s => leaf cSource IMAGE CONTAINS (fst s) (snd s)) l
  end.

(* order of _MeasurementsAndQualitativeEvaluations.__init__ *)
Definition common_items (g : group) : list item :=
  [leaf cTrackingIdentifier TEXT HAS_OBS_CONTEXT (g_tid g) 0;
   leaf cTrackingUID UIDREF HAS_OBS_CONTEXT (g_tuid g) 0]
  ++ opt_item (g_session g) (fun s => leaf cSession TEXT HAS_OBS_CONTEXT s 0)
  ++ opt_item (g_category g) (fun c => leaf cFindingCategory CODE CONTAINS c 0)
  ++ opt_item (g_finding g) (fun c => leaf cFinding CODE CONTAINS c 0)
  ++ opt_item (g_method g) (fun c => leaf cMethod CODE CONTAINS c 0)
  ++ map (fun c => leaf cFindingSite CODE HAS_CONCEPT_MOD c 0) (g_sites g)
  ++ match g_tptype g with
     | Some t => [leaf cTimePoint TEXT HAS_OBS_CONTEXT 0 0; leaf cTimePointType CODE HAS_OBS_CONTEXT t 0]
     | None => []
     end
  ++ map (fun m => leaf (fst m) NUM CONTAINS (snd m) 0) (g_meas g)
  ++ map (fun e => leaf (fst e) CODE CONTAINS (snd e) 0) (g_evals g)
  ++ opt_item (g_geom g) (fun c => leaf cGeomPurpose CODE CONTAINS c 0).

Definition kind_tid (k : kind) : Z := match k with Planar => 1410 | Volumetric => 1411 | ImageK => 1501 end.

Definition build (g : group) : item :=
  Item cMeasurementGroup CONTAINER CONTAINS 0 0
       (if g_has_tid g then Some (kind_tid (g_kind g)) else None)
       (common_items g ++ ref_items (g_ref g)).

(* the report root: arbitrary preamble items (language, observer context, procedure,
   image library ...) followed by the Imaging Measurements container *)
Definition report (pre : list item) (gs : list group) : item :=
  Item 0 CONTAINER RNone 0 0 (Some 1500)
       (pre ++ [Item cImagingMeasurements CONTAINER CONTAINS 0 0 None (map build gs)]).

(* a report as third parties write it: other content after the Imaging Measurements container and
   foreign items between the measurement groups *)
Definition not_group (i : item) : bool := negb ((nm i =? cMeasurementGroup) && vt_eqb (vt i) CONTAINER).
Definition mixed_items (xs : list (item + group)) : list item :=
  map (fun x => match x with inl i => i | inr g => build g end) xs.
Definition groups_of (xs : list (item + group)) : list group :=
  flat_map (fun x => match x with inl _ => [] | inr g => [g] end) xs.
Definition others_ok (xs : list (item + group)) : bool :=
  forallb (fun x => match x with inl i => not_group i | inr _ => true end) xs.
Definition report_mixed (pre : list item) (xs : list (item + group)) (post : list item) : item :=
  Item 0 CONTAINER RNone 0 0 (Some 1500)
       (pre ++ [Item cImagingMeasurements CONTAINER CONTAINS 0 0 None (mixed_items xs)] ++ post).

(* what the templates accept (mirrors the constructors' refusals) *)
Definition sources_ok (so : sources) : bool :=
  match so with SrcImages l => negb (match l with [] => true | _ => false end) | SrcSeries _ => true end.
Definition ref_ok (k : kind) (r : gref) : bool :=
  match k, r with
  | Planar, Region2D _ _ _ | Planar, Region3D _ | Planar, SegFrame _ _ _ _ | Planar, RegionInSpace _ _ => true
  | Volumetric, Regions rs => negb (match rs with [] => true | _ => false end)
  | Volumetric, Segment _ _ so => sources_ok so
  | Volumetric, Surface _ n so => negb (Nat.eqb n 0) && sources_ok so
  | Volumetric, RegionInSpace _ _ => true
  | ImageK, SourceImgs _ => true
  | _, _ => false
  end.
Definition no_geom_for_image (g : group) : bool :=
  match g_kind g with ImageK => negb (isSome (g_geom g)) | _ => true end.
(* measurement / evaluation names are user codes: not one of the reserved concept names *)
Definition wf (g : group) : bool :=
  ref_ok (g_kind g) (g_ref g) && forallb (fun e => 100 <=? fst e) (g_evals g) &&
  forallb (fun m => 100 <=? fst m) (g_meas g) && no_geom_for_image g.

(* a group without template identification can be classified by content only if
   its content is unambiguous (TID 1410 and 1411 overlap on a single image region
   and on a region in space) *)
Definition unambiguous (g : group) : bool :=
  match g_ref g with
  | Regions rs => 2 <=? Z.of_nat (length rs)
  | RegionInSpace _ _ => false
  | _ => true
  end.
Definition classifiable (g : group) : bool := g_has_tid g || unambiguous g.

(* ---- specification: "satisfies filter f", on the RECORD -------------------------------------------- *)
Definition ref_code (r : gref) : Z :=
  match r with
  | Region2D _ _ _ | Region3D _ | Regions _ => cImageRegion
  | SegFrame _ _ _ _ => cRefSegFrame
  | Segment _ _ _ => cRefSegment
  | Surface _ _ _ => cVolumeSurface
  | RegionInSpace _ _ => cRegionInSpace
  | SourceImgs _ => 0
  end.
Definition uid_ok (f : filt) (s : Z * Z) : bool := opt_ok (f_cls f) (fst s) && opt_ok (f_inst f) (snd s).
Definition sat_common (f : filt) (g : group) : bool :=
  (match f_finding f with None => true | Some c => match g_finding g with Some c' => c' =? c | None => false end end) &&
  (match f_site f with None => true | Some c => existsb (fun s => s =? c) (g_sites g) end) &&
  (match f_tuid f with None => true | Some u => g_tuid g =? u end).
Definition sat_reftype (f : filt) (g : group) : bool := opt_ok (f_reftype f) (ref_code (g_ref g)).
Definition sat_gt (f : filt) (g : group) : bool :=
  match f_gt f with
  | G2 t => match g_ref g with
            | Region2D gt _ _ => gt =? t
            | Regions ((gt, _) :: _) => gt =? t     (* graphic type of the first region *)
            | _ => false
            end
  | G3 t => match g_ref g with
            | Region3D gt => gt =? t
            | Surface gt _ _ => gt =? t
            | _ => false
            end
  | _ => true
  end.
Definition sat_uid (f : filt) (g : group) : bool :=
  if uid_given f then
    match g_ref g with
    | Region2D _ cls inst => uid_ok f (cls, inst)
    | Region3D _ => false                      (* SCOORD3D items reference no SOP instance *)
    | SegFrame cls inst scls sinst => uid_ok f (cls, inst) || uid_ok f (scls, sinst)
    | Regions rs => existsb (fun r => uid_ok f (snd r)) rs
    | Segment cls inst so =>
        uid_ok f (cls, inst) || match so with SrcImages l => existsb (uid_ok f) l | SrcSeries _ => false end
    | Surface _ _ _ => false
    | RegionInSpace cls inst => uid_ok f (cls, inst)
    | SourceImgs l => existsb (uid_ok f) l
    end
  else true.
Definition sat (f : filt) (g : group) : bool := sat_common f g && sat_reftype f g && sat_gt f g && sat_uid f g.
(* the image query has no reference_type / graphic_type arguments *)
Definition sat_image (f : filt) (g : group) : bool := sat_common f g && sat_uid f g.

(* "the filter combination can apply to some reference kind of query K" *)
Inductive refkind := RK_Region2D | RK_Region3D | RK_SegFrame | RK_Regions | RK_Segment | RK_Surface | RK_RIS.
Definition refkinds (k : kind) : list refkind :=
  match k with
  | Planar => [RK_Region2D; RK_Region3D; RK_SegFrame; RK_RIS]
  | Volumetric => [RK_Regions; RK_Segment; RK_Surface; RK_RIS]
  | ImageK => []
  end.
Definition rk_code (r : refkind) : Z :=
  match r with
  | RK_Region2D | RK_Region3D | RK_Regions => cImageRegion
  | RK_SegFrame => cRefSegFrame | RK_Segment => cRefSegment
  | RK_Surface => cVolumeSurface | RK_RIS => cRegionInSpace
  end.
(* graphic types the constructors accept for that kind of reference *)
Definition rk_gt_ok (r : refkind) (gf : gfilter) : bool :=
  match gf, r with
  | GNone, _ => true
  | GBad, _ => false
  | G2 g, (RK_Region2D | RK_Regions) => mem g [1; 3; 4; 5]
  | G3 g, RK_Region3D => mem g [1; 3; 4; 5]
  | G3 g, RK_Surface => mem g [1; 4; 5; 6]
  | _, _ => false
  end.
(* does that kind of reference carry SOP instance references the query can test *)
Definition rk_has_uids (r : refkind) : bool :=
  match r with RK_Region3D | RK_Surface => false | _ => true end.
Definition can_apply (k : kind) (f : filt) : bool :=
  existsb (fun r => opt_ok (f_reftype f) (rk_code r) && rk_gt_ok r (f_gt f) &&
                    (negb (uid_given f) || rk_has_uids r)) (refkinds k).

(* graphic type filter values are members of the Python enums *)
Definition gfilter_in_enum (gf : gfilter) : bool :=
  match gf with
  | G2 t => (1 <=? t) && (t <=? 5)
  | G3 t => (1 <=? t) && (t <=? 6)
  | _ => true
  end.

(* ---- coded concepts behind the abstract integers -------------------------------------------------------- *)
(* What pydicom Code.__eq__ / highdicom CodedConcept.__eq__ (sr/coding.py) compare: the code value, the coding
   scheme designator and the coding scheme VERSION (None is a version of its own: an un-versioned code is not
   equal to the same value in version "2.1", nor "2.1" to "3.0"); the code meaning is not compared.  (The
   SRT -> SCT canonicalisation pydicom applies before comparing is done by the harness when it numbers the
   codes.)  Every CODE value / concept name of the item model is the key `cc_key c` of such a triple; keys of
   un-versioned codes of scheme 0 are the plain numbers used everywhere else in this file (ck v 0 None = v). *)
Record ccode := CC { cc_value : Z; cc_scheme : Z; cc_version : option Z }.
Definition optz_eqb (a b : option Z) : bool :=
  match a, b with None, None => true | Some x, Some y => x =? y | _, _ => false end.
Definition cc_eqb (a b : ccode) : bool :=
  (cc_value a =? cc_value b) && (cc_scheme a =? cc_scheme b) && optz_eqb (cc_version a) (cc_version b).
Definition ck (v s : Z) (ver : option Z) : Z :=
  v + 100000 * (s + 10 * match ver with None => 0 | Some k => k + 1 end).
Definition cc_key (c : ccode) : Z := ck (cc_value c) (cc_scheme c) (cc_version c).
(* the range on which the numbering is injective (all the harness draws from) *)
Definition cc_ok (c : ccode) : bool :=
  (0 <=? cc_value c) && (cc_value c <? 100000) && (0 <=? cc_scheme c) && (cc_scheme c <? 10) &&
  match cc_version c with None => true | Some k => 0 <=? k end.
Definition optcc_ok (o : option ccode) : bool := match o with None => true | Some c => cc_ok c end.
(* the coded concepts a group was constructed with / a filter was given as *)
Definition coded_group (g : group) (gfind : option ccode) (gsites : list ccode) : Prop :=
  g_finding g = option_map cc_key gfind /\ optcc_ok gfind = true /\
  g_sites g = map cc_key gsites /\ forallb cc_ok gsites = true.
Definition coded_filter (f : filt) (ffind fsite : option ccode) : Prop :=
  f_finding f = option_map cc_key ffind /\ optcc_ok ffind = true /\
  f_site f = option_map cc_key fsite /\ optcc_ok fsite = true.
(* "satisfies the finding / finding site / tracking uid filters", stated on coded concepts *)
Definition sat_common_cc (ffind fsite : option ccode) (ftuid : option Z)
                         (gfind : option ccode) (gsites : list ccode) (gtuid : Z) : bool :=
  (match ffind with None => true | Some c => match gfind with Some c' => cc_eqb c' c | None => false end end) &&
  (match fsite with None => true | Some c => existsb (fun s => cc_eqb s c) gsites end) &&
  (match ftuid with None => true | Some u => gtuid =? u end).

(* `sat` / `sat_image` with the three code filters read on coded concepts (cf / cs: the codes each group
   was constructed with) *)
Definition sat_cc (f : filt) (ffind fsite : option ccode) (cf : group -> option ccode)
                  (cs : group -> list ccode) (g : group) : bool :=
  sat_common_cc ffind fsite (f_tuid f) (cf g) (cs g) (g_tuid g) && sat_reftype f g && sat_gt f g && sat_uid f g.
Definition sat_image_cc (f : filt) (ffind fsite : option ccode) (cf : group -> option ccode)
                  (cs : group -> list ccode) (g : group) : bool :=
  sat_common_cc ffind fsite (f_tuid f) (cf g) (cs g) (g_tuid g) && sat_uid f g.

(* ---- boundary functions ------------------------------------------------------------------------------------ *)
Definition voptz (o : option Z) : val := vopt VZ o.
Definition vpairs (l : list (Z * Z)) : val := VL (map (fun p => VL [VZ (fst p); VZ (snd p)]) l).
Definition vsources (so : sources) : val :=
  match so with SrcImages l => VL [VS "images"; vpairs l] | SrcSeries u => VL [VS "series"; VZ u] end.

Definition positions (r : res (list item)) : val :=
  vres (fun l => VL (map (fun g => voptz (acc_tracking_identifier g)) l)) r.

Definition query (k : kind) (root : item) (f : filt) : res (list item) :=
  match k with
  | Planar => get_planar root f
  | Volumetric => get_volumetric root f
  | ImageK => get_image root f
  end.

(* all three queries with the same filter values (image: reftype / graphic type are not parameters) *)
Definition run_tree_queries (root : item) (f : filt) : val :=
  VL [positions (query Planar root f); positions (query Volumetric root f); positions (query ImageK root f)].
Definition run_queries (pre : list item) (gs : list group) (f : filt) : val :=
  run_tree_queries (report pre gs) f.

Definition acc_val (k : kind) (it : item) (mname ename : option Z) : val :=
  VL ([voptz (acc_tracking_uid it); voptz (acc_tracking_identifier it); voptz (acc_finding_type it);
       voptz (acc_finding_category it); voptz (acc_method it); vz_list (acc_finding_sites it);
       vpairs (acc_measurements it None); vpairs (acc_evaluations it None);
       vpairs (acc_measurements it mname); vpairs (acc_evaluations it ename)] ++
      match k with
      | Planar =>
          [vres VZ (acc_reference_type allowed_planar it);
           match acc_planar_roi it with
           | PR2 gt c i => VL [VS "2D"; VZ gt; VZ c; VZ i]
           | PR3 gt => VL [VS "3D"; VZ gt]
           | PRNone => VNone
           end;
           vres (vopt (fun '(c, i, (sc, si)) => VL [VZ c; VZ i; VZ sc; VZ si])) (acc_segframe it)]
      | Volumetric =>
          [vres VZ (acc_reference_type allowed_volumetric it);
           vres (fun r => match r with
                          | VRRegions l => VL [VS "regions"; VL (map (fun x => VL [VZ (fst x); VZ (fst (snd x)); VZ (snd (snd x))]) l)]
                          | VRSurface gt n so => VL [VS "surface"; VZ gt; VZ n; vsources so]
                          | VRNone => VNone
                          end) (acc_vol_roi it);
           vres (vopt (fun '(c, i, so) => VL [VZ c; VZ i; vsources so])) (acc_segment it)]
      | ImageK => [vpairs (acc_source_images it)]
      end).

Definition nofilt : filt := Filt None None None None GNone None None.
(* accessors of every group returned by the three unfiltered queries *)
Definition run_tree_accessors (root : item) (mname ename : option Z) : val :=
  VL (map (fun k => vres (fun l => VL (map (fun it => acc_val k it mname ename) l)) (query k root nofilt))
          [Planar; Volumetric; ImageK]).
Definition run_accessors (pre : list item) (gs : list group) (mname ename : option Z) : val :=
  run_tree_accessors (report pre gs) mname ename.

(* ---- measurement values across DICOM encoding ------------------------------------------------------------------- *)
(* `map_num fn` rewrites (Numeric Value, Floating Point Value code) of every NUM item of a tree and nothing else. *)
Fixpoint map_num (fn : Z -> Z -> Z * Z) (i : item) {struct i} : item :=
  match i with
  | Item n v r a b t k =>
      let ab := match v with NUM => fn a b | _ => (a, b) end in
      Item n v r (fst ab) (snd ab) t (map (map_num fn) k)
  end.
(* Writing a content tree into a DICOM data set / file and reading it back: every item comes back as it was,
   except that Numeric Value (VR DS) survives only as its decimal string of at most 16 characters: the number
   read back is `trunc x` (external: pydicom's DS formatting; any function here).  FD is exact. *)
Definition encode (trunc : Z -> Z) : item -> item := map_num (fun a b => (trunc a, b)).
(* sr.Measurement / NumContentItem.__init__: Numeric Value is always written (the digits of an int of at most 16
   characters, else pydicom's rounded formatting); Floating Point Value is written (with the same number, i.e.
   float(value)) iff `fl x`: the value was given as a Python float, or as an int whose decimal string exceeds 16
   characters (fix D111) - exactly the values whose DS string had to be rounded *)
Definition with_fp (fl : Z -> bool) : item -> item := map_num (fun a b => (a, if fl a then fp_code a else b)).
(* a finite description of trunc / fl, as the correspondence run passes them *)
Definition tbl_fun (tbl : list (Z * Z)) (x : Z) : Z :=
  match find (fun p => fst p =? x) tbl with Some p => snd p | None => x end.
(* accessors of every group of a report built from records whose measurement values `floats` get Floating Point
   Value from the constructor (floats, long ints), after the report went through DICOM encoding with DS behaviour `tbl` ([] : not encoded) *)
Definition run_accessors_enc (floats : list Z) (tbl : list (Z * Z)) (pre : list item) (gs : list group)
                             (mname ename : option Z) : val :=
  run_tree_accessors (encode (tbl_fun tbl) (with_fp (fun x => mem x floats) (report pre gs))) mname ename.
Definition run_tree_accessors_enc (tbl : list (Z * Z)) (root : item) (mname ename : option Z) : val :=
  run_tree_accessors (encode (tbl_fun tbl) root) mname ename.

(* ---- what the template classes ACCEPT: the argument checks of the constructors ---------------------------------- *)
(* content.py ReferencedSegment.__init__ / VolumeSurface.__init__:
     if source_images is not None: (empty -> ValueError; append each)  elif source_series is not None: (append)
     else: raise ValueError
   (an empty source_images sequence is refused before source_series is looked at - fix D107) *)
Inductive src_arg := SrcArg (images : option (list (Z * Z))) (series : option Z).
Definition construct_sources (a : src_arg) : res sources :=
  match a with
  | SrcArg (Some []) _ => Err "ValueError"%string
  | SrcArg (Some l) _ => Ok (SrcImages l)
  | SrcArg None (Some u) => Ok (SrcSeries u)
  | SrcArg None None => Err "ValueError"%string
  end.

(* an object handed to a group constructor as reference argument *)
Inductive obj :=
| ORegion2D (gt cls inst : Z) | ORegion3D (gt : Z)
| OSegFrame (cls inst scls sinst : Z)
| OSegment (cls inst : Z) (so : sources)
| OSurface (gt : Z) (n : nat) (so : sources)
| OOther.                                             (* an object of another class *)
(* how the harness asks for such an object *)
Inductive ospec :=
| SpRegion2D (gt cls inst : Z) | SpRegion3D (gt : Z) | SpSegFrame (cls inst scls sinst : Z)
| SpSegment (cls inst : Z) (a : src_arg) | SpSurface (gt : Z) (n : nat) (a : src_arg) | SpOther.

(* VolumeSurface.__init__: ELLIPSOID / POINT take exactly one graphic data item, ELLIPSE / POLYGON at least two,
   other graphic types are refused *)
Definition surface_count_check (gt : Z) (n : nat) : res unit :=
  if (gt =? 6) || (gt =? 1) then (if Z.of_nat n =? 1 then Ok tt else Err "ValueError"%string)
  else if (gt =? 5) || (gt =? 4) then (if Z.of_nat n <? 2 then Err "ValueError"%string else Ok tt)
  else Err "ValueError"%string.

Definition make_obj (s : ospec) : res obj :=
  match s with
  | SpRegion2D gt c i => Ok (ORegion2D gt c i)
  | SpRegion3D gt => Ok (ORegion3D gt)
  | SpSegFrame c i sc si => Ok (OSegFrame c i sc si)
  | SpSegment c i a => bind (construct_sources a) (fun so => Ok (OSegment c i so))
  | SpSurface gt n a => bind (surface_count_check gt n) (fun _ => bind (construct_sources a) (fun so => Ok (OSurface gt n so)))
  | SpOther => Ok OOther
  end.

Definition nsome {A} (o : option A) : Z := match o with Some _ => 1 | None => 0 end.

(* PlanarROIMeasurementsAndQualitativeEvaluations.__init__ *)
Definition construct_planar (region segment : option obj) : res gref :=
  if nsome region + nsome segment =? 0 then Err "ValueError"%string
  else if 1 <? nsome region + nsome segment then Err "ValueError"%string
  else match region, segment with
       | Some (ORegion2D gt c i), _ => Ok (Region2D gt c i)
       | Some (ORegion3D gt), _ => Ok (Region3D gt)
       | Some _, _ => Err "TypeError"%string
       | None, Some (OSegFrame c i sc si) => Ok (SegFrame c i sc si)
       | None, _ => Err "TypeError"%string
       end.

(* VolumetricROIMeasurementsAndQualitativeEvaluations.__init__ + _ROIMeasurementsAndQualitativeEvaluations.__init__ *)
Definition is_r3 (o : obj) : bool := match o with ORegion3D _ => true | _ => false end.
Fixpoint regions_of (l : list obj) : res (list (Z * (Z * Z))) :=
  match l with
  | [] => Ok []
  | ORegion2D gt c i :: t => bind (regions_of t) (fun r => Ok ((gt, (c, i)) :: r))
  | _ :: _ => Err "TypeError"%string
  end.
Definition construct_volumetric (regions : option (list obj)) (surface segment : option obj) : res gref :=
  if match regions with Some l => existsb is_r3 l | None => false end then Err "TypeError"%string
  else if match segment with Some (OSegment _ _ _) | None => false | Some _ => true end then Err "TypeError"%string
  else if nsome regions + nsome surface + nsome segment =? 0 then Err "ValueError"%string
  else if 1 <? nsome regions + nsome surface + nsome segment then Err "ValueError"%string
  else match regions, surface, segment with
       | Some [], _, _ => Err "ValueError"%string
       | Some l, _, _ => bind (regions_of l) (fun r => Ok (Regions r))
       | None, Some (OSurface gt n so), _ => Ok (Surface gt n so)
       | None, Some _, _ => Err "TypeError"%string
       | None, None, Some (OSegment c i so) => Ok (Segment c i so)
       | None, None, _ => Err "TypeError"%string
       end.

(* the group a successful construction yields (tracking uid 1, identifier 1000, nothing optional) *)
Definition bare_group (k : kind) (r : gref) : group := Group k 1 1000 None None None [] r [] [] None None None true.

Definition opt_obj (o : option ospec) : res (option obj) :=
  match o with None => Ok None | Some s => bind (make_obj s) (fun x => Ok (Some x)) end.
Fixpoint objs (l : list ospec) : res (list obj) :=
  match l with [] => Ok [] | s :: t => bind (make_obj s) (fun x => bind (objs t) (fun r => Ok (x :: r))) end.
Definition opt_objs (o : option (list ospec)) : res (option (list obj)) :=
  match o with None => Ok None | Some l => bind (objs l) (fun r => Ok (Some r)) end.

(* observation: stage at which construction is refused, or every accessor of the group once it sits in a report *)
Definition construct_val (k : kind) (ob : res (res gref)) : val :=
  match ob with
  | Err e => VL [VS "object"; VErr e]
  | Ok (Err e) => VL [VS "group"; VErr e]
  | Ok (Ok r) => VL [VS "ok"; run_tree_accessors (report [] [bare_group k r]) None None]
  end.
Definition run_construct_planar (region segment : option ospec) : val :=
  construct_val Planar
    (bind (opt_obj region) (fun r => bind (opt_obj segment) (fun s => Ok (construct_planar r s)))).
Definition run_construct_volumetric (regions : option (list ospec)) (surface segment : option ospec) : val :=
  construct_val Volumetric
    (bind (opt_objs regions) (fun r => bind (opt_obj surface) (fun su => bind (opt_obj segment) (fun s =>
       Ok (construct_volumetric r su s))))).

(* ---- region geometry: the coordinates of the SCOORD / SCOORD3D reference items ---------------------------------- *)
(* value_types.py ScoordContentItem (base of ImageRegion) / Scoord3DContentItem (base of ImageRegion3D, items of a
   VolumeSurface):
     __init__ : GraphicData = graphic_data.flatten().tolist()  - the LOGICAL n x d array row by row,
                ((c0,r0),(c1,r1),...) -> [c0; r0; c1; r1; ...], whatever the memory layout, the strides or the dtype of
                the ndarray that carried it (those are outside the model: its input is the logical array)
     value    : np.array(GraphicData).reshape(-1, d)
   A coordinate is an abstract integer (the injective key of its double, as measurement values); an array is the list
   of its rows.  The items of the tree model (`item`) do not carry GraphicData: the coordinates of the reference items
   of a group travel in a side table keyed by the tracking identifier of the group (a modelling device - in the code
   the SCOORD item the roi accessor returns carries its own GraphicData). *)
Definition coords := list (list Z).
Definition flatten_rows (a : coords) : list Z := concat a.
Fixpoint chunks (d n : nat) (l : list Z) : coords :=
  match n with O => [] | S n' => firstn d l :: chunks d n' (skipn d l) end.
Definition reshape_rows (d : nat) (l : list Z) : res coords :=
  if Nat.eqb d 0 then Err "ValueError"%string
  else if Nat.eqb (Nat.modulo (length l) d) 0 then Ok (chunks d (Nat.div (length l) d) l)
  else Err "ValueError"%string.
(* what an order-'K' (memory order) flattening of a column-major array would store: column by column *)
Definition column (j : nat) (a : coords) : list Z := map (fun r => nth j r 0) a.
Definition flatten_cols (d : nat) (a : coords) : list Z := flat_map (fun j => column j a) (seq 0 d).

(* one coordinate-bearing reference item as the constructor got it: dimension d (2: SCOORD, 3: SCOORD3D), one more
   attribute that is stored next to the coordinates (SCOORD: Pixel Origin Interpretation 0 absent / 1 VOLUME / 2 FRAME;
   SCOORD3D: the frame of reference UID), the n x d array *)
Inductive gitem := GI (d : nat) (aux : Z) (a : coords).
Definition scoord_store (a : coords) : list Z := flatten_rows a.
(* DICOM encoding: Graphic Data (0070,0022) has VR FL (single precision) in SCOORD and in SCOORD3D items alike: each
   coordinate comes back as `trunc x` (external: IEEE rounding to binary32; any function here) *)
Definition gd_encode (trunc : Z -> Z) (gd : list Z) : list Z := map trunc gd.
(* observation of one item: dimension, the extra attribute, the stored GraphicData, the array `value` returns *)
Definition gitem_val (trunc : Z -> Z) (x : gitem) : val :=
  let 'GI d aux a := x in
  let gd := gd_encode trunc (scoord_store a) in
  VL [VZ (Z.of_nat d); VZ aux; vz_list gd; vres vz_list2 (reshape_rows d gd)].
(* dimensions of the coordinate-bearing reference items the record of a group describes, in document order *)
Definition geom_dims (r : gref) : list nat :=
  match r with
  | Region2D _ _ _ => [2%nat] | Region3D _ => [3%nat]
  | Regions rs => map (fun _ => 2%nat) rs | Surface _ n _ => repeat 3%nat n
  | _ => []
  end.
Definition gi_d (x : gitem) : nat := let 'GI d _ _ := x in d.
Definition geom_of (tbl : list (Z * list gitem)) (it : item) : list gitem :=
  match acc_tracking_identifier it with
  | Some t => match find (fun p => fst p =? t) tbl with Some p => snd p | None => [] end
  | None => []
  end.
(* accessors AND region geometry of every group returned by the three unfiltered queries on a report built from
   records, each with the arrays its reference items were constructed with; tbl32 = [] : report not encoded *)
Definition run_accessors_geom (tbl32 : list (Z * Z)) (pre : list item) (ggs : list (group * list gitem))
                              (mname ename : option Z) : val :=
  let root := report pre (map fst ggs) in
  let tbl := map (fun p => (g_tid (fst p), snd p)) ggs in
  VL (map (fun k => vres (fun l => VL (map (fun it => VL [acc_val k it mname ename;
                                                          VL (map (gitem_val (tbl_fun tbl32)) (geom_of tbl it))]) l))
                         (query k root nofilt))
          [Planar; Volumetric; ImageK]).

(* ---- measurements in full: TID 300 behind get_measurements ------------------------------------------------------ *)
(* _MeasurementsAndQualitativeEvaluations.get_measurements(name) (inherited by the planar, volumetric and image groups
   the three queries return) = [Measurement.from_sequence([item]) for item in find_content_items(group, name, NUM)].
   Measurement.from_sequence REBUILDS the NUM item: cls(name=item.name, value=item.value, unit=item.unit,
   qualifier=item.qualifier), then copies the child content (ContentSequence.from_sequence(item.ContentSequence)).
   What a Measurement shows: name, value, unit, qualifier (attributes of the NUM item) and - read from the child content
   of the NUM item - derivation, method, finding_sites, referenced_images; the child content itself (tracking identifier,
   algorithm identification, value map ... have no accessor).
   MODELLING DEVICE: the two coded ATTRIBUTES of a NUM item that are not content items -
   MeasuredValueSequence[0].MeasurementUnitsCodeSequence[0] (the unit, type 1) and NumericValueQualifierCodeSequence[0]
   (the qualifier, optional: e.g. DCM 114006 Measurement failure, 114009 Value out of range) - are carried as two pseudo
   children of the NUM item with the reserved names cUnitAttr / cQualAttr (no content item of a rendered tree gets these
   names) and no relationship type; the real child content is what remains (num_content). *)
Definition cUnitAttr := 21.
Definition cQualAttr := 22.
Definition cDerivation := 23.           (* DCM 121401 *)
Definition cSourceOfMeas := 24.         (* DCM 121112 Source of Measurement *)

Definition is_attr (i : item) : bool := (nm i =? cUnitAttr) || (nm i =? cQualAttr).
(* value_types.py NumContentItem.unit / .qualifier / the ContentSequence of the item *)
Definition num_unit (i : item) : option Z := first_v1 (filter (fun k => nm k =? cUnitAttr) (kids i)).
Definition num_qualifier (i : item) : option Z := first_v1 (filter (fun k => nm k =? cQualAttr) (kids i)).
Definition num_content (i : item) : list item := filter (fun k => negb (is_attr k)) (kids i).

(* NumContentItem.__init__(name, value, unit, qualifier, relationship_type=CONTAINS) + a ContentSequence;
   a / b: Numeric Value and the code of Floating Point Value *)
Definition attr_items (unit : Z) (qual : option Z) : list item :=
  leaf cUnitAttr CODE RNone unit 0 :: opt_item qual (fun q => leaf cQualAttr CODE RNone q 0).
Definition num_item_init (name a b unit : Z) (qual : option Z) (content : list item) : item :=
  Item name NUM CONTAINS a b None (attr_items unit qual ++ content).

(* Measurement.from_sequence([item]): item.value is a Python float, so the rebuilt item carries Floating Point Value;
   an item without unit (malformed: the attribute is type 1) makes item.unit raise *)
Definition measurement_from_item (i : item) : res item :=
  match num_unit i with
  | None => Err "AttributeError"%string
  | Some u => Ok (num_item_init (nm i) (num_value i) (fp_code (num_value i)) u (num_qualifier i) (num_content i))
  end.

(* the accessors of sr.Measurement, on its NUM item *)
Definition m_derivation (m : item) : option Z := first_v1 (find_items (kids m) (Some cDerivation) (Some CODE) None).
Definition m_method (m : item) : option Z := first_v1 (find_items (kids m) (Some cMethod) (Some CODE) None).
Definition m_sites (m : item) : list Z := map v1 (find_items (kids m) (Some cFindingSite) (Some CODE) None).
Definition m_images (m : item) : list (Z * Z) :=
  map (fun i => (v1 i, v2 i)) (find_items (kids m) (Some cSourceOfMeas) (Some IMAGE) None).
Definition kid_val (k : item) : val := VL [VZ (nm k); VZ (vt_tag (vt k)); VZ (rt_tag (rl k)); VZ (v1 k); VZ (v2 k)].
(* observation of one measurement: name, value, unit, qualifier, derivation, method, finding sites, referenced images,
   child content item by item *)
Definition meas_val (m : item) : val :=
  VL [VZ (nm m); VZ (num_value m); voptz (num_unit m); voptz (num_qualifier m); voptz (m_derivation m);
      voptz (m_method m); vz_list (m_sites m); vpairs (m_images m); VL (map kid_val (num_content m))].

Fixpoint map_res {A B} (f : A -> res B) (l : list A) : res (list B) :=
  match l with
  | [] => Ok []
  | x :: t => bind (f x) (fun y => bind (map_res f t) (fun r => Ok (y :: r)))
  end.
Definition acc_measurements_full (g : item) (name : option Z) : res (list item) :=
  map_res measurement_from_item (find_items (kids g) name (Some NUM) None).

Definition meas_list_val (r : res (list item)) : val := vres (fun ms => VL (map meas_val ms)) r.
Definition group_meas_val (mname : option Z) (g : item) : val :=
  VL [voptz (acc_tracking_identifier g); meas_list_val (acc_measurements_full g None);
      meas_list_val (acc_measurements_full g mname)].
(* every measurement, in full, of every group the three queries return for filter f *)
Definition run_tree_meas (root : item) (f : filt) (mname : option Z) : val :=
  VL (map (fun k => vres (fun l => VL (map (group_meas_val mname) l)) (query k root f)) [Planar; Volumetric; ImageK]).

(* constructor-level record of a measurement: sr.Measurement(name, value, unit, qualifier, tracking_identifier
   (identifier text, uid), method, derivation, finding_sites, referenced_images) and the item it builds
   (order of Measurement.__init__) *)
Record mrec := MRec {
  mr_name : Z; mr_value : Z; mr_unit : Z; mr_qual : option Z; mr_track : option (Z * Z);
  mr_method : option Z; mr_deriv : option Z; mr_sites : list Z; mr_imgs : list (Z * Z) }.
Definition meas_content (m : mrec) : list item :=
  match mr_track m with
  | Some (t, u) => [leaf cTrackingIdentifier TEXT HAS_OBS_CONTEXT t 0; leaf cTrackingUID UIDREF HAS_OBS_CONTEXT u 0]
  | None => []
  end
  ++ opt_item (mr_method m) (fun c => leaf cMethod CODE HAS_CONCEPT_MOD c 0)
  ++ opt_item (mr_deriv m) (fun c => leaf cDerivation CODE HAS_CONCEPT_MOD c 0)
  ++ map (fun c => leaf cFindingSite CODE HAS_CONCEPT_MOD c 0) (mr_sites m)
  ++ map (fun s => leaf cSourceOfMeas IMAGE INFERRED_FROM (fst s) (snd s)) (mr_imgs m).
Definition build_meas (m : mrec) : item :=
  num_item_init (mr_name m) (mr_value m) 0 (mr_unit m) (mr_qual m) (meas_content m).

(* common_items with the NUM items given (common_items g = common_items_m g (the bare leaves of g_meas g)) *)
Definition common_items_m (g : group) (ms : list item) : list item :=
  [leaf cTrackingIdentifier TEXT HAS_OBS_CONTEXT (g_tid g) 0;
   leaf cTrackingUID UIDREF HAS_OBS_CONTEXT (g_tuid g) 0]
  ++ opt_item (g_session g) (fun s => leaf cSession TEXT HAS_OBS_CONTEXT s 0)
  ++ opt_item (g_category g) (fun c => leaf cFindingCategory CODE CONTAINS c 0)
  ++ opt_item (g_finding g) (fun c => leaf cFinding CODE CONTAINS c 0)
  ++ opt_item (g_method g) (fun c => leaf cMethod CODE CONTAINS c 0)
  ++ map (fun c => leaf cFindingSite CODE HAS_CONCEPT_MOD c 0) (g_sites g)
  ++ match g_tptype g with
     | Some t => [leaf cTimePoint TEXT HAS_OBS_CONTEXT 0 0; leaf cTimePointType CODE HAS_OBS_CONTEXT t 0]
     | None => []
     end
  ++ ms
  ++ map (fun e => leaf (fst e) CODE CONTAINS (snd e) 0) (g_evals g)
  ++ opt_item (g_geom g) (fun c => leaf cGeomPurpose CODE CONTAINS c 0).
(* a group built from record g whose measurements are the full records ms (g_meas g is their (name, value) part) *)
Definition build_m (gm : group * list mrec) : item :=
  let g := fst gm in
  Item cMeasurementGroup CONTAINER CONTAINS 0 0
       (if g_has_tid g then Some (kind_tid (g_kind g)) else None)
       (common_items_m g (map build_meas (snd gm)) ++ ref_items (g_ref g)).
Definition report_m (pre : list item) (gms : list (group * list mrec)) : item :=
  Item 0 CONTAINER RNone 0 0 (Some 1500)
       (pre ++ [Item cImagingMeasurements CONTAINER CONTAINS 0 0 None (map build_m gms)]).
Definition run_meas (pre : list item) (gms : list (group * list mrec)) (f : filt) (mname : option Z) : val :=
  run_tree_meas (report_m pre gms) f mname.
