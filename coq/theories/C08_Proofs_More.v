(* C08 - proofs, part 3: geometry commutation for every operation, the values of new
   (padding) voxels, refusal characterisations. *)
From Coq Require Import String ZArith List Bool Lia ZifyBool.
From HD Require Import C08_Model C08_Proofs C08_Proofs_Step.
Import ListNotations.
Ltac Zify.zify_post_hook ::= Z.to_euclidean_division_equations.
Open Scope string_scope.
Open Scope Z_scope.

Lemma list_eqb_eq : forall a b, list_eqb a b = true <-> a = b.
Proof.
  unfold list_eqb. induction a as [|x a IH]; intros [|y b]; cbn [length combine forallb]; split; intros H;
    try reflexivity; try discriminate; try (cbn in H; lia).
  - apply andb_prop in H as [Hl Hf]. cbn [fst snd] in Hf. apply andb_prop in Hf as [Hx Hf].
    assert (a = b) by (apply IH; rewrite Hf; replace (Z.of_nat (length a) =? Z.of_nat (length b)) with true by lia; reflexivity).
    subst. f_equal. lia.
  - inversion H; subst. cbn [fst snd]. rewrite Z.eqb_refl. cbn [andb].
    destruct (IH b) as [_ I]. specialize (I eq_refl). apply andb_prop in I as [_ I]. rewrite I.
    rewrite Z.eqb_refl. reflexivity.
Qed.

Lemma lookup_c_map : forall (Vx : Type) (g : list Z -> Vx) keys c d, In c keys ->
  lookup_c Vx c (map (fun k => (k, g k)) keys) d = g c.
Proof.
  intros Vx g. induction keys as [|k keys IH]; intros c d Hin; [destruct Hin|]. cbn [map lookup_c].
  destruct (list_eqb k c) eqn:E.
  - apply list_eqb_eq in E. subst. reflexivity.
  - destruct Hin as [->|Hin]; [|apply IH; exact Hin].
    assert (list_eqb c c = true) by (apply list_eqb_eq; reflexivity). congruence.
Qed.

Theorem int_index_refused_iff : forall n i,
  check_item n (IInt i) = Err "IndexError" <-> (i < - n \/ n <= i).
Proof.
  intros n i. cbn [check_item]. destruct ((i <? - n) || (n <=? i)) eqn:E; split; intros H;
    try reflexivity; try discriminate; lia.
Qed.

Theorem slice_bounds_refused_iff : forall n a b s,
  check_item n (ISlc a b s) = Err "ValueError" <->
  ((exists x, a = Some x /\ (x < - n \/ n <= x)) \/ (exists x, b = Some x /\ (x < - n - 1 \/ n < x))).
Proof.
  intros n a b s. cbn [check_item]. split.
  - destruct a as [x|], b as [y|]; cbn;
      repeat match goal with |- context[if ?c then _ else _] => destruct c eqn:? end;
      intros H; try discriminate;
      try (left; eexists; split; [reflexivity|lia]); try (right; eexists; split; [reflexivity|lia]).
  - intros [(x & -> & Hx)|(y & -> & Hy)].
    + replace ((x <? - n) || (n <=? x)) with true by lia. reflexivity.
    + destruct a as [x|].
      * destruct ((x <? - n) || (n <=? x)); [reflexivity|].
        replace ((y <? - n - 1) || (n <? y)) with true by lia. reflexivity.
      * replace ((y <? - n - 1) || (n <? y)) with true by lia. reflexivity.
Qed.

Theorem empty_slice_refused_iff : forall n a b st, st <> 0 ->
  (dim_of n (Some (a, b, Some st)) = Err "IndexError" <->
   let '(f, l, _) := slice_indices a b st n in range_len f l st = 0).
Proof.
  intros n a b st Hs. cbn [dim_of]. replace (st =? 0) with false by lia.
  destruct (slice_indices a b st n) as [[f l] s'].
  pose proof (hd_size_is_range_len f l st Hs) as Hr.
  destruct (hd_size f l st) as [sz|]; split; intros H; try discriminate; try reflexivity; try lia.
Qed.

Theorem zero_step_refused : forall n a b, dim_of n (Some (a, b, Some 0)) = Err "ValueError".
Proof. reflexivity. Qed.

Section More.
Variable R : Type.
Variables (rO : R) (radd rmul rsub : R -> R -> R) (ropp : R -> R).
Variable inj : Z -> R.
Variable ltb : R -> R -> bool.
Variable Vx : Type.
Variable padval : pmode -> bool -> Vx -> list Vx -> Vx.

Notation volT := (vol R Vx).
Notation vpad := (vol_pad R radd rmul inj Vx padval).
Notation vperm := (vol_perm R Vx).
Notation vstep := (step R rO radd rmul rsub ropp inj ltb Vx padval).
Notation vstep_tr := (step_tr R rO radd rmul rsub ropp inj ltb Vx padval).
Notation vstep_sp := (vol_step_sp R rO radd rmul rsub ropp inj ltb Vx padval).
Notation gstepR := (gstep R rO radd rmul rsub ropp inj ltb Vx).

(* ---- a geometry-only object undergoes the identical change *)
Theorem geometry_commutes : forall v o v', vstep v o = Ok v' ->
  match gstepR (geom_of R Vx v) o with
  | Some r => r = Ok (geom_of R Vx v')
  | None => geom_of R Vx v' = geom_of R Vx v
  end.
Proof.
  intros v o v' H. unfold step in H. destruct (vstep_tr v o) as [[v'' f]|] eqn:E; [|discriminate].
  cbn [fst] in H. inversion H; subst v''; clear H.
  pose proof (step_tr_geometry R rO radd rmul rsub ropp inj ltb Vx padval v o v' f E) as G.
  destruct o; cbn [gstep].
  - cbn [step_tr] in E. rewrite (geometry_commutes_sp R rO radd rmul rsub ropp inj ltb Vx padval v o v' f E).
    reflexivity.
  - destruct G as (_ & EA & ES & EP & EF). unfold geom_of. cbn. rewrite EA, ES, EP, EF. reflexivity.
  - destruct G as (_ & EA & ES & EP & EF). unfold geom_of. rewrite EA, ES, EP, EF. reflexivity.
  - destruct G as (_ & EA & ES & EP & EF). unfold geom_of. rewrite EA, ES, EP, EF. reflexivity.
  - destruct G as (_ & EA & ES & EP & EF). unfold geom_of. rewrite EA, ES, EP, EF. reflexivity.
  - destruct G as (_ & EA & ES & EP & EF). unfold geom_of. rewrite EA, ES, EP, EF. reflexivity.
Qed.

Theorem geometry_refusal_commutes : forall v o k, modes_ok Vx o ->
  vstep v (Sp o) = Err k -> gstepR (geom_of R Vx v) (Sp o) = Some (Err k).
Proof.
  intros v o k M H. unfold step in H. cbn [step_tr] in H. cbn [gstep].
  destruct (vstep_sp v o) as [p|k'] eqn:E; [discriminate|]. inversion H; subst k'.
  rewrite (geometry_refusal_commutes_sp R rO radd rmul rsub ropp inj ltb Vx padval v o k M E). reflexivity.
Qed.

(* VolumeGeometry.with_array yields a volume with exactly this geometry *)
Theorem geom_with_array_geometry : forall (g : geom R) sh a i ch v',
  geom_with_array R Vx g sh a i ch = Ok v' -> geom_of R Vx v' = g /\ v_arr R Vx v' = a.
Proof.
  intros [A s p fo] sh a i ch v' H. unfold geom_with_array in H.
  destruct (negb _); [discriminate|]. destruct (ctor_ok _ _); [|discriminate].
  inversion H; subst. split; reflexivity.
Qed.

(* ---- new voxels are padding *)
Definition per_channel_eff (v : volT) (m : pmode) (pc : bool) : bool :=
  pc && is_stat m && negb (Z.of_nat (length (cshape R Vx v)) =? 0) && negb (list_eqb (cshape R Vx v) [1]).

Theorem pad_new_voxels_are_padding : forall v w m cv pc v' f l,
  vpad v w m cv pc = Ok (v', f) -> prep_pad_width w = Ok l ->
  f = pad_map (v_shape R Vx v) (pw_triple l) /\
  forall j c, f j = None ->
    let '(n0, n1, n2) := v_shape R Vx v in
    let '((a0, _), (a1, _), (a2, _)) := pw_triple l in
    let '(j0, j1, j2) := j in
    match m with
    | PEdge => v_arr R Vx v' j c =
               v_arr R Vx v (clampz n0 (j0 - a0), clampz n1 (j1 - a1), clampz n2 (j2 - a2)) c
    | _ => if per_channel_eff v m pc
           then In c (all_cidx (cshape R Vx v)) ->
                v_arr R Vx v' j c =
                padval m (v_isint R Vx v) cv (materialise_chan Vx (v_shape R Vx v) (v_arr R Vx v) c)
           else v_arr R Vx v' j c =
                padval m (v_isint R Vx v) cv
                       (materialise Vx (v_shape R Vx v) (cshape R Vx v) (v_arr R Vx v))
    end.
Proof.
  clear rO rsub ropp ltb.
  intros v w m cv pc v' f l H El. unfold vol_pad in H. unfold per_channel_eff.
  destruct m; try discriminate;
    (rewrite El in H; cbn [bind] in H;
     destruct (existsb _ l) eqn:Ex; [discriminate|];
     destruct (v_shape R Vx v) as [[n0 n1] n2] eqn:Es;
     destruct (pw_triple l) as [[[a0 b0] [a1 b1]] [a2 b2]] eqn:Et;
     cbv zeta in H; inversion H; subst v' f; clear H;
     split; [reflexivity|]; intros [[j0 j1] j2] c Hn; cbn [v_arr]; rewrite Hn;
     cbn [is_stat andb]; rewrite ?andb_false_r; cbn [andb]; try reflexivity).
  all: match goal with |- context[if ?b then _ else _] => destruct b end; try reflexivity.
  all: intros Hin;
    apply (lookup_c_map Vx (fun c0 => padval _ (v_isint R Vx v) cv (materialise_chan Vx (n0, n1, n2) (v_arr R Vx v) c0)));
    exact Hin.
Qed.

(* ---- refusals *)
Theorem permute_accepts_iff : forall (v : volT) l,
  (exists r, vperm v l = Ok r) <-> is_perm3 l = true.
Proof.
  intros v l. unfold vol_perm. destruct (is_perm3 l); split; intros H; try reflexivity;
    try (eexists; reflexivity); try discriminate. destruct H; discriminate.
Qed.

Theorem permute_refuses_iff : forall (v : volT) l,
  vperm v l = Err "ValueError" <-> is_perm3 l = false.
Proof. intros v l. unfold vol_perm. destruct (is_perm3 l); split; intros H; try reflexivity; discriminate. Qed.

Theorem pad_int_refused_iff : forall (v : volT) p m cv pc, m <> PBad ->
  (vpad v (PWInt p) m cv pc = Err "ValueError" <-> p < 0).
Proof.
  clear rO rsub ropp ltb.
  intros v p m cv pc Hm. unfold vol_pad, prep_pad_width. cbn [pad_width_forms].
  destruct m; try congruence;
    (destruct (p <? 0) eqn:E; cbn [bind]; [split; [lia|reflexivity]|];
     cbn [existsb fst snd]; rewrite E; cbn [orb bind existsb fst snd]; rewrite E; cbn [orb];
     destruct (v_shape R Vx v) as [[n0 n1] n2]; cbn; split; [discriminate|lia]).
Qed.

Theorem orientation_needs_patient : forall v o, v_patient R Vx v = false ->
  vstep_sp v (OOrient o) = Err "RuntimeError".
Proof.
  intros v o H. unfold vol_step_sp. cbn [step_sp]. unfold to_orientation. rewrite H. reflexivity.
Qed.

End More.
