(* C04 - proofs about frames stored at ARBITRARY explicit positions (off the tile
   grid, overlapping, with gaps), about the selection bound of the region query,
   about the matrix size a frame-wise segmentation declares, and about floating
   point masks stored as FRACTIONAL levels. *)
From Coq Require Import String ZArith List Bool Lia ZifyBool Arith Permutation.
From HD Require Import Base.Val Base.ListZ C12_Model C12_Proofs C04_Model C04_Proofs C04_Proofs_Store
                       C04_Proofs_E2E.
Import ListNotations.
Ltac Zify.zify_post_hook ::= Z.to_euclidean_division_equations.
Open Scope Z_scope.

(* ---- the WHERE clause selects exactly the frames that overlap the region -------------- *)
(* a frame of t rows at 1-based position p holds rows [p, p + t); the region is [s, e) *)
Lemma selected_iff_overlaps : forall s e t p, selected s e t p = true <-> (p < e /\ s < p + t).
Proof. intros. unfold selected. lia. Qed.

(* ... so no bound tighter than start - size + 1 is complete: the frame starting there
   still holds the first requested row *)
Lemma selected_lower_bound_tight : forall s e t, 1 <= t -> s < e ->
  selected s e t (s - t + 1) = true /\ selected s e t (s - t) = false.
Proof. intros. unfold selected. lia. Qed.

(* output index i of the region is written by a frame at p iff the frame holds row s + i,
   for EVERY position p (cov1_iff is the special case of grid positions) *)
Lemma cov1_free : forall s e t p i, 0 <= i < e - s ->
  (cov1 s e t p i = true <-> p <= s + i < p + t).
Proof. intros. unfold cov1, selected, out_lo, out_hi. lia. Qed.

(* frame t holds matrix position (r, c) (1-based) *)
Definition holds (th tw r c : Z) (t : tile) : bool :=
  (t_rp t <=? r) && (r <? t_rp t + th) && ((t_cp t <=? c) && (c <? t_cp t + tw)).

Lemma covers_free : forall s e cs ce th tw t i j, 0 <= i < e - s -> 0 <= j < ce - cs ->
  covers s e cs ce th tw t i j = holds th tw (s + i) (cs + j) t.
Proof.
  intros s e cs ce th tw t i j Hi Hj. rewrite covers_cov1. apply eq_true_iff_eq.
  unfold holds. rewrite !andb_true_iff. rewrite (cov1_free s e th (t_rp t) i Hi), (cov1_free cs ce tw (t_cp t) j Hj).
  lia.
Qed.

(* the frame shows the function g (the matrix the frames were cut from, extended by
   whatever the frames hold beyond its edges) at its own position *)
Definition shows_free (g : Z -> Z -> Z) (th tw : Z) (t : tile) : Prop :=
  forall a b, 0 <= a < th -> 0 <= b < tw -> cell (t_px t) a b = g (t_rp t - 1 + a) (t_cp t - 1 + b).

Lemma out_cell_free : forall g ts s e cs ce th tw i j,
  (forall t, In t ts -> shows_free g th tw t) -> 0 <= i < e - s -> 0 <= j < ce - cs ->
  out_cell ts s e cs ce th tw i j =
  if existsb (holds th tw (s + i) (cs + j)) ts then g (s - 1 + i) (cs - 1 + j) else 0.
Proof.
  intros g ts s e cs ce th tw i j Hsh Hi Hj. unfold out_cell.
  destruct (existsb (holds th tw (s + i) (cs + j)) ts) eqn:Ex.
  - apply existsb_exists in Ex as (t & Ht & Hh).
    apply (fold_same tile (fun t => covers s e cs ce th tw t i j) (fun t => src_cell s cs t i j)).
    + intros t' Ht' Hc'. destruct (src_cell_eq _ _ _ _ _ _ _ _ _ Hc') as (E & Ha & Hb).
      rewrite E, (Hsh t' Ht') by lia. f_equal; lia.
    + right. exists t. split; [exact Ht|]. now rewrite covers_free by lia.
  - apply (fold_none tile (fun t => covers s e cs ce th tw t i j) (fun t => src_cell s cs t i j)).
    intros t Ht. rewrite covers_free by lia.
    destruct (holds th tw (s + i) (cs + j) t) eqn:Eh; [|reflexivity].
    assert (existsb (holds th tw (s + i) (cs + j)) ts = true) by (apply existsb_exists; now exists t).
    congruence.
Qed.

Lemma existsb_sort : forall P ts, existsb P (sort_tiles ts) = existsb P ts.
Proof.
  intros P ts. apply eq_true_iff_eq. rewrite !existsb_exists. split; intros (t & Ht & Hp); exists t; split; auto.
  - now apply (proj1 (in_sort _ _)).
  - now apply (proj2 (in_sort _ _)).
Qed.

(* the matrix g restricted to what the stored frames hold, on the 1-based half-open region *)
Definition masked_slice (g : Z -> Z -> Z) (th tw : Z) (ts : list tile) (s e cs ce : Z) : list (list Z) :=
  map (fun i => map (fun j => if existsb (holds th tw (s + i) (cs + j)) ts
                              then g (s - 1 + i) (cs - 1 + j) else 0) (zrange (ce - cs)))
      (zrange (e - s)).

(* free_region_exact: frames cut from ONE matrix at ANY positions - on the tile grid or
   not, overlapping, with gaps, repeated, in any stored order - reassemble, for every
   region, to exactly that matrix where a frame holds the cell and to 0 elsewhere.  No
   uniqueness and no grid hypothesis: all frames holding a cell agree on its value. *)
Theorem free_region_exact : forall g ts s e cs ce th tw,
  (forall t, In t ts -> shows_free g th tw t) ->
  read_region ts s e cs ce th tw = masked_slice g th tw ts s e cs ce.
Proof.
  intros g ts s e cs ce th tw Hsh. unfold read_region, masked_slice.
  apply map_ext_in. intros i Hi. apply map_ext_in. intros j Hj.
  apply in_zrange in Hi. apply in_zrange in Hj.
  rewrite (out_cell_free g) by (auto; intros t Ht; apply Hsh; now apply (proj1 (in_sort _ _))).
  now rewrite existsb_sort.
Qed.

(* end to end for a region given in any argument convention *)
Theorem free_read_end_to_end : forall g ts R C th tw ai rs re cs ce, 1 <= R -> 1 <= C ->
  (forall t, In t ts -> shows_free g th tw t) ->
  read_std false ts R C th tw ai rs re cs ce =
  match spec_region ai R C rs re cs ce with
  | Some (s, e, c0, c1) => Ok (masked_slice g th tw ts s e c0 c1)
  | None => Err "ValueError"
  end.
Proof.
  intros g ts R C th tw ai rs re cs ce HR HC Hsh. rewrite read_std_spec by lia.
  destruct (spec_region ai R C rs re cs ce) as [[[[s e] c0] c1]|]; [|reflexivity].
  now rewrite (free_region_exact g).
Qed.

(* where the frames together hold every cell of the region, the read IS the slice *)
Lemma masked_slice_covered : forall g ts s e cs ce th tw,
  (forall i j, 0 <= i < e - s -> 0 <= j < ce - cs -> existsb (holds th tw (s + i) (cs + j)) ts = true) ->
  masked_slice g th tw ts s e cs ce =
  map (fun i => map (fun j => g (s - 1 + i) (cs - 1 + j)) (zrange (ce - cs))) (zrange (e - s)).
Proof.
  intros g ts s e cs ce th tw H. unfold masked_slice.
  apply map_ext_in. intros i Hi. apply map_ext_in. intros j Hj.
  apply in_zrange in Hi. apply in_zrange in Hj. now rewrite H.
Qed.

(* grid frames are a special case: a grid frame holds (r, c) iff it sits at the grid
   origin of (r, c) *)
Lemma holds_on_grid : forall th tw t r c, 1 <= th -> 1 <= tw -> on_grid th tw t -> 1 <= r -> 1 <= c ->
  (holds th tw r c t = true <-> at_pos (tile_of th r) (tile_of tw c) t).
Proof.
  intros th tw t r c Hh Hw (a & b & Ha & Hb & Er & Ec) Hr Hc. unfold holds, at_pos, tile_of.
  rewrite Er, Ec. split.
  - intros H. assert (a = (r - 1) / th) by (apply Z.div_unique with (r := r - 1 - a * th); lia).
    assert (b = (c - 1) / tw) by (apply Z.div_unique with (r := c - 1 - b * tw); lia). subst. lia.
  - intros [H1 H2]. assert (a = (r - 1) / th) by nia. assert (b = (c - 1) / tw) by nia. subst. lia.
Qed.

(* ---- frames of a frame-wise segmentation ------------------------------------------------- *)
Lemma in_seg_store_frames : forall ty mf omit frames k t,
  In t (tiles_of_seg k (seg_store_frames ty mf omit frames)) ->
  exists f T, In f frames /\ In (k, T) (f_planes f) /\ t_rp t = f_rp f /\ t_cp t = f_cp f /\
              t_px t = scale_tile (factor ty mf) T.
Proof.
  intros ty mf omit frames k t H. unfold tiles_of_seg in H. apply in_map_iff in H as (x & <- & Hx).
  apply filter_In in Hx as [Hx Hk]. unfold seg_store_frames in Hx.
  apply in_flat_map in Hx as (f & Hf & Hx). apply in_flat_map in Hx as ([k' T] & Hpl & Hx). cbn [fst snd] in Hx.
  assert (Hfin : In f frames).
  { destruct (omit && negb match filter frame_nonempty frames with [] => true | _ => false end); [|exact Hf].
    now apply filter_In in Hf as [Hf _]. }
  assert (E1 : scale_tile 1 T = T).
  { unfold scale_tile. rewrite <- (map_id T) at 2. apply map_ext. intros row. rewrite <- (map_id row) at 2.
    apply map_ext. intros v. lia. }
  exists f, T.
  destruct ty; cbn [factor];
    repeat match type of Hx with
    | In _ (if ?b then _ else _) => destruct b
    | In _ [] => contradiction
    | In _ [_] => destruct Hx as [<-|[]]
    end; cbn [s_seg s_tile t_rp t_cp t_px] in *; assert (k' = k) by lia; subst k';
    repeat split; auto.
Qed.

(* frames of segment k cut from ONE plane g_k at the positions the caller gives read back,
   for every region, as that plane where a STORED frame holds the cell, else 0 *)
Theorem free_seg_plane_exact : forall ty mf omit frames k g th tw s e cs ce,
  (forall f T, In f frames -> In (k, T) (f_planes f) ->
     forall a b, 0 <= a < th -> 0 <= b < tw -> cell T a b = g (f_rp f - 1 + a) (f_cp f - 1 + b)) ->
  read_region (tiles_of_seg k (seg_store_frames ty mf omit frames)) s e cs ce th tw =
  masked_slice (fun r c => g r c * factor ty mf) th tw
               (tiles_of_seg k (seg_store_frames ty mf omit frames)) s e cs ce.
Proof.
  intros ty mf omit frames k g th tw s e cs ce Hcut. apply free_region_exact.
  intros t Ht a b Ha Hb. apply in_seg_store_frames in Ht as (f & T & Hf & Hpl & Er & Ec & Epx).
  rewrite Epx, cell_scale, Er, Ec. now rewrite (Hcut f T Hf Hpl a b Ha Hb).
Qed.

(* a frame of segment k is left out only under omission and only if it is all zero *)
Definition omit_eff_frames (omit : bool) (frames : list fframe) : bool :=
  omit && negb match filter frame_nonempty frames with [] => true | _ => false end.

Lemma stored_frame_in : forall ty mf omit frames f k T,
  In f frames -> In (k, T) (f_planes f) ->
  omit_eff_frames omit frames && negb (any_nonzero T) = false ->
  In (mkS k (mkT (f_rp f) (f_cp f) (scale_tile (factor ty mf) T))) (seg_store_frames ty mf omit frames).
Proof.
  intros ty mf omit frames f k T Hf Hpl Hkeep. unfold seg_store_frames. cbv zeta.
  fold (omit_eff_frames omit frames). set (o := omit_eff_frames omit frames) in *.
  assert (E1 : scale_tile 1 T = T).
  { unfold scale_tile. rewrite <- (map_id T) at 2. apply map_ext. intros row. rewrite <- (map_id row) at 2.
    apply map_ext. intros v. lia. }
  apply in_flat_map. exists f. split.
  - destruct o; [|exact Hf]. apply filter_In. split; [exact Hf|].
    cbn [andb] in Hkeep. apply negb_false_iff in Hkeep. unfold frame_nonempty. apply existsb_exists.
    exists (k, T). split; [exact Hpl|exact Hkeep].
  - apply in_flat_map. exists (k, T). split; [exact Hpl|]. cbn [fst snd].
    destruct ty; cbn [factor]; rewrite ?Hkeep, ?E1; now left.
Qed.

Theorem free_seg_omitted_empty : forall ty mf omit frames f k T,
  In f frames -> In (k, T) (f_planes f) ->
  pos_mem (f_rp f) (f_cp f) (tiles_of_seg k (seg_store_frames ty mf omit frames)) = false ->
  omit = true /\ any_nonzero T = false.
Proof.
  intros ty mf omit frames f k T Hf Hpl Hno.
  destruct (omit_eff_frames omit frames && negb (any_nonzero T)) eqn:Ek.
  - apply andb_true_iff in Ek as [Eo En]. unfold omit_eff_frames in Eo. apply andb_true_iff in Eo as [Eo _].
    split; [exact Eo|]. now apply negb_true_iff in En.
  - exfalso. pose proof (stored_frame_in ty mf omit frames f k T Hf Hpl Ek) as Hst.
    assert (Hmem : pos_mem (f_rp f) (f_cp f) (tiles_of_seg k (seg_store_frames ty mf omit frames)) = true).
    { apply pos_mem_iff. exists (mkT (f_rp f) (f_cp f) (scale_tile (factor ty mf) T)). split; [|split; reflexivity].
      unfold tiles_of_seg. apply in_map_iff. exists (mkS k (mkT (f_rp f) (f_cp f) (scale_tile (factor ty mf) T))).
      split; [reflexivity|]. apply filter_In. split; [exact Hst|cbn [s_seg]; lia]. }
    congruence.
Qed.

(* ---- the matrix size a frame-wise segmentation declares ------------------------------------- *)
Lemma fold_max_ge : forall l a x, x = a \/ In x l -> x <= fold_left Z.max l a.
Proof.
  induction l as [|y l IH]; intros a x H; cbn [fold_left].
  - destruct H as [->|[]]. lia.
  - destruct H as [->|[->|H]].
    + specialize (IH (Z.max a y) (Z.max a y) (or_introl eq_refl)). lia.
    + specialize (IH (Z.max a x) (Z.max a x) (or_introl eq_refl)). lia.
    + apply IH. now right.
Qed.

Lemma fold_max_in : forall l a, fold_left Z.max l a = a \/ In (fold_left Z.max l a) l.
Proof.
  induction l as [|y l IH]; intros a; cbn [fold_left]; [now left|].
  destruct (IH (Z.max a y)) as [E|Hin]; [|right; now right].
  rewrite E. destruct (Z.max_spec a y) as [[_ ->]|[_ ->]]; [right; now left|now left].
Qed.

(* declared_covers (FULL since fix D121; was _partial + _refuted): the matrix a frame-wise
   segmentation declares holds every frame that was passed, and is the smallest such matrix
   (a frame reaches its last row, a frame reaches its last column) *)
Theorem declared_free_covers : forall th tw ps,
  (forall p, In p ps -> fst p + th - 1 <= fst (declared_free th tw ps) /\
                        snd p + tw - 1 <= snd (declared_free th tw ps)) /\
  (ps <> [] -> (exists p, In p ps /\ fst p + th - 1 = fst (declared_free th tw ps)) /\
               (exists p, In p ps /\ snd p + tw - 1 = snd (declared_free th tw ps))).
Proof.
  intros th tw ps. destruct ps as [|q r]; [split; [intros p []|intros H; now contradiction H]|].
  cbn [declared_free fst snd]. split.
  - intros p Hp.
    assert (H1 : fst p = fst q \/ In (fst p) (map fst r)) by (destruct Hp as [->|Hp]; [now left|right; now apply in_map]).
    assert (H2 : snd p = snd q \/ In (snd p) (map snd r)) by (destruct Hp as [->|Hp]; [now left|right; now apply in_map]).
    pose proof (fold_max_ge _ _ _ H1). pose proof (fold_max_ge _ _ _ H2). lia.
  - intros _. split.
    + destruct (fold_max_in (map fst r) (fst q)) as [E|Hin].
      * exists q. split; [now left|lia].
      * apply in_map_iff in Hin as (p & E & Hp). exists p. split; [now right|lia].
    + destruct (fold_max_in (map snd r) (snd q)) as [E|Hin].
      * exists q. split; [now left|lia].
      * apply in_map_iff in Hin as (p & E & Hp). exists p. split; [now right|lia].
Qed.

(* ---- floating point masks stored as FRACTIONAL levels ------------------------------------------ *)
Lemma scale_tile_1 : forall T, scale_tile 1 T = T.
Proof.
  intros T. unfold scale_tile. rewrite <- (map_id T) at 2. apply map_ext. intros row.
  rewrite <- (map_id row) at 2. apply map_ext. intros v. lia.
Qed.

Lemma stored_frac_ok : forall mf full omit planes segs R C th tw st,
  stored_frac mf full omit planes segs R C th tw = Ok st ->
  mf <= 255 /\ levels_ok mf planes = true /\ stored Fractional 1 full omit planes segs R C th tw = Ok st.
Proof.
  intros mf full omit planes segs R C th tw st H. unfold stored_frac in H.
  destruct (255 <? mf) eqn:E1; cbn [orb] in H; [discriminate|].
  destruct (levels_ok mf planes) eqn:E2; cbn [negb] in H; [|discriminate]. repeat split; auto. lia.
Qed.

(* the refusals are exact *)
Theorem stored_frac_refuses_iff : forall mf full omit planes segs R C th tw,
  (255 < mf \/ levels_ok mf planes = false) ->
  stored_frac mf full omit planes segs R C th tw = Err "ValueError".
Proof.
  intros mf full omit planes segs R C th tw H. unfold stored_frac.
  destruct H as [H|H]; [replace (255 <? mf) with true by lia; reflexivity|].
  rewrite H. cbn [negb]. now rewrite orb_true_r.
Qed.

(* a float mask passed as a whole matrix reads back (raw levels, per requested segment) as
   the numpy slices of its QUANTISED planes, whatever MaximumFractionalValue is *)
Theorem seg_frac_end_to_end : forall mf full omit planes R C th tw st sel ai rs re cs ce,
  1 <= R -> 1 <= C -> 1 <= th -> 1 <= tw ->
  NoDup (map fst planes) -> (forall k Mk, In (k, Mk) planes -> wf_matrix Mk R C) ->
  stored_frac mf full omit planes (map fst planes) R C th tw = Ok st ->
  (forall k, In k sel -> In k (map fst planes)) ->
  seg_read st sel R C th tw ai rs re cs ce =
  match spec_region ai R C rs re cs ce with
  | Some (s, e, c0, c1) =>
      Ok (map (fun k => submatrix (plane_of k planes) (s - 1) (e - 1) (c0 - 1) (c1 - 1)) sel)
  | None => match sel with [] => Ok [] | _ => Err "ValueError" end
  end.
Proof.
  intros mf full omit planes R C th tw st sel ai rs re cs ce HR HC Hh Hw Hnd Hwf Hst Hsel.
  apply stored_frac_ok in Hst as (_ & _ & Hst).
  rewrite (seg_end_to_end Fractional 1 full omit planes R C th tw st sel ai rs re cs ce) by auto.
  destruct (spec_region ai R C rs re cs ce) as [[[[s e] c0] c1]|]; [|reflexivity].
  f_equal. apply map_ext. intros k. cbn [factor]. apply scale_tile_1.
Qed.

(* faint tiles are kept: a tile of plane k is absent from the stored TILED_SPARSE object only
   under omission and only if every LEVEL of the tile is zero - however small the non-zero
   levels of a kept tile are and whatever MaximumFractionalValue is *)
Theorem seg_frac_omitted_iff_level_zero : forall mf omit planes R C th tw st k Mk pc pr,
  1 <= R -> 1 <= C -> 1 <= th -> 1 <= tw ->
  NoDup (map fst planes) -> In (k, Mk) planes ->
  stored_frac mf false omit planes (map fst planes) R C th tw = Ok st -> In (pc, pr) (grid R C th tw) ->
  pos_mem pr pc (tiles_of_seg k st) = false ->
  omit = true /\ any_nonzero (cut Mk R C th tw (pc, pr)) = false.
Proof.
  intros mf omit planes R C th tw st k Mk pc pr HR HC Hh Hw Hnd Hin Hst Hg Hno.
  apply stored_frac_ok in Hst as (_ & _ & Hst). apply stored_is_seg_store in Hst.
  now apply (omitted_iff_empty Fractional 1 omit planes R C th tw st k Mk pc pr).
Qed.

Lemma selected_overlaps_and_tight : forall s e t p,
  (selected s e t p = true <-> (p < e /\ s < p + t)) /\
  (1 <= t -> s < e -> selected s e t (s - t + 1) = true /\ selected s e t (s - t) = false).
Proof. intros. split; [apply selected_iff_overlaps|apply selected_lower_bound_tight]. Qed.

Lemma free_read_end_to_end_covered : forall g ts R C th tw ai rs re cs ce, 1 <= R -> 1 <= C ->
  (forall t, In t ts -> shows_free g th tw t) ->
  read_std false ts R C th tw ai rs re cs ce =
  match spec_region ai R C rs re cs ce with
  | Some (s, e, c0, c1) => Ok (masked_slice g th tw ts s e c0 c1)
  | None => Err "ValueError"
  end /\
  (forall s e c0 c1,
     (forall i j, 0 <= i < e - s -> 0 <= j < c1 - c0 -> existsb (holds th tw (s + i) (c0 + j)) ts = true) ->
     masked_slice g th tw ts s e c0 c1 =
     map (fun i => map (fun j => g (s - 1 + i) (c0 - 1 + j)) (zrange (c1 - c0))) (zrange (e - s))).
Proof.
  intros. split; [now apply free_read_end_to_end|]. intros. now apply masked_slice_covered.
Qed.

(* ---- non-vacuity ----------------------------------------------------------------------------- *)
Lemma example_free :
  let g := fun r c => 1 + r * 6 + c in
  let fr := fun rp cp => mkT rp cp (map (fun a => map (fun b => g (rp - 1 + a) (cp - 1 + b)) (zrange 3)) (zrange 2)) in
  let ts := [fr 4 4; fr 1 1; fr 2 3] in
  (forall t, In t ts -> shows_free g 2 3 t) /\
  read_std false ts 5 6 2 3 false (Some 3) None (Some 5) None = Ok [[17;0];[23;24];[29;30]] /\
  read_std false ts 5 6 2 3 true (Some 1) (Some 3) (Some 2) (Some 5) = Ok [[9;10;11];[15;16;17]] /\
  selected 3 6 2 2 = true /\ selected 5 7 3 3 = true /\
  declared_free 2 3 [(4, 4); (1, 1); (2, 3)] = (5, 6) /\ declared_free 2 2 [(1, 5); (5, 1)] = (6, 6) /\
  match stored_frac 255 false true [(1, [[0;0;0;0];[0;0;1;3]]); (2, [[255;0;0;0];[0;0;0;0]])] [1; 2] 2 4 2 2 with
  | Ok st => length st = 2%nat /\
             seg_read st [1; 2] 2 4 2 2 false None None (Some 3) None = Ok [[[0;0];[1;3]]; [[0;0];[0;0]]]
  | Err _ => False
  end /\
  stored_frac 255 false true [(1, [[0;256]])] [1] 1 2 1 1 = Err "ValueError".
Proof.
  cbv zeta. split; [|vm_compute; repeat split; reflexivity].
  intros t Ht a b Ha Hb.
  assert (Ea : a = 0 \/ a = 1) by lia. assert (Eb : b = 0 \/ b = 1 \/ b = 2) by lia.
  destruct Ht as [<-|[<-|[<-|[]]]]; destruct Ea as [->| ->]; destruct Eb as [->|[->| ->]]; vm_compute; reflexivity.
Qed.
