(* C05 - model of the frame access paths.
   Mirrors (src/highdicom, state after the D5 / D39 fixes):
     image.py  _Image._standardize_frame_index, get_raw_frame (native byte range),
               get_stored_frame / get_stored_frames / pixel_array (path selection)
               get_frames with every transform switched off (st_frames / lz_frames; state after the D108 fix)
     io.py     ImageFileReader._read_metadata (native offset table, choice of
               extended / basic / rebuilt offset table), _get_bot, _build_bot,
               _read_eot (length check), read_frame_raw
     frame.py  decode_frame (native branch: bit window for BitsAllocated = 1,
               otherwise numpy/pydicom little-endian words + unused-bit correction;
               PlanarConfiguration handed to the one-frame dataset -> deplane)
     pydicom   Dataset.pixel_array cache validation (convert_pixel_data / _pixel_id) and its
               reset by Dataset.__setitem__ on PixelData, as seen by get_stored_frame(s):
               img / pixel_array / st_one / st_batch / step / run_ops (end of this file)
   Bytes and pixel values are Z; byte strings are [list Z] with entries 0..255.
   Encapsulated pixel data is modelled at ITEM level: the stream after the
   Basic Offset Table item is a list of items (payload length, "payload starts
   with a JPEG / JPEG 2000 start marker"), terminated by the sequence
   delimiter (= end of the list); byte positions are computed from the 8-byte
   item headers exactly as the code does.  No proofs in this file. *)
From Coq Require Import String ZArith List Bool QArith.
From HD Require Import Base.Val.
Import ListNotations.
Open Scope Z_scope.

Definition zlen {A} (l : list A) : Z := Z.of_nat (length l).
Definition zfirstn {A} (n : Z) (l : list A) : list A := firstn (Z.to_nat n) l.
Definition zskipn {A} (n : Z) (l : list A) : list A := skipn (Z.to_nat n) l.
(* Python  data[s:e]  for 0 <= s (clamped at the end of the data) *)
Definition pyslice {A} (s e : Z) (l : list A) : list A := zfirstn (e - s) (zskipn s l).
Definition zrange (n : Z) : list Z := map Z.of_nat (seq 0 (Z.to_nat n)).

(* ------------------------------------------------------------------ *)
(* image.py  _standardize_frame_index                                  *)
(* ------------------------------------------------------------------ *)
Definition std_index (n f : Z) (as_index : bool) : res Z :=
  if as_index then
    if (f <? 0) || (f >=? n) then Err "IndexError" else Ok f
  else
    if (f <? 1) || (f >? n) then Err "IndexError" else Ok (f - 1).

(* ------------------------------------------------------------------ *)
(* native pixel data: byte ranges                                      *)
(* ------------------------------------------------------------------ *)
(* image.py get_raw_frame, native branch.  npx = Rows*Columns*SamplesPerPixel
   (Rows*Columns*2 for YBR_FULL_422); returns (start, end) of PixelData[start:end] *)
Definition eager_range (bits npx i : Z) : Z * Z :=
  let flb := bits * npx in
  if (bits =? 1) && negb (npx mod 8 =? 0)
  then ((i * flb) / 8, ((i + 1) * flb + 7) / 8)
  else let fl := flb / 8 in (i * fl, i * fl + fl).

(* io.py _bytes_per_frame_uncompressed, the native offset table of
   _read_metadata and the read length of read_frame_raw *)
Definition lazy_bpf (bits npx : Z) : Z :=
  if bits =? 1 then npx / 8 + (if 0 <? npx mod 8 then 1 else 0) else npx * bits / 8.
Definition lazy_offset (bits npx i : Z) : Z :=
  if bits =? 1 then (i * npx) / 8 else i * lazy_bpf bits npx.
Definition lazy_nbytes (bits npx i : Z) : Z :=
  if bits =? 1 then ((i * npx) mod 8 + npx + 7) / 8 else lazy_bpf bits npx.
Definition lazy_range (bits npx i : Z) : Z * Z :=
  (lazy_offset bits npx i, lazy_offset bits npx i + lazy_nbytes bits npx i).

Definition raw_of_range {A} (r : Z * Z) (pd : list A) : list A := pyslice (fst r) (snd r) pd.

(* ------------------------------------------------------------------ *)
(* frame.py decode_frame, native branch                                *)
(* ------------------------------------------------------------------ *)
Fixpoint le_word (bs : list Z) : Z :=
  match bs with [] => 0 | b :: r => b + 256 * le_word r end.

Fixpoint chunks {A} (cnt w : nat) (l : list A) : list (list A) :=
  match cnt with O => [] | S c => firstn w l :: chunks c w (skipn w l) end.

(* numpy view as <u{w} / <i{w}, then pydicom's _correct_unused_bits
   (shift left then right by BitsAllocated - BitsStored in the array's dtype):
   the low BitsStored bits, sign-extended when PixelRepresentation = 1 *)
Definition fix_stored (bs : Z) (signed : bool) (u : Z) : Z :=
  let m := u mod 2 ^ bs in
  if signed && (2 ^ (bs - 1) <=? m) then m - 2 ^ bs else m.

(* pydicom unpack_bits: bitorder little *)
Definition byte_bits (b : Z) : list Z :=
  [b mod 2; (b / 2) mod 2; (b / 4) mod 2; (b / 8) mod 2;
   (b / 16) mod 2; (b / 32) mod 2; (b / 64) mod 2; (b / 128) mod 2].
Definition unpack_bits (bytes : list Z) : list Z := flat_map byte_bits bytes.

Definition words (bits bs : Z) (signed : bool) (cnt : Z) (data : list Z) : list Z :=
  map (fun c => fix_stored bs signed (le_word c))
      (chunks (Z.to_nat cnt) (Z.to_nat (bits / 8)) data).

Definition decode_native (bits bs : Z) (signed : bool) (npx idx : Z) (value : list Z)
  : res (list Z) :=
  if bits =? 1 then
    let fr := zfirstn npx (zskipn ((idx * npx) mod 8) (unpack_bits value)) in
    if zlen fr <? npx then Err "ValueError" else Ok fr
  else
    if zlen value <? npx * (bits / 8) then Err "ValueError"
    else Ok (words bits bs signed npx value).

(* ------------------------------------------------------------------ *)
(* the access paths over one PixelData byte string                      *)
(* ------------------------------------------------------------------ *)
Record fmt := Fmt { f_bits : Z; f_stored : Z; f_signed : bool; f_npx : Z; f_frames : Z }.

(* Image.get_stored_frame on an in-memory / eagerly read dataset (index already standardised) *)
Definition frame_eager (m : fmt) (pd : list Z) (i : Z) : res (list Z) :=
  decode_native (f_bits m) (f_stored m) (f_signed m) (f_npx m) i
    (raw_of_range (eager_range (f_bits m) (f_npx m) i) pd).

(* ImageFileReader.read_frame / Image with lazy frame retrieval *)
Definition frame_lazy (m : fmt) (pd : list Z) (i : Z) : res (list Z) :=
  decode_native (f_bits m) (f_stored m) (f_signed m) (f_npx m) i
    (raw_of_range (lazy_range (f_bits m) (f_npx m) i) pd).

(* pydicom Dataset.pixel_array, split into frames *)
Definition whole_array (m : fmt) (pd : list Z) : res (list (list Z)) :=
  let tot := f_frames m * f_npx m in
  if f_bits m =? 1 then
    let all := unpack_bits pd in
    if zlen all <? tot then Err "ValueError"
    else Ok (chunks (Z.to_nat (f_frames m)) (Z.to_nat (f_npx m)) all)
  else
    if zlen pd <? tot * (f_bits m / 8) then Err "ValueError"
    else Ok (chunks (Z.to_nat (f_frames m)) (Z.to_nat (f_npx m))
                    (words (f_bits m) (f_stored m) (f_signed m) tot pd)).

Definition frame_of_array (m : fmt) (pd : list Z) (i : Z) : res (list Z) :=
  bind (whole_array m pd) (fun fs => Ok (nth (Z.to_nat i) fs [])).

(* user level: frame number + as_index *)
Definition get_stored_frame (lazy cached : bool) (m : fmt) (pd : list Z) (f : Z) (as_index : bool)
  : res (list Z) :=
  bind (std_index (f_frames m) f as_index) (fun i =>
    if cached then frame_of_array m pd i
    else if lazy then frame_lazy m pd i else frame_eager m pd i).

Definition get_raw_frame (lazy : bool) (m : fmt) (pd : list Z) (f : Z) (as_index : bool)
  : res (list Z) :=
  bind (std_index (f_frames m) f as_index) (fun i =>
    Ok (raw_of_range ((if lazy then lazy_range else eager_range) (f_bits m) (f_npx m) i) pd)).

Fixpoint sequence {A} (l : list (res A)) : res (list A) :=
  match l with
  | [] => Ok []
  | r :: t => bind r (fun a => bind (sequence t) (fun b => Ok (a :: b)))
  end.

Definition get_stored_frames (lazy cached : bool) (m : fmt) (pd : list Z) (fs : list Z) (as_index : bool)
  : res (list (list Z)) :=
  sequence (map (fun f => get_stored_frame lazy cached m pd f as_index) fs).

(* ------------------------------------------------------------------ *)
(* encapsulated pixel data, item level                                 *)
(* ------------------------------------------------------------------ *)
Record item := Item { ilen : Z; imark : bool }.
Definition isize (it : item) : Z := 8 + ilen it.
Definition total_size (its : list item) : Z := fold_right (fun it a => isize it + a) 0 its.

(* io._build_bot: scan all items up to the sequence delimiter;
   returns (fragment offsets, offsets of fragments that start with a marker) *)
Fixpoint scan (pos : Z) (its : list item) : res (list Z * list Z) :=
  match its with
  | [] => Ok ([], [])
  | it :: r =>
      if Z.odd (ilen it) then Err "OSError"
      else if ilen it =? 0 then Err "OSError"
      else bind (scan (pos + isize it) r) (fun p =>
             Ok (pos :: fst p, if imark it then pos :: snd p else snd p))
  end.

Definition build_bot (its : list item) (n : Z) : res (list Z) :=
  bind (scan 0 its) (fun p =>
    if zlen (snd p) =? n then Ok (snd p)
    else if zlen (fst p) =? n then Ok (fst p)
    else Err "ValueError").

(* io._get_bot: the stored table is used only if it has one entry per frame *)
Definition get_bot (bot : list Z) (its : list item) (n : Z) : res (list Z) :=
  match its with
  | [] => Err "ValueError"          (* tag after the BOT is not an Item tag *)
  | _ => if zlen bot =? n then Ok bot else build_bot its n
  end.

(* io._read_metadata: extended table first, else basic / rebuilt; every failure of
   the basic path surfaces as OSError *)
Definition offset_table (eot : option (list Z)) (bot : list Z) (its : list item) (n : Z)
  : res (list Z) :=
  match eot with
  | Some [] => Err "TypeError"     (* an empty value reads back as None: np.frombuffer(None) *)
  | Some t => if zlen t =? n then Ok t else Err "ValueError"
  | None => match get_bot bot its n with Ok t => Ok t | Err _ => Err "OSError" end
  end.

(* Python list indexing (negative indices count from the end) *)
Definition py_nth (l : list Z) (i : Z) : option Z :=
  let j := if i <? 0 then i + zlen l else i in
  if (j <? 0) || (zlen l <=? j) then None else nth_error l (Z.to_nat j).

(* fp.seek(first_frame_offset + off): the items that follow byte position off,
   with the index of the first of them; None when off is not an item boundary *)
Fixpoint seek (pos : Z) (its : list item) (k : Z) : option (Z * list item) :=
  if pos =? 0 then Some (k, its)
  else if pos <? 0 then None
  else match its with
       | [] => None
       | it :: r => seek (pos - isize it) r (k + 1)
       end.

(* the fragment loop of read_frame_raw *)
Fixpoint take (stop_at n : Z) (its : list item) : list item :=
  match its with
  | [] => []
  | it :: r => if n =? stop_at then [] else it :: take stop_at (n + isize it) r
  end.

(* io.read_frame_raw, encapsulated branch: (index of first fragment, number of
   fragments) whose payloads are joined *)
Definition read_frame_raw_enc (table : list Z) (its : list item) (n i : Z) : res (Z * Z) :=
  if (i <? 0) || (i >=? n) then Err "ValueError"
  else match py_nth table i with
       | None => Err "IndexError"
       | Some off =>
           let stop_at := match py_nth table (i + 1) with Some o => o - off | None => -1 end in
           match seek off its 0 with
           | None => Err "ValueError"
           | Some (k, suf) =>
               let fr := take stop_at 0 suf in
               if fold_right (fun it a => ilen it + a) 0 fr =? 0 then Err "OSError"
               else Ok (k, zlen fr)
           end
       end.

(* io.read_frame_raw, native branch (the reader's own entry point: 0-based index, refused outside the image) *)
Definition read_frame_raw_native (bits npx n : Z) (pd : list Z) (i : Z) : res (list Z) :=
  if (i <? 0) || (i >=? n) then Err "ValueError"
  else match py_nth (map (lazy_offset bits npx) (zrange n)) i with
       | None => Err "IndexError"
       | Some off =>
           let d := pyslice off (off + lazy_nbytes bits npx i) pd in
           match d with [] => Err "OSError" | _ => Ok d end
       end.

(* pydicom.encaps.encapsulate lays frames out as one item each (or several
   fragments); the offsets it writes into the BOT / EOT are the positions of
   the first fragment of every frame *)
Fixpoint frame_offsets (pos : Z) (fs : list (list item)) : list Z :=
  match fs with
  | [] => []
  | f :: r => pos :: frame_offsets (pos + total_size f) r
  end.

(* ------------------------------------------------------------------ *)
(* boundary functions for the correspondence run                       *)
(* ------------------------------------------------------------------ *)
Definition vframes (r : res (list (list Z))) : val := vres vz_list2 r.

(* six user-level calls with the same (frame number, as_index) *)
Definition run_index (n f : Z) (as_index : bool) : val :=
  vres VZ (std_index n f as_index).

(* all native paths of one image: frames one at a time (eager), the same three
   other ways compared inside Coq, raw frames (eager), lazy raw = eager raw *)
Definition res_eqb (a b : res (list (list Z))) : bool :=
  val_eqb 0%Q (vframes a) (vframes b).

Definition dtype_name (bits : Z) (signed : bool) : string :=
  ((if signed then "int" else "uint") ++
   (if Z.eqb bits 16 then "16" else if Z.eqb bits 32 then "32" else "8"))%string.

Definition run_native (bits bs : Z) (signed : bool) (npx n : Z) (pd : list Z) : val :=
  let m := Fmt bits bs signed npx n in
  let nums := map (fun k => k + 1) (zrange n) in
  let one := get_stored_frames false false m pd nums false in
  let lz := get_stored_frames true false m pd (zrange n) true in
  let cached := get_stored_frames false true m pd nums false in
  let raws := sequence (map (fun f => get_raw_frame false m pd f false) nums) in
  let raws_lz := sequence (map (fun f => get_raw_frame true m pd f false) nums) in
  VL [VS (dtype_name bits signed); vframes one; VB (res_eqb lz one); VB (res_eqb cached one);
      VB (res_eqb (whole_array m pd) one); vframes raws; VB (res_eqb raws_lz raws)].

(* one frame request (frame number, as_index) on a native image through the
   user-level entry points: eager, lazy, after pixel_array was cached; raw frame eager / lazy *)
Definition run_native_one (bits bs : Z) (signed : bool) (npx n : Z)
           (pd : list Z) (f : Z) (as_index : bool) : val :=
  let m := Fmt bits bs signed npx n in
  VL [vres vz_list (get_stored_frame false false m pd f as_index);
      vres vz_list (get_stored_frame true false m pd f as_index);
      vres vz_list (get_stored_frame false true m pd f as_index);
      vframes (get_stored_frames false false m pd [f] as_index);
      vframes (get_stored_frames true false m pd [f] as_index);
      vres vz_list (get_raw_frame false m pd f as_index);
      vres vz_list (get_raw_frame true m pd f as_index)].

Definition mk_items (l : list (Z * bool)) : list item := map (fun p => Item (fst p) (snd p)) l.

Definition vpairzz (p : Z * Z) : val := VL [VZ (fst p); VZ (snd p)].

(* observable form of (first fragment, count): position and length of the returned bytes
   within the concatenation of all fragment payloads (zero-length fragments are invisible) *)
Definition payload_len (its : list item) : Z := fold_right (fun it a => ilen it + a) 0 its.
Definition payload_span (its : list item) (p : Z * Z) : val :=
  VL [VZ (payload_len (zfirstn (fst p) its)); VZ (payload_len (zfirstn (snd p) (zskipn (fst p) its)))].

(* reader on an encapsulated file: Err if opening fails, else per requested index
   the span of the returned payload bytes or the error *)
Definition run_encaps (eot : option (list Z)) (bot : list Z) (its : list (Z * bool)) (n : Z)
           (idx : list Z) : val :=
  match offset_table eot bot (mk_items its) n with
  | Err k => VErr k
  | Ok t => VL (map (fun i => vres (payload_span (mk_items its))
                                   (read_frame_raw_enc t (mk_items its) n i)) idx)
  end.

Definition run_reader_native (bits npx n : Z) (pd : list Z) (idx : list Z) : val :=
  VL (map (fun i => vres vz_list (read_frame_raw_native bits npx n pd i)) idx).

(* ================================================================== *)
(* colour layout (PlanarConfiguration), image geometry, and the cache  *)
(* of the decoded array                                                *)
(* ================================================================== *)
(* fmt + SamplesPerPixel, PlanarConfiguration = 1, Rows (Columns = npx / (Rows * spp)) *)
Record cfmt := CFmt { c_fmt : fmt; c_spp : Z; c_planar : bool; c_rows : Z }.

(* pydicom reshape_pixel_array: a frame stored colour-by-plane (spp planes of rc samples each)
   is returned as (rows, columns, samples): out[p * spp + s] = in[s * rc + p] *)
Definition deplane (planar : bool) (spp : Z) (l : list Z) : list Z :=
  if planar then
    map (fun k => nth (Z.to_nat ((k mod spp) * (zlen l / spp) + k / spp)) l 0) (zrange (zlen l))
  else l.
Definition deplane_on (c : cfmt) : list Z -> list Z := deplane (c_planar c) (c_spp c).
Definition rmap {A B} (g : A -> B) (r : res A) : res B := bind r (fun a => Ok (g a)).

(* frame.py decode_frame with planar_configuration handed to the one-frame dataset; the
   bit-packed branch only reshapes (it never looks at the planar configuration) *)
Definition decode_native_c (c : cfmt) (idx : Z) (value : list Z) : res (list Z) :=
  let m := c_fmt c in
  let r := decode_native (f_bits m) (f_stored m) (f_signed m) (f_npx m) idx value in
  if f_bits m =? 1 then r else rmap (deplane_on c) r.

Definition frame_eager_c (c : cfmt) (pd : list Z) (i : Z) : res (list Z) :=
  decode_native_c c i (raw_of_range (eager_range (f_bits (c_fmt c)) (f_npx (c_fmt c)) i) pd).
Definition frame_lazy_c (c : cfmt) (pd : list Z) (i : Z) : res (list Z) :=
  decode_native_c c i (raw_of_range (lazy_range (f_bits (c_fmt c)) (f_npx (c_fmt c)) i) pd).
(* pydicom Dataset.pixel_array of the whole image, split into frames *)
Definition whole_array_c (c : cfmt) (pd : list Z) : res (list (list Z)) :=
  rmap (map (deplane_on c)) (whole_array (c_fmt c) pd).
Definition frame_of_array_c (c : cfmt) (pd : list Z) (i : Z) : res (list Z) :=
  bind (whole_array_c c pd) (fun fs => Ok (nth (Z.to_nat i) fs [])).

(* ---- in-memory image with pydicom's cache of the decoded array ---- *)
(* i_cache = Some (c, pd): Dataset._pixel_array holds the array decoded when the image
   description was c and PixelData was pd (Dataset._pixel_id records the ids of those
   element values; equal ids <-> unchanged values as long as replaced values stay alive) *)
Record img := Img { i_c : cfmt; i_pd : list Z; i_cache : option (cfmt * list Z) }.

Definition fmt_eqb (a b : fmt) : bool :=
  (f_bits a =? f_bits b) && (f_stored a =? f_stored b) && Bool.eqb (f_signed a) (f_signed b)
  && (f_npx a =? f_npx b) && (f_frames a =? f_frames b).
Definition cfmt_eqb (a b : cfmt) : bool :=
  fmt_eqb (c_fmt a) (c_fmt b) && (c_spp a =? c_spp b) && Bool.eqb (c_planar a) (c_planar b)
  && (c_rows a =? c_rows b).
Fixpoint zlist_eqb (a b : list Z) : bool :=
  match a, b with
  | [], [] => true
  | x :: a', y :: b' => (x =? y) && zlist_eqb a' b'
  | _, _ => false
  end.

(* pydicom Dataset.pixel_array / convert_pixel_data: the cached array is returned only if
   nothing that describes the pixels changed since it was decoded; otherwise decode again *)
Definition pixel_array (st : img) : img * res (list (list Z)) :=
  let fresh := match whole_array_c (i_c st) (i_pd st) with
               | Ok a => (Img (i_c st) (i_pd st) (Some (i_c st, i_pd st)), Ok a)
               | Err k => (st, Err k)
               end in
  match i_cache st with
  | Some (c, pd) =>
      if cfmt_eqb c (i_c st) && zlist_eqb pd (i_pd st) then (st, whole_array_c c pd) else fresh
  | None => fresh
  end.

(* image.py get_stored_frame on an in-memory image *)
Definition st_one (st : img) (f : Z) (ai : bool) : img * res (list Z) :=
  match std_index (f_frames (c_fmt (i_c st))) f ai with
  | Err k => (st, Err k)
  | Ok i =>
      match i_cache st with
      | None => (st, frame_eager_c (i_c st) (i_pd st) i)          (* self._pixel_array is None *)
      | Some _ => let p := pixel_array st in                      (* self.pixel_array[frame_index] *)
                  (fst p, bind (snd p) (fun fs => Ok (nth (Z.to_nat i) fs [])))
      end
  end.

(* image.py get_stored_frames: the same body per frame number, then np.stack *)
Fixpoint st_batch_loop (st : img) (fs : list Z) (ai : bool) : img * res (list (list Z)) :=
  match fs with
  | [] => (st, Ok [])
  | f :: r =>
      let p := st_one st f ai in
      match snd p with
      | Err k => (fst p, Err k)
      | Ok a => let q := st_batch_loop (fst p) r ai in (fst q, rmap (cons a) (snd q))
      end
  end.
Definition st_batch (st : img) (fs : list Z) (ai : bool) : img * res (list (list Z)) :=
  let p := st_batch_loop st fs ai in
  match snd p, fs with
  | Ok _, [] => (fst p, Err "ValueError")       (* np.stack of an empty list *)
  | _, _ => p
  end.

(* decode_frame(get_raw_frame(f), index = standardised index) *)
Definition st_decode_raw (st : img) (f : Z) (ai : bool) : res (list Z) :=
  let m := c_fmt (i_c st) in
  bind (std_index (f_frames m) f ai) (fun i =>
    bind (get_raw_frame false m (i_pd st) f ai) (fun raw => decode_native_c (i_c st) i raw)).

(* ---- get_frames with every transform switched off ------------------ *)
(* image.py get_frames(frame_numbers, as_indices, dtype=<integer type>, apply_*_transform=False, ...):
   frame_numbers = list(frame_numbers); the (shared) transform is built from the FIRST requested number,
   whose _standardize_frame_index therefore raises first; then, per requested number and in the order
   requested: nothing cached -> the raw bytes of the frame (reader.read_frame_raw(frame_index) on a lazily
   read image, get_raw_frame(frame_index + 1) otherwise) handed to the transform, which decodes them with
   decode_frame(index=frame_index); an array cached -> a single-frame image is recognised by
   number_of_frames == 1 (since the D108 fix; before, by the RANK of the cached array, which is also 3 for
   one colour frame) and answers pixel_array for index 0, any other image answers pixel_array[frame_index];
   finally np.stack.  With the transforms off and an integer output dtype the transform only casts
   (oracle premise), so the values are the stored values. *)
Definition st_frames_one (st : img) (f : Z) (ai : bool) : img * res (list Z) :=
  let c := i_c st in
  let n := f_frames (c_fmt c) in
  match std_index n f ai with
  | Err k => (st, Err k)
  | Ok i =>
      match i_cache st with
      | None => (st, bind (get_raw_frame false (c_fmt c) (i_pd st) (i + 1) false)
                          (fun raw => decode_native_c c i raw))
      | Some _ =>
          if n =? 1 then
            if i =? 0 then let p := pixel_array st in (fst p, bind (snd p) (fun fs => Ok (nth 0 fs [])))
            else (st, Err "IndexError")
          else let p := pixel_array st in (fst p, bind (snd p) (fun fs => Ok (nth (Z.to_nat i) fs [])))
      end
  end.
Fixpoint st_frames_loop (st : img) (fs : list Z) (ai : bool) : img * res (list (list Z)) :=
  match fs with
  | [] => (st, Ok [])
  | f :: r =>
      let p := st_frames_one st f ai in
      match snd p with
      | Err k => (fst p, Err k)
      | Ok a => let q := st_frames_loop (fst p) r ai in (fst q, rmap (cons a) (snd q))
      end
  end.
Definition st_frames (st : img) (fs : list Z) (ai : bool) : img * res (list (list Z)) :=
  match fs with
  | [] => (st, Err "ValueError")                 (* first_frame_index = 0; np.stack of an empty list *)
  | f0 :: _ =>
      match std_index (f_frames (c_fmt (i_c st))) f0 ai with
      | Err k => (st, Err k)                     (* raised while the shared transform is built *)
      | Ok _ => st_frames_loop st fs ai
      end
  end.

Inductive op :=
| OWhole                                  (* im.pixel_array *)
| OOne (f : Z) (ai : bool)                (* im.get_stored_frame(f, as_index=ai) *)
| OBatch (fs : list Z) (ai : bool)        (* im.get_stored_frames(fs, as_indices=ai) *)
| ORaw (f : Z) (ai : bool)                (* im.get_raw_frame(f, as_index=ai) *)
| ODecodeRaw (f : Z) (ai : bool)          (* decode_frame(im.get_raw_frame(f), ..., index) *)
| OAssign (pd : list Z)                   (* im.PixelData = pd : Dataset.__setitem__ drops the cache *)
| OInplace (pd : list Z)                  (* im['PixelData'].value = pd : cache object untouched *)
| OHeader (c : cfmt)                      (* im.PixelRepresentation = ..., BitsStored, Rows/Columns,
                                             PlanarConfiguration : cache object untouched *)
| OFrames (fs : list Z) (ai : bool).      (* im.get_frames(fs, as_indices=ai, dtype=int64, all transforms off) *)

(* what a caller can see of an answer: dtype, shape of one frame, values *)
Definition shape_of (c : cfmt) : list Z :=
  let cols := f_npx (c_fmt c) / (c_rows c * c_spp c) in
  if c_spp c =? 1 then [c_rows c; cols] else [c_rows c; cols; c_spp c].
Definition meta (c : cfmt) : val :=
  VL [VS (dtype_name (f_bits (c_fmt c)) (f_signed (c_fmt c))); vz_list (shape_of c)].
Definition vans {A} (c : cfmt) (g : A -> val) (r : res A) : val :=
  match r with Ok a => VL [meta c; g a] | Err k => VErr k end.
(* get_frames: the dtype is the one the caller asked for (the harness asks for int64) *)
Definition vans64 {A} (c : cfmt) (g : A -> val) (r : res A) : val :=
  match r with Ok a => VL [VL [VS "int64"; vz_list (shape_of c)]; g a] | Err k => VErr k end.

Definition step (st : img) (o : op) : img * val :=
  let c := i_c st in
  match o with
  | OWhole => let p := pixel_array st in (fst p, vans c vz_list2 (snd p))
  | OOne f ai => let p := st_one st f ai in (fst p, vans c vz_list (snd p))
  | OBatch fs ai => let p := st_batch st fs ai in (fst p, vans c vz_list2 (snd p))
  | ORaw f ai => (st, vres vz_list (get_raw_frame false (c_fmt c) (i_pd st) f ai))
  | ODecodeRaw f ai => (st, vans c vz_list (st_decode_raw st f ai))
  | OAssign pd => (Img c pd None, VNone)
  | OInplace pd => (Img c pd (i_cache st), VNone)
  | OHeader c' => (Img c' (i_pd st) (i_cache st), VNone)
  | OFrames fs ai => let p := st_frames st fs ai in (fst p, vans64 c vz_list2 (snd p))
  end.

Fixpoint run_ops (st : img) (ops : list op) : list val :=
  match ops with
  | [] => []
  | o :: r => let p := step st o in snd p :: run_ops (fst p) r
  end.

(* a freshly constructed / eagerly read image, then a sequence of reads and edits *)
Definition run_history (c : cfmt) (pd : list Z) (ops : list op) : val :=
  VL (run_ops (Img c pd None) ops).

(* all native paths of one colour image (same observation as run_native) *)
Definition run_native_c (c : cfmt) (pd : list Z) : val :=
  let m := c_fmt c in
  let n := f_frames m in
  let idx := zrange n in
  let nums := map (fun k => k + 1) idx in
  let one := sequence (map (frame_eager_c c pd) idx) in
  let lz := sequence (map (frame_lazy_c c pd) idx) in
  let cached := sequence (map (frame_of_array_c c pd) idx) in
  let raws := sequence (map (fun f => get_raw_frame false m pd f false) nums) in
  let raws_lz := sequence (map (fun f => get_raw_frame true m pd f false) nums) in
  VL [VS (dtype_name (f_bits m) (f_signed m)); vframes one; VB (res_eqb lz one); VB (res_eqb cached one);
      VB (res_eqb (whole_array_c c pd) one); vframes raws; VB (res_eqb raws_lz raws)].

(* ================================================================== *)
(* encapsulated pixel data, BYTE level: fragments carry their payload  *)
(* ================================================================== *)
(* io._build_bot reads the first two bytes of every fragment and compares them with the
   JPEG / JPEG-LS start-of-image marker FF D8 and the JPEG 2000 start-of-codestream marker FF 4F *)
Definition starts_marker (p : list Z) : bool :=
  match p with
  | a :: b :: _ => (a =? 255) && ((b =? 216) || (b =? 79))
  | _ => false
  end.
Definition item_of (p : list Z) : item := Item (zlen p) (starts_marker p).

(* read_frame_raw: b''.join(fragments) *)
Definition join_span (pls : list (list Z)) (r : Z * Z) : list Z :=
  concat (zfirstn (snd r) (zskipn (fst r) pls)).

(* ImageFileReader on an encapsulated file whose fragments have payloads pls: open
   (_read_metadata: choice of table), then read_frame_raw(i) *)
Definition reader_enc_bytes (eot : option (list Z)) (bot : list Z) (pls : list (list Z)) (n i : Z)
  : res (list Z) :=
  bind (offset_table eot bot (map item_of pls) n) (fun t =>
    rmap (join_span pls) (read_frame_raw_enc t (map item_of pls) n i)).

(* Image.get_raw_frame on the lazily read file: frame number convention first, then the reader *)
Definition lazy_raw_enc_bytes (eot : option (list Z)) (bot : list Z) (pls : list (list Z)) (n f : Z)
           (ai : bool) : res (list Z) :=
  bind (offset_table eot bot (map item_of pls) n) (fun t =>
    bind (std_index n f ai) (fun i =>
      rmap (join_span pls) (read_frame_raw_enc t (map item_of pls) n i))).

(* observation: Err if opening fails, else per requested index the returned bytes or the error;
   second component: the same requests through hd.imread(lazy) .get_raw_frame(i, as_index) *)
Definition run_encaps_bytes (eot : option (list Z)) (bot : list Z) (pls : list (list Z)) (n : Z)
           (idx : list Z) : val :=
  match offset_table eot bot (map item_of pls) n with
  | Err k => VErr k
  | Ok _ => VL (map (fun i => vres vz_list (reader_enc_bytes eot bot pls n i)) idx)
  end.
Definition run_encaps_image (eot : option (list Z)) (bot : list Z) (pls : list (list Z)) (n : Z)
           (idx : list Z) (ai : bool) : val :=
  match offset_table eot bot (map item_of pls) n with
  | Err k => VErr k
  | Ok _ => VL (map (fun f => vres vz_list (lazy_raw_enc_bytes eot bot pls n f ai)) idx)
  end.

(* ================================================================== *)
(* native pixel data inside the FILE: element header, value, what follows *)
(* ================================================================== *)
(* io._read_metadata: _first_frame_offset = _pixel_data_offset + header_offset, where the header
   of the Pixel Data element is tag + length (implicit VR) or tag + VR + reserved + length *)
Definition native_header (implicit_vr : bool) : Z := if implicit_vr then 4 + 4 else 4 + 2 + 2 + 4.

(* read_frame_raw on the bytes of the file from the first byte of the Pixel Data element on:
   fp.seek(first_frame_offset + offset_table[i]); fp.read(n_bytes) *)
Definition read_frame_raw_file (implicit_vr : bool) (bits npx n : Z) (tail : list Z) (i : Z)
  : res (list Z) :=
  if (i <? 0) || (i >=? n) then Err "ValueError"
  else match py_nth (map (lazy_offset bits npx) (zrange n)) i with
       | None => Err "IndexError"
       | Some off =>
           let s := native_header implicit_vr + off in
           let d := pyslice s (s + lazy_nbytes bits npx i) tail in
           match d with [] => Err "OSError" | _ => Ok d end
       end.

Definition run_reader_file (implicit_vr : bool) (bits npx n : Z) (tail : list Z) (idx : list Z) : val :=
  VL (map (fun i => vres vz_list (read_frame_raw_file implicit_vr bits npx n tail i)) idx).

(* ================================================================== *)
(* lazily read image: Image.from_file(..., lazy_frame_retrieval=True)  *)
(* ================================================================== *)
(* l_c  : the pixel description of the dataset as it is now (the reader's metadata is the same object)
   l_pd : the PixelData value in the file (never changes)
   l_cache = Some (c0, fs): Image.pixel_array stored in self._pixel_array the frames fs that it
   decoded when the description was c0, and in self._pixel_id the ids of the describing element
   values (equal ids <-> equal values, as for the in-memory image).  Since the D105 fix the lazy
   branch of Image.pixel_array drops the array when the ids differ from the current ones.
   Faithful for edits that keep NumberOfFrames, BitsAllocated and the frame size (the offset
   table of the reader is computed once when the file is opened). *)
Record limg := LImg { l_c : cfmt; l_pd : list Z; l_cache : option (cfmt * list (list Z)) }.

Inductive lop :=
| LWhole | LOne (f : Z) (ai : bool) | LBatch (fs : list Z) (ai : bool)
| LRaw (f : Z) (ai : bool) | LDecodeRaw (f : Z) (ai : bool) | LHeader (c : cfmt)
| LFrames (fs : list Z) (ai : bool).

(* get_stored_frame with nothing cached: read_frame_raw + decode_frame *)
Definition lz_fresh_one (c : cfmt) (pd : list Z) (f : Z) (ai : bool) : res (list Z) :=
  bind (std_index (f_frames (c_fmt c)) f ai) (fun i => frame_lazy_c c pd i).
(* what pixel_array decodes when nothing (valid) is cached: get_stored_frame(1) for one frame,
   else get_stored_frames() = np.stack of frames 1..n *)
Definition lz_fresh_all (c : cfmt) (pd : list Z) : res (list (list Z)) :=
  let n := f_frames (c_fmt c) in
  if n =? 1 then rmap (fun a => [a]) (lz_fresh_one c pd 1 false)
  else match map (fun k => k + 1) (zrange n) with
       | [] => Err "ValueError"
       | nums => sequence (map (fun f => lz_fresh_one c pd f false) nums)
       end.

(* Image.pixel_array, lazy branch *)
Definition lz_whole (st : limg) : limg * res (list (list Z)) :=
  let c := l_c st in
  let usable := match l_cache st with
                | Some (c0, fs) => if cfmt_eqb c0 c then Some fs else None    (* _pixel_id != pixel_ids: dropped *)
                | None => None
                end in
  match usable with
  | Some fs => (st, Ok fs)
  | None => match lz_fresh_all c (l_pd st) with
            | Ok fs => (LImg c (l_pd st) (Some (c, fs)), Ok fs)
            | Err k => (LImg c (l_pd st) None, Err k)
            end
  end.

(* get_stored_frame *)
Definition lz_one (st : limg) (f : Z) (ai : bool) : limg * res (list Z) :=
  let c := l_c st in
  let n := f_frames (c_fmt c) in
  match std_index n f ai with
  | Err k => (st, Err k)
  | Ok i =>
      match l_cache st with
      | None => (st, frame_lazy_c c (l_pd st) i)                  (* self._pixel_array is None *)
      | Some _ =>
          let p := lz_whole st in                                 (* self.pixel_array / self.pixel_array[frame_index] *)
          (fst p, bind (snd p) (fun fs =>
                    if n =? 1 then Ok (nth 0 fs [])
                    else match nth_error fs (Z.to_nat i) with Some a => Ok a | None => Err "IndexError" end))
      end
  end.

Fixpoint lz_batch_loop (st : limg) (fs : list Z) (ai : bool) : limg * res (list (list Z)) :=
  match fs with
  | [] => (st, Ok [])
  | f :: r =>
      let p := lz_one st f ai in
      match snd p with
      | Err k => (fst p, Err k)
      | Ok a => let q := lz_batch_loop (fst p) r ai in (fst q, rmap (cons a) (snd q))
      end
  end.
Definition lz_batch (st : limg) (fs : list Z) (ai : bool) : limg * res (list (list Z)) :=
  let p := lz_batch_loop st fs ai in
  match snd p, fs with
  | Ok _, [] => (fst p, Err "ValueError")       (* np.stack of an empty list *)
  | _, _ => p
  end.

(* get_frames (transforms off) on a lazily read image: see st_frames_one; the uncached branch reads
   reader.read_frame_raw(frame_index) and decodes it with index = frame_index *)
Definition lz_frames_one (st : limg) (f : Z) (ai : bool) : limg * res (list Z) :=
  let c := l_c st in
  let n := f_frames (c_fmt c) in
  match std_index n f ai with
  | Err k => (st, Err k)
  | Ok i =>
      match l_cache st with
      | None => (st, frame_lazy_c c (l_pd st) i)
      | Some _ =>
          if n =? 1 then
            if i =? 0 then let p := lz_whole st in (fst p, bind (snd p) (fun fs => Ok (nth 0 fs [])))
            else (st, Err "IndexError")
          else let p := lz_whole st in
               (fst p, bind (snd p) (fun fs =>
                         match nth_error fs (Z.to_nat i) with Some a => Ok a | None => Err "IndexError" end))
      end
  end.
Fixpoint lz_frames_loop (st : limg) (fs : list Z) (ai : bool) : limg * res (list (list Z)) :=
  match fs with
  | [] => (st, Ok [])
  | f :: r =>
      let p := lz_frames_one st f ai in
      match snd p with
      | Err k => (fst p, Err k)
      | Ok a => let q := lz_frames_loop (fst p) r ai in (fst q, rmap (cons a) (snd q))
      end
  end.
Definition lz_frames (st : limg) (fs : list Z) (ai : bool) : limg * res (list (list Z)) :=
  match fs with
  | [] => (st, Err "ValueError")
  | f0 :: _ =>
      match std_index (f_frames (c_fmt (l_c st))) f0 ai with
      | Err k => (st, Err k)
      | Ok _ => lz_frames_loop st fs ai
      end
  end.

Definition lz_decode_raw (st : limg) (f : Z) (ai : bool) : res (list Z) :=
  let m := c_fmt (l_c st) in
  bind (std_index (f_frames m) f ai) (fun i =>
    bind (get_raw_frame true m (l_pd st) f ai) (fun raw => decode_native_c (l_c st) i raw)).

Definition lstep (st : limg) (o : lop) : limg * val :=
  let c := l_c st in
  match o with
  | LWhole => let p := lz_whole st in (fst p, vans c vz_list2 (snd p))
  | LOne f ai => let p := lz_one st f ai in (fst p, vans c vz_list (snd p))
  | LBatch fs ai => let p := lz_batch st fs ai in (fst p, vans c vz_list2 (snd p))
  | LRaw f ai => (st, vres vz_list (get_raw_frame true (c_fmt c) (l_pd st) f ai))
  | LDecodeRaw f ai => (st, vans c vz_list (lz_decode_raw st f ai))
  | LHeader c' => (LImg c' (l_pd st) (l_cache st), VNone)
  | LFrames fs ai => let p := lz_frames st fs ai in (fst p, vans64 c vz_list2 (snd p))
  end.

Fixpoint lrun_ops (st : limg) (ops : list lop) : list val :=
  match ops with
  | [] => []
  | o :: r => let p := lstep st o in snd p :: lrun_ops (fst p) r
  end.

Definition run_lazy_history (c : cfmt) (pd : list Z) (ops : list lop) : val :=
  VL (lrun_ops (LImg c pd None) ops).

(* ================================================================== *)
(* batches in every request order, through every route                 *)
(* ================================================================== *)
(* one image opened four ways - in-memory / eagerly read with nothing cached (a), the same after
   pixel_array (b), lazily read with nothing cached (x), lazily read after pixel_array (y) - and a list
   of requests (frame numbers in ANY order, with repeats, possibly with a number outside the image;
   convention); per request and per image get_stored_frames, then get_frames (transforms off); the four
   images live on from request to request *)
Fixpoint batch_order_loop (a b : img) (x y : limg) (reqs : list (list Z * bool)) : list val :=
  match reqs with
  | [] => []
  | (fs, ai) :: r =>
      let c := i_c a in
      let pa := st_batch a fs ai in let pb := st_batch b fs ai in
      let px := lz_batch x fs ai in let py := lz_batch y fs ai in
      let qa := st_frames (fst pa) fs ai in let qb := st_frames (fst pb) fs ai in
      let qx := lz_frames (fst px) fs ai in let qy := lz_frames (fst py) fs ai in
      VL [vans c vz_list2 (snd pa); vans c vz_list2 (snd pb); vans c vz_list2 (snd px); vans c vz_list2 (snd py);
          vans64 c vz_list2 (snd qa); vans64 c vz_list2 (snd qb); vans64 c vz_list2 (snd qx);
          vans64 c vz_list2 (snd qy)]
      :: batch_order_loop (fst qa) (fst qb) (fst qx) (fst qy) r
  end.
Definition run_batch_order (c : cfmt) (pd : list Z) (reqs : list (list Z * bool)) : val :=
  let a := Img c pd None in
  let x := LImg c pd None in
  VL (batch_order_loop a (fst (pixel_array a)) x (fst (lz_whole x)) reqs).

(* ================================================================== *)
(* lazily read image under GEOMETRY edits (state after the D118 fix)   *)
(* ================================================================== *)
(* io.py ImageFileReader: _read_metadata still computes self._offset_table once, from the description the
   file had when it was opened, but since the D118 fix read_frame_raw uses it for ENCAPSULATED data only.
   For native data everything follows from the CURRENT metadata (the reader's metadata IS the dataset of
   the Image, so edits of the Image are seen):
     - number_of_frames for the guard,
     - frame_offset = index * _bytes_per_frame_uncompressed, or (index * n_pixels) // 8 for BitsAllocated = 1,
     - the number of bytes read.
   (Before the fix the offset came from the table of the moment the file was opened: after Rows := 2 on 3
   lazily read frames of 4 x 2 pixels frame 2 was read from byte 8 instead of 4, and a frame number above
   the old NumberOfFrames was a bare IndexError - finding D118 of this check.)
   g_c : the description as it is now; g_pd : the PixelData value in the file (the file ends with it).
   Reads with NOTHING cached (pixel_array never called); with the cache: limg above. *)
Record gimg := GImg { g_c : cfmt; g_pd : list Z }.

(* the table _read_metadata builds for native data (no longer consulted by read_frame_raw) *)
Definition native_table (m : fmt) : list Z :=
  map (lazy_offset (f_bits m) (f_npx m)) (zrange (f_frames m)).

(* hd.imread(..., lazy_frame_retrieval=True) *)
Definition g_open (c : cfmt) (pd : list Z) : gimg := GImg c pd.

(* read_frame_raw, native branch *)
Definition read_frame_raw_cur (m : fmt) (pd : list Z) (i : Z) : res (list Z) :=
  if (i <? 0) || (i >=? f_frames m) then Err "ValueError"
  else let off := lazy_offset (f_bits m) (f_npx m) i in
       let d := pyslice off (off + lazy_nbytes (f_bits m) (f_npx m) i) pd in
       match d with [] => Err "OSError" | _ => Ok d end.

(* Image.get_raw_frame on the lazily read image *)
Definition g_raw (st : gimg) (f : Z) (ai : bool) : res (list Z) :=
  let m := c_fmt (g_c st) in
  bind (std_index (f_frames m) f ai) (fun i => read_frame_raw_cur m (g_pd st) i).

(* get_stored_frame, self._pixel_array is None: get_raw_frame + decode_frame(index = standardised index) *)
Definition g_one (st : gimg) (f : Z) (ai : bool) : res (list Z) :=
  let c := g_c st in
  bind (std_index (f_frames (c_fmt c)) f ai) (fun i =>
    bind (g_raw st f ai) (fun raw => decode_native_c c i raw)).

(* get_stored_frames: the same per requested number, in the order requested; np.stack *)
Definition g_batch (st : gimg) (fs : list Z) (ai : bool) : res (list (list Z)) :=
  match fs with
  | [] => Err "ValueError"
  | _ => sequence (map (fun f => g_one st f ai) fs)
  end.

(* get_frames with every transform switched off, nothing cached: the first requested number is
   standardised while the shared transform is built; then per number reader.read_frame_raw(frame_index)
   and the decode with index = frame_index; np.stack *)
Definition g_frames (st : gimg) (fs : list Z) (ai : bool) : res (list (list Z)) :=
  let c := g_c st in
  let n := f_frames (c_fmt c) in
  match fs with
  | [] => Err "ValueError"
  | f0 :: _ =>
      match std_index n f0 ai with
      | Err k => Err k
      | Ok _ => sequence (map (fun f =>
                  bind (std_index n f ai) (fun i =>
                    bind (read_frame_raw_cur (c_fmt c) (g_pd st) i) (fun raw =>
                      decode_native_c c i raw))) fs)
      end
  end.

(* frame_numbers=None of get_stored_frames / get_frames: range(1, n + 1), or range(0, n) with as_indices *)
Definition default_request (n : Z) (ai : bool) : list Z :=
  if ai then zrange n else map (fun k => k + 1) (zrange n).

Inductive gop :=
| GOne (f : Z) (ai : bool) | GBatch (fs : list Z) (ai : bool) | GRaw (f : Z) (ai : bool)
| GDecodeRaw (f : Z) (ai : bool)
| GHeader (c : cfmt)       (* any edit of the pixel description, Rows / Columns / NumberOfFrames / BitsAllocated included *)
| GFrames (fs : list Z) (ai : bool)     (* get_frames(fs, as_indices=ai, dtype=int64, all transforms off) *)
| GBatchAll (ai : bool)                 (* get_stored_frames(None, as_indices=ai) *)
| GFramesAll (ai : bool).               (* get_frames(None, as_indices=ai, dtype=int64, all transforms off) *)

Definition gstep (st : gimg) (o : gop) : gimg * val :=
  let c := g_c st in
  match o with
  | GOne f ai => (st, vans c vz_list (g_one st f ai))
  | GBatch fs ai => (st, vans c vz_list2 (g_batch st fs ai))
  | GRaw f ai => (st, vres vz_list (g_raw st f ai))
  | GDecodeRaw f ai => (st, vans c vz_list (g_one st f ai))
  | GHeader c' => (GImg c' (g_pd st), VNone)
  | GFrames fs ai => (st, vans64 c vz_list2 (g_frames st fs ai))
  | GBatchAll ai => (st, vans c vz_list2 (g_batch st (default_request (f_frames (c_fmt c)) ai) ai))
  | GFramesAll ai => (st, vans64 c vz_list2 (g_frames st (default_request (f_frames (c_fmt c)) ai) ai))
  end.

Fixpoint grun_ops (st : gimg) (ops : list gop) : list val :=
  match ops with
  | [] => []
  | o :: r => let p := gstep st o in snd p :: grun_ops (fst p) r
  end.

Definition run_lazy_geometry (c : cfmt) (pd : list Z) (ops : list gop) : val :=
  VL (grun_ops (g_open c pd) ops).

(* ================================================================== *)
(* lazily read ENCAPSULATED image whose NumberOfFrames is edited        *)
(* ================================================================== *)
(* for encapsulated data read_frame_raw keeps using the offset table built when the file was opened (with
   the NumberOfFrames n0 of that moment); the guard and the frame-number convention use the CURRENT
   NumberOfFrames n *)
Definition lazy_raw_enc_bytes_edited (eot : option (list Z)) (bot : list Z) (pls : list (list Z)) (n0 n f : Z)
           (ai : bool) : res (list Z) :=
  bind (offset_table eot bot (map item_of pls) n0) (fun t =>
    bind (std_index n f ai) (fun i =>
      rmap (join_span pls) (read_frame_raw_enc t (map item_of pls) n i))).

Definition run_encaps_image_edited (eot : option (list Z)) (bot : list Z) (pls : list (list Z)) (n0 n : Z)
           (idx : list Z) (ai : bool) : val :=
  match offset_table eot bot (map item_of pls) n0 with
  | Err k => VErr k
  | Ok _ => VL (map (fun f => vres vz_list (lazy_raw_enc_bytes_edited eot bot pls n0 n f ai)) idx)
  end.
