(* C19 - sub-ranges of the volume read: the default request is the whole volume; ValueError of the
   slice standardiser *)
From Coq Require Import String ZArith List Bool QArith Lia ZifyBool Permutation Sorted.
From HD Require Import Base.Val C19_Model C19_Proofs C19_Proofs_Ext C19_Proofs_Vol C19_Proofs_Vol2.
Import ListNotations.
Open Scope Z_scope.

Lemma nth_error_ext' {A} : forall (l t : list A),
  (forall k, nth_error l k = nth_error t k) -> l = t.
Proof.
  induction l as [|x l IH]; intros [|y t] H.
  - reflexivity.
  - specialize (H 0%nat). discriminate.
  - specialize (H 0%nat). discriminate.
  - pose proof (H 0%nat) as H0. cbn [nth_error] in H0. inversion H0; subst. f_equal.
    apply IH. intros k. exact (H (S k)).
Qed.

(* cropping to the whole frame changes nothing *)
Lemma crop_full {A} (d : A) R C fr : 0 <= R -> 0 < C -> length fr = Z.to_nat (R * C) ->
  crop_frame d C 0 R 0 C fr = fr.
Proof.
  intros HR HC Hlen. apply nth_error_ext'. intros k.
  destruct (Nat.lt_ge_cases k (Z.to_nat (R * C))) as [Hk|Hk].
  - set (r := Z.of_nat k / C). set (c := Z.of_nat k mod C).
    assert (Hk' : Z.of_nat k = r * C + c) by (unfold r, c; rewrite Z.mul_comm; apply Z.div_mod; lia).
    assert (Hc : 0 <= c < C) by (unfold c; apply Z.mod_pos_bound; lia).
    assert (Hr : 0 <= r < R).
    { unfold r. split; [apply Z.div_pos; lia|]. apply Z.div_lt_upper_bound; [lia|]. nia. }
    pose proof (crop_nth d C 0 R 0 C fr r c ltac:(lia) ltac:(lia)) as Hn.
    rewrite !Z.sub_0_r, !Z.add_0_l in Hn.
    replace (Z.to_nat (r * C + c)) with k in Hn by lia.
    rewrite Hn. symmetry. apply nth_error_nth'. lia.
  - assert (H1 : nth_error fr k = None) by (apply nth_error_None; lia).
    rewrite H1. apply nth_error_None. rewrite crop_length, !Z.sub_0_r.
    rewrite <- Z2Nat.inj_mul by lia. lia.
Qed.

Definition vol_all (ai : bool) : volargs :=
  {| v_ss := None; v_se := None; v_rs := None; v_re := None; v_cs := None; v_ce := None; v_ai := ai |}.

(* the request without sub-range arguments answers the whole volume: get_volume() of the earlier
   theorems is the special case of the sub-range entry point *)
Lemma volume_sub_default R C pos frames sl ai :
  0 < R -> 0 < C -> pos <> [] -> length frames = length pos ->
  (forall fr, In fr frames -> length fr = Z.to_nat (R * C)) ->
  pm_volume pos frames = Ok sl ->
  pm_volume_sub 0 (fun ws => Ok ws) R C 1 pos frames (vol_all ai) = Ok (R, C, sl).
Proof.
  intros HR HC Hpos Hlen Hfr Hv. apply pm_volume_sub_stored_ok.
  pose proof (pm_volume_ok _ _ _ Hv) as (_ & Hperm & _ & Hin).
  assert (Hl : length sl = length pos).
  { rewrite (Permutation_length Hperm), combine_length. lia. }
  assert (Hn : 0 < Z.of_nat (length sl)).
  { rewrite Hl. destruct pos; [congruence|cbn [length]; lia]. }
  exists sl, 0, (Z.of_nat (length sl)), 0, R, 0, C. cbn [vol_all v_ss v_se v_rs v_re v_cs v_ce v_ai].
  split; [apply std_axis_ok; [lia|]; repeat split; intros _; discriminate|].
  split; [apply std_axis_ok; [lia|]; repeat split; intros _; discriminate|].
  split; [exact Hv|].
  split; [apply std_slice_ok; [lia|]; repeat split; try (intros _; discriminate); cbn; lia|].
  split; [lia|]. split; [lia|]. split; [lia|]. split; [lia|]. split; [lia|].
  rewrite Z.sub_0_r, Nat2Z.id. cbn [Z.to_nat skipn]. rewrite firstn_all.
  symmetry. rewrite <- (map_id sl) at 2. apply map_ext_in. intros [q fr] HIn. cbn [fst snd]. f_equal.
  apply crop_full; [lia|lia|]. apply Hfr. apply Hin in HIn. destruct HIn as (i & _ & Hi).
  eapply nth_error_In; exact Hi.
Qed.

(* ValueError of the slice standardiser: a one-based 0, or an empty window *)
Lemma std_slice_value_error ss se n ai : 0 <= n ->
  std_slice ss se n ai = Err "ValueError" <->
  (ai = false /\ (ss = Some 0 \/ se = Some 0)) \/
  (arg_ok ai ss /\ arg_ok ai se /\
   match se with None => True | Some y => - n <= py0 ai y <= n end /\
   match se with None => n | Some y => pynorm n (py0 ai y) end
     <= pynorm n (match ss with None => 0 | Some x => py0 ai x end)).
Proof.
  intros Hn. unfold std_slice, num0, arg_ok, py0, pynorm.
  destruct ss as [x|], se as [y|], ai; cbn [bind]; repeat (progress (split_ifs; cbn [bind]));
    (split;
     [ intros H; try discriminate H; hyp_ifs; try discriminate;
       first [ left; split; [reflexivity|]; first [left; f_equal; lia | right; f_equal; lia]
             | right; repeat split; try lia; try congruence; try (intros _ H0; inversion H0; lia) ]
     | intros [[A0 [A1|A1]]|(A1 & A2 & A3 & A4)]; try reflexivity; try discriminate;
       exfalso; hyp_ifs; try discriminate; try (inversion A1; lia); try lia;
       first [ apply A1; [reflexivity | f_equal; lia]
             | apply A2; [reflexivity | f_equal; lia] ] ]).
Qed.
