(* C11 - proofs about stacks given in the order passed (sort = False) and the
   generic list lemmas used by the sorted case. *)
From Coq Require Import String ZArith List Bool QArith Qround Qreduction Lia Lqa Permutation.
From HD Require Import Base.Val C11_Model C11_Proofs.
Import ListNotations.
Open Scope Q_scope.

(* ---------- lists ------------------------------------------------------------------ *)
Lemma map_nth_seq {A} (l : list A) d : map (fun u => nth u l d) (seq 0 (length l)) = l.
Proof.
  induction l as [|x l IH]; [reflexivity|].
  cbn [length]. rewrite <- cons_seq, <- seq_shift. cbn [map nth]. rewrite map_map. cbn [nth]. now rewrite IH.
Qed.
Lemma pos_of_seq j a m : (a <= j < a + m)%nat -> pos_of j (seq a m) = (j - a)%nat.
Proof.
  revert a. induction m as [|m IH]; intros a H; [lia|]. cbn [seq pos_of].
  destruct (Nat.eqb a j) eqn:E; [apply Nat.eqb_eq in E; lia|].
  apply Nat.eqb_neq in E. rewrite IH by lia. lia.
Qed.
Lemma inverse_perm_seq m : inverse_perm (seq 0 m) = seq 0 m.
Proof.
  unfold inverse_perm. rewrite seq_length.
  transitivity (map (fun j => j) (seq 0 m)); [|apply map_id].
  apply map_ext_in. intros j Hj. apply in_seq in Hj. rewrite pos_of_seq by lia. lia.
Qed.
Lemma last_seq m d : (1 <= m)%nat -> last (seq 0 m) d = (m - 1)%nat.
Proof.
  intro H. destruct m as [|m]; [lia|]. rewrite seq_S. rewrite last_last. cbn. lia.
Qed.
Lemma hd_seq m d : (1 <= m)%nat -> hd d (seq 0 m) = 0%nat.
Proof. destruct m; [lia|reflexivity]. Qed.

Section Isort.
  Context {A : Type} (leb : A -> A -> bool).
  Lemma insert_perm x l : Permutation (insert leb x l) (x :: l).
  Proof.
    induction l as [|y l IH]; cbn [insert]; [reflexivity|].
    destruct (leb x y); [reflexivity|]. rewrite IH. apply perm_swap.
  Qed.
  Lemma isort_perm l : Permutation (isort leb l) l.
  Proof.
    induction l as [|x l IH]; cbn [isort fold_right]; [reflexivity|].
    fold (isort leb l). rewrite insert_perm. now constructor.
  Qed.
  Lemma isort_length l : length (isort leb l) = length l.
  Proof. apply Permutation_length, isort_perm. Qed.
End Isort.

(* ---------- distinct positions ------------------------------------------------------ *)
Fixpoint vdistinct (l : list vec3) : Prop :=
  match l with [] => True | x :: l' => vmem x l' = false /\ vdistinct l' end.
Lemma vnodup_distinct l : vdistinct l -> vnodup l = l.
Proof.
  induction l as [|x l IH]; [reflexivity|]. intros [H1 H2]. cbn [vnodup]. rewrite H1. now rewrite IH.
Qed.
Lemma veqb_dot nv a b : veqb a b = true -> dot nv a == dot nv b.
Proof.
  unfold veqb. rewrite !andb_true_iff. intros [[H1 H2] H3].
  apply Qeq_bool_iff in H1, H2, H3. now apply veq_intro.
Qed.
Lemma dot_vred nv p : dot nv (vred p) == dot nv p.
Proof. apply veq_intro; cbn [vred vx vy vz]; apply Qred_correct. Qed.
Lemma vmem_false_by_distance nv x l :
  Forall (fun y => ~ dot nv x == dot nv y) l -> vmem x l = false.
Proof.
  induction 1 as [|y l H _ IH]; [reflexivity|]. cbn [vmem]. rewrite IH, orb_false_r.
  destruct (veqb x y) eqn:E; [|reflexivity]. exfalso. apply H. now apply veqb_dot.
Qed.

(* ---------- arithmetic progressions of distances ------------------------------------- *)
Fixpoint is_prog (a s : Q) (l : list Q) : Prop :=
  match l with [] => True | x :: l' => x == a /\ is_prog (a + s) s l' end.

Lemma prog_hd a s l d : is_prog a s l -> (1 <= length l)%nat -> hd d l == a.
Proof. destruct l; cbn; [lia|tauto]. Qed.
Lemma prog_last a s l d : is_prog a s l -> (1 <= length l)%nat ->
  last l d == a + inject_Z (Z.of_nat (length l - 1)) * s.
Proof.
  revert a. induction l as [|x l IH]; intros a H L; [cbn in L; lia|].
  destruct l as [|y l].
  - cbn in *. destruct H as [H _]. rewrite H. ring.
  - destruct H as [_ H]. change (last (x :: y :: l) d) with (last (y :: l) d).
    rewrite (IH _ H) by (cbn; lia).
    cbn [length]. replace (S (S (length l)) - 1)%nat with (S (length l - 0))%nat by lia.
    replace (S (length l) - 1)%nat with (length l - 0)%nat by lia.
    rewrite Nat2Z.inj_succ. unfold Z.succ. rewrite inject_Z_plus. ring.
Qed.
Lemma prog_diffs a s l : is_prog a s l -> Forall (fun x => x == s) (diffs l).
Proof.
  revert a. induction l as [|x l IH]; intros a H; [constructor|].
  destruct l as [|y l]; [constructor|].
  destruct H as [Hx H]. pose proof H as [Hy _]. cbn [diffs]. constructor.
  - rewrite Hx, Hy. ring.
  - exact (IH _ H).
Qed.
Lemma prog_above a s l : is_prog a s l -> 0 < s -> Forall (fun x => a <= x) l.
Proof.
  revert a. induction l as [|x l IH]; intros a H S; [constructor|]. destruct H as [Hx H].
  constructor; [lra|]. eapply Forall_impl; [|exact (IH _ H S)]. cbn. intros; lra.
Qed.
Lemma prog_below a s l : is_prog a s l -> s < 0 -> Forall (fun x => x <= a) l.
Proof.
  revert a. induction l as [|x l IH]; intros a H S; [constructor|]. destruct H as [Hx H].
  constructor; [lra|]. eapply Forall_impl; [|exact (IH _ H S)]. cbn. intros; lra.
Qed.
Lemma prog_distinct nv a s l : is_prog a s (map (dot nv) l) -> ~ s == 0 -> vdistinct l.
Proof.
  revert a. induction l as [|x l IH]; intros a H S; [exact I|].
  cbn [map is_prog] in H. destruct H as [Hx H]. split; [|exact (IH _ H S)].
  apply (vmem_false_by_distance nv).
  destruct (Q_dec s 0) as [[Sn|Sp]|Z]; [| |contradiction].
  - pose proof (prog_below _ _ _ H Sn) as B. rewrite Forall_map in B.
    eapply Forall_impl; [|exact B]. cbn. intros y Hy E. lra.
  - pose proof (prog_above _ _ _ H Sp) as B. rewrite Forall_map in B.
    eapply Forall_impl; [|exact B]. cbn. intros y Hy E. lra.
Qed.
Lemma prog_ext a s l l' : Forall2 Qeq l l' -> is_prog a s l -> is_prog a s l'.
Proof.
  intro F. revert a. induction F as [|x y l l' E F IH]; intros a H; [exact I|].
  destruct H as [Hx H]. split; [lra|]. now apply IH.
Qed.
Lemma prog_vred nv a s ps : is_prog a s (map (dot nv) ps) -> is_prog a s (map (dot nv) (map vred ps)).
Proof.
  apply prog_ext. induction ps; cbn [map]; constructor; [symmetry; apply dot_vred|assumption].
Qed.

(* ---------- regularity test on a progression ---------------------------------------- *)
Lemma forallb_close rtol atol sp s l :
  0 <= rtol -> 0 <= atol -> sp == s -> Forall (fun x => x == s) l ->
  forallb (fun x => isclose rtol atol x sp) l = true.
Proof.
  intros Hr Ha E F. apply forallb_forall. intros x Hx.
  rewrite Forall_forall in F. apply isclose_eq; auto. rewrite (F x Hx). lra.
Qed.

Lemma Qlt_b_ext a b : a == b -> Qlt_b a 0 = Qlt_b b 0.
Proof.
  intro E. destruct (Qlt_b b 0) eqn:B.
  - apply Qlt_b_true in B. apply Qlt_b_true. lra.
  - apply Qlt_b_false in B. apply Qlt_b_false. lra.
Qed.

Lemma mean_spacing a s (m : nat) x y : (2 <= m)%nat ->
  x == a -> y == a + inject_Z (Z.of_nat (m - 1)) * s ->
  (y - x) / inject_Z (Z.of_nat (m - 1)) == s.
Proof.
  intros M Hx Hy. rewrite Hx, Hy.
  assert (N : ~ inject_Z (Z.of_nat (m - 1)) == 0).
  { intro E. assert (L : (0 < Z.of_nat (m - 1))%Z) by lia.
    rewrite Zlt_Qlt in L. change (inject_Z 0) with 0 in L. lra. }
  field. exact N.
Qed.

(* the core of get_volume_positions on planes examined in the order given *)
Lemma core_unsorted : forall uniq uidx nv rtol atol enforce a s,
  (2 <= length uniq)%nat -> is_prog a s (map (dot nv) uniq) -> ~ s == 0 ->
  0 <= rtol -> 0 <= atol ->
  is_perp nv (vsub (nthV uniq (length uniq - 1)) (nthV uniq 0)) = true ->
  exists sp, sp == Qabs_ s /\
    gvp_core uniq uidx nv rtol atol false false enforce None =
      if enforce && Qlt_b s 0 then Ok None
      else Ok (Some (sp, map (fun u => nth u (map Z.of_nat (seq 0 (length uniq))) 0%Z) uidx)).
Proof.
  intros uniq uidx nv rtol atol enforce a s M P S Hr Ha Perp.
  unfold gvp_core. cbn [negb].
  set (ds := map (dot nv) uniq) in *. set (m := length uniq) in *.
  assert (Lds : length ds = m) by (unfold ds; apply map_length).
  replace (map (nthQ ds) (seq 0 m)) with ds by (rewrite <- Lds; symmetry; apply map_nth_seq).
  set (sp := (last ds 0 - hd 0 ds) / inject_Z (Z.of_nat (m - 1))).
  assert (Esp : sp == s).
  { unfold sp. apply (mean_spacing a); [exact M| apply (prog_hd a s); [exact P|lia] |].
    rewrite <- Lds. apply prog_last; [exact P|lia]. }
  rewrite (forallb_close rtol atol sp s (diffs ds) Hr Ha Esp (prog_diffs _ _ _ P)).
  rewrite last_seq, hd_seq by lia. rewrite Perp. rewrite inverse_perm_seq.
  rewrite (Qlt_b_ext sp s Esp). cbn [andb].
  exists (Qabs_ sp). split.
  - unfold Qabs_. destruct (Qle_bool 0 sp) eqn:E1, (Qle_bool 0 s) eqn:E2; try lra; try reflexivity.
    + apply Qle_bool_iff in E1. assert (~ 0 <= s) by (intro L; apply Qle_bool_iff in L; congruence). lra.
    + apply Qle_bool_iff in E2. assert (~ 0 <= sp) by (intro L; apply Qle_bool_iff in L; congruence). lra.
  - destruct (enforce && Qlt_b s 0); reflexivity.
Qed.

(* ---------- get_volume_positions, sort = False ---------------------------------------- *)
Lemma lexuniq_length_distinct l : vdistinct l -> length (lexuniq l) = length l.
Proof. intro D. unfold lexuniq. rewrite isort_length. now rewrite vnodup_distinct. Qed.

Lemma unsorted_accept : forall ps rowc colc o nv rtol atol a s,
  o_sort o = false -> o_dups o = false -> o_missing o = false -> o_hint o = None ->
  tolerances (o_rtol o) (o_atol o) = Ok (rtol, atol) -> 0 <= rtol -> 0 <= atol ->
  normal_vector rowc colc (o_c0 o) (o_c1 o) (o_rh o) = Ok nv ->
  (2 <= length ps)%nat ->
  is_prog a s (map (dot nv) ps) -> ~ s == 0 ->
  is_perp nv (vsub (nthV (map vred ps) (length ps - 1)) (nthV (map vred ps) 0)) = true ->
  exists sp, sp == Qabs_ s /\
    get_volume_positions ps rowc colc o =
      if o_enforce o && Qlt_b s 0 then Ok None
      else Ok (Some (sp, map Z.of_nat (seq 0 (length ps)))).
Proof.
  intros ps rowc colc o nv rtol atol a s Hs Hd Hm Hh T Hr Ha N L P S Perp.
  pose proof (prog_vred _ _ _ _ P) as P'.
  pose proof (prog_distinct _ _ _ _ P' S) as D.
  assert (L' : length (map vred ps) = length ps) by apply map_length.
  destruct (core_unsorted (map vred ps) (seq 0 (length ps)) nv rtol atol (o_enforce o) a s) as [sp [Esp C]];
    try assumption; [lia | now rewrite L' |].
  exists sp. split; [exact Esp|].
  unfold get_volume_positions. rewrite Hs, Hd, Hm, Hh, T, N. cbn [negb andb orb norm_hint].
  destruct ps as [|p [|q l]]; [cbn in L; lia | cbn in L; lia |].
  set (ps := p :: q :: l) in *. cbv iota.
  rewrite (lexuniq_length_distinct _ D), L', Nat.ltb_irrefl. cbn [andb].
  rewrite L' in C.
  replace (length ps =? 1)%nat with false by (symmetry; apply Nat.eqb_neq; lia).
  rewrite C. destruct (o_enforce o && Qlt_b s 0); [reflexivity|].
  do 3 f_equal.
  pose proof (map_nth_seq (map Z.of_nat (seq 0 (length ps))) 0%Z) as E.
  rewrite map_length, seq_length in E. exact E.
Qed.

(* ---------- soundness: what an accepted stack satisfies ------------------------------- *)
Definition sort_idx (sort : bool) (ds : list Q) : list nat :=
  if sort then argsort ds else seq 0 (length ds).
Definition mean_sp (sds : list Q) (m : nat) : Q :=
  (last sds 0 - hd 0 sds) / inject_Z (Z.of_nat (m - 1)).

Lemma forallb_Forall {A} (f : A -> bool) l : forallb f l = true -> Forall (fun x => f x = true) l.
Proof. intro H. apply Forall_forall. now apply forallb_forall. Qed.

Lemma core_sound : forall uniq uidx nv rtol atol sort enforce hint sp idx,
  gvp_core uniq uidx nv rtol atol sort false enforce hint = Ok (Some (sp, idx)) ->
  let ds := map (dot nv) uniq in
  let sidx := sort_idx sort ds in
  let sds := map (nthQ ds) sidx in
  let S := mean_sp sds (length uniq) in
  Forall (fun x => Qabs_ (x - S) <= atol + rtol * Qabs_ S) (diffs sds) /\
  is_perp nv (vsub (nthV uniq (last sidx 0%nat)) (nthV uniq (hd 0%nat sidx))) = true /\
  sp = Qabs_ S /\ (enforce = true -> 0 <= S) /\
  (forall h, hint = Some h -> Qabs_ (Qabs_ S - h) <= atol + rtol * Qabs_ h) /\
  idx = map (fun u => nth u (map Z.of_nat (inverse_perm sidx)) 0%Z) uidx.
Proof.
  intros uniq uidx nv rtol atol sort enforce hint sp idx. unfold gvp_core, sort_idx, mean_sp.
  rewrite map_length. cbv zeta.
  set (ds := map (dot nv) uniq). set (sidx := if sort then argsort ds else seq 0 (length uniq)).
  set (sds := map (nthQ ds) sidx). set (S := (last sds 0 - hd 0 sds) / inject_Z (Z.of_nat (length uniq - 1))).
  destruct (match hint with Some h => isclose rtol atol (Qabs_ S) h | None => true end) eqn:HK;
    cbn [negb]; [|discriminate].
  destruct (forallb (fun x => isclose rtol atol x S) (diffs sds)) eqn:REG; cbn [andb].
  2:{ discriminate. }
  destruct (enforce && Qlt_b S 0) eqn:ENF; [discriminate|].
  destruct (is_perp nv _) eqn:PERP; [|discriminate].
  intro H. injection H as <- <-. repeat split.
  - apply forallb_Forall in REG. eapply Forall_impl; [|exact REG]. cbn. intros x Hx. now apply isclose_spec.
  - intros ->. cbn [andb] in ENF. now apply Qlt_b_false.
  - intros h ->. now apply isclose_spec.
Qed.

Lemma forallb_map' {A B} (f : A -> B) (g : B -> bool) l : forallb g (map f l) = forallb (fun x => g (f x)) l.
Proof. induction l; cbn; [reflexivity|]. now rewrite IHl. Qed.

(* allow_missing_positions: indices are the rounded multiples of the spacing, each within tolerance *)
Lemma core_sound_missing : forall uniq uidx nv rtol atol sort enforce hint sp idx,
  gvp_core uniq uidx nv rtol atol sort true enforce hint = Ok (Some (sp, idx)) ->
  let ds := map (dot nv) uniq in
  exists spacing,
    (match hint with Some h => spacing = h
                   | None => spacing = min_list (diffs (map (nthQ ds) (sort_idx sort ds))) /\ ~ Qabs_ spacing <= eq_tol end) /\
    sp = Qabs_ spacing /\
    Forall (fun d => let mu := (d - min_list ds) / spacing in
                     Qabs_ (mu - inject_Z (rne mu)) <= atol + rtol * Qabs_ (inject_Z (rne mu))) ds /\
    idx = map (fun u => nth u (map (fun d => rne ((d - min_list ds) / spacing)) ds) 0%Z) uidx.
Proof.
  intros uniq uidx nv rtol atol sort enforce hint sp idx. unfold gvp_core, sort_idx. rewrite map_length. cbv zeta.
  set (ds := map (dot nv) uniq).
  set (sidx := if sort then argsort ds else seq 0 (length uniq)).
  set (spo := match hint with Some h => Some h | None => _ end).
  destruct spo as [spacing|] eqn:SPO; [|discriminate].
  rewrite map_map, forallb_map'.
  destruct (forallb _ ds) eqn:REG; cbn [andb]; [|discriminate].
  destruct (enforce && Qlt_b spacing 0); [discriminate|].
  destruct (is_perp nv _); [|discriminate].
  intro H. injection H as <- <-. exists spacing. repeat split.
  - unfold spo in SPO. destruct hint as [h|]; [now injection SPO as ->|].
    destruct (Qle_bool (Qabs_ (min_list (diffs (map (nthQ ds) sidx)))) eq_tol) eqn:E; [discriminate|].
    injection SPO as <-. split; [reflexivity|]. intro L. apply Qle_bool_iff in L. congruence.
  - apply forallb_Forall in REG. eapply Forall_impl; [|exact REG]. cbn. intros d Hd. now apply isclose_spec.
Qed.

(* ---------- sorted case, unique positions already in increasing order ----------------- *)
Lemma isort_increasing : forall (l : list (Q * nat)),
  (forall x y l', l = x :: y :: l' -> True) ->
  (fix inc (l : list (Q * nat)) : Prop :=
     match l with x :: ((y :: _) as t) => fst x <= fst y /\ inc t | _ => True end) l ->
  isort key_leb l = l.
Proof.
  intros l _. induction l as [|x l IH]; [reflexivity|]. intro H.
  cbn [isort fold_right]. fold (isort key_leb l).
  destruct l as [|y l]; [reflexivity|]. destruct H as [Hxy H]. rewrite (IH H).
  cbn [insert]. unfold key_leb at 1. apply Qle_bool_iff in Hxy. now rewrite Hxy.
Qed.
Lemma prog_tag_increasing a s ds k : is_prog a s ds -> 0 < s ->
  (fix inc (l : list (Q * nat)) : Prop :=
     match l with x :: ((y :: _) as t) => fst x <= fst y /\ inc t | _ => True end)
    (combine ds (seq k (length ds))).
Proof.
  revert a k. induction ds as [|x ds IH]; intros a k P S; [exact I|].
  destruct ds as [|y ds]; [exact I|].
  destruct P as [Hx P]. pose proof P as [Hy _]. cbn [length seq combine]. split.
  - cbn [fst]. lra.
  - exact (IH _ (Datatypes.S k) P S).
Qed.
Lemma map_snd_combine' {A B} (l : list A) (l' : list B) : length l = length l' -> map snd (combine l l') = l'.
Proof.
  revert l'. induction l as [|x l IH]; intros [|y l'] H; cbn in *; try reflexivity; try discriminate.
  f_equal. apply IH. lia.
Qed.
Lemma argsort_increasing a s ds : is_prog a s ds -> 0 < s -> argsort ds = seq 0 (length ds).
Proof.
  intros P S. unfold argsort, tag. rewrite isort_increasing; [|trivial|now apply (prog_tag_increasing a s)].
  rewrite map_snd_combine'; [reflexivity|]. now rewrite seq_length.
Qed.
Lemma Qlt_b_pos_false s : 0 < s -> Qlt_b s 0 = false.
Proof. intro H. apply Qlt_b_false. lra. Qed.

Lemma core_sorted_increasing : forall uniq uidx nv rtol atol enforce a s,
  (2 <= length uniq)%nat -> is_prog a s (map (dot nv) uniq) -> 0 < s ->
  0 <= rtol -> 0 <= atol ->
  is_perp nv (vsub (nthV uniq (length uniq - 1)) (nthV uniq 0)) = true ->
  exists sp, sp == s /\
    gvp_core uniq uidx nv rtol atol true false enforce None =
      Ok (Some (sp, map (fun u => nth u (map Z.of_nat (seq 0 (length uniq))) 0%Z) uidx)).
Proof.
  intros uniq uidx nv rtol atol enforce a s M P S Hr Ha Perp.
  destruct (core_unsorted uniq uidx nv rtol atol enforce a s) as [sp [Esp C]]; try assumption; [lra|].
  exists sp. split; [rewrite Esp; apply Qabs_pos; lra|].
  rewrite (Qlt_b_pos_false s S), andb_false_r in C. rewrite <- C.
  unfold gvp_core. rewrite (argsort_increasing a s _ P S), map_length. reflexivity.
Qed.
