(* C11 - regular_accepted for sort = True under an arbitrary input order, from the raw positions. *)
From Coq Require Import String ZArith List Bool QArith Lia Lqa Permutation Sorted.
From HD Require Import Base.Val C11_Model C11_Proofs C11_Proofs_Stack C11_Proofs_Sort C11_Proofs_Rank.
Import ListNotations.
Open Scope Q_scope.

Lemma vmem_exists x l : vmem x l = true -> exists y, In y l /\ veqb x y = true.
Proof.
  induction l as [|y l IH]; cbn [vmem]; [discriminate|]. rewrite orb_true_iff. intros [H|H].
  - exists y. split; [now left|exact H].
  - destruct (IH H) as [z [I E]]. exists z. split; [now right|exact E].
Qed.
Lemma vmem_intro x y l : In y l -> veqb x y = true -> vmem x l = true.
Proof.
  induction l as [|z l IH]; [contradiction|]. intros [->|I] E; cbn [vmem].
  - now rewrite E.
  - rewrite (IH I E). apply orb_true_r.
Qed.
Lemma In_vnodup x l : In x (vnodup l) -> In x l.
Proof.
  induction l as [|y l IH]; [contradiction|]. cbn [vnodup]. destruct (vmem y l).
  - intro H. right. now apply IH.
  - intros [->|H]; [now left|right; now apply IH].
Qed.
Lemma In_lexuniq x l : In x (lexuniq l) -> In x l.
Proof. intro H. apply In_vnodup. eapply Permutation_in; [apply isort_perm|exact H]. Qed.

Lemma index_of_spec p l : (exists q, In q l /\ veqb p q = true) ->
  (index_of p l < length l)%nat /\ veqb p (nthV l (index_of p l)) = true.
Proof.
  induction l as [|y l IH]; intros [q [I E]]; [contradiction|]. cbn [index_of].
  destruct (veqb p y) eqn:Ey.
  - cbn. split; [lia|exact Ey].
  - destruct I as [->|I]; [congruence|]. destruct IH as [H1 H2]; [now exists q|].
    cbn [length]. split; [lia|]. exact H2.
Qed.

Section Top.
  Variables (nv : vec3) (a s : Q) (r : vec3 -> nat) (L : list vec3) (M : nat).
  Hypothesis S : 0 < s.
  Hypothesis H1 : forall p, In p L -> dot nv p == a + inject_Z (Z.of_nat (r p)) * s.
  Hypothesis H3 : forall p q, In p L -> In q L -> r p = r q -> veqb p q = true.
  Hypothesis Hcov : forall k, (k < M)%nat -> exists p, In p L /\ r p = k.
  Hypothesis Hlt : forall p, In p L -> (r p < M)%nat.

  Lemma H2 p q : In p L -> In q L -> veqb p q = true -> r p = r q.
  Proof.
    intros Ip Iq E. pose proof (veqb_dot nv _ _ E) as D. rewrite (H1 _ Ip), (H1 _ Iq) in D.
    apply Nat.le_antisymm; apply (inject_nat_le _ _ a s S); lra.
  Qed.

  Lemma nodup_ranks l : incl l L -> NoDup (map r (vnodup l)).
  Proof.
    induction l as [|x l IH]; intro I; [constructor|]. cbn [vnodup].
    assert (Il : incl l L) by (intros y Hy; apply I; now right).
    destruct (vmem x l) eqn:V; [now apply IH|]. cbn [map]. constructor; [|now apply IH].
    intro Hin. apply in_map_iff in Hin. destruct Hin as [y [Ey Iy]].
    apply In_vnodup in Iy.
    assert (veqb x y = true) by (apply H3; [apply I; now left|now apply Il|now symmetry]).
    rewrite (vmem_intro x y l Iy H) in V. discriminate.
  Qed.
  Lemma ranks_kept l : incl l L -> forall p, In p l -> In (r p) (map r (vnodup l)).
  Proof.
    induction l as [|x l IH]; intros I p Hp; [contradiction|].
    assert (Il : incl l L) by (intros y Hy; apply I; now right).
    cbn [vnodup]. destruct (vmem x l) eqn:V.
    - destruct Hp as [<-|Hp]; [|now apply IH].
      destruct (vmem_exists _ _ V) as [y [Iy Ey]].
      rewrite (H2 x y); [now apply IH|apply I; now left|now apply Il|exact Ey].
    - cbn [map]. destruct Hp as [<-|Hp]; [now left|right; now apply IH].
  Qed.

  Let uq := lexuniq L.

  Lemma uq_ranks_perm : Permutation (map r uq) (seq 0 M).
  Proof.
    assert (P : Permutation (map r uq) (map r (vnodup L))) by (apply Permutation_map, isort_perm).
    apply NoDup_Permutation.
    - eapply Permutation_NoDup; [symmetry; exact P|]. apply nodup_ranks, incl_refl.
    - apply seq_NoDup.
    - intro k. split; intro H.
      + apply in_map_iff in H. destruct H as [q [<- Iq]]. apply in_seq. apply In_lexuniq in Iq.
        specialize (Hlt _ Iq). lia.
      + apply in_seq in H. destruct (Hcov k) as [p [Ip <-]]; [lia|].
        eapply Permutation_in; [symmetry; exact P|]. apply ranks_kept; [apply incl_refl|exact Ip].
  Qed.
  Lemma uq_length : length uq = M.
  Proof. rewrite <- (map_length r uq), (Permutation_length uq_ranks_perm). apply seq_length. Qed.

  Lemma nthV_In (l : list vec3) j : (j < length l)%nat -> In (nthV l j) l.
  Proof. intro H. unfold nthV. now apply nth_In. Qed.
  Lemma nth_ranks j : (j < length uq)%nat -> nth j (map r uq) 0%nat = r (nthV uq j).
  Proof.
    intro H. unfold nthV. rewrite (nth_indep _ 0%nat (r (V3 0 0 0))) by (now rewrite map_length).
    apply map_nth.
  Qed.

  Lemma index_rank p : In p L ->
    (index_of p uq < length uq)%nat /\ r (nthV uq (index_of p uq)) = r p.
  Proof.
    intro Ip.
    assert (E : exists q, In q uq /\ veqb p q = true).
    { assert (Ir : In (r p) (map r uq)).
      { eapply Permutation_in; [symmetry; apply Permutation_map, isort_perm|].
        apply ranks_kept; [apply incl_refl|exact Ip]. }
      apply in_map_iff in Ir. destruct Ir as [q [Eq Iq]]. exists q. split; [exact Iq|].
      apply H3; [exact Ip|now apply In_lexuniq|now symmetry]. }
    destruct (index_of_spec p uq E) as [Hl Hv]. split; [exact Hl|].
    symmetry. apply H2; [exact Ip|apply In_lexuniq, nthV_In, Hl|exact Hv].
  Qed.

  Lemma top_core : forall rtol atol enforce,
    (2 <= M)%nat -> 0 <= rtol -> 0 <= atol ->
    (forall p0 p1, In p0 L -> In p1 L -> r p0 = 0%nat -> r p1 = (M - 1)%nat ->
       is_perp nv (vsub p1 p0) = true) ->
    exists sp, sp == s /\
      gvp_core uq (map (fun p => index_of p uq) L) nv rtol atol true false enforce None =
        Ok (Some (sp, map (fun p => Z.of_nat (r p)) L)).
  Proof.
    intros rtol atol enforce M2 Hr Ha Perp.
    destruct (core_sorted_any uq (map (fun p => index_of p uq) L) nv rtol atol enforce a s (map r uq))
      as [sp [Esp C]]; try assumption.
    - rewrite uq_length. exact M2.
    - apply map_length.
    - intros j Hj. rewrite nth_ranks by exact Hj. apply H1. apply In_lexuniq, nthV_In, Hj.
    - rewrite uq_length. apply uq_ranks_perm.
    - intros j0 j1 L0 L1 R0 R1. rewrite nth_ranks in R0, R1 by assumption. rewrite uq_length in R1.
      apply Perp; try assumption; apply In_lexuniq, nthV_In; assumption.
    - exists sp. split; [exact Esp|]. rewrite C. do 3 f_equal. rewrite map_map. apply map_ext_in.
      intros p Ip. destruct (index_rank p Ip) as [Hl Hrk].
      rewrite (nth_indep _ 0%Z (Z.of_nat 0)) by (now rewrite !map_length).
      rewrite (map_nth Z.of_nat). rewrite nth_ranks by exact Hl. now rewrite Hrk.
  Qed.
End Top.

(* the hypotheses describing a regular stack: every (canonicalised) position p has a rank r p in 0..M-1,
   its distance along the normal is a + r p * s, equal ranks mean equal positions, every rank occurs,
   and the vector from a rank-0 plane to a rank-(M-1) plane passes the perpendicularity test *)
Definition regular_stack (nv : vec3) (a s : Q) (r : vec3 -> nat) (M : nat) (L : list vec3) : Prop :=
  0 < s /\ (2 <= M)%nat /\
  (forall p, In p L -> dot nv p == a + inject_Z (Z.of_nat (r p)) * s) /\
  (forall p q, In p L -> In q L -> r p = r q -> veqb p q = true) /\
  (forall k, (k < M)%nat -> exists p, In p L /\ r p = k) /\
  (forall p, In p L -> (r p < M)%nat) /\
  (forall p0 p1, In p0 L -> In p1 L -> r p0 = 0%nat -> r p1 = (M - 1)%nat -> is_perp nv (vsub p1 p0) = true).

Lemma regular_stack_perm nv a s r M L L' : Permutation L L' ->
  regular_stack nv a s r M L -> regular_stack nv a s r M L'.
Proof.
  intros P [S [M2 [H1 [H3 [Hc [Hl Hp]]]]]].
  assert (I : forall p, In p L' -> In p L) by (intros p H; eapply Permutation_in; [symmetry; exact P|exact H]).
  repeat split; auto.
  intros k Hk. destruct (Hc k Hk) as [p [Ip E]]. exists p. split; [|exact E].
  eapply Permutation_in; [exact P|exact Ip].
Qed.

Lemma regular_accepted : forall ps rowc colc o nv rtol atol a s r M,
  o_sort o = true -> o_missing o = false -> o_hint o = None ->
  tolerances (o_rtol o) (o_atol o) = Ok (rtol, atol) -> 0 <= rtol -> 0 <= atol ->
  normal_vector rowc colc (o_c0 o) (o_c1 o) (o_rh o) = Ok nv ->
  regular_stack nv a s r M (map vred ps) ->
  (o_dups o = true \/ length ps = M) ->
  exists sp, sp == s /\
    get_volume_positions ps rowc colc o = Ok (Some (sp, map (fun p => Z.of_nat (r p)) (map vred ps))).
Proof.
  intros ps rowc colc o nv rtol atol a s r M Hs Hm Hh T Hr Ha N [S [M2 [H1 [H3 [Hc [Hl Hp]]]]]] D.
  destruct (top_core nv a s r (map vred ps) M S H1 H3 Hc Hl rtol atol (o_enforce o) M2 Hr Ha Hp) as [sp [Esp C]].
  pose proof (uq_length nv a s r (map vred ps) M S H1 H3 Hc Hl) as LU.
  exists sp. split; [exact Esp|].
  unfold get_volume_positions. rewrite Hs, Hm, Hh, T, N. cbn [negb andb orb norm_hint].
  destruct ps as [|x [|y l]].
  - destruct (Hc 0%nat) as [p [[] _]]. lia.
  - destruct (Hc 0%nat) as [p0 [I0 E0]]; [lia|]. destruct (Hc 1%nat) as [p1 [I1 E1]]; [lia|].
    cbn in I0, I1. destruct I0 as [<-|[]]. destruct I1 as [<-|[]]. congruence.
  - set (ps := x :: y :: l) in *. cbv iota. rewrite LU.
    replace (negb (o_dups o) && (M <? length ps)%nat) with false.
    2:{ destruct D as [D|D]; [now rewrite D|]. rewrite D, Nat.ltb_irrefl. now rewrite andb_false_r. }
    replace (M =? 1)%nat with false by (symmetry; apply Nat.eqb_neq; lia).
    exact C.
Qed.

(* order invariance for regular stacks: whatever the order in which the planes are passed, every plane
   gets the same index (its rank) and the same spacing is reported *)
Lemma regular_order_invariant : forall ps ps2 rowc colc o nv rtol atol a s r M,
  o_sort o = true -> o_missing o = false -> o_hint o = None ->
  tolerances (o_rtol o) (o_atol o) = Ok (rtol, atol) -> 0 <= rtol -> 0 <= atol ->
  normal_vector rowc colc (o_c0 o) (o_c1 o) (o_rh o) = Ok nv ->
  regular_stack nv a s r M (map vred ps) ->
  (o_dups o = true \/ length ps = M) ->
  Permutation ps ps2 ->
  exists sp sp2, sp == s /\ sp2 == s /\
    get_volume_positions ps rowc colc o = Ok (Some (sp, map (fun p => Z.of_nat (r p)) (map vred ps))) /\
    get_volume_positions ps2 rowc colc o = Ok (Some (sp2, map (fun p => Z.of_nat (r p)) (map vred ps2))).
Proof.
  intros ps ps2 rowc colc o nv rtol atol a s r M Hs Hm Hh T Hr Ha N R D P.
  destruct (regular_accepted ps rowc colc o nv rtol atol a s r M) as [sp [E1 G1]]; try assumption.
  destruct (regular_accepted ps2 rowc colc o nv rtol atol a s r M) as [sp2 [E2 G2]]; try assumption.
  - eapply regular_stack_perm; [|exact R]. now apply Permutation_map.
  - destruct D as [D|D]; [now left|right]. now rewrite <- (Permutation_length P).
  - exists sp, sp2. auto.
Qed.

(* ---- Image.get_volume_geometry / Segmentation.get_volume_geometry ------------------------------------ *)
(* the geometry is accepted exactly when get_volume_positions, called with the declarations the CALLER made
   (or the defaults of the class when not passed), accepts; slices = largest index + 1, origin = position
   of the first frame with index 0 *)
Lemma geometry_sound : forall ps rowc colc hint rtol atol seg om od g,
  multiframe_geometry ps rowc colc hint rtol atol seg om od = Ok (Some g) <->
  exists sp idx j0,
    get_volume_positions ps rowc colc (vol_opts rtol atol (eff_missing seg om) (eff_dups od) hint)
      = Ok (Some (sp, idx)) /\
    zindex 0%Z idx = Some j0 /\
    g = mkGeom (zmax_list idx + 1)%Z sp (nthV ps j0) (cross colc rowc).
Proof.
  intros. unfold multiframe_geometry.
  destruct (get_volume_positions ps rowc colc _) as [[[sp idx]|]|k].
  - destruct (zindex 0%Z idx) as [j0|] eqn:Z0.
    + split.
      * intro H. injection H as <-. exists sp, idx, j0. auto.
      * intros [sp' [idx' [j0' [E [Z1 ->]]]]]. injection E as <- <-. rewrite Z0 in Z1. injection Z1 as <-. reflexivity.
    + split; [discriminate|]. intros [sp' [idx' [j0' [E [Z1 _]]]]]. injection E as <- <-. congruence.
  - split; [discriminate|]. intros [sp' [idx' [j0' [E _]]]]. discriminate.
  - split; [destruct (String.eqb k "RuntimeError"); discriminate|]. intros [sp' [idx' [j0' [E _]]]]. discriminate.
Qed.

(* None (the stack is not a volume) exactly when get_volume_positions rejects or raises RuntimeError *)
Lemma geometry_none_iff : forall ps rowc colc hint rtol atol seg om od,
  multiframe_geometry ps rowc colc hint rtol atol seg om od = Ok None <->
  (get_volume_positions ps rowc colc (vol_opts rtol atol (eff_missing seg om) (eff_dups od) hint) = Ok None \/
   get_volume_positions ps rowc colc (vol_opts rtol atol (eff_missing seg om) (eff_dups od) hint)
     = Err "RuntimeError"%string).
Proof.
  intros. unfold multiframe_geometry.
  destruct (get_volume_positions ps rowc colc _) as [[[sp idx]|]|k].
  - destruct (zindex 0%Z idx); split; try discriminate; intros [H|H]; discriminate.
  - split; auto.
  - destruct (String.eqb k "RuntimeError") eqn:E.
    + apply String.eqb_eq in E. subst k. split; auto.
    + split; [discriminate|]. intros [H|H]; [discriminate|]. injection H as ->. rewrite String.eqb_refl in E. discriminate.
Qed.

(* duplicates declared as not allowed: a stack in which two frames share a position is never accepted,
   whatever the declaration about gaps *)
Lemma geometry_duplicates_refused : forall ps rowc colc hint rtol atol seg om od g,
  eff_dups od = false -> (2 <= length ps)%nat ->
  (length (lexuniq (map vred ps)) < length ps)%nat ->
  multiframe_geometry ps rowc colc hint rtol atol seg om od <> Ok (Some g).
Proof.
  intros ps rowc colc hint rtol atol seg om od g D L U H.
  apply geometry_sound in H. destruct H as [sp [idx [j0 [G _]]]].
  destruct (gvp_sound _ _ _ _ _ _ L G) as [h [rt [at_ [nv [_ [_ [_ [_ [Hd _]]]]]]]]].
  cbn [vol_opts o_dups] in Hd. specialize (Hd D). lia.
Qed.

Lemma zmax_fold_ge l : forall a, (a <= fold_left Z.max l a)%Z.
Proof. induction l as [|x l IH]; intro a; cbn [fold_left]; [lia|]. specialize (IH (Z.max a x)). lia. Qed.
Lemma zmax_fold_in l : forall a x, In x l -> (x <= fold_left Z.max l a)%Z.
Proof.
  induction l as [|y l IH]; intros a x []; cbn [fold_left].
  - subst y. pose proof (zmax_fold_ge l (Z.max a x)). lia.
  - now apply IH.
Qed.
Lemma zmax_fold_le l B : forall a, (a <= B)%Z -> (forall x, In x l -> (x <= B)%Z) -> (fold_left Z.max l a <= B)%Z.
Proof.
  induction l as [|y l IH]; intros a Ha Hl; cbn [fold_left]; [exact Ha|].
  apply IH; [|intros x Hx; apply Hl; now right]. specialize (Hl y (or_introl eq_refl)). lia.
Qed.

Lemma zindex_map {A} (f : A -> Z) (l : list A) d : (exists x, In x l /\ f x = 0%Z) ->
  exists j0, zindex 0%Z (map f l) = Some j0 /\ (j0 < length l)%nat /\ f (nth j0 l d) = 0%Z.
Proof.
  induction l as [|y l IH]; intros [x [I E]]; [contradiction|]. cbn [map zindex].
  destruct (Z.eqb (f y) 0) eqn:Ey.
  - exists 0%nat. apply Z.eqb_eq in Ey. cbn. repeat split; [lia|exact Ey].
  - destruct I as [->|I]; [apply Z.eqb_neq in Ey; contradiction|].
    destruct IH as [j [Zj [Lj Fj]]]; [now exists x|]. rewrite Zj. exists (S j). cbn. repeat split; [lia|exact Fj].
Qed.

(* regular_accepted for the geometry: a regular stack (ranks 0..M-1 along the normal, any frame order,
   several frames per plane iff duplicates are allowed - by declaration or by default) is accepted with
   M slices, spacing s, and the position of a rank-0 frame as origin *)
Lemma geometry_regular_accepted : forall ps rowc colc rtol atol seg om od nv rt at_ a s r M,
  eff_missing seg om = false ->
  tolerances rtol atol = Ok (rt, at_) -> 0 <= rt -> 0 <= at_ ->
  normal_vector rowc colc DirD DirR true = Ok nv ->
  regular_stack nv a s r M (map vred ps) ->
  (eff_dups od = true \/ length ps = M) ->
  exists g, multiframe_geometry ps rowc colc None rtol atol seg om od = Ok (Some g) /\
    g_nsl g = Z.of_nat M /\ g_spacing g == s /\ In (g_origin g) ps /\ r (vred (g_origin g)) = 0%nat /\
    g_normal g = cross colc rowc.
Proof.
  intros ps rowc colc rtol atol seg om od nv rt at_ a s r M Hm T Hr Ha N R D.
  destruct (regular_accepted ps rowc colc (vol_opts rtol atol (eff_missing seg om) (eff_dups od) None)
              nv rt at_ a s r M) as [sp [Esp G]]; try assumption; try reflexivity.
  destruct R as [S [M2 [H1 [H3 [Hc [Hl Hp]]]]]].
  destruct (zindex_map (fun p => Z.of_nat (r p)) (map vred ps) (vred (V3 0 0 0))) as [j0 [Z0 [L0 F0]]].
  { destruct (Hc 0%nat) as [p [Ip Ep]]; [lia|]. exists p. split; [exact Ip|]. now rewrite Ep. }
  rewrite map_length in L0. rewrite map_nth in F0.
  exists (mkGeom (zmax_list (map (fun p => Z.of_nat (r p)) (map vred ps)) + 1)%Z sp (nthV ps j0) (cross colc rowc)).
  split; [apply geometry_sound; exists sp, (map (fun p => Z.of_nat (r p)) (map vred ps)), j0; auto|].
  cbn [g_nsl g_spacing g_origin g_normal]. unfold nthV. repeat split.
  - unfold zmax_list.
    assert (U : (fold_left Z.max (map (fun p => Z.of_nat (r p)) (map vred ps)) 0 <= Z.of_nat M - 1)%Z).
    { apply zmax_fold_le; [lia|]. intros x Hx. apply in_map_iff in Hx. destruct Hx as [p [<- Ip]].
      specialize (Hl p Ip). lia. }
    assert (Lo : (Z.of_nat M - 1 <= fold_left Z.max (map (fun p => Z.of_nat (r p)) (map vred ps)) 0)%Z).
    { apply zmax_fold_in. destruct (Hc (M - 1)%nat) as [p [Ip Ep]]; [lia|]. apply in_map_iff. exists p.
      split; [rewrite Ep; lia|exact Ip]. }
    lia.
  - exact Esp.
  - apply nth_In. exact L0.
  - cbv beta in F0. lia.
Qed.

(* order_invariant for the geometry of regular stacks: frames in any order give the same number of slices,
   the same spacing, the same slice axis and the same (rank-0) origin *)
Lemma geometry_order_invariant : forall ps ps2 rowc colc rtol atol seg om od nv rt at_ a s r M,
  eff_missing seg om = false ->
  tolerances rtol atol = Ok (rt, at_) -> 0 <= rt -> 0 <= at_ ->
  normal_vector rowc colc DirD DirR true = Ok nv ->
  regular_stack nv a s r M (map vred ps) ->
  (eff_dups od = true \/ length ps = M) ->
  Permutation ps ps2 ->
  exists g g2,
    multiframe_geometry ps rowc colc None rtol atol seg om od = Ok (Some g) /\
    multiframe_geometry ps2 rowc colc None rtol atol seg om od = Ok (Some g2) /\
    g_nsl g = g_nsl g2 /\ g_spacing g == g_spacing g2 /\
    veqb (vred (g_origin g)) (vred (g_origin g2)) = true /\ g_normal g = g_normal g2.
Proof.
  intros ps ps2 rowc colc rtol atol seg om od nv rt at_ a s r M Hm T Hr Ha N R D P.
  assert (R2 : regular_stack nv a s r M (map vred ps2)) by (eapply regular_stack_perm; [|exact R]; now apply Permutation_map).
  destruct (geometry_regular_accepted ps rowc colc rtol atol seg om od nv rt at_ a s r M)
    as [g [G [Gn [Gs [Gi [Gr Gv]]]]]]; try assumption.
  destruct (geometry_regular_accepted ps2 rowc colc rtol atol seg om od nv rt at_ a s r M)
    as [g2 [G2 [Gn2 [Gs2 [Gi2 [Gr2 Gv2]]]]]]; try assumption.
  { destruct D as [D|D]; [now left|right]. now rewrite <- (Permutation_length P). }
  exists g, g2. repeat split; try assumption.
  - congruence.
  - rewrite Gs, Gs2. reflexivity.
  - destruct R as [_ [_ [_ [H3 _]]]]. apply H3.
    + apply in_map, Gi.
    + apply in_map. eapply Permutation_in; [symmetry; exact P|exact Gi2].
    + congruence.
  - congruence.
Qed.
