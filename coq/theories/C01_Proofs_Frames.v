(* C01 - proofs, part 2: every stored frame decodes to itself (1-, 8- and
   16-bit native PixelData; eager and lazy byte ranges). *)
From Coq Require Import String ZArith List Bool Lia ZifyBool Arith.
From HD Require Import Base.Val Base.ListZ Base.BitWindow C01_Model C01_Proofs.
Import ListNotations.
Open Scope Z_scope.
Ltac Zify.zify_post_hook ::= Z.to_euclidean_division_equations.

Lemma nth_map_default {A B} : forall (g : A -> B) (l : list A) i d d',
  (i < length l)%nat -> nth i (map g l) d' = g (nth i l d).
Proof.
  intros g l i d d' H. rewrite (nth_indep _ d' (g d)) by (now rewrite map_length).
  apply map_nth.
Qed.

Lemma even_pad_app : forall b, exists pad, even_pad b = b ++ pad.
Proof.
  intros b. unfold even_pad. destruct (Z.odd (zlen b)).
  - now exists [48].
  - exists []. now rewrite app_nil_r.
Qed.

Lemma bit_pixel_roundtrip : forall f, Forall (fun v => v = 0 \/ v = 1) f ->
  map pixel_of_bit (map bit_of_pixel f) = f.
Proof.
  induction f as [|v f IH]; intros H; [reflexivity|].
  inversion H as [|? ? Hv Hf]; subst. cbn [map]. rewrite IH by exact Hf. f_equal.
  destruct Hv as [-> | ->]; reflexivity.
Qed.

(* ------------------------------------------------------------------ *)
(* 1 bit                                                                *)
(* ------------------------------------------------------------------ *)
Lemma decode_bits1 : forall n (fs : list (list Z)) i pad a b,
  1 <= n ->
  (forall f, In f fs -> zlen f = n /\ Forall (fun v => v = 0 \/ v = 1) f) ->
  0 <= i < zlen fs ->
  raw_range 1 n i = (a, b) ->
  decode_native 1 n i (slice a b (bin_pixel_data n (map (map bit_of_pixel) fs) ++ pad))
  = nth (Z.to_nat i) fs [].
Proof.
  intros n fs i pad a b Hn Hfs Hi Hr.
  assert (Hlen : forall f, In f (map (map bit_of_pixel) fs) -> zlen f = n).
  { intros f Hf. apply in_map_iff in Hf as (g & <- & Hg). unfold zlen. rewrite map_length.
    apply (Hfs g Hg). }
  rewrite pack_loop_is_global_pack by assumption.
  unfold decode_native. change (1 =? 1) with true. cbn match.
  pose proof (raw_frame_unpack n (map (map bit_of_pixel) fs) i pad Hn Hlen) as H.
  unfold zlen in H. rewrite map_length in H. specialize (H Hi). cbn zeta in H.
  rewrite Hr in H. rewrite H.
  rewrite (nth_map_default (map bit_of_pixel) fs (Z.to_nat i) []) by (unfold zlen in Hi; lia).
  apply bit_pixel_roundtrip. apply Hfs. apply nth_In. unfold zlen in Hi. lia.
Qed.

(* ------------------------------------------------------------------ *)
(* 8 and 16 bits                                                        *)
(* ------------------------------------------------------------------ *)
Lemma map_u8_id : forall f, Forall (fun v => 0 <= v < 256) f -> map u8 f = f.
Proof.
  induction f as [|v f IH]; intros H; [reflexivity|].
  inversion H; subst. cbn [map]. rewrite IH by assumption. f_equal. unfold u8. lia.
Qed.

Lemma slice_concat_frame {A} : forall (chunks : list (list A)) (m i : Z) pad,
  0 <= m -> (forall f, In f chunks -> zlen f = m) -> 0 <= i < zlen chunks ->
  slice (i * m) (i * m + m) (concat chunks ++ pad) = nth (Z.to_nat i) chunks [].
Proof.
  intros chunks m i pad Hm Hlen Hi. unfold slice.
  replace (i * m + m - i * m) with m by ring.
  rewrite Z2Nat.inj_mul by lia.
  apply concat_frame.
  - intros f Hf. specialize (Hlen f Hf). unfold zlen in Hlen. lia.
  - unfold zlen in Hi. lia.
Qed.

Lemma decode_bits8 : forall n (fs : list (list Z)) i pad a b,
  1 <= n ->
  (forall f, In f fs -> zlen f = n /\ Forall (fun v => 0 <= v < 256) f) ->
  0 <= i < zlen fs ->
  raw_range 8 n i = (a, b) ->
  decode_native 8 n i (slice a b (flat_map (map u8) fs ++ pad)) = nth (Z.to_nat i) fs [].
Proof.
  intros n fs i pad a b Hn Hfs Hi Hr.
  unfold raw_range in Hr. change (8 =? 1) with false in Hr. cbn [andb] in Hr.
  replace (8 * n / 8) with n in Hr by lia.
  assert (Ea : a = i * n) by congruence. assert (Eb : b = i * n + n) by congruence. subst a b. clear Hr.
  assert (E : flat_map (map u8) fs = concat fs).
  { rewrite flat_map_concat_map. f_equal.
    rewrite <- (map_id fs) at 2. apply map_ext_in. intros f Hf. apply map_u8_id. now apply Hfs. }
  rewrite E. rewrite slice_concat_frame; [|lia|intros f Hf; now apply Hfs|exact Hi].
  unfold decode_native. change (8 =? 1) with false. change (8 =? 8) with true. cbn match.
  apply firstn_all2.
  assert (Hin : In (nth (Z.to_nat i) fs []) fs) by (apply nth_In; unfold zlen in Hi; lia).
  destruct (Hfs _ Hin) as (Hl & _). unfold zlen in Hl. lia.
Qed.

Lemma le16_length : forall f, length (flat_map le16 f) = (2 * length f)%nat.
Proof. induction f as [|v f IH]; [reflexivity|]. cbn [flat_map le16 app length]. lia. Qed.

Lemma un16_le16 : forall f, Forall (fun v => 0 <= v < 65536) f -> un16 (flat_map le16 f) = f.
Proof.
  induction f as [|v f IH]; intros H; [reflexivity|].
  inversion H as [|? ? Hv Hf]; subst. cbn [flat_map le16 app un16]. rewrite IH by assumption. f_equal.
  cbv beta in Hv. assert (Hq : 0 <= v / 256 < 256) by (clear - Hv; lia). rewrite (Z.mod_small (v / 256)) by exact Hq. lia.
Qed.

Lemma decode_bits16 : forall n (fs : list (list Z)) i pad a b,
  1 <= n ->
  (forall f, In f fs -> zlen f = n /\ Forall (fun v => 0 <= v < 65536) f) ->
  0 <= i < zlen fs ->
  raw_range 16 n i = (a, b) ->
  decode_native 16 n i (slice a b (flat_map (fun f => flat_map le16 f) fs ++ pad))
  = nth (Z.to_nat i) fs [].
Proof.
  intros n fs i pad a b Hn Hfs Hi Hr.
  unfold raw_range in Hr. change (16 =? 1) with false in Hr. cbn [andb] in Hr.
  replace (16 * n / 8) with (2 * n) in Hr by lia.
  assert (Ea : a = i * (2 * n)) by congruence. assert (Eb : b = i * (2 * n) + 2 * n) by congruence.
  subst a b. clear Hr.
  rewrite flat_map_concat_map.
  rewrite slice_concat_frame; [|lia| |unfold zlen in *; rewrite map_length; exact Hi].
  - rewrite (nth_map_default (flat_map le16) fs (Z.to_nat i) []) by (unfold zlen in Hi; lia).
    unfold decode_native. change (16 =? 1) with false. change (16 =? 8) with false. cbn match.
    assert (Hin : In (nth (Z.to_nat i) fs []) fs) by (apply nth_In; unfold zlen in Hi; lia).
    destruct (Hfs _ Hin) as (Hl & Hv). rewrite un16_le16 by exact Hv.
    apply firstn_all2. unfold zlen in Hl. lia.
  - intros f Hf. apply in_map_iff in Hf as (g & <- & Hg). unfold zlen. rewrite le16_length.
    destruct (Hfs g Hg) as (Hl & _). unfold zlen in Hl. lia.
Qed.

(* ------------------------------------------------------------------ *)
(* the stored object: frame i reads back as frame i, eagerly and lazily *)
(* ------------------------------------------------------------------ *)
Definition frame_ok (c : cfg) (px : list Z) : Prop :=
  zlen px = npix c /\
  match bits_alloc c with
  | 1 => Forall (fun v => v = 0 \/ v = 1) px
  | 8 => Forall (fun v => 0 <= v < 256) px
  | _ => Forall (fun v => 0 <= v < 65536) px
  end.

Lemma bits_alloc_cases : forall c, bits_alloc c = 1 \/ bits_alloc c = 8 \/ bits_alloc c = 16.
Proof.
  intros c. unfold bits_alloc. destruct (ty c); auto. destruct (maxl (segs c) <? 256); auto.
Qed.

Lemma raw_slice_eq_lazy : forall bits n i (bytes : list Z),
  (bits = 1 \/ bits = 8 \/ bits = 16) -> 1 <= n -> 0 <= i ->
  (let '(o, l) := lazy_range bits n i in slice o (o + l) bytes) =
  (let '(a, b) := raw_range bits n i in slice a b bytes).
Proof.
  intros bits n i bytes Hb Hn Hi.
  pose proof (lazy_range_is_raw_range bits n i Hb Hn Hi) as H.
  destruct (raw_range bits n i) as [a b]. destruct (lazy_range bits n i) as [o l].
  destruct H as (-> & <-). reflexivity.
Qed.

(* T5 *)
Theorem stored_frame_correct : forall c (fs : list frame) meta dec lazy i,
  native c = true -> 1 <= npix c ->
  (forall f, In f fs -> frame_ok c (f_pix f)) ->
  0 <= i < zlen fs ->
  stored_frame lazy (Stored c meta (pixel_data c fs) dec) i
  = f_pix (nth (Z.to_nat i) fs (Frame 0 0 [])).
Proof.
  intros c fs meta dec lazy i Hnat Hn Hok Hi.
  unfold stored_frame. cbn [s_cfg s_bytes]. rewrite Hnat.
  assert (Hraw : (if lazy
                  then let '(o, l) := lazy_range (bits_alloc c) (npix c) i in slice o (o + l) (pixel_data c fs)
                  else let '(a, b) := raw_range (bits_alloc c) (npix c) i in slice a b (pixel_data c fs))
                 = (let '(a, b) := raw_range (bits_alloc c) (npix c) i in slice a b (pixel_data c fs))).
  { destruct lazy; [|reflexivity]. apply raw_slice_eq_lazy; [apply bits_alloc_cases|lia|lia]. }
  rewrite Hraw. clear Hraw.
  destruct (raw_range (bits_alloc c) (npix c) i) as [a b] eqn:Hr.
  unfold pixel_data.
  assert (Hi' : 0 <= i < zlen (map f_pix fs)) by (unfold zlen in *; now rewrite map_length).
  assert (Hnth : nth (Z.to_nat i) (map f_pix fs) [] = f_pix (nth (Z.to_nat i) fs (Frame 0 0 []))).
  { apply nth_map_default. unfold zlen in Hi. lia. }
  rewrite <- Hnth.
  destruct (bits_alloc_cases c) as [Hb | [Hb | Hb]]; rewrite Hb in *; cbn match.
  - destruct (even_pad_app (bin_pixel_data (npix c) (map (fun f => map bit_of_pixel (f_pix f)) fs)))
      as (pad & ->).
    rewrite <- (map_map f_pix (map bit_of_pixel)).
    apply decode_bits1; auto.
    intros f Hf. apply in_map_iff in Hf as (g & <- & Hg).
    specialize (Hok g Hg). unfold frame_ok in Hok. rewrite Hb in Hok. exact Hok.
  - destruct (even_pad_app (flat_map (fun f => map u8 (f_pix f)) fs)) as (pad & ->).
    replace (flat_map (fun f => map u8 (f_pix f)) fs) with (flat_map (map u8) (map f_pix fs))
      by (rewrite !flat_map_concat_map, map_map; reflexivity).
    apply decode_bits8; auto.
    intros f Hf. apply in_map_iff in Hf as (g & <- & Hg).
    specialize (Hok g Hg). unfold frame_ok in Hok. rewrite Hb in Hok. exact Hok.
  - destruct (even_pad_app (flat_map (fun f => flat_map le16 (f_pix f)) fs)) as (pad & ->).
    replace (flat_map (fun f => flat_map le16 (f_pix f)) fs)
      with (flat_map (fun f => flat_map le16 f) (map f_pix fs))
      by (rewrite !flat_map_concat_map, map_map; reflexivity).
    apply decode_bits16; auto.
    intros f Hf. apply in_map_iff in Hf as (g & <- & Hg).
    specialize (Hok g Hg). unfold frame_ok in Hok. rewrite Hb in Hok. exact Hok.
Qed.

(* encapsulated syntaxes: the decoded frame list is the codec premise K(ts) *)
Lemma stored_frame_encaps : forall c meta bytes dec lazy i,
  native c = false -> stored_frame lazy (Stored c meta bytes dec) i = nthz i dec [].
Proof. intros. unfold stored_frame. cbn [s_cfg]. now rewrite H. Qed.
