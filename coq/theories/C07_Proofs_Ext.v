(* C07 - further theorems: bit-packed multi-sample frames at any index, the
   exact characterisation of the native round trip (no range precondition),
   and the composite statement over all lossless transfer syntaxes. *)
From Coq Require Import String ZArith List Bool Lia ZifyBool.
From HD Require Import Base.Val Base.BitWindow C07_Model C07_Proofs C07_Proofs_RLE.
Import ListNotations.
Open Scope Z_scope.
Ltac Zify.zify_post_hook ::= Z.to_euclidean_division_equations.

(* ------------------- frame [index] of a bit-packed stream, any sample count *)
Definition bits_shape (rows cols samples : Z) : list Z :=
  if 1 <? samples then [rows; cols; samples] else [rows; cols].

Theorem decode_index_window_samples : forall rows cols samples frames i,
  1 <= rows -> 1 <= cols -> 1 <= samples ->
  (forall f, In f frames -> Z.of_nat (length f) = rows * cols * samples /\ bits01 f) ->
  (i < length frames)%nat ->
  decode_bits rows cols samples (Z.of_nat i)
    (frame_bytes (rows * cols * samples) (Z.of_nat i) (pack_bits_nopad (concat frames)))
  = Ok (DArr (bits_shape rows cols samples) (nth i frames [])).
Proof.
  intros rows cols samples frames i Hr Hc Hs Hf Hi.
  set (N := Z.to_nat (rows * cols * samples)).
  assert (HN : Z.of_nat N = rows * cols * samples) by (subst N; nia).
  assert (Hlen : forall f, In f frames -> length f = N) by (intros f Hin; destruct (Hf f Hin); lia).
  assert (Hb : bits01 (concat frames)) by (apply bits01_concat; intros f Hin; now destruct (Hf f Hin)).
  destruct (unpack_pack_fuel (length (concat frames)) (concat frames) (le_n _) Hb) as [z Hz].
  unfold decode_bits, frame_bytes, pack_bits_nopad, bits_shape. cbv zeta. rewrite <- HN.
  set (Sb := pack_fuel (length (concat frames)) (concat frames)) in *.
  set (P := (i * N)%nat).
  assert (HP : Z.of_nat i * Z.of_nat N = Z.of_nat P) by (subst P; lia).
  replace ((Z.of_nat i + 1) * Z.of_nat N) with (Z.of_nat P + Z.of_nat N) by lia.
  rewrite HP.
  set (a := (P / 8)%nat). set (b := ((P + N + 7) / 8)%nat).
  assert (Ha_Z : Z.of_nat a = Z.of_nat P / 8) by (subst a; apply Nat2Z.inj_div).
  assert (Hb_Z : Z.of_nat b = (Z.of_nat P + Z.of_nat N + 7) / 8).
  { subst b. rewrite Nat2Z.inj_div. f_equal. lia. }
  clearbody a b.
  replace (Z.to_nat (Z.of_nat P / 8)) with a by lia.
  replace (Z.to_nat ((Z.of_nat P + Z.of_nat N + 7) / 8 - Z.of_nat P / 8)) with (b - a)%nat by lia.
  rewrite Nat2Z.id.
  replace (Z.to_nat (Z.of_nat P mod 8)) with (P - 8 * a)%nat by lia.
  unfold unpack_bits.
  rewrite (flat_map_firstn_const _ _ bits_of_byte 8%nat bits_of_byte_length).
  rewrite (flat_map_skipn_const _ _ bits_of_byte 8%nat bits_of_byte_length).
  fold (unpack_bits Sb). rewrite Hz.
  assert (Ha : (a * 8 <= P)%nat) by lia.
  assert (Hb' : (P + N <= b * 8)%nat) by lia.
  pose proof (BitWindow.window_inner Z (concat frames ++ repeat 0 z) (a * 8) (b * 8) P N) as W.
  unfold BitWindow.window in W.
  replace ((b - a) * 8)%nat with (b * 8 - a * 8)%nat by lia.
  replace (P - 8 * a)%nat with (P - a * 8)%nat by lia.
  rewrite W by lia.
  subst P. rewrite (BitWindow.concat_frame Z frames N i (repeat 0 z) Hlen Hi).
  assert (Hnth : length (nth i frames []) = N) by (apply Hlen, nth_In, Hi).
  rewrite Hnth. destruct (1 <? samples) eqn:E1.
  - rewrite Z.eqb_refl. reflexivity.
  - replace samples with 1 in HN by lia. replace (Z.of_nat N =? rows * cols) with true by lia. reflexivity.
Qed.

(* ------------------------- native word frames: what decode (encode f) IS *)
(* the value a sample is read back as: the array's word cut to Bits Allocated,
   then pydicom's unused-bit correction *)
Definition stored_view (p : params) (v : Z) : Z :=
  let u := v mod 2 ^ p_balloc p in
  if p_pixrep p =? 1 then to_signed (p_bstored p) u else u mod 2 ^ p_bstored p.

Theorem native_words_decode_encode : forall p f bs,
  native_ts p ->
  encode_frame default_tables p f = Ok bs ->
  Z.of_nat (length f) = npix p ->
  p_dsize p <= 8 -> p_balloc p <> 1 ->
  (spp p = 3 -> p_pi p <> Some YBR_FULL) ->
  decode_native p 0 bs = Ok (DArr (out_shape p) (map (stored_view p) f)).
Proof.
  intros p f bs Hn He Hlen Hds B G51.
  apply encode_frame_Ok in He. destruct He as [Hc ->].
  destruct (check_None_native p _ _ Hn Hc) as (Hcc & Hcn & Hbit).
  destruct (check_common_None _ _ Hcc) as (Hbs & Hpr & Hpi & Hpl).
  destruct (check_native_None _ Hcn) as (Hspp & Hpl3 & Hn8 & Hsz & Hm1 & Hm3).
  unfold decode_native, encode_native. replace (p_balloc p =? 1) with false by lia.
  specialize (Hsz B). assert (Hd1 : 1 <= p_dsize p) by lia.
  unfold decode_words. cbv zeta.
  replace (negb ((1 <=? p_balloc p) && (p_balloc p <=? 64))
           || negb (p_balloc p =? 1) && negb (p_balloc p mod 8 =? 0)) with false by lia.
  replace (negb ((1 <=? p_bstored p) && (p_bstored p <=? p_balloc p))) with false by lia.
  replace (negb ((spp p =? 1) || (spp p =? 3))) with false by lia.
  replace (p_balloc p / 8) with (p_dsize p) by lia.
  set (k := Z.to_nat (p_dsize p)).
  assert (Hk : Z.of_nat k = p_dsize p) by (subst k; lia).
  assert (Hact : Z.of_nat (length (flat_map (le_bytes k) f)) = npix p * p_dsize p).
  { rewrite length_flat_le_bytes. nia. }
  rewrite Hact.
  replace ((npix p * p_dsize p <? npix p * p_dsize p + (npix p * p_dsize p) mod 2)
           && negb (npix p * p_dsize p =? npix p * p_dsize p)) with false by lia.
  replace ((npix p * p_dsize p + (npix p * p_dsize p) mod 2 <? npix p * p_dsize p)
           && (1 <? npix p * p_dsize p / (npix p * p_dsize p))) with false by lia.
  cbn [Z.ltb Z.compare]. rewrite Z.mul_1_r.
  replace (Z.to_nat (npix p * p_dsize p)) with (length (flat_map (le_bytes k) f)) by lia.
  rewrite firstn_all. rewrite words_flat by lia. rewrite map_map.
  assert (Hy : (spp p =? 3) && pi_is p YBR_FULL = false).
  { destruct (spp p =? 3) eqn:S3; [|reflexivity]. cbn. unfold pi_is.
    specialize (G51 ltac:(lia)). destruct (p_pi p) as [x|]; [|reflexivity].
    destruct x; try reflexivity. now elim G51. }
  rewrite Hy. unfold out_shape.
  assert (Hmap : map (fun x => if p_pixrep p =? 1 then to_signed (p_bstored p) (x mod 256 ^ Z.of_nat k)
                               else (x mod 256 ^ Z.of_nat k) mod 2 ^ p_bstored p) f
                 = map (stored_view p) f).
  { apply map_ext. intros v. unfold stored_view. cbv zeta. rewrite pow256.
    replace (8 * Z.of_nat k) with (p_balloc p) by lia. reflexivity. }
  rewrite Hmap. destruct (spp p =? 1); reflexivity.
Qed.

Lemma to_signed_range : forall w x, 1 <= w -> - 2 ^ (w - 1) <= to_signed w x < 2 ^ (w - 1).
Proof.
  intros w x Hw. unfold to_signed. cbv zeta.
  assert (Hp : 2 ^ w = 2 * 2 ^ (w - 1)).
  { replace w with (Z.succ (w - 1)) at 1 by lia. rewrite Z.pow_succ_r by lia. reflexivity. }
  assert (Hpos : 0 < 2 ^ (w - 1)) by (apply Z.pow_pos_nonneg; lia).
  pose proof (Z.mod_pos_bound x (2 ^ w) ltac:(lia)) as Hm.
  destruct (x mod 2 ^ w <? 2 ^ (w - 1)) eqn:E; lia.
Qed.

(* a sample is read back unchanged exactly when it lies in the Bits Stored range *)
Lemma stored_view_fix : forall p v, 1 <= p_bstored p <= p_balloc p ->
  (stored_view p v = v <->
   if p_pixrep p =? 1 then - 2 ^ (p_bstored p - 1) <= v < 2 ^ (p_bstored p - 1)
   else 0 <= v < 2 ^ p_bstored p).
Proof.
  intros p v Hb. unfold stored_view. cbv zeta. destruct (p_pixrep p =? 1); split; intros H.
  - rewrite <- H. apply to_signed_range. lia.
  - apply signed_fit; lia.
  - rewrite <- H. apply Z.mod_pos_bound. apply Z.pow_pos_nonneg; lia.
  - apply unsigned_fit; lia.
Qed.

Lemma map_fix_Forall : forall (g : Z -> Z) l, map g l = l -> Forall (fun v => g v = v) l.
Proof.
  induction l as [|a l IH]; intros H; [constructor|]. cbn [map] in H.
  injection H as H1 H2. constructor; [exact H1|]. apply IH. exact H2.
Qed.

(* the round trip of an accepted word-encoded frame succeeds EXACTLY when the
   content lies in the Bits Stored range: [values_fit] is necessary, not only
   sufficient (the encoder does not check it, see claims note) *)
Theorem native_roundtrip_iff : forall p f bs,
  native_ts p ->
  encode_frame default_tables p f = Ok bs ->
  Z.of_nat (length f) = npix p ->
  p_dsize p <= 8 -> p_balloc p <> 1 ->
  (spp p = 3 -> p_pi p <> Some YBR_FULL) ->
  (decode_native p 0 bs = Ok (DArr (out_shape p) f) <-> values_fit p f).
Proof.
  intros p f bs Hn He Hlen Hds B G51.
  rewrite (native_words_decode_encode p f bs Hn He Hlen Hds B G51).
  apply encode_frame_Ok in He. destruct He as [Hc _].
  destruct (check_None_native p _ _ Hn Hc) as (Hcc & _ & _).
  destruct (check_common_None _ _ Hcc) as (Hbs & _).
  unfold values_fit. split.
  - intros H. assert (Hm : map (stored_view p) f = f) by congruence.
    apply map_fix_Forall in Hm. rewrite Forall_forall in *. intros v Hv.
    apply (stored_view_fix p v Hbs). now apply Hm.
  - intros H. do 2 f_equal. apply map_id_on. rewrite Forall_forall in *. intros v Hv.
    apply (stored_view_fix p v Hbs). now apply H.
Qed.

(* ------------------------------ the property sentence, all lossless syntaxes *)
Definition lossless_ts (p : params) : Prop :=
  p_ts p = TImplicit \/ p_ts p = TExplicit \/ p_ts p = TRLE \/ p_ts p = TJLS \/ p_ts p = TJ2KL.

Lemma open_gap_guard : forall p, open_gap p = false ->
  (p_ts p = TImplicit \/ p_ts p = TExplicit \/ p_ts p = TRLE) ->
  spp p = 3 -> p_pi p <> Some YBR_FULL.
Proof.
  intros p Hg Hts S3 Hpi. unfold open_gap, pi_is in Hg. rewrite Hpi, S3 in Hg.
  destruct Hts as [H|[H|H]]; rewrite H in Hg; discriminate Hg.
Qed.

Section Lossless.
  Variable codec_encode : params -> list Z -> option (list Z).
  Variable codec_decode : params -> list Z -> res decoded.
  (* the only premise left: JPEG-LS (NEAR = 0) and JPEG 2000 Lossless codecs *)
  Hypothesis codec_lossless : forall p f bs,
    p_ts p = TJLS \/ p_ts p = TJ2KL ->
    accepts default_tables p (list_min f) (list_max f) = true ->
    Z.of_nat (length f) = npix p -> values_fit p f ->
    codec_encode p f = Some bs -> codec_decode p bs = Ok (DArr (out_shape p) f).

  Theorem lossless_roundtrip : forall p f bs,
    lossless_ts p ->
    encode_any codec_encode default_tables p f = Ok bs ->
    open_gap p = false ->
    Z.of_nat (length f) = npix p -> values_fit p f -> p_dsize p <= 8 ->
    decode_any codec_decode default_tables p bs = Ok (DArr (out_shape p) f).
  Proof.
    intros p f bs Hts He Hgap Hlen Hfit Hds. unfold encode_any, decode_any in *.
    destruct Hts as [Hts|[Hts|[Hts|Hts]]].
    - assert (Hn : native_ts p) by (now left).
      rewrite (proj2 (is_native_default p) Hn) in *.
      apply (native_roundtrip_partial p f bs Hn He Hlen Hds Hfit).
      intros S3 _. apply open_gap_guard; auto.
    - assert (Hn : native_ts p) by (now right).
      rewrite (proj2 (is_native_default p) Hn) in *.
      apply (native_roundtrip_partial p f bs Hn He Hlen Hds Hfit).
      intros S3 _. apply open_gap_guard; auto.
    - assert (Hnn : is_native default_tables p = false) by (unfold is_native; rewrite Hts; reflexivity).
      rewrite Hnn in *. rewrite Hts in *. change (ts_eqb TRLE TRLE) with true in *. cbv iota in *.
      now apply rle_roundtrip.
    - assert (Hnn : is_native default_tables p = false)
        by (unfold is_native; destruct Hts as [-> | ->]; reflexivity).
      assert (Hnr : ts_eqb (p_ts p) TRLE = false) by (destruct Hts as [-> | ->]; reflexivity).
      rewrite Hnn, Hnr in *. unfold encode_encaps in He.
      destruct (check default_tables p (list_min f) (list_max f)) as [e|] eqn:Hc; [discriminate|].
      destruct (codec_encode p f) as [bs'|] eqn:Hce; [|discriminate]. inversion He; subst bs'.
      assert (Hcc : check_common default_tables p = None).
      { unfold check, check_cascade, check_hd in Hc. destruct (check_common default_tables p); [discriminate|reflexivity]. }
      destruct (check_common_None _ _ Hcc) as (_ & _ & _ & Hpl).
      unfold decode_encaps.
      replace ((1 <? spp p) && is_none (p_planar p)) with false.
      + apply codec_lossless; auto. unfold accepts. now rewrite Hc.
      + unfold spp. destruct (p_ndim3 p); [|reflexivity].
        destruct (Hpl eq_refl) as [-> | ->]; cbn; now rewrite andb_false_r.
  Qed.

  (* ... and whatever is refused yields no bytes, for every syntax *)
  Theorem refusal_any : forall p f e,
    check default_tables p (list_min f) (list_max f) = Some e ->
    encode_any codec_encode default_tables p f = Err e.
  Proof.
    intros p f e H. unfold encode_any, encode_frame, encode_rle, encode_encaps. rewrite H.
    destruct (is_native default_tables p); [reflexivity|]. destruct (ts_eqb (p_ts p) TRLE); reflexivity.
  Qed.
End Lossless.
