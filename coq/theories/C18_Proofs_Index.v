(* C18 - proofs, part 3: _get_coordinate_index selects exactly the stored
   coordinates of the requested annotation. *)
From Coq Require Import String ZArith List Bool Lia ZifyBool Arith.
From HD Require Import Base.Val Base.ListZ C18_Model C18_Proofs.
Import ListNotations.
Ltac Zify.zify_post_hook ::= Z.to_euclidean_division_equations.
Open Scope Z_scope.

Lemma map_nth_seq {A} : forall (b : list A) d, map (fun i => nth i b d) (seq 0 (length b)) = b.
Proof.
  induction b as [|x b IH]; intros d; [reflexivity|]. cbn [length seq map nth]. f_equal.
  rewrite <- seq_shift, map_map. cbn [nth]. apply IH.
Qed.

(* reading the index range of a block out of a concatenation gives the block *)
Lemma range_reads_block {A} : forall (pre b post : list A) d,
  map (fun j => nth (Z.to_nat j) (pre ++ b ++ post) d) (zrange2 (zlen pre) (zlen pre + zlen b)) = b.
Proof.
  intros pre b post d. unfold zrange2. rewrite map_map.
  replace (Z.to_nat (zlen pre + zlen b - zlen pre)) with (length b) by (unfold zlen; lia).
  rewrite <- (map_nth_seq b d) at 2. apply map_ext_in. intros i Hi. apply in_seq in Hi.
  replace (Z.to_nat (zlen pre + Z.of_nat i)) with (length pre + i)%nat by (unfold zlen; lia).
  rewrite app_nth2_plus. apply app_nth1. lia.
Qed.

Lemma range_in_bounds : forall a b n, 0 <= a -> b <= n -> Forall (fun j => 0 <= j < n) (zrange2 a b).
Proof.
  intros a b n Ha Hb. apply Forall_forall. intros j Hj. unfold zrange2 in Hj.
  apply in_map_iff in Hj as (i & <- & Hi). apply in_seq in Hi. lia.
Qed.

Lemma sumz_app : forall a b, sumz (a ++ b) = sumz a + sumz b.
Proof. induction a as [|x a IH]; intros b; cbn [app sumz]; [lia|]. rewrite IH. lia. Qed.

Lemma sumz_nonneg_zlen {A} : forall (l : list (list A)), 0 <= sumz (map zlen l).
Proof. induction l as [|x l IH]; cbn [map sumz]; [lia|]. pose proof (zlen_nonneg x). lia. Qed.

(* block i of a concatenation sits at [sum of the earlier lengths, + its own length) *)
Lemma block_position {A} : forall (bs : list (list A)) i b d,
  nth_error bs i = Some b ->
  let s := sumz (map zlen (firstn i bs)) in
  map (fun j => nth (Z.to_nat j) (concat bs) d) (zrange2 s (s + zlen b)) = b /\
  0 <= s /\ s + zlen b <= zlen (concat bs).
Proof.
  intros bs i b d H. destruct (nth_error_split bs i H) as (l1 & l2 & -> & Hl).
  cbn zeta. subst i. rewrite firstn_app_exact.
  rewrite concat_app. cbn [concat]. rewrite <- zlen_concat. repeat split.
  - apply range_reads_block.
  - apply zlen_nonneg.
  - rewrite !zlen_app. unfold zlen. lia.
Qed.

Lemma nth_error_starts : forall spans acc i,
  nth_error (starts acc spans) i =
  if (i <? length spans)%nat then Some (acc + sumz (firstn i spans)) else None.
Proof.
  induction spans as [|x t IH]; intros acc i.
  - destruct i; reflexivity.
  - destruct i as [|i].
    + cbn. f_equal. lia.
    + cbn [starts nth_error firstn sumz length]. rewrite IH. change (S i <? S (length t))%nat with (i <? length t)%nat.
      destruct (i <? length t)%nat; [f_equal; lia|reflexivity].
Qed.

Lemma firstn_succ_sum : forall (spans : list Z) i x, nth_error spans i = Some x ->
  sumz (firstn (S i) spans) = sumz (firstn i spans) + x.
Proof.
  induction spans as [|y t IH]; intros i x H; [destruct i; discriminate|].
  destruct i as [|i]; cbn [nth_error] in H.
  - inversion H; subst. cbn. lia.
  - change (firstn (S (S i)) (y :: t)) with (y :: firstn (S i) t).
    change (firstn (S i) (y :: t)) with (y :: firstn i t).
    cbn [sumz]. rewrite (IH i x H). lia.
Qed.

Lemma in_firstn' {A} : forall n (l : list A) x, In x (firstn n l) -> In x l.
Proof.
  induction n as [|n IH]; intros l x H; [contradiction|]. destruct l as [|y l]; [contradiction|].
  cbn [firstn] in H. destruct H as [->|H]; [now left|right; now apply IH].
Qed.

(* ---- the stored layout --------------------------------------------------------------------- *)
Definition flat_stored (dbl : bool) (gd : list annot) (a : annot) : list word :=
  concat (map (stored_row dbl gd) a).

Lemma flat_map_concat {A B} : forall (f : A -> list B) (ll : list (list A)),
  flat_map f (concat ll) = concat (map (flat_map f) ll).
Proof. induction ll as [|a t IH]; [reflexivity|]. cbn [concat map]. now rewrite flat_map_app, IH. Qed.

Lemma concat_concat {A} : forall (ll : list (list (list A))), concat (concat ll) = concat (map (@concat A) ll).
Proof. induction ll as [|a t IH]; [reflexivity|]. cbn [concat map]. now rewrite concat_app, IH. Qed.

Lemma stored_layout : forall dbl gt gd e, encode dbl gt gd = Ok e ->
  e_data e = concat (map (flat_stored dbl gd) gd) /\
  (forall a, In a gd -> zlen (flat_stored dbl gd a) = zlen a * stored_dim dbl gd) /\
  0 < stored_dim dbl gd /\
  e_cz e = (if common_z dbl gd then e_cz e else None) /\
  (common_z dbl gd = true -> exists z, e_cz e = Some z).
Proof.
  intros dbl gt gd e He.
  destruct (encode_inv _ _ _ _ He) as (r0 & rest & Erows & Hok & Hlen & Hd & _ & ->).
  cbn [e_data e_cz]. unfold flat_stored, stored_row, stored_dim.
  destruct (common_z dbl gd) eqn:Ec; repeat split; try reflexivity; try lia; eauto.
  - rewrite flat_map_concat. f_equal. apply map_ext. intros a. apply flat_map_concat_map.
  - intros a Ha. rewrite (zlen_concat_const 2).
    + unfold zlen. rewrite map_length. lia.
    + intros r Hr. apply in_map_iff in Hr as (r1 & <- & Hr1).
      assert (Hl : zlen r1 = dim gd) by (apply Hlen; apply in_concat; eauto).
      unfold common_z in Ec. rewrite Erows in Ec. apply andb_prop in Ec as [E3 _].
      assert (dim gd = 3) by (unfold dim; rewrite Erows; lia).
      destruct r1 as [|x [|y [|z r']]]; unfold zlen in *; cbn [length] in *; try lia. reflexivity.
  - transitivity (concat (map (@concat word) gd)); [exact (@concat_concat word gd)|]. f_equal. apply map_ext. intros a. now rewrite map_id.
  - intros a Ha. rewrite map_id. rewrite (zlen_concat_const (dim gd)); [apply Z.mul_comm|].
    intros r Hr. apply Hlen. apply in_concat. eauto.
Qed.

Lemma spans_are_block_lengths : forall dbl gd,
  (forall a, In a gd -> zlen (flat_stored dbl gd a) = zlen a * stored_dim dbl gd) ->
  map (fun a => zlen a * stored_dim dbl gd) gd = map zlen (map (flat_stored dbl gd) gd).
Proof. intros dbl gd H. rewrite map_map. apply map_ext_in. intros a Ha. symmetry. now apply H. Qed.

Lemma coordinate_index_selects : forall dbl gt gd e k a,
  encode dbl gt gd = Ok e -> 1 <= k -> nth_error gd (Z.to_nat (k - 1)) = Some a ->
  exists ci, coordinate_index e k (dim gd) (zlen (e_data e)) = Ok ci /\
             map (fun j => nth (Z.to_nat j) (e_data e) 0) ci = flat_stored dbl gd a /\
             Forall (fun j => 0 <= j < zlen (e_data e)) ci.
Proof.
  intros dbl gt gd e k a He Hk Ha.
  destruct (stored_layout _ _ _ _ He) as (Hdata & Hblk & Hsd & Hcz1 & Hcz2).
  pose proof (spans_are_block_lengths dbl gd Hblk) as Hspans.
  set (i := Z.to_nat (k - 1)) in *.
  assert (Hb : nth_error (map (flat_stored dbl gd) gd) i = Some (flat_stored dbl gd a))
    by (rewrite nth_error_map, Ha; reflexivity).
  destruct (@block_position word _ _ _ 0 Hb) as (Hread & Hs0 & Hs1). cbn zeta in *.
  rewrite <- Hdata in Hread, Hs1.
  set (s := sumz (map zlen (firstn i (map (flat_stored dbl gd) gd)))) in *.
  assert (Hlen_a : zlen (flat_stored dbl gd a) = zlen a * stored_dim dbl gd)
    by (apply Hblk; eapply nth_error_In; eauto).
  assert (Hi : (i < length gd)%nat) by (apply nth_error_Some; congruence).
  assert (Hgd : gd <> []) by (intros ->; cbn in Hi; lia).
  assert (Hsd_e : match e_cz e with Some _ => 2 | None => dim gd end = stored_dim dbl gd).
  { unfold stored_dim. destruct (common_z dbl gd) eqn:Ec.
    - destruct (Hcz2 eq_refl) as (z & ->). reflexivity.
    - rewrite Hcz1. reflexivity. }
  destruct (encode_inv _ _ _ _ He) as (r0 & rest & Erows & Hok & _ & _ & _ & Ee).
  assert (Hgt : e_gt e = gt) by (rewrite Ee; reflexivity).
  assert (Hidx : e_idx e = if is_poly gt then Some (point_index_list (stored_dim dbl gd) gd) else None)
    by (rewrite Ee; reflexivity).
  unfold coordinate_index. rewrite Hgt, Hidx, Hsd_e. fold i.
  destruct (is_poly gt) eqn:Ep.
  - (* variable point counts: the index list *)
    rewrite (point_index_list_starts _ gd Hgd), Hspans.
    rewrite !nth_error_map, !nth_error_starts, !map_length.
    replace (i <? length gd)%nat with true by (symmetry; apply Nat.ltb_lt; exact Hi).
    cbn [option_map].
    assert (Es : 0 + sumz (firstn i (map zlen (map (flat_stored dbl gd) gd))) + 1 - 1 = s).
    { subst s. rewrite firstn_map. lia. }
    rewrite Es.
    set (stop := match option_map (fun s0 => s0 + 1)
                         (if (S i <? length gd)%nat
                          then Some (0 + sumz (firstn (S i) (map zlen (map (flat_stored dbl gd) gd))))
                          else None)
                 with Some t => t - 1 | None => zlen (e_data e) end).
    assert (Hstop : stop = s + zlen (flat_stored dbl gd a)).
    { unfold stop. destruct (S i <? length gd)%nat eqn:El; cbn [option_map].
      - rewrite (firstn_succ_sum _ i (zlen (flat_stored dbl gd a))).
        + subst s. rewrite firstn_map. lia.
        + rewrite nth_error_map, Hb. reflexivity.
      - apply Nat.ltb_ge in El. assert (S i = length gd) by lia.
        rewrite Hdata, zlen_concat.
        match goal with |- sumz ?X = _ =>
          replace X with (firstn (S i) X) by (apply firstn_all2; rewrite !map_length; lia) end.
        rewrite (firstn_succ_sum _ i (zlen (flat_stored dbl gd a))).
        + subst s. rewrite firstn_map. lia.
        + rewrite nth_error_map, Hb. reflexivity. }
    rewrite Hstop. eexists. split; [reflexivity|]. split; [exact Hread|].
    apply range_in_bounds; lia.
  - (* fixed point counts: arithmetic on the annotation number *)
    set (c := match gt with POINT => 1 | _ => 4 end).
    assert (Hc : forall a', In a' gd -> zlen a' = c).
    { intros a' Ha'. pose proof (annot_ok_count _ _ _ (forallb_In _ _ _ Hok Ha')) as Hcnt.
      unfold c. destruct gt; cbn in Hcnt, Ep; try discriminate; lia. }
    assert (Hs : s = (k - 1) * (c * stored_dim dbl gd)).
    { unfold s. rewrite <- firstn_map, <- Hspans, firstn_map.
      rewrite (sumz_const _ (c * stored_dim dbl gd)).
      - unfold zlen. rewrite map_length, firstn_length. rewrite Nat.min_l by (apply Nat.lt_le_incl; exact Hi).
        unfold i. rewrite Z2Nat.id by lia. ring.
      - intros x Hx. apply in_map_iff in Hx as (a' & <- & Ha'). apply in_firstn' in Ha'.
        rewrite (Hc a' Ha'). reflexivity. }
    assert (Hlen : match gt with POINT => stored_dim dbl gd | _ => 4 * stored_dim dbl gd end = c * stored_dim dbl gd)
      by (unfold c; destruct gt; lia).
    rewrite Hlen, <- Hs.
    assert (Hca : zlen (flat_stored dbl gd a) = c * stored_dim dbl gd).
    { rewrite Hlen_a, (Hc a); [reflexivity|]. eapply nth_error_In; eauto. }
    rewrite <- Hca. eexists. split; [reflexivity|]. split; [exact Hread|].
    apply range_in_bounds; lia.
Qed.

(* the index list, entry by entry: 1 + (number of stored values before annotation i) *)
Lemma index_list_nth : forall sd (gd : list annot) i, gd <> [] ->
  nth_error (point_index_list sd gd) i =
  if (i <? length gd)%nat then Some (1 + sumz (firstn i (map (fun a => zlen a * sd) gd))) else None.
Proof.
  intros sd gd i H. unfold annot in *. rewrite (point_index_list_starts sd gd H), nth_error_map, nth_error_starts, map_length.
  destruct (i <? length gd)%nat; cbn [option_map]; [f_equal; lia|reflexivity].
Qed.

Lemma index_list_length : forall sd (gd : list annot), gd <> [] -> length (point_index_list sd gd) = length gd.
Proof.
  intros sd gd H. rewrite (point_index_list_starts sd gd H), map_length.
  generalize 0. induction gd as [|a t IH]; [congruence|]. intros acc. cbn [map starts length]. f_equal.
  destruct t as [|b t']; [reflexivity|]. apply IH. discriminate.
Qed.
