(* C11 - the sort index orders the planes along the positive normal. *)
From Coq Require Import String ZArith List Bool QArith Lia Lqa Permutation Sorted.
From HD Require Import Base.Val C11_Model C11_Proofs C11_Proofs_Stack.
Import ListNotations.
Open Scope Q_scope.

Definition key_le (a b : Q * nat) : Prop := fst a <= fst b.

Lemma key_leb_total a b : key_leb a b = false -> key_le b a.
Proof.
  unfold key_leb, key_le. intro H.
  destruct (Qlt_le_dec (fst a) (fst b)) as [L|L]; [|exact L].
  assert (T : Qle_bool (fst a) (fst b) = true) by (apply Qle_bool_iff; lra). congruence.
Qed.
Lemma HdRel_insert y x l : HdRel key_le y l -> key_le y x -> HdRel key_le y (insert key_leb x l).
Proof.
  intros H Hx. destruct l as [|z l]; cbn [insert]; [now constructor|].
  destruct (key_leb x z); constructor; [exact Hx|]. now inversion H.
Qed.
Lemma insert_sorted x l : Sorted key_le l -> Sorted key_le (insert key_leb x l).
Proof.
  induction 1 as [|y l S IH H]; cbn [insert]; [repeat constructor|].
  destruct (key_leb x y) eqn:E.
  - constructor; [now constructor|]. constructor. unfold key_le. now apply Qle_bool_iff.
  - constructor; [exact IH|]. apply HdRel_insert; [exact H|]. now apply key_leb_total.
Qed.
Lemma isort_sorted l : Sorted key_le (isort key_leb l).
Proof.
  induction l as [|x l IH]; [constructor|]. cbn [isort fold_right]. now apply insert_sorted.
Qed.

Lemma tag_nth_gen ds k : Forall (fun p => nth (snd p - k) ds 0 = fst p /\ (k <= snd p < k + length ds)%nat)
                                (combine ds (seq k (length ds))).
Proof.
  revert k. induction ds as [|d ds IH]; intro k; [constructor|].
  cbn [length seq combine]. constructor.
  - cbn [fst snd]. rewrite Nat.sub_diag. split; [reflexivity|lia].
  - eapply Forall_impl; [|exact (IH (S k))]. cbn. intros [q j] [H1 H2]. cbn [fst snd] in *.
    split; [|lia]. replace (j - k)%nat with (S (j - S k)) by lia. exact H1.
Qed.
Lemma tag_nth ds : Forall (fun p => nthQ ds (snd p) = fst p /\ (snd p < length ds)%nat) (tag ds).
Proof.
  eapply Forall_impl; [|exact (tag_nth_gen ds 0)]. cbn. intros [q j] [H1 H2]. cbn [fst snd] in *.
  unfold nthQ. rewrite Nat.sub_0_r in H1. split; [exact H1|lia].
Qed.

Lemma sorted_dists_eq ds : map (nthQ ds) (argsort ds) = map fst (isort key_leb (tag ds)).
Proof.
  unfold argsort. rewrite map_map. apply map_ext_in. intros p Hp.
  assert (F : Forall (fun p => nthQ ds (snd p) = fst p /\ (snd p < length ds)%nat) (isort key_leb (tag ds))).
  { eapply Permutation_Forall; [symmetry; apply isort_perm|apply tag_nth]. }
  rewrite Forall_forall in F. now apply F.
Qed.

Lemma Sorted_map_fst l : Sorted key_le l -> Sorted Qle (map fst l).
Proof.
  induction 1 as [|x l S IH H]; cbn [map]; constructor; [exact IH|].
  destruct H; cbn [map]; constructor. assumption.
Qed.

(* np.argsort: the sorted distances are non-decreasing and a rearrangement of the distances *)
Lemma argsort_sorted ds : Sorted Qle (map (nthQ ds) (argsort ds)).
Proof. rewrite sorted_dists_eq. apply Sorted_map_fst, isort_sorted. Qed.
Lemma argsort_perm ds : Permutation (argsort ds) (seq 0 (length ds)).
Proof.
  unfold argsort. rewrite (isort_perm key_leb (tag ds)). unfold tag.
  rewrite map_snd_combine'; [reflexivity|now rewrite seq_length].
Qed.
Lemma sorted_dists_perm ds : Permutation (map (nthQ ds) (argsort ds)) ds.
Proof.
  rewrite (argsort_perm ds). unfold nthQ. now rewrite map_nth_seq.
Qed.

Lemma plane_sort_orders : forall ps rowc colc c0 c1 rh si,
  plane_sort_index ps rowc colc c0 c1 rh = Ok si ->
  exists nv, normal_vector rowc colc c0 c1 rh = Ok nv /\
    Permutation si (seq 0 (length ps)) /\
    Sorted Qle (map (fun j => dot nv (nthV ps j)) si).
Proof.
  intros ps rowc colc c0 c1 rh si. unfold plane_sort_index.
  destruct (normal_vector rowc colc c0 c1 rh) as [nv|] eqn:N; [|discriminate].
  intro H. injection H as <-. exists nv. split; [reflexivity|]. split.
  - rewrite argsort_perm. now rewrite map_length.
  - pose proof (argsort_sorted (map (dot nv) ps)) as S.
    erewrite map_ext_in; [exact S|]. intros j Hj. cbn.
    apply (Permutation_in _ (argsort_perm _)) in Hj. apply in_seq in Hj. rewrite map_length in Hj.
    unfold nthQ, nthV. rewrite (nth_indep _ 0 (dot nv (V3 0 0 0))) by (rewrite map_length; lia).
    now rewrite map_nth.
Qed.

(* ---------- what any accepted answer of get_volume_positions satisfies ------------------- *)
Lemma gvp_sound : forall ps rowc colc o sp idx,
  (2 <= length ps)%nat ->
  get_volume_positions ps rowc colc o = Ok (Some (sp, idx)) ->
  exists hint rtol atol nv,
    norm_hint (o_hint o) = Ok hint /\ tolerances (o_rtol o) (o_atol o) = Ok (rtol, atol) /\
    normal_vector rowc colc (o_c0 o) (o_c1 o) (o_rh o) = Ok nv /\
    (o_sort o = false -> o_dups o = false /\ o_missing o = false) /\
    let ps' := map vred ps in
    let uq := lexuniq ps' in
    (o_dups o = false -> (length ps <= length uq)%nat) /\
    let uniq := if o_sort o then uq else ps' in
    let uidx := if o_sort o then map (fun p => index_of p uq) ps' else seq 0 (length ps) in
    ((length uniq = 1%nat /\ sp = hint_or_one hint /\ idx = repeat 0%Z (length ps)) \/
     gvp_core uniq uidx nv rtol atol (o_sort o) (o_missing o) (o_enforce o) hint = Ok (Some (sp, idx))).
Proof.
  intros ps rowc colc o sp idx L. unfold get_volume_positions.
  destruct (negb (o_sort o) && (o_dups o || o_missing o)) eqn:G; [discriminate|].
  destruct (norm_hint (o_hint o)) as [hint|]; [|discriminate].
  destruct (tolerances (o_rtol o) (o_atol o)) as [[rtol atol]|]; [|discriminate].
  destruct ps as [|p [|q l]]; [cbn in L; lia|cbn in L; lia|].
  set (ps := p :: q :: l) in *. cbv iota.
  destruct (normal_vector rowc colc (o_c0 o) (o_c1 o) (o_rh o)) as [nv|]; [|discriminate].
  cbv zeta.
  destruct (negb (o_dups o) && (length (lexuniq (map vred ps)) <? length ps)%nat) eqn:D; [discriminate|].
  intro H. exists hint, rtol, atol, nv. repeat split.
  - destruct (o_sort o); [discriminate|]. cbn in G. now destruct (o_dups o).
  - destruct (o_sort o); [discriminate|]. cbn in G. destruct (o_dups o); [discriminate|]. exact G.
  - intros Dd. rewrite Dd in D. cbn [negb andb] in D. apply Nat.ltb_ge in D. exact D.
  - destruct (length (if o_sort o then lexuniq (map vred ps) else map vred ps) =? 1)%nat eqn:E.
    + left. apply Nat.eqb_eq in E. injection H as <- <-. auto.
    + right. exact H.
Qed.
