(* C13 - proofs, part 2: two-phase parsing (error precedence), the three
   kinds of content sequence, ContentSequence as a mutable container, and
   the end-to-end statements. *)
From Coq Require Import String ZArith List Bool QArith Lia Permutation.
From HD Require Import Base.Val C13_Model C13_Proofs.
Import ListNotations.
Open Scope string_scope.
Open Scope list_scope.
Open Scope Z_scope.

(* ================================================================== *)
(* 1. parse = accept, then read                                        *)
Definition rkids_of (a : attrs) : option (res (list item)) :=
  match lookup "ContentSequence" a with
  | None => None
  | Some (DSeq items) => Some (mapM (read None) items)
  | Some _ => Some (Err EType)
  end.

Lemma read_unfold : forall c a, read c (DSet a) = read_body c a (rkids_of a).
Proof.
  intros c a. cbn [read]. f_equal. unfold rkids_of.
  induction a as [|[k v] a IH]; [reflexivity|].
  cbn [lookup]. destruct (String.eqb k "ContentSequence"); [|exact IH].
  destruct v; reflexivity.
Qed.

Fixpoint dval_ind' (P : dval -> Prop)
  (HStr : forall s, P (DStr s)) (HInts : forall l, P (DInts l)) (HNums : forall l, P (DNums l))
  (HTemp : forall l, P (DTemp l))
  (HSeq : forall items, Forall P items -> P (DSeq items))
  (HSet : forall a, Forall (fun kv => P (snd kv)) a -> P (DSet a)) (d : dval) : P d :=
  match d with
  | DStr s => HStr s
  | DInts l => HInts l
  | DNums l => HNums l
  | DTemp l => HTemp l
  | DSeq items =>
      HSeq items ((fix go (l : list dval) : Forall P l :=
                     match l with
                     | [] => Forall_nil P
                     | x :: l' => Forall_cons x (dval_ind' P HStr HInts HNums HTemp HSeq HSet x) (go l')
                     end) items)
  | DSet a =>
      HSet a ((fix go (l : attrs) : Forall (fun kv => P (snd kv)) l :=
                 match l with
                 | [] => Forall_nil _
                 | kv :: l' => Forall_cons kv (dval_ind' P HStr HInts HNums HTemp HSeq HSet (snd kv)) (go l')
                 end) a)
  end.

Definition two_phase (d : dval) : Prop :=
  forall c t, parse c d = Ok t <-> (accept c d = Ok tt /\ read c d = Ok t).

Lemma discard_ok : forall {A} (r : res A), discard r = Ok tt <-> exists x, r = Ok x.
Proof.
  intros A [x|k]; unfold discard; cbn [bind]; split.
  - intros _. now exists x.
  - reflexivity.
  - discriminate.
  - intros [x H]. discriminate.
Qed.

Lemma lookup_in : forall k (a : attrs) v, lookup k a = Some v -> exists k', In (k', v) a.
Proof.
  induction a as [|[k' v'] a IH]; intros v H; [discriminate|].
  cbn [lookup] in H. destruct (String.eqb k' k).
  - inversion H; subst. exists k'. now left.
  - destruct (IH v H) as [k2 Hin]. exists k2. now right.
Qed.

Ltac bok H := let x := fresh "x" in let E := fresh "E" in
  apply bind_ok in H; destruct H as [x [E H]].

(* relationship accessor of a read item *)
Lemma read_rel_of : forall c d x, read c d = Ok x ->
  exists a, d = DSet a /\ read_rel a = Ok (i_rel x).
Proof.
  intros c d x H. destruct d as [| | | | |a]; try discriminate. exists a. split; [reflexivity|].
  rewrite read_unfold in H. unfold read_body in H.
  bok H. bok H. bok H. bok H. bok H. inversion H; subst. exact E0.
Qed.

Lemma seq_check_spec : forall ks, seq_check ks = Ok tt <-> Forall (fun k => i_rel k <> None) ks.
Proof.
  intros ks. unfold seq_check.
  destruct (forallb (fun k => match i_rel k with Some _ => true | None => false end) ks) eqn:E.
  - split; [|reflexivity]. intros _. rewrite forallb_forall in E. apply Forall_forall.
    intros k Hk. specialize (E k Hk). destruct (i_rel k); congruence.
  - split; [discriminate|]. intros H. exfalso.
    assert (forallb (fun k => match i_rel k with Some _ => true | None => false end) ks = true).
    { apply forallb_forall. intros k Hk. rewrite Forall_forall in H. specialize (H k Hk).
      destruct (i_rel k); congruence. }
    congruence.
Qed.

Lemma kids_read_present : forall items ks, mapM (read None) items = Ok ks ->
  (seq_check ks = Ok tt <-> discard (mapM rel_present items) = Ok tt).
Proof.
  induction items as [|i items IH]; intros ks H.
  - cbn in H. inversion H; subst. split; reflexivity.
  - cbn [mapM] in H. bok H. bok H. inversion H; subst. clear H.
    specialize (IH _ E0). rewrite seq_check_spec in *. rewrite discard_ok in *.
    destruct (read_rel_of _ _ _ E) as [a [-> Hr]].
    cbn [mapM rel_present]. rewrite Hr. cbn [bind]. split.
    + intros HF. inversion HF as [|? ? H1 H2]; subst. destruct (i_rel x); [|congruence].
      cbn [bind]. apply IH in H2. destruct H2 as [us Hus]. rewrite Hus. cbn [bind]. eauto.
    + intros [us Hus]. destruct (i_rel x) eqn:Ex; [|discriminate]. cbn [bind] in Hus.
      constructor; [congruence|]. apply IH.
      destruct (mapM rel_present items); [eauto|discriminate].
Qed.

Lemma kids_two_phase : forall items, Forall two_phase items -> forall ks,
  mapM (parse None) items = Ok ks <->
  (discard (mapM (accept None) items) = Ok tt /\ mapM (read None) items = Ok ks).
Proof.
  induction 1 as [|i items Hi _ IH]; intros ks.
  - cbn. split; [intros H; split; [reflexivity|exact H] | intros [_ H]; exact H].
  - cbn [mapM]. split.
    + intros H. bok H. bok H. inversion H; subst. clear H.
      apply Hi in E. destruct E as [Ea Er]. apply IH in E0. destruct E0 as [Eas Ers].
      rewrite Ea, Er, Ers. cbn [bind]. apply discard_ok in Eas. destruct Eas as [us Eus].
      rewrite Eus. split; reflexivity.
    + intros [Ha Hr]. apply discard_ok in Ha. destruct Ha as [us Ha]. bok Ha. bok Ha.
      bok Hr. bok Hr. inversion Hr; subst. clear Hr Ha.
      destruct x. assert (Hp : parse None i = Ok x1) by (apply Hi; split; assumption).
      rewrite Hp. cbn [bind].
      assert (Hps : mapM (parse None) items = Ok x2).
      { apply IH. split; [apply discard_ok; eauto|assumption]. }
      rewrite Hps. reflexivity.
Qed.

(* the value accessors succeed only if the parse-time conversion of the
   value's coded concepts did *)
Lemma read_value_accept : forall c a v, read_value c a = Ok v ->
  match c with
  | CodeContentItem => discard (bind (get "ConceptCodeSequence" a) code_first)
  | NumContentItem =>
      bind (get "MeasuredValueSequence" a) (fun s =>
      bind (first_item s) (fun it =>
      bind (discard (bind (get "MeasurementUnitsCodeSequence" it) code_first)) (fun _ =>
      match lookup "NumericValueQualifierCodeSequence" a with
      | None => Ok tt
      | Some s => discard (code_first s)
      end)))
  | _ => Ok tt
  end = Ok tt.
Proof.
  intros c a v H. destruct c; try reflexivity; cbn [read_value] in H.
  - bok H. bok H. rewrite E. cbn [bind]. unfold discard. rewrite E0. reflexivity.
  - bok H. bok H. bok H. bok H. rewrite E. cbn [bind]. rewrite E0. cbn [bind].
    unfold discard at 1. rewrite E1. cbn [bind].
    revert E2. destruct (lookup "NumericValueQualifierCodeSequence" a); [|reflexivity].
    intros E2. apply bind_ok in E2. destruct E2 as [q [Eq _]]. unfold discard. rewrite Eq. reflexivity.
Qed.

Lemma body_two_phase : forall c a pk ak rk,
  (forall ks, (match pk with None => Ok [] | Some r => r end = Ok ks /\ seq_check ks = Ok tt) <->
              (match ak with None => Ok tt | Some r => r end = Ok tt /\
               match rk with None => Ok [] | Some r => r end = Ok ks)) ->
  forall t, parse_body c a pk = Ok t <-> (accept_body c a ak = Ok tt /\ read_body c a rk = Ok t).
Proof.
  intros c a pk ak rk Hk t. unfold parse_body, accept_body, read_body.
  destruct (match c with Some c0 => Ok c0 | None => check_and_dispatch a end) as [c'|e]; cbn [bind];
    [|split; [discriminate|intros [H _]; discriminate]].
  destruct (assert_value_type (class_vt c') a) as [[]|e]; cbn [bind];
    [|split; [discriminate|intros [H _]; discriminate]].
  destruct (lookup "ConceptNameCodeSequence" a) as [s|] eqn:En.
  - cbn [bind]. split.
    + intros H. bok H. bok H. bok H. bok H. bok H. inversion H; subst. clear H.
      destruct x0. destruct (proj1 (Hk x) (conj E E0)) as [Ha Hr]. rewrite Ha, Hr, E1, E2, E3. cbn [bind].
      unfold discard at 1. cbn [bind]. split; [|reflexivity].
      eapply read_value_accept. exact E2.
    + intros [Ha Hr]. bok Ha. bok Ha. bok Hr. bok Hr. bok Hr. bok Hr. inversion Hr; subst. clear Hr.
      destruct x. destruct (proj2 (Hk x2) (conj E E2)) as [Hp Hs]. rewrite Hp. cbn [bind].
      rewrite Hs. cbn [bind]. rewrite E3, E4, E1. reflexivity.
  - destruct (mem (ctag_str c') optional_name_classes); cbn [bind];
      [|split; [discriminate|intros [H _]; discriminate]].
    split.
    + intros H. bok H. bok H. bok H. bok H. inversion H; subst. clear H.
      destruct x0. destruct (proj1 (Hk x) (conj E E0)) as [Ha Hr]. rewrite Ha, Hr, E1, E2. cbn [bind].
      split; [|reflexivity]. eapply read_value_accept. exact E1.
    + intros [Ha Hr]. bok Ha. bok Hr. bok Hr. bok Hr. inversion Hr; subst. clear Hr.
      destruct x. destruct (proj2 (Hk x1) (conj E E1)) as [Hp Hs]. rewrite Hp. cbn [bind].
      rewrite Hs. cbn [bind]. rewrite E2, E0. reflexivity.
Qed.

Lemma two_phase_all : forall d,
  two_phase d /\ (forall items, d = DSeq items -> Forall two_phase items).
Proof.
  induction d using dval_ind';
    try (split; [intros c t; cbn; split; [discriminate|intros [H0 _]; discriminate]|discriminate]).
  - split; [intros c t; cbn; split; [discriminate|intros [H0 _]; discriminate]|].
    intros items0 E. inversion E; subst. eapply Forall_impl; [|exact H]. intros d [Hd _]. exact Hd.
  - split; [|discriminate]. intros c t.
    rewrite parse_unfold, accept_unfold, read_unfold. apply body_two_phase.
    intros ks. unfold kids_of, akids_of, rkids_of.
    destruct (lookup "ContentSequence" a) as [v|] eqn:El.
    2:{ split; [intros [H1 H2]; split; [reflexivity|exact H1] | intros [_ H1]; split; [exact H1|]].
        inversion H1; subst. reflexivity. }
    destruct (lookup_in _ _ _ El) as [k' Hin]. rewrite Forall_forall in H.
    specialize (H _ Hin). cbn [snd] in H. destruct H as [_ Hv].
    destruct v; try (split; [intros [H1 _]; discriminate|intros [H1 _]; discriminate]).
    specialize (Hv items eq_refl). split.
    + intros [H1 H2]. apply (kids_two_phase _ Hv) in H1. destruct H1 as [Ha Hr].
      split; [|exact Hr]. rewrite Ha. cbn [bind]. apply (kids_read_present _ _ Hr). exact H2.
    + intros [H1 H2]. bok H1. destruct x.
      split; [apply (kids_two_phase _ Hv); split; assumption|].
      apply (kids_read_present _ _ H2). exact H1.
Qed.

Theorem parse_two_phase : forall c d t, parse c d = Ok t <-> parse2 c d = Ok t.
Proof.
  intros c d t. unfold parse2. rewrite (proj1 (two_phase_all d) c t). split.
  - intros [Ha Hr]. rewrite Ha. exact Hr.
  - intros H. bok H. destruct x. split; assumption.
Qed.

Lemma parse_two_phase_err : forall c d,
  (exists e, parse c d = Err e) <-> (exists e, parse2 c d = Err e).
Proof.
  intros c d. split; intros [e H].
  - destruct (parse2 c d) as [t|e'] eqn:E; [|eauto]. apply parse_two_phase in E. congruence.
  - destruct (parse c d) as [t|e'] eqn:E; [|eauto]. apply parse_two_phase in E. congruence.
Qed.

(* the error of parse2 is the error of the parse-time checks whenever they fail *)
Lemma parse2_accept_err : forall c d e, accept c d = Err e -> parse2 c d = Err e.
Proof. intros c d e H. unfold parse2. rewrite H. reflexivity. Qed.

Theorem from_sequence_two_phase : forall items ks,
  from_sequence items = Ok ks <-> from_sequence2 items = Ok ks.
Proof.
  intros items ks. unfold from_sequence, from_sequence2, accept_sequence.
  assert (Hall : Forall two_phase items).
  { apply Forall_forall. intros d _. apply two_phase_all. }
  split.
  - intros H. bok H. bok H. inversion H; subst. clear H. destruct x0.
    apply (kids_two_phase _ Hall) in E. destruct E as [Ha Hr].
    rewrite Ha. cbn [bind]. rewrite (proj1 (kids_read_present _ _ Hr) E0). exact Hr.
  - intros H. bok H. destruct x. bok E. destruct x.
    assert (Hp : mapM (parse None) items = Ok ks) by (apply (kids_two_phase _ Hall); split; assumption).
    rewrite Hp. cbn [bind]. rewrite (proj2 (kids_read_present _ _ H) E). reflexivity.
Qed.

(* ================================================================== *)
(* 2. the three kinds of content sequence                              *)
Definition ok_in (m : smode) (i : item) : Prop := check_item m i = Ok tt.

Lemma mode_rule_spec : forall m r c,
  (mode_rule m r c = Ok tt <->
   match m with
   | MRoot => r = None /\ c = ContainerContentItem
   | MSr => r <> None
   | MCtx => r = None
   end) /\
  (mode_rule m r c = Ok tt \/ mode_rule m r c = Err EAttr \/ mode_rule m r c = Err EType) /\
  (mode_rule m r c = Err EType <-> (m = MRoot /\ r = None /\ c <> ContainerContentItem)).
Proof.
  intros m r c. destruct m, r as [r|]; cbn [mode_rule]; try destruct c; cbn [is_container];
    repeat split; try tauto; try congruence; try discriminate;
    try (intros [? ?]; congruence); try (intros [? [? ?]]; congruence); intuition congruence.
Qed.

Lemma mapM_unit_ok : forall {A} (f : A -> res unit) l,
  (exists us, mapM f l = Ok us) <-> Forall (fun x => f x = Ok tt) l.
Proof.
  intros A f l. induction l as [|x l IH].
  - split; [constructor|intros _; exists []; reflexivity].
  - cbn [mapM]. split.
    + intros [us H]. bok H. bok H. destruct x0. constructor; [assumption|]. apply IH. eauto.
    + intros H. inversion H as [|? ? H1 H2]; subst. rewrite H1. cbn [bind].
      apply IH in H2. destruct H2 as [us ->]. cbn [bind]. eauto.
Qed.

Lemma seq_new_spec : forall m items s,
  seq_new m items = Ok s <-> (s = CSeq m items items /\ Forall (ok_in m) items).
Proof.
  intros m items s. unfold seq_new. split.
  - intros H. bok H. inversion H; subst. split; [reflexivity|]. apply (mapM_unit_ok (check_item m)). eauto.
  - intros [-> H]. apply (mapM_unit_ok (check_item m)) in H. destruct H as [us ->]. reflexivity.
Qed.

(* the first item the kind of sequence refuses decides the error *)
Lemma seq_new_rejects : forall m pre x post e,
  Forall (ok_in m) pre -> check_item m x = Err e -> seq_new m (pre ++ x :: post) = Err e.
Proof.
  intros m pre x post e Hpre Hx. unfold seq_new.
  induction Hpre as [|y pre Hy _ IH]; cbn [app mapM].
  - rewrite Hx. reflexivity.
  - unfold ok_in in Hy. rewrite Hy. cbn [bind].
    destruct (mapM (check_item m) (pre ++ x :: post)); [discriminate|].
    cbn [bind] in *. exact IH.
Qed.

Lemma dispatch_m_ok : forall m n r v ks, mode_rule m r (value_class v) = Ok tt ->
  dispatch_m m (item_attrs n r v ks) = Ok (value_class v).
Proof.
  intros m n r v ks H. unfold dispatch_m, item_attrs. cbn [lookup String.eqb Ascii.eqb Bool.eqb app].
  rewrite vt_roundtrip.
  destruct m; cbn [andb]; try apply get_class_class_vt.
  destruct r as [r|]; [|discriminate]. cbn. apply get_class_class_vt.
Qed.

Lemma read_serialise : forall t, wf t -> read (Some (i_cls t)) (to_ds t) = Ok t.
Proof.
  intros t Hwf. destruct (parse_serialise t Hwf) as [Hp _].
  apply (proj1 (two_phase_all (to_ds t))) in Hp. tauto.
Qed.

Theorem from_sequence_m_roundtrip : forall m l,
  Forall wf l -> Forall (ok_in m) l -> from_sequence_m m (map to_ds l) = Ok l.
Proof.
  intros m l Hwf Hok. unfold from_sequence_m, accept_sequence_m.
  assert (H1 : mapM (accept_item_m m) (map to_ds l) = Ok (map i_cls l)).
  { induction Hwf as [|t l Ht _ IH]; [reflexivity|]. inversion Hok as [|? ? Ho Hok']; subst.
    cbn [map mapM]. rewrite (IH Hok'). clear IH.
    destruct t as [c n r v ks]. pose proof Ht as Ht'. apply wf_unfold in Ht'. destruct Ht' as [-> _].
    unfold to_ds at 1. rewrite to_attrs_eq. cbn [accept_item_m].
    rewrite dispatch_m_ok by exact Ho. cbn [bind].
    change (DSet (item_attrs n r v (map to_ds ks))) with (to_ds (Item (value_class v) n r v ks)).
    destruct (accept_serialise _ Ht) as [Ha _]. cbn [i_cls] in Ha. rewrite Ha. reflexivity. }
  rewrite H1. cbn [bind].
  assert (H2 : exists us, mapM (present_m m) (combine (map i_cls l) (map to_ds l)) = Ok us).
  { apply mapM_unit_ok. clear H1. induction Hwf as [|t l Ht _ IH]; [constructor|].
    inversion Hok as [|? ? Ho Hok']; subst. cbn [map combine]. constructor; [|apply IH; assumption].
    destruct t as [c n r v ks]. unfold present_m. cbn [fst snd to_ds]. rewrite to_attrs_eq.
    rewrite read_rel_ok. cbn [bind]. exact Ho. }
  destruct H2 as [us ->]. cbn [bind]. clear H1.
  induction Hwf as [|t l Ht _ IH]; [reflexivity|]. inversion Hok as [|? ? Ho Hok']; subst.
  cbn [map combine mapM fst snd]. rewrite (read_serialise t Ht). cbn [bind]. rewrite (IH Hok'). reflexivity.
Qed.

(* class of a read item *)
Lemma read_cls_of : forall c d x, read (Some c) d = Ok x -> i_cls x = c.
Proof.
  intros c d x H. destruct d as [| | | | |a]; try discriminate.
  rewrite read_unfold in H. unfold read_body in H. cbn [bind] in H.
  bok H. bok H. bok H. bok H. inversion H; subst. reflexivity.
Qed.

(* whatever from_sequence(..., is_root, is_sr) returns suits that kind of sequence *)
Theorem from_sequence_m_accepts_only : forall m ds ks,
  from_sequence_m m ds = Ok ks -> Forall (ok_in m) ks /\ List.length ks = List.length ds.
Proof.
  intros m ds ks H. unfold from_sequence_m, accept_sequence_m in H.
  bok H. bok E. bok E. inversion E; subst. clear E.
  assert (Hp : Forall (fun cd => present_m m cd = Ok tt) (combine x ds)).
  { apply mapM_unit_ok. eauto. }
  clear E1 x1. revert ds ks H E0 Hp.
  induction x as [|c cs IH]; intros ds ks H E0 Hp.
  - cbn in H. inversion H; subst. destruct ds as [|d ds]; [split; [constructor|reflexivity]|].
    cbn [mapM] in E0. bok E0. bok E0. discriminate.
  - destruct ds as [|d ds]; [cbn in E0; discriminate|].
    cbn [mapM] in E0. bok E0. bok E0. inversion E0; subst. clear E0.
    cbn [combine mapM fst snd] in H. bok H. bok H. inversion H; subst. clear H.
    inversion Hp as [|? ? Hp1 Hp2]; subst.
    destruct (IH _ _ E2 E1 Hp2) as [HF HL]. split; [|cbn [List.length]; congruence].
    constructor; [|exact HF].
    unfold present_m in Hp1. cbn [fst snd] in Hp1.
    destruct (read_rel_of _ _ _ E0) as [a [-> Hr]]. rewrite Hr in Hp1. cbn [bind] in Hp1.
    unfold ok_in, check_item. rewrite (read_cls_of _ _ _ E0). exact Hp1.
Qed.

(* ================================================================== *)
(* 3. ContentSequence as a mutable container                           *)
Fixpoint val_ind' (P : val -> Prop)
  (HZ : forall z, P (VZ z)) (HB : forall b, P (VB b)) (HN : P VNone) (HS : forall s, P (VS s))
  (HQ : forall q, P (VQ q)) (HE : forall k, P (VErr k))
  (HL : forall l, Forall P l -> P (VL l)) (v : val) : P v :=
  match v with
  | VZ z => HZ z | VB b => HB b | VNone => HN | VS s => HS s | VQ q => HQ q | VErr k => HE k
  | VL l => HL l ((fix go (l : list val) : Forall P l :=
                     match l with
                     | [] => Forall_nil P
                     | x :: l' => Forall_cons x (val_ind' P HZ HB HN HS HQ HE HL x) (go l')
                     end) l)
  end.

Lemma val_beq_refl : forall v, val_beq v v = true.
Proof.
  induction v using val_ind'; cbn [val_beq].
  - apply Z.eqb_refl.
  - destruct b; reflexivity.
  - reflexivity.
  - apply String.eqb_refl.
  - rewrite Z.eqb_refl, Pos.eqb_refl. reflexivity.
  - apply String.eqb_refl.
  - induction H as [|x l Hx _ IH]; [reflexivity|]. rewrite Hx. exact IH.
Qed.

Lemma val_beq_eq : forall a b, val_beq a b = true -> a = b.
Proof.
  induction a using val_ind'; intros w Hb; destruct w; cbn [val_beq] in Hb; try discriminate.
  - apply Z.eqb_eq in Hb. congruence.
  - apply eqb_prop in Hb. congruence.
  - reflexivity.
  - apply String.eqb_eq in Hb. congruence.
  - apply andb_true_iff in Hb. destruct Hb as [H1 H2]. apply Z.eqb_eq in H1. apply Pos.eqb_eq in H2.
    destruct q, q0. cbn in *. congruence.
  - apply String.eqb_eq in Hb. congruence.
  - f_equal. revert l0 Hb. induction H as [|x l Hx _ IH]; intros l0 Hb; destruct l0 as [|y l0]; try discriminate.
    + reflexivity.
    + apply andb_true_iff in Hb. destruct Hb as [H1 H2]. f_equal; [apply Hx; exact H1|apply IH; exact H2].
Qed.

(* what Dataset.__eq__ looks at: every observation, code meanings apart *)
Definition key_obs (i : item) : val := obs_item (blank i).

Lemma item_eqb_true : forall a b, item_eqb a b = true <-> key_obs a = key_obs b.
Proof.
  intros a b. unfold item_eqb. split.
  - apply val_beq_eq.
  - unfold key_obs. intros ->. apply val_beq_refl.
Qed.

Definition PermK (l1 l2 : list item) : Prop := Permutation (map key_obs l1) (map key_obs l2).

Lemma remove_first_perm : forall o l, In (key_obs o) (map key_obs l) ->
  exists l1, remove_first (item_eqb o) l = Some l1 /\
             Permutation (map key_obs l) (key_obs o :: map key_obs l1) /\
             (forall P : item -> Prop, Forall P l -> Forall P l1).
Proof.
  intros o l. induction l as [|x l IH]; intros Hin; [destruct Hin|].
  cbn [remove_first]. destruct (item_eqb o x) eqn:E.
  - apply item_eqb_true in E. exists l. split; [reflexivity|]. split.
    + cbn [map]. rewrite E. apply Permutation_refl.
    + intros P HP. inversion HP; assumption.
  - destruct Hin as [Hx|Hin].
    + exfalso. assert (item_eqb o x = true) by (apply item_eqb_true; congruence). congruence.
    + destruct (IH Hin) as [l1 [-> [Hp HF]]]. exists (x :: l1). split; [reflexivity|]. split.
      * cbn [map]. eapply Permutation_trans; [apply perm_skip; exact Hp|]. apply perm_swap.
      * intros P HP. inversion HP; subst. constructor; [assumption|apply HF; assumption].
Qed.

Lemma log_remove_perm : forall olds lg rest,
  Permutation (map key_obs lg) (map key_obs olds ++ rest) ->
  exists lg', log_remove olds lg = Some lg' /\ Permutation (map key_obs lg') rest /\
              (forall P : item -> Prop, Forall P lg -> Forall P lg').
Proof.
  induction olds as [|o os IH]; intros lg rest Hp.
  - exists lg. split; [reflexivity|]. split; [exact Hp|auto].
  - cbn [log_remove]. cbn [map app] in Hp.
    assert (Hin : In (key_obs o) (map key_obs lg)).
    { eapply Permutation_in; [apply Permutation_sym; exact Hp|]. now left. }
    destruct (remove_first_perm o lg Hin) as [l1 [-> [Hp1 HF1]]].
    assert (Hp2 : Permutation (map key_obs l1) (map key_obs os ++ rest)).
    { eapply Permutation_cons_inv. eapply Permutation_trans; [apply Permutation_sym; exact Hp1|exact Hp]. }
    destruct (IH l1 rest Hp2) as [lg' [-> [Hp3 HF3]]]. exists lg'. split; [reflexivity|].
    split; [exact Hp3|]. intros P HP. apply HF3. apply HF1. exact HP.
Qed.

Lemma skipn_skipn : forall {A} a b (l : list A), skipn b (skipn a l) = skipn (a + b) l.
Proof.
  induction a as [|a IH]; intros b l; [reflexivity|].
  destruct l as [|x l]; [cbn; now rewrite skipn_nil|]. cbn [skipn Nat.add]. apply IH.
Qed.

Lemma splice_split : forall {A} a b (l : list A), (a <= b)%nat ->
  l = firstn a l ++ firstn (b - a) (skipn a l) ++ skipn b l.
Proof.
  intros A a b l Hab. rewrite <- (firstn_skipn a l) at 1. f_equal.
  rewrite <- (firstn_skipn (b - a) (skipn a l)) at 1. f_equal.
  rewrite skipn_skipn. f_equal. lia.
Qed.

Lemma Forall_firstn : forall {A} (P : A -> Prop) n l, Forall P l -> Forall P (firstn n l).
Proof.
  intros A P n l H. rewrite <- (firstn_skipn n l) in H. apply Forall_app in H. tauto.
Qed.
Lemma Forall_skipn : forall {A} (P : A -> Prop) n l, Forall P l -> Forall P (skipn n l).
Proof.
  intros A P n l H. rewrite <- (firstn_skipn n l) in H. apply Forall_app in H. tauto.
Qed.

(* the invariant of every reachable sequence *)
Definition Inv (s : cseq) : Prop :=
  PermK (q_log s) (q_items s) /\
  Forall (ok_in (q_mode s)) (q_items s) /\ Forall (ok_in (q_mode s)) (q_log s).

(* replacing its[a:b] by news and moving the look-up table along *)
Lemma splice_inv : forall m its lg a b news, (a <= b)%nat ->
  Inv (CSeq m its lg) -> Forall (ok_in m) news ->
  exists lg', log_remove (firstn (b - a) (skipn a its)) lg = Some lg' /\
              Inv (CSeq m (splice a b news its) (lg' ++ news)).
Proof.
  intros m its lg a b news Hab [Hp [Hi Hl]] Hn. cbn [q_log q_items q_mode] in *.
  set (A := firstn a its). set (O := firstn (b - a) (skipn a its)). set (B := skipn b its).
  assert (Hits : its = A ++ O ++ B) by (apply splice_split; exact Hab).
  assert (Hp' : Permutation (map key_obs lg) (map key_obs O ++ map key_obs (A ++ B))).
  { unfold PermK in Hp. rewrite Hits in Hp at 1. rewrite !map_app in *.
    eapply Permutation_trans; [exact Hp|].
    rewrite app_assoc. eapply Permutation_trans; [apply Permutation_app_tail; apply Permutation_app_comm|].
    rewrite <- app_assoc. apply Permutation_refl. }
  destruct (log_remove_perm O lg _ Hp') as [lg' [Hr [Hp2 HF]]].
  exists lg'. split; [exact Hr|]. unfold Inv, PermK, splice. cbn [q_log q_items q_mode]. fold A B.
  split; [|split].
  - rewrite !map_app in *. eapply Permutation_trans; [apply Permutation_app_tail; exact Hp2|].
    rewrite <- app_assoc. apply Permutation_app_head. apply Permutation_app_comm.
  - apply Forall_app. split; [apply Forall_firstn; exact Hi|].
    apply Forall_app. split; [exact Hn|apply Forall_skipn; exact Hi].
  - apply Forall_app. split; [apply HF; exact Hl|exact Hn].
Qed.

Lemma append_inv : forall s i, Inv s -> ok_in (q_mode s) i -> Inv (seq_append s i).
Proof.
  intros s i [Hp [Hi Hl]] Ho. unfold Inv, PermK, seq_append. cbn [q_log q_items q_mode].
  split; [|split].
  - rewrite !map_app. apply Permutation_app_tail. exact Hp.
  - apply Forall_app. split; [exact Hi|constructor; [exact Ho|constructor]].
  - apply Forall_app. split; [exact Hl|constructor; [exact Ho|constructor]].
Qed.

Lemma extend_inv : forall l s, Inv s ->
  Inv (fst (seq_extend s l)) /\ q_mode (fst (seq_extend s l)) = q_mode s /\
  snd (seq_extend s l) <> Err EValue.
Proof.
  induction l as [|i l IH]; intros s Hs; cbn [seq_extend].
  - cbn. repeat split; [apply Hs..|discriminate].
  - destruct (check_item (q_mode s) i) as [[]|e] eqn:E.
    + destruct (IH (seq_append s i) (append_inv s i Hs E)) as [H1 [H2 H3]].
      split; [exact H1|]. split; [rewrite H2; reflexivity|exact H3].
    + cbn. split; [exact Hs|]. split; [reflexivity|].
      unfold check_item in E. destruct (mode_rule_spec (q_mode s) (i_rel i) (i_cls i)) as [_ [H _]].
      rewrite E in H. destruct H as [H|[H|H]]; inversion H; discriminate.
Qed.

Lemma check_item_not_evalue : forall m i e, check_item m i = Err e -> e <> EValue.
Proof.
  intros m i e E. unfold check_item in E.
  destruct (mode_rule_spec m (i_rel i) (i_cls i)) as [_ [H _]].
  rewrite E in H. destruct H as [H|[H|H]]; inversion H; discriminate.
Qed.

Lemma norm_idx_lt : forall n k j, norm_idx n k = Some j -> (Z.of_nat j < n).
Proof.
  intros n k j H. unfold norm_idx in H.
  destruct ((k <? - n) || (n <=? k)) eqn:E; [discriminate|]. inversion H; subst.
  apply orb_false_iff in E. destruct E as [E1 E2]. apply Z.ltb_ge in E1. apply Z.leb_gt in E2.
  destruct (k <? 0) eqn:E3; [apply Z.ltb_lt in E3|apply Z.ltb_ge in E3]; lia.
Qed.

(* one call: the invariant is kept, the kind of sequence is kept, and the
   look-up table never misses (no ValueError from list.index) *)
Theorem seq_step_inv : forall s o, Inv s ->
  Inv (fst (seq_step s o)) /\ q_mode (fst (seq_step s o)) = q_mode s /\
  snd (seq_step s o) <> Err EValue.
Proof.
  intros [m its lg] o Hs. pose proof Hs as [Hp [Hi Hl]]. cbn [q_log q_items q_mode] in *.
  destruct o; cbn [seq_step q_log q_items q_mode].
  - (* append *)
    destruct (check_item m i) as [[]|e] eqn:E.
    + cbn [fst snd]. split; [apply (append_inv (CSeq m its lg)); assumption|]. split; [reflexivity|discriminate].
    + cbn [fst snd]. split; [exact Hs|]. split; [reflexivity|].
      intros H. inversion H. eapply check_item_not_evalue; eassumption.
  - (* insert *)
    destruct (check_item m i) as [[]|e] eqn:E.
    + cbn [fst snd q_mode]. split; [|split; [reflexivity|discriminate]].
      set (k := clamp (len its) pos).
      destruct (splice_inv m its lg k k [i] (le_n k) Hs) as [lg' [Hr Hinv]]; [constructor; [exact E|constructor]|].
      rewrite Nat.sub_diag in Hr. cbn [firstn log_remove] in Hr. inversion Hr; subst.
      unfold splice in Hinv. cbn [app] in Hinv. exact Hinv.
    + cbn [fst snd]. split; [exact Hs|]. split; [reflexivity|].
      intros H. inversion H. eapply check_item_not_evalue; eassumption.
  - (* seq[idx] = i *)
    destruct (norm_idx (len its) idx) as [k|]; [|cbn; split; [exact Hs|split; [reflexivity|discriminate]]].
    destruct (check_item m i) as [[]|e] eqn:E.
    + destruct (splice_inv m its lg k (S k) [i] (Nat.le_succ_diag_r k) Hs) as [lg' [Hr Hinv]];
        [constructor; [exact E|constructor]|].
      replace (S k - k)%nat with 1%nat in Hr by lia. rewrite Hr. cbn [fst snd q_mode].
      split; [exact Hinv|]. split; [reflexivity|discriminate].
    + cbn [fst snd]. split; [exact Hs|]. split; [reflexivity|].
      intros H. inversion H. eapply check_item_not_evalue; eassumption.
  - (* del seq[idx] *)
    destruct (norm_idx (len its) idx) as [k|]; [|cbn; split; [exact Hs|split; [reflexivity|discriminate]]].
    destruct (splice_inv m its lg k (S k) [] (Nat.le_succ_diag_r k) Hs) as [lg' [Hr Hinv]]; [constructor|].
    replace (S k - k)%nat with 1%nat in Hr by lia. rewrite Hr. cbn [fst snd q_mode].
    rewrite app_nil_r in Hinv. split; [exact Hinv|]. split; [reflexivity|discriminate].
  - (* extend *)
    destruct (extend_inv l (CSeq m its lg) Hs) as [H1 [H2 H3]]. auto.
  - (* seq[lo:hi] = l *)
    set (a := clamp (len its) lo). set (b := Nat.max a (clamp (len its) hi)).
    destruct (mapM (check_item m) l) as [us|e] eqn:E.
    + assert (Hn : Forall (ok_in m) l) by (apply (mapM_unit_ok (check_item m)); eauto).
      destruct (splice_inv m its lg a b l (Nat.le_max_l _ _) Hs Hn) as [lg' [Hr Hinv]].
      rewrite Hr. cbn [fst snd q_mode]. split; [exact Hinv|]. split; [reflexivity|discriminate].
    + cbn [fst snd]. split; [exact Hs|]. split; [reflexivity|].
      intros H. inversion H; subst. clear H.
      assert (He : exists pre x post, l = pre ++ x :: post /\ check_item m x = Err EValue).
      { clear -E. revert E. induction l as [|x l IH]; cbn [mapM]; [discriminate|].
        destruct (check_item m x) as [[]|e] eqn:Ex; cbn [bind].
        - destruct (mapM (check_item m) l) as [us|e] eqn:El; cbn [bind]; [discriminate|].
          intros H. destruct (IH H) as [pre [y [post [-> Hy]]]]. exists (x :: pre), y, post. auto.
        - intros H. inversion H; subst. exists [], x, l. auto. }
      destruct He as [pre [x [post [_ Hx]]]]. eapply check_item_not_evalue; [exact Hx|reflexivity].
  - (* del seq[lo:hi] *)
    set (a := clamp (len its) lo). set (b := Nat.max a (clamp (len its) hi)).
    destruct (splice_inv m its lg a b [] (Nat.le_max_l _ _) Hs) as [lg' [Hr Hinv]]; [constructor|].
    rewrite Hr. cbn [fst snd q_mode]. rewrite app_nil_r in Hinv.
    split; [exact Hinv|]. split; [reflexivity|discriminate].
Qed.

Lemma seq_new_inv : forall m items s, seq_new m items = Ok s -> Inv s /\ q_mode s = m.
Proof.
  intros m items s H. apply seq_new_spec in H. destruct H as [-> HF].
  split; [|reflexivity]. unfold Inv, PermK. cbn. split; [apply Permutation_refl|split; exact HF].
Qed.

Theorem seq_run_inv : forall ops s, Inv s ->
  Inv (fst (seq_run s ops)) /\ q_mode (fst (seq_run s ops)) = q_mode s /\
  Forall (fun r => r <> Err EValue) (snd (seq_run s ops)).
Proof.
  induction ops as [|o ops IH]; intros s Hs; cbn [seq_run].
  - cbn. auto.
  - destruct (seq_step_inv s o Hs) as [H1 [H2 H3]]. destruct (seq_step s o) as [s1 r]. cbn [fst snd] in *.
    destruct (IH s1 H1) as [H4 [H5 H6]]. destruct (seq_run s1 ops) as [s2 rs]. cbn [fst snd] in *.
    split; [exact H4|]. split; [congruence|]. constructor; assumption.
Qed.

(* ---- the queries ---- *)
Lemma vstr_opt_inj : forall a b, vstr_opt a = vstr_opt b -> a = b.
Proof. intros [a|] [b|] H; cbn in H; congruence. Qed.

Lemma named_key : forall n a b, key_obs a = key_obs b -> named n a = named n b.
Proof.
  intros n [ca na ra va ka] [cb nb rb vb kb] H. unfold key_obs in H. cbn [blank obs_item] in H.
  unfold named, key_eqb. cbn [i_name].
  unfold obs_code, blank_code in H. cbn [c_value c_scheme c_meaning c_version] in H.
  inversion H.
  match goal with h : vstr_opt _ = vstr_opt _ |- _ => apply vstr_opt_inj in h end.
  congruence.
Qed.

Lemma ostr_eqb_refl : forall a, ostr_eqb a a = true.
Proof. intros [a|]; cbn; [apply String.eqb_refl|reflexivity]. Qed.
Lemma key_eqb_refl : forall n, key_eqb n n = true.
Proof. intros n. unfold key_eqb. rewrite !String.eqb_refl, ostr_eqb_refl. reflexivity. Qed.

Lemma perm_filter : forall {A} (p : A -> bool) l1 l2, Permutation l1 l2 ->
  Permutation (filter p l1) (filter p l2).
Proof.
  intros A p l1 l2 H. induction H; cbn [filter].
  - constructor.
  - destruct (p x); [apply perm_skip|]; assumption.
  - destruct (p x), (p y); try apply Permutation_refl. apply perm_swap.
  - eapply Permutation_trans; eassumption.
Qed.

Lemma map_filter_pointwise : forall {A B} (f : A -> B) (p : A -> bool),
  (forall a b, f a = f b -> p a = p b) ->
  forall l1 l2, map f l1 = map f l2 -> map f (filter p l1) = map f (filter p l2).
Proof.
  intros A B f p Hc. induction l1 as [|x l1 IH]; intros [|y l2] H; try discriminate; [reflexivity|].
  cbn [map] in H. inversion H as [[Hx Hl]]. cbn [filter]. rewrite (Hc x y Hx).
  destruct (p y); cbn [map]; [rewrite Hx; f_equal|]; apply IH; exact Hl.
Qed.

Lemma permK_filter : forall n l1 l2, PermK l1 l2 -> PermK (filter (named n) l1) (filter (named n) l2).
Proof.
  intros n l1 l2 H. unfold PermK in *.
  destruct (Permutation_map_inv key_obs l2 H) as [l3 [H1 H2]].
  rewrite (map_filter_pointwise key_obs (named n) (named_key n) l1 l3 H1).
  apply Permutation_map. apply Permutation_sym. apply perm_filter. exact H2.
Qed.

Lemma Forall_filter : forall {A} (P : A -> Prop) p l, Forall P l -> Forall P (filter p l).
Proof.
  intros A P p l H. apply Forall_forall. intros x Hx. apply filter_In in Hx.
  rewrite Forall_forall in H. apply H. tauto.
Qed.

(* find(name): exactly the items of the sequence that carry this name
   (same value, scheme, version) - up to order and code meanings *)
Theorem seq_find_spec : forall s n, Inv s ->
  seq_find s n = Ok (filter (named n) (q_log s)) /\
  PermK (filter (named n) (q_log s)) (filter (named n) (q_items s)) /\
  Forall (ok_in (q_mode s)) (filter (named n) (q_log s)).
Proof.
  intros s n [Hp [Hi Hl]]. unfold seq_find.
  assert (HF : Forall (ok_in (q_mode s)) (filter (named n) (q_log s))) by (apply Forall_filter; exact Hl).
  destruct (proj2 (mapM_unit_ok (check_item (q_mode s)) _) HF) as [us ->]. cbn [bind].
  split; [reflexivity|]. split; [apply permK_filter; exact Hp|exact HF].
Qed.

(* when nothing was ever inserted or replaced, find is the filter itself *)
Corollary seq_find_fresh : forall m items s n, seq_new m items = Ok s ->
  seq_find s n = Ok (filter (named n) items).
Proof.
  intros m items s n H. destruct (seq_new_inv _ _ _ H) as [Hinv _].
  destruct (seq_find_spec s n Hinv) as [Hf _]. apply seq_new_spec in H. destruct H as [-> _]. exact Hf.
Qed.

Theorem seq_nodes_spec : forall s, Inv s -> seq_nodes s = Ok (filter has_kids (q_items s)).
Proof.
  intros s [_ [Hi _]]. unfold seq_nodes.
  assert (HF : Forall (ok_in (q_mode s)) (filter has_kids (q_items s))) by (apply Forall_filter; exact Hi).
  destruct (proj2 (mapM_unit_ok (check_item (q_mode s)) _) HF) as [us ->]. reflexivity.
Qed.

Lemma find_index_spec : forall {A} (p : A -> bool) l,
  match find_index p l with
  | Some k => 0 <= k < len l /\
              (exists x, nth_error l (Z.to_nat k) = Some x /\ p x = true) /\
              (forall j x, (j < Z.to_nat k)%nat -> nth_error l j = Some x -> p x = false)
  | None => existsb p l = false
  end.
Proof.
  intros A p. induction l as [|x l IH]; cbn [find_index]; [reflexivity|].
  destruct (p x) eqn:Ex.
  - unfold len. cbn [List.length]. split; [lia|]. split; [exists x; auto|]. intros j y Hj. cbn in Hj. lia.
  - destruct (find_index p l) as [k|].
    + destruct IH as [Hk [[y [Hy Hpy]] Hbefore]]. unfold len in *. cbn [List.length].
      replace (Z.to_nat (k + 1)) with (S (Z.to_nat k)) by lia.
      split; [lia|]. split; [exists y; auto|].
      intros j z Hj Hz. destruct j as [|j]; cbn in Hz; [congruence|]. eapply Hbefore; [|exact Hz]. lia.
    + cbn [existsb]. rewrite Ex, IH. reflexivity.
Qed.

Lemma contains_via_table : forall s v, Inv s ->
  existsb (item_eqb v) (filter (named (i_name v)) (q_log s)) = existsb (item_eqb v) (q_items s).
Proof.
  intros s v [Hp _]. unfold PermK in Hp. apply Bool.eq_true_iff_eq. rewrite !existsb_exists. split.
  - intros [x [Hx Hv]]. apply filter_In in Hx. destruct Hx as [Hx _]. apply item_eqb_true in Hv.
    assert (Hin : In (key_obs x) (map key_obs (q_items s))).
    { eapply Permutation_in; [exact Hp|]. apply in_map. exact Hx. }
    apply in_map_iff in Hin. destruct Hin as [y [Hy Hyin]]. exists y. split; [exact Hyin|].
    apply item_eqb_true. congruence.
  - intros [y [Hy Hv]]. apply item_eqb_true in Hv.
    assert (Hin : In (key_obs y) (map key_obs (q_log s))).
    { eapply Permutation_in; [apply Permutation_sym; exact Hp|]. apply in_map. exact Hy. }
    apply in_map_iff in Hin. destruct Hin as [x [Hx Hxin]]. exists x. split.
    + apply filter_In. split; [exact Hxin|].
      rewrite (named_key (i_name v) x v) by congruence. apply key_eqb_refl.
    + apply item_eqb_true. congruence.
Qed.

(* index / in: the first item equal to the argument (code meanings apart) *)
Theorem seq_index_spec : forall s v, Inv s ->
  seq_contains s v = existsb (item_eqb v) (q_items s) /\
  (forall k, seq_index s v = Ok k ->
     0 <= k < len (q_items s) /\
     (exists x, nth_error (q_items s) (Z.to_nat k) = Some x /\ item_eqb v x = true) /\
     (forall j x, (j < Z.to_nat k)%nat -> nth_error (q_items s) j = Some x -> item_eqb v x = false)) /\
  (existsb (item_eqb v) (q_items s) = false -> seq_index s v = Err EValue).
Proof.
  intros s v Hs. unfold seq_contains, seq_index. rewrite (contains_via_table s v Hs).
  pose proof (find_index_spec (item_eqb v) (q_items s)) as Hf.
  destruct (existsb (item_eqb v) (q_items s)) eqn:Ee.
  - destruct (find_index (item_eqb v) (q_items s)) as [k|]; [|congruence].
    split; [reflexivity|]. split; [|discriminate]. intros k' Hk'. inversion Hk'; subst. exact Hf.
  - split; [reflexivity|]. split; [discriminate|reflexivity].
Qed.

(* ================================================================== *)
(* 4. end-to-end statements                                            *)

(* the property sentence in one statement: an admissible item is built
   unchanged, its accessors report what it was built with, and its dataset
   parses - by its own class, through the two-phase functions, and through
   from_sequence of every kind of sequence that takes it - to the same item
   (same class, name, relationship, value and nested content) *)
Theorem end_to_end : forall t, wf t -> valid t ->
  construct t = Ok t /\
  (read_value (i_cls t) (to_attrs t) = Ok (i_value t) /\
   read_rel (to_attrs t) = Ok (i_rel t) /\
   bind (get "ConceptNameCodeSequence" (to_attrs t)) code_first = Ok (i_name t)) /\
  parse (Some (i_cls t)) (to_ds t) = Ok t /\
  parse2 (Some (i_cls t)) (to_ds t) = Ok t /\
  (forall m, ok_in m t -> from_sequence_m m [to_ds t] = Ok [t]) /\
  (i_rel t <> None -> from_sequence [to_ds t] = Ok [t] /\ from_sequence2 [to_ds t] = Ok [t]).
Proof.
  intros t Hwf Hval. split; [apply construct_ok; assumption|].
  destruct (parse_serialise t Hwf) as [Hp Hd].
  split.
  - destruct t as [c n r v ks]. pose proof Hwf as Hw. apply wf_unfold in Hw. destruct Hw as [-> [Hv _]].
    rewrite to_attrs_eq. cbn [i_cls i_value i_rel i_name].
    split; [apply accessor_identity; exact Hv|]. split; [apply read_rel_ok|].
    unfold get. rewrite lookup_name. cbn [bind]. apply code_first_roundtrip.
  - split; [exact Hp|]. split; [apply parse_two_phase; exact Hp|]. split.
    + intros m Hm. apply (from_sequence_m_roundtrip m [t]); constructor; auto.
    + intros Hr.
      assert (H1 : from_sequence [to_ds t] = Ok [t]).
      { apply (from_sequence_roundtrip [t]). constructor; [split; assumption|constructor]. }
      split; [exact H1|]. apply from_sequence_two_phase. exact H1.
Qed.

Lemma assert_value_type_spec : forall c a,
  assert_value_type (class_vt c) a = Ok tt <->
  (lookup "ValueType" a = Some (DStr (vt_str (class_vt c))) /\
   forall k, In k (required c) -> lookup k a <> None).
Proof.
  intros c a. unfold assert_value_type, assert_value_type_in. rewrite required_total. split.
  - intros H. destruct (lookup "ValueType" a) as [d|]; [|discriminate].
    destruct d; try discriminate.
    destruct (String.eqb s (vt_str (class_vt c))) eqn:Es; [|discriminate].
    apply String.eqb_eq in Es. subst s. cbn [negb] in H.
    destruct (forallb (fun k => has k a) (required c)) eqn:Ef; [|discriminate].
    split; [reflexivity|]. intros k Hk. rewrite forallb_forall in Ef. specialize (Ef k Hk).
    unfold has in Ef. destruct (lookup k a); congruence.
  - intros [-> Hr]. rewrite String.eqb_refl. cbn [negb].
    replace (forallb (fun k => has k a) (required c)) with true; [reflexivity|].
    symmetry. apply forallb_forall. intros k Hk. specialize (Hr k Hk). unfold has.
    destruct (lookup k a); congruence.
Qed.

(* the class-specific conversions of X.from_dataset *)
Definition value_codes (c : ctag) (a : attrs) : res unit :=
  match c with
  | CodeContentItem => discard (bind (get "ConceptCodeSequence" a) code_first)
  | NumContentItem =>
      bind (get "MeasuredValueSequence" a) (fun s =>
      bind (first_item s) (fun it =>
      bind (discard (bind (get "MeasurementUnitsCodeSequence" it) code_first)) (fun _ =>
      match lookup "NumericValueQualifierCodeSequence" a with
      | None => Ok tt
      | Some s => discard (code_first s)
      end)))
  | _ => Ok tt
  end.

(* X.from_dataset accepts EXACTLY the datasets with the asserted value type,
   every required attribute, a complete concept name (or none, for the six
   classes where it is optional), acceptable children that all carry a valid
   relationship type, and complete coded concepts in the value *)
Theorem from_dataset_accepts_iff : forall c a,
  accept (Some c) (DSet a) = Ok tt <->
  (lookup "ValueType" a = Some (DStr (vt_str (class_vt c))) /\
   (forall k, In k (required c) -> lookup k a <> None) /\
   match lookup "ConceptNameCodeSequence" a with
   | Some s => exists n, code_first s = Ok n
   | None => mem (ctag_str c) optional_name_classes = true
   end /\
   match lookup "ContentSequence" a with
   | None => True
   | Some (DSeq items) => Forall (fun d => accept None d = Ok tt) items /\
                          Forall (fun d => rel_present d = Ok tt) items
   | Some _ => False
   end /\
   value_codes c a = Ok tt).
Proof.
  intros c a. rewrite accept_unfold. unfold accept_body. cbn [bind].
  rewrite <- and_assoc. rewrite <- assert_value_type_spec.
  destruct (assert_value_type (class_vt c) a) as [[]|e]; cbn [bind];
    [|split; [discriminate|intros [H _]; discriminate]].
  fold (value_codes c a).
  assert (Hk : match akids_of a with None => Ok tt | Some r => r end = Ok tt <->
               match lookup "ContentSequence" a with
               | None => True
               | Some (DSeq items) => Forall (fun d => accept None d = Ok tt) items /\
                                      Forall (fun d => rel_present d = Ok tt) items
               | Some _ => False
               end).
  { unfold akids_of. destruct (lookup "ContentSequence" a) as [v|]; [|tauto].
    destruct v; try (split; [discriminate|tauto]).
    rewrite <- !(mapM_unit_ok). rewrite <- !discard_ok.
    destruct (discard (mapM (accept None) items)) as [[]|]; cbn [bind]; [tauto|].
    split; [discriminate|intros [H _]; discriminate]. }
  destruct (lookup "ConceptNameCodeSequence" a) as [s|].
  - cbn [bind]. destruct (match akids_of a with None => Ok tt | Some r => r end) as [[]|e]; cbn [bind].
    + rewrite <- discard_ok. destruct (discard (code_first s)) as [[]|]; cbn [bind].
      * destruct Hk as [Hk _]. specialize (Hk eq_refl). tauto.
      * split; [discriminate|]. intros [_ [H _]]. discriminate.
    + split; [discriminate|]. intros [_ [_ [H _]]]. apply Hk in H. discriminate.
  - destruct (mem (ctag_str c) optional_name_classes); cbn [bind].
    + destruct (match akids_of a with None => Ok tt | Some r => r end) as [[]|e]; cbn [bind].
      * destruct Hk as [Hk _]. specialize (Hk eq_refl). tauto.
      * split; [discriminate|]. intros [_ [_ [H _]]]. apply Hk in H. discriminate.
    + split; [discriminate|]. intros [_ [H _]]. discriminate.
Qed.

(* what "complete coded concept" means in that characterisation: every coded
   concept of an accepted item - its name, the CODE value, the NUM unit and
   qualifier - has exactly one code value attribute, Code Meaning AND Coding
   Scheme Designator, whichever of the three attributes carries the code *)
Theorem item_concepts_complete : forall c a, accept (Some c) (DSet a) = Ok tt ->
  (forall s, lookup "ConceptNameCodeSequence" a = Some s -> complete_concept s) /\
  (c = CodeContentItem ->
   exists s, lookup "ConceptCodeSequence" a = Some s /\ complete_concept s) /\
  (c = NumContentItem ->
   exists ms it u, lookup "MeasuredValueSequence" a = Some ms /\ first_item ms = Ok it /\
     lookup "MeasurementUnitsCodeSequence" it = Some u /\ complete_concept u /\
     (forall q, lookup "NumericValueQualifierCodeSequence" a = Some q -> complete_concept q)).
Proof.
  intros c a H. apply from_dataset_accepts_iff in H. destruct H as [_ [_ [Hn [_ Hv]]]].
  split; [|split].
  - intros s Hs. rewrite Hs in Hn. destruct Hn as [n Hn]. eapply code_first_complete; eassumption.
  - intros ->. cbn [value_codes] in Hv. apply discard_ok in Hv. destruct Hv as [x Hv].
    unfold get in Hv. destruct (lookup "ConceptCodeSequence" a) as [s|] eqn:E; [|discriminate].
    cbn [bind] in Hv. exists s. split; [reflexivity|]. eapply code_first_complete; eassumption.
  - intros ->. cbn [value_codes] in Hv. unfold get in Hv.
    destruct (lookup "MeasuredValueSequence" a) as [ms|] eqn:E; [|discriminate]. cbn [bind] in Hv.
    destruct (first_item ms) as [it|] eqn:Ei; [|discriminate]. cbn [bind] in Hv.
    destruct (lookup "MeasurementUnitsCodeSequence" it) as [u|] eqn:Eu; [|discriminate]. cbn [bind] in Hv.
    destruct (code_first u) as [n|] eqn:En; [|discriminate]. unfold discard at 1 in Hv. cbn [bind] in Hv.
    exists ms, it, u.
    split; [reflexivity|]. split; [exact Ei|]. split; [exact Eu|]. split.
    + eapply code_first_complete; eassumption.
    + intros q Hq. rewrite Hq in Hv. apply discard_ok in Hv. destruct Hv as [x Hv].
      eapply code_first_complete; eassumption.
Qed.

Corollary item_incomplete_name_rejected : forall c a s,
  lookup "ConceptNameCodeSequence" a = Some s -> ~ complete_concept s ->
  accept (Some c) (DSet a) <> Ok tt.
Proof.
  intros c a s Hs Hn H. apply item_concepts_complete in H. destruct H as [H _]. auto.
Qed.

(* the default flags are the SR kind: from_sequence_m MSr is from_sequence2 *)
Lemma dispatch_sr : forall a, dispatch_m MSr a = check_and_dispatch a.
Proof.
  intros a. unfold dispatch_m, check_and_dispatch.
  destruct (lookup "ValueType" a) as [[]|]; try reflexivity.
Qed.

Lemma accept_none_some : forall a,
  accept None (DSet a) = bind (check_and_dispatch a) (fun c => accept (Some c) (DSet a)).
Proof.
  intros a. rewrite accept_unfold. unfold accept_body.
  destruct (check_and_dispatch a) as [c|e]; cbn [bind]; [|reflexivity].
  rewrite accept_unfold. reflexivity.
Qed.

Lemma read_none_some : forall a,
  read None (DSet a) = bind (check_and_dispatch a) (fun c => read (Some c) (DSet a)).
Proof.
  intros a. rewrite read_unfold. unfold read_body.
  destruct (check_and_dispatch a) as [c|e]; cbn [bind]; [|reflexivity].
  rewrite read_unfold. reflexivity.
Qed.

Theorem from_sequence_m_default : forall items ks,
  from_sequence_m MSr items = Ok ks <-> from_sequence2 items = Ok ks.
Proof.
  intros items ks. unfold from_sequence_m, accept_sequence_m, from_sequence2, accept_sequence.
  (* item-wise correspondence *)
  assert (HA : forall ds, (forall cs, mapM (accept_item_m MSr) ds = Ok cs ->
                 (exists us, mapM (accept None) ds = Ok us) /\
                 (forall us, mapM (present_m MSr) (combine cs ds) = Ok us -> exists us', mapM rel_present ds = Ok us') /\
                 mapM (fun cd => read (Some (fst cd)) (snd cd)) (combine cs ds) = mapM (read None) ds) /\
               ((exists us, mapM (accept None) ds = Ok us) -> (exists us', mapM rel_present ds = Ok us') ->
                 exists cs, mapM (accept_item_m MSr) ds = Ok cs /\
                            exists us, mapM (present_m MSr) (combine cs ds) = Ok us)).
  { induction ds as [|d ds [IH1 IH2]].
    - split.
      + intros cs H. cbn in H. inversion H; subst. cbn. repeat split; eauto.
      + intros _ _. exists []. cbn. eauto.
    - split.
      + intros cs H. cbn [mapM] in H. bok H. bok H. inversion H; subst. clear H.
        destruct (IH1 _ E0) as [[us Hu] [Hpr Hrd]].
        destruct d as [| | | | |a]; try discriminate. cbn [accept_item_m] in E.
        bok E. bok E. inversion E; subst. clear E. rewrite dispatch_sr in E1.
        split; [|split].
        * cbn [mapM]. rewrite accept_none_some, E1. cbn [bind]. destruct x2. rewrite E2. cbn [bind].
          rewrite Hu. cbn [bind]. eauto.
        * intros us' Hp. cbn [combine mapM] in Hp. bok Hp. bok Hp.
          unfold present_m in E. cbn [fst snd] in E. bok E. cbn [mapM rel_present]. rewrite E4. cbn [bind].
          destruct x4 as [r|]; [|discriminate]. cbn [bind].
          destruct (Hpr _ E3) as [us'' ->]. cbn [bind]. eauto.
        * cbn [combine mapM fst snd]. rewrite Hrd. rewrite read_none_some, E1. reflexivity.
      + intros [us Hu] [us' Hu']. cbn [mapM] in Hu, Hu'. bok Hu. bok Hu. bok Hu'. bok Hu'.
        destruct (IH2 (ex_intro _ _ E0) (ex_intro _ _ E2)) as [cs [Hcs [us2 Hus2]]].
        destruct d as [| | | | |a]; try discriminate.
        rewrite accept_none_some in E. bok E. cbn [rel_present] in E1. bok E1.
        exists (x3 :: cs). cbn [mapM accept_item_m]. rewrite dispatch_sr, E3. cbn [bind].
        destruct x. rewrite E. cbn [bind]. rewrite Hcs. cbn [bind]. split; [reflexivity|].
        cbn [combine mapM]. unfold present_m at 1. cbn [fst snd]. rewrite E4. cbn [bind].
        destruct x4 as [r|]; [|discriminate]. cbn [mode_rule bind]. rewrite Hus2. cbn [bind]. eauto. }
  destruct (HA items) as [H1 H2]. split.
  - intros H. bok H. bok E. bok E. inversion E; subst. clear E.
    destruct (H1 _ E0) as [[us Hu] [Hpr Hrd]]. rewrite Hu. cbn [discard bind].
    destruct (Hpr _ E1) as [us' ->]. cbn [bind]. rewrite <- Hrd. exact H.
  - intros H. bok H. destruct x. bok E. destruct x.
    apply discard_ok in E0. apply discard_ok in E.
    destruct (H2 E0 E) as [cs [Hcs [us Hus]]]. rewrite Hcs. cbn [bind]. rewrite Hus. cbn [bind].
    destruct (H1 _ Hcs) as [_ [_ Hrd]]. rewrite Hrd. exact H.
Qed.

(* every state reachable from ContentSequence(items, is_root, is_sr) by any
   sequence of calls satisfies the invariant *)
Theorem seq_reachable : forall is_root is_sr init ops m s0,
  mode_of is_root is_sr = Ok m -> seq_new m init = Ok s0 ->
  let s := fst (seq_run s0 ops) in
  Inv s /\ q_mode s = m /\ Forall (fun r => r <> Err EValue) (snd (seq_run s0 ops)).
Proof.
  intros is_root is_sr init ops m s0 _ Hn. cbn zeta.
  destruct (seq_new_inv _ _ _ Hn) as [Hi Hm].
  destruct (seq_run_inv ops s0 Hi) as [H1 [H2 H3]]. split; [exact H1|]. split; [congruence|exact H3].
Qed.

(* what the invariant says about the items: each suits the kind of sequence *)
Lemma inv_items : forall s, Inv s ->
  Forall (fun i => match q_mode s with
                   | MRoot => i_rel i = None /\ i_cls i = ContainerContentItem
                   | MSr => i_rel i <> None
                   | MCtx => i_rel i = None
                   end) (q_items s).
Proof.
  intros s [_ [Hi _]]. eapply Forall_impl; [|exact Hi]. intros i Ho.
  unfold ok_in, check_item in Ho. apply (proj1 (mode_rule_spec _ _ _)) in Ho. exact Ho.
Qed.

(* ================================================================== *)
(* 5. the template content items of sr/content.py                      *)

(* without the assertion (defect D103, found by this check and fixed in /repo)
   from_dataset accepts a dataset of another value type that lacks a required
   attribute *)
Definition sub_witness : attrs :=
  [("ValueType", DStr "TEXT");
   ("ConceptNameCodeSequence", DSeq [code_ds (Code "1" "99X" "n" None)]);
   ("RelationshipType", DStr "CONTAINS"); ("TextValue", DStr "hello")].

Lemma subclass_from_dataset_refuted : exists parent a,
  accept_sub false parent (DSet a) = Ok tt /\
  lookup "ValueType" a <> Some (DStr (vt_str (class_vt parent))) /\
  (exists k, In k (required parent) /\ lookup k a = None) /\
  accept (Some parent) (DSet a) = Err EValue.
Proof.
  exists ScoordContentItem, sub_witness. split; [vm_compute; reflexivity|].
  split; [vm_compute; discriminate|]. split; [|vm_compute; reflexivity].
  exists "GraphicData". split; [vm_compute; tauto|reflexivity].
Qed.

(* with the assertion in place (asserts = true) the clause holds *)
Lemma subclass_from_dataset_asserting : forall parent a,
  accept_sub true parent (DSet a) = Ok tt ->
  lookup "ValueType" a = Some (DStr (vt_str (class_vt parent))) /\
  (forall k, In k (required parent) -> lookup k a <> None) /\
  lookup "ConceptNameCodeSequence" a <> None.
Proof.
  intros parent a H. cbn [accept_sub] in H. bok H. destruct x.
  apply assert_value_type_spec in E. destruct E as [E1 E2]. split; [exact E1|]. split; [exact E2|].
  bok H. bok H. unfold get in E0. destruct (lookup "ConceptNameCodeSequence" a); [discriminate|discriminate].
Qed.

(* what they do check today: Value Type present, name present and complete *)
Lemma subclass_from_dataset_checks : forall b parent a,
  accept_sub b parent (DSet a) = Ok tt ->
  lookup "ValueType" a <> None /\
  exists s n, lookup "ConceptNameCodeSequence" a = Some s /\ code_first s = Ok n.
Proof.
  intros b parent a H. cbn [accept_sub] in H. bok H. bok H. bok H. bok H.
  unfold has in E0. split; [destruct (lookup "ValueType" a); [discriminate|discriminate]|].
  unfold get in E1. destruct (lookup "ConceptNameCodeSequence" a) as [s|]; [|discriminate].
  inversion E1; subst. apply discard_ok in H. destruct H as [n Hn]. eauto.
Qed.

(* full-strength statements for the code as it is now (asserts = true) *)
Lemma assert_value_type_errors : forall c a,
  (lookup "ValueType" a = None -> assert_value_type (class_vt c) a = Err EAttr) /\
  (forall d, lookup "ValueType" a = Some d -> d <> DStr (vt_str (class_vt c)) ->
             assert_value_type (class_vt c) a = Err EValue) /\
  (forall k, lookup "ValueType" a = Some (DStr (vt_str (class_vt c))) ->
             In k (required c) -> lookup k a = None -> assert_value_type (class_vt c) a = Err EAttr).
Proof.
  intros c a. unfold assert_value_type, assert_value_type_in. repeat split.
  - intros ->. reflexivity.
  - intros d -> Hd. destruct d; try reflexivity.
    destruct (String.eqb s (vt_str (class_vt c))) eqn:E; [|reflexivity].
    apply String.eqb_eq in E. congruence.
  - intros k -> Hin Hk. rewrite String.eqb_refl. cbn [negb]. rewrite required_total.
    destruct (forallb (fun k0 => has k0 a) (required c)) eqn:E; [|reflexivity].
    rewrite forallb_forall in E. specialize (E k Hin). unfold has in E. rewrite Hk in E. discriminate.
Qed.

Theorem subclass_from_dataset_iff : forall parent a,
  accept_sub true parent (DSet a) = Ok tt <->
  (lookup "ValueType" a = Some (DStr (vt_str (class_vt parent))) /\
   (forall k, In k (required parent) -> lookup k a <> None) /\
   (exists s n, lookup "ConceptNameCodeSequence" a = Some s /\ code_first s = Ok n) /\
   match lookup "ContentSequence" a with
   | None => True
   | Some (DSeq items) => Forall (fun d => accept None d = Ok tt) items /\
                          Forall (fun d => rel_present d = Ok tt) items
   | Some _ => False
   end).
Proof.
  intros parent a. cbn [accept_sub]. rewrite <- and_assoc. rewrite <- assert_value_type_spec.
  destruct (assert_value_type (class_vt parent) a) as [[]|e] eqn:Ea; cbn [bind];
    [|split; [discriminate|intros [H _]; discriminate]].
  apply assert_value_type_spec in Ea. destruct Ea as [Ev _].
  unfold has. rewrite Ev. cbn [bind]. unfold get.
  assert (Hk : match sub_kids a with None => Ok tt | Some r => r end = Ok tt <->
               match lookup "ContentSequence" a with
               | None => True
               | Some (DSeq items) => Forall (fun d => accept None d = Ok tt) items /\
                                      Forall (fun d => rel_present d = Ok tt) items
               | Some _ => False
               end).
  { unfold sub_kids. destruct (lookup "ContentSequence" a) as [v|]; [|tauto].
    destruct v; try (split; [discriminate|tauto]).
    rewrite <- !(mapM_unit_ok). rewrite <- !discard_ok.
    destruct (discard (mapM (accept None) items)) as [[]|]; cbn [bind]; [tauto|].
    split; [discriminate|intros [H _]; discriminate]. }
  destruct (lookup "ConceptNameCodeSequence" a) as [s|]; cbn [bind].
  - destruct (match sub_kids a with None => Ok tt | Some r => r end) as [[]|e]; cbn [bind].
    + rewrite discard_ok. destruct Hk as [Hk _]. specialize (Hk eq_refl). split.
      * intros [n Hn]. split; [tauto|]. split; [eauto|exact Hk].
      * intros [_ [[s' [n [Hs Hn]]] _]]. inversion Hs; subst. eauto.
    + split; [discriminate|]. intros [_ [_ H]]. apply Hk in H. discriminate.
  - split; [discriminate|]. intros [_ [[s [n [Hs _]]] _]]. discriminate.
Qed.

Theorem subclass_from_dataset_rejects : forall parent a,
  (lookup "ValueType" a = None -> accept_sub true parent (DSet a) = Err EAttr) /\
  (forall d, lookup "ValueType" a = Some d -> d <> DStr (vt_str (class_vt parent)) ->
             accept_sub true parent (DSet a) = Err EValue) /\
  (forall k, lookup "ValueType" a = Some (DStr (vt_str (class_vt parent))) ->
             In k (required parent) -> lookup k a = None ->
             accept_sub true parent (DSet a) = Err EAttr) /\
  (lookup "ValueType" a = Some (DStr (vt_str (class_vt parent))) ->
   (forall k, In k (required parent) -> lookup k a <> None) ->
   lookup "ConceptNameCodeSequence" a = None -> accept_sub true parent (DSet a) = Err EAttr).
Proof.
  intros parent a. destruct (assert_value_type_errors parent a) as [H1 [H2 H3]]. cbn [accept_sub].
  repeat split.
  - intros H. rewrite (H1 H). reflexivity.
  - intros d Hd Hne. rewrite (H2 d Hd Hne). reflexivity.
  - intros k Hv Hin Hk. rewrite (H3 k Hv Hin Hk). reflexivity.
  - intros Hv Hr Hn. rewrite (proj2 (assert_value_type_spec parent a) (conj Hv Hr)). cbn [bind].
    unfold has. rewrite Hv. cbn [bind]. unfold get. rewrite Hn. reflexivity.
Qed.

(* the template class accepts whatever its value-type class accepts, provided
   the concept name is there (it is never optional for them) *)
Lemma subclass_accepts_parent : forall parent a,
  accept (Some parent) (DSet a) = Ok tt -> lookup "ConceptNameCodeSequence" a <> None ->
  accept_sub true parent (DSet a) = Ok tt.
Proof.
  intros parent a H Hn. apply from_dataset_accepts_iff in H. destruct H as [Hv [Hr [Hname [Hk _]]]].
  apply subclass_from_dataset_iff. split; [exact Hv|]. split; [exact Hr|]. split; [|exact Hk].
  destruct (lookup "ConceptNameCodeSequence" a) as [s|]; [|congruence].
  destruct Hname as [n Hn']. eauto.
Qed.
