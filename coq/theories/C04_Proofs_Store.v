(* C04 - proofs about tiling a whole-matrix mask and reading it back
   (tile_then_read) and about implied = explicit positions (full_equals_sparse). *)
From Coq Require Import String ZArith List Bool Lia ZifyBool Arith Permutation.
From HD Require Import Base.Val Base.ListZ C12_Model C12_Proofs C04_Model C04_Proofs.
Import ListNotations.
Ltac Zify.zify_post_hook ::= Z.to_euclidean_division_equations.
Open Scope Z_scope.

(* ---- region read for tiles whose content is known cell by cell -------------------- *)
(* tile t shows the function g (a matrix) at its grid position, zero outside R x C *)
Definition shows (g : Z -> Z -> Z) (R C th tw : Z) (t : tile) : Prop :=
  In (t_cp t, t_rp t) (grid R C th tw) /\
  forall a b, 0 <= a < th -> 0 <= b < tw ->
    cell (t_px t) a b =
    if (t_rp t - 1 + a <? R) && (t_cp t - 1 + b <? C) then g (t_rp t - 1 + a) (t_cp t - 1 + b) else 0.

Lemma region_cellwise : forall g R C th tw ts s e cs ce i j,
  1 <= R -> 1 <= C -> 1 <= th -> 1 <= tw ->
  positions_unique ts -> (forall t, In t ts -> shows g R C th tw t) ->
  1 <= s -> e <= R + 1 -> 1 <= cs -> ce <= C + 1 -> 0 <= i < e - s -> 0 <= j < ce - cs ->
  cell (read_region ts s e cs ce th tw) i j =
  if pos_mem (tile_of th (s + i)) (tile_of tw (cs + j)) ts then g (s - 1 + i) (cs - 1 + j) else 0.
Proof.
  intros g R C th tw ts s e cs ce i j HR HC Hh Hw Hu Hsh Hs He Hcs Hce Hi Hj.
  rewrite read_region_cell by lia.
  assert (Hg : forall t, In t (sort_tiles ts) -> on_grid th tw t).
  { intros t Ht. apply (proj1 (in_sort _ _)) in Ht. eapply grid_on_grid. apply (Hsh t Ht). }
  assert (Hu' : positions_unique (sort_tiles ts)).
  { intros t t' Ht Ht'. apply (proj1 (in_sort _ _)) in Ht. apply (proj1 (in_sort _ _)) in Ht'. now apply Hu. }
  destruct (out_cell_spec (sort_tiles ts) s e cs ce th tw i j Hh Hw Hg Hu' Hs Hcs Hi Hj)
    as [(t & Ht & Hp & Eo)|[Hno Eo]]; rewrite Eo.
  - apply (proj1 (in_sort _ _)) in Ht.
    replace (pos_mem (tile_of th (s + i)) (tile_of tw (cs + j)) ts) with true
      by (symmetry; apply pos_mem_iff; now exists t).
    destruct (Hsh t Ht) as [Hin Epx]. destruct Hp as [Er Ec].
    pose proof (tile_of_bounds th (s + i) Hh). pose proof (tile_of_bounds tw (cs + j) Hw).
    rewrite Epx by lia. rewrite Er, Ec.
    replace ((tile_of th (s + i) - 1 + (s + i - tile_of th (s + i)) <? R) &&
             (tile_of tw (cs + j) - 1 + (cs + j - tile_of tw (cs + j)) <? C)) with true by lia.
    f_equal; lia.
  - destruct (pos_mem (tile_of th (s + i)) (tile_of tw (cs + j)) ts) eqn:Em; [|reflexivity].
    apply pos_mem_iff in Em as (t & Ht & Hp). exfalso. apply (Hno t); [now apply (proj2 (in_sort _ _))|exact Hp].
Qed.

(* ---- cells of scaled / all-zero tiles ------------------------------------------------ *)
Lemma cell_scale : forall k T a b, cell (scale_tile k T) a b = cell T a b * k.
Proof.
  intros k T a b. unfold cell, scale_tile.
  change (@nil Z) with (map (fun v => v * k) []) at 1. rewrite map_nth.
  change 0 with ((fun v => v * k) 0) at 1. now rewrite map_nth.
Qed.

Lemma any_nonzero_false_cell : forall T a b, any_nonzero T = false -> cell T a b = 0.
Proof.
  intros T a b H. unfold cell.
  destruct (nth_in_or_default (Z.to_nat a) T []) as [Hin|Hd].
  - destruct (nth_in_or_default (Z.to_nat b) (nth (Z.to_nat a) T []) 0) as [Hin2|Hd2]; [|exact Hd2].
    destruct (Z.eqb_spec (nth (Z.to_nat b) (nth (Z.to_nat a) T []) 0) 0) as [E|E]; [exact E|].
    exfalso. assert (any_nonzero T = true); [|congruence].
    unfold any_nonzero. apply existsb_exists. exists (nth (Z.to_nat a) T []). split; [exact Hin|].
    apply existsb_exists. exists (nth (Z.to_nat b) (nth (Z.to_nat a) T []) 0). split; [exact Hin2|].
    apply negb_true_iff. now apply Z.eqb_neq.
  - rewrite Hd. now destruct (Z.to_nat b).
Qed.

(* ---- what seg_store stores --------------------------------------------------------- *)
Definition content (ty : segtype) (mf : Z) (T : list (list Z)) : list (list Z) :=
  match ty with Fractional => scale_tile mf T | _ => T end.
Definition factor (ty : segtype) (mf : Z) : Z := match ty with Fractional => mf | _ => 1 end.
Definition kept (ty : segtype) (omit' : bool) (T : list (list Z)) : bool :=
  match ty with Labelmap => true | _ => negb (omit' && negb (any_nonzero T)) end.
Definition omit_eff (omit : bool) (planes : list plane) (R C th tw : Z) : bool :=
  omit && negb (match nonempty_positions planes R C th tw with [] => true | _ => false end).
Definition included (omit : bool) (planes : list plane) (R C th tw : Z) : list (Z * Z) :=
  if omit_eff omit planes R C th tw then nonempty_positions planes R C th tw else tile_offsets R C th tw.

Lemma NoDup_fst_inj : forall (planes : list plane) k M M',
  NoDup (map fst planes) -> In (k, M) planes -> In (k, M') planes -> M = M'.
Proof.
  induction planes as [|p r IH]; intros k M M' Hnd H1 H2; [contradiction|].
  cbn [map] in Hnd. inversion Hnd as [|x l Hnotin Hnd']; subst.
  destruct H1 as [->|H1]; destruct H2 as [E|H2].
  - now inversion E.
  - exfalso. apply Hnotin. cbn [fst]. change k with (fst (k, M')). now apply in_map.
  - subst p. exfalso. apply Hnotin. cbn [fst]. change k with (fst (k, M)). now apply in_map.
  - now apply (IH k).
Qed.

Lemma in_tiles_of_seg : forall ty mf full omit planes R C th tw st k Mk t,
  NoDup (map fst planes) -> In (k, Mk) planes ->
  seg_store ty mf full omit planes R C th tw = Ok st ->
  (In t (tiles_of_seg k st) <->
   exists pos, In pos (included omit planes R C th tw) /\
               kept ty (omit_eff omit planes R C th tw) (cut Mk R C th tw pos) = true /\
               t = mkT (snd pos) (fst pos) (content ty mf (cut Mk R C th tw pos))).
Proof.
  intros ty mf full omit planes R C th tw st k Mk t Hnd Hin Hst.
  unfold seg_store in Hst. fold (omit_eff omit planes R C th tw) in Hst.
  fold (included omit planes R C th tw) in Hst.
  destruct (full && omit_eff omit planes R C th tw); [discriminate|]. inversion Hst; subst st; clear Hst.
  set (oe := omit_eff omit planes R C th tw). set (inc := included omit planes R C th tw).
  unfold tiles_of_seg. rewrite in_map_iff. split.
  - intros (x & <- & Hx). apply filter_In in Hx as [Hx Hk]. apply in_flat_map in Hx as (pl & Hpl & Hx).
    apply in_flat_map in Hx as (pos & Hpos & Hx). exists pos. split; [exact Hpos|].
    assert (Epl : fst pl = k -> snd pl = Mk).
    { intros E. destruct pl as [k' M']. cbn [fst snd] in *. subst k'. now apply (NoDup_fst_inj planes k M' Mk). }
    unfold kept, content. destruct ty.
    + destruct (oe && negb (any_nonzero (cut (snd pl) R C th tw pos))) eqn:Es; [contradiction|].
      destruct Hx as [<-|[]]. cbn [s_seg s_tile] in *. rewrite <- (Epl ltac:(lia)). rewrite Es. split; reflexivity.
    + destruct (oe && negb (any_nonzero (cut (snd pl) R C th tw pos))) eqn:Es; [contradiction|].
      destruct Hx as [<-|[]]. cbn [s_seg s_tile] in *. rewrite <- (Epl ltac:(lia)). rewrite Es. split; reflexivity.
    + destruct Hx as [<-|[]]. cbn [s_seg s_tile] in *. rewrite <- (Epl ltac:(lia)). split; reflexivity.
  - intros (pos & Hpos & Hk & ->).
    exists (mkS k (mkT (snd pos) (fst pos) (content ty mf (cut Mk R C th tw pos)))). split; [reflexivity|].
    apply filter_In. split; [|cbn [s_seg]; lia].
    apply in_flat_map. exists (k, Mk). split; [exact Hin|]. apply in_flat_map. exists pos. split; [exact Hpos|].
    cbn [fst snd]. unfold kept, content in *. destruct ty.
    + destruct (oe && negb (any_nonzero (cut Mk R C th tw pos))); [discriminate|now left].
    + destruct (oe && negb (any_nonzero (cut Mk R C th tw pos))); [discriminate|now left].
    + now left.
Qed.

Lemma included_in_grid : forall omit planes R C th tw pos, 1 <= R -> 1 <= C -> 1 <= th -> 1 <= tw ->
  In pos (included omit planes R C th tw) -> In pos (grid R C th tw).
Proof.
  intros omit planes R C th tw pos HR HC Hh Hw H. rewrite <- tile_offsets_is_grid by lia.
  unfold included in H. destruct (omit_eff omit planes R C th tw); [|exact H].
  unfold nonempty_positions in H. now apply filter_In in H.
Qed.

(* a grid position that is not stored for plane (k, Mk) holds only zeros of Mk *)
Lemma not_stored_is_zero : forall ty omit planes R C th tw k Mk pos,
  1 <= R -> 1 <= C -> 1 <= th -> 1 <= tw -> In (k, Mk) planes -> In pos (grid R C th tw) ->
  ~ (In pos (included omit planes R C th tw) /\
     kept ty (omit_eff omit planes R C th tw) (cut Mk R C th tw pos) = true) ->
  any_nonzero (cut Mk R C th tw pos) = false.
Proof.
  intros ty omit planes R C th tw k Mk pos HR HC Hh Hw Hin Hg Hno.
  destruct (any_nonzero (cut Mk R C th tw pos)) eqn:Ea; [|reflexivity]. exfalso. apply Hno.
  rewrite <- tile_offsets_is_grid in Hg by lia. split.
  - unfold included. destruct (omit_eff omit planes R C th tw); [|exact Hg].
    unfold nonempty_positions. apply filter_In. split; [exact Hg|].
    apply existsb_exists. exists (k, Mk). split; [exact Hin|exact Ea].
  - unfold kept. destruct ty; try reflexivity; rewrite Ea; now rewrite andb_false_r.
Qed.

(* ---- tile_then_read --------------------------------------------------------------------- *)
(* every region of every stored plane reads back as that region of the plane
   (times MaximumFractionalValue for FRACTIONAL): omitted tiles are exactly
   all-zero ones and read as zeros, edge tiles are padded, for every tile size *)
Lemma tile_then_read : forall ty mf full omit planes R C th tw st k Mk s e cs ce i j,
  1 <= R -> 1 <= C -> 1 <= th -> 1 <= tw ->
  NoDup (map fst planes) -> In (k, Mk) planes -> wf_matrix Mk R C ->
  seg_store ty mf full omit planes R C th tw = Ok st ->
  1 <= s -> e <= R + 1 -> 1 <= cs -> ce <= C + 1 -> 0 <= i < e - s -> 0 <= j < ce - cs ->
  cell (read_region (tiles_of_seg k st) s e cs ce th tw) i j =
  cell Mk (s - 1 + i) (cs - 1 + j) * factor ty mf.
Proof.
  intros ty mf full omit planes R C th tw st k Mk s e cs ce i j HR HC Hh Hw Hnd Hin Hwf Hst Hs He Hcs Hce Hi Hj.
  pose proof (in_tiles_of_seg ty mf full omit planes R C th tw st k Mk) as Hmem.
  assert (Hu : positions_unique (tiles_of_seg k st)).
  { intros t t' Ht Ht' Er Ec.
    apply (Hmem t Hnd Hin Hst) in Ht as (p & _ & _ & ->). apply (Hmem t' Hnd Hin Hst) in Ht' as (p' & _ & _ & ->).
    cbn [t_rp t_cp] in Er, Ec. destruct p, p'; cbn [fst snd] in *. now subst. }
  assert (Hsh : forall t, In t (tiles_of_seg k st) -> shows (fun r c => cell Mk r c * factor ty mf) R C th tw t).
  { intros t Ht. apply (Hmem t Hnd Hin Hst) in Ht as (p & Hp & _ & ->). destruct p as [pc pr]. cbn [fst snd].
    apply included_in_grid in Hp; try lia. split; [exact Hp|]. cbn [t_rp t_cp t_px].
    intros a b Ha Hb. unfold content, factor.
    destruct ty; rewrite ?cell_scale, (cut_cell Mk R C th tw pc pr a b) by (auto; lia);
      destruct ((pr - 1 + a <? R) && (pc - 1 + b <? C)); lia. }
  rewrite (region_cellwise (fun r c => cell Mk r c * factor ty mf) R C th tw) by (auto; lia).
  destruct (pos_mem (tile_of th (s + i)) (tile_of tw (cs + j)) (tiles_of_seg k st)) eqn:Em; [reflexivity|].
  (* holder tile not stored: that tile of Mk is all zero *)
  set (pr := tile_of th (s + i)) in *. set (pc := tile_of tw (cs + j)) in *.
  assert (Hg : In (pc, pr) (grid R C th tw)) by (apply (cover_exists R C th tw (s + i) (cs + j)); lia).
  assert (Hz : any_nonzero (cut Mk R C th tw (pc, pr)) = false).
  { apply (not_stored_is_zero ty omit planes R C th tw k Mk (pc, pr)); auto.
    intros [Hinc Hk].
    assert (pos_mem pr pc (tiles_of_seg k st) = true); [|congruence].
    apply pos_mem_iff. exists (mkT pr pc (content ty mf (cut Mk R C th tw (pc, pr)))). split; [|split; reflexivity].
    apply (Hmem _ Hnd Hin Hst). exists (pc, pr). repeat split; assumption. }
  pose proof (tile_of_bounds th (s + i) Hh). pose proof (tile_of_bounds tw (cs + j) Hw).
  pose proof (any_nonzero_false_cell _ (s + i - pr) (cs + j - pc) Hz) as Hc.
  rewrite (cut_cell Mk R C th tw pc pr) in Hc by (auto; lia).
  replace ((pr - 1 + (s + i - pr) <? R) && (pc - 1 + (cs + j - pc) <? C)) with true in Hc by lia.
  replace (pr - 1 + (s + i - pr)) with (s - 1 + i) in Hc by lia.
  replace (pc - 1 + (cs + j - pc)) with (cs - 1 + j) in Hc by lia. rewrite Hc. lia.
Qed.

(* stored frames are exactly the non-omitted tiles: a tile of plane k is absent
   iff omission is in force and the tile (of the whole mask, or of the segment) is all zero *)
Lemma omitted_iff_empty : forall ty mf omit planes R C th tw st k Mk pc pr,
  1 <= R -> 1 <= C -> 1 <= th -> 1 <= tw ->
  NoDup (map fst planes) -> In (k, Mk) planes ->
  seg_store ty mf false omit planes R C th tw = Ok st -> In (pc, pr) (grid R C th tw) ->
  pos_mem pr pc (tiles_of_seg k st) = false ->
  omit = true /\ any_nonzero (cut Mk R C th tw (pc, pr)) = false.
Proof.
  intros ty mf omit planes R C th tw st k Mk pc pr HR HC Hh Hw Hnd Hin Hst Hg Hm.
  pose proof (in_tiles_of_seg ty mf false omit planes R C th tw st k Mk) as Hmem.
  assert (Hno : ~ (In (pc, pr) (included omit planes R C th tw) /\
                   kept ty (omit_eff omit planes R C th tw) (cut Mk R C th tw (pc, pr)) = true)).
  { intros [Hinc Hk]. assert (pos_mem pr pc (tiles_of_seg k st) = true); [|congruence].
    apply pos_mem_iff. exists (mkT pr pc (content ty mf (cut Mk R C th tw (pc, pr)))). split; [|split; reflexivity].
    apply (Hmem _ Hnd Hin Hst). exists (pc, pr). repeat split; assumption. }
  split; [|now apply (not_stored_is_zero ty omit planes R C th tw k Mk (pc, pr))].
  destruct omit; [reflexivity|]. exfalso. apply Hno. unfold included, omit_eff. cbn [andb]. split.
  - now rewrite tile_offsets_is_grid by lia.
  - unfold kept. now destruct ty.
Qed.

(* ---- full_equals_sparse ------------------------------------------------------------------- *)
Lemma combine_map_same : forall {A B D} (f : A -> B) (g : A -> D) l,
  combine (map f l) (map g l) = map (fun x => (f x, g x)) l.
Proof. intros. induction l as [|x l IH]; cbn; [reflexivity|now rewrite IH]. Qed.

(* an image whose explicit positions are the grid in frame order reads the same
   whether the positions are stored (TILED_SPARSE) or implied (TILED_FULL) *)
Lemma image_full_equals_sparse : forall R C th tw ts,
  map (fun t => (t_cp t, t_rp t)) ts = tile_offsets R C th tw ->
  imply_full R C th tw (map t_px ts) = ts.
Proof.
  intros R C th tw ts H. unfold imply_full. rewrite <- H, combine_map_same, map_map.
  rewrite <- (map_id ts) at 2. apply map_ext. intros [rp cp px]. reflexivity.
Qed.

Lemma flat_map_singleton : forall {A B} (f : A -> B) l, flat_map (fun x => [f x]) l = map f l.
Proof. intros. induction l as [|x l IH]; cbn; [reflexivity|now rewrite IH]. Qed.

Lemma combine_app_same : forall {A B} (l1 l2 : list A) (m1 m2 : list B), length l1 = length m1 ->
  combine (l1 ++ l2) (m1 ++ m2) = combine l1 m1 ++ combine l2 m2.
Proof.
  induction l1 as [|a l1 IH]; intros l2 m1 m2 H; destruct m1 as [|b m1]; try discriminate; [reflexivity|].
  cbn. f_equal. apply IH. now inversion H.
Qed.

Definition full_tiles (ty : segtype) (mf : Z) (planes : list plane) (R C th tw : Z) : list stile :=
  flat_map (fun pl : plane =>
    map (fun pos => mkS (fst pl) (mkT (snd pos) (fst pos) (content ty mf (cut (snd pl) R C th tw pos))))
        (tile_offsets R C th tw)) planes.

Lemma seg_store_no_omission : forall ty mf full omit planes R C th tw st,
  seg_store ty mf full omit planes R C th tw = Ok st -> omit_eff omit planes R C th tw = false ->
  st = full_tiles ty mf planes R C th tw.
Proof.
  intros ty mf full omit planes R C th tw st Hst Ho. unfold seg_store in Hst.
  fold (omit_eff omit planes R C th tw) in Hst. rewrite Ho in Hst. rewrite andb_false_r in Hst.
  inversion Hst; subst st. unfold full_tiles. apply flat_map_ext. intros pl.
  unfold content. destruct ty; cbn [andb]; apply flat_map_singleton.
Qed.

(* TILED_FULL is accepted only without effective omission, and then stores
   exactly what TILED_SPARSE without omission stores *)
Lemma seg_full_is_unomitted : forall ty mf omit planes R C th tw st,
  seg_store ty mf true omit planes R C th tw = Ok st ->
  omit_eff omit planes R C th tw = false /\
  seg_store ty mf false false planes R C th tw = Ok st.
Proof.
  intros ty mf omit planes R C th tw st Hst.
  assert (Ho : omit_eff omit planes R C th tw = false).
  { unfold seg_store in Hst. fold (omit_eff omit planes R C th tw) in Hst.
    destruct (omit_eff omit planes R C th tw); [discriminate|reflexivity]. }
  split; [exact Ho|].
  rewrite (seg_store_no_omission _ _ _ _ _ _ _ _ _ _ Hst Ho).
  unfold seg_store. cbn [andb]. f_equal. unfold full_tiles. apply flat_map_ext. intros pl.
  unfold content. destruct ty; symmetry; apply flat_map_singleton.
Qed.

(* re-deriving the positions from the frame order (segment x grid) gives back
   the explicit positions *)
Lemma seg_full_equals_sparse : forall ty mf omit planes R C th tw st,
  seg_store ty mf true omit planes R C th tw = Ok st ->
  reimply_full (map fst planes) R C th tw st = st.
Proof.
  intros ty mf omit planes R C th tw st Hst.
  destruct (seg_full_is_unomitted _ _ _ _ _ _ _ _ _ Hst) as [Ho _].
  rewrite (seg_store_no_omission _ _ _ _ _ _ _ _ _ _ Hst Ho). clear Hst Ho st.
  unfold reimply_full, full_tiles. induction planes as [|pl planes IH]; [reflexivity|].
  cbn [map flat_map]. rewrite combine_app_same by (now rewrite !map_length).
  rewrite map_app, IH. f_equal.
  rewrite combine_map_same, map_map. apply map_ext. intros pos. reflexivity.
Qed.

(* ---- the "missing frames" refusal is exact ---------------------------------------------- *)
Definition sel_pos (s e cs ce th tw : Z) (p : Z * Z) : bool :=
  selected s e th (snd p) && selected cs ce tw (fst p).
Definition positions (ts : list tile) : list (Z * Z) := map (fun t => (t_cp t, t_rp t)) ts.

Lemma count_selected_positions : forall ts s e cs ce th tw,
  count_selected ts s e cs ce th tw = Z.of_nat (length (filter (sel_pos s e cs ce th tw) (positions ts))).
Proof.
  intros. unfold count_selected, positions.
  rewrite <- (filter_map_length (fun t => (t_cp t, t_rp t)) (sel_pos s e cs ce th tw)). reflexivity.
Qed.

Lemma count_grid : forall R C th tw s e cs ce, 1 <= R -> 1 <= C -> 1 <= th -> 1 <= tw ->
  1 <= s <= R -> s <= e <= R + 1 -> 1 <= cs <= C -> cs <= ce <= C + 1 ->
  Z.of_nat (length (filter (sel_pos s e cs ce th tw) (grid R C th tw))) =
  frames_expected s e th * frames_expected cs ce tw.
Proof.
  intros R C th tw s e cs ce HR HC Hh Hw Hs He Hcs Hce.
  rewrite <- (count_check R C th tw (map (fun p => mkT (snd p) (fst p) []) (grid R C th tw)) s e cs ce) by
    (try lia; rewrite map_map; cbn [t_cp t_rp]; rewrite <- (map_id (grid R C th tw)) at 2; apply map_ext; now intros []).
  rewrite count_selected_positions. unfold positions. rewrite map_map. cbn [t_cp t_rp].
  replace (map (fun x : Z * Z => (fst x, snd x)) (grid R C th tw)) with (grid R C th tw); [reflexivity|].
  rewrite <- (map_id (grid R C th tw)) at 1. apply map_ext. now intros [].
Qed.

(* for a TILED_SPARSE image whose frames sit at distinct grid positions, the
   count test passes exactly when no grid tile meeting the region is missing *)
Lemma missing_exact : forall R C th tw ts s e cs ce, 1 <= R -> 1 <= C -> 1 <= th -> 1 <= tw ->
  NoDup (positions ts) -> incl (positions ts) (grid R C th tw) ->
  1 <= s <= R -> s <= e <= R + 1 -> 1 <= cs <= C -> cs <= ce <= C + 1 ->
  (count_selected ts s e cs ce th tw = frames_expected s e th * frames_expected cs ce tw <->
   forall p, In p (grid R C th tw) -> sel_pos s e cs ce th tw p = true -> In p (positions ts)).
Proof.
  intros R C th tw ts s e cs ce HR HC Hh Hw Hnd Hincl Hs He Hcs Hce.
  rewrite count_selected_positions, <- (count_grid R C th tw s e cs ce) by lia.
  set (sp := sel_pos s e cs ce th tw).
  assert (HndP : NoDup (filter sp (positions ts))) by now apply NoDup_filter.
  assert (HndG : NoDup (filter sp (grid R C th tw))) by (apply NoDup_filter, grid_NoDup; lia).
  assert (Hi : incl (filter sp (positions ts)) (filter sp (grid R C th tw))).
  { intros p Hp. apply filter_In in Hp as [Hp Hsel]. apply filter_In. split; [now apply Hincl|exact Hsel]. }
  split.
  - intros E p Hp Hsel.
    assert (Hrev : incl (filter sp (grid R C th tw)) (filter sp (positions ts))).
    { apply NoDup_length_incl; [exact HndP|lia|exact Hi]. }
    assert (In p (filter sp (positions ts))) by (apply Hrev, filter_In; now split).
    now apply filter_In in H.
  - intros Hall.
    assert (Hrev : incl (filter sp (grid R C th tw)) (filter sp (positions ts))).
    { intros p Hp. apply filter_In in Hp as [Hp Hsel]. apply filter_In. split; [now apply Hall|exact Hsel]. }
    pose proof (NoDup_incl_length HndP Hi). pose proof (NoDup_incl_length HndG Hrev). lia.
Qed.

(* Image.get_total_pixel_matrix on such an image: RuntimeError exactly when a
   needed tile is missing, otherwise the region *)
Lemma img_sparse_read : forall R C th tw ts ai rs re cs ce s e c0 c1,
  1 <= R -> 1 <= C -> 1 <= th -> 1 <= tw ->
  unique_positions ts = true -> NoDup (positions ts) -> incl (positions ts) (grid R C th tw) ->
  spec_region ai R C rs re cs ce = Some (s, e, c0, c1) ->
  (img_read false ts R C th tw ai rs re cs ce = Ok (read_region ts s e c0 c1 th tw) /\
   forall p, In p (grid R C th tw) -> sel_pos s e c0 c1 th tw p = true -> In p (positions ts)) \/
  (img_read false ts R C th tw ai rs re cs ce = Err "RuntimeError" /\
   exists p, In p (grid R C th tw) /\ sel_pos s e c0 c1 th tw p = true /\ ~ In p (positions ts)).
Proof.
  intros R C th tw ts ai rs re cs ce s e c0 c1 HR HC Hh Hw Hu Hnd Hincl Hsp.
  unfold img_read. rewrite Hu. cbn [negb]. unfold read_std. rewrite standardize_rc_eq by lia.
  unfold spec_region in Hsp.
  destruct (spec_start ai R rs) as [s'|] eqn:E1; [|discriminate].
  destruct (spec_end ai R re) as [e'|] eqn:E2; [|discriminate].
  destruct (spec_start ai C cs) as [c0'|] eqn:E3; [|discriminate].
  destruct (spec_end ai C ce) as [c1'|] eqn:E4; [|discriminate].
  destruct ((s' <=? e') && (c0' <=? c1')) eqn:E5; [|discriminate]. inversion Hsp; subst s' e' c0' c1'; clear Hsp.
  apply spec_start_range in E1 as R1; [|lia]. apply spec_end_range in E2 as R2; [|lia].
  apply spec_start_range in E3 as R3; [|lia]. apply spec_end_range in E4 as R4; [|lia].
  cbn [bind andb].
  pose proof (missing_exact R C th tw ts s e c0 c1 HR HC Hh Hw Hnd Hincl ltac:(lia) ltac:(lia) ltac:(lia) ltac:(lia)) as Hex.
  destruct (count_selected ts s e c0 c1 th tw =? frames_expected s e th * frames_expected c0 c1 tw) eqn:Ec; cbn [negb].
  - left. replace ((e - s <? 0) || (c1 - c0 <? 0)) with false by lia. split; [reflexivity|].
    apply Hex. lia.
  - right. split; [reflexivity|].
    (* some selected grid position is absent: otherwise the counts would agree *)
    destruct (forallb (fun p => negb (sel_pos s e c0 c1 th tw p) ||
                existsb (fun q => (fst q =? fst p) && (snd q =? snd p)) (positions ts)) (grid R C th tw)) eqn:Ef.
    + exfalso. assert (count_selected ts s e c0 c1 th tw = frames_expected s e th * frames_expected c0 c1 tw); [|lia].
      apply Hex. intros p Hp Hsel. rewrite forallb_forall in Ef. specialize (Ef p Hp). rewrite Hsel in Ef.
      cbn [negb orb] in Ef. apply existsb_exists in Ef as (q & Hq & Eq). destruct p, q; cbn [fst snd] in *.
      replace z with z1 by lia. replace z0 with z2 by lia. exact Hq.
    + assert (Hne : exists p, In p (grid R C th tw) /\
                (negb (sel_pos s e c0 c1 th tw p) ||
                 existsb (fun q => (fst q =? fst p) && (snd q =? snd p)) (positions ts)) = false).
      { clear -Ef. induction (grid R C th tw) as [|a l IH]; [discriminate|]. cbn [forallb] in Ef.
        apply andb_false_iff in Ef as [H|H]; [exists a; split; [now left|exact H]|].
        destruct (IH H) as (p & Hp & Hq). exists p. split; [now right|exact Hq]. }
      destruct Hne as (p & Hp & Hq). apply orb_false_iff in Hq as [Hs Hq]. exists p. split; [exact Hp|].
      split; [now apply negb_false_iff in Hs|]. intros Hin.
      assert (existsb (fun q => (fst q =? fst p) && (snd q =? snd p)) (positions ts) = true); [|congruence].
      apply existsb_exists. exists p. split; [exact Hin|lia].
Qed.
