(* C08 - proofs, part 5: to_patient_orientation reaches the requested orientation.
   For an affine whose every column has a strictly dominant component, on pairwise different
   patient axes ([Dom]: no 45-degree ties, no conflicts - then get_closest_patient_orientation
   is the plain arg-max rule), the result of to_patient_orientation(o) has closest orientation
   exactly o, for each of the 48 valid o, and the operation is accepted.
   Ring-generic; the order test [ltb] enters through three sign laws that hold in every
   ordered ring (instance Qc: C08_Proofs_Qc / below). *)
From Coq Require Import String ZArith List Bool Lia ZifyBool Ring.
From HD Require Import C08_Model C08_Proofs C08_Proofs_Step C08_Proofs_More C08_Proofs_Ext.
Import ListNotations.
Ltac Zify.zify_post_hook ::= Z.to_euclidean_division_equations.
Open Scope list_scope.
Open Scope Z_scope.

(* ------------------------------------------------------------------ the finite part *)
Definition sgn := (Z * bool)%type.                   (* dominant patient axis, component > 0 *)
Definition code (s : sgn) : Z := if snd s then 2 * fst s else 2 * fst s + 1.
Definition flipsig (b : bool) (s : sgn) : sgn := (fst s, xorb b (snd s)).

Definition orient_check (m0 m1 m2 : Z) (p0 p1 p2 : bool) (a b c : Z) : bool :=
  let des := [a; b; c] in
  if negb (negb (m0 =? m1) && negb (m0 =? m2) && negb (m1 =? m2)) then true
  else match normalize_orientation des with
       | Err _ => true
       | Ok _ =>
           match orient_plan [code (m0, p0); code (m1, p1); code (m2, p2)] des with
           | Ok ([pa; pb; pc], flips) =>
               let S := (flipsig (flipped flips 0) (m0, p0), flipsig (flipped flips 1) (m1, p1),
                         flipsig (flipped flips 2) (m2, p2)) in
               is_perm3 [pa; pb; pc] &&
               negb ((3 <? Z.of_nat (length flips)) || existsb (fun x => (x <? 0) || (2 <? x)) flips) &&
               list_eqb [code (sel3 S pa); code (sel3 S pb); code (sel3 S pc)] des
           | _ => false
           end
       end.

Definition three := [0; 1; 2].
Definition six := [0; 1; 2; 3; 4; 5].
Definition two := [true; false].

Lemma orient_check_all :
  forallb (fun m0 => forallb (fun m1 => forallb (fun m2 =>
  forallb (fun p0 => forallb (fun p1 => forallb (fun p2 =>
  forallb (fun a => forallb (fun b => forallb (fun c =>
    orient_check m0 m1 m2 p0 p1 p2 a b c) six) six) six) two) two) two) three) three) three = true.
Proof. vm_compute. reflexivity. Qed.

Lemma in_three : forall m, 0 <= m <= 2 -> In m three.
Proof. intros m H. unfold three. cbn. lia. Qed.
Lemma in_six : forall m, 0 <= m <= 5 -> In m six.
Proof. intros m H. unfold six. cbn. lia. Qed.
Lemma in_two : forall b, In b two.
Proof. intros []; cbn; auto. Qed.

Lemma orient_check_ok : forall m0 m1 m2 p0 p1 p2 a b c,
  0 <= m0 <= 2 -> 0 <= m1 <= 2 -> 0 <= m2 <= 2 -> 0 <= a <= 5 -> 0 <= b <= 5 -> 0 <= c <= 5 ->
  orient_check m0 m1 m2 p0 p1 p2 a b c = true.
Proof.
  intros m0 m1 m2 p0 p1 p2 a b c H0 H1 H2 Ha Hb Hc.
  pose proof orient_check_all as K.
  rewrite forallb_forall in K. specialize (K m0 (in_three _ H0)).
  rewrite forallb_forall in K. specialize (K m1 (in_three _ H1)).
  rewrite forallb_forall in K. specialize (K m2 (in_three _ H2)).
  rewrite forallb_forall in K. specialize (K p0 (in_two _)).
  rewrite forallb_forall in K. specialize (K p1 (in_two _)).
  rewrite forallb_forall in K. specialize (K p2 (in_two _)).
  rewrite forallb_forall in K. specialize (K a (in_six _ Ha)).
  rewrite forallb_forall in K. specialize (K b (in_six _ Hb)).
  rewrite forallb_forall in K. exact (K c (in_six _ Hc)).
Qed.

Lemma normalize_ok_inv : forall o d, normalize_orientation o = Ok d ->
  d = o /\ exists a b c, o = [a; b; c] /\ 0 <= a <= 5 /\ 0 <= b <= 5 /\ 0 <= c <= 5.
Proof.
  intros o d H. unfold normalize_orientation in H.
  destruct (negb (Z.of_nat (length o) =? 3)) eqn:El; [discriminate|].
  destruct (existsb (fun c => (c <? 0) || (5 <? c)) o) eqn:Ex; [discriminate|].
  destruct (_ && _); [|discriminate]. inversion H; subst d. split; [reflexivity|].
  destruct o as [|a [|b [|c [|? ?]]]]; cbn [length] in El; try (exfalso; lia).
  exists a, b, c. split; [reflexivity|]. cbn in Ex. lia.
Qed.

(* ------------------------------------------------------------------ arg-max rule *)
Section Closest.
Variable R : Type.
Variable rO : R.
Variable ropp : R -> R.
Variable ltb : R -> R -> bool.
Notation compR := (comp R).
Notation colR := (col R).
Notation okeyR := (okey R rO ropp ltb).
Notation closestR := (closest R rO ropp ltb).

(* ---- dominance *)
Definition dom (v : vec R) (m : Z) : Prop :=
  0 <= m <= 2 /\ compR v m <> rO /\
  forall i, 0 <= i <= 2 -> i <> m ->
    ltb (okeyR (compR v m)) (okeyR (compR v i)) = true /\
    ltb (okeyR (compR v i)) (okeyR (compR v m)) = false.

Lemma argsort3_head : forall v m, dom v m -> exists rest, argsort3 R rO ropp ltb v = m :: rest.
Proof.
  intros [x y z] m (Hm & _ & D). unfold argsort3. cbn [fold_left ins_sorted snd fst vx vy vz].
  assert (Hm' : m = 0 \/ m = 1 \/ m = 2) by lia.
  destruct Hm' as [-> | [-> | ->]].
  - destruct (D 1 ltac:(lia) ltac:(lia)) as (A1 & B1). destruct (D 2 ltac:(lia) ltac:(lia)) as (A2 & B2).
    cbn in A1, B1, A2, B2. rewrite B1. cbn [ins_sorted snd]. rewrite B2. cbn [map fst]. eauto.
  - destruct (D 0 ltac:(lia) ltac:(lia)) as (A1 & B1). destruct (D 2 ltac:(lia) ltac:(lia)) as (A2 & B2).
    cbn in A1, B1, A2, B2. rewrite A1. cbn [ins_sorted snd]. rewrite B2. cbn [map fst]. eauto.
  - destruct (D 0 ltac:(lia) ltac:(lia)) as (A1 & B1). destruct (D 1 ltac:(lia) ltac:(lia)) as (A2 & B2).
    cbn in A1, B1, A2, B2.
    destruct (ltb (okeyR y) (okeyR x)); cbn [ins_sorted snd]; rewrite ?A1, ?A2; cbn [map fst]; eauto.
Qed.

Lemma closest_step_dom : forall A result d m, dom (colR A d) m -> axis_used m result = false ->
  closest_step R rO ropp ltb A result d = result ++ [code (m, ltb rO (compR (colR A d) m))].
Proof.
  intros A result d m D U. unfold closest_step. destruct (argsort3_head _ _ D) as (rest & ->).
  cbn [first_unused]. rewrite U. unfold code. cbn [fst snd]. reflexivity.
Qed.

Definition Dom (A : aff R) (s0 s1 s2 : sgn) : Prop :=
  dom (c0 A) (fst s0) /\ dom (c1 A) (fst s1) /\ dom (c2 A) (fst s2) /\
  ltb rO (compR (c0 A) (fst s0)) = snd s0 /\ ltb rO (compR (c1 A) (fst s1)) = snd s1 /\
  ltb rO (compR (c2 A) (fst s2)) = snd s2 /\
  fst s0 <> fst s1 /\ fst s0 <> fst s2 /\ fst s1 <> fst s2.

Lemma code_div : forall s, code s / 2 = fst s.
Proof. intros [m []]; unfold code; cbn [fst snd]; lia. Qed.

(* get_closest_patient_orientation is the arg-max rule on a dominant affine *)
Theorem closest_dominant : forall A s0 s1 s2, Dom A s0 s1 s2 -> closestR A = [code s0; code s1; code s2].
Proof.
  intros A [m0 p0] [m1 p1] [m2 p2] (D0 & D1 & D2 & P0 & P1 & P2 & N01 & N02 & N12). cbn [fst snd] in *.
  unfold closest.
  rewrite (closest_step_dom A [] 0 m0) by (try exact D0; reflexivity).
  change (colR A 0) with (c0 A). rewrite P0. cbn [app].
  rewrite (closest_step_dom A _ 1 m1); [|exact D1|].
  2:{ unfold axis_used. cbn [existsb]. rewrite (code_div (m0, p0)). cbn [fst]. lia. }
  change (colR A 1) with (c1 A). rewrite P1. cbn [app].
  rewrite (closest_step_dom A _ 2 m2); [|exact D2|].
  2:{ unfold axis_used. cbn [existsb]. rewrite (code_div (m0, p0)), (code_div (m1, p1)). cbn [fst]. lia. }
  change (colR A 2) with (c2 A). rewrite P2. reflexivity.
Qed.

End Closest.

(* ------------------------------------------------------------------ the order part *)
Section Orient.
Variable R : Type.
Variables (rO rI : R) (radd rmul rsub : R -> R -> R) (ropp : R -> R).
Variable Rth : ring_theory rO rI radd rmul rsub ropp (@eq R).
Add Ring Rr3 : Rth.
Variable inj : Z -> R.
Hypothesis inj_add : forall a b, inj (a + b) = radd (inj a) (inj b).
Hypothesis inj_mul : forall a b, inj (a * b) = rmul (inj a) (inj b).
Hypothesis inj_opp : forall a, inj (- a) = ropp (inj a).
Hypothesis inj_1 : id (inj 1 = rI).
Variable ltb : R -> R -> bool.
(* sign laws of an ordered ring: -x < 0 <-> 0 < x; 0 < -x <-> x < 0; not both x < 0 and 0 < x;
   neither x < 0 nor 0 < x only for x = 0 *)
Hypothesis ltb_opp_0 : forall x, ltb (ropp x) rO = ltb rO x.
Hypothesis ltb_0_opp : forall x, ltb rO (ropp x) = ltb x rO.
Hypothesis ltb_asym0 : forall x, ltb x rO = true -> ltb rO x = false.
Hypothesis ltb_tri0 : forall x, ltb x rO = false -> ltb rO x = false -> x = rO.
Variable Vx : Type.
Variable padval : pmode -> bool -> Vx -> list Vx -> Vx.

Notation compR := (comp R).
Notation colR := (col R).
Notation okeyR := (okey R rO ropp ltb).
Notation rabsR := (rabs R rO ropp ltb).
Notation closestR := (closest R rO ropp ltb).
Notation smulR := (smul R rmul).
Notation dom := (dom R rO ropp ltb).
Notation Dom := (Dom R rO ropp ltb).
Notation closest_dominant := (closest_dominant R rO ropp ltb).

Lemma opp_opp : forall x, ropp (ropp x) = x.
Proof. intros. ring. Qed.

Lemma rabs_opp : forall x, rabsR (ropp x) = rabsR x.
Proof.
  intros x. unfold rabs. rewrite ltb_opp_0, opp_opp.
  destruct (ltb rO x) eqn:E1, (ltb x rO) eqn:E2; try reflexivity.
  - rewrite (ltb_asym0 x E2) in E1. discriminate.
  - rewrite (ltb_tri0 x E2 E1). ring.
Qed.

Lemma okey_opp : forall x, okeyR (ropp x) = okeyR x.
Proof. intros. unfold okey. rewrite rabs_opp. reflexivity. Qed.

Lemma pos_opp : forall x, x <> rO -> ltb rO (ropp x) = negb (ltb rO x).
Proof.
  intros x Hx. rewrite ltb_0_opp. destruct (ltb x rO) eqn:E1.
  - rewrite (ltb_asym0 x E1). reflexivity.
  - destruct (ltb rO x) eqn:E2; [reflexivity|]. exfalso. apply Hx. apply ltb_tri0; assumption.
Qed.

Lemma inj_m1_mul : forall x, rmul (inj (-1)) x = ropp x.
Proof. intros. change (-1) with (- (1)). rewrite inj_opp, (inj_1 : inj 1 = rI). ring. Qed.
Lemma inj_1_mul : forall x, rmul (inj 1) x = x.
Proof. intros. rewrite (inj_1 : inj 1 = rI). ring. Qed.

(* ---- flips and permutations of a dominant affine *)
Lemma comp_smul : forall k v i, compR (smulR k v) i = rmul k (compR v i).
Proof. intros k [x y z] i. unfold comp, smul, sel3. cbn [vx vy vz]. destruct (i =? 0), (i =? 1); reflexivity. Qed.

Lemma dom_rev : forall v m (b : bool), dom v m ->
  dom (smulR (inj (if b then -1 else 1)) v) m /\
  ltb rO (compR (smulR (inj (if b then -1 else 1)) v) m) = xorb b (ltb rO (compR v m)).
Proof.
  intros v m b (Hm & Hz & D). destruct b.
  - split.
    + split; [exact Hm|]. split.
      * rewrite comp_smul, inj_m1_mul. intros E. apply Hz. rewrite <- (opp_opp (compR v m)), E. ring.
      * intros i Hi Hne. rewrite !comp_smul, !inj_m1_mul, !okey_opp. apply D; assumption.
    + rewrite comp_smul, inj_m1_mul, (pos_opp _ Hz). destruct (ltb rO (compR v m)); reflexivity.
  - split.
    + split; [exact Hm|]. split.
      * rewrite comp_smul, inj_1_mul. exact Hz.
      * intros i Hi Hne. rewrite !comp_smul, !inj_1_mul. apply D; assumption.
    + rewrite comp_smul, inj_1_mul. destruct (ltb rO (compR v m)); reflexivity.
Qed.

Lemma Dom_rev : forall A shape b0 b1 b2 s0 s1 s2, Dom A s0 s1 s2 ->
  Dom (get_aff R radd rmul inj A (rev_plan shape b0 b1 b2)) (flipsig b0 s0) (flipsig b1 s1) (flipsig b2 s2).
Proof.
  intros A [[n0 n1] n2] b0 b1 b2 [m0 p0] [m1 p1] [m2 p2] (D0 & D1 & D2 & P0 & P1 & P2 & N). cbn [fst snd] in *.
  unfold get_aff, rev_plan. cbn [gp_f gp_s]. unfold getitem_aff, Dom, flipsig. cbn [c0 c1 c2 fst snd].
  destruct (dom_rev _ _ b0 D0) as (E0 & Q0). destruct (dom_rev _ _ b1 D1) as (E1 & Q1).
  destruct (dom_rev _ _ b2 D2) as (E2 & Q2).
  destruct N as (N1 & N2 & N3). rewrite P0 in Q0. rewrite P1 in Q1. rewrite P2 in Q2.
  exact (conj E0 (conj E1 (conj E2 (conj Q0 (conj Q1 (conj Q2 (conj N1 (conj N2 N3)))))))).
Qed.

Lemma Dom_perm : forall A l s0 s1 s2, is_perm3 l = true -> Dom A s0 s1 s2 ->
  let '(a, b, c) := perm_triple l in
  Dom (perm_aff R A (perm_triple l)) (sel3 (s0, s1, s2) a) (sel3 (s0, s1, s2) b) (sel3 (s0, s1, s2) c).
Proof.
  intros A l s0 s1 s2 H (D0 & D1 & D2 & P0 & P1 & P2 & N01 & N02 & N12).
  destruct (is_perm3_cases l H) as [E|[E|[E|[E|[E|E]]]]]; rewrite E; unfold perm_aff, Dom, col;
    cbn [sel3 c0 c1 c2 Z.eqb]; cbv iota;
    first [ exact (conj D0 (conj D1 (conj D2 (conj P0 (conj P1 (conj P2 (conj N01 (conj N02 N12))))))))
          | exact (conj D0 (conj D2 (conj D1 (conj P0 (conj P2 (conj P1 (conj N02 (conj N01 (not_eq_sym N12)))))))))
          | exact (conj D1 (conj D0 (conj D2 (conj P1 (conj P0 (conj P2 (conj (not_eq_sym N01) (conj N12 N02))))))))
          | exact (conj D1 (conj D2 (conj D0 (conj P1 (conj P2 (conj P0 (conj N12 (conj (not_eq_sym N01) (not_eq_sym N02)))))))))
          | exact (conj D2 (conj D0 (conj D1 (conj P2 (conj P0 (conj P1 (conj (not_eq_sym N02) (conj (not_eq_sym N12) N01))))))))
          | exact (conj D2 (conj D1 (conj D0 (conj P2 (conj P1 (conj P0 (conj (not_eq_sym N12) (conj (not_eq_sym N02) (not_eq_sym N01))))))))) ].
Qed.

(* ---- to_patient_orientation *)
Notation volT := (vol R Vx).
Notation vstep_sp := (vol_step_sp R rO radd rmul rsub ropp inj ltb Vx padval).
Notation vget := (vol_get R radd rmul inj Vx).

Lemma dom_range : forall v m, dom v m -> 0 <= m <= 2.
Proof. intros v m (H & _). exact H. Qed.

Lemma flip_spatial_rev : forall (v : volT) flips, wf (v_shape R Vx v) ->
  (3 <? Z.of_nat (length flips)) || existsb (fun x => (x <? 0) || (2 <? x)) flips = false ->
  flip_spatial volT vget v (FList flips) =
  Ok (Vol R Vx (get_aff R radd rmul inj (v_aff R Vx v)
                  (rev_plan (v_shape R Vx v) (flipped flips 0) (flipped flips 1) (flipped flips 2)))
          (v_shape R Vx v) (v_chans R Vx v)
          (fun j c => match get_map (rev_plan (v_shape R Vx v) (flipped flips 0) (flipped flips 1) (flipped flips 2)) j with
                      | Some i => v_arr R Vx v i c | None => v_arr R Vx v j c end)
          (v_isint R Vx v) (v_patient R Vx v) (v_for R Vx v),
      get_map (rev_plan (v_shape R Vx v) (flipped flips 0) (flipped flips 1) (flipped flips 2))).
Proof.
  intros v flips W G. unfold flip_spatial. rewrite G.
  change (FList flips) with (FList flips).
  match goal with |- vget v (XTup [?a; ?b; ?c]) = _ =>
    change a with (rev_item (flipped flips 0) false);
    change b with (rev_item (flipped flips 1) false);
    change c with (rev_item (flipped flips 2) false) end.
  unfold vol_get. rewrite (prep_getitem_rev _ _ false _ false _ false W). cbn [bind].
  replace (gp_n (rev_plan (v_shape R Vx v) (flipped flips 0) (flipped flips 1) (flipped flips 2)))
    with (v_shape R Vx v) by (destruct (v_shape R Vx v) as [[n0 n1] n2]; reflexivity).
  reflexivity.
Qed.

Theorem orientation_run : forall (v : volT) o d s0 s1 s2,
  wf (v_shape R Vx v) -> Dom (v_aff R Vx v) s0 s1 s2 -> v_patient R Vx v = true ->
  normalize_orientation o = Ok d ->
  exists v' f, vstep_sp v (OOrient o) = Ok (v', f) /\ closestR (v_aff R Vx v') = o.
Proof.
  intros v o d [m0 p0] [m1 p1] [m2 p2] W D Pt Hn.
  destruct (normalize_ok_inv _ _ Hn) as (-> & a & b & c & -> & Ha & Hb & Hc).
  pose proof D as (D0 & D1 & D2 & _ & _ & _ & N01 & N02 & N12). cbn [fst snd] in *.
  pose proof (orient_check_ok m0 m1 m2 p0 p1 p2 a b c (dom_range _ _ D0) (dom_range _ _ D1) (dom_range _ _ D2) Ha Hb Hc) as K.
  unfold orient_check in K.
  replace (negb (negb (m0 =? m1) && negb (m0 =? m2) && negb (m1 =? m2))) with false in K by lia.
  rewrite Hn in K.
  unfold vol_step_sp. cbn [step_sp]. unfold to_orientation. rewrite Pt. cbn [negb]. rewrite Hn. cbn [bind].
  rewrite (closest_dominant _ _ _ _ D).
  destruct (orient_plan [code (m0, p0); code (m1, p1); code (m2, p2)] [a; b; c]) as [[perm flips]|]; [|discriminate].
  destruct perm as [|pa [|pb [|pc [|? ?]]]]; try discriminate.
  apply andb_prop in K as [K Kl]. apply andb_prop in K as [Kp Kg]. apply negb_true_iff in Kg.
  apply list_eqb_eq in Kl. cbn [bind].
  set (S := (flipsig (flipped flips 0) (m0, p0), flipsig (flipped flips 1) (m1, p1),
             flipsig (flipped flips 2) (m2, p2))) in *.
  assert (Hfl : exists fl ffl,
            match flips with [] => Ok (v, imap_id) | _ :: _ => flip_spatial volT vget v (FList flips) end = Ok (fl, ffl) /\
            Dom (v_aff R Vx fl) (flipsig (flipped flips 0) (m0, p0)) (flipsig (flipped flips 1) (m1, p1))
                (flipsig (flipped flips 2) (m2, p2))).
  { destruct flips as [|x fl'].
    - exists v, imap_id. split; [reflexivity|]. clear - D. unfold flipsig, flipped. cbn [existsb fst snd].
      destruct p0, p1, p2; exact D.
    - rewrite (flip_spatial_rev v (x :: fl') W Kg). eexists; eexists. split; [reflexivity|].
      cbn [v_aff]. apply Dom_rev. exact D. }
  destruct Hfl as (fl & ffl & -> & Dfl). cbn [bind fst snd].
  unfold vol_perm. rewrite Kp. cbn [bind fst snd]. eexists; eexists. split; [reflexivity|].
  cbn [v_aff]. pose proof (Dom_perm _ _ _ _ _ Kp Dfl) as Dp. cbn [perm_triple] in Dp |- *.
  rewrite (closest_dominant _ _ _ _ Dp). exact Kl.
Qed.

(* the residue of the original plan: closest (to_patient_orientation o v) = o *)
Theorem orientation_reached : forall (v : volT) o v' f s0 s1 s2,
  wf (v_shape R Vx v) -> Dom (v_aff R Vx v) s0 s1 s2 ->
  vstep_sp v (OOrient o) = Ok (v', f) -> closestR (v_aff R Vx v') = o.
Proof.
  intros v o v' f s0 s1 s2 W D H.
  assert (Pt : v_patient R Vx v = true).
  { unfold vol_step_sp in H. cbn [step_sp] in H. unfold to_orientation in H.
    destruct (v_patient R Vx v); [reflexivity|discriminate]. }
  assert (exists d, normalize_orientation o = Ok d) as (d & Hn).
  { unfold vol_step_sp in H. cbn [step_sp] in H. unfold to_orientation in H. rewrite Pt in H. cbn [negb] in H.
    destruct (normalize_orientation o) as [d|]; [eauto|discriminate]. }
  destruct (orientation_run v o d s0 s1 s2 W D Pt Hn) as (v2 & f2 & E & C).
  rewrite E in H. inversion H as [[E1 E2]]. rewrite <- E1. exact C.
Qed.

End Orient.
