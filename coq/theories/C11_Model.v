(* C11 - model of slice-stack recognition, ordering and assembly.
   Mirrors (src/highdicom):
     spatial.py  get_normal_vector, _normalize_pixel_index_convention,
                 _get_slice_distances, get_volume_positions,
                 get_series_volume_positions, get_plane_sort_index,
                 get_dataset_sort_index / sort_datasets
     image.py    get_volume_from_series (ordering + geometry),
                 _Image._get_stacked_volume_geometry / get_volume (frame placement),
                 Image.get_volume_geometry / _get_volume_geometry and
                 seg/sop.py Segmentation.get_volume_geometry (defaults + forwarding of the
                 allow_missing_positions / allow_duplicate_positions declarations),
                 _Image._get_shared_frame_value (THE orientation / pixel spacing / spacing hint of
                 the frames of a frame table filled from shared or per-frame functional groups)
   Arithmetic is exact over Q; the tolerances are rational constants/parameters.
   np.unique(axis=0) = lexicographically sorted distinct rows; np.argsort = stable
   insertion sort; np.round = round-half-even.  No proofs in this file. *)
From Coq Require Import String ZArith List Bool QArith Qround Qreduction.
From HD Require Import Base.Val.
Import ListNotations.
Open Scope Q_scope.

(* ---------- vectors -------------------------------------------------------- *)
Record vec3 := V3 { vx : Q; vy : Q; vz : Q }.
Definition vsub (a b : vec3) := V3 (vx a - vx b) (vy a - vy b) (vz a - vz b).
Definition vneg (a : vec3) := V3 (- vx a) (- vy a) (- vz a).
Definition vscale (k : Q) (a : vec3) := V3 (k * vx a) (k * vy a) (k * vz a).
Definition vadd (a b : vec3) := V3 (vx a + vx b) (vy a + vy b) (vz a + vz b).
Definition dot (a b : vec3) : Q := vx a * vx b + vy a * vy b + vz a * vz b.
Definition cross (a b : vec3) : vec3 :=
  V3 (vy a * vz b - vz a * vy b) (vz a * vx b - vx a * vz b) (vx a * vy b - vy a * vx b).
(* canonical representative: float equality of np.unique / list == is Leibniz on these *)
Definition vred (p : vec3) := V3 (Qred (vx p)) (Qred (vy p)) (Qred (vz p)).
Definition veqb (a b : vec3) : bool :=
  Qeq_bool (vx a) (vx b) && Qeq_bool (vy a) (vy b) && Qeq_bool (vz a) (vz b).

Definition Qlt_b (a b : Q) : bool := negb (Qle_bool b a).
Definition Qabs_ (q : Q) : Q := if Qle_bool 0 q then q else - q.

(* ---------- tolerances (spatial.py:18-25) ------------------------------------- *)
Definition default_rtol : Q := 1 # 100.          (* _DEFAULT_SPACING_RELATIVE_TOLERANCE *)
Definition eq_tol : Q := 1 # 100000.             (* _DEFAULT_EQUALITY_TOLERANCE *)
Definition perp_tol : Q := 1 # 1000.             (* _DOT_PRODUCT_PERPENDICULAR_TOLERANCE *)

(* np.isclose(a, b, rtol, atol) : |a - b| <= atol + rtol * |b| *)
Definition isclose (rtol atol a b : Q) : bool :=
  Qle_bool (Qabs_ (a - b)) (atol + rtol * Qabs_ b).

(* ---------- get_normal_vector ---------------------------------------------------- *)
Inductive dir := DirR | DirL | DirU | DirD.
Definition is_horiz (d : dir) : bool := match d with DirR | DirL => true | _ => false end.
(* _normalize_pixel_index_convention: exactly one of L/R and exactly one of U/D *)
Definition conv_ok (c0 c1 : dir) : bool := xorb (is_horiz c0) (is_horiz c1).
Definition rot_col (rowc colc : vec3) (d : dir) : vec3 :=
  match d with DirR => rowc | DirL => vneg rowc | DirD => colc | DirU => vneg colc end.
Definition normal_vector (rowc colc : vec3) (c0 c1 : dir) (rh : bool) : res vec3 :=
  if conv_ok c0 c1 then
    Ok (if rh then cross (rot_col rowc colc c0) (rot_col rowc colc c1)
        else cross (rot_col rowc colc c1) (rot_col rowc colc c0))
  else Err "ValueError".

(* ---------- sorting ------------------------------------------------------------------ *)
Section Sort.
  Context {A : Type} (leb : A -> A -> bool).
  Fixpoint insert (x : A) (l : list A) : list A :=
    match l with
    | [] => [x]
    | y :: l' => if leb x y then x :: y :: l' else y :: insert x l'
    end.
  Definition isort (l : list A) : list A := fold_right insert [] l.
End Sort.

(* np.argsort (stable): indices of ds in increasing order of value *)
Definition key_leb (a b : Q * nat) : bool := Qle_bool (fst a) (fst b).
Definition tag (ds : list Q) : list (Q * nat) := combine ds (seq 0 (length ds)).
Definition argsort (ds : list Q) : list nat := map snd (isort key_leb (tag ds)).
(* np.argsort(sort_index): position of j in the sort index *)
Fixpoint pos_of (j : nat) (l : list nat) : nat :=
  match l with [] => 0%nat | x :: l' => if Nat.eqb x j then 0%nat else S (pos_of j l') end.
Definition inverse_perm (sidx : list nat) : list nat :=
  map (fun j => pos_of j sidx) (seq 0 (length sidx)).

(* np.unique(axis=0): lexicographically sorted distinct rows *)
Definition vlex_leb (a b : vec3) : bool :=
  if Qlt_b (vx a) (vx b) then true else if Qlt_b (vx b) (vx a) then false else
  if Qlt_b (vy a) (vy b) then true else if Qlt_b (vy b) (vy a) then false else
  Qle_bool (vz a) (vz b).
Fixpoint vmem (x : vec3) (l : list vec3) : bool :=
  match l with [] => false | y :: l' => veqb x y || vmem x l' end.
Fixpoint vnodup (l : list vec3) : list vec3 :=
  match l with
  | [] => []
  | x :: l' => if vmem x l' then vnodup l' else x :: vnodup l'
  end.
Definition lexuniq (l : list vec3) : list vec3 := isort vlex_leb (vnodup l).
Fixpoint index_of (x : vec3) (l : list vec3) : nat :=
  match l with [] => 0%nat | y :: l' => if veqb x y then 0%nat else S (index_of x l') end.

(* ---------- small numeric helpers ----------------------------------------------------- *)
Fixpoint diffs (l : list Q) : list Q :=
  match l with
  | a :: (b :: _) as t => (b - a) :: diffs t
  | _ => []
  end.
Definition Qmin_ (a b : Q) : Q := if Qle_bool a b then a else b.
Definition min_list (l : list Q) : Q :=
  match l with [] => 0 | x :: l' => fold_left Qmin_ l' x end.
(* round half to even *)
Definition rne (q : Q) : Z :=
  let f := Qfloor q in
  let r := q - inject_Z f in
  if Qlt_b r (1 # 2) then f
  else if Qlt_b (1 # 2) r then (f + 1)%Z
  else if Z.even f then f else (f + 1)%Z.
Definition nthQ (l : list Q) (j : nat) : Q := nth j l 0.
Definition nthV (l : list vec3) (j : nat) : vec3 := nth j l (V3 0 0 0).

(* ---------- get_volume_positions -------------------------------------------------------- *)
Record opts := mkOpts {
  o_rtol : option Q; o_atol : option Q; o_sort : bool;
  o_missing : bool; o_dups : bool; o_hint : option Q;
  o_c0 : dir; o_c1 : dir; o_rh : bool; o_enforce : bool }.

(* is_perpendicular, squared form: | |n.span| / |span| - 1 | < tol  (0 < tol < 1) *)
Definition is_perp (nv span : vec3) : bool :=
  let d2 := dot nv span * dot nv span in
  let s2 := dot span span in
  Qlt_b ((1 - perp_tol) * (1 - perp_tol) * s2) d2 &&
  Qlt_b d2 ((1 + perp_tol) * (1 + perp_tol) * s2).

(* the part after de-duplication: uniq = unique_positions, uidx = unique_index *)
Definition gvp_core (uniq : list vec3) (uidx : list nat) (nv : vec3)
           (rtol atol : Q) (sort missing enforce : bool) (hint : option Q)
  : res (option (Q * list Z)) :=
  let ds := map (dot nv) uniq in
  let m := length uniq in
  let sidx := if sort then argsort ds else seq 0 m in
  let sds := map (nthQ ds) sidx in
  let span := vsub (nthV uniq (last sidx 0%nat)) (nthV uniq (hd 0%nat sidx)) in
  let finish (reg : bool) (spacing : Q) (inv : list Z) : res (option (Q * list Z)) :=
    if reg && enforce && Qlt_b spacing 0 then Ok None
    else if reg && is_perp nv span
         then Ok (Some (Qabs_ spacing, map (fun u => nth u inv 0%Z) uidx))
         else Ok None in
  if missing then
    let sp := match hint with
              | Some h => Some h
              | None => let s := min_list (diffs sds) in
                        if Qle_bool (Qabs_ s) eq_tol then None else Some s
              end in
    match sp with
    | None => Ok None
    | Some spacing =>
        let dmin := min_list ds in
        let mults := map (fun d => (d - dmin) / spacing) ds in
        let rounded := map rne mults in
        let reg := forallb (fun x => isclose rtol atol x (inject_Z (rne x))) mults in
        finish reg spacing rounded
    end
  else
    let spacing := (last sds 0 - hd 0 sds) / inject_Z (Z.of_nat (m - 1)) in
    let hint_ok := match hint with
                   | Some h => isclose rtol atol (Qabs_ spacing) h
                   | None => true
                   end in
    if negb hint_ok then Err "RuntimeError"
    else
      let reg := forallb (fun x => isclose rtol atol x spacing) (diffs sds) in
      finish reg spacing (map Z.of_nat (inverse_perm sidx)).

Definition norm_hint (h : option Q) : res (option Q) :=
  match h with
  | None => Ok None
  | Some x => let x' := if Qlt_b x 0 then Qabs_ x else x in
              if Qeq_bool x' 0 then Err "ValueError" else Ok (Some x')
  end.
Definition tolerances (rtol atol : option Q) : res (Q * Q) :=
  match atol, rtol with
  | Some _, Some _ => Err "TypeError"
  | Some a, None => Ok (0, a)
  | None, Some r => Ok (r, 0)
  | None, None => Ok (default_rtol, 0)
  end.
Definition hint_or_one (h : option Q) : Q := match h with Some x => x | None => 1 end.

Definition get_volume_positions (ps : list vec3) (rowc colc : vec3) (o : opts)
  : res (option (Q * list Z)) :=
  if negb (o_sort o) && (o_dups o || o_missing o) then Err "ValueError" else
  match norm_hint (o_hint o) with
  | Err k => Err k
  | Ok hint =>
    match tolerances (o_rtol o) (o_atol o) with
    | Err k => Err k
    | Ok (rtol, atol) =>
      match ps with
      | [] => Err "ValueError"
      | [_] => Ok (Some (hint_or_one hint, [0%Z]))
      | _ =>
        match normal_vector rowc colc (o_c0 o) (o_c1 o) (o_rh o) with
        | Err k => Err k
        | Ok nv =>
          let n := length ps in
          let ps' := map vred ps in
          let uq := lexuniq ps' in
          if negb (o_dups o) && (length uq <? n)%nat then Ok None
          else
            let uniq := if o_sort o then uq else ps' in
            let uidx := if o_sort o then map (fun p => index_of p uq) ps' else seq 0 n in
            if (length uniq =? 1)%nat then Ok (Some (hint_or_one hint, repeat 0%Z n))
            else gvp_core uniq uidx nv rtol atol (o_sort o) (o_missing o) (o_enforce o) hint
        end
      end
    end
  end.

(* ---------- get_series_volume_positions ------------------------------------------------- *)
(* a single-frame dataset: (row cosines, column cosines, position) *)
Definition sds_t := (vec3 * vec3 * vec3)%type.
Definition ds_rowc (d : sds_t) := fst (fst d).
Definition ds_colc (d : sds_t) := snd (fst d).
Definition ds_pos (d : sds_t) := snd d.
Definition same_orient (a b : sds_t) : bool :=
  veqb (ds_rowc a) (ds_rowc b) && veqb (ds_colc a) (ds_colc b).
(* hint0 = datasets[0].get('SpacingBetweenSlices') *)
Definition series_volume_positions (dsets : list sds_t) (hint0 : option Q) (o : opts)
  : res (option (Q * list Z)) :=
  match dsets with
  | [] => Err "ValueError"
  | [_] => Ok (Some (1, [0%Z]))
  | d0 :: rest =>
      if forallb (same_orient d0) rest
      then get_volume_positions (map ds_pos dsets) (ds_rowc d0) (ds_colc d0)
             (mkOpts (o_rtol o) (o_atol o) (o_sort o) (o_missing o) (o_dups o) hint0
                     (o_c0 o) (o_c1 o) (o_rh o) (o_enforce o))
      else Ok None
  end.

(* ---------- get_plane_sort_index / sort_datasets ------------------------------------------ *)
Definition plane_sort_index (ps : list vec3) (rowc colc : vec3) (c0 c1 : dir) (rh : bool)
  : res (list nat) :=
  match normal_vector rowc colc c0 c1 rh with
  | Err k => Err k
  | Ok nv => Ok (argsort (map (dot nv) ps))
  end.
(* datasets carry an identifier; result = identifiers in sorted order.
   orientations are compared with np.allclose in the code; the generator only
   produces equal or clearly different orientations, the model compares exactly *)
Definition sort_datasets (dsets : list (Z * sds_t)) (c0 c1 : dir) (rh : bool) : res (list Z) :=
  match dsets with
  | [] => Err "IndexError"
  | (_, d0) :: _ =>
      if forallb (fun d => same_orient d0 (snd d)) dsets then
        match plane_sort_index (map (fun d => ds_pos (snd d)) dsets) (ds_rowc d0) (ds_colc d0) c0 c1 rh with
        | Err k => Err k
        | Ok si => Ok (map (fun j => nth j (map fst dsets) 0%Z) si)
        end
      else Err "ValueError"
  end.

(* ---------- get_volume_from_series -------------------------------------------------------- *)
Definition vol_opts (rtol atol : option Q) (missing dups : bool) (hint : option Q) : opts :=
  mkOpts rtol atol true missing dups hint DirD DirR true false.
Fixpoint zindex (i : Z) (l : list Z) : option nat :=
  match l with
  | [] => None
  | x :: l' => if Z.eqb x i then Some 0%nat
               else match zindex i l' with Some k => Some (S k) | None => None end
  end.
(* the assembled volume as observed: identifiers of the slices in stacking order,
   slice spacing, position of the first slice, direction of the slice axis *)
Record assembled := mkAsm { a_ids : list Z; a_spacing : Q; a_origin : vec3; a_normal : vec3 }.
Fixpoint collect {B} (l : list (option B)) : option (list B) :=
  match l with
  | [] => Some []
  | Some x :: l' => match collect l' with Some r => Some (x :: r) | None => None end
  | None :: _ => None
  end.
Definition volume_from_series (dsets : list (Z * sds_t)) (hint0 : option Q)
           (rtol atol : option Q) : res assembled :=
  match dsets with
  | [] => Err "IndexError"
  | (id0, d0) :: rest =>
      if negb (forallb (fun d => same_orient d0 (snd d)) rest) then Err "ValueError" else
      let nv := cross (ds_colc d0) (ds_rowc d0) in
      match rest with
      | [] => Ok (mkAsm [id0] (hint_or_one hint0) (ds_pos d0) nv)
      | _ =>
        match series_volume_positions (map snd dsets) hint0 (vol_opts rtol atol false false None) with
        | Err k => Err k
        | Ok None => Err "ValueError"
        | Ok (Some (sp, idx)) =>
            let order := map (fun i => zindex (Z.of_nat i) idx) (seq 0 (length dsets)) in
            match collect order with
            | None => Err "ValueError"
            | Some ord =>
                let sorted := map (fun j => nth j dsets (id0, d0)) ord in
                Ok (mkAsm (map fst sorted) sp
                          (match sorted with d :: _ => ds_pos (snd d) | [] => ds_pos d0 end) nv)
            end
        end
      end
  end.

(* ---------- multi-frame: _get_stacked_volume_geometry + get_volume placement ------------- *)
(* frames = (identifier, position) in frame-number order; result: for every
   volume position the frame placed there (None = no frame, left zero) *)
Record stacked := mkStk { s_slots : list (option Z); s_spacing : Q; s_origin : vec3; s_normal : vec3 }.
Definition zmax_list (l : list Z) : Z := fold_left Z.max l 0%Z.
Fixpoint find_slot (k : Z) (idx : list Z) (ids : list Z) : option Z :=
  match idx, ids with
  | i :: idx', f :: ids' => if Z.eqb i k then Some f else find_slot k idx' ids'
  | _, _ => None
  end.
Definition multiframe_volume (frames : list (Z * vec3)) (rowc colc : vec3) (hint : option Q)
           (rtol atol : option Q) (missing : bool) : res stacked :=
  let ps := map snd frames in
  if (length (vnodup (map vred ps)) <? length ps)%nat then Err "RuntimeError" else
  match get_volume_positions ps rowc colc (vol_opts rtol atol missing true hint) with
  | Err k => Err k
  | Ok None => Err "RuntimeError"
  | Ok (Some (sp, idx)) =>
      let nsl := (zmax_list idx + 1)%Z in
      match zindex 0%Z idx with
      | None => Err "ValueError"
      | Some j0 =>
          Ok (mkStk (map (fun k => find_slot (Z.of_nat k) idx (map fst frames)) (seq 0 (Z.to_nat nsl)))
                    sp (nthV ps j0) (cross colc rowc))
      end
  end.

(* ---------- Image.get_volume_geometry / Segmentation.get_volume_geometry (multi-frame, patient) ---- *)
(* The public entry points take the two declarations as keyword arguments with defaults that depend
   on the class: Image: allow_missing_positions=False, allow_duplicate_positions=True; Segmentation:
   allow_missing_positions=True, allow_duplicate_positions=True.  om / od = None: argument not passed.
   _get_volume_geometry forwards both to _get_stacked_volume_geometry -> get_volume_positions (sort=True,
   default convention, spacing hint = shared SpacingBetweenSlices); get_volume_geometry turns a
   RuntimeError (irregular stack, hint mismatch) into None, other exceptions propagate. *)
Record geom := mkGeom { g_nsl : Z; g_spacing : Q; g_origin : vec3; g_normal : vec3 }.
Definition eff_missing (seg : bool) (om : option bool) : bool := match om with Some b => b | None => seg end.
Definition eff_dups (od : option bool) : bool := match od with Some b => b | None => true end.
Definition multiframe_geometry (ps : list vec3) (rowc colc : vec3) (hint : option Q)
           (rtol atol : option Q) (seg : bool) (om od : option bool) : res (option geom) :=
  match get_volume_positions ps rowc colc (vol_opts rtol atol (eff_missing seg om) (eff_dups od) hint) with
  | Err k => if String.eqb k "RuntimeError" then Ok None else Err k
  | Ok None => Ok None
  | Ok (Some (sp, idx)) =>
      match zindex 0%Z idx with
      | None => Err "ValueError"
      | Some j0 => Ok (Some (mkGeom (zmax_list idx + 1)%Z sp (nthV ps j0) (cross colc rowc)))
      end
  end.

(* ---------- one multi-frame object asked several questions (history) ---------------------------- *)
(* The frame table of an Image / Segmentation is fixed at construction; every public query
   (get_volume_geometry, get_volume) reads it afresh: _get_stacked_volume_geometry selects the frame
   positions and calls get_volume_positions with the tolerances and declarations of THIS call, nothing
   is remembered between calls.  The model of an object is therefore its frame table and the answer to
   a list of queries is the list of the answers (no state is threaded).
   Frames are in frame-number order (frame f = f-th entry, f = 1..n); chans = channel of every frame
   (ReferencedSegmentNumber for a Segmentation, 0 for an Image); outch = channels of the assembled
   array (the described segment numbers; [0] for an Image). *)
Inductive mf_query :=
| QGeom (rtol atol : option Q) (om od : option bool)     (* get_volume_geometry(rtol, atol, allow_missing_positions, allow_duplicate_positions) *)
| QVol (rtol atol : option Q) (om : option bool).        (* get_volume(rtol, atol, allow_missing_positions) *)

(* _get_stacked_volume_geometry: geometry + volume position of every frame; an unrecognised stack raises *)
Definition stacked_geometry (ps : list vec3) (rowc colc : vec3) (hint : option Q)
           (rtol atol : option Q) (missing dups : bool) : res (geom * list Z) :=
  match get_volume_positions ps rowc colc (vol_opts rtol atol missing dups hint) with
  | Err k => Err k
  | Ok None => Err "RuntimeError"
  | Ok (Some (sp, idx)) =>
      match zindex 0%Z idx with
      | None => Err "ValueError"
      | Some j0 => Ok (mkGeom (zmax_list idx + 1)%Z sp (nthV ps j0) (cross colc rowc), idx)
      end
  end.

(* _do_columns_identify_unique_frames on (position [, segment number]) *)
Fixpoint pmem (c : Z) (p : vec3) (l : list (Z * vec3)) : bool :=
  match l with [] => false | (c', p') :: l' => (Z.eqb c c' && veqb p p') || pmem c p l' end.
Fixpoint pairs_unique (l : list (Z * vec3)) : bool :=
  match l with [] => true | (c, p) :: l' => negb (pmem c p l') && pairs_unique l' end.
Fixpoint find_slot2 (k c : Z) (idx chans ids : list Z) : option Z :=
  match idx, chans, ids with
  | i :: idx', ch :: chans', f :: ids' =>
      if Z.eqb i k && Z.eqb ch c then Some f else find_slot2 k c idx' chans' ids'
  | _, _, _ => None
  end.
(* Image.get_volume / Segmentation.get_volume (stacked branch): uniqueness check, then
   _prepare_volume_positions_table -> _get_stacked_volume_geometry with the tolerances and the gaps
   declaration of the call (default of the class when not passed) and duplicates allowed; result =
   geometry + for every slice and output channel the frame placed there *)
Definition channel_volume (chans outch : list Z) (ps : list vec3) (rowc colc : vec3) (hint : option Q)
           (rtol atol : option Q) (seg : bool) (om : option bool)
  : res (geom * list (list (option Z))) :=
  if negb (pairs_unique (combine chans ps)) then Err "RuntimeError" else
  match stacked_geometry ps rowc colc hint rtol atol (eff_missing seg om) true with
  | Err k => Err k
  | Ok (g, idx) =>
      let ids := map Z.of_nat (seq 1 (length ps)) in
      Ok (g, map (fun k => map (fun c => find_slot2 (Z.of_nat k) c idx chans ids) outch)
                 (seq 0 (Z.to_nat (g_nsl g))))
  end.

(* ---------- boundary functions --------------------------------------------------------------- *)
Definition vvec (v : vec3) : val := VL [VQ (vx v); VQ (vy v); VQ (vz v)].
Definition vresult (r : res (option (Q * list Z))) : val :=
  match r with
  | Err k => VErr k
  | Ok None => VNone
  | Ok (Some (s, idx)) => VL [VQ s; vz_list idx]
  end.
Definition run_gvp ps rowc colc o : val := vresult (get_volume_positions ps rowc colc o).
Definition run_series dsets hint0 o : val := vresult (series_volume_positions dsets hint0 o).
Definition run_normal rowc colc c0 c1 rh : val := vres vvec (normal_vector rowc colc c0 c1 rh).
Definition run_plane_sort ps rowc colc c0 c1 rh : val :=
  vres (fun l => vz_list (map Z.of_nat l)) (plane_sort_index ps rowc colc c0 c1 rh).
Definition run_sort_datasets dsets c0 c1 rh : val := vres vz_list (sort_datasets dsets c0 c1 rh).
Definition run_volume_from_series dsets hint0 rtol atol : val :=
  vres (fun a => VL [vz_list (a_ids a); VQ (a_spacing a); vvec (a_origin a);
                     vvec (vscale (a_spacing a) (a_normal a))])
       (volume_from_series dsets hint0 rtol atol).
Definition run_multiframe frames rowc colc hint rtol atol missing : val :=
  vres (fun s => VL [VL (map (vopt VZ) (s_slots s)); VQ (s_spacing s); vvec (s_origin s);
                     vvec (vscale (s_spacing s) (s_normal s))])
       (multiframe_volume frames rowc colc hint rtol atol missing).
Definition run_mf_geometry ps rowc colc hint rtol atol seg om od : val :=
  vres (vopt (fun g => VL [VZ (g_nsl g); VQ (g_spacing g); vvec (g_origin g);
                           vvec (vscale (g_spacing g) (g_normal g))]))
       (multiframe_geometry ps rowc colc hint rtol atol seg om od).
(* answers of ONE object to a list of queries, in the order asked *)
Definition vgeom (g : geom) : list val :=
  [VZ (g_nsl g); VQ (g_spacing g); vvec (g_origin g); vvec (vscale (g_spacing g) (g_normal g))].
Definition answer_query chans outch ps rowc colc hint (seg : bool) (q : mf_query) : val :=
  match q with
  | QGeom rtol atol om od => run_mf_geometry ps rowc colc hint rtol atol seg om od
  | QVol rtol atol om =>
      vres (fun r => VL (vgeom (fst r) ++ [VL (map (fun row => VL (map (vopt VZ) row)) (snd r))]))
           (channel_volume chans outch ps rowc colc hint rtol atol seg om)
  end.
Definition run_mf_history chans outch ps rowc colc hint seg (qs : list mf_query) : val :=
  VL (map (answer_query chans outch ps rowc colc hint seg) qs).

(* ---------- per-frame functional groups: _Image._get_shared_frame_value ------------------------------- *)
(* The frame table (FrameLUT) has one row per frame with the ImageOrientationPatient, the PixelSpacing and -
   if the attribute is present - the SpacingBetweenSlices of THAT frame: a value found in the shared functional
   groups is copied to every row, a value stored in the per-frame functional groups (PlaneOrientationSequence /
   PixelMeasuresSequence of every frame item) is collected frame by frame.  _get_stacked_volume_geometry asks
   _get_shared_frame_value for THE orientation, THE pixel spacing and THE spacing hint of the frames:
   `SELECT DISTINCT <columns> FROM FrameLUT` must give exactly one row, otherwise RuntimeError
   ('Frames do not have a consistent ...'); SQL equality of REAL columns = equality of the floats.
   fa_sbs = None: the image has no SpacingBetweenSlices (column missing, none_if_missing=True -> None; the
   generator produces tables in which either every frame or no frame has the attribute). *)
Record frame_attrs := mkFA { fa_rowc : vec3; fa_colc : vec3; fa_px0 : Q; fa_px1 : Q; fa_sbs : option Q;
                             fa_pos : vec3 }.
Definition oq_eqb (a b : option Q) : bool :=
  match a, b with Some x, Some y => Qeq_bool x y | None, None => true | _, _ => false end.
Definition orient_eqb (a b : frame_attrs) : bool :=
  veqb (fa_rowc a) (fa_rowc b) && veqb (fa_colc a) (fa_colc b).
Definition px_eqb (a b : frame_attrs) : bool :=
  Qeq_bool (fa_px0 a) (fa_px0 b) && Qeq_bool (fa_px1 a) (fa_px1 b).
Definition sbs_eqb (a b : frame_attrs) : bool := oq_eqb (fa_sbs a) (fa_sbs b).
(* the frame whose columns are the single DISTINCT row: the first one, provided all others have the same *)
Definition shared_frame (eqb : frame_attrs -> frame_attrs -> bool) (frames : list frame_attrs)
  : res frame_attrs :=
  match frames with
  | [] => Err "RuntimeError"
  | f :: rest => if forallb (eqb f) rest then Ok f else Err "RuntimeError"
  end.
(* the three shared values, in the order _get_stacked_volume_geometry asks for them *)
Record shared_t := mkShared { sh_rowc : vec3; sh_colc : vec3; sh_px0 : Q; sh_px1 : Q; sh_sbs : option Q }.
Definition shared_attrs (frames : list frame_attrs) : res shared_t :=
  match shared_frame orient_eqb frames with
  | Err k => Err k
  | Ok fo =>
    match shared_frame px_eqb frames with
    | Err k => Err k
    | Ok fp =>
      match shared_frame sbs_eqb frames with
      | Err k => Err k
      | Ok fs => Ok (mkShared (fa_rowc fo) (fa_colc fo) (fa_px0 fp) (fa_px1 fp) (fa_sbs fs))
      end
    end
  end.
(* get_volume_geometry of an image whose frame table is `frames`: the geometry of the positions under THE
   orientation / spacing hint of the frames; frames without a common orientation, pixel spacing or spacing hint
   are not a stack (RuntimeError -> None).  The shared values are returned along (in-plane axes of the geometry). *)
Definition perframe_geometry (frames : list frame_attrs) (rtol atol : option Q) (seg : bool)
           (om od : option bool) : res (option (geom * shared_t)) :=
  match shared_attrs frames with
  | Err k => if String.eqb k "RuntimeError" then Ok None else Err k
  | Ok a =>
      match multiframe_geometry (map fa_pos frames) (sh_rowc a) (sh_colc a) (sh_sbs a) rtol atol seg om od with
      | Err k => Err k
      | Ok None => Ok None
      | Ok (Some g) => Ok (Some (g, a))
      end
  end.
(* get_volume (Image / Segmentation, stacked branch) of the same object *)
Definition perframe_volume (chans outch : list Z) (frames : list frame_attrs) (rtol atol : option Q)
           (seg : bool) (om : option bool) : res (geom * list (list (option Z)) * shared_t) :=
  if negb (pairs_unique (combine chans (map fa_pos frames))) then Err "RuntimeError" else
  match shared_attrs frames with
  | Err k => Err k
  | Ok a =>
      match channel_volume chans outch (map fa_pos frames) (sh_rowc a) (sh_colc a) (sh_sbs a) rtol atol seg om with
      | Err k => Err k
      | Ok (g, slots) => Ok (g, slots, a)
      end
  end.
(* observed: geometry as before + the two in-plane axes of the affine (step between rows = column cosines x
   PixelSpacing[0], step between columns = row cosines x PixelSpacing[1]) [+ the frame of every slice x channel] *)
Definition vinplane (a : shared_t) : list val :=
  [vvec (vscale (sh_px0 a) (sh_colc a)); vvec (vscale (sh_px1 a) (sh_rowc a))].
Definition answer_pf_query chans outch frames (seg : bool) (q : mf_query) : val :=
  match q with
  | QGeom rtol atol om od =>
      vres (vopt (fun r => VL (vgeom (fst r) ++ vinplane (snd r))))
           (perframe_geometry frames rtol atol seg om od)
  | QVol rtol atol om =>
      vres (fun r => VL (vgeom (fst (fst r)) ++ vinplane (snd r) ++
                         [VL (map (fun row => VL (map (vopt VZ) row)) (snd (fst r)))]))
           (perframe_volume chans outch frames rtol atol seg om)
  end.
(* answers of ONE object with per-frame attributes to a list of queries *)
Definition run_pf_history chans outch frames seg (qs : list mf_query) : val :=
  VL (map (answer_pf_query chans outch frames seg) qs).
