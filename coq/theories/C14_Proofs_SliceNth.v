(* C14 - element-wise meaning of the model's list[a:b:c]: it is Python's
   [list[i] for i in range(f, l, s)] with (f, l, s) = slice(a, b, c).indices(len(list)),
   for positive AND negative steps (order included).  The mask/sel definition of
   C14_Model.v is thereby tied to the comprehension that defines slicing. *)
From Coq Require Import String ZArith List Bool Lia ZifyBool Permutation Sorted.
From HD Require Import Base.Val Base.PySlice C14_Model C14_Proofs C14_Proofs_Slice.
Import ListNotations.
Open Scope Z_scope.
Ltac Zify.zify_post_hook ::= Z.to_euclidean_division_equations.

(* ---- strictly sorted lists with the same members are equal ------------------------------------ *)
Section Unique.
  Variable R : nat -> nat -> Prop.
  Hypothesis Rirr : forall x, ~ R x x.
  Hypothesis Rtrans : forall x y z, R x y -> R y z -> R x z.

  Lemma ssorted_unique : forall l l', StronglySorted R l -> StronglySorted R l' ->
    (forall x, In x l <-> In x l') -> l = l'.
  Proof.
    induction l as [|x t IH]; intros l' S S' Hm.
    - destruct l' as [|y t']; [reflexivity|]. exfalso. apply (proj2 (Hm y)). now left.
    - destruct l' as [|y t']; [exfalso; apply (proj1 (Hm x)); now left|].
      inversion S as [|? ? St Ft]; subst. inversion S' as [|? ? St' Ft']; subst.
      rewrite Forall_forall in Ft, Ft'.
      assert (x = y).
      { destruct (proj1 (Hm x) (or_introl eq_refl)) as [E|Hx]; [now symmetry|].
        destruct (proj2 (Hm y) (or_introl eq_refl)) as [E|Hy]; [exact E|].
        exfalso. apply (Rirr x). eapply Rtrans; [apply Ft, Hy|apply Ft', Hx]. }
      subst y. f_equal. apply IH; try assumption. intros z. split; intros Hz.
      + destruct (proj1 (Hm z) (or_intror Hz)) as [E|H]; [|exact H]. subst z. exfalso. apply (Rirr x), Ft, Hz.
      + destruct (proj2 (Hm z) (or_intror Hz)) as [E|H]; [|exact H]. subst z. exfalso. apply (Rirr x), Ft', Hz.
  Qed.
End Unique.

Lemma ss_filter (R : nat -> nat -> Prop) p l : StronglySorted R l -> StronglySorted R (filter p l).
Proof.
  induction 1 as [|a l S IH F]; cbn [filter]; [constructor|]. destruct (p a); [|exact IH].
  constructor; [exact IH|]. rewrite Forall_forall in *. intros x Hx. apply filter_In in Hx. apply F. tauto.
Qed.

Lemma ss_seq a n : StronglySorted lt (seq a n).
Proof.
  revert a. induction n as [|n IH]; intros a; cbn [seq]; constructor; [apply IH|].
  apply Forall_forall. intros x Hx. apply in_seq in Hx. lia.
Qed.

Lemma ss_map_seq (R : nat -> nat -> Prop) (g : nat -> nat) m : forall a,
  (forall i j, (a <= i < j)%nat -> (j < a + m)%nat -> R (g i) (g j)) -> StronglySorted R (map g (seq a m)).
Proof.
  induction m as [|m IH]; intros a H; cbn [seq map]; constructor.
  - apply IH. intros i j Hij Hj. apply H; lia.
  - apply Forall_forall. intros y Hy. apply in_map_iff in Hy. destruct Hy as (j & <- & Hj). apply in_seq in Hj.
    apply H; lia.
Qed.

Lemma ss_snoc (R : nat -> nat -> Prop) l a : StronglySorted R l -> Forall (fun x => R x a) l -> StronglySorted R (l ++ [a]).
Proof.
  induction 1 as [|b l S IH F]; intros Fa; cbn [app]; [constructor; constructor|].
  inversion Fa; subst. constructor; [apply IH; assumption|].
  apply Forall_app. split; [exact F|constructor; [assumption|constructor]].
Qed.

Lemma ss_rev (R : nat -> nat -> Prop) l : StronglySorted R l -> StronglySorted (fun x y => R y x) (rev l).
Proof.
  induction 1 as [|a l S IH F]; cbn [rev]; [constructor|]. apply ss_snoc; [exact IH|].
  apply Forall_forall. intros x Hx. apply in_rev in Hx. rewrite Forall_forall in F. apply F, Hx.
Qed.

(* ---- sel = the elements at the selected positions, in list order -------------------------------- *)
Lemma sel_positions (p : nat -> bool) (d : item) : forall (l : list item) a,
  sel (map p (seq a (length l))) l = map (fun i => nth (i - a) l d) (filter p (seq a (length l))).
Proof.
  induction l as [|x l IH]; intros a; [reflexivity|]. cbn [length seq map sel filter].
  assert (Ht : map (fun i => nth (i - S a) l d) (filter p (seq (S a) (length l))) =
               map (fun i => nth (i - a) (x :: l) d) (filter p (seq (S a) (length l)))).
  { apply map_ext_in. intros i Hi. apply filter_In in Hi. destruct Hi as [Hi _]. apply in_seq in Hi.
    replace (i - a)%nat with (S (i - S a)) by lia. reflexivity. }
  destruct (p a); cbn [map]; rewrite IH, Ht; [|reflexivity]. rewrite Nat.sub_diag. reflexivity.
Qed.

Lemma skipn_cons_nth (d : item) : forall a (xs : list item), (a < length xs)%nat ->
  skipn a xs = nth a xs d :: skipn (S a) xs.
Proof.
  induction a as [|a IH]; intros [|x xs] H; cbn [length] in H; try lia; [reflexivity|].
  cbn [skipn nth]. apply IH. lia.
Qed.

Lemma firstn_skipn_nth (d : item) : forall m a (xs : list item), (a + m <= length xs)%nat ->
  firstn m (skipn a xs) = map (fun k => nth (a + k) xs d) (seq 0 m).
Proof.
  induction m as [|m IH]; intros a xs H; [reflexivity|].
  rewrite (skipn_cons_nth d a xs) by lia. cbn [firstn seq map]. rewrite Nat.add_0_r. f_equal.
  rewrite IH by lia. rewrite <- seq_shift, map_map. apply map_ext. intros k. f_equal. lia.
Qed.

(* the positions, in increasing order, are the members of the range in increasing order *)
Lemma positions_pos f l s n : 0 < s ->
  (forall k, 0 <= k < range_len f l s -> 0 <= f + k * s < Z.of_nat n) ->
  filter (fun i => selected f l s (Z.of_nat i)) (seq 0 n) =
  map (fun k => Z.to_nat (f + Z.of_nat k * s)) (seq 0 (Z.to_nat (range_len f l s))).
Proof.
  intros Hs Hb. apply (ssorted_unique lt Nat.lt_irrefl Nat.lt_trans).
  - apply ss_filter, ss_seq.
  - apply ss_map_seq. intros i j Hij Hj. pose proof (Hb (Z.of_nat i) ltac:(lia)). pose proof (Hb (Z.of_nat j) ltac:(lia)). nia.
  - intros i. rewrite filter_In, in_seq, in_map_iff. rewrite (selected_iff_range f l s (Z.of_nat i) ltac:(lia)). split.
    + intros [_ (k & Hk & E)]. exists (Z.to_nat k). split; [rewrite Z2Nat.id by lia; lia|apply in_seq; lia].
    + intros (k & E & Hk). apply in_seq in Hk. pose proof (Hb (Z.of_nat k) ltac:(lia)).
      split; [lia|]. exists (Z.of_nat k). split; lia.
Qed.

Lemma positions_neg f l s n : s < 0 ->
  (forall k, 0 <= k < range_len f l s -> 0 <= f + k * s < Z.of_nat n) ->
  rev (filter (fun i => selected f l s (Z.of_nat i)) (seq 0 n)) =
  map (fun k => Z.to_nat (f + Z.of_nat k * s)) (seq 0 (Z.to_nat (range_len f l s))).
Proof.
  intros Hs Hb. apply (ssorted_unique (fun x y => (y < x)%nat)).
  - intros x. apply Nat.lt_irrefl.
  - intros x y z H1 H2. eapply Nat.lt_trans; eassumption.
  - apply (ss_rev lt), ss_filter, ss_seq.
  - apply ss_map_seq. intros i j Hij Hj. pose proof (Hb (Z.of_nat i) ltac:(lia)). pose proof (Hb (Z.of_nat j) ltac:(lia)). nia.
  - intros i. rewrite <- in_rev, filter_In, in_seq, in_map_iff.
    rewrite (selected_iff_range f l s (Z.of_nat i) ltac:(lia)). split.
    + intros [_ (k & Hk & E)]. exists (Z.to_nat k). split; [rewrite Z2Nat.id by lia; lia|apply in_seq; lia].
    + intros (k & E & Hk). apply in_seq in Hk. pose proof (Hb (Z.of_nat k) ltac:(lia)).
      split; [lia|]. exists (Z.of_nat k). split; lia.
Qed.

(* list[a:b:c] = [list[f + k*s] for k in range(len(range(f, l, s)))] *)
Theorem slice_get_nth start stop stp (xs : list item) f l s d : stp <> 0 ->
  slice_indices start stop stp (zlen xs) = (f, l, s) ->
  slice_get f l s xs = map (fun k => nth (Z.to_nat (f + Z.of_nat k * s)) xs d) (seq 0 (Z.to_nat (range_len f l s))).
Proof.
  intros Hs E. assert (Es : s = stp) by (unfold slice_indices in E; inversion E; reflexivity). subst s.
  pose proof (zlen_nonneg xs) as Hn.
  assert (Hb : forall k, 0 <= k < range_len f l stp -> 0 <= f + k * stp < Z.of_nat (length xs)).
  { intros k Hk. apply (slice_range_in_bounds start stop stp (zlen xs) f l stp k Hs Hn E Hk). }
  unfold slice_get. destruct (stp =? 1) eqn:E1.
  - assert (stp = 1) by lia. subst stp.
    destruct (slice_indices_pos_bounds start stop 1 (zlen xs) f l 1 ltac:(lia) Hn E) as [Hf Hl]. unfold zlen in Hf, Hl.
    assert (Er : range_len f l 1 = Z.max f l - f).
    { unfold range_len. cbn [Z.ltb Z.compare]. destruct (f <? l) eqn:?; lia. }
    rewrite Er. rewrite (firstn_skipn_nth d) by lia. apply map_ext. intros k. f_equal. lia.
  - unfold mask. rewrite (sel_positions (fun i => selected f l stp (Z.of_nat i)) d xs 0).
    destruct (0 <? stp) eqn:Ep.
    + rewrite (positions_pos f l stp (length xs) ltac:(lia) Hb). rewrite map_map. apply map_ext. intros k.
      now rewrite Nat.sub_0_r.
    + rewrite <- map_rev. rewrite (positions_neg f l stp (length xs) ltac:(lia) Hb). rewrite map_map. apply map_ext.
      intros k. now rewrite Nat.sub_0_r.
Qed.
