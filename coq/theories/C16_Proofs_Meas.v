(* C16 - the measurements a returned group reports, in full (TID 300 behind get_measurements).
   (A) NUM items: Measurement.from_sequence (which REBUILDS the NUM item from name, value, unit and qualifier and copies
       the child content) loses nothing: every accessor of the rebuilt measurement shows what the stored item carries,
       for ANY item with a unit; each of the four constructor arguments is needed (dropping the qualifier is refuted).
   (B) the three queries cannot see the NUM items of a group at all: replacing them by ANY other NUM items (other
       names, values, attributes, child content) changes no answer, on ANY tree.
   (C) records: a report whose groups are built from good records and whose measurements are built from full
       measurement records answers every accepted query with exactly the matching groups in document order, and every
       returned group reports, measurement by measurement (all / by name), the name, value, unit, qualifier,
       derivation, method, finding sites, referenced images and child content it was constructed with. *)
From Coq Require Import String ZArith List Bool Lia ZifyBool.
From HD Require Import Base.Val C16_Model C16_Proofs C16_Proofs_Acc C16_Proofs_Tree C16_Proofs_E2E C16_Proofs_Enc.
Import ListNotations.
Open Scope Z_scope.

(* ---------------------------------------------------------------------------------- *)
(* (A) the NUM item and its rebuilt copy                                                *)
(* ---------------------------------------------------------------------------------- *)
Definition clean (c : list item) : Prop := forall k, In k c -> is_attr k = false.

Lemma num_content_clean i : clean (num_content i).
Proof. intros k Hk. apply filter_In in Hk as [_ H]. now apply negb_true_iff in H. Qed.

Lemma filter_clean p c : clean c -> (forall k, p k = true -> is_attr k = true) -> filter p c = [].
Proof.
  intros Hc Hp. apply filter_none. intros k Hk. destruct (p k) eqn:E; [|reflexivity].
  apply Hp in E. rewrite (Hc k Hk) in E. discriminate.
Qed.

Lemma kids_init n a b u q c : kids (num_item_init n a b u q c) = attr_items u q ++ c.
Proof. reflexivity. Qed.

Lemma num_unit_init n a b u q c : num_unit (num_item_init n a b u q c) = Some u.
Proof. reflexivity. Qed.

Lemma num_qualifier_init n a b u q c : clean c -> num_qualifier (num_item_init n a b u q c) = q.
Proof.
  intros Hc. unfold num_qualifier. rewrite kids_init, filter_app, (filter_clean _ c Hc), app_nil_r.
  - destruct q; reflexivity.
  - intros k H. unfold is_attr. rewrite H. apply orb_true_r.
Qed.

Lemma num_content_init n a b u q c : clean c -> num_content (num_item_init n a b u q c) = c.
Proof.
  intros Hc. unfold num_content. rewrite kids_init, filter_app.
  replace (filter (fun k => negb (is_attr k)) (attr_items u q)) with (@nil item) by (destruct q; reflexivity).
  cbn [app]. apply filter_all. intros k Hk. now rewrite (Hc k Hk).
Qed.

Lemma find_init n a b u q c name v r : (cUnitAttr =? name) = false -> (cQualAttr =? name) = false ->
  find_items (kids (num_item_init n a b u q c)) (Some name) v r = find_items c (Some name) v r.
Proof.
  intros H1 H2. unfold find_items. rewrite kids_init, filter_app.
  replace (filter (fun i => has_name (Some name) i && has_vt v i && has_rl r i) (attr_items u q)) with (@nil item);
    [reflexivity|].
  destruct q; cbn [attr_items opt_item filter has_name nm leaf]; rewrite ?H1, ?H2; reflexivity.
Qed.

Lemma find_content i name v r : (cUnitAttr =? name) = false -> (cQualAttr =? name) = false ->
  find_items (num_content i) (Some name) v r = find_items (kids i) (Some name) v r.
Proof.
  intros H1 H2. unfold find_items, num_content. rewrite filter_filter. apply filter_ext. intros k.
  unfold is_attr, has_name. destruct (nm k =? name) eqn:E; cbn [andb]; [|now rewrite andb_false_r].
  apply Z.eqb_eq in E. subst name.
  rewrite (Z.eqb_sym (nm k) cUnitAttr), H1, (Z.eqb_sym (nm k) cQualAttr), H2. reflexivity.
Qed.

(* a NUM item whose children are the two attributes and clean content shows ... *)
Lemma meas_val_init n a b u q c : clean c ->
  meas_val (num_item_init n a b u q c) =
  VL [VZ n; VZ (num_value (num_item_init n a b u q c)); voptz (Some u); voptz q;
      voptz (first_v1 (find_items c (Some cDerivation) (Some CODE) None));
      voptz (first_v1 (find_items c (Some cMethod) (Some CODE) None));
      vz_list (map v1 (find_items c (Some cFindingSite) (Some CODE) None));
      vpairs (map (fun i => (v1 i, v2 i)) (find_items c (Some cSourceOfMeas) (Some IMAGE) None));
      VL (map kid_val c)].
Proof.
  intros Hc. unfold meas_val, m_derivation, m_method, m_sites, m_images.
  rewrite num_unit_init, (num_qualifier_init _ _ _ _ _ _ Hc), (num_content_init _ _ _ _ _ _ Hc).
  rewrite !find_init by reflexivity. reflexivity.
Qed.

(* Measurement.from_sequence loses nothing: the rebuilt measurement shows, accessor by accessor, what the stored NUM
   item carries - name, value (Floating Point Value if present, else Numeric Value), unit, qualifier, derivation,
   method, finding sites, referenced images, child content; for EVERY item that has a unit *)
Theorem from_sequence_faithful i u : num_unit i = Some u ->
  exists m, measurement_from_item i = Ok m /\ meas_val m = meas_val i.
Proof.
  intros Hu. unfold measurement_from_item. rewrite Hu. eexists. split; [reflexivity|].
  rewrite (meas_val_init _ _ _ _ _ _ (num_content_clean i)).
  unfold meas_val at 1, m_derivation, m_method, m_sites, m_images.
  rewrite !find_content by reflexivity. rewrite Hu.
  unfold num_item_init. rewrite num_value_prefers_fp. reflexivity.
Qed.

(* ... and it raises exactly when the (type 1) unit is missing *)
Theorem from_sequence_raises_iff i :
  measurement_from_item i = Err "AttributeError"%string <-> num_unit i = None.
Proof. unfold measurement_from_item. destruct (num_unit i); split; intros H; congruence. Qed.

(* every argument of the rebuild is needed: a from_sequence that rebuilds the item from name, value and unit only
   (the qualifier argument dropped) reports a measurement without qualifier although the stored item has one *)
Definition from_item_no_qualifier (i : item) : res item :=
  match num_unit i with
  | None => Err "AttributeError"%string
  | Some u => Ok (num_item_init (nm i) (num_value i) (fp_code (num_value i)) u None (num_content i))
  end.
Definition failed_measurement : item :=
  num_item_init 140 0 0 200 (Some 210) [leaf cDerivation CODE HAS_CONCEPT_MOD 220 0].
Lemma qualifier_argument_needed :
  num_qualifier failed_measurement = Some 210 /\
  (exists m, measurement_from_item failed_measurement = Ok m /\ num_qualifier m = Some 210 /\
             meas_val m = meas_val failed_measurement) /\
  (exists m, from_item_no_qualifier failed_measurement = Ok m /\ num_qualifier m = None /\
             meas_val m <> meas_val failed_measurement).
Proof.
  split; [reflexivity|]. split; eexists; (split; [reflexivity|]); split; try reflexivity.
  vm_compute. congruence.
Qed.

(* ---------------------------------------------------------------------------------- *)
(* (B) the queries cannot see the NUM items of a group                                  *)
(* ---------------------------------------------------------------------------------- *)
Lemma vt_is_num a : vt_eqb a NUM = true -> a = NUM.
Proof. destruct a; vm_compute; congruence. Qed.

Definition map_kids (F : item -> item) (i : item) : item :=
  Item (nm i) (vt i) (rl i) (v1 i) (v2 i) (tmpl i) (map F (kids i)).
Definition kills_num (p : item -> bool) : Prop := forall j, vt_eqb (vt j) NUM = true -> p j = false.

Definition on_list (F : item -> item) (r : res (list item)) : res (list item) :=
  match r with Ok l => Ok (map F l) | Err e => Err e end.
Lemma collect_map (F : item -> item) p l : (forall g, p (F g) = p g) -> collect p (map F l) = on_list F (collect p l).
Proof.
  intros H. induction l as [|x t IH]; cbn [map collect]; [reflexivity|].
  rewrite H, IH. destruct (p x) as [b|e]; cbn [bind on_list]; [|reflexivity].
  destruct (collect p t) as [r|e]; cbn [bind on_list]; [|reflexivity]. now destruct b.
Qed.

Section BlindToNum.
(* ANY rewriting of the NUM items (names, numbers, attributes, child content), nothing else touched *)
Variable H : item -> item.
Hypothesis H_id : forall i, vt_eqb (vt i) NUM = false -> H i = i.
Hypothesis H_num : forall i, vt_eqb (vt i) NUM = true -> vt_eqb (vt (H i)) NUM = true.
Notation regroup := (map_kids H).

Lemma filter_H p l : kills_num p -> filter p (map H l) = filter p l.
Proof.
  intros K. induction l as [|a l IH]; cbn [map filter]; [reflexivity|].
  destruct (vt_eqb (vt a) NUM) eqn:E.
  - rewrite (K (H a) (H_num a E)), (K a E). exact IH.
  - rewrite (H_id a E). now rewrite IH.
Qed.
Lemma count_H p l : kills_num p -> count p (map H l) = count p l.
Proof. intros K. unfold count. now rewrite filter_H. Qed.

Lemma kills_ir : kills_num is_ir.
Proof. intros j E. unfold is_ir. rewrite (vt_is_num _ E). now rewrite andb_false_r. Qed.
Lemma kills_vs : kills_num is_vs.
Proof. intros j E. unfold is_vs. rewrite (vt_is_num _ E). now rewrite andb_false_r. Qed.
Lemma kills_rs : kills_num is_rs.
Proof. intros j E. unfold is_rs. rewrite (vt_is_num _ E). now rewrite andb_false_r. Qed.
Lemma kills_sf : kills_num is_sf.
Proof. intros j E. unfold is_sf. rewrite (vt_is_num _ E). now rewrite andb_false_r. Qed.
Lemma kills_ris : kills_num is_ris.
Proof. intros j E. unfold is_ris. rewrite (vt_is_num _ E). now rewrite andb_false_r. Qed.
Lemma kills_candidate allowed : kills_num (is_candidate allowed).
Proof.
  intros j E. destruct (is_candidate allowed j) eqn:C; [|reflexivity].
  apply candidate_not_num in C. congruence.
Qed.
Lemma kills_sel n v r : vt_eqb v NUM = false -> kills_num (fun i => has_name n i && has_vt (Some v) i && has_rl r i).
Proof.
  intros Hv j E. cbn [has_vt]. rewrite (vt_is_num _ E).
  replace (vt_eqb NUM v) with false by (destruct v; vm_compute in Hv |- *; congruence).
  now rewrite andb_false_r.
Qed.

Lemma count_roi_items_regroup g : count_roi_items (regroup g) = count_roi_items g.
Proof.
  unfold count_roi_items, map_kids. cbn [vt nm kids].
  now rewrite (count_H _ _ kills_ir), (count_H _ _ kills_vs), (count_H _ _ kills_rs), (count_H _ _ kills_sf),
    (count_H _ _ kills_ris).
Qed.
Lemma find_items_H l n v r : vt_eqb v NUM = false -> find_items (map H l) n (Some v) r = find_items l n (Some v) r.
Proof. intros Hv. unfold find_items. apply filter_H. now apply kills_sel. Qed.

Lemma roi_refs_regroup g allowed : get_roi_reference_items (regroup g) allowed = get_roi_reference_items g allowed.
Proof.
  rewrite !roi_reference_spec. unfold cands, map_kids. cbn [kids]. now rewrite (filter_H _ _ (kills_candidate allowed)).
Qed.

Lemma common_matches_regroup f g : common_matches f (regroup g) = common_matches f g.
Proof.
  unfold common_matches, contains_code_items, contains_uidref_items, map_kids. cbn [kids].
  now rewrite !find_items_H by reflexivity.
Qed.

Lemma contains_image_items_regroup g n cls inst r :
  contains_image_items (kids (regroup g)) n cls inst r = contains_image_items (kids g) n cls inst r.
Proof. unfold contains_image_items, map_kids. cbn [kids]. now rewrite find_items_H by reflexivity. Qed.

Lemma ref_matches_planar_regroup f g : ref_matches_planar f (regroup g) = ref_matches_planar f g.
Proof.
  unfold ref_matches_planar, get_planar_ref_item. rewrite roi_refs_regroup.
  now rewrite contains_image_items_regroup.
Qed.
Lemma ref_matches_volumetric_regroup f g : ref_matches_volumetric f (regroup g) = ref_matches_volumetric f g.
Proof.
  unfold ref_matches_volumetric. rewrite roi_refs_regroup.
  now rewrite contains_image_items_regroup.
Qed.

Lemma gtest_regroup k f g : gtest k f (regroup g) = gtest k f g.
Proof.
  destruct k; cbn [gtest]; unfold planar_group_test, volumetric_group_test, image_group_test,
    contains_planar, contains_volumetric.
  - rewrite count_roi_items_regroup, ref_matches_planar_regroup, common_matches_regroup. reflexivity.
  - rewrite count_roi_items_regroup, ref_matches_volumetric_regroup, common_matches_regroup. reflexivity.
  - rewrite !count_roi_items_regroup, common_matches_regroup, contains_image_items_regroup. reflexivity.
Qed.

(* the same rewriting applied to every group of a whole tree (the items at depth 3 below the root) *)
Definition regraft (root : item) : item := map_kids (map_kids regroup) root.

Lemma find_items_map_kids F l n v r :
  find_items (map (map_kids F) l) n v r = map (map_kids F) (find_items l n v r).
Proof.
  unfold find_items. induction l as [|a l IH]; cbn [map filter]; [reflexivity|].
  change (has_name n (map_kids F a)) with (has_name n a). change (has_vt v (map_kids F a)) with (has_vt v a).
  change (has_rl r (map_kids F a)) with (has_rl r a).
  destruct (has_name n a && has_vt v a && has_rl r a); cbn [map]; now rewrite IH.
Qed.

Lemma find_groups_regraft root : find_measurement_groups (regraft root) = map regroup (find_measurement_groups root).
Proof.
  unfold find_measurement_groups, regraft. unfold map_kids at 1. cbn [kids]. rewrite find_items_map_kids.
  destruct (find_items (kids root) (Some cImagingMeasurements) (Some CONTAINER) None) as [|im t]; cbn [map]; [reflexivity|].
  unfold map_kids at 1. cbn [kids]. apply find_items_map_kids.
Qed.

(* ANY tree, ANY filter, ANY rewriting of the NUM items of the groups: the three queries return the same groups in
   the same order (or the same error) *)
Theorem query_regraft k root f : query k (regraft root) f = on_list regroup (query k root f).
Proof.
  rewrite !query_unfold. destruct (qcheck k f) as [[]|e]; cbn [bind]; [|reflexivity].
  rewrite find_groups_regraft. apply collect_map. intros g. apply gtest_regroup.
Qed.
End BlindToNum.

(* ---------------------------------------------------------------------------------- *)
(* (C) records: groups whose measurements are built from full measurement records        *)
(* ---------------------------------------------------------------------------------- *)
Definition to_leaf (i : item) : item :=
  if vt_eqb (vt i) NUM then leaf (nm i) NUM CONTAINS (num_value i) 0 else i.
Lemma to_leaf_id i : vt_eqb (vt i) NUM = false -> to_leaf i = i.
Proof. unfold to_leaf. now intros ->. Qed.
Lemma to_leaf_num i : vt_eqb (vt i) NUM = true -> vt_eqb (vt (to_leaf i)) NUM = true.
Proof. unfold to_leaf. intros ->. reflexivity. Qed.

Definition meas_pair (m : mrec) : Z * Z := (mr_name m, mr_value m).
(* the group record is good and its (name, value) list is that of the full measurement records *)
Definition good_m (gm : group * list mrec) : Prop := good (fst gm) /\ g_meas (fst gm) = map meas_pair (snd gm).

Lemma common_items_m_leaves g :
  common_items g = common_items_m g (map (fun m => leaf (fst m) NUM CONTAINS (snd m) 0) (g_meas g)).
Proof. reflexivity. Qed.

Lemma meas_content_clean m : clean (meas_content m).
Proof.
  intros k Hk. unfold meas_content in Hk.
  repeat (apply in_app_or in Hk; destruct Hk as [Hk|Hk]).
  - destruct (mr_track m) as [[t u]|]; [destruct Hk as [<-|[<-|[]]]; reflexivity|destruct Hk].
  - apply in_opt_item in Hk as [x [_ ->]]. reflexivity.
  - apply in_opt_item in Hk as [x [_ ->]]. reflexivity.
  - apply in_map_iff in Hk as [x [<- _]]. reflexivity.
  - apply in_map_iff in Hk as [x [<- _]]. reflexivity.
Qed.

Lemma regroup_build_m gm : g_meas (fst gm) = map meas_pair (snd gm) -> map_kids to_leaf (build_m gm) = build (fst gm).
Proof.
  destruct gm as [g ms]. cbn [fst snd]. intros Hm. unfold map_kids, build_m, build.
  cbn [fst snd nm vt rl v1 v2 tmpl kids]. f_equal. rewrite map_app. f_equal.
  - unfold common_items_m, common_items. rewrite Hm, !map_app, !map_map.
    destruct (g_session g), (g_category g), (g_finding g), (g_method g), (g_tptype g), (g_geom g); reflexivity.
  - rewrite <- (map_id (ref_items (g_ref g))) at 2. apply map_ext_in. intros i Hi. apply to_leaf_id.
    now apply ref_items_vt in Hi as [_ [? _]].
Qed.

Lemma gtest_build_m k f gm : g_meas (fst gm) = map meas_pair (snd gm) ->
  gtest k f (build_m gm) = gtest k f (build (fst gm)).
Proof.
  intros Hm. rewrite <- (regroup_build_m gm Hm). symmetry. apply (gtest_regroup to_leaf to_leaf_id to_leaf_num).
Qed.

Lemma gtest_build k f g : good g -> gtest k f (build g) = Ok (kind_eqb (g_kind g) k && satk k f g).
Proof.
  intros Hg. destruct k; cbn [gtest satk];
    [now apply planar_group_test_build|now apply volumetric_group_test_build|now apply image_group_test_build].
Qed.

Lemma find_groups_report_m pre gms : no_im pre = true -> find_measurement_groups (report_m pre gms) = map build_m gms.
Proof.
  intros H. unfold find_measurement_groups, report_m. cbn [kids]. unfold find_items at 1.
  rewrite filter_app. rewrite filter_none.
  2:{ intros x Hx. unfold no_im in H. rewrite forallb_forall in H. specialize (H x Hx).
      unfold is_im in H. cbn [has_name has_vt has_rl]. rewrite andb_true_r.
      now apply negb_true_iff in H. }
  cbn. unfold find_items. apply filter_all. intros x Hx. apply in_map_iff in Hx as [g [<- _]]. reflexivity.
Qed.

Lemma collect_map_spec {A} (F : A -> item) (p : item -> res bool) (spec : A -> bool) l :
  (forall x, In x l -> p (F x) = Ok (spec x)) -> collect p (map F l) = Ok (map F (filter spec l)).
Proof.
  induction l as [|a l IH]; intros Hp; cbn [map collect filter]; [reflexivity|].
  rewrite (Hp a (or_introl eq_refl)). cbn [bind]. rewrite IH by (intros x Hx; apply Hp; now right). cbn [bind].
  now destruct (spec a).
Qed.

Definition sel_m (k : kind) (f : filt) (gm : group * list mrec) : bool :=
  kind_eqb (g_kind (fst gm)) k && satk k f (fst gm).

(* which groups: exactly those of the kind that satisfy every filter, in document order *)
Theorem query_exact_m k pre gms f : no_im pre = true -> Forall good_m gms -> qcheck k f = Ok tt ->
  query k (report_m pre gms) f = Ok (map build_m (filter (sel_m k f) gms)).
Proof.
  intros Hp Hg Hc. rewrite query_unfold, Hc. cbn [bind]. rewrite find_groups_report_m by assumption.
  apply collect_map_spec. intros gm Hin. rewrite Forall_forall in Hg. destruct (Hg gm Hin) as [Hgood Hm].
  rewrite (gtest_build_m k f gm Hm). now apply gtest_build.
Qed.

(* what each of them reports *)
Definition mname_sel (name : option Z) (m : mrec) : bool := opt_ok name (mr_name m).

Lemma filter_num_none name l : (forall i, In i l -> vt_eqb (vt i) NUM = false) ->
  filter (fun i => has_name name i && has_vt (Some NUM) i && has_rl None i) l = [].
Proof. intros H. apply filter_none. intros i Hi. cbn [has_vt]. rewrite (H i Hi). now rewrite andb_false_r. Qed.

Ltac seg :=
  let i := fresh "i" in let Hi := fresh "Hi" in
  intros i Hi;
  first [ apply in_opt_item in Hi as [? [_ ->]]; reflexivity
        | apply in_map_iff in Hi as [? [<- _]]; reflexivity
        | repeat (destruct Hi as [<-|Hi]; [reflexivity|]); destruct Hi ].

Lemma find_num_build_m gm name :
  find_items (kids (build_m gm)) name (Some NUM) None = map build_meas (filter (mname_sel name) (snd gm)).
Proof.
  destruct gm as [g ms]. unfold find_items, build_m. cbn [fst snd kids]. rewrite filter_app.
  rewrite (filter_num_none name (ref_items (g_ref g)))
    by (intros i Hi; now apply ref_items_vt in Hi as [_ [? _]]).
  rewrite app_nil_r. unfold common_items_m. rewrite !filter_app.
  rewrite (filter_map_sel _ (mname_sel name) build_meas ms).
  2:{ intros m _. unfold mname_sel. destruct name; cbn; rewrite ?andb_true_r; reflexivity. }
  rewrite (filter_num_none name (opt_item (g_session g) _)) by seg.
  rewrite (filter_num_none name (opt_item (g_category g) _)) by seg.
  rewrite (filter_num_none name (opt_item (g_finding g) _)) by seg.
  rewrite (filter_num_none name (opt_item (g_method g) _)) by seg.
  rewrite (filter_num_none name (opt_item (g_geom g) _)) by seg.
  rewrite (filter_num_none name (map _ (g_sites g))) by seg.
  rewrite (filter_num_none name (map _ (g_evals g))) by seg.
  rewrite (filter_num_none name [_; _]) by seg.
  destruct (g_tptype g); [rewrite (filter_num_none name [_; _]) by seg|]; cbn [app filter]; now rewrite app_nil_r.
Qed.

Lemma map_res_ok {A B C} (f : A -> res B) (h : B -> C) (g : A -> C) l :
  (forall x, In x l -> exists y, f x = Ok y /\ h y = g x) ->
  exists ys, map_res f l = Ok ys /\ map h ys = map g l.
Proof.
  induction l as [|a l IH]; intros Hf; cbn [map_res map]; [now exists []|].
  destruct (Hf a (or_introl eq_refl)) as [y [Ey Hy]]. destruct IH as [ys [E Hys]]; [intros x Hx; apply Hf; now right|].
  exists (y :: ys). rewrite Ey. cbn [bind]. rewrite E. cbn [bind map]. now rewrite Hy, Hys.
Qed.

(* what a measurement built from record m must show, read off the record *)
Definition spec_meas (m : mrec) : val :=
  VL [VZ (mr_name m); VZ (mr_value m); voptz (Some (mr_unit m)); voptz (mr_qual m); voptz (mr_deriv m);
      voptz (mr_method m); vz_list (mr_sites m); vpairs (mr_imgs m); VL (map kid_val (meas_content m))].

Lemma content_find_none (p : item -> bool) (o : option (Z * Z)) :
  (forall t u, p (leaf cTrackingIdentifier TEXT HAS_OBS_CONTEXT t 0) = false /\
               p (leaf cTrackingUID UIDREF HAS_OBS_CONTEXT u 0) = false) ->
  filter p (match o with
            | Some (t, u) => [leaf cTrackingIdentifier TEXT HAS_OBS_CONTEXT t 0; leaf cTrackingUID UIDREF HAS_OBS_CONTEXT u 0]
            | None => []
            end) = [].
Proof. intros H. destruct o as [[t u]|]; [|reflexivity]. cbn [filter]. destruct (H t u) as [-> ->]. reflexivity. Qed.

Local Notation sel n v := (fun i : item => has_name (Some n) i && has_vt (Some v) i && has_rl None i).
Lemma meas_val_build m : meas_val (build_meas m) = spec_meas m.
Proof.
  unfold build_meas. rewrite (meas_val_init _ _ _ _ _ _ (meas_content_clean m)). unfold spec_meas.
  replace (num_value (num_item_init (mr_name m) (mr_value m) 0 (mr_unit m) (mr_qual m) (meas_content m)))
    with (mr_value m) by reflexivity.
  unfold meas_content, find_items. rewrite !filter_app, !filter_opt_item.
  rewrite !content_find_none by (intros; split; reflexivity).
  rewrite (filter_map_none (sel cDerivation CODE) _ (mr_sites m)), (filter_map_none (sel cDerivation CODE) _ (mr_imgs m)),
    (filter_map_none (sel cMethod CODE) _ (mr_sites m)), (filter_map_none (sel cMethod CODE) _ (mr_imgs m)),
    (filter_map_all (sel cFindingSite CODE) _ (mr_sites m)), (filter_map_none (sel cFindingSite CODE) _ (mr_imgs m)),
    (filter_map_none (sel cSourceOfMeas IMAGE) _ (mr_sites m)), (filter_map_all (sel cSourceOfMeas IMAGE) _ (mr_imgs m))
    by reflexivity.
  destruct (mr_deriv m), (mr_method m); cbn; rewrite ?app_nil_r, ?map_map; cbn;
    rewrite (map_ext (fun x : Z * Z => (fst x, snd x)) (fun x => x)) by (now intros []); rewrite !map_id; reflexivity.
Qed.

(* get_measurements (all / by name) of a group built from records: each measurement, rebuilt by from_sequence,
   shows its record *)
Lemma measurements_build_m gm name :
  meas_list_val (acc_measurements_full (build_m gm) name) = VL (map spec_meas (filter (mname_sel name) (snd gm))).
Proof.
  unfold acc_measurements_full. rewrite find_num_build_m.
  destruct (map_res_ok measurement_from_item meas_val meas_val
              (map build_meas (filter (mname_sel name) (snd gm)))) as [ys [E Hys]].
  - intros x Hx. apply in_map_iff in Hx as [m [<- _]].
    exact (from_sequence_faithful (build_meas m) (mr_unit m) eq_refl).
  - rewrite E. cbn [meas_list_val vres]. rewrite Hys, map_map. f_equal. apply map_ext. intros m. apply meas_val_build.
Qed.

Lemma tracking_identifier_build_m gm : acc_tracking_identifier (build_m gm) = Some (g_tid (fst gm)).
Proof. reflexivity. Qed.

(* what a returned group must show: its tracking identifier, all its measurements, its measurements by name *)
Definition spec_group_meas (mname : option Z) (gm : group * list mrec) : val :=
  VL [voptz (Some (g_tid (fst gm))); VL (map spec_meas (snd gm));
      VL (map spec_meas (filter (mname_sel mname) (snd gm)))].

Lemma group_meas_val_build_m mname gm : group_meas_val mname (build_m gm) = spec_group_meas mname gm.
Proof.
  unfold group_meas_val, spec_group_meas. rewrite tracking_identifier_build_m, !measurements_build_m.
  now rewrite (filter_all (mname_sel None) (snd gm)) by reflexivity.
Qed.

(* the property for the measurements, end to end: exactly the matching groups in document order, and every returned
   group reports every measurement (all / by name) as its record says - qualifier and unit included *)
Theorem meas_end_to_end k pre gms f mname : no_im pre = true -> Forall good_m gms -> qcheck k f = Ok tt ->
  let answer := filter (sel_m k f) gms in
  query k (report_m pre gms) f = Ok (map build_m answer) /\
  map (group_meas_val mname) (map build_m answer) = map (spec_group_meas mname) answer.
Proof.
  intros Hp Hg Hc answer. split; [now apply query_exact_m|].
  rewrite map_map. apply map_ext. intros gm. apply group_meas_val_build_m.
Qed.

(* the observation of the correspondence run (run_meas) is the record-level specification, refusals included *)
Theorem run_meas_exact pre gms f mname : no_im pre = true -> Forall good_m gms ->
  run_meas pre gms f mname =
  VL (map (fun k => match qcheck k f with
                    | Err e => VErr e
                    | Ok _ => VL (map (spec_group_meas mname) (filter (sel_m k f) gms))
                    end) [Planar; Volumetric; ImageK]).
Proof.
  intros Hp Hg. unfold run_meas, run_tree_meas. f_equal. apply map_ext. intros k.
  destruct (qcheck k f) as [[]|e] eqn:Hc.
  - destruct (meas_end_to_end k pre gms f mname Hp Hg Hc) as [E1 E2]. rewrite E1. cbn [vres]. now rewrite E2.
  - rewrite query_unfold, Hc. reflexivity.
Qed.

(* the full observation refines the (name, value) observation of get_measurements used everywhere else: on ANY group *)
Lemma from_item_name_value i m : measurement_from_item i = Ok m -> nm m = nm i /\ num_value m = num_value i.
Proof.
  unfold measurement_from_item. destruct (num_unit i); [|discriminate]. intros E. inversion E. split; [reflexivity|].
  unfold num_item_init. apply num_value_prefers_fp.
Qed.
Theorem measurements_full_refine g name ms : acc_measurements_full g name = Ok ms ->
  map (fun m => (nm m, num_value m)) ms = acc_measurements g name.
Proof.
  unfold acc_measurements_full, acc_measurements. revert ms.
  induction (find_items (kids g) name (Some NUM) None) as [|i l IH]; intros ms; cbn [map_res map].
  - intros E. now inversion E.
  - destruct (measurement_from_item i) as [m|e] eqn:Ei; cbn [bind]; [|discriminate].
    destruct (map_res measurement_from_item l) as [r|e]; cbn [bind]; [|discriminate].
    intros E. inversion E. cbn [map]. destruct (from_item_name_value i m Ei) as [-> ->]. f_equal. now apply IH.
Qed.

(* non-vacuity: a planar group with a failed measurement (qualifier 210, derivation, nested tracking identifier,
   finding site, referenced image) and a plain one of the same name, next to an image group; the qualifier is part of
   the observation *)
Definition ex_gms : list (group * list mrec) :=
  [(Group Planar 1 1000 None (Some 110) None [130] (Region2D 4 0 3) [(140, 0); (140, 7)] [] None None None true,
    [MRec 140 0 200 (Some 210) (Some (1003, 2)) None (Some 220) [131] [(0, 3)];
     MRec 140 7 201 None None (Some 120) None [] []]);
   (Group ImageK 2 1001 None None None [] (SourceImgs [(1, 4)]) [(141, 5)] [] None None None false,
    [MRec 141 5 200 (Some 211) None None None [] []])].
Definition drop_qualifiers (gms : list (group * list mrec)) : list (group * list mrec) :=
  map (fun gm => (fst gm, map (fun m => MRec (mr_name m) (mr_value m) (mr_unit m) None (mr_track m) (mr_method m)
                                              (mr_deriv m) (mr_sites m) (mr_imgs m)) (snd gm))) gms.
Lemma meas_nonvacuous :
  Forall good_m ex_gms /\ Forall good_m (drop_qualifiers ex_gms) /\
  run_meas [] ex_gms (Filt None (Some 110) None None GNone None None) (Some 140) <>
  run_meas [] (drop_qualifiers ex_gms) (Filt None (Some 110) None None GNone None None) (Some 140).
Proof.
  split; [|split].
  - repeat constructor.
  - repeat constructor.
  - vm_compute. congruence.
Qed.
