(* C11 - property theorems.  Statements, `exact <lemma>`, Print Assumptions, and
   Examples showing that the hypotheses have non-trivial inhabitants.

   NOT proved here (kept visible; exercised by the correspondence run only):
   (* regular_accepted under allow_missing with a hint that is only CLOSE to the spacing (h <> s): the
      multiples k*s/h are then tested against atol + rtol*k, which holds or not depending on k; only the
      soundness direction (C11_gaps_indices) covers it.  Proved: hint == s, or no hint (C11_gaps_accepted). *)
   (* unsorted_mode converse with atol > 0: REFUTED (C11_unsorted_converse_atol_refuted). *)
   (* order_invariant for the assembled ARRAY of get_volume_from_series / Image.get_volume (which dataset /
      frame lands in which slot): follows from C11_order_invariant only where the index assignment is
      injective on positions; not stated.  Proved: the verdict, spacing and per-plane indices
      (C11_order_invariant) and the geometry (C11_geometry_order_invariant_all) for ALL stacks. *) *)
From Coq Require Import String ZArith List Bool QArith Qround Permutation Sorted Lia.
From HD Require Import Base.Val C11_Model C11_Proofs C11_Proofs_Stack C11_Proofs_Sort C11_Proofs_Mono C11_Proofs_Rank C11_Proofs_Top
  C11_Proofs_Perm C11_Proofs_Hint C11_Proofs_Gaps C11_Proofs_Geom C11_Proofs_Hist.
Import ListNotations.
Open Scope Q_scope.

(* ---- sort flag semantics and guards ------------------------------------------------------- *)
Theorem C11_flags_require_sort : forall ps rowc colc o,
  o_sort o = false -> (o_dups o = true \/ o_missing o = true) ->
  get_volume_positions ps rowc colc o = Err "ValueError"%string.
Proof. exact flags_require_sort. Qed.
Print Assumptions C11_flags_require_sort.

Theorem C11_both_tolerances_refused : forall ps rowc colc o r a,
  o_rtol o = Some r -> o_atol o = Some a -> exists k, get_volume_positions ps rowc colc o = Err k.
Proof. exact both_tolerances_refused. Qed.
Print Assumptions C11_both_tolerances_refused.

Theorem C11_empty_refused : forall rowc colc o, exists k, get_volume_positions [] rowc colc o = Err k.
Proof. exact empty_refused. Qed.
Print Assumptions C11_empty_refused.

Theorem C11_single_plane : forall p rowc colc o h t,
  negb (o_sort o) && (o_dups o || o_missing o) = false ->
  norm_hint (o_hint o) = Ok h -> tolerances (o_rtol o) (o_atol o) = Ok t ->
  get_volume_positions [p] rowc colc o = Ok (Some (hint_or_one h, [0%Z])).
Proof. exact single_plane. Qed.
Print Assumptions C11_single_plane.

(* ---- the positive normal for every convention ------------------------------------------------ *)
Theorem C11_convention_refused_iff : forall rowc colc c0 c1 rh,
  conv_ok c0 c1 = false <-> normal_vector rowc colc c0 c1 rh = Err "ValueError"%string.
Proof. exact bad_convention_refused. Qed.
Print Assumptions C11_convention_refused_iff.

Theorem C11_handedness_flips_normal : forall rowc colc c0 c1 n1 n2,
  normal_vector rowc colc c0 c1 true = Ok n1 -> normal_vector rowc colc c0 c1 false = Ok n2 ->
  forall p, dot n2 p == - dot n1 p.
Proof. exact normal_handedness. Qed.
Print Assumptions C11_handedness_flips_normal.

Theorem C11_swapped_convention_flips_normal : forall rowc colc c0 c1 rh n1 n2,
  normal_vector rowc colc c0 c1 rh = Ok n1 -> normal_vector rowc colc c1 c0 rh = Ok n2 ->
  forall p, dot n2 p == - dot n1 p.
Proof. exact normal_swap. Qed.
Print Assumptions C11_swapped_convention_flips_normal.

Theorem C11_distance_ignores_inplane_shift : forall rowc colc c0 c1 rh n p a b,
  normal_vector rowc colc c0 c1 rh = Ok n ->
  dot n (vadd p (vadd (vscale a rowc) (vscale b colc))) == dot n p.
Proof. exact distance_inplane. Qed.
Print Assumptions C11_distance_ignores_inplane_shift.

(* ---- unsorted_mode: the verdict refers to the order as passed ----------------------------------- *)
(* planes whose distances along the normal are a, a+s, a+2s, ... (s > 0: along +normal, s < 0: along
   -normal), first-to-last vector within the perpendicularity tolerance: accepted with spacing |s| and
   indices 0..n-1, except that enforce_handedness rejects the -normal order *)
Theorem C11_unsorted_mode : forall ps rowc colc o nv rtol atol a s,
  o_sort o = false -> o_dups o = false -> o_missing o = false -> o_hint o = None ->
  tolerances (o_rtol o) (o_atol o) = Ok (rtol, atol) -> 0 <= rtol -> 0 <= atol ->
  normal_vector rowc colc (o_c0 o) (o_c1 o) (o_rh o) = Ok nv ->
  (2 <= length ps)%nat ->
  is_prog a s (map (dot nv) ps) -> ~ s == 0 ->
  is_perp nv (vsub (nthV (map vred ps) (length ps - 1)) (nthV (map vred ps) 0)) = true ->
  exists sp, sp == Qabs_ s /\
    get_volume_positions ps rowc colc o =
      if o_enforce o && Qlt_b s 0 then Ok None
      else Ok (Some (sp, map Z.of_nat (seq 0 (length ps)))).
Proof. exact unsorted_accept. Qed.
Print Assumptions C11_unsorted_mode.

Definition ex_ps : list vec3 := [V3 1 2 (7#2); V3 1 2 1; V3 1 2 (-3#2)].
Definition ex_o : opts := mkOpts None None false false false None DirD DirR true true.
Example C11_unsorted_mode_nonvacuous :
  let nv := V3 0 0 (-1) in
  normal_vector (V3 1 0 0) (V3 0 1 0) DirD DirR true = Ok nv /\
  is_prog (-7#2) (5#2) (map (dot nv) ex_ps) /\
  is_perp nv (vsub (nthV (map vred ex_ps) 2) (nthV (map vred ex_ps) 0)) = true /\
  mismatches [run_gvp ex_ps (V3 1 0 0) (V3 0 1 0) ex_o; run_gvp (rev ex_ps) (V3 1 0 0) (V3 0 1 0) ex_o]
             [VL [VQ (5#2); vz_list [0;1;2]%Z]; VNone] = [].
Proof. cbv zeta. repeat split; vm_compute; reflexivity. Qed.
Print Assumptions C11_unsorted_mode_nonvacuous.

(* converse (default / rtol-only tolerances, rtol < 1): whatever sort = False accepts was passed in
   strictly increasing order along the normal, or - only without enforce_handedness - in strictly
   decreasing order; the indices are 0..n-1 in the order passed.  Anything else is rejected. *)
Theorem C11_unsorted_mode_converse : forall uniq uidx nv rtol enforce hint sp idx,
  (2 <= length uniq)%nat -> 0 <= rtol -> rtol < 1 ->
  gvp_core uniq uidx nv rtol 0 false false enforce hint = Ok (Some (sp, idx)) ->
  let ds := map (dot nv) uniq in
  (Forall (fun x => 0 < x) (diffs ds) \/ (enforce = false /\ Forall (fun x => x < 0) (diffs ds))) /\
  idx = map (fun u => nth u (map Z.of_nat (seq 0 (length uniq))) 0%Z) uidx.
Proof. exact unsorted_monotone. Qed.
Print Assumptions C11_unsorted_mode_converse.

(* ---- regular_accepted (partial): sort = True ------------------------------------------------------- *)
(* unique positions listed in increasing order along the normal, ANY unique_index (i.e. any input
   order, with repetitions): spacing s and, for each input plane, the rank of its position *)
Theorem C11_regular_accepted_partial : forall uniq uidx nv rtol atol enforce a s,
  (2 <= length uniq)%nat -> is_prog a s (map (dot nv) uniq) -> 0 < s ->
  0 <= rtol -> 0 <= atol ->
  is_perp nv (vsub (nthV uniq (length uniq - 1)) (nthV uniq 0)) = true ->
  exists sp, sp == s /\
    gvp_core uniq uidx nv rtol atol true false enforce None =
      Ok (Some (sp, map (fun u => nth u (map Z.of_nat (seq 0 (length uniq))) 0%Z) uidx)).
Proof. exact core_sorted_increasing. Qed.
Print Assumptions C11_regular_accepted_partial.

(* a permuted oblique stack with a duplicate, evaluated by the model (sorted mode) *)
Example C11_regular_example :
  mismatches [run_gvp
    [V3 (9#5) (12#5) 0; V3 0 0 0; V3 (3#5) (4#5) 0; V3 (6#5) (8#5) 0; V3 0 0 0]
    (V3 (-4#5) (3#5) 0) (V3 0 0 1)
    (mkOpts None None true false true None DirR DirD true false)]
    [VL [VQ 1; vz_list [3;0;1;2;0]%Z]] = [].
Proof. vm_compute. reflexivity. Qed.
Print Assumptions C11_regular_example.

(* ---- regular_accepted, sort = True, ANY input order (with declared duplicates) --------------------- *)
(* regular_stack nv a s r M L: every position p of L has a rank r p in 0..M-1, its distance along the
   normal is a + r p * s (s > 0), equal ranks mean equal positions, every rank occurs, and the vector from
   a rank-0 to a rank-(M-1) plane passes the perpendicularity test.  Then whatever the order of the input
   (np.unique order, argsort and its inverse included) the answer is spacing s and, for every input plane,
   its rank along the positive normal. *)
Theorem C11_regular_accepted : forall ps rowc colc o nv rtol atol a s r M,
  o_sort o = true -> o_missing o = false -> o_hint o = None ->
  tolerances (o_rtol o) (o_atol o) = Ok (rtol, atol) -> 0 <= rtol -> 0 <= atol ->
  normal_vector rowc colc (o_c0 o) (o_c1 o) (o_rh o) = Ok nv ->
  regular_stack nv a s r M (map vred ps) ->
  (o_dups o = true \/ length ps = M) ->
  exists sp, sp == s /\
    get_volume_positions ps rowc colc o = Ok (Some (sp, map (fun p => Z.of_nat (r p)) (map vred ps))).
Proof. exact regular_accepted. Qed.
Print Assumptions C11_regular_accepted.

(* order_invariant (regular stacks): for every permutation of the input every plane keeps its index *)
Theorem C11_regular_order_invariant : forall ps ps2 rowc colc o nv rtol atol a s r M,
  o_sort o = true -> o_missing o = false -> o_hint o = None ->
  tolerances (o_rtol o) (o_atol o) = Ok (rtol, atol) -> 0 <= rtol -> 0 <= atol ->
  normal_vector rowc colc (o_c0 o) (o_c1 o) (o_rh o) = Ok nv ->
  regular_stack nv a s r M (map vred ps) ->
  (o_dups o = true \/ length ps = M) ->
  Permutation ps ps2 ->
  exists sp sp2, sp == s /\ sp2 == s /\
    get_volume_positions ps rowc colc o = Ok (Some (sp, map (fun p => Z.of_nat (r p)) (map vred ps))) /\
    get_volume_positions ps2 rowc colc o = Ok (Some (sp2, map (fun p => Z.of_nat (r p)) (map vred ps2))).
Proof. exact regular_order_invariant. Qed.
Print Assumptions C11_regular_order_invariant.

(* the core statement for unique positions in any order (rank of a permuted arithmetic progression) *)
Theorem C11_rank_of_permuted_progression : forall uniq uidx nv rtol atol enforce a s ranks,
  (2 <= length uniq)%nat -> 0 < s -> length ranks = length uniq ->
  (forall j, (j < length uniq)%nat ->
     dot nv (nthV uniq j) == a + inject_Z (Z.of_nat (nth j ranks 0%nat)) * s) ->
  Permutation ranks (seq 0 (length uniq)) ->
  0 <= rtol -> 0 <= atol ->
  (forall j0 j1, (j0 < length uniq)%nat -> (j1 < length uniq)%nat ->
     nth j0 ranks 0%nat = 0%nat -> nth j1 ranks 0%nat = (length uniq - 1)%nat ->
     is_perp nv (vsub (nthV uniq j1) (nthV uniq j0)) = true) ->
  exists sp, sp == s /\
    gvp_core uniq uidx nv rtol atol true false enforce None =
      Ok (Some (sp, map (fun u => nth u (map Z.of_nat ranks) 0%Z) uidx)).
Proof. exact core_sorted_any. Qed.
Print Assumptions C11_rank_of_permuted_progression.

(* non-vacuity: an oblique stack passed out of order with one duplicated plane *)
Definition ex_stack : list vec3 := [V3 (6#5) (8#5) 0; V3 0 0 0; V3 (3#5) (4#5) 0; V3 0 0 0].
Definition ex_nv : vec3 := cross (V3 (-4#5) (3#5) 0) (V3 0 0 1).
Definition ex_rank (p : vec3) : nat := Z.to_nat (Qfloor (dot ex_nv p)).
Example C11_regular_stack_nonvacuous :
  normal_vector (V3 (-4#5) (3#5) 0) (V3 0 0 1) DirR DirD true = Ok ex_nv /\
  regular_stack ex_nv 0 1 ex_rank 3 (map vred ex_stack).
Proof.
  split; [vm_compute; reflexivity|].
  let L := eval vm_compute in (map vred ex_stack) in change (map vred ex_stack) with L.
  unfold regular_stack. split; [reflexivity|]. split; [apply le_S, le_n|].
  split; [intros p Hp; repeat (destruct Hp as [<-|Hp]; [vm_compute; reflexivity|]); contradiction|].
  split.
  { intros p q Hp Hq; repeat (destruct Hp as [<-|Hp]; [|]); try contradiction;
      repeat (destruct Hq as [<-|Hq]; [|]); try contradiction; vm_compute; intro E;
      first [reflexivity|discriminate E]. }
  split.
  { intros k Hk. destruct k as [|[|[|k]]].
    - eexists; split; [right; left; reflexivity|vm_compute; reflexivity].
    - eexists; split; [right; right; left; reflexivity|vm_compute; reflexivity].
    - eexists; split; [left; reflexivity|vm_compute; reflexivity].
    - exfalso. apply (Nat.lt_irrefl 3). eapply Nat.le_lt_trans; [|exact Hk]. apply le_n_S, le_n_S, le_n_S, Nat.le_0_l. }
  split; [intros p Hp; repeat (destruct Hp as [<-|Hp]; [vm_compute; repeat constructor|]); contradiction|].
  intros p0 p1 H0 H1; repeat (destruct H0 as [<-|H0]; [|]); try contradiction;
    repeat (destruct H1 as [<-|H1]; [|]); try contradiction; vm_compute; intros E0 E1;
    first [reflexivity|discriminate E0|discriminate E1].
Qed.
Print Assumptions C11_regular_stack_nonvacuous.

(* ---- irregular_rejected / dups_and_gaps: what every accepted answer satisfies ---------------------- *)
Theorem C11_accepted_sound : forall ps rowc colc o sp idx,
  (2 <= length ps)%nat ->
  get_volume_positions ps rowc colc o = Ok (Some (sp, idx)) ->
  exists hint rtol atol nv,
    norm_hint (o_hint o) = Ok hint /\ tolerances (o_rtol o) (o_atol o) = Ok (rtol, atol) /\
    normal_vector rowc colc (o_c0 o) (o_c1 o) (o_rh o) = Ok nv /\
    (o_sort o = false -> o_dups o = false /\ o_missing o = false) /\
    let ps' := map vred ps in
    let uq := lexuniq ps' in
    (o_dups o = false -> (length ps <= length uq)%nat) /\
    let uniq := if o_sort o then uq else ps' in
    let uidx := if o_sort o then map (fun p => index_of p uq) ps' else seq 0 (length ps) in
    ((length uniq = 1%nat /\ sp = hint_or_one hint /\ idx = repeat 0%Z (length ps)) \/
     gvp_core uniq uidx nv rtol atol (o_sort o) (o_missing o) (o_enforce o) hint = Ok (Some (sp, idx))).
Proof. exact gvp_sound. Qed.
Print Assumptions C11_accepted_sound.

(* without allow_missing: every consecutive spacing of the (sorted) distances is within atol + rtol|S|
   of the mean spacing S, the first-to-last vector is along the normal, the hint matches, the answer is
   |S|, enforce_handedness implies S >= 0.  Contrapositive: an irregular or sheared stack is rejected. *)
Theorem C11_irregular_rejected : forall uniq uidx nv rtol atol sort enforce hint sp idx,
  gvp_core uniq uidx nv rtol atol sort false enforce hint = Ok (Some (sp, idx)) ->
  let ds := map (dot nv) uniq in
  let sidx := sort_idx sort ds in
  let sds := map (nthQ ds) sidx in
  let S := mean_sp sds (length uniq) in
  Forall (fun x => Qabs_ (x - S) <= atol + rtol * Qabs_ S) (diffs sds) /\
  is_perp nv (vsub (nthV uniq (last sidx 0%nat)) (nthV uniq (hd 0%nat sidx))) = true /\
  sp = Qabs_ S /\ (enforce = true -> 0 <= S) /\
  (forall h, hint = Some h -> Qabs_ (Qabs_ S - h) <= atol + rtol * Qabs_ h) /\
  idx = map (fun u => nth u (map Z.of_nat (inverse_perm sidx)) 0%Z) uidx.
Proof. exact core_sound. Qed.
Print Assumptions C11_irregular_rejected.

(* with allow_missing: index = rne((d - dmin)/spacing), every multiple within tolerance of an integer,
   spacing = the hint, or the smallest consecutive spacing (which must exceed the equality tolerance) *)
Theorem C11_gaps_indices : forall uniq uidx nv rtol atol sort enforce hint sp idx,
  gvp_core uniq uidx nv rtol atol sort true enforce hint = Ok (Some (sp, idx)) ->
  let ds := map (dot nv) uniq in
  exists spacing,
    (match hint with Some h => spacing = h
                   | None => spacing = min_list (diffs (map (nthQ ds) (sort_idx sort ds))) /\ ~ Qabs_ spacing <= eq_tol end) /\
    sp = Qabs_ spacing /\
    Forall (fun d => let mu := (d - min_list ds) / spacing in
                     Qabs_ (mu - inject_Z (rne mu)) <= atol + rtol * Qabs_ (inject_Z (rne mu))) ds /\
    idx = map (fun u => nth u (map (fun d => rne ((d - min_list ds) / spacing)) ds) 0%Z) uidx.
Proof. exact core_sound_missing. Qed.
Print Assumptions C11_gaps_indices.

Example C11_gaps_example :
  let ps := [V3 0 0 5; V3 0 0 0; V3 0 0 (15#2); V3 0 0 5] in
  mismatches
    [run_gvp ps (V3 1 0 0) (V3 0 1 0) (mkOpts None None true true true None DirR DirD true false);
     run_gvp ps (V3 1 0 0) (V3 0 1 0) (mkOpts None None true false true None DirR DirD true false);
     run_gvp ps (V3 1 0 0) (V3 0 1 0) (mkOpts None None true true false None DirR DirD true false)]
    [VL [VQ (5#2); vz_list [2;0;3;2]%Z]; VNone; VNone] = [].
Proof. vm_compute. reflexivity. Qed.
Print Assumptions C11_gaps_example.

(* ---- geometry of a multi-frame image: Image.get_volume_geometry / Segmentation.get_volume_geometry ---- *)
(* om / od: allow_missing_positions / allow_duplicate_positions as passed by the caller (None = not passed:
   eff_missing / eff_dups give the default of the class, seg = Segmentation).  The geometry is reported
   exactly when get_volume_positions accepts the frame positions under the declarations THE CALLER made;
   slices = largest index + 1, origin = position of the first frame with index 0. *)
Theorem C11_geometry_follows_declarations : forall ps rowc colc hint rtol atol seg om od g,
  multiframe_geometry ps rowc colc hint rtol atol seg om od = Ok (Some g) <->
  exists sp idx j0,
    get_volume_positions ps rowc colc (vol_opts rtol atol (eff_missing seg om) (eff_dups od) hint)
      = Ok (Some (sp, idx)) /\
    zindex 0%Z idx = Some j0 /\
    g = mkGeom (zmax_list idx + 1)%Z sp (nthV ps j0) (cross colc rowc).
Proof. exact geometry_sound. Qed.
Print Assumptions C11_geometry_follows_declarations.

Theorem C11_geometry_none_iff : forall ps rowc colc hint rtol atol seg om od,
  multiframe_geometry ps rowc colc hint rtol atol seg om od = Ok None <->
  (get_volume_positions ps rowc colc (vol_opts rtol atol (eff_missing seg om) (eff_dups od) hint) = Ok None \/
   get_volume_positions ps rowc colc (vol_opts rtol atol (eff_missing seg om) (eff_dups od) hint)
     = Err "RuntimeError"%string).
Proof. exact geometry_none_iff. Qed.
Print Assumptions C11_geometry_none_iff.

(* dups_and_gaps: duplicates declared as not allowed -> frames sharing a position are never accepted,
   whatever is declared about gaps (om is universally quantified) *)
Theorem C11_geometry_duplicates_refused : forall ps rowc colc hint rtol atol seg om od g,
  eff_dups od = false -> (2 <= length ps)%nat ->
  (length (lexuniq (map vred ps)) < length ps)%nat ->
  multiframe_geometry ps rowc colc hint rtol atol seg om od <> Ok (Some g).
Proof. exact geometry_duplicates_refused. Qed.
Print Assumptions C11_geometry_duplicates_refused.

(* regular_accepted: frames of a regular stack in ANY order, several frames per plane iff duplicates are
   allowed (declared, or by default: od = None), gaps not allowed (Image default, or declared): M slices,
   spacing s, origin = position of a rank-0 frame, slice axis = cross colc rowc *)
Theorem C11_geometry_regular_accepted : forall ps rowc colc rtol atol seg om od nv rt at_ a s r M,
  eff_missing seg om = false ->
  tolerances rtol atol = Ok (rt, at_) -> 0 <= rt -> 0 <= at_ ->
  normal_vector rowc colc DirD DirR true = Ok nv ->
  regular_stack nv a s r M (map vred ps) ->
  (eff_dups od = true \/ length ps = M) ->
  exists g, multiframe_geometry ps rowc colc None rtol atol seg om od = Ok (Some g) /\
    g_nsl g = Z.of_nat M /\ g_spacing g == s /\ In (g_origin g) ps /\ r (vred (g_origin g)) = 0%nat /\
    g_normal g = cross colc rowc.
Proof. exact geometry_regular_accepted. Qed.
Print Assumptions C11_geometry_regular_accepted.

Theorem C11_geometry_order_invariant : forall ps ps2 rowc colc rtol atol seg om od nv rt at_ a s r M,
  eff_missing seg om = false ->
  tolerances rtol atol = Ok (rt, at_) -> 0 <= rt -> 0 <= at_ ->
  normal_vector rowc colc DirD DirR true = Ok nv ->
  regular_stack nv a s r M (map vred ps) ->
  (eff_dups od = true \/ length ps = M) ->
  Permutation ps ps2 ->
  exists g g2,
    multiframe_geometry ps rowc colc None rtol atol seg om od = Ok (Some g) /\
    multiframe_geometry ps2 rowc colc None rtol atol seg om od = Ok (Some g2) /\
    g_nsl g = g_nsl g2 /\ g_spacing g == g_spacing g2 /\
    veqb (vred (g_origin g)) (vred (g_origin g2)) = true /\ g_normal g = g_normal g2.
Proof. exact geometry_order_invariant. Qed.
Print Assumptions C11_geometry_order_invariant.

(* non-vacuity: ex_stack (three planes, one of them holding two frames, passed out of order) satisfies the
   hypotheses for the volume convention; defaults of Image accept it, duplicates=False refuses it with and
   without gaps allowed, the Segmentation defaults accept it; with a gap only allow_missing accepts *)
Example C11_geometry_nonvacuous :
  let rowc := V3 0 0 1 in let colc := V3 (-4#5) (3#5) 0 in
  normal_vector rowc colc DirD DirR true = Ok ex_nv /\
  (length (lexuniq (map vred ex_stack)) < length ex_stack)%nat /\
  mismatches
    [run_mf_geometry ex_stack rowc colc None None None false None None;
     run_mf_geometry ex_stack rowc colc None None None false None (Some false);
     run_mf_geometry ex_stack rowc colc None None None false (Some true) (Some false);
     run_mf_geometry ex_stack rowc colc None None None true None None;
     run_mf_geometry (V3 (12#5) (16#5) 0 :: ex_stack) rowc colc None None None false None None;
     run_mf_geometry (V3 (12#5) (16#5) 0 :: ex_stack) rowc colc None None None false (Some true) None;
     run_mf_geometry ex_stack rowc colc (Some 2) None None false None None]
    [VL [VZ 3; VQ 1; vvec (V3 0 0 0); vvec (V3 (3#5) (4#5) 0)]; VNone; VNone;
     VL [VZ 3; VQ 1; vvec (V3 0 0 0); vvec (V3 (3#5) (4#5) 0)]; VNone;
     VL [VZ 5; VQ 1; vvec (V3 0 0 0); vvec (V3 (3#5) (4#5) 0)]; VNone] = [].
Proof. cbv zeta. repeat split; vm_compute; reflexivity. Qed.
Print Assumptions C11_geometry_nonvacuous.

(* ---- sorting: the sort index is a permutation that orders the planes along the positive normal ------- *)
Theorem C11_sorted_distances : forall ds,
  Sorted Qle (map (nthQ ds) (argsort ds)) /\ Permutation (map (nthQ ds) (argsort ds)) ds /\
  Permutation (argsort ds) (seq 0 (length ds)).
Proof. intro ds. repeat split; [apply argsort_sorted|apply sorted_dists_perm|apply argsort_perm]. Qed.
Print Assumptions C11_sorted_distances.

Theorem C11_plane_sort_orders : forall ps rowc colc c0 c1 rh si,
  plane_sort_index ps rowc colc c0 c1 rh = Ok si ->
  exists nv, normal_vector rowc colc c0 c1 rh = Ok nv /\
    Permutation si (seq 0 (length ps)) /\
    Sorted Qle (map (fun j => dot nv (nthV ps j)) si).
Proof. exact plane_sort_orders. Qed.
Print Assumptions C11_plane_sort_orders.

(* ==== extension: order_invariant at full strength, hints, gaps, refutation ============================== *)

(* ---- order_invariant, sort = True, EVERY stack (regular, irregular, sheared, with duplicates / gaps), every
   option, hint and tolerance: permuting the input changes neither the verdict (same exception, same
   rejection) nor the spacing, and there is ONE assignment f from plane position to volume index that
   yields both index lists - every plane keeps its index whatever the order of the input.
   (same_verdict ps ps2 r r2 := match r, r2 with Ok (Some (sp, idx)), Ok (Some (sp2, idx2)) => sp = sp2 /\
      exists f, idx = map f (map vred ps) /\ idx2 = map f (map vred ps2) | Ok None, Ok None => True
      | Err k, Err k2 => k = k2 | _, _ => False end) *)
Theorem C11_order_invariant : forall ps ps2 rowc colc o,
  o_sort o = true -> Permutation ps ps2 ->
  same_verdict ps ps2 (get_volume_positions ps rowc colc o) (get_volume_positions ps2 rowc colc o).
Proof. exact gvp_order_invariant. Qed.
Print Assumptions C11_order_invariant.

(* its engine: np.unique(axis=0) of a permuted list of (canonical) positions is the same list *)
Theorem C11_unique_positions_order_free : forall l l2,
  Forall canon l -> Permutation l l2 -> lexuniq l = lexuniq l2.
Proof. exact lexuniq_perm. Qed.
Print Assumptions C11_unique_positions_order_free.

(* non-vacuity: an irregular stack (rejected in both orders), a regular stack with a duplicate and a stack
   with a gap (accepted in both orders with permuted index lists), a hint mismatch (same exception) *)
Example C11_order_invariant_nonvacuous :
  let rowc := V3 (-4#5) (3#5) 0 in let colc := V3 0 0 1 in
  let o m d h := mkOpts None None true m d h DirR DirD true false in
  let irr := [V3 (9#5) (12#5) 0; V3 0 0 0; V3 (3#5) (4#5) 0] in
  Permutation irr (rev irr) /\
  mismatches
    [run_gvp irr rowc colc (o false false None); run_gvp (rev irr) rowc colc (o false false None);
     run_gvp irr rowc colc (o true false None); run_gvp (rev irr) rowc colc (o true false None);
     run_gvp ex_stack rowc colc (o false true None); run_gvp (rev ex_stack) rowc colc (o false true None);
     run_gvp ex_stack rowc colc (o false true (Some 2)); run_gvp (rev ex_stack) rowc colc (o false true (Some 2))]
    [VNone; VNone; VL [VQ 1; vz_list [3;0;1]%Z]; VL [VQ 1; vz_list [1;0;3]%Z];
     VL [VQ 1; vz_list [2;0;1;0]%Z]; VL [VQ 1; vz_list [0;1;0;2]%Z];
     VErr "RuntimeError"; VErr "RuntimeError"] = [].
Proof. cbv zeta. split; [apply Permutation_rev|vm_compute; reflexivity]. Qed.
Print Assumptions C11_order_invariant_nonvacuous.

(* ---- regular_accepted with a spacing hint (sort = True, gaps not allowed): a regular stack passed in any
   order is accepted - spacing s, every plane its rank - iff the (normalised) hint is within atol + rtol*h
   of s; otherwise RuntimeError.  hint_matches rtol atol s hint := match hint with Some h => isclose rtol
   atol s h | None => true end; norm_hint takes the absolute value of a negative hint and refuses 0. *)
Theorem C11_regular_accepted_hint : forall ps rowc colc o nv rtol atol a s r M hint,
  o_sort o = true -> o_missing o = false -> norm_hint (o_hint o) = Ok hint ->
  tolerances (o_rtol o) (o_atol o) = Ok (rtol, atol) -> 0 <= rtol -> 0 <= atol ->
  normal_vector rowc colc (o_c0 o) (o_c1 o) (o_rh o) = Ok nv ->
  regular_stack nv a s r M (map vred ps) ->
  (o_dups o = true \/ length ps = M) ->
  exists sp, sp == s /\
    get_volume_positions ps rowc colc o =
      if hint_matches rtol atol s hint
      then Ok (Some (sp, map (fun p => Z.of_nat (r p)) (map vred ps)))
      else Err "RuntimeError"%string.
Proof. exact regular_accepted_hint. Qed.
Print Assumptions C11_regular_accepted_hint.

Example C11_regular_accepted_hint_nonvacuous :
  let rowc := V3 (-4#5) (3#5) 0 in let colc := V3 0 0 1 in
  hint_matches (1#100) 0 1 (Some (201#200)) = true /\ hint_matches (1#100) 0 1 (Some (3#2)) = false /\
  norm_hint (Some (-(201#200))) = Ok (Some (201#200)) /\
  mismatches
    [run_gvp ex_stack rowc colc (mkOpts None None true false true (Some (-(201#200))) DirR DirD true false);
     run_gvp ex_stack rowc colc (mkOpts None None true false true (Some (3#2)) DirR DirD true false)]
    [VL [VQ 1; vz_list [2;0;1;0]%Z]; VErr "RuntimeError"] = [].
Proof. cbv zeta. repeat split; vm_compute; reflexivity. Qed.
Print Assumptions C11_regular_accepted_hint_nonvacuous.

(* ---- dups_and_gaps, acceptance with gaps allowed: gapped_stack nv a s r K L: every position has a rank in
   0..K, distance a + rank*s (s > 0), equal ranks = equal positions, ranks 0 and K occur (others may be
   missing), unsheared rank-0-to-rank-K vector.  spacing_known: the hint equals s, or - without hint - s
   exceeds the equality tolerance 1e-5 and two planes of adjacent ranks are present (then the smallest
   consecutive spacing of the sorted distances IS s: C11_min_spacing).  Then, in ANY input order, with
   duplicates iff declared: spacing s and, for every plane, its rank. *)
Theorem C11_gaps_accepted : forall ps rowc colc o nv rtol atol a s r K hint,
  o_sort o = true -> o_missing o = true -> norm_hint (o_hint o) = Ok hint ->
  tolerances (o_rtol o) (o_atol o) = Ok (rtol, atol) -> 0 <= rtol -> 0 <= atol ->
  normal_vector rowc colc (o_c0 o) (o_c1 o) (o_rh o) = Ok nv ->
  gapped_stack nv a s r K (map vred ps) ->
  spacing_known s r (map vred ps) hint ->
  (o_dups o = true \/ length (lexuniq (map vred ps)) = length ps) ->
  exists sp, sp == s /\
    get_volume_positions ps rowc colc o = Ok (Some (sp, map (fun p => Z.of_nat (r p)) (map vred ps))).
Proof. exact gaps_accepted. Qed.
Print Assumptions C11_gaps_accepted.

Definition ex_gap : list vec3 := [V3 (9#5) (12#5) 0; V3 0 0 0; V3 (3#5) (4#5) 0; V3 0 0 0].
Example C11_gapped_stack_nonvacuous :
  gapped_stack ex_nv 0 1 ex_rank 3 (map vred ex_gap) /\
  spacing_known 1 ex_rank (map vred ex_gap) None /\ spacing_known 1 ex_rank (map vred ex_gap) (Some 1) /\
  mismatches
    [run_gvp ex_gap (V3 (-4#5) (3#5) 0) (V3 0 0 1) (mkOpts None None true true true None DirR DirD true false);
     run_gvp ex_gap (V3 (-4#5) (3#5) 0) (V3 0 0 1) (mkOpts None None true true true (Some 1) DirR DirD true false);
     run_gvp ex_gap (V3 (-4#5) (3#5) 0) (V3 0 0 1) (mkOpts None None true false true None DirR DirD true false)]
    [VL [VQ 1; vz_list [3;0;1;0]%Z]; VL [VQ 1; vz_list [3;0;1;0]%Z]; VNone] = [].
Proof.
  let L := eval vm_compute in (map vred ex_gap) in change (map vred ex_gap) with L.
  split; [|split; [|split; [vm_compute; reflexivity|vm_compute; reflexivity]]].
  - unfold gapped_stack. split; [reflexivity|]. split; [apply le_n_S, Nat.le_0_l|].
    split; [intros p Hp; repeat (destruct Hp as [<-|Hp]; [vm_compute; reflexivity|]); contradiction|].
    split.
    { intros p q Hp Hq; repeat (destruct Hp as [<-|Hp]; [|]); try contradiction;
        repeat (destruct Hq as [<-|Hq]; [|]); try contradiction; vm_compute; intro E;
        first [reflexivity|discriminate E]. }
    split; [eexists; split; [right; left; reflexivity|vm_compute; reflexivity]|].
    split; [eexists; split; [left; reflexivity|vm_compute; reflexivity]|].
    split; [intros p Hp; repeat (destruct Hp as [<-|Hp]; [vm_compute; repeat constructor|]); contradiction|].
    intros p0 p1 H0 H1; repeat (destruct H0 as [<-|H0]; [|]); try contradiction;
      repeat (destruct H1 as [<-|H1]; [|]); try contradiction; vm_compute; intros E0 E1;
      first [reflexivity|discriminate E0|discriminate E1].
  - split; [reflexivity|]. eexists; eexists. split; [right; left; reflexivity|].
    split; [right; right; left; reflexivity|vm_compute; reflexivity].
Qed.
Print Assumptions C11_gapped_stack_nonvacuous.

(* the inferred spacing: smallest consecutive spacing of the sorted distances of the unique positions *)
Theorem C11_min_spacing : forall nv a s r L,
  0 < s ->
  (forall p, In p L -> dot nv p == a + inject_Z (Z.of_nat (r p)) * s) ->
  (forall p q, In p L -> In q L -> r p = r q -> veqb p q = true) ->
  (exists p q, In p L /\ In q L /\ r q = S (r p)) ->
  let ds := map (dot nv) (lexuniq L) in
  min_list (diffs (map (nthQ ds) (argsort ds))) == s.
Proof. exact min_spacing_is_s. Qed.
Print Assumptions C11_min_spacing.

(* ---- unsorted_mode converse for atol > 0: REFUTED.  Distances 0, 2, 1, 3 along the normal, examined in the
   order passed (sort = False) with atol = 2 (twice the spacing) and enforce_handedness: accepted although the
   order is not monotone.  Replayed on the real code: get_volume_positions([[0,0,0],[0,0,2],[0,0,1],[0,0,3]],
   [1,0,0,0,1,0], sort=False, atol=2.0, index_convention='RD', enforce_handedness=True) = (1.0, [0,1,2,3]). *)
Theorem C11_unsorted_converse_atol_refuted :
  exists uniq uidx nv atol enforce sp idx,
    gvp_core uniq uidx nv 0 atol false false enforce None = Ok (Some (sp, idx)) /\
    ~ (Forall (fun x => 0 < x) (diffs (map (dot nv) uniq)) \/
       Forall (fun x => x < 0) (diffs (map (dot nv) uniq))).
Proof. exact unsorted_converse_atol_refuted. Qed.
Print Assumptions C11_unsorted_converse_atol_refuted.

(* ---- geometry of a multi-frame image, order_invariant for ALL stacks and declarations: permuting the frames
   gives the same verdict (geometry / None / same exception), the same number of slices, spacing and slice
   axis, and both origins are positions of frames which the common index assignment f puts at index 0.
   (same_geometry f ps ps2 r r2 := match r, r2 with Ok (Some g), Ok (Some g2) => g_nsl g = g_nsl g2 /\
      g_spacing g = g_spacing g2 /\ g_normal g = g_normal g2 /\ In (g_origin g) ps /\ In (g_origin g2) ps2 /\
      f (vred (g_origin g)) = 0 /\ f (vred (g_origin g2)) = 0 | Ok None, Ok None => True
      | Err k, Err k2 => k = k2 | _, _ => False end) *)
Theorem C11_geometry_order_invariant_all : forall ps ps2 rowc colc hint rtol atol seg om od,
  Permutation ps ps2 ->
  exists f,
    same_geometry f ps ps2 (multiframe_geometry ps rowc colc hint rtol atol seg om od)
                           (multiframe_geometry ps2 rowc colc hint rtol atol seg om od) /\
    forall sp idx, get_volume_positions ps rowc colc (vol_opts rtol atol (eff_missing seg om) (eff_dups od) hint)
                     = Ok (Some (sp, idx)) -> idx = map f (map vred ps).
Proof. exact geometry_order_invariant_all. Qed.
Print Assumptions C11_geometry_order_invariant_all.

(* geometry of a regular stack under a shared SpacingBetweenSlices (hint0): M slices iff the hint matches *)
Theorem C11_geometry_regular_hint : forall ps rowc colc hint0 hint rtol atol seg om od nv rt at_ a s r M,
  eff_missing seg om = false -> norm_hint hint0 = Ok hint ->
  tolerances rtol atol = Ok (rt, at_) -> 0 <= rt -> 0 <= at_ ->
  normal_vector rowc colc DirD DirR true = Ok nv ->
  regular_stack nv a s r M (map vred ps) ->
  (eff_dups od = true \/ length ps = M) ->
  if hint_matches rt at_ s hint
  then exists g, multiframe_geometry ps rowc colc hint0 rtol atol seg om od = Ok (Some g) /\
         g_nsl g = Z.of_nat M /\ g_spacing g == s /\ In (g_origin g) ps /\ r (vred (g_origin g)) = 0%nat
  else multiframe_geometry ps rowc colc hint0 rtol atol seg om od = Ok None.
Proof. exact geometry_regular_hint. Qed.
Print Assumptions C11_geometry_regular_hint.

(* geometry with gaps allowed (Segmentation default, or declared): K + 1 slices, spacing s, rank-0 origin *)
Theorem C11_geometry_gaps_accepted : forall ps rowc colc hint0 hint rtol atol seg om od nv rt at_ a s r K,
  eff_missing seg om = true -> norm_hint hint0 = Ok hint ->
  tolerances rtol atol = Ok (rt, at_) -> 0 <= rt -> 0 <= at_ ->
  normal_vector rowc colc DirD DirR true = Ok nv ->
  gapped_stack nv a s r K (map vred ps) ->
  spacing_known s r (map vred ps) hint ->
  (eff_dups od = true \/ length (lexuniq (map vred ps)) = length ps) ->
  exists g, multiframe_geometry ps rowc colc hint0 rtol atol seg om od = Ok (Some g) /\
    g_nsl g = (Z.of_nat K + 1)%Z /\ g_spacing g == s /\ In (g_origin g) ps /\ r (vred (g_origin g)) = 0%nat.
Proof. exact geometry_gaps_accepted. Qed.
Print Assumptions C11_geometry_gaps_accepted.

(* non-vacuity for the three geometry theorems: ex_gap (ranks 3,0,1,0) through the Segmentation defaults
   (gaps allowed): 4 slices; the frames reversed: identical geometry; Image defaults: None; ex_stack with a
   matching / mismatching shared SpacingBetweenSlices through the Image defaults *)
Example C11_geometry_ext_nonvacuous :
  let rowc := V3 0 0 1 in let colc := V3 (-4#5) (3#5) 0 in
  normal_vector rowc colc DirD DirR true = Ok ex_nv /\
  mismatches
    [run_mf_geometry ex_gap rowc colc None None None true None None;
     run_mf_geometry (rev ex_gap) rowc colc None None None true None None;
     run_mf_geometry ex_gap rowc colc None None None false None None;
     run_mf_geometry (rev ex_gap) rowc colc None None None false None None;
     run_mf_geometry ex_stack rowc colc (Some (201#200)) None None false None None;
     run_mf_geometry ex_stack rowc colc (Some (3#2)) None None false None None]
    [VL [VZ 4; VQ 1; vvec (V3 0 0 0); vvec (V3 (3#5) (4#5) 0)];
     VL [VZ 4; VQ 1; vvec (V3 0 0 0); vvec (V3 (3#5) (4#5) 0)]; VNone; VNone;
     VL [VZ 3; VQ 1; vvec (V3 0 0 0); vvec (V3 (3#5) (4#5) 0)]; VNone] = [].
Proof. cbv zeta. split; vm_compute; reflexivity. Qed.
Print Assumptions C11_geometry_ext_nonvacuous.

(* ---- one multi-frame object asked several questions: the answer to a query depends on the frames and on
   the tolerances / declarations of THAT query only.  answers ... qs = the answers of ONE object to the queries
   qs in the order asked (run_mf_history = VL (answers ...)); a query asked after `h1` and after `h2` gets
   the same answer - that of a fresh object.  (The model threads no state: this is what the code does today -
   _get_stacked_volume_geometry re-reads the frame table and calls get_volume_positions with the arguments of
   the call; the correspondence stratum mf_history ties the statement to the real object.) *)
Theorem C11_history_independent : forall chans outch ps rowc colc hint seg h1 h2 q t1 t2,
  nth (length h1) (answers chans outch ps rowc colc hint seg (h1 ++ q :: t1)) VNone
  = nth (length h2) (answers chans outch ps rowc colc hint seg (h2 ++ q :: t2)) VNone.
Proof. exact history_independent. Qed.
Print Assumptions C11_history_independent.

Theorem C11_history_answer_is_fresh : forall chans outch ps rowc colc hint seg before q after,
  nth (length before) (answers chans outch ps rowc colc hint seg (before ++ q :: after)) VNone
  = answer_query chans outch ps rowc colc hint seg q.
Proof. exact history_answer. Qed.
Print Assumptions C11_history_answer_is_fresh.

(* a geometry query anywhere in a history is the geometry of C11_geometry_follows_declarations /
   C11_geometry_none_iff / C11_geometry_duplicates_refused for the declarations made in THAT query *)
Theorem C11_history_geometry_query : forall chans outch ps rowc colc hint seg before after rtol atol om od,
  nth (length before) (answers chans outch ps rowc colc hint seg (before ++ QGeom rtol atol om od :: after)) VNone
  = run_mf_geometry ps rowc colc hint rtol atol seg om od.
Proof. exact history_geometry_query. Qed.
Print Assumptions C11_history_geometry_query.

(* the two entry points agree: get_volume (Image / Segmentation, stacked branch) assembles - with geometry g -
   exactly when the frames are identified uniquely by (position, channel) and get_volume_geometry with the same
   tolerances, the same gaps declaration and duplicates allowed returns g *)
Theorem C11_volume_iff_geometry : forall chans outch ps rowc colc hint rtol atol seg om g,
  (exists slots, channel_volume chans outch ps rowc colc hint rtol atol seg om = Ok (g, slots)) <->
  (pairs_unique (combine chans ps) = true /\
   multiframe_geometry ps rowc colc hint rtol atol seg (Some (eff_missing seg om)) (Some true) = Ok (Some g)).
Proof. exact volume_iff_geometry. Qed.
Print Assumptions C11_volume_iff_geometry.

Theorem C11_volume_ambiguous_refused : forall chans outch ps rowc colc hint rtol atol seg om,
  pairs_unique (combine chans ps) = false ->
  channel_volume chans outch ps rowc colc hint rtol atol seg om = Err "RuntimeError"%string.
Proof. exact volume_ambiguous_refused. Qed.
Print Assumptions C11_volume_ambiguous_refused.

Theorem C11_volume_unrecognised_refused : forall chans outch ps rowc colc hint rtol atol seg om,
  get_volume_positions ps rowc colc (vol_opts rtol atol (eff_missing seg om) true hint) = Ok None ->
  channel_volume chans outch ps rowc colc hint rtol atol seg om = Err "RuntimeError"%string.
Proof. exact volume_unrecognised_refused. Qed.
Print Assumptions C11_volume_unrecognised_refused.

(* ---- get_volume_from_series applies the tolerances it was given: a series of >= 2 images is assembled only
   if get_series_volume_positions with THE SAME rtol / atol (sort, no gaps, no duplicates, hint of the first
   dataset) accepts it - so C11_accepted_sound / C11_irregular_rejected bound every consecutive spacing by
   atol + rtol |S| for the tolerances of the call -, the spacing of the volume is the one reported and slice i
   is the dataset with volume index i; and a series it rejects is refused with ValueError *)
Theorem C11_series_volume_follows_tolerances : forall d0 d1 rest hint0 rtol atol a,
  volume_from_series (d0 :: d1 :: rest) hint0 rtol atol = Ok a ->
  exists idx,
    series_volume_positions (map snd (d0 :: d1 :: rest)) hint0 (vol_opts rtol atol false false None)
      = Ok (Some (a_spacing a, idx)) /\
    exists ord, collect (map (fun i => zindex (Z.of_nat i) idx) (seq 0 (length (d0 :: d1 :: rest)))) = Some ord /\
                a_ids a = map (fun j => fst (nth j (d0 :: d1 :: rest) d0)) ord.
Proof. exact series_volume_follows_tolerances. Qed.
Print Assumptions C11_series_volume_follows_tolerances.

Theorem C11_series_volume_rejected : forall d0 d1 rest hint0 rtol atol,
  forallb (fun d => same_orient (snd d0) (snd d)) (d1 :: rest) = true ->
  series_volume_positions (map snd (d0 :: d1 :: rest)) hint0 (vol_opts rtol atol false false None) = Ok None ->
  volume_from_series (d0 :: d1 :: rest) hint0 rtol atol = Err "ValueError"%string.
Proof. exact series_volume_rejected. Qed.
Print Assumptions C11_series_volume_rejected.

(* non-vacuity: (1) the same number means different things as rtol and as atol - axial slices at distances
   0, 33/16, 4 (mean spacing 2, both gaps off by 1/16): atol = 1/16 accepts, atol = 1/32 refuses, rtol = 1/32
   (1/16 allowed) accepts, rtol = 1/64 refuses; (2) one object with two frames per plane asked
   get_volume_geometry() - a geometry -, then with allow_duplicate_positions=False - None -, then the first
   question again - the geometry again -, then get_volume() of an Image - RuntimeError, frames not identified by
   position - and of a Segmentation whose frames of one plane belong to different segments - assembled *)
Example C11_tolerances_and_history_nonvacuous :
  let rowc := V3 1 0 0 in let colc := V3 0 1 0 in
  let ds := [(1%Z, (rowc, colc, V3 0 0 (-4))); (2%Z, (rowc, colc, V3 0 0 0)); (3%Z, (rowc, colc, V3 0 0 (-33#16)))] in
  let ps := [V3 0 0 0; V3 0 0 (-1); V3 0 0 0; V3 0 0 (-1)] in
  mismatches
    [run_volume_from_series ds None None (Some (1#16));
     run_volume_from_series ds None None (Some (1#32));
     run_volume_from_series ds None (Some (1#32)) None;
     run_volume_from_series ds None (Some (1#64)) None;
     run_mf_history [0;0;0;0]%Z [0%Z] ps rowc colc None false
       [QGeom None None None None; QGeom None None None (Some false); QGeom None None None None; QVol None None None];
     run_mf_history [1;1;2;2]%Z [1;2]%Z ps rowc colc None true [QGeom None None None (Some false); QVol None None None]]
    [VL [vz_list [2;3;1]%Z; VQ 2; vvec (V3 0 0 0); vvec (V3 0 0 (-2))];
     VErr "ValueError";
     VL [vz_list [2;3;1]%Z; VQ 2; vvec (V3 0 0 0); vvec (V3 0 0 (-2))];
     VErr "ValueError";
     VL [VL [VZ 2%Z; VQ 1; vvec (V3 0 0 0); vvec (V3 0 0 (-1))]; VNone;
         VL [VZ 2%Z; VQ 1; vvec (V3 0 0 0); vvec (V3 0 0 (-1))]; VErr "RuntimeError"];
     VL [VNone; VL [VZ 2%Z; VQ 1; vvec (V3 0 0 0); vvec (V3 0 0 (-1));
                    VL [VL [VZ 1%Z; VZ 3%Z]; VL [VZ 2%Z; VZ 4%Z]]]]] = [].
Proof. vm_compute. reflexivity. Qed.
Print Assumptions C11_tolerances_and_history_nonvacuous.

(* ---- frames whose plane orientation / pixel spacing / spacing hint are stored PER FRAME (frame table with one
   row per frame; _get_shared_frame_value demands ONE distinct value).  attrs_eqb a b = the two frames carry the
   same ImageOrientationPatient, PixelSpacing and SpacingBetweenSlices (float equality);
   consistent frames := every two frames of the table agree. *)
From HD Require Import C11_Proofs_PerFrame.

(* irregular stacks are rejected, non-parallel / non-congruent frames: two frames that disagree - wherever they
   sit in the frame table, whatever the positions, tolerances and declarations - give no geometry (None) and no
   volume (RuntimeError) *)
Theorem C11_perframe_inconsistent_refused : forall frames a b chans outch rtol atol seg om od,
  In a frames -> In b frames -> attrs_eqb a b = false ->
  perframe_geometry frames rtol atol seg om od = Ok None /\
  perframe_volume chans outch frames rtol atol seg om = Err "RuntimeError"%string.
Proof. exact perframe_inconsistent_refused. Qed.
Print Assumptions C11_perframe_inconsistent_refused.

(* THE orientation / pixel spacing / hint exist exactly for a non-empty table whose frames all agree *)
Theorem C11_shared_values_iff_consistent : forall frames,
  (exists s, shared_attrs frames = Ok s) <-> (frames <> [] /\ consistent frames).
Proof. exact shared_attrs_ok_iff. Qed.
Print Assumptions C11_shared_values_iff_consistent.

(* a reported geometry is sound: all frames agree, the shared values are those of the (first) frame and the
   geometry is the geometry of the frame positions under that orientation and hint - so
   C11_geometry_follows_declarations / C11_accepted_sound / C11_irregular_rejected apply to it *)
Theorem C11_perframe_geometry_sound : forall frames rtol atol seg om od g s,
  perframe_geometry frames rtol atol seg om od = Ok (Some (g, s)) ->
  consistent frames /\
  (exists f rest, frames = f :: rest /\
     s = mkShared (fa_rowc f) (fa_colc f) (fa_px0 f) (fa_px1 f) (fa_sbs f)) /\
  multiframe_geometry (map fa_pos frames) (sh_rowc s) (sh_colc s) (sh_sbs s) rtol atol seg om od = Ok (Some g).
Proof. exact perframe_geometry_sound. Qed.
Print Assumptions C11_perframe_geometry_sound.

Theorem C11_perframe_volume_sound : forall chans outch frames rtol atol seg om g slots s,
  perframe_volume chans outch frames rtol atol seg om = Ok (g, slots, s) ->
  consistent frames /\
  channel_volume chans outch (map fa_pos frames) (sh_rowc s) (sh_colc s) (sh_sbs s) rtol atol seg om = Ok (g, slots).
Proof. exact perframe_volume_sound. Qed.
Print Assumptions C11_perframe_volume_sound.

(* per-frame values that all agree behave exactly like values in the shared functional groups *)
Theorem C11_perframe_agreeing_is_shared : forall s frames rtol atol seg om od, frames <> [] -> uniform s frames ->
  perframe_geometry frames rtol atol seg om od =
  with_shared s (multiframe_geometry (map fa_pos frames) (sh_rowc s) (sh_colc s) (sh_sbs s) rtol atol seg om od).
Proof. exact perframe_uniform. Qed.
Print Assumptions C11_perframe_agreeing_is_shared.

Theorem C11_perframe_volume_agreeing_is_shared : forall s chans outch frames rtol atol seg om,
  frames <> [] -> uniform s frames ->
  perframe_volume chans outch frames rtol atol seg om =
  match channel_volume chans outch (map fa_pos frames) (sh_rowc s) (sh_colc s) (sh_sbs s) rtol atol seg om with
  | Err k => Err k
  | Ok (g, slots) => Ok (g, slots, s)
  end.
Proof. exact perframe_volume_uniform. Qed.
Print Assumptions C11_perframe_volume_agreeing_is_shared.

(* order_invariant: whether the frames have shared values does not depend on the order of the frame table ... *)
Theorem C11_shared_values_order_free : forall frames frames2, Permutation frames frames2 ->
  ((exists s, shared_attrs frames = Ok s) <-> (exists s, shared_attrs frames2 = Ok s)).
Proof. exact shared_attrs_order_free. Qed.
Print Assumptions C11_shared_values_order_free.

(* ... and for frames that agree (Leibniz) or contain two frames that disagree, the geometry in any two orders
   of the frame table is the same (verdict, number of slices, spacing, slice axis, origins at index 0) *)
Theorem C11_perframe_order_invariant : forall frames frames2 rtol atol seg om od,
  Permutation frames frames2 ->
  ((exists s, uniform s frames) \/ (exists a b, In a frames /\ In b frames /\ attrs_eqb a b = false)) ->
  exists f,
    same_geometry f (map fa_pos frames) (map fa_pos frames2)
      (geometry_only (perframe_geometry frames rtol atol seg om od))
      (geometry_only (perframe_geometry frames2 rtol atol seg om od)).
Proof. exact perframe_order_invariant. Qed.
Print Assumptions C11_perframe_order_invariant.

(* non-vacuity: five axial frames stepping along z with per-frame orientation and pixel measures.  All agree:
   5 slices (spacing 1, in-plane axes = column cosines x 1/2, row cosines x 3/4) and the volume; the fourth frame
   sagittal, or with another pixel spacing, or with another spacing hint: None and RuntimeError - also with the
   foreign frame first *)
Example C11_perframe_nonvacuous :
  let ax := fun px0 h z => mkFA (V3 1 0 0) (V3 0 1 0) px0 (3#4) h (V3 0 0 z) in
  let sag := fun z => mkFA (V3 0 1 0) (V3 0 0 (-1)) (1#2) (3#4) (Some 1) (V3 0 0 z) in
  let ok := [ax (1#2) (Some 1) 0; ax (1#2) (Some 1) (-2); ax (1#2) (Some 1) (-1); ax (1#2) (Some 1) (-4);
             ax (1#2) (Some 1) (-3)] in
  let bad_ori := [ax (1#2) (Some 1) 0; ax (1#2) (Some 1) (-2); ax (1#2) (Some 1) (-1); sag (-4);
                  ax (1#2) (Some 1) (-3)] in
  let bad_px := [ax (1#2) (Some 1) 0; ax (1#2) (Some 1) (-2); ax (1#2) (Some 1) (-1); ax 1 (Some 1) (-4);
                 ax (1#2) (Some 1) (-3)] in
  let bad_sbs := [ax (1#2) (Some 2) (-4); ax (1#2) (Some 1) 0; ax (1#2) (Some 1) (-2); ax (1#2) (Some 1) (-1);
                  ax (1#2) (Some 1) (-3)] in
  let qs := [QGeom None None None None; QVol None None None] in
  uniform (mkShared (V3 1 0 0) (V3 0 1 0) (1#2) (3#4) (Some 1)) ok /\
  (exists a b, In a bad_ori /\ In b bad_ori /\ attrs_eqb a b = false) /\
  mismatches
    [run_pf_history [0;0;0;0;0]%Z [0%Z] ok false qs;
     run_pf_history [0;0;0;0;0]%Z [0%Z] bad_ori false qs;
     run_pf_history [0;0;0;0;0]%Z [0%Z] bad_px false qs;
     run_pf_history [0;0;0;0;0]%Z [0%Z] bad_sbs false qs]
    [VL [VL [VZ 5; VQ 1; vvec (V3 0 0 0); vvec (V3 0 0 (-1)); vvec (V3 0 (1#2) 0); vvec (V3 (3#4) 0 0)];
         VL [VZ 5; VQ 1; vvec (V3 0 0 0); vvec (V3 0 0 (-1)); vvec (V3 0 (1#2) 0); vvec (V3 (3#4) 0 0);
             VL [VL [VZ 1]; VL [VZ 3]; VL [VZ 2]; VL [VZ 5]; VL [VZ 4]]]];
     VL [VNone; VErr "RuntimeError"]; VL [VNone; VErr "RuntimeError"]; VL [VNone; VErr "RuntimeError"]] = [].
Proof.
  cbv zeta. split; [|split].
  - intros f Hf. cbn in Hf. repeat (destruct Hf as [<-|Hf]; [cbn; repeat split|]). contradiction.
  - eexists. eexists. split; [left; reflexivity|]. split; [right; right; right; left; reflexivity|].
    vm_compute. reflexivity.
  - vm_compute. reflexivity.
Qed.
Print Assumptions C11_perframe_nonvacuous.
