(* C08 - model of the spatial operations of highdicom.volume.
   Mirrors (src/highdicom):
     volume.py  _VolumeBase._prepare_getitem_index, _prepare_pad_width, _permute_affine,
                flip_spatial, swap_spatial_axes, pad_to_spatial_shape, crop_to_spatial_shape,
                pad_or_crop_to_spatial_shape, to_patient_orientation, handedness,
                ensure_handedness; VolumeGeometry.__getitem__/pad/permute_spatial_axes/copy/
                with_array; Volume.__getitem__/pad/permute_spatial_axes/copy/with_array/
                get_channel/permute_channel_axes(_by_index); the coordinate -> index queries
                inverse_affine, map_indices_to_reference, map_reference_to_indices,
                VolumeToVolumeTransformer.affine, spacing / direction / position / center_position
                (np.linalg.inv = Cramer's rule; np.sqrt enters only squared)
     spatial.py _transform_affine_matrix (permute_indices), _translate_affine_matrix,
                get_closest_patient_orientation, _normalize_patient_orientation
   The affine lives over an arbitrary commutative ring R (Base/Lin3.v); the order tests of
   the code (closest orientation, handedness) use an arbitrary boolean [ltb].  Voxel values
   are an arbitrary type V with an arbitrary pad-value function.  The executable instance
   at the end uses canonical rationals Qc for R and Q for V.
   Python slice semantics: Base/PySlice.v.
   No proofs in this file. *)
From Coq Require Import String ZArith List Bool QArith Qcanon.
From HD Require Export Base.Val Base.Lin3 Base.PySlice.
Import ListNotations.
Open Scope Z_scope.

Arguments V {R} _ _ _.
Arguments Aff {R} _ _ _ _.
Arguments vx {R} _.
Arguments vy {R} _.
Arguments vz {R} _.
Arguments c0 {R} _.
Arguments c1 {R} _.
Arguments c2 {R} _.
Arguments tr {R} _.

Definition idx := (Z * Z * Z)%type.
Definition imap := idx -> option idx.          (* new index -> Some old index | None = padding *)
Definition imap_id : imap := fun j => Some j.
(* [later] maps the final index to the intermediate one, [earlier] the intermediate to the old *)
Definition imap_comp (later earlier : imap) : imap :=
  fun j => match later j with Some m => earlier m | None => None end.

Definition sel3 {A} (t : A * A * A) (d : Z) : A :=
  let '(a, b, c) := t in if d =? 0 then a else if d =? 1 then b else c.

Inductive item := IInt (i : Z) | ISlc (start stop step : option Z).
Inductive index := XInt (i : Z) | XSlc (start stop step : option Z) | XTup (l : list item).
Inductive padw := PWInt (p : Z) | PWFlat (l : list Z) | PWNest (l : list (list Z)).
Inductive pmode := PConst | PEdge | PMin | PMax | PMean | PMedian | PBad.
Inductive faxes := FInt (a : Z) | FList (l : list Z).
Inductive hand := HLeft | HRight | HBad.

Definition is_stat (m : pmode) : bool :=
  match m with PMin | PMax | PMean | PMedian => true | _ => false end.

(* ---------------------------------------------------------------- index normalisation *)
Definition slc := (option Z * option Z * option Z)%type.

(* _check_int / _check_slice and the int -> slice rewriting *)
Definition check_item (n : Z) (it : item) : res slc :=
  match it with
  | IInt v =>
      if (v <? - n) || (n <=? v) then Err "IndexError"
      else Ok (Some v, if v =? -1 then None else Some (v + 1), None)
  | ISlc a b s =>
      if match a with Some x => (x <? - n) || (n <=? x) | None => false end then Err "ValueError"
      else if match b with Some x => (x <? - n - 1) || (n <? x) | None => false end then Err "ValueError"
      else Ok (a, b, s)
  end.

Fixpoint check_items (shape : idx) (d : Z) (l : list item) : res (list slc) :=
  match l with
  | [] => Ok []
  | it :: l' =>
      bind (check_item (sel3 shape d) it) (fun s =>
      bind (check_items shape (d + 1) l') (fun r => Ok (s :: r)))
  end.

Definition items_of_index (ix : index) : list item :=
  match ix with XInt i => [IInt i] | XSlc a b s => [ISlc a b s] | XTup l => l end.

(* one dimension of the second loop: (first, step, size) *)
Definition dim_of (n : Z) (sl : option slc) : res (Z * Z * Z) :=
  match sl with
  | None => Ok (0, 1, n)
  | Some (a, b, s) =>
      let st := match s with None => 1 | Some x => x end in
      if st =? 0 then Err "ValueError"      (* slice.indices: step cannot be zero *)
      else
        let '(f, l, _) := slice_indices a b st n in
        match hd_size f l st with
        | None => Err "IndexError"
        | Some sz => Ok (f, st, sz)
        end
  end.

Record getplan := GetPlan { gp_f : idx; gp_s : idx; gp_n : idx }.

Definition prep_getitem (shape : idx) (ix : index) : res getplan :=
  let items := items_of_index ix in
  (* only the three spatial dimensions may be indexed (fix D92) *)
  if (3 <? Z.of_nat (length items)) then Err "IndexError"
  else
  bind (check_items shape 0 items) (fun sl =>
  let '(n0, n1, n2) := shape in
  bind (dim_of n0 (nth_error sl 0)) (fun d0 =>
  bind (dim_of n1 (nth_error sl 1)) (fun d1 =>
  bind (dim_of n2 (nth_error sl 2)) (fun d2 =>
  let '(f0, s0, z0) := d0 in let '(f1, s1, z1) := d1 in let '(f2, s2, z2) := d2 in
  Ok (GetPlan (f0, f1, f2) (s0, s1, s2) (z0, z1, z2)))))).

Definition get_map (p : getplan) : imap :=
  fun j => let '(j0, j1, j2) := j in
           let '(f0, f1, f2) := gp_f p in let '(s0, s1, s2) := gp_s p in
           Some (f0 + j0 * s0, f1 + j1 * s1, f2 + j2 * s2).

(* ---------------------------------------------------------------- pad widths *)
Definition pad_width_forms (w : padw) : res (list (Z * Z)) :=
  match w with
  | PWInt p => if p <? 0 then Err "ValueError" else Ok [(p, p); (p, p); (p, p)]
  | PWFlat l =>
      match l with
      | [] => Err "IndexError"
      | [a; b] => if (a <? 0) || (b <? 0) then Err "ValueError" else Ok [(a, b); (a, b); (a, b)]
      | _ => Err "ValueError"
      end
  | PWNest l =>
      match l with
      | [] => Err "IndexError"
      | [[a]; [b]; [c]] => Ok [(a, a); (b, b); (c, c)]
      | [[a; a']; [b; b']; [c; c']] => Ok [(a, a'); (b, b'); (c, c')]
      | _ => Err "ValueError"
      end
  end.

(* after the form dispatch: any negative entry in ANY form is refused (fix D86) *)
Definition prep_pad_width (w : padw) : res (list (Z * Z)) :=
  bind (pad_width_forms w) (fun l =>
  if existsb (fun p => (fst p <? 0) || (snd p <? 0)) l then Err "ValueError" else Ok l).

Definition pw_triple (l : list (Z * Z)) : (Z * Z) * (Z * Z) * (Z * Z) :=
  match l with
  | [a; b; c] => (a, b, c)
  | _ => ((0, 0), (0, 0), (0, 0))
  end.

Definition pad_shape (shape : idx) (pw : (Z * Z) * (Z * Z) * (Z * Z)) : idx :=
  let '(n0, n1, n2) := shape in let '((a0, b0), (a1, b1), (a2, b2)) := pw in
  (n0 + a0 + b0, n1 + a1 + b1, n2 + a2 + b2).

Definition pad_map (shape : idx) (pw : (Z * Z) * (Z * Z) * (Z * Z)) : imap :=
  fun j => let '(j0, j1, j2) := j in let '(n0, n1, n2) := shape in
           let '((a0, _), (a1, _), (a2, _)) := pw in
           if (a0 <=? j0) && (j0 <? a0 + n0) && (a1 <=? j1) && (j1 <? a1 + n1) &&
              (a2 <=? j2) && (j2 <? a2 + n2)
           then Some (j0 - a0, j1 - a1, j2 - a2) else None.

Definition clampz (n x : Z) : Z := if x <? 0 then 0 else if n <=? x then n - 1 else x.

(* ---------------------------------------------------------------- permutations *)
Definition is_perm3 (l : list Z) : bool :=
  match l with
  | [a; b; c] =>
      (0 <=? a) && (a <=? 2) && (0 <=? b) && (b <=? 2) && (0 <=? c) && (c <=? 2) &&
      negb (a =? b) && negb (a =? c) && negb (b =? c)
  | _ => false
  end.

Definition perm_triple (l : list Z) : idx :=
  match l with [a; b; c] => (a, b, c) | _ => (0, 1, 2) end.

Definition perm_shape (shape : idx) (p : idx) : idx :=
  let '(a, b, c) := p in (sel3 shape a, sel3 shape b, sel3 shape c).

(* old index i with i[p d] = j[d] *)
Definition perm_map (p : idx) : imap :=
  fun j => let '(a, b, c) := p in let '(j0, j1, j2) := j in
           let pick k := if a =? k then j0 else if b =? k then j1 else j2 in
           Some (pick 0, pick 1, pick 2).

Fixpoint insert_at {A} (k : nat) (x : A) (l : list A) : list A :=
  match k, l with
  | O, _ => x :: l
  | S k', y :: l' => y :: insert_at k' x l'
  | S _, [] => [x]
  end.
Fixpoint has_dup (l : list Z) : bool :=
  match l with [] => false | x :: l' => existsb (Z.eqb x) l' || has_dup l' end.

Section Model.
Variable R : Type.
Variables (rO rI : R) (radd rmul rsub : R -> R -> R) (ropp : R -> R).
Variable inj : Z -> R.
Variable ltb : R -> R -> bool.
Variable Vx : Type.                                     (* voxel values *)
Variable padval : pmode -> bool -> Vx -> list Vx -> Vx. (* mode, integer dtype?, constant, data *)

Notation affR := (aff R).
Notation physR := (phys R radd rmul).

Definition col (A : affR) (d : Z) : vec R := sel3 (c0 A, c1 A, c2 A) d.
Definition comp (v : vec R) (i : Z) : R := sel3 (vx v, vy v, vz v) i.

(* _prepare_getitem_index, affine part: column d * step_d, origin = A . first *)
Definition get_aff (A : affR) (p : getplan) : affR :=
  let '(f0, f1, f2) := gp_f p in let '(s0, s1, s2) := gp_s p in
  getitem_aff R radd rmul A (inj f0) (inj f1) (inj f2) (inj s0) (inj s1) (inj s2).

(* _translate_affine_matrix with offset -before *)
Definition pad_aff (A : affR) (pw : (Z * Z) * (Z * Z) * (Z * Z)) : affR :=
  let '((a0, _), (a1, _), (a2, _)) := pw in
  Aff (c0 A) (c1 A) (c2 A) (physR A (inj (- a0)) (inj (- a1)) (inj (- a2))).

(* _transform_affine_matrix(permute_indices): columns permuted *)
Definition perm_aff (A : affR) (p : idx) : affR :=
  let '(a, b, c) := p in Aff (col A a) (col A b) (col A c) (tr A).

(* ------------------------------------------------------------ closest orientation *)
(* codes: L=0 R=1 P=2 A=3 H=4 F=5 ; pos_directions[i] = 2i, neg_directions[i] = 2i+1 *)
Definition rabs (x : R) : R := if ltb x rO then ropp x else x.
Definition okey (x : R) : R := ropp (rabs x).

Fixpoint ins_sorted (x : Z * R) (l : list (Z * R)) : list (Z * R) :=
  match l with
  | [] => [x]
  | y :: l' => if ltb (snd x) (snd y) then x :: y :: l' else y :: ins_sorted x l'
  end.
(* stable argsort (numpy sorts 3 elements by insertion) of -abs(column) *)
Definition argsort3 (v : vec R) : list Z :=
  map fst (fold_left (fun acc x => ins_sorted x acc)
                     [(0, okey (vx v)); (1, okey (vy v)); (2, okey (vz v))] []).

Definition axis_used (i : Z) (result : list Z) : bool := existsb (fun c => c / 2 =? i) result.

(* `for i in sortind: if unused: break` -- i keeps the last value when nothing breaks *)
Fixpoint first_unused (l : list Z) (result : list Z) (last : Z) : Z :=
  match l with
  | [] => last
  | i :: l' => if axis_used i result then first_unused l' result i else i
  end.

Definition closest_step (A : affR) (result : list Z) (d : Z) : list Z :=
  let i := first_unused (argsort3 (col A d)) result 0 in
  result ++ [if ltb rO (comp (col A d) i) then 2 * i else 2 * i + 1].

Definition closest (A : affR) : list Z :=
  closest_step A (closest_step A (closest_step A [] 0) 1) 2.

Definition opposite (c : Z) : Z := if c mod 2 =? 0 then c + 1 else c - 1.

Definition normalize_orientation (o : list Z) : res (list Z) :=
  if negb (Z.of_nat (length o) =? 3) then Err "ValueError"
  else if existsb (fun c => (c <? 0) || (5 <? c)) o then Err "ValueError"
  else
    let has c := existsb (Z.eqb c) o in
    if negb (Bool.eqb (has 0) (has 1)) && negb (Bool.eqb (has 2) (has 3)) && negb (Bool.eqb (has 4) (has 5))
    then Ok o else Err "ValueError".

Fixpoint index_of (x : Z) (l : list Z) (k : Z) : option Z :=
  match l with
  | [] => None
  | y :: l' => if x =? y then Some k else index_of x l' (k + 1)
  end.

(* returns (permute_indices, flip_axes) *)
Fixpoint orient_plan (cur desired : list Z) : res (list Z * list Z) :=
  match desired with
  | [] => Ok ([], [])
  | d :: ds =>
      bind (if existsb (Z.eqb d) cur
            then match index_of d cur 0 with Some k => Ok (k, false) | None => Err "ValueError" end
            else match index_of (opposite d) cur 0 with Some k => Ok (k, true) | None => Err "ValueError" end)
        (fun kf =>
      bind (orient_plan cur ds) (fun r =>
      Ok (fst kf :: fst r, if snd kf then fst kf :: snd r else snd r)))
  end.

(* ------------------------------------------------------------ handedness *)
Definition det3 (A : affR) : R :=
  let a := c0 A in let b := c1 A in let c := c2 A in
  let cx := rsub (rmul (vy a) (vz b)) (rmul (vz a) (vy b)) in
  let cy := rsub (rmul (vz a) (vx b)) (rmul (vx a) (vz b)) in
  let cz := rsub (rmul (vx a) (vy b)) (rmul (vy a) (vx b)) in
  radd (radd (rmul cx (vx c)) (rmul cy (vy c))) (rmul cz (vz c)).
Definition is_left (A : affR) : bool := ltb (det3 A) rO.

(* ------------------------------------------------------------ coordinate -> index
   inverse_affine (np.linalg.inv), map_reference_to_indices and VolumeToVolumeTransformer
   answer "which voxel lies at this physical coordinate".  np.linalg.inv is modelled by
   Cramer's rule, inverse = adjugate / determinant; the adjugate part needs no division and
   lives over the ring: [lookup_num A p] = det A * (index of the point p). *)
Definition vsubR (a b : vec R) : vec R := V (rsub (vx a) (vx b)) (rsub (vy a) (vy b)) (rsub (vz a) (vz b)).
Definition crossR (a b : vec R) : vec R :=
  V (rsub (rmul (vy a) (vz b)) (rmul (vz a) (vy b)))
    (rsub (rmul (vz a) (vx b)) (rmul (vx a) (vz b)))
    (rsub (rmul (vx a) (vy b)) (rmul (vy a) (vx b))).
Definition dotR3 (a b : vec R) : R :=
  radd (radd (rmul (vx a) (vx b)) (rmul (vy a) (vy b))) (rmul (vz a) (vz b)).
(* adjugate of the 3x3 part applied to a direction d *)
Definition lookup_lin_num (A : affR) (d : vec R) : vec R :=
  V (dotR3 (crossR (c1 A) (c2 A)) d) (dotR3 (crossR (c2 A) (c0 A)) d) (dotR3 (crossR (c0 A) (c1 A)) d).
Definition lookup_num (A : affR) (p : vec R) : vec R := lookup_lin_num A (vsubR p (tr A)).
Definition norm2 (v : vec R) : R := dotR3 v v.

(* ------------------------------------------------------------ methods of _VolumeBase,
   generic in the object type T and its three abstract methods *)
(* random_flip_spatial / random_permute_spatial_axes / random_spatial_crop: the values drawn
   from np.random are inputs of the model (the harness seeds the generator and predicts them) *)
Inductive randop :=
| RFlip (axes : list Z) (draws : list Z)        (* randint(2) per d in 0..2 with d in axes *)
| RPermute (axes : list Z) (drawn : list Z)     (* np.random.permutation(axes) *)
| RCrop (shape : list Z) (starts : list Z).     (* randint(0, max_start + 1) per zipped axis *)

Inductive sop :=
| OGet (ix : index)
| OFlip (ax : faxes)
| OPermute (l : list Z)
| OSwap (a b : Z)
| OPad (w : padw) (m : pmode) (cval : Vx) (pc : bool)
| OPadTo (shape : list Z) (m : pmode) (cval : Vx) (pc : bool)
| OCropTo (shape : list Z)
| OPadOrCropTo (shape : list Z) (m : pmode) (cval : Vx) (pc : bool)
| OOrient (o : list Z)
| OHanded (h : hand) (flip_axis : option Z) (swap_axes : option (list Z))
| ORand (r : randop).

Section Base.
Variable T : Type.
Variable t_aff : T -> affR.
Variable t_shape : T -> idx.
Variable t_patient : T -> bool.
Variable t_get : T -> index -> res (T * imap).
Variable t_pad : T -> padw -> pmode -> Vx -> bool -> res (T * imap).
Variable t_perm : T -> list Z -> res (T * imap).

Definition flip_spatial (t : T) (ax : faxes) : res (T * imap) :=
  let axes := match ax with FInt a => [a] | FList l => l end in
  if (3 <? Z.of_nat (length axes)) || existsb (fun a => (a <? 0) || (2 <? a)) axes then Err "ValueError"
  else
    let it d := if existsb (Z.eqb d) axes then ISlc (Some (-1)) None (Some (-1)) else ISlc None None None in
    t_get t (XTup [it 0; it 1; it 2]).

Definition swap_axes_m (t : T) (a b : Z) : res (T * imap) :=
  if (a <? 0) || (2 <? a) || (b <? 0) || (2 <? b) then Err "ValueError"
  else if a =? b then Err "ValueError"
  else
    let p d := if d =? a then b else if d =? b then a else d in
    t_perm t [p 0; p 1; p 2].

Definition shape_list (s : idx) : list Z := let '(a, b, c) := s in [a; b; c].

(* per axis: (pad_front, pad_back) or an error *)
Fixpoint pad_to_widths (ins outs : list Z) : res (list (list Z)) :=
  match ins, outs with
  | i :: ins', o :: outs' =>
      let to_pad := o - i in
      if to_pad <? 0 then Err "ValueError"
      else bind (pad_to_widths ins' outs') (fun r => Ok ([to_pad / 2; to_pad - to_pad / 2] :: r))
  | _, _ => Ok []
  end.

Definition pad_to (t : T) (shape : list Z) (m : pmode) (cval : Vx) (pc : bool) : res (T * imap) :=
  if negb (Z.of_nat (length shape) =? 3) then Err "ValueError"
  else bind (pad_to_widths (shape_list (t_shape t)) shape) (fun w => t_pad t (PWNest w) m cval pc).

Fixpoint crop_to_items (ins outs : list Z) : res (list item) :=
  match ins, outs with
  | i :: ins', o :: outs' =>
      let to_crop := i - o in
      if to_crop <? 0 then Err "ValueError"
      else bind (crop_to_items ins' outs') (fun r =>
           Ok (ISlc (Some (to_crop / 2)) (Some (i - (to_crop - to_crop / 2))) None :: r))
  | _, _ => Ok []
  end.

Definition crop_to (t : T) (shape : list Z) : res (T * imap) :=
  if negb (Z.of_nat (length shape) =? 3) then Err "ValueError"
  else bind (crop_to_items (shape_list (t_shape t)) shape) (fun its => t_get t (XTup its)).

Fixpoint pad_or_crop_plan (ins outs : list Z) : list (list Z) * list item :=
  match ins, outs with
  | i :: ins', o :: outs' =>
      let '(pw, cr) := pad_or_crop_plan ins' outs' in
      let diff := o - i in
      if 0 <? diff then ([diff / 2; diff - diff / 2] :: pw, ISlc (Some 0) (Some i) None :: cr)
      else if diff <? 0 then
        ([0; 0] :: pw, ISlc (Some ((- diff) / 2)) (Some (i - ((- diff) - (- diff) / 2))) None :: cr)
      else ([0; 0] :: pw, ISlc (Some 0) (Some o) None :: cr)
  | _, _ => ([], [])
  end.

Definition pad_or_crop_to (t : T) (shape : list Z) (m : pmode) (cval : Vx) (pc : bool) : res (T * imap) :=
  if negb (Z.of_nat (length shape) =? 3) then Err "ValueError"
  else
    let '(pw, cr) := pad_or_crop_plan (shape_list (t_shape t)) shape in
    bind (t_get t (XTup cr)) (fun c =>
    bind (t_pad (fst c) (PWNest pw) m cval pc) (fun p =>
    Ok (fst p, imap_comp (snd p) (snd c)))).

Definition to_orientation (t : T) (o : list Z) : res (T * imap) :=
  if negb (t_patient t) then Err "RuntimeError"
  else
    bind (normalize_orientation o) (fun desired =>
    bind (orient_plan (closest (t_aff t)) desired) (fun pf =>
    let '(perm, flips) := pf in
    bind (match flips with [] => Ok (t, imap_id) | _ => flip_spatial t (FList flips) end) (fun f =>
    bind (t_perm (fst f) perm) (fun p =>
    Ok (fst p, imap_comp (snd p) (snd f)))))).

Definition ensure_handedness (t : T) (h : hand) (flip_axis : option Z) (swap : option (list Z))
  : res (T * imap) :=
  match flip_axis, swap with
  | None, None => Err "TypeError"
  | Some _, Some _ => Err "TypeError"
  | _, _ =>
      match h with
      | HBad => Err "ValueError"
      | _ =>
          if Bool.eqb (match h with HLeft => true | _ => false end) (is_left (t_aff t))
          then Ok (t, imap_id)
          else match flip_axis with
               | Some a => flip_spatial t (FInt a)
               | None =>
                   match swap with
                   | Some [a; b] => swap_axes_m t a b
                   | _ => Err "ValueError"
                   end
               end
      end
  end.

(* ---- random_* : validation, then the index / permutation handed to __getitem__ /
   permute_spatial_axes *)
Definition rand_axes_ok (axes : list Z) : bool :=
  negb ((Z.of_nat (length axes) <? 2) || (3 <? Z.of_nat (length axes))) &&
  negb (has_dup axes) && negb (existsb (fun a => (a <? 0) || (2 <? a)) axes).

Fixpoint rand_flip_items (axes : list Z) (d : Z) (n : nat) (draws : list Z) : res (list item) :=
  match n with
  | O => Ok []
  | S n' =>
      if existsb (Z.eqb d) axes then
        match draws with
        | [] => Err "unmodelled: missing random draw"
        | x :: draws' =>
            bind (rand_flip_items axes (d + 1) n' draws') (fun r =>
            Ok ((if x =? 1 then ISlc None None (Some (-1)) else ISlc None None None) :: r))
        end
      else bind (rand_flip_items axes (d + 1) n' draws) (fun r => Ok (ISlc None None None :: r))
  end.

Fixpoint rand_crop_items (cs ins : list Z) (starts : list Z) : res (list item) :=
  match cs, ins with
  | c :: cs', d :: ins' =>
      if d - c <? 0 then Err "ValueError"
      else match starts with
           | [] => Err "unmodelled: missing random draw"
           | st :: starts' =>
               bind (rand_crop_items cs' ins' starts') (fun r =>
               Ok (ISlc (Some st) (Some (st + c)) None :: r))
           end
  | _, _ => Ok []
  end.

Definition rand_plan (shape : idx) (r : randop) : res (index + list Z) :=
  match r with
  | RFlip axes draws =>
      if rand_axes_ok axes then bind (rand_flip_items axes 0 3 draws) (fun its => Ok (inl (XTup its)))
      else Err "ValueError"
  | RPermute axes drawn =>
      if rand_axes_ok axes then
        Ok (inr (if Z.of_nat (length drawn) =? 2
                 then let missing := 3 - fold_left Z.add drawn 0 in
                      insert_at (Z.to_nat missing) missing drawn
                 else drawn))
      else Err "ValueError"
  | RCrop cs starts =>
      bind (rand_crop_items cs (shape_list shape) starts) (fun its => Ok (inl (XTup its)))
  end.

Definition rand_op (t : T) (r : randop) : res (T * imap) :=
  bind (rand_plan (t_shape t) r) (fun pl =>
  match pl with inl ix => t_get t ix | inr p => t_perm t p end).

Definition step_sp (t : T) (o : sop) : res (T * imap) :=
  match o with
  | OGet ix => t_get t ix
  | OFlip ax => flip_spatial t ax
  | OPermute l => t_perm t l
  | OSwap a b => swap_axes_m t a b
  | OPad w m cval pc => t_pad t w m cval pc
  | OPadTo s m cval pc => pad_to t s m cval pc
  | OCropTo s => crop_to t s
  | OPadOrCropTo s m cval pc => pad_or_crop_to t s m cval pc
  | OOrient o => to_orientation t o
  | OHanded h f s => ensure_handedness t h f s
  | ORand r => rand_op t r
  end.
End Base.

(* ------------------------------------------------------------ VolumeGeometry *)
Record geom := Geom { g_aff : affR; g_shape : idx; g_patient : bool; g_for : option Z }.

Definition geom_get (g : geom) (ix : index) : res (geom * imap) :=
  bind (prep_getitem (g_shape g) ix) (fun p =>
  Ok (Geom (get_aff (g_aff g) p) (gp_n p) (g_patient g) (g_for g), get_map p)).

(* VolumeGeometry.pad ignores mode / constant_value / per_channel *)
Definition geom_pad (g : geom) (w : padw) (m : pmode) (cval : Vx) (pc : bool) : res (geom * imap) :=
  bind (prep_pad_width w) (fun l =>
  let pw := pw_triple l in
  Ok (Geom (pad_aff (g_aff g) pw) (pad_shape (g_shape g) pw) (g_patient g) (g_for g),
      pad_map (g_shape g) pw)).

Definition geom_perm (g : geom) (l : list Z) : res (geom * imap) :=
  if is_perm3 l then
    let p := perm_triple l in
    Ok (Geom (perm_aff (g_aff g) p) (perm_shape (g_shape g) p) (g_patient g) (g_for g), perm_map p)
  else Err "ValueError".

Definition geom_step_sp : geom -> sop -> res (geom * imap) :=
  step_sp geom g_aff g_shape g_patient geom_get geom_pad geom_perm.

(* ------------------------------------------------------------ Volume *)
Definition chan := (Z * list Z)%type.          (* descriptor id, values *)
Definition array := idx -> list Z -> Vx.       (* spatial index, channel multi-index *)

Record vol := Vol { v_aff : affR; v_shape : idx; v_chans : list chan; v_arr : array;
                    v_isint : bool; v_patient : bool; v_for : option Z }.

Definition geom_of (v : vol) : geom := Geom (v_aff v) (v_shape v) (v_patient v) (v_for v).
Definition cshape (v : vol) : list Z := map (fun c => Z.of_nat (length (snd c))) (v_chans v).

Definition zrange (n : Z) : list Z := map Z.of_nat (seq 0 (Z.to_nat n)).
Definition all_idx (s : idx) : list idx :=
  let '(n0, n1, n2) := s in
  flat_map (fun i => flat_map (fun j => map (fun k => (i, j, k)) (zrange n2)) (zrange n1)) (zrange n0).
Fixpoint all_cidx (cs : list Z) : list (list Z) :=
  match cs with
  | [] => [[]]
  | n :: cs' => flat_map (fun i => map (cons i) (all_cidx cs')) (zrange n)
  end.
Definition materialise (s : idx) (cs : list Z) (a : array) : list Vx :=
  flat_map (fun j => map (a j) (all_cidx cs)) (all_idx s).
Definition materialise_chan (s : idx) (a : array) (c : list Z) : list Vx :=
  map (fun j => a j c) (all_idx s).

Definition vol_get (v : vol) (ix : index) : res (vol * imap) :=
  bind (prep_getitem (v_shape v) ix) (fun p =>
  Ok (Vol (get_aff (v_aff v) p) (gp_n p) (v_chans v)
          (fun j c => match get_map p j with Some i => v_arr v i c | None => v_arr v j c end)
          (v_isint v) (v_patient v) (v_for v), get_map p)).

Definition list_eqb (a b : list Z) : bool :=
  (Z.of_nat (length a) =? Z.of_nat (length b)) && forallb (fun p => fst p =? snd p) (combine a b).

Fixpoint lookup_c (c : list Z) (tbl : list (list Z * Vx)) (d : Vx) : Vx :=
  match tbl with
  | [] => d
  | (k, x) :: tbl' => if list_eqb k c then x else lookup_c c tbl' d
  end.

Definition vol_pad (v : vol) (w : padw) (m : pmode) (cval : Vx) (pc : bool) : res (vol * imap) :=
  match m with
  | PBad => Err "ValueError"
  | _ =>
    let cs := cshape v in
    let per_channel := pc && is_stat m && negb (Z.of_nat (length cs) =? 0) && negb (list_eqb cs [1]) in
    bind (prep_pad_width w) (fun l =>
    if existsb (fun p => (fst p <? 0) || (snd p <? 0)) l then Err "ValueError"   (* np.pad *)
    else
      let pw := pw_triple l in
      let '(n0, n1, n2) := v_shape v in
      let old := v_arr v in
      let mp := pad_map (v_shape v) pw in
      let '((a0, _), (a1, _), (a2, _)) := pw in
      let edge j c := let '(j0, j1, j2) := j in
                      old (clampz n0 (j0 - a0), clampz n1 (j1 - a1), clampz n2 (j2 - a2)) c in
      let whole := padval m (v_isint v) cval (materialise (v_shape v) cs old) in
      let table := if per_channel
                   then map (fun c => (c, padval m (v_isint v) cval (materialise_chan (v_shape v) old c)))
                            (all_cidx cs)
                   else [] in
      let fill j c := match m with
                      | PEdge => edge j c
                      | _ => if per_channel then lookup_c c table whole else whole
                      end in
      Ok (Vol (pad_aff (v_aff v) pw) (pad_shape (v_shape v) pw) (v_chans v)
              (fun j c => match mp j with Some i => old i c | None => fill j c end)
              (if per_channel then false else v_isint v) (v_patient v) (v_for v), mp))
  end.

Definition vol_perm (v : vol) (l : list Z) : res (vol * imap) :=
  if is_perm3 l then
    let p := perm_triple l in
    Ok (Vol (perm_aff (v_aff v) p) (perm_shape (v_shape v) p) (v_chans v)
            (fun j c => match perm_map p j with Some i => v_arr v i c | None => v_arr v j c end)
            (v_isint v) (v_patient v) (v_for v), perm_map p)
  else Err "ValueError".

Definition vol_step_sp : vol -> sop -> res (vol * imap) :=
  step_sp vol v_aff v_shape v_patient vol_get vol_pad vol_perm.

(* ---- channel operations (spatial identity) *)
Fixpoint find_chan (d : Z) (l : list chan) (k : Z) : option (Z * list Z) :=
  match l with
  | [] => None
  | (d', vals) :: l' => if d =? d' then Some (k, vals) else find_chan d l' (k + 1)
  end.

Fixpoint replace_at {A} (k : nat) (x : A) (l : list A) : list A :=
  match k, l with
  | _, [] => []
  | O, _ :: l' => x :: l'
  | S k', y :: l' => y :: replace_at k' x l'
  end.
Fixpoint remove_at {A} (k : nat) (l : list A) : list A :=
  match k, l with
  | _, [] => []
  | O, _ :: l' => l'
  | S k', y :: l' => y :: remove_at k' l'
  end.

(* the constructor's checks on (array shape, channels) *)
Definition ctor_ok (ashape : list Z) (chans : list chan) : bool :=
  (3 <=? Z.of_nat (length ashape)) &&
  (Z.of_nat (length chans) =? Z.of_nat (length ashape) - 3) &&
  list_eqb (map (fun c => Z.of_nat (length (snd c))) chans) (skipn 3 ashape) &&
  negb (has_dup (map fst chans)).

(* get_channel(keepdims, **kwargs): selections are resolved one after the other against the
   ORIGINAL channel table; the array is indexed once at the end.  [cmap] sends a channel
   index of the result to the channel index of the receiver. *)
Fixpoint get_channel_plan (orig : list chan) (keep : bool) (sel : list (Z * Z))
         (cur : list (option Z))   (* per original channel dim: Some ind when selected *)
  : res (list (option Z)) :=
  match sel with
  | [] => Ok cur
  | (d, x) :: sel' =>
      match find_chan d orig 0 with
      | None => Err "ValueError"
      | Some (k, vals) =>
          match index_of x vals 0 with
          | None => Err "ValueError"
          | Some ind => get_channel_plan orig keep sel' (replace_at (Z.to_nat k) (Some ind) cur)
          end
      end
  end.

(* rebuild the receiver's channel index from the result's one *)
Fixpoint expand_cidx (keep : bool) (plan : list (option Z)) (c : list Z) : list Z :=
  match plan with
  | [] => []
  | None :: plan' => match c with x :: c' => x :: expand_cidx keep plan' c' | [] => 0 :: expand_cidx keep plan' [] end
  | Some ind :: plan' =>
      if keep then match c with _ :: c' => ind :: expand_cidx keep plan' c' | [] => ind :: expand_cidx keep plan' [] end
      else ind :: expand_cidx keep plan' c
  end.

Fixpoint plan_chans (keep : bool) (plan : list (option Z)) (chans : list chan) : list chan :=
  match plan, chans with
  | None :: plan', ch :: chans' => ch :: plan_chans keep plan' chans'
  | Some ind :: plan', (d, vals) :: chans' =>
      if keep then (d, [nth (Z.to_nat ind) vals 0]) :: plan_chans keep plan' chans'
      else plan_chans keep plan' chans'
  | _, _ => []
  end.

Definition vol_get_channel (v : vol) (keep : bool) (sel : list (Z * Z)) : res vol :=
  bind (get_channel_plan (v_chans v) keep sel (map (fun _ => None) (v_chans v))) (fun plan =>
  Ok (Vol (v_aff v) (v_shape v) (plan_chans keep plan (v_chans v))
          (fun j c => v_arr v j (expand_cidx keep plan c))
          (v_isint v) (v_patient v) (v_for v))).

(* permute_channel_axes(descriptors) -> permute_channel_axes_by_index *)
Fixpoint chan_indices (orig : list chan) (ds : list Z) : res (list Z) :=
  match ds with
  | [] => Ok []
  | d :: ds' =>
      match find_chan d orig 0 with
      | None => Err "ValueError"
      | Some (k, _) => bind (chan_indices orig ds') (fun r => Ok (k :: r))
      end
  end.

Definition vol_permute_channels (v : vol) (ds : list Z) : res vol :=
  bind (chan_indices (v_chans v) ds) (fun p =>
  if has_dup ds then Err "ValueError"
  else if negb (Z.of_nat (length ds) =? Z.of_nat (length (v_chans v))) then Err "ValueError"
  else
    Ok (Vol (v_aff v) (v_shape v)
            (map (fun k => nth (Z.to_nat k) (v_chans v) (0, [])) p)
            (* new axis d is old axis p[d]:  old_c[k] = new_c[position of k in p] *)
            (fun j c => v_arr v j
               (map (fun k => match index_of k p 0 with Some q => nth (Z.to_nat q) c 0 | None => 0 end)
                    (zrange (Z.of_nat (length p)))))
            (v_isint v) (v_patient v) (v_for v))).

(* with_array(array, channels) *)
Definition vol_with_array (v : vol) (ashape : list Z) (a : array) (isint : bool)
           (chans : option (list chan)) : res vol :=
  if negb (list_eqb (firstn 3 ashape) (shape_list (v_shape v))) then Err "ValueError"
  else
    let full := shape_list (v_shape v) ++ cshape v in
    match (match chans with
           | Some ch => Ok ch
           | None => if Z.of_nat (length ashape) =? 3 then Ok []
                     else if list_eqb ashape full then Ok (v_chans v) else Err "ValueError"
           end) with
    | Err k => Err k
    | Ok ch =>
        if ctor_ok ashape ch
        then Ok (Vol (v_aff v) (v_shape v) ch a isint (v_patient v) (v_for v))
        else Err "ValueError"
    end.

(* VolumeGeometry.with_array: the array's spatial shape must be the geometry's (fix D87),
   then Volume(array, affine, ..., channels) with the constructor's checks *)
Definition geom_with_array (g : geom) (ashape : list Z) (a : array) (isint : bool)
           (chans : option (list chan)) : res vol :=
  let ch := match chans with Some c => c | None => [] end in
  if negb (list_eqb (firstn 3 ashape) (shape_list (g_shape g))) then Err "ValueError"
  else if ctor_ok ashape ch
  then Ok (Vol (g_aff g) (g_shape g) ch a isint (g_patient g) (g_for g))
  else Err "ValueError".

(* squeeze_channel(channel_descriptors) *)
Definition vol_squeeze_channel (v : vol) (ds : option (list Z)) : res vol :=
  let chans := v_chans v in
  let single k := Z.of_nat (length (snd (nth (Z.to_nat k) chans (0, [])))) =? 1 in
  let mk plan := Vol (v_aff v) (v_shape v) (plan_chans false plan chans)
                     (fun j c => v_arr v j (expand_cidx false plan c))
                     (v_isint v) (v_patient v) (v_for v) in
  let dims := zrange (Z.of_nat (length chans)) in
  match ds with
  | None => Ok (mk (map (fun k => if single k then Some 0 else None) dims))
  | Some l =>
      bind (chan_indices chans l) (fun ks =>
      if existsb (fun k => negb (single k)) ks then Err "RuntimeError"
      else if has_dup l then Err "ValueError"          (* numpy squeeze: duplicate axis *)
      else Ok (mk (map (fun k => if existsb (Z.eqb k) ks then Some 0 else None) dims)))
  end.

Definition vol_copy (v : vol) : vol :=
  Vol (v_aff v) (v_shape v) (v_chans v) (v_arr v) (v_isint v) (v_patient v) (v_for v).

Inductive op :=
| Sp (o : sop)
| Copy
| WithArray (ashape : list Z) (a : array) (isint : bool) (chans : option (list chan))
| GetChannel (keep : bool) (sel : list (Z * Z))
| PermuteChannels (ds : list Z)
| SqueezeChannel (ds : option (list Z)).

Definition step_tr (v : vol) (o : op) : res (vol * imap) :=
  match o with
  | Sp s => vol_step_sp v s
  | Copy => Ok (vol_copy v, imap_id)
  | WithArray sh a i ch => bind (vol_with_array v sh a i ch) (fun v' => Ok (v', imap_id))
  | GetChannel keep sel => bind (vol_get_channel v keep sel) (fun v' => Ok (v', imap_id))
  | PermuteChannels ds => bind (vol_permute_channels v ds) (fun v' => Ok (v', imap_id))
  | SqueezeChannel ds => bind (vol_squeeze_channel v ds) (fun v' => Ok (v', imap_id))
  end.

Definition step (v : vol) (o : op) : res vol :=
  match step_tr v o with Ok p => Ok (fst p) | Err k => Err k end.

(* the geometry-only object: spatial operations and copy; everything else leaves it alone *)
Definition gstep (g : geom) (o : op) : option (res geom) :=
  match o with
  | Sp s => Some (match geom_step_sp g s with Ok p => Ok (fst p) | Err k => Err k end)
  | Copy => Some (Ok (Geom (g_aff g) (g_shape g) (g_patient g) (g_for g)))
  | _ => None
  end.

(* a refused operation leaves the object as it was and the history continues *)
Definition step_skip (v : vol) (o : op) : vol := match step v o with Ok v' => v' | Err _ => v end.
Definition run (v : vol) (ops : list op) : vol := fold_left step_skip ops v.

(* the geometry-only object driven through the same history: it follows every spatial
   operation and copy, is left alone by channel operations and with_array, and stays as it
   was when it refuses *)
Definition gstep_skip (g : geom) (o : op) : geom :=
  match gstep g o with Some (Ok g') => g' | _ => g end.
Definition grun (g : geom) (ops : list op) : geom := fold_left gstep_skip ops g.

(* traced history: the composed index map *)
Definition step_skip_tr (s : vol * imap) (o : op) : vol * imap :=
  match step_tr (fst s) o with
  | Ok p => (fst p, imap_comp (snd p) (snd s))
  | Err _ => s
  end.
Definition run_tr (v : vol) (ops : list op) : vol * imap := fold_left step_skip_tr ops (v, imap_id).

End Model.

(* ==================================================================== executable instance *)
Definition q (n : Z) (d : positive) : Qc := Q2Qc (n # d)%Q.
Definition qc_ltb (a b : Qc) : bool := negb (Qle_bool (this b) (this a)).
Definition qc_inj (z : Z) : Qc := Q2Qc (inject_Z z).

Definition qtrunc (x : Q) : Q := inject_Z (Z.quot (Qnum x) (Zpos (Qden x))).
Definition qcast (isint : bool) (x : Q) : Q := if isint then qtrunc x else x.
Definition qmin (a b : Q) : Q := if Qle_bool a b then a else b.
Definition qmax (a b : Q) : Q := if Qle_bool a b then b else a.
Fixpoint qins (x : Q) (l : list Q) : list Q :=
  match l with [] => [x] | y :: l' => if Qle_bool x y then x :: l else y :: qins x l' end.
Definition qsort (l : list Q) : list Q := fold_left (fun acc x => qins x acc) l [].
Definition qsum (l : list Q) : Q := Qred (fold_left (fun a x => Qred (Qplus a x)) l 0%Q).
Definition q_padval (m : pmode) (isint : bool) (cval : Q) (l : list Q) : Q :=
  match m with
  | PMin => match l with [] => 0%Q | x :: l' => fold_left qmin l' x end
  | PMax => match l with [] => 0%Q | x :: l' => fold_left qmax l' x end
  | PMean => qcast isint (Qred (Qdiv (qsum l) (inject_Z (Z.of_nat (length l)))))
  | PMedian =>
      let s := qsort l in
      let n := length l in
      qcast isint (if Nat.even n
                   then Qred (Qdiv (Qplus (nth (n / 2 - 1) s 0%Q) (nth (n / 2) s 0%Q)) 2)
                   else nth (n / 2) s 0%Q)
  | _ => qcast isint cval
  end.

Notation qvol := (vol Qc Q).
Notation qop := (op Q).
Definition q_step_tr := step_tr Qc (Q2Qc 0%Q) Qcplus Qcmult Qcminus Qcopp qc_inj qc_ltb Q q_padval.
Definition q_step := step Qc (Q2Qc 0%Q) Qcplus Qcmult Qcminus Qcopp qc_inj qc_ltb Q q_padval.
Definition q_gstep := gstep Qc (Q2Qc 0%Q) Qcplus Qcmult Qcminus Qcopp qc_inj qc_ltb Q.

(* array from row-major data *)
Definition flat_c (cs c : list Z) : Z := fold_left (fun acc p => acc * snd p + fst p) (combine c cs) 0.
Definition arr_of_data (shape : idx) (cs : list Z) (data : list Q) : array Q :=
  let '(n0, n1, n2) := shape in
  let nc := fold_left Z.mul cs 1 in
  fun j c => let '(j0, j1, j2) := j in
             nth (Z.to_nat ((((j0 * n1 + j1) * n2 + j2) * nc) + flat_c cs c)) data 0%Q.

Definition mkvol (A : aff Qc) (shape : idx) (chans : list (Z * list Z)) (data : list Q)
           (isint patient : bool) (for_uid : option Z) : qvol :=
  Vol Qc Q A shape chans
      (arr_of_data shape (map (fun c => Z.of_nat (length (snd c))) chans) data)
      isint patient for_uid.

Definition vqc (x : Qc) : val := VQ (this x).
Definition vvec (v : vec Qc) : list val := [vqc (vx v); vqc (vy v); vqc (vz v)].
Definition vaff (A : aff Qc) : val := VL (vvec (c0 A) ++ vvec (c1 A) ++ vvec (c2 A) ++ vvec (tr A)).
Definition vshape (s : idx) : val := let '(a, b, c) := s in vz_list [a; b; c].
Definition vfor (f : option Z) : val := match f with Some z => VZ z | None => VNone end.

Definition out_vol (v : qvol) : val :=
  VL [vshape (v_shape _ _ v); vaff (v_aff _ _ v);
      VL (map (fun c => VL [VZ (fst c); vz_list (snd c)]) (v_chans _ _ v));
      VL (map VQ (materialise Q (v_shape _ _ v) (cshape _ _ v) (v_arr _ _ v)));
      VB (v_patient _ _ v); vfor (v_for _ _ v)].
Definition out_geom (g : geom Qc) : val :=
  VL [vshape (g_shape _ g); vaff (g_aff _ g); VB (g_patient _ g); vfor (g_for _ g)].

(* lock-step history of a volume and of its geometry: per step [volume result; geometry
   result]; a refused step leaves the object unchanged *)
Fixpoint run_hist_from (v : qvol) (g : geom Qc) (ops : list qop) : list val :=
  match ops with
  | [] => []
  | o :: ops' =>
      let rv := q_step v o in
      let rg := q_gstep g o in
      let v' := match rv with Ok x => x | Err _ => v end in
      (* the geometry advances only together with the volume *)
      let g' := match rv, rg with Ok _, Some (Ok x) => x | _, _ => g end in
      VL [vres out_vol rv; match rg with Some r => vres out_geom r | None => VNone end]
      :: run_hist_from v' g' ops'
  end.
Definition run_hist (v : qvol) (ops : list qop) : val :=
  VL (run_hist_from v (geom_of _ _ v) ops).

Definition run_geom_with_array (v : qvol) (o : qop) : val :=
  match o with
  | @WithArray _ sh a i ch => vres out_vol (geom_with_array Qc Q (geom_of _ _ v) sh a i ch)
  | _ => VNone
  end.

(* closest orientation / handedness observers *)
Definition run_closest (A : aff Qc) : val :=
  vz_list (closest Qc (Q2Qc 0%Q) Qcopp qc_ltb A).
Definition run_is_left (A : aff Qc) : val :=
  VB (is_left Qc (Q2Qc 0%Q) Qcplus Qcmult Qcminus qc_ltb A).

(* ------------------------------------------------------------ coordinate -> index queries
   (executable instance; Qc is a field).  The objects of the code are immutable as far as the
   property is concerned: a query is a pure function of (affine, shape, array) and leaves the
   object as it is, so an [EQuery] event never changes the state of the history. *)
Definition q_det (A : aff Qc) : Qc := det3 Qc Qcplus Qcmult Qcminus A.
Definition q_scale (k : Qc) (v : vec Qc) : vec Qc := V (Qcmult (vx v) k) (Qcmult (vy v) k) (Qcmult (vz v) k).
(* linear part of the inverse applied to a direction / the inverse applied to a point *)
Definition q_lookup_lin (A : aff Qc) (d : vec Qc) : vec Qc :=
  q_scale (Qcinv (q_det A)) (lookup_lin_num Qc Qcplus Qcmult Qcminus A d).
Definition q_lookup (A : aff Qc) (p : vec Qc) : vec Qc :=
  q_scale (Qcinv (q_det A)) (lookup_num Qc Qcplus Qcmult Qcminus A p).
Definition q_zero : Qc := Q2Qc 0%Q.
Definition q_one : Qc := Q2Qc 1%Q.
(* inverse_affine as a matrix: three columns of the inverse of the 3x3 part + image of the origin *)
Definition q_inv_aff (A : aff Qc) : aff Qc :=
  Aff (q_lookup_lin A (V q_one q_zero q_zero)) (q_lookup_lin A (V q_zero q_one q_zero))
      (q_lookup_lin A (V q_zero q_zero q_one)) (q_lookup A (V q_zero q_zero q_zero)).
(* VolumeToVolumeTransformer(from, to).affine = to.inverse_affine @ from.affine *)
Definition q_xform (Afrom Ato : aff Qc) : aff Qc :=
  Aff (q_lookup_lin Ato (c0 Afrom)) (q_lookup_lin Ato (c1 Afrom)) (q_lookup_lin Ato (c2 Afrom))
      (q_lookup Ato (tr Afrom)).
Definition q_phys (A : aff Qc) (j : idx) : vec Qc :=
  let '(j0, j1, j2) := j in phys Qc Qcplus Qcmult A (qc_inj j0) (qc_inj j1) (qc_inj j2).

(* the point is on the voxel grid: Some integer index *)
Definition qc_int (x : Qc) : option Z :=
  if Pos.eqb (Qden (this x)) 1 then Some (Qnum (this x)) else None.
Definition vec_int (v : vec Qc) : option idx :=
  match qc_int (vx v), qc_int (vy v), qc_int (vz v) with
  | Some a, Some b, Some c => Some (a, b, c)
  | _, _, _ => None
  end.
Definition in_box (s : idx) (j : idx) : bool :=
  let '(n0, n1, n2) := s in let '(j0, j1, j2) := j in
  (0 <=? j0) && (j0 <? n0) && (0 <=? j1) && (j1 <? n1) && (0 <=? j2) && (j2 <? n2).

Inductive qname :=
| QInv                       (* inverse_affine *)
| QGeom                      (* get_geometry().inverse_affine / copy().inverse_affine *)
| QRt (pts : list idx)       (* map_reference_to_indices(map_indices_to_reference(pts)) *)
| QFind (pts : list idx)     (* ... with round_output=True, check_bounds=True; pts inside the box *)
| QXfTo                      (* VolumeToVolumeTransformer(initial, current).affine *)
| QXfFrom                    (* VolumeToVolumeTransformer(current, initial).affine *)
| QProbe (pts : list idx)    (* the voxel (index, values of all channels) found at the physical
                                coordinate that voxel [pt] of the INITIAL volume had *)
| QSp2                       (* spacing ** 2 *)
| QDirSp                     (* direction * spacing  (= the three columns) *)
| QPos                       (* position *)
| QCenter                    (* center_position *)
| QHand                      (* handedness *)
(* DICOM-facing and convention-facing queries (positions of planes, orientation, pixel measures,
   the affine in another patient convention) and VolumeToVolumeTransformer.__call__ *)
| QPlanePos (ks : list Z)    (* get_plane_position(k) per k: ValueError outside 0 <= k < shape[0] *)
| QPlanes                    (* get_plane_positions() *)
| QPlaneOri                  (* get_plane_orientation() cosines * pixel spacing = columns 2 and 1 *)
| QPixMeas                   (* get_pixel_measures(): (PixelSpacing, SliceThickness, SpacingBetweenSlices) ** 2 *)
| QAffConv (o : list Z)      (* get_affine(output_convention) *)
| QSpVec                     (* spacing_vectors() and unit_vectors() * spacing *)
| QExtent2                   (* physical_extent ** 2, voxel_volume ** 2, physical_volume ** 2 *)
| QCenterIdx                 (* nearest_center_indices, 2 * center_indices *)
| QXfCall (pts : list idx)   (* VolumeToVolumeTransformer(initial, current)(pts) *)
| QXfRound (pts : list idx). (* ... with round_output=True, check_bounds=True, one call per point *)

(* _transform_affine_to_convention from LPH: output row r is row (code_r / 2) of the affine, negated
   when code_r is odd (R, A, F) *)
Definition conv_vec (d0 d1 d2 : Z) (v : vec Qc) : vec Qc :=
  let pick d := let x := sel3 (vx v, vy v, vz v) (d / 2) in if d mod 2 =? 0 then x else Qcopp x in
  V (pick d0) (pick d1) (pick d2).
Definition conv_aff (d0 d1 d2 : Z) (A : aff Qc) : aff Qc :=
  Aff (conv_vec d0 d1 d2 (c0 A)) (conv_vec d0 d1 d2 (c1 A)) (conv_vec d0 d1 d2 (c2 A))
      (conv_vec d0 d1 d2 (tr A)).

(* np.around: None when the value is exactly half-way (numpy rounds half to even; the float value
   may sit on either side - the correspondence run treats such a point as undecided) *)
Definition qc_round (x : Qc) : option Z :=
  let n := Qnum (this x) in let d := Zpos (Qden (this x)) in
  if d =? 2 then None else Some ((2 * n + d) / (2 * d)).
Definition apply_aff (T : aff Qc) (j : idx) : vec Qc := q_phys T j.

Definition half_of (n : Z) : Qc := Q2Qc ((n - 1) # 2)%Q.

(* [vals j] = what the object stores at voxel j (all channels; nothing for a geometry) *)
Definition observe (A0 A : aff Qc) (shape : idx) (vals : idx -> list val) (n : qname) : val :=
  let singular := Qc_eq_bool (q_det A) q_zero in
  let singular0 := Qc_eq_bool (q_det A0) q_zero in
  match n with
  | QInv | QGeom => if singular then VErr "LinAlgError" else vaff (q_inv_aff A)
  | QRt pts => if singular then VErr "LinAlgError"
               else VL (flat_map (fun j => vvec (q_lookup A (q_phys A j))) pts)
  | QFind pts =>
      if singular then VErr "LinAlgError"
      else
        let found := map (fun j => vec_int (q_lookup A (q_phys A j))) pts in
        if forallb (fun o => match o with Some i => in_box shape i | None => false end) found
        then VL (flat_map (fun o => match o with Some (a, b, c) => [VZ a; VZ b; VZ c] | None => [] end) found)
        else VErr "RuntimeError"
  | QXfTo => if singular then VErr "LinAlgError" else vaff (q_xform A0 A)
  | QXfFrom => if singular0 then VErr "LinAlgError" else vaff (q_xform A A0)
  | QProbe pts =>
      if singular then VErr "LinAlgError"
      else VL (map (fun p => match vec_int (q_lookup A (q_phys A0 p)) with
                             | Some i => if in_box shape i
                                         then VL [vshape i; VL (vals i)] else VNone
                             | None => VNone
                             end) pts)
  | QSp2 => VL [vqc (norm2 Qc Qcplus Qcmult (c0 A)); vqc (norm2 Qc Qcplus Qcmult (c1 A));
                vqc (norm2 Qc Qcplus Qcmult (c2 A))]
  | QDirSp => VL (vvec (c0 A) ++ vvec (c1 A) ++ vvec (c2 A))
  | QPos => VL (vvec (tr A))
  | QCenter => let '(n0, n1, n2) := shape in
               VL (vvec (phys Qc Qcplus Qcmult A (half_of n0) (half_of n1) (half_of n2)))
  | QHand => VB (is_left Qc (Q2Qc 0%Q) Qcplus Qcmult Qcminus qc_ltb A)
  | QPlanePos ks =>
      let '(n0, _, _) := shape in
      VL (map (fun k => if (k <? 0) || (n0 <=? k) then VErr "ValueError"
                        else VL (vvec (q_phys A (k, 0, 0)))) ks)
  | QPlanes => let '(n0, _, _) := shape in
               VL (flat_map (fun k => vvec (q_phys A (k, 0, 0))) (zrange n0))
  | QPlaneOri => VL (vvec (c2 A) ++ vvec (c1 A))
  | QPixMeas => VL [vqc (norm2 Qc Qcplus Qcmult (c1 A)); vqc (norm2 Qc Qcplus Qcmult (c2 A));
                    vqc (norm2 Qc Qcplus Qcmult (c0 A)); vqc (norm2 Qc Qcplus Qcmult (c0 A))]
  | QAffConv o =>
      match normalize_orientation o with
      | Err k => VErr k
      | Ok [d0; d1; d2] => vaff (conv_aff d0 d1 d2 A)
      | Ok _ => VErr "ValueError"
      end
  | QSpVec => VL (vvec (c0 A) ++ vvec (c1 A) ++ vvec (c2 A) ++ vvec (c0 A) ++ vvec (c1 A) ++ vvec (c2 A))
  | QExtent2 =>
      let '(n0, n1, n2) := shape in
      let s0 := norm2 Qc Qcplus Qcmult (c0 A) in let s1 := norm2 Qc Qcplus Qcmult (c1 A) in
      let s2 := norm2 Qc Qcplus Qcmult (c2 A) in
      let vv := Qcmult (Qcmult s0 s1) s2 in
      let nn := qc_inj (n0 * n1 * n2) in
      VL [vqc (Qcmult (qc_inj (n0 * n0)) s0); vqc (Qcmult (qc_inj (n1 * n1)) s1);
          vqc (Qcmult (qc_inj (n2 * n2)) s2); vqc vv; vqc (Qcmult (Qcmult nn nn) vv)]
  | QCenterIdx => let '(n0, n1, n2) := shape in
                  VL [VZ ((n0 - 1) / 2); VZ ((n1 - 1) / 2); VZ ((n2 - 1) / 2); VZ (n0 - 1); VZ (n1 - 1); VZ (n2 - 1)]
  | QXfCall pts => if singular then VErr "LinAlgError"
                   else let T := q_xform A0 A in VL (flat_map (fun j => vvec (apply_aff T j)) pts)
  | QXfRound pts =>
      if singular then VErr "LinAlgError"
      else let T := q_xform A0 A in
           VL (map (fun j =>
                 let p := apply_aff T j in
                 match qc_round (vx p), qc_round (vy p), qc_round (vz p) with
                 | Some a, Some b, Some c =>
                     if in_box shape (a, b, c) then VL [VZ a; VZ b; VZ c] else VErr "ValueError"
                 | _, _, _ => VNone
                 end) pts)
  end.

Definition vol_vals (v : qvol) (j : idx) : list val :=
  map (fun c => VQ (v_arr _ _ v j c)) (all_cidx (cshape _ _ v)).

Inductive event := EOp (o : qop) | EQuery (l : list qname).

(* lock-step history with interleaved queries.  A query event reports the answers of the
   volume and of its geometry and leaves both as they are. *)
Fixpoint run_events_from (A0 : aff Qc) (v : qvol) (g : geom Qc) (evs : list event) : list val :=
  match evs with
  | [] => []
  | EOp o :: evs' =>
      let rv := q_step v o in
      let rg := q_gstep g o in
      let v' := match rv with Ok x => x | Err _ => v end in
      let g' := match rv, rg with Ok _, Some (Ok x) => x | _, _ => g end in
      VL [vres out_vol rv; match rg with Some r => vres out_geom r | None => VNone end]
      :: run_events_from A0 v' g' evs'
  | EQuery l :: evs' =>
      VL [VL (map (observe A0 (v_aff _ _ v) (v_shape _ _ v) (vol_vals v)) l);
          VL (map (observe A0 (g_aff _ g) (g_shape _ g) (fun _ => [])) l)]
      :: run_events_from A0 v g evs'
  end.
Definition run_hist_q (v : qvol) (evs : list event) : val :=
  VL (run_events_from (v_aff _ _ v) v (geom_of _ _ v) evs).

Definition ops_of (evs : list event) : list qop :=
  flat_map (fun e => match e with EOp o => [o] | EQuery _ => [] end) evs.
Definition is_op (e : event) : bool := match e with EOp _ => true | EQuery _ => false end.

(* implicit value type for the operation constructors (used by generated case files) *)
Arguments OGet {Vx}. Arguments OFlip {Vx}. Arguments OPermute {Vx}. Arguments OSwap {Vx}.
Arguments OPad {Vx}. Arguments OPadTo {Vx}. Arguments OCropTo {Vx}. Arguments OPadOrCropTo {Vx}.
Arguments OOrient {Vx}. Arguments OHanded {Vx}.
Arguments Sp {Vx}. Arguments Copy {Vx}. Arguments WithArray {Vx}. Arguments GetChannel {Vx}.
Arguments PermuteChannels {Vx}. Arguments SqueezeChannel {Vx}. Arguments ORand {Vx}.

(* ------------------------------------------------------------ index items of other types.
   _prepare_getitem_index accepts exactly int (bool included), slice and tuples of them: an index
   that is none of these raises TypeError; within a tuple the items are checked in order, so an
   out-of-range item BEFORE the foreign one wins, and a tuple of more than three items is refused
   first (IndexError).  [None] = an item that is neither int nor slice (numpy integer, float, list,
   None, Ellipsis, str). *)
Inductive xindex := XOk (l : list (option item)) | XBadType.

Fixpoint check_items_ext (shape : idx) (d : Z) (l : list (option item)) : res (list item) :=
  match l with
  | [] => Ok []
  | None :: _ => Err "TypeError"
  | Some it :: l' =>
      bind (check_item (sel3 shape d) it) (fun _ =>
      bind (check_items_ext shape (d + 1) l') (fun r => Ok (it :: r)))
  end.

Definition getitem_ext (shape : idx) (x : xindex) : res index :=
  match x with
  | XBadType => Err "TypeError"
  | XOk l => if 3 <? Z.of_nat (length l) then Err "IndexError"
             else bind (check_items_ext shape 0 l) (fun its => Ok (XTup its))
  end.

Definition run_get_ext (v : qvol) (x : xindex) : val :=
  let g := geom_of _ _ v in
  VL [vres out_vol (bind (getitem_ext (v_shape _ _ v) x) (fun ix => q_step v (Sp (OGet ix))));
      vres out_geom (bind (getitem_ext (g_shape _ g) x) (fun ix =>
                     match q_gstep g (Sp (OGet ix)) with Some r => r | None => Err "unmodelled" end))].

