(* C19 - sub-ranges of the volume read (get_volume slice / row / column arguments in both
   numbering conventions) and maps with several channels: lemmas and proofs *)
From Coq Require Import String ZArith List Bool QArith Lia ZifyBool Permutation Sorted.
From HD Require Import Base.Val C19_Model C19_Proofs C19_Proofs_Ext.
Import ListNotations.
Open Scope Z_scope.
(* no division in this file: the plain zify is enough *)

(* ====================================================================== *)
(* the index standardisers = Python indexing, refusing instead of clamping  *)
(* ====================================================================== *)
(* Python index meant by an argument: one-based numbers unless as_indices; negatives count
   from the end in both conventions *)
Definition py0 (ai : bool) (x : Z) : Z := if ai then x else if 0 <? x then x - 1 else x.
Definition pynorm (n x : Z) : Z := if x <? 0 then n + x else x.
(* a one-based number is never 0 *)
Definition arg_ok (ai : bool) (o : option Z) : Prop := ai = false -> o <> Some 0.

Ltac split_ifs :=
  repeat match goal with
         | |- context [if ?b then _ else _] => let E := fresh "E" in destruct b eqn:E
         end.

Lemma std_slice_ok ss se n ai s e : 0 <= n ->
  std_slice ss se n ai = Ok (s, e) <->
  arg_ok ai ss /\ arg_ok ai se /\
  s = pynorm n (match ss with None => 0 | Some x => py0 ai x end) /\
  match se with
  | None => e = n
  | Some y => - n <= py0 ai y <= n /\ e = pynorm n (py0 ai y)
  end /\
  s < e.
Proof.
  intros Hn. unfold std_slice, num0, arg_ok, py0, pynorm.
  destruct ss as [x|], se as [y|], ai; cbn [bind]; repeat (progress (split_ifs; cbn [bind]));
    (split;
     [ intros H; try discriminate H; inversion H; subst; clear H;
       repeat split; try lia; try congruence; try (intros _ H0; inversion H0; lia)
     | intros (A1 & A2 & A3 & A4 & A5); try (f_equal; f_equal; lia);
       exfalso;
       repeat match goal with H : context [if ?b then _ else _] |- _ => destruct b eqn:? end; try discriminate; try lia;
       first [ apply A1; [reflexivity | f_equal; lia]
             | apply A2; [reflexivity | f_equal; lia] ] ]).
Qed.

Ltac hyp_ifs :=
  repeat match goal with H : context [if ?b then _ else _] |- _ => destruct b eqn:? end.

Lemma std_slice_err_kinds ss se n ai k :
  std_slice ss se n ai = Err k -> k = "ValueError"%string \/ k = "IndexError"%string.
Proof.
  unfold std_slice, num0.
  destruct ss as [x|], se as [y|], ai; cbn [bind]; repeat (progress (split_ifs; cbn [bind]));
    intros H; inversion H; auto.
Qed.

(* IndexError: exactly when the end designates nothing of the axis (and no number is 0) *)
Lemma std_slice_index_error ss se n ai : 0 <= n ->
  std_slice ss se n ai = Err "IndexError" <->
  arg_ok ai ss /\ arg_ok ai se /\
  match se with None => False | Some y => py0 ai y < - n \/ n < py0 ai y end.
Proof.
  intros Hn. unfold std_slice, num0, arg_ok, py0.
  destruct ss as [x|], se as [y|], ai; cbn [bind]; repeat (progress (split_ifs; cbn [bind]));
    (split;
     [ intros H; try discriminate H; repeat split; try lia; try congruence;
       try (intros _ H0; inversion H0; lia)
     | intros (A1 & A2 & A3); try reflexivity; exfalso; hyp_ifs; try discriminate; try lia;
       first [ apply A1; [reflexivity | f_equal; lia]
             | apply A2; [reflexivity | f_equal; lia] ] ]).
Qed.

(* one axis of the row/column standardiser *)
Lemma std_axis_ok st en n ai s e : 0 < n ->
  std_axis st en n ai = Ok (s, e) <->
  arg_ok ai st /\ arg_ok ai en /\
  match st with
  | None => s = 0
  | Some x => - n <= py0 ai x <= n - 1 /\ s = pynorm n (py0 ai x)
  end /\
  match en with
  | None => e = n
  | Some y => - n <= py0 ai y <= n /\ e = pynorm n (py0 ai y)
  end.
Proof.
  intros Hn. unfold std_axis, arg_ok, py0, pynorm.
  destruct st as [x|], en as [y|], ai; cbn [bind andb]; repeat (progress (split_ifs; cbn [bind andb]));
    (split;
     [ intros H; try discriminate H; inversion H; subst; clear H;
       repeat split; try lia; try congruence; try (intros _ H0; inversion H0; lia)
     | intros (A1 & A2 & A3 & A4); try (f_equal; f_equal; lia);
       exfalso; hyp_ifs; try discriminate; try lia;
       first [ apply A1; [reflexivity | f_equal; lia]
             | apply A2; [reflexivity | f_equal; lia] ] ]).
Qed.

Lemma std_axis_err st en n ai k : std_axis st en n ai = Err k -> k = "ValueError"%string.
Proof.
  unfold std_axis.
  destruct st as [x|], en as [y|], ai; cbn [bind andb]; repeat (progress (split_ifs; cbn [bind andb]));
    intros H; inversion H; auto.
Qed.

Lemma std_axis_bounds st en n ai s e : 0 < n -> std_axis st en n ai = Ok (s, e) ->
  0 <= s <= n - 1 /\ 0 <= e <= n.
Proof.
  intros Hn H. apply std_axis_ok in H; [|exact Hn]. destruct H as (_ & _ & A3 & A4).
  unfold pynorm in *. destruct st, en; hyp_ifs; lia.
Qed.

Lemma std_slice_bounds ss se n ai s e : 0 <= n -> std_slice ss se n ai = Ok (s, e) ->
  s < e <= n /\ 0 <= e.
Proof.
  intros Hn H. apply std_slice_ok in H; [|exact Hn]. destruct H as (_ & _ & A3 & A4 & A5).
  unfold pynorm in *. destruct se; hyp_ifs; lia.
Qed.
