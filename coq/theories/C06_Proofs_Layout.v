(* C06 - lookup-table objects return the table they were GIVEN, whatever the memory layout of the
   numpy array it was handed over in: byte order of 16-bit items (big / little endian), strided,
   reversed or offset views into a larger buffer.  The array model (nparr: buffer, byte offset,
   byte stride, count, item size, byte order) is in C06_Model.v section 12. *)
From Coq Require Import String ZArith List Bool Lia ZifyBool.
From HD Require Import Base.Val C06_Model C06_Proofs.
Import ListNotations.
Open Scope Z_scope.
Ltac Zify.zify_post_hook ::= Z.to_euclidean_division_equations.

(* a well-formed view: items of 1 or 2 bytes, every item inside the buffer, bytes are bytes *)
Definition na_valid (a : nparr) : Prop :=
  (na_item a = 1 \/ na_item a = 2) /\ na_inside a = true /\ na_bytes_ok a = true.

Lemma na_byte_range a p :
  na_bytes_ok a = true -> 0 <= p < zlen (na_buf a) -> 0 <= na_byte a p < 256.
Proof.
  unfold na_bytes_ok, na_byte, zlen. intros H Hp. rewrite forallb_forall in H.
  assert (Hin : In (nth (Z.to_nat p) (na_buf a) 0) (na_buf a)) by (apply nth_In; lia).
  apply H in Hin. lia.
Qed.

Lemma zlen_na_values a : 0 <= na_n a -> zlen (na_values a) = na_n a.
Proof. intros H. unfold na_values, zlen. rewrite map_length, seq_length. lia. Qed.

Lemma na_values_range a :
  na_valid a -> Forall (fun v => 0 <= v < 2 ^ (8 * na_item a)) (na_values a).
Proof.
  intros (Hi & Hin & Hb). unfold na_values. apply Forall_forall. intros v Hv.
  apply in_map_iff in Hv. destruct Hv as (i & Hv & Hi').
  unfold na_inside in Hin. rewrite forallb_forall in Hin. specialize (Hin i Hi').
  cbv zeta in Hin. subst v. unfold na_elem. cbv zeta.
  destruct Hi as [E|E]; rewrite E in *.
  - change (1 =? 1) with true. cbv iota. change (2 ^ (8 * 1)) with 256.
    apply na_byte_range; [assumption | lia].
  - change (2 =? 1) with false. cbv iota. change (2 ^ (8 * 2)) with 65536.
    assert (H0 : 0 <= na_byte a (na_pos a (Z.of_nat i)) < 256)
      by (apply na_byte_range; [assumption | lia]).
    assert (H1 : 0 <= na_byte a (na_pos a (Z.of_nat i) + 1) < 256)
      by (apply na_byte_range; [assumption | lia]).
    destruct (na_big a); lia.
Qed.

(* LUT(first, array).lut_data = the array's logical values, for every well-formed layout: the
   result does not depend on buffer, offset, stride or byte order other than through the values *)
Lemma lut_layout_identity : forall first a expl pad,
  na_valid a -> 0 <= first < 65536 -> 1 <= na_n a <= 65536 ->
  exists l, mk_lut_arr first a expl pad = Ok l /\
            lut_data l = Ok (na_values a) /\ ld_first l = first /\ ld_bits l = 8 * na_item a /\
            lut_entries l = na_n a /\
            ld_n l = (if na_n a =? 65536 then 0 else na_n a).
Proof.
  intros first a expl pad Hv Hf Hn.
  destruct (lut_identity_full first (na_values a) (8 * na_item a) expl pad)
    as (l & H1 & H2 & H3 & H4 & H5 & H6).
  - unfold lut_ok. rewrite zlen_na_values by lia.
    repeat split; try lia.
    + destruct Hv as ([E|E] & _); lia.
    + now apply na_values_range.
  - rewrite zlen_na_values in H5, H6 by lia.
    exists l. unfold mk_lut_arr. repeat split; assumption.
Qed.

(* the stored LUTData bytes are the standard's encoding of the VALUES (8 bit: one byte each,
   16 bit: little-endian words; padded to an even length), not the array's own memory *)
Definition std_bytes (bits : Z) (values : list Z) : list Z :=
  let b := if bits =? 8 then values else enc16 values in
  if zlen b mod 2 =? 1 then b ++ [0] else b.

Lemma lut_layout_stored_bytes : forall first a expl pad l,
  mk_lut_arr first a expl pad = Ok l -> ld_bytes l = std_bytes (8 * na_item a) (na_values a).
Proof.
  intros first a expl pad l. unfold mk_lut_arr, mk_lut, std_bytes.
  destruct (first <? 0); [discriminate|].
  destruct (65536 <=? first); [discriminate|].
  destruct (zlen (na_values a) =? 0); [discriminate|].
  destruct (65536 <? zlen (na_values a)); [discriminate|].
  destruct (negb ((8 * na_item a =? 8) || (8 * na_item a =? 16))); [discriminate|].
  intros H. injection H as <-. reflexivity.
Qed.

(* two arrays with the same item size and the same values give the same object *)
Lemma lut_layout_irrelevant : forall first a b expl pad,
  na_item a = na_item b -> na_values a = na_values b ->
  mk_lut_arr first a expl pad = mk_lut_arr first b expl pad.
Proof. intros first a b expl pad Hi Hv. unfold mk_lut_arr. now rewrite Hi, Hv. Qed.

(* storing the array's OWN bytes (made contiguous, byte order kept) is NOT the identity: the
   one-entry big-endian table [300] comes back as 11265 *)
Definition be_300 : nparr := NpArr [1; 44] 0 2 1 2 true.
Lemma lut_own_bytes_refuted :
  na_valid be_300 /\ na_values be_300 = [300] /\
  lut_data (mk_lut_arr_own_bytes 0 be_300) = Ok [11265].
Proof. repeat split; try (right; reflexivity); vm_compute; reflexivity. Qed.

(* non-vacuity: a big-endian view with a NEGATIVE stride and an offset into a larger buffer *)
Definition be_view : nparr := NpArr [9; 9; 253; 232; 7; 7; 1; 44; 7; 7] 6 (-4) 2 2 true.
Lemma be_view_ok : na_valid be_view /\ na_values be_view = [300; 65000].
Proof. repeat split; try (right; reflexivity); vm_compute; reflexivity. Qed.
