(* C13 - proofs, part 4:
   (a) histories of reads on one SCOORD / SCOORD3D item: arrays handed out
       earlier (or handed in) are not shared with the item;
   (b) the coplanarity test depends on the SET of points only - not on their
       order, on where the contour starts, on repeated vertices - and every
       non-coplanar subset condemns the whole contour. *)
From Coq Require Import String ZArith List Bool QArith Lia Permutation.
From HD Require Import Base.Val C13_Model C13_Proofs C13_Proofs_Num.
Import ListNotations.
Open Scope list_scope.

(* ---------- (a) histories ---------- *)
Definition is_scribble (o : hop) : bool := match o with HScribble => true | _ => false end.
(* calls that do not touch item.GraphicData *)
Definition no_edit (o : hop) : Prop :=
  match o with HEdit _ _ | HAssign _ => False | _ => True end.

Lemma hist_run_cons : forall k d o ops,
  hist_run k d (o :: ops) =
  (fst (hist_step k d o) ++ fst (hist_run k (snd (hist_step k d o)) ops),
   snd (hist_run k (snd (hist_step k d o)) ops)).
Proof.
  intros. cbn [hist_run]. destruct (hist_step k d o) as [e d1]. cbn [fst snd].
  destruct (hist_run k d1 ops) as [es d2]. reflexivity.
Qed.

(* scribbling on arrays obtained earlier changes nothing: the run is the run
   without those calls *)
Lemma hist_ignores_scribbles : forall k ops d,
  hist_run k d ops = hist_run k d (filter (fun o => negb (is_scribble o)) ops).
Proof.
  intros k ops. induction ops as [|o ops IH]; intros d; [reflexivity|].
  destruct o; cbn [filter is_scribble negb]; rewrite !hist_run_cons;
    cbn [hist_step fst snd app]; try (rewrite <- IH; reflexivity).
  (* HScribble *) rewrite <- IH. destruct (hist_run k d ops); reflexivity.
Qed.

(* as long as nobody edits GraphicData, every read - before or after any
   number of scribbles, on the item or on its serialised-and-parsed copy -
   reports the constructed points, and GraphicData is what was written *)
Lemma hist_reports_constructed : forall k pts ops, (0 < k)%nat -> rows_nat k pts ->
  Forall no_edit ops ->
  snd (hist_run k (concat pts) ops) = concat pts /\
  Forall (fun e => e = vq_rows pts) (fst (hist_run k (concat pts) ops)).
Proof.
  intros k pts ops Hk Hr Hops.
  assert (Hread : read_rows k (concat pts) = vq_rows pts).
  { unfold read_rows. rewrite reshape_concat by assumption. reflexivity. }
  induction Hops as [|o ops Ho Hops IH]; [split; [reflexivity|constructor]|].
  rewrite hist_run_cons. destruct IH as [IH1 IH2].
  destruct o; cbn [no_edit] in Ho; try contradiction; cbn [hist_step fst snd app];
    (split; [exact IH1|]); repeat (constructor; [exact Hread|]); exact IH2.
Qed.

(* every observation of a run is a read of the GraphicData of that moment:
   after an assignment the reads report the assigned numbers *)
Lemma hist_assign_then_read : forall k d l ops,
  hist_run k d (HAssign l :: HRead :: ops) =
  (read_rows k l :: fst (hist_run k l ops), snd (hist_run k l ops)).
Proof. intros. rewrite !hist_run_cons. reflexivity. Qed.

(* ---------- (b) coplanarity is a property of the point set ---------- *)
Lemma coplanar_incl : forall ps qs : list v3, incl qs ps ->
  coplanar_v ps = true -> coplanar_v qs = true.
Proof.
  intros ps qs Hi H. apply coplanar_iff_plane in H. destruct H as [n [d [Hn Hp]]].
  apply coplanar_iff_plane. exists n, d. split; [exact Hn|]. intros p Hq. apply Hp. apply Hi. exact Hq.
Qed.

Lemma coplanar_same_points : forall ps qs : list v3, (forall p, In p ps <-> In p qs) ->
  coplanar_v ps = coplanar_v qs.
Proof.
  intros ps qs H.
  destruct (coplanar_v ps) eqn:E1; destruct (coplanar_v qs) eqn:E2; try reflexivity.
  - assert (coplanar_v qs = true) by (apply (coplanar_incl ps); [intros p Hp; apply H; exact Hp|exact E1]).
    congruence.
  - assert (coplanar_v ps = true) by (apply (coplanar_incl qs); [intros p Hp; apply H; exact Hp|exact E2]).
    congruence.
Qed.

Lemma coplanar_permutation : forall ps qs : list v3, Permutation ps qs ->
  coplanar_v ps = coplanar_v qs.
Proof.
  intros ps qs H. apply coplanar_same_points. intros p. split; intros Hp.
  - eapply Permutation_in; eauto.
  - eapply Permutation_in; [apply Permutation_sym; exact H|exact Hp].
Qed.

(* a contour may start anywhere: rotating the vertices does not change the verdict *)
Lemma coplanar_rotate : forall (ps qs : list v3), coplanar_v (ps ++ qs) = coplanar_v (qs ++ ps).
Proof. intros. apply coplanar_permutation. apply Permutation_app_comm. Qed.

(* a vertex outside the plane of (some of) the others is fatal wherever it is *)
Lemma noncoplanar_anywhere : forall (bad : list v3),
  coplanar_v bad = false -> forall ps, incl bad ps -> coplanar_v ps = false.
Proof.
  intros bad Hb ps Hi. destruct (coplanar_v ps) eqn:E; [|reflexivity].
  rewrite (coplanar_incl ps bad Hi E) in Hb. discriminate.
Qed.

(* ---------- (c) NumContentItem built from an int (after the fix of D111) ---------- *)
(* whatever the size of the int: the attributes the constructor writes - with
   FloatingPointValue exactly when the decimal string does not fit - are read
   back as the same value, by the accessors and by from_dataset *)
Lemma num_int_roundtrip : forall z n r u ql,
  let v := num_of_int z u ql in
  let t := Item NumContentItem n r v [] in
  read_value NumContentItem (item_attrs n r v []) = Ok v /\
  parse (Some NumContentItem) (to_ds t) = Ok t /\
  (r <> None -> parse None (to_ds t) = Ok t).
Proof.
  intros z n r u ql v t.
  assert (Hwf : wf t).
  { apply wf_unfold. split; [reflexivity|]. split; [exact I|]. constructor. }
  split; [exact (accessor_identity n r v [] I)|].
  destruct (parse_serialise t Hwf) as [H1 H2]. split; [exact H1|exact H2].
Qed.

(* FloatingPointValue is written iff the decimal string has more than 16 characters *)
Lemma num_int_float_iff : forall z, num_int_has_float z = true <-> (z <= - 10 ^ 15 \/ 10 ^ 16 <= z)%Z.
Proof.
  intros z. unfold num_int_has_float. pose proof (C13_Proofs_Num.num_int_exact_spec z) as H.
  destruct (num_int_exact z); cbn [negb]; split; intros H0; try discriminate; try reflexivity.
  - assert (- 10 ^ 15 < z < 10 ^ 16)%Z by (apply H; reflexivity). lia.
  - destruct (Z_lt_le_dec (- 10 ^ 15) z) as [L|L]; [|lia].
    destruct (Z_lt_le_dec z (10 ^ 16)) as [L2|L2]; [|lia].
    assert (false = true) by (apply H; lia). discriminate.
Qed.
