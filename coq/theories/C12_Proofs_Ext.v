(* C12 - further proofs: the full-tiling predicate against a matrix, the
   per-frame data of the TILED_FULL organisation, tile shapes, the
   cut-and-paste round trip as a list identity, guards of the checked entry
   points, the affine-matrix form of the pixel-to-reference transform. *)
From Coq Require Import String ZArith List Bool Lia ZifyBool Arith QArith Permutation.
From HD Require Import Base.Val Base.ListZ C12_Model C12_Proofs.
Import ListNotations.
Ltac Zify.zify_post_hook ::= Z.to_euclidean_division_equations.
Open Scope Z_scope.

(* ====================================================================== *)
(* 1. the full-tiling predicate, relative to a matrix                      *)
(* ====================================================================== *)

(* 1-based offset of the last tile along an axis of length n, tile length t *)
Definition last_off (n t : Z) : Z := ((n - 1) / t) * t + 1.
Definition swap (p : Z * Z) : Z * Z := (snd p, fst p).

Lemma flat_map_nil_inner : forall {A B} (l : list A), flat_map (fun _ => @nil B) l = [].
Proof. induction l as [|a l IH]; cbn; auto. Qed.

Lemma range1_small : forall m t, m < 1 -> range1 m t = [].
Proof. intros m t H. unfold range1. replace (m <? 1) with true by lia. reflexivity. Qed.

Lemma range1_cdiv : forall m t, 1 <= m -> 1 <= t ->
  range1 m t = map (fun k => 1 + k * t) (zrange (cdiv m t)).
Proof.
  intros m t Hm Ht. unfold range1. replace (m <? 1) with false by lia.
  now rewrite cdiv_eq by lia.
Qed.

Lemma expected_as_grid_rc : forall mr mc th tw, 1 <= mr -> 1 <= mc -> 1 <= th -> 1 <= tw ->
  expected_positions mr mc th tw = grid_rc mr mc th tw.
Proof.
  intros mr mc th tw Hr Hc Hh Hw. unfold expected_positions. rewrite !range1_cdiv by lia. unfold grid_rc.
  generalize (zrange (cdiv mr th)) as la. generalize (zrange (cdiv mc tw)) as lb. intros lb la.
  induction la as [|a la IH]; cbn [flat_map map]; [reflexivity|]. rewrite IH. f_equal.
  rewrite !map_map. apply map_ext. intros b. f_equal; lia.
Qed.

Lemma cdiv_last_off : forall n t, 1 <= n -> 1 <= t -> cdiv (last_off n t) t = cdiv n t /\ 1 <= last_off n t <= n.
Proof.
  intros n t Hn Ht. unfold last_off.
  assert (0 <= (n - 1) / t) by (apply Z.div_pos; lia).
  rewrite !cdiv_eq by lia. split; [|lia].
  replace ((n - 1) / t * t + 1 - 1) with ((n - 1) / t * t) by lia. now rewrite Z.div_mul by lia.
Qed.

Lemma expected_grid_rc : forall R C th tw, 1 <= R -> 1 <= C -> 1 <= th -> 1 <= tw ->
  expected_positions (last_off R th) (last_off C tw) th tw = grid_rc R C th tw.
Proof.
  intros R C th tw HR HC Hh Hw.
  destruct (cdiv_last_off R th HR Hh) as [E1 B1]. destruct (cdiv_last_off C tw HC Hw) as [E2 B2].
  rewrite expected_as_grid_rc by lia. unfold grid_rc. now rewrite E1, E2.
Qed.

(* SOUNDNESS against a matrix: a non-empty accepted list IS the complete
   row-major grid of the matrix whose size is the largest row / column
   position in the list - nothing else is ever accepted. *)
Lemma tiled_full_sound : forall ps th tw, 1 <= th -> 1 <= tw -> ps <> [] ->
  are_tiled_full ps th tw = true ->
  1 <= max_from (-1) (map fst ps) /\ 1 <= max_from (-1) (map snd ps) /\
  ps = grid_rc (max_from (-1) (map fst ps)) (max_from (-1) (map snd ps)) th tw.
Proof.
  intros ps th tw Hh Hw Hne H. apply tiled_full_iff in H.
  remember (max_from (-1) (map fst ps)) as R eqn:ER. remember (max_from (-1) (map snd ps)) as C eqn:EC.
  assert (HR : 1 <= R).
  { destruct (Z_lt_le_dec R 1) as [Hlt|]; [|assumption]. exfalso. apply Hne. rewrite H.
    unfold expected_positions. now rewrite (range1_small R) by lia. }
  assert (HC : 1 <= C).
  { destruct (Z_lt_le_dec C 1) as [Hlt|]; [|assumption]. exfalso. apply Hne. rewrite H.
    unfold expected_positions. rewrite (range1_small C) by lia. cbn [map]. apply flat_map_nil_inner. }
  repeat split; try assumption. etransitivity; [exact H|]. apply expected_as_grid_rc; lia.
Qed.

(* the empty list is accepted (empty grid of an empty extent) *)
Lemma tiled_full_nil : forall th tw, are_tiled_full [] th tw = true.
Proof. intros. reflexivity. Qed.

Lemma max_from_perm : forall l l', Permutation l l' -> forall i, max_from i l = max_from i l'.
Proof.
  unfold max_from. induction 1 as [|a l l' H IH|a b l|l l' l'' H1 IH1 H2 IH2]; intros i; cbn [fold_left].
  - reflexivity.
  - apply IH.
  - f_equal. lia.
  - now rewrite IH1.
Qed.

(* among all orderings of one collection of positions at most one is accepted *)
Lemma tiled_full_perm_unique : forall ps ps' th tw, Permutation ps ps' ->
  are_tiled_full ps th tw = true -> are_tiled_full ps' th tw = true -> ps = ps'.
Proof.
  intros ps ps' th tw HP H H'. apply tiled_full_iff in H. apply tiled_full_iff in H'.
  assert (E1 : max_from (-1) (map fst ps) = max_from (-1) (map fst ps'))
    by (apply max_from_perm; now apply Permutation_map).
  assert (E2 : max_from (-1) (map snd ps) = max_from (-1) (map snd ps'))
    by (apply max_from_perm; now apply Permutation_map).
  etransitivity; [exact H|]. rewrite E1, E2. symmetry. exact H'.
Qed.

(* EXACTLY the grid of the matrix: accepted with the extent of an R x C
   matrix  <->  the list is the row-major grid of that matrix *)
Lemma tiled_full_grid_iff : forall ps R C th tw, 1 <= R -> 1 <= C -> 1 <= th -> 1 <= tw ->
  (are_tiled_full ps th tw = true /\
   max_from (-1) (map fst ps) = last_off R th /\ max_from (-1) (map snd ps) = last_off C tw)
  <-> ps = grid_rc R C th tw.
Proof.
  intros ps R C th tw HR HC Hh Hw. split.
  - intros (H & E1 & E2). apply tiled_full_iff in H. rewrite E1, E2 in H.
    etransitivity; [exact H|]. apply expected_grid_rc; lia.
  - intros ->. split; [apply tiled_full_complete; lia|]. unfold last_off. apply max_fst_grid_rc; lia.
Qed.

Lemma tiled_full_refuses_permuted : forall ps R C th tw, 1 <= R -> 1 <= C -> 1 <= th -> 1 <= tw ->
  Permutation ps (grid_rc R C th tw) -> ps <> grid_rc R C th tw -> are_tiled_full ps th tw = false.
Proof.
  intros ps R C th tw HR HC Hh Hw HP Hne. destruct (are_tiled_full ps th tw) eqn:E; [|reflexivity].
  exfalso. apply Hne. apply (tiled_full_perm_unique ps _ th tw HP E). apply tiled_full_complete; lia.
Qed.

Lemma tiled_full_refuses_incomplete : forall ps R C th tw, 1 <= R -> 1 <= C -> 1 <= th -> 1 <= tw ->
  max_from (-1) (map fst ps) = last_off R th -> max_from (-1) (map snd ps) = last_off C tw ->
  ps <> grid_rc R C th tw -> are_tiled_full ps th tw = false.
Proof.
  intros ps R C th tw HR HC Hh Hw E1 E2 Hne. destruct (are_tiled_full ps th tw) eqn:E; [|reflexivity].
  exfalso. apply Hne. apply tiled_full_grid_iff; auto.
Qed.

Lemma swap_grid : forall R C th tw, map swap (grid R C th tw) = grid_rc R C th tw.
Proof.
  intros. unfold grid, grid_rc. rewrite map_flat_map. apply flat_map_ext. intros a.
  rewrite map_map. apply map_ext. intros b. reflexivity.
Qed.

(* the predicate accepts what the enumeration produces *)
Lemma tiled_full_accepts_offsets : forall R C th tw, 1 <= R -> 1 <= C -> 1 <= th -> 1 <= tw ->
  are_tiled_full (map swap (tile_offsets R C th tw)) th tw = true.
Proof.
  intros R C th tw HR HC Hh Hw. rewrite tile_offsets_is_grid by lia. rewrite swap_grid.
  apply tiled_full_complete; lia.
Qed.

Lemma length_grid_rc : forall R C th tw, length (grid_rc R C th tw) = length (grid R C th tw).
Proof. intros. rewrite <- swap_grid. now rewrite map_length. Qed.

(* ====================================================================== *)
(* 2. per-frame data of the TILED_FULL organisation                        *)
(* ====================================================================== *)

Lemma flat_map_map' : forall {A B C} (g : A -> B) (f : B -> list C) l,
  flat_map f (map g l) = flat_map (fun x => f (g x)) l.
Proof. induction l as [|a l IH]; cbn; [reflexivity|]. now rewrite IH. Qed.

(* a focal plane: the offsets of one list G, each with a position *)
Definition plane_of (G : list (Z * Z)) (P : Z -> Z * Z -> vec3) (k : Z) : list ((Z * Z) * vec3) :=
  map (fun o => (o, P k o)) G.

Lemma iter_gen_ext : forall {Ch} (chans : list Ch) nfp p p', (forall k, p k = p' k) ->
  iter_gen chans nfp p = iter_gen chans nfp p'.
Proof.
  intros Ch chans nfp p p' H. unfold iter_gen. apply flat_map_ext. intros ch.
  apply flat_map_ext. intros k. now rewrite H.
Qed.

Lemma in_iter_gen : forall {Ch} (chans : list Ch) nfp G P ch k o p,
  In (ch, k, o, p) (iter_gen chans nfp (plane_of G P)) <->
  In ch chans /\ 1 <= k <= nfp /\ In o G /\ p = P (k - 1) o.
Proof.
  intros Ch chans nfp G P ch k o p. unfold iter_gen, plane_of. rewrite in_flat_map. split.
  - intros (ch' & Hch & Hin). apply in_flat_map in Hin as (k0 & Hk0 & Hin).
    apply in_map_iff in Hin as (t & Heq & Ht). apply in_map_iff in Ht as (o' & <- & Ho).
    apply in_zrange in Hk0. cbn [fst snd] in Heq. inversion Heq; subst.
    replace (k0 + 1 - 1) with k0 by lia. repeat split; auto; lia.
  - intros (Hch & Hk & Ho & ->). exists ch. split; [assumption|]. apply in_flat_map.
    exists (k - 1). split; [apply in_zrange; lia|]. apply in_map_iff.
    exists (o, P (k - 1) o). cbn [fst snd]. split; [repeat f_equal; lia|].
    apply in_map_iff. exists o. auto.
Qed.

Lemma length_iter_gen : forall {Ch} (chans : list Ch) nfp G P,
  length (iter_gen chans nfp (plane_of G P)) = (length chans * (Z.to_nat nfp * length G))%nat.
Proof.
  intros. unfold iter_gen. apply length_flat_map_const. intros ch _.
  rewrite (length_flat_map_const _ _ (length G)).
  - now rewrite length_zrange.
  - intros k _. unfold plane_of. now rewrite !map_length.
Qed.

Lemma nth_error_flat_map_const : forall {A B} (g : A -> list B) (l : list A) n i j a,
  (forall x, In x l -> length (g x) = n) -> nth_error l i = Some a -> (j < n)%nat ->
  nth_error (flat_map g l) (i * n + j) = nth_error (g a) j.
Proof.
  intros A B g. induction l as [|x l IH]; intros n i j a Hlen Hi Hj; [destruct i; discriminate|].
  cbn [flat_map]. destruct i as [|i]; cbn [nth_error] in Hi.
  - inversion Hi; subst. cbn [Nat.mul Nat.add]. rewrite nth_error_app1; [reflexivity|].
    rewrite Hlen by (now left). exact Hj.
  - assert (Hx : length (g x) = n) by (apply Hlen; now left).
    rewrite nth_error_app2 by (rewrite Hx; nia). rewrite Hx.
    replace (S i * n + j - n)%nat with (i * n + j)%nat by nia.
    apply IH; auto. intros y Hy. apply Hlen. now right.
Qed.

Lemma nth_error_zrange : forall n k, 0 <= k < n -> nth_error (zrange n) (Z.to_nat k) = Some k.
Proof.
  intros n k Hk. unfold zrange.
  rewrite (nth_error_nth' _ 0) by (rewrite map_length, seq_length; lia). f_equal.
  change 0 with (Z.of_nat 0). rewrite map_nth. rewrite seq_nth by lia. lia.
Qed.

(* FRAME NUMBERING: frame ((i * planes + k) * tiles + j) is channel i, focal
   plane k + 1, j-th tile of the grid (all 0-based on the left) *)
Lemma iter_gen_frame : forall {Ch} (chans : list Ch) nfp G P i k j ch o,
  nth_error chans i = Some ch -> 0 <= k < nfp -> nth_error G j = Some o ->
  nth_error (iter_gen chans nfp (plane_of G P))
            ((i * Z.to_nat nfp + Z.to_nat k) * length G + j) = Some (ch, k + 1, o, P k o).
Proof.
  intros Ch chans nfp G P i k j ch o Hi Hk Hj. unfold iter_gen.
  assert (Hjl : (j < length G)%nat) by (apply nth_error_Some; congruence).
  replace ((i * Z.to_nat nfp + Z.to_nat k) * length G + j)%nat
    with (i * (Z.to_nat nfp * length G) + (Z.to_nat k * length G + j))%nat by nia.
  rewrite (nth_error_flat_map_const _ chans (Z.to_nat nfp * length G) i _ ch); auto.
  - rewrite (nth_error_flat_map_const _ (zrange nfp) (length G) (Z.to_nat k) j k); auto.
    + unfold plane_of. rewrite map_map. cbn [fst snd].
      exact (map_nth_error (fun x : Z * Z => (ch, k + 1, x, P k x)) j G Hj).
    + intros x _. unfold plane_of. now rewrite !map_length.
    + now apply nth_error_zrange.
  - intros x _. rewrite (length_flat_map_const _ _ (length G)).
    + now rewrite length_zrange.
    + intros y _. unfold plane_of. now rewrite !map_length.
  - assert (Z.to_nat k < Z.to_nat nfp)%nat by lia. nia.
Qed.

Lemma tile_positions_plane : forall R C th tw pos rc cc spr spc, 1 <= R -> 1 <= C -> 1 <= th -> 1 <= tw ->
  tile_positions R C th tw pos rc cc spr spc =
  map (fun o => (o, pix2ref pos rc cc spr spc (fst o - 1) (snd o - 1))) (grid R C th tw).
Proof. intros. unfold tile_positions. now rewrite tile_offsets_is_grid by lia. Qed.

(* position of focal plane k (0-based) in iter_tiled_full *)
Definition iter_pos (x y : Q) rc cc (spr spc sbs : Q) (k : Z) (o : Z * Z) : vec3 :=
  pix2ref (V3 x y (inject_Z k * sbs)) rc cc spr spc (fst o - 1) (snd o - 1).

Lemma iter_tiled_full_gen : forall nch nfp R C th tw x y rc cc spr spc sbs,
  1 <= R -> 1 <= C -> 1 <= th -> 1 <= tw ->
  iter_tiled_full nch nfp R C th tw x y rc cc spr spc sbs =
  iter_gen (map (fun c => c + 1) (zrange nch)) nfp (plane_of (grid R C th tw) (iter_pos x y rc cc spr spc sbs)).
Proof.
  intros. unfold iter_tiled_full, iter_gen. rewrite flat_map_map'. apply flat_map_ext. intros ch.
  apply flat_map_ext. intros k. now rewrite tile_positions_plane by lia.
Qed.

(* the per-frame data: channel x focal plane x THE grid, as a list identity *)
Lemma iter_structure : forall nch nfp R C th tw x y rc cc spr spc sbs,
  1 <= R -> 1 <= C -> 1 <= th -> 1 <= tw ->
  iter_tiled_full nch nfp R C th tw x y rc cc spr spc sbs =
  flat_map (fun ch => flat_map (fun k =>
      map (fun o => (ch + 1, k + 1, o, pix2ref (V3 x y (inject_Z k * sbs)) rc cc spr spc (fst o - 1) (snd o - 1)))
          (grid R C th tw)) (zrange nfp)) (zrange nch).
Proof.
  intros. unfold iter_tiled_full. apply flat_map_ext. intros ch. apply flat_map_ext. intros k.
  rewrite tile_positions_plane by lia. rewrite map_map. reflexivity.
Qed.

Lemma iter_count : forall nch nfp R C th tw x y rc cc spr spc sbs,
  0 <= nch -> 0 <= nfp -> 1 <= R -> 1 <= C -> 1 <= th -> 1 <= tw ->
  Z.of_nat (length (iter_tiled_full nch nfp R C th tw x y rc cc spr spc sbs)) =
  nch * nfp * (cdiv R th * cdiv C tw).
Proof.
  intros nch nfp R C th tw x y rc cc spr spc sbs Hc Hf HR HC Hh Hw.
  rewrite iter_tiled_full_gen by lia. rewrite length_iter_gen, map_length, length_zrange.
  pose proof (grid_count R C th tw HR HC Hh Hw) as E. nia.
Qed.

Lemma iter_membership : forall nch nfp R C th tw x y rc cc spr spc sbs ch k o p,
  1 <= R -> 1 <= C -> 1 <= th -> 1 <= tw ->
  (In (ch, k, o, p) (iter_tiled_full nch nfp R C th tw x y rc cc spr spc sbs) <->
   1 <= ch <= nch /\ 1 <= k <= nfp /\ In o (grid R C th tw) /\
   p = pix2ref (V3 x y (inject_Z (k - 1) * sbs)) rc cc spr spc (fst o - 1) (snd o - 1)).
Proof.
  intros nch nfp R C th tw x y rc cc spr spc sbs ch k o p HR HC Hh Hw.
  rewrite iter_tiled_full_gen by lia. rewrite in_iter_gen. unfold iter_pos.
  rewrite in_map_iff. split.
  - intros ((c & <- & Hc) & H). apply in_zrange in Hc. split; [lia|exact H].
  - intros (Hc & H). split; [|exact H]. exists (ch - 1). split; [lia|apply in_zrange; lia].
Qed.

Lemma iter_frame_index : forall nch nfp R C th tw x y rc cc spr spc sbs ch k j o,
  1 <= R -> 1 <= C -> 1 <= th -> 1 <= tw -> 0 <= ch < nch -> 0 <= k < nfp ->
  nth_error (grid R C th tw) j = Some o ->
  nth_error (iter_tiled_full nch nfp R C th tw x y rc cc spr spc sbs)
            ((Z.to_nat ch * Z.to_nat nfp + Z.to_nat k) * length (grid R C th tw) + j) =
  Some (ch + 1, k + 1, o, pix2ref (V3 x y (inject_Z k * sbs)) rc cc spr spc (fst o - 1) (snd o - 1)).
Proof.
  intros nch nfp R C th tw x y rc cc spr spc sbs ch k j o HR HC Hh Hw Hch Hk Hj.
  rewrite iter_tiled_full_gen by lia.
  apply (iter_gen_frame _ nfp (grid R C th tw) (iter_pos x y rc cc spr spc sbs) (Z.to_nat ch) k j (ch + 1) o); auto.
  exact (map_nth_error (fun c => c + 1) (Z.to_nat ch) (zrange nch) (nth_error_zrange nch ch Hch)).
Qed.

(* ---- dataset level --------------------------------------------------------- *)
Definition ds_pos (d : tf_dataset) (k : Z) (o : Z * Z) : vec3 :=
  pix2ref (V3 (ds_x d) (ds_y d) (opt_default 0 (ds_zorigin d) + inject_Z k * opt_default 1 (ds_sbs d))%Q)
          (ds_rc d) (ds_cc d) (ds_spr d) (ds_spc d) (fst o - 1) (snd o - 1).
Definition ds_sizes_ok (d : tf_dataset) : Prop := 1 <= ds_R d /\ 1 <= ds_C d /\ 1 <= ds_th d /\ 1 <= ds_tw d.
Definition ds_grid (d : tf_dataset) : list (Z * Z) := grid (ds_R d) (ds_C d) (ds_th d) (ds_tw d).

Lemma iter_ds_refuses : forall d,
  iter_tiled_full_ds d = Err "ValueError"%string <-> (ds_sop d = SC_OTHER \/ ds_dim_org d <> Some true).
Proof.
  intros d. unfold iter_tiled_full_ds. destruct (ds_sop d); destruct (ds_dim_org d) as [[|]|];
    split; intros H; try reflexivity; try discriminate;
    try (right; discriminate); try (left; reflexivity);
    destruct H as [H|H]; try discriminate; try (exfalso; apply H; reflexivity).
Qed.

Lemma iter_ds_total : forall d, exists r, iter_tiled_full_ds d = r /\
  (r = Err "ValueError"%string \/
   r = Ok (iter_gen (ds_channels d) (opt_default 1%Z (ds_nfp d)) (ds_plane d))).
Proof.
  intros d. eexists. split; [reflexivity|]. unfold iter_tiled_full_ds.
  destruct (ds_sop d); destruct (ds_dim_org d) as [[|]|]; auto.
Qed.

Lemma iter_ds_gen : forall d l, ds_sizes_ok d -> iter_tiled_full_ds d = Ok l ->
  l = iter_gen (ds_channels d) (opt_default 1%Z (ds_nfp d)) (plane_of (ds_grid d) (ds_pos d)).
Proof.
  intros d l (HR & HC & Hh & Hw) H.
  destruct (iter_ds_total d) as (r & Er & [E|E]); rewrite E in Er; rewrite Er in H; [discriminate|].
  inversion H; subst l. apply iter_gen_ext. intros k. unfold ds_plane, plane_of, ds_pos, ds_grid.
  now rewrite tile_positions_plane by lia.
Qed.

Lemma iter_ds_membership : forall d l ch k o p, ds_sizes_ok d -> iter_tiled_full_ds d = Ok l ->
  (In (ch, k, o, p) l <->
   In ch (ds_channels d) /\ 1 <= k <= opt_default 1%Z (ds_nfp d) /\ In o (ds_grid d) /\ p = ds_pos d (k - 1) o).
Proof. intros d l ch k o p Hs H. rewrite (iter_ds_gen d l Hs H). apply in_iter_gen. Qed.

Lemma iter_ds_count : forall d l, ds_sizes_ok d -> iter_tiled_full_ds d = Ok l ->
  length l = (length (ds_channels d) * (Z.to_nat (opt_default 1%Z (ds_nfp d)) * length (ds_grid d)))%nat.
Proof. intros d l Hs H. rewrite (iter_ds_gen d l Hs H). apply length_iter_gen. Qed.

Lemma iter_ds_frame : forall d l i k j ch o, ds_sizes_ok d -> iter_tiled_full_ds d = Ok l ->
  nth_error (ds_channels d) i = Some ch -> 0 <= k < opt_default 1%Z (ds_nfp d) ->
  nth_error (ds_grid d) j = Some o ->
  nth_error l ((i * Z.to_nat (opt_default 1%Z (ds_nfp d)) + Z.to_nat k) * length (ds_grid d) + j)
  = Some (ch, k + 1, o, ds_pos d k o).
Proof. intros d l i k j ch o Hs H. rewrite (iter_ds_gen d l Hs H). apply iter_gen_frame. Qed.

(* channels: None exactly for LABELMAP segmentations, otherwise 1..n *)
Lemma ds_channels_spec : forall d ch, In ch (ds_channels d) <->
  match ds_sop d with
  | SC_SEG | SC_LABELMAP_SEG =>
      if ds_labelmap d then ch = None else exists c, ch = Some c /\ 1 <= c <= ds_nseg d
  | _ => exists c, ch = Some c /\ 1 <= c <= opt_default (ds_len_ops d) (ds_nop d)
  end.
Proof.
  intros d ch. unfold ds_channels.
  assert (G : forall n, In ch (map (fun c => Some (c + 1)) (zrange n)) <-> exists c, ch = Some c /\ 1 <= c <= n).
  { intros n. rewrite in_map_iff. split.
    - intros (c & <- & Hc). apply in_zrange in Hc. exists (c + 1). split; [reflexivity|lia].
    - intros (c & -> & Hc). exists (c - 1). split; [f_equal; lia|apply in_zrange; lia]. }
  destruct (ds_sop d); try apply G; destruct (ds_labelmap d); try apply G;
    cbn [In]; split; intros H; try (destruct H as [H|[]]); auto.
Qed.

(* utils.compute_plane_position_slide_per_frame = the frames of the iterator,
   in the same order, without channel and focal-plane number *)
Lemma slide_per_frame_spec : forall d,
  slide_per_frame d = match iter_tiled_full_ds d with
                      | Ok l => Ok (map (fun t => (snd (fst t), snd t)) l)
                      | Err e => Err e end.
Proof. intros d. unfold slide_per_frame, bind. destruct (iter_tiled_full_ds d); reflexivity. Qed.

Lemma slide_per_frame_frame : forall d l i k j ch o, ds_sizes_ok d -> slide_per_frame d = Ok l ->
  nth_error (ds_channels d) i = Some ch -> 0 <= k < opt_default 1%Z (ds_nfp d) ->
  nth_error (ds_grid d) j = Some o ->
  nth_error l ((i * Z.to_nat (opt_default 1%Z (ds_nfp d)) + Z.to_nat k) * length (ds_grid d) + j)
  = Some (o, ds_pos d k o).
Proof.
  intros d l i k j ch o Hs H Hi Hk Hj. rewrite slide_per_frame_spec in H.
  destruct (iter_tiled_full_ds d) as [l0|e] eqn:E; [|discriminate]. inversion H; subst l.
  erewrite map_nth_error; [|eapply iter_ds_frame; eauto]. reflexivity.
Qed.

Lemma slide_per_frame_count : forall d l, ds_sizes_ok d -> slide_per_frame d = Ok l ->
  length l = (length (ds_channels d) * (Z.to_nat (opt_default 1%Z (ds_nfp d)) * length (ds_grid d)))%nat.
Proof.
  intros d l Hs H. rewrite slide_per_frame_spec in H.
  destruct (iter_tiled_full_ds d) as [l0|e] eqn:E; [|discriminate]. inversion H; subst l.
  rewrite map_length. now apply iter_ds_count.
Qed.

(* ====================================================================== *)
(* 3. shape of a cut tile (so that no cell statement holds by a default)    *)
(* ====================================================================== *)

Lemma in_firstn' : forall {A} n (l : list A) x, In x (firstn n l) -> In x l.
Proof.
  intros A. induction n as [|n IH]; intros [|y l] x H; cbn in H; try contradiction.
  destruct H as [->|H]; [now left|right; now apply IH].
Qed.

Lemma in_slice : forall {A} (l : list A) a b x, In x (slice_list a b l) -> In x l.
Proof.
  intros A l a b x H. unfold slice_list in H. apply in_firstn' in H.
  rewrite <- (firstn_skipn (Z.to_nat a) l). apply in_or_app. now right.
Qed.

Lemma length_pad_right : forall {A} (d : A) n l, length (pad_right d n l) = (length l + Z.to_nat n)%nat.
Proof. intros. unfold pad_right. now rewrite app_length, repeat_length. Qed.

Lemma tile_shape_padded : forall M R C ro co th tw T, wf_matrix M R C -> 0 <= th -> 0 <= tw ->
  get_tile_array M R C ro co th tw true = Ok T -> wf_matrix T th tw.
Proof.
  intros M R C ro co th tw T [HlenM Hrows] Hh Hw. unfold get_tile_array.
  destruct ((ro <? 1) || (R <? ro)) eqn:E1; [discriminate|].
  destruct ((co <? 1) || (C <? co)) eqn:E2; [discriminate|].
  intros E; inversion E; subst T; clear E. split.
  - rewrite length_pad_right, !map_length.
    pose proof (length_slice M (ro - 1) (Z.min (ro - 1 + th) R) ltac:(lia) ltac:(lia)) as L. lia.
  - intros row Hin. unfold pad_right at 1 in Hin. apply in_app_or in Hin as [Hin|Hin].
    + apply in_map_iff in Hin as (r0 & <- & Hr0). apply in_map_iff in Hr0 as (r1 & <- & Hr1).
      apply in_slice in Hr1. apply Hrows in Hr1. rewrite length_pad_right.
      pose proof (length_slice r1 (co - 1) (Z.min (co - 1 + tw) C) ltac:(lia) ltac:(lia)) as L. lia.
    + apply repeat_spec in Hin. subst row. rewrite repeat_length. lia.
Qed.

Lemma tile_shape_unpadded : forall M R C ro co th tw T, wf_matrix M R C -> 0 <= th -> 0 <= tw ->
  get_tile_array M R C ro co th tw false = Ok T ->
  wf_matrix T (Z.min th (R - ro + 1)) (Z.min tw (C - co + 1)).
Proof.
  intros M R C ro co th tw T [HlenM Hrows] Hh Hw. unfold get_tile_array.
  destruct ((ro <? 1) || (R <? ro)) eqn:E1; [discriminate|].
  destruct ((co <? 1) || (C <? co)) eqn:E2; [discriminate|].
  intros E; inversion E; subst T; clear E. split.
  - rewrite map_length. pose proof (length_slice M (ro - 1) (Z.min (ro - 1 + th) R) ltac:(lia) ltac:(lia)) as L. lia.
  - intros row Hin. apply in_map_iff in Hin as (r1 & <- & Hr1). apply in_slice in Hr1. apply Hrows in Hr1.
    pose proof (length_slice r1 (co - 1) (Z.min (co - 1 + tw) C) ltac:(lia) ltac:(lia)) as L. lia.
Qed.

Lemma tile_cell_unpadded : forall M R C ro co th tw a b T, wf_matrix M R C ->
  0 <= a < Z.min th (R - ro + 1) -> 0 <= b < Z.min tw (C - co + 1) ->
  get_tile_array M R C ro co th tw false = Ok T ->
  cell T a b = cell M (ro - 1 + a) (co - 1 + b).
Proof.
  intros M R C ro co th tw a b T [HlenM Hrows] Ha Hb. unfold get_tile_array.
  destruct ((ro <? 1) || (R <? ro)) eqn:E1; [discriminate|].
  destruct ((co <? 1) || (C <? co)) eqn:E2; [discriminate|].
  intros E; inversion E; subst T; clear E. unfold cell.
  rewrite <- (slice_nil (co - 1) (Z.min (co - 1 + tw) C)) at 1. rewrite map_nth.
  rewrite !nth_slice by lia. reflexivity.
Qed.

(* the unpadded tile is the padded one restricted to the matrix *)
Lemma tile_pad_agree : forall M R C ro co th tw a b T T', wf_matrix M R C -> 1 <= th -> 1 <= tw ->
  0 <= a < Z.min th (R - ro + 1) -> 0 <= b < Z.min tw (C - co + 1) ->
  get_tile_array M R C ro co th tw true = Ok T -> get_tile_array M R C ro co th tw false = Ok T' ->
  cell T a b = cell T' a b.
Proof.
  intros M R C ro co th tw a b T T' Hwf Hh Hw Ha Hb HT HT'.
  rewrite (tile_cell M R C ro co th tw a b T Hwf Hh Hw) by (try exact HT; lia).
  rewrite (tile_cell_unpadded M R C ro co th tw a b T' Hwf Ha Hb HT').
  replace ((ro - 1 + a <? R) && (co - 1 + b <? C)) with true by lia. reflexivity.
Qed.

(* ====================================================================== *)
(* 4. cut every tile of the grid, paste them back: the matrix, as a list    *)
(* ====================================================================== *)

Definition in_tile (pr pc th tw r c : Z) : bool :=
  (pr - 1 <=? r) && (r <? pr - 1 + th) && (pc - 1 <=? c) && (c <? pc - 1 + tw).

(* write tile T at 1-based offset (pr, pc) into an R x C buffer; the part of
   the tile outside the buffer is dropped (clipped) *)
Definition paste_one (buf : list (list Z)) (R C pr pc th tw : Z) (T : list (list Z)) : list (list Z) :=
  map (fun r => map (fun c => if in_tile pr pc th tw r c then cell T (r - (pr - 1)) (c - (pc - 1))
                              else cell buf r c) (zrange C)) (zrange R).
Definition zeros (R C : Z) : list (list Z) := repeat (repeat 0 (Z.to_nat C)) (Z.to_nat R).
Definition paste_all (R C th tw : Z) (tiles : list ((Z * Z) * res (list (list Z)))) : list (list Z) :=
  fold_left (fun buf ot => match snd ot with
                           | Ok T => paste_one buf R C (snd (fst ot)) (fst (fst ot)) th tw T
                           | Err _ => buf end) tiles (zeros R C).

Lemma nth_map_zrange : forall {A} (f : Z -> A) n k d, 0 <= k < n -> nth (Z.to_nat k) (map f (zrange n)) d = f k.
Proof.
  intros A f n k d Hk. rewrite nth_indep with (d' := f 0) by (rewrite map_length, length_zrange; lia).
  rewrite map_nth. f_equal. unfold zrange. change 0 with (Z.of_nat 0) at 1. rewrite map_nth.
  rewrite seq_nth by lia. lia.
Qed.

Lemma wf_paste_one : forall buf R C pr pc th tw T, 0 <= R -> 0 <= C ->
  wf_matrix (paste_one buf R C pr pc th tw T) R C.
Proof.
  intros. unfold paste_one. split.
  - rewrite map_length, length_zrange. lia.
  - intros row Hin. apply in_map_iff in Hin as (r & <- & _). rewrite map_length, length_zrange. lia.
Qed.

Lemma cell_paste_one : forall buf R C pr pc th tw T r c, 0 <= r < R -> 0 <= c < C ->
  cell (paste_one buf R C pr pc th tw T) r c =
  if in_tile pr pc th tw r c then cell T (r - (pr - 1)) (c - (pc - 1)) else cell buf r c.
Proof.
  intros buf R C pr pc th tw T r c Hr Hc. unfold cell at 1. unfold paste_one.
  rewrite nth_map_zrange by lia. now rewrite nth_map_zrange by lia.
Qed.

Lemma wf_zeros : forall R C, 0 <= R -> 0 <= C -> wf_matrix (zeros R C) R C.
Proof.
  intros R C HR HC. unfold zeros. split; [rewrite repeat_length; lia|].
  intros row Hin. apply repeat_spec in Hin. subst. rewrite repeat_length. lia.
Qed.

Lemma cell_zeros : forall R C r c, cell (zeros R C) r c = 0.
Proof.
  intros. unfold cell, zeros.
  destruct (nth_in_or_default (Z.to_nat r) (repeat (repeat 0 (Z.to_nat C)) (Z.to_nat R)) []) as [Hi|Hd].
  - apply repeat_spec in Hi. rewrite Hi.
    destruct (nth_in_or_default (Z.to_nat c) (repeat 0 (Z.to_nat C)) 0) as [Hi'|Hd']; [|exact Hd'].
    now apply repeat_spec in Hi'.
  - rewrite Hd. now destruct (Z.to_nat c).
Qed.

Lemma matrix_ext : forall A B R C, wf_matrix A R C -> wf_matrix B R C ->
  (forall r c, 0 <= r < R -> 0 <= c < C -> cell A r c = cell B r c) -> A = B.
Proof.
  intros A B R C [HA HAr] [HB HBr] H. apply (nth_ext A B [] []); [lia|].
  intros n Hn.
  assert (InA : In (nth n A []) A) by (apply nth_In; lia).
  assert (InB : In (nth n B []) B) by (apply nth_In; lia).
  apply (nth_ext _ _ 0 0).
  - pose proof (HAr _ InA). pose proof (HBr _ InB). lia.
  - intros m Hm. pose proof (HAr _ InA) as LA.
    specialize (H (Z.of_nat n) (Z.of_nat m)). unfold cell in H. rewrite !Nat2Z.id in H. apply H; lia.
Qed.

Definition covers (th tw r c : Z) (o : Z * Z) : bool := in_tile (snd o) (fst o) th tw r c.

Lemma paste_fold : forall M R C th tw, wf_matrix M R C -> 1 <= R -> 1 <= C -> 1 <= th -> 1 <= tw ->
  forall (l : list (Z * Z)), (forall o, In o l -> 1 <= snd o <= R /\ 1 <= fst o <= C) ->
  forall buf, wf_matrix buf R C ->
  let buf' := fold_left (fun buf ot => match snd ot with
                           | Ok T => paste_one buf R C (snd (fst ot)) (fst (fst ot)) th tw T
                           | Err _ => buf end)
                 (map (fun o => (o, get_tile_array M R C (snd o) (fst o) th tw true)) l) buf in
  wf_matrix buf' R C /\
  forall r c, 0 <= r < R -> 0 <= c < C ->
    cell buf' r c = if existsb (covers th tw r c) l then cell M r c else cell buf r c.
Proof.
  intros M R C th tw Hwf HR HC Hh Hw. induction l as [|o l IH]; intros Hval buf Hbuf; cbn [map fold_left existsb];
    [|specialize (IH (fun o' H => Hval o' (or_intror H))); pose proof (Hval o (or_introl eq_refl)) as Ho].
  - split; [assumption|reflexivity].
  - cbn [fst snd]. destruct (get_tile_array M R C (snd o) (fst o) th tw true) as [T|e] eqn:ET.
    + specialize (IH (paste_one buf R C (snd o) (fst o) th tw T) (wf_paste_one buf R C (snd o) (fst o) th tw T ltac:(lia) ltac:(lia))).
      cbv zeta in IH. destruct IH as [IHw IHc]. split; [exact IHw|].
      intros r c Hr Hc. rewrite (IHc r c Hr Hc). rewrite cell_paste_one by lia. unfold covers at 2.
      destruct (existsb (covers th tw r c) l); [now rewrite orb_true_r|]. rewrite orb_false_r.
      destruct (in_tile (snd o) (fst o) th tw r c) eqn:Ein; [|reflexivity].
      unfold in_tile in Ein.
      rewrite (tile_cell M R C (snd o) (fst o) th tw _ _ T Hwf Hh Hw) by (try exact ET; lia).
      replace (snd o - 1 + (r - (snd o - 1))) with r by lia.
      replace (fst o - 1 + (c - (fst o - 1))) with c by lia.
      replace ((r <? R) && (c <? C)) with true by lia. reflexivity.
    + specialize (IH buf Hbuf). cbv zeta in IH. destruct IH as [IHw IHc]. split; [exact IHw|].
      intros r c Hr Hc. rewrite (IHc r c Hr Hc). unfold covers at 2.
      destruct (existsb (covers th tw r c) l); [now rewrite orb_true_r|]. rewrite orb_false_r.
      assert (G : snd o < 1 \/ R < snd o \/ fst o < 1 \/ C < fst o).
      { unfold get_tile_array in ET. destruct ((snd o <? 1) || (R <? snd o)) eqn:G1; [lia|].
        destruct ((fst o <? 1) || (C <? fst o)) eqn:G2; [lia|]. discriminate. }
      lia.
Qed.

(* CUT-AND-PASTE ROUND TRIP: cutting the matrix into the tiles of the grid
   (padded) and pasting them at their offsets, clipped to the matrix,
   reproduces the matrix - as an identity of lists of rows. *)
Lemma cut_paste_roundtrip : forall M R C th tw, wf_matrix M R C -> 1 <= R -> 1 <= C -> 1 <= th -> 1 <= tw ->
  paste_all R C th tw (cut_all M R C th tw true) = M.
Proof.
  intros M R C th tw Hwf HR HC Hh Hw. unfold paste_all, cut_all.
  rewrite tile_offsets_is_grid by lia.
  destruct (paste_fold M R C th tw Hwf HR HC Hh Hw (grid R C th tw)
             (fun o Ho => grid_offsets_in_matrix R C th tw (fst o) (snd o) HR HC Hh Hw
                            ltac:(now destruct o))
             (zeros R C) (wf_zeros R C ltac:(lia) ltac:(lia)))
    as [Hw' Hc'].
  apply (matrix_ext _ _ R C Hw' Hwf). intros r c Hr Hc. rewrite (Hc' r c Hr Hc).
  replace (existsb (covers th tw r c) (grid R C th tw)) with true; [reflexivity|].
  symmetry. apply existsb_exists. exists (tile_of tw (c + 1), tile_of th (r + 1)).
  destruct (cover_exists R C th tw (r + 1) (c + 1) Hh Hw ltac:(lia) ltac:(lia)) as [Hin Hb].
  split; [exact Hin|]. unfold covers, in_tile. cbn [fst snd]. lia.
Qed.

(* every cut of cut_all succeeds, has the tile shape, and sits at a grid offset *)
Lemma cut_all_tiles : forall M R C th tw o t, wf_matrix M R C -> 1 <= R -> 1 <= C -> 1 <= th -> 1 <= tw ->
  In (o, t) (cut_all M R C th tw true) ->
  In o (grid R C th tw) /\ exists T, t = Ok T /\ wf_matrix T th tw.
Proof.
  intros M R C th tw o t Hwf HR HC Hh Hw Hin. unfold cut_all in Hin. rewrite tile_offsets_is_grid in Hin by lia.
  apply in_map_iff in Hin as (o' & E & Ho). inversion E; subst. split; [assumption|].
  destruct o as [pc pr]. destruct (tile_array_accepts_grid M R C th tw pc pr HR HC Hh Hw Ho) as [T HT].
  exists T. cbn [fst snd]. split; [exact HT|]. eapply tile_shape_padded; eauto; lia.
Qed.

(* ====================================================================== *)
(* 5. the affine-matrix form of the pixel-to-reference transform           *)
(* ====================================================================== *)

Definition veq (a b : vec3) : Prop := (vx a == vx b /\ vy a == vy b /\ vz a == vz b)%Q.

(* PixelToReferenceTransformer multiplies the 4 x 4 affine matrix with
   (c, r, 0, 1); the first three components are the affine formula pix2ref *)
Lemma affine_is_pix2ref : forall pos rc cc spr spc c r,
  veq (affine_apply (affine_matrix pos rc cc spr spc) c r) (pix2ref pos rc cc spr spc c r).
Proof.
  intros [px py pz] [r1 r2 r3] [c1 c2 c3] spr spc c r.
  unfold veq, affine_apply, affine_matrix, pix2ref, dotq, vadd, vscale.
  cbn [nth combine map fold_left fst snd vx vy vz]. repeat split; ring.
Qed.

(* the matrix has the documented layout: last row (0,0,0,1), 4 x 4 *)
Lemma affine_shape : forall pos rc cc spr spc,
  length (affine_matrix pos rc cc spr spc) = 4%nat /\
  (forall row, In row (affine_matrix pos rc cc spr spc) -> length row = 4%nat) /\
  nth 3 (affine_matrix pos rc cc spr spc) [] = [0; 0; 0; 1]%Q.
Proof.
  intros. unfold affine_matrix. cbn [length nth]. repeat split.
  intros row [<-|[<-|[<-|[<-|[]]]]]; reflexivity.
Qed.

(* ====================================================================== *)
(* 6. guards of the checked entry points; the single-tile helper in 3-D     *)
(* ====================================================================== *)

Lemma bad_spacing_iff : forall spr spc, bad_spacing spr spc = false <-> (0 < spr /\ 0 < spc)%Q.
Proof.
  intros. unfold bad_spacing. rewrite orb_false_iff. split.
  - intros [H1 H2]. split; apply Qnot_le_lt; intros H; apply Qle_bool_iff in H; congruence.
  - intros [H1 H2]. split; apply not_true_is_false; intros H; apply Qle_bool_iff in H;
      [apply (Qlt_not_le _ _ H1)|apply (Qlt_not_le _ _ H2)]; exact H.
Qed.

Lemma tile_positions_chk_ok : forall npos nori nsp R C th tw pos rc cc spr spc l,
  tile_positions_chk npos nori nsp R C th tw pos rc cc spr spc = Ok l <->
  (npos = 3 /\ nori = 6 /\ nsp = 2 /\ th <> 0 /\ tw <> 0 /\ (0 < spr /\ 0 < spc)%Q /\
   l = tile_positions R C th tw pos rc cc spr spc).
Proof.
  intros. unfold tile_positions_chk. rewrite <- bad_spacing_iff.
  destruct (npos =? 3) eqn:E1; cbn [negb]; [|split; [discriminate|lia]].
  destruct (nori =? 6) eqn:E2; cbn [negb]; [|split; [discriminate|lia]].
  destruct (nsp =? 2) eqn:E3; cbn [negb]; [|split; [discriminate|lia]].
  destruct ((tw =? 0) || (th =? 0)) eqn:E4; [split; [discriminate|lia]|].
  destruct (bad_spacing spr spc) eqn:E5; [split; [discriminate|intros (_ & _ & _ & _ & _ & H & _); discriminate]|].
  split.
  - intros H; inversion H. repeat split; lia.
  - intros (_ & _ & _ & _ & _ & _ & ->). reflexivity.
Qed.

Lemma tile_positions_chk_errors : forall npos nori nsp R C th tw pos rc cc spr spc,
  (tile_positions_chk npos nori nsp R C th tw pos rc cc spr spc = Err "ZeroDivisionError"%string <->
   npos = 3 /\ nori = 6 /\ nsp = 2 /\ (th = 0 \/ tw = 0)) /\
  (tile_positions_chk npos nori nsp R C th tw pos rc cc spr spc = Err "ValueError"%string <->
   npos <> 3 \/ nori <> 6 \/ nsp <> 2 \/ (th <> 0 /\ tw <> 0 /\ bad_spacing spr spc = true)).
Proof.
  intros. unfold tile_positions_chk.
  destruct (npos =? 3) eqn:E1; cbn [negb]; [|split; split; try discriminate; try lia; intros _; reflexivity].
  destruct (nori =? 6) eqn:E2; cbn [negb]; [|split; split; try discriminate; try lia; intros _; reflexivity].
  destruct (nsp =? 2) eqn:E3; cbn [negb]; [|split; split; try discriminate; try lia; intros _; reflexivity].
  destruct ((tw =? 0) || (th =? 0)) eqn:E4.
  - split; split; try discriminate; try lia. reflexivity.
  - destruct (bad_spacing spr spc) eqn:E5; split; split; try discriminate; try lia; try reflexivity.
    all: try (intros _; right; right; right; repeat split; try lia; reflexivity).
    all: try (intros [H|[H|[H|(_ & _ & H)]]]; try lia; discriminate).
Qed.

Lemma plane_position2_errors : forall ri ci x y th tw rc cc spr spc sidx sbs,
  (plane_position_tiled_full2 ri ci x y th tw rc cc spr spc sidx sbs = Err "TypeError"%string <->
   1 <= ri /\ 1 <= ci /\ ((sidx = None /\ sbs <> None) \/ (sidx <> None /\ sbs = None))) /\
  (plane_position_tiled_full2 ri ci x y th tw rc cc spr spc sidx sbs = Err "ValueError"%string <->
   ri < 1 \/ ci < 1 \/ (((sidx = None /\ sbs = None) \/ (sidx <> None /\ sbs <> None)) /\ bad_spacing spr spc = true)).
Proof.
  intros. unfold plane_position_tiled_full2, plane_position_tiled_full.
  destruct ((ri <? 1) || (ci <? 1)) eqn:E1.
  - split; split; try discriminate; try lia. reflexivity.
  - destruct sidx as [k|], sbs as [s|]; try destruct (bad_spacing spr spc) eqn:E5;
      split; split; try discriminate; try reflexivity; intros H.
    all: try (right; right; split; [|reflexivity]; right; split; discriminate).
    all: try (right; right; split; [|reflexivity]; left; split; reflexivity).
    all: try (repeat split; try lia; (left; split; [reflexivity|discriminate]) || (right; split; [discriminate|reflexivity])).
    all: try (destruct H as (_ & _ & [[H1 H2]|[H1 H2]]); congruence).
    all: try (destruct H as [H|[H|([[H1 H2]|[H1 H2]] & H3)]]; try lia; try congruence; try discriminate).
Qed.

Lemma plane_position2_ok : forall ri ci x y th tw rc cc spr spc k s,
  1 <= ri -> 1 <= ci -> bad_spacing spr spc = false ->
  plane_position_tiled_full2 ri ci x y th tw rc cc spr spc (Some k) (Some s) =
    plane_position_tiled_full ri ci x y th tw rc cc spr spc (Some (k, s)) /\
  plane_position_tiled_full2 ri ci x y th tw rc cc spr spc None None =
    plane_position_tiled_full ri ci x y th tw rc cc spr spc None.
Proof.
  intros ri ci x y th tw rc cc spr spc k s Hr Hc Hb. unfold plane_position_tiled_full2.
  replace ((ri <? 1) || (ci <? 1)) with false by lia. now rewrite Hb.
Qed.

(* the single-tile helper with a focal plane agrees with the per-frame data:
   the helper called with the 1-based (row index, column index, plane) of a
   frame returns exactly that frame's offset and position *)
Lemma plane_position_agrees_iter : forall nch nfp R C th tw x y rc cc spr spc sbs ch k a b,
  1 <= R -> 1 <= C -> 1 <= th -> 1 <= tw -> 1 <= ch <= nch -> 1 <= k <= nfp ->
  0 <= a < cdiv R th -> 0 <= b < cdiv C tw ->
  exists o p, plane_position_tiled_full (a + 1) (b + 1) x y th tw rc cc spr spc (Some (k, sbs)) = Ok (o, p) /\
              o = (b * tw + 1, a * th + 1) /\
              In (ch, k, o, p) (iter_tiled_full nch nfp R C th tw x y rc cc spr spc sbs).
Proof.
  intros nch nfp R C th tw x y rc cc spr spc sbs ch k a b HR HC Hh Hw Hch Hk Ha Hb.
  unfold plane_position_tiled_full. replace ((a + 1 <? 1) || (b + 1 <? 1)) with false by lia.
  eexists. eexists. split; [reflexivity|].
  replace ((b + 1 - 1) * tw) with (b * tw) by lia. replace ((a + 1 - 1) * th) with (a * th) by lia.
  split; [reflexivity|]. apply iter_membership; try lia. repeat split; try lia.
  - apply in_grid. exists a, b. lia.
  - cbn [fst snd]. f_equal; lia.
Qed.

(* conversely every frame of the per-frame data is what the helper returns *)
Lemma iter_frames_from_helper : forall nch nfp R C th tw x y rc cc spr spc sbs ch k o p,
  1 <= R -> 1 <= C -> 1 <= th -> 1 <= tw ->
  In (ch, k, o, p) (iter_tiled_full nch nfp R C th tw x y rc cc spr spc sbs) ->
  exists a b, 0 <= a < cdiv R th /\ 0 <= b < cdiv C tw /\
    plane_position_tiled_full (a + 1) (b + 1) x y th tw rc cc spr spc (Some (k, sbs)) = Ok (o, p).
Proof.
  intros nch nfp R C th tw x y rc cc spr spc sbs ch k o p HR HC Hh Hw Hin.
  apply iter_membership in Hin; try lia. destruct Hin as (_ & _ & Ho & ->). destruct o as [pc pr].
  apply in_grid in Ho as (a & b & Ha & Hb & -> & ->). exists a, b. repeat split; try lia.
  unfold plane_position_tiled_full. replace ((a + 1 <? 1) || (b + 1 <? 1)) with false by lia.
  cbn [fst snd]. replace ((b + 1 - 1) * tw) with (b * tw) by lia. replace ((a + 1 - 1) * th) with (a * th) by lia.
  f_equal. f_equal. f_equal; lia.
Qed.

(* ====================================================================== *)
(* 7. the property sentence as one theorem                                  *)
(* ====================================================================== *)

Lemma cover_exactly_once : forall R C th tw r c, 1 <= th -> 1 <= tw -> 1 <= r <= R -> 1 <= c <= C ->
  exists! o, In o (grid R C th tw) /\ snd o <= r < snd o + th /\ fst o <= c < fst o + tw.
Proof.
  intros R C th tw r c Hh Hw Hr Hc. exists (tile_of tw c, tile_of th r). split.
  - destruct (cover_exists R C th tw r c Hh Hw Hr Hc) as (Hin & H1 & H2). cbn [fst snd]. auto.
  - intros [pc pr] (Hin & H1 & H2). cbn [fst snd] in *.
    destruct (cover_unique R C th tw r c pc pr Hh Hw Hin H1 H2) as [-> ->]. reflexivity.
Qed.

Lemma one_tiling : forall R C th tw nch nfp x y rc cc spr spc sbs M,
  1 <= R -> 1 <= C -> 1 <= th -> 1 <= tw -> 0 <= nch -> 0 <= nfp -> wf_matrix M R C ->
  (* every helper enumerates the same list G = grid R C th tw ... *)
  tile_offsets R C th tw = grid R C th tw /\
  map (fun t => ((fst t - 1) * tw + 1, (snd t - 1) * th + 1)) (tile_pixel_matrix R C th tw) = grid R C th tw /\
  map fst (tile_positions R C th tw (V3 x y 0) rc cc spr spc) = grid R C th tw /\
  iter_tiled_full nch nfp R C th tw x y rc cc spr spc sbs =
    flat_map (fun ch => flat_map (fun k =>
      map (fun o => (ch + 1, k + 1, o, pix2ref (V3 x y (inject_Z k * sbs)) rc cc spr spc (fst o - 1) (snd o - 1)))
          (grid R C th tw)) (zrange nfp)) (zrange nch) /\
  (forall ps, (are_tiled_full ps th tw = true /\ max_from (-1) (map fst ps) = last_off R th /\
               max_from (-1) (map snd ps) = last_off C tw) <-> ps = map swap (grid R C th tw)) /\
  (* ... which is the row-major list of the multiples of the tile size, ... *)
  (forall pc pr, In (pc, pr) (grid R C th tw) <->
     exists a b, 0 <= a < cdiv R th /\ 0 <= b < cdiv C tw /\ pc = b * tw + 1 /\ pr = a * th + 1) /\
  NoDup (grid R C th tw) /\
  (* ... numbers ceil x ceil per channel and focal plane, ... *)
  Z.of_nat (length (grid R C th tw)) = cdiv R th * cdiv C tw /\
  Z.of_nat (length (iter_tiled_full nch nfp R C th tw x y rc cc spr spc sbs)) = nch * nfp * (cdiv R th * cdiv C tw) /\
  (* ... covers every pixel exactly once, ... *)
  (forall r c, 1 <= r <= R -> 1 <= c <= C ->
     exists! o, In o (grid R C th tw) /\ snd o <= r < snd o + th /\ fst o <= c < fst o + tw) /\
  (* ... each position is the transform of its offset, ... *)
  (forall pos o p, In (o, p) (tile_positions R C th tw pos rc cc spr spc) ->
     p = pix2ref pos rc cc spr spc (fst o - 1) (snd o - 1)) /\
  (* ... and cutting into padded tiles and pasting back is the identity. *)
  paste_all R C th tw (cut_all M R C th tw true) = M /\
  (forall o t, In (o, t) (cut_all M R C th tw true) -> exists T, t = Ok T /\ wf_matrix T th tw).
Proof.
  intros R C th tw nch nfp x y rc cc spr spc sbs M HR HC Hh Hw Hc Hf Hwf.
  split; [apply tile_offsets_is_grid; lia|].
  split; [apply tile_pixel_matrix_is_grid|].
  split; [rewrite positions_offsets; apply tile_offsets_is_grid; lia|].
  split; [apply iter_structure; lia|].
  split; [intros ps; rewrite swap_grid; apply tiled_full_grid_iff; lia|].
  split; [apply in_grid|].
  split; [apply grid_NoDup; lia|].
  split; [apply grid_count; lia|].
  split; [apply iter_count; lia|].
  split; [intros r c Hr Hcc; apply cover_exactly_once; lia|].
  split; [intros pos o p Hin; now apply positions_are_transforms in Hin|].
  split; [apply cut_paste_roundtrip; auto|].
  intros o t Hin. now apply (cut_all_tiles M R C th tw o t Hwf HR HC Hh Hw) in Hin.
Qed.

(* ====================================================================== *)
(* 8. concrete instances (non-vacuity)                                      *)
(* ====================================================================== *)
Definition exM : list (list Z) := [[1;2;3];[4;5;6];[7;8;9];[10;11;12];[13;14;15]].

Lemma ex_roundtrip : wf_matrix exM 5 3 /\
  map fst (cut_all exM 5 3 2 2 true) = [(1,1);(3,1);(1,3);(3,3);(1,5);(3,5)] /\
  nth 5 (map snd (cut_all exM 5 3 2 2 true)) (Err "") = Ok [[15;0];[0;0]] /\
  paste_all 5 3 2 2 (cut_all exM 5 3 2 2 true) = exM.
Proof.
  split; [split; [reflexivity|intros row H; repeat (destruct H as [<-|H]; [reflexivity|]); contradiction]|].
  repeat split; reflexivity.
Qed.

Lemma ex_tiled_full :
  are_tiled_full [(1,1);(1,3);(3,1);(3,3);(5,1);(5,3)] 2 2 = true /\
  [(1,1);(1,3);(3,1);(3,3);(5,1);(5,3)] = map swap (grid 5 3 2 2) /\
  are_tiled_full [(1,1);(3,1);(1,3);(3,3);(5,1);(5,3)] 2 2 = false /\
  are_tiled_full [(1,1);(1,3);(3,3);(5,1);(5,3)] 2 2 = false /\
  are_tiled_full [(1,1);(1,3);(3,1);(3,3);(5,1)] 2 2 = false.
Proof. repeat split; reflexivity. Qed.

Lemma ex_iter :
  map (fun t => match t with (ch, k, o, _) => (ch, k, o) end)
      (iter_tiled_full 2 2 3 3 2 2 0 0 (V3 1 0 0) (V3 0 1 0) 1 1 1) =
  [(1,1,(1,1));(1,1,(3,1));(1,1,(1,3));(1,1,(3,3)); (1,2,(1,1));(1,2,(3,1));(1,2,(1,3));(1,2,(3,3));
   (2,1,(1,1));(2,1,(3,1));(2,1,(1,3));(2,1,(3,3)); (2,2,(1,1));(2,2,(3,1));(2,2,(1,3));(2,2,(3,3))].
Proof. reflexivity. Qed.

Definition exD (sop : sopclass) (lm : bool) : tf_dataset :=
  TFD sop (Some true) None lm 3 None 2 None (Some (5 # 2)) 3 3 2 2 0 0 (V3 1 0 0) (V3 0 1 0) 1 1.
Lemma ex_ds :
  ds_sizes_ok (exD SC_WSI false) /\
  (exists l, iter_tiled_full_ds (exD SC_WSI false) = Ok l /\ length l = 8%nat) /\
  (exists l, iter_tiled_full_ds (exD SC_LABELMAP_SEG true) = Ok l /\ map (fun t => fst (fst (fst t))) l = [None; None; None; None]) /\
  (exists l, iter_tiled_full_ds (exD SC_SEG false) = Ok l /\ length l = 12%nat) /\
  iter_tiled_full_ds (exD SC_OTHER false) = Err "ValueError"%string.
Proof.
  split; [unfold ds_sizes_ok; cbn; lia|].
  split; [eexists; split; reflexivity|]. split; [eexists; split; reflexivity|].
  split; [eexists; split; reflexivity|reflexivity].
Qed.

(* ====================================================================== *)
(* 9. the statement-by-statement model of the full-tiling test refines to   *)
(*    the abstract one                                                      *)
(* ====================================================================== *)
Lemma scan_max_spec : forall ps mr mc,
  scan_max ps mr mc = (max_from mr (map fst ps), max_from mc (map snd ps)).
Proof.
  unfold max_from. induction ps as [|[r c] ps IH]; intros mr mc; cbn [scan_max map fold_left fst snd]; [reflexivity|].
  rewrite IH. f_equal; f_equal.
  - destruct (mr <? r) eqn:E; lia.
  - destruct (mc <? c) eqn:E; lia.
Qed.

Lemma list_eqb_zip : forall e ps,
  list_eqb e ps = Nat.eqb (length e) (length ps) && zip_all_eq e ps.
Proof.
  induction e as [|[re ce] e IH]; intros [|[r c] ps]; cbn [list_eqb length Nat.eqb zip_all_eq andb]; try reflexivity.
  rewrite IH. unfold pair_eqb. cbn [fst snd]. rewrite (Z.eqb_sym r re), (Z.eqb_sym c ce).
  destruct (re =? r); destruct (ce =? c); cbn [negb orb andb]; try reflexivity;
    now rewrite ?andb_false_r.
Qed.

Lemma tiled_full_code_refines : forall ps th tw, are_tiled_full_code ps th tw = are_tiled_full ps th tw.
Proof.
  intros. unfold are_tiled_full_code, are_tiled_full. rewrite scan_max_spec, list_eqb_zip.
  destruct (Nat.eqb _ _); reflexivity.
Qed.
