(* C09 - proofs *)
From Coq Require Import String ZArith List Bool Lia ZifyBool QArith Qabs Qround Qfield Lqa.
From HD Require Import Base.Val Base.PySlice C09_Model.
Import ListNotations.
Ltac Zify.zify_post_hook ::= Z.to_euclidean_division_equations.
Open Scope Z_scope.

(* ---- geometry_equal ------------------------------------------------------ *)
Definition for_conflicting (a b : option Z) : Prop := exists u v, a = Some u /\ b = Some v /\ u <> v.

Lemma for_conflict_iff : forall a b, for_conflict a b = true <-> for_conflicting a b.
Proof.
  intros [u|] [v|]; cbn; split; intros H; try discriminate;
    try (destruct H as (x & y & H1 & H2 & _); discriminate).
  - exists u, v. repeat split; auto. intros ->. rewrite Z.eqb_refl in H. discriminate.
  - destruct H as (x & y & H1 & H2 & H3). inversion H1; inversion H2; subst.
    destruct (x =? y) eqn:E; [apply Z.eqb_eq in E; contradiction|reflexivity].
Qed.

Lemma shape_eqb_iff : forall a b, shape_eqb a b = true <-> a = b.
Proof.
  intros [a0 a1 a2] [b0 b1 b2]; unfold shape_eqb; cbn [p0 p1 p2]. split.
  - intros H. apply andb_true_iff in H as [H H2]. apply andb_true_iff in H as [H0 H1].
    apply Z.eqb_eq in H0, H1, H2. now subst.
  - intros H. inversion H. now rewrite !Z.eqb_refl.
Qed.

Theorem geometry_equal_iff : forall tol g h,
  geometry_equal tol g h = true <->
  (g_shape g = g_shape h /\ g_cs g = g_cs h /\ affine_close tol g h = true /\
   ~ for_conflicting (g_for g) (g_for h)).
Proof.
  intros tol g h. unfold geometry_equal.
  destruct (for_conflict (g_for g) (g_for h)) eqn:EF.
  - split; [discriminate|]. intros (_ & _ & _ & H). exfalso. apply H. now apply for_conflict_iff.
  - assert (NF : ~ for_conflicting (g_for g) (g_for h)).
    { intros H. apply for_conflict_iff in H. congruence. }
    destruct (shape_eqb (g_shape g) (g_shape h)) eqn:ES; cbn [negb].
    + apply shape_eqb_iff in ES.
      destruct (g_cs g =? g_cs h) eqn:EC; cbn [negb].
      * apply Z.eqb_eq in EC. tauto.
      * apply Z.eqb_neq in EC. split; [discriminate|]. intros (_ & H & _). contradiction.
    + split; [discriminate|]. intros (H & _). apply shape_eqb_iff in H. congruence.
Qed.

(* ---- rounding -------------------------------------------------------------- *)
Lemma Qabs'_nonneg : forall q, (0 <= Qabs' q)%Q.
Proof.
  intros q. unfold Qabs'. destruct (Qle_bool 0 q) eqn:E.
  - now apply Qle_bool_iff.
  - assert (~ (0 <= q)%Q) by (intros H; apply Qle_bool_iff in H; congruence). lra.
Qed.

Lemma Qabs'_zero : forall q, (q == 0)%Q -> (Qabs' q == 0)%Q.
Proof. intros q H. unfold Qabs'. destruct (Qle_bool 0 q); lra. Qed.

Lemma Qltb_false_le : forall a b, Qltb a b = false <-> (b <= a)%Q.
Proof.
  intros a b. unfold Qltb. destruct (Qle_bool b a) eqn:E; cbn [negb].
  - apply Qle_bool_iff in E. tauto.
  - split; [discriminate|]. intros H. apply Qle_bool_iff in H. congruence.
Qed.
Lemma Qltb_true_lt : forall a b, Qltb a b = true <-> (a < b)%Q.
Proof.
  intros a b. unfold Qltb. destruct (Qle_bool b a) eqn:E; cbn [negb].
  - apply Qle_bool_iff in E. split; [discriminate|]. lra.
  - split; [|reflexivity]. intros _.
    assert (~ (b <= a)%Q) by (intros H; apply Qle_bool_iff in H; congruence). lra.
Qed.

Lemma rne_inject : forall z, rne (inject_Z z) = z.
Proof.
  intros z. unfold rne. rewrite Qfloor_Z.
  assert (E : (inject_Z z - inject_Z z ?= 1 # 2)%Q = Lt).
  { apply Qlt_alt. assert (H : (inject_Z z - inject_Z z == 0)%Q) by ring. rewrite H. reflexivity. }
  now rewrite E.
Qed.

Lemma rne_eq_compat : forall q z, (q == inject_Z z)%Q -> rne q = z.
Proof.
  intros q z H. unfold rne.
  assert (F : Qfloor q = z). { rewrite H. apply Qfloor_Z. }
  rewrite F.
  assert (E : (q - inject_Z z ?= 1 # 2)%Q = Lt).
  { apply Qlt_alt. assert (H0 : (q - inject_Z z == 0)%Q) by (rewrite H; ring). rewrite H0. reflexivity. }
  now rewrite E.
Qed.

(* ---- one axis: the pad/crop plan realises exactly the target grid ------------- *)
Definition plan_of (a k m n : Z) : axplan :=
  let e := a + m * k in
  if 0 <? k then
    let pb := Z.max (- a) 0 in
    AxPlan pb (Z.max (e - n) 0) (a + pb) (Some (e + pb)) k ((0 <? a + pb) || (e <? n) || (1 <? k))
  else
    let pb := Z.max (- e - 1) 0 in
    AxPlan pb (Z.max (a - n + 1) 0) (a + pb) (if e + pb =? -1 then None else Some (e + pb)) k true.

Lemma axis_plan_cases : forall tol si k m n,
  axis_plan tol si k m n =
  if Qltb tol (Qabs' (inject_Z (rne si) - si)) then Err RT else Ok (plan_of (rne si) k m n).
Proof.
  intros. unfold axis_plan, plan_of. cbv zeta.
  destruct (Qltb tol (Qabs' (inject_Z (rne si) - si))); [reflexivity|].
  destruct (0 <? k); reflexivity.
Qed.

Lemma axis_plan_exact : forall tol a k m n, (0 <= tol)%Q ->
  axis_plan tol (inject_Z a) k m n = Ok (plan_of a k m n).
Proof.
  intros tol a k m n Ht. rewrite axis_plan_cases, rne_inject.
  assert (E : Qltb tol (Qabs' (inject_Z a - inject_Z a)) = false).
  { apply Qltb_false_le. rewrite Qabs'_zero by lra. exact Ht. }
  now rewrite E.
Qed.

Lemma apply_plan_crop : forall n m a k, 0 < n -> 0 < m -> k <> 0 ->
  apply_plan true n (plan_of a k m n) = Ok (AxRes m a k).
Proof.
  intros n m a k Hn Hm Hk. unfold apply_plan, plan_of. cbv zeta.
  destruct (0 <? k) eqn:Ek; cbn [pl_pb pl_pa pl_start pl_stop pl_step].
  - assert (0 < k) by lia. assert (k <= m * k) by nia.
    unfold getitem_axis.
    replace ((a + Z.max (- a) 0 <? - (n + Z.max (- a) 0 + Z.max (a + m * k - n) 0)) ||
             (n + Z.max (- a) 0 + Z.max (a + m * k - n) 0 <=? a + Z.max (- a) 0)) with false by lia.
    replace ((a + m * k + Z.max (- a) 0 <? - (n + Z.max (- a) 0 + Z.max (a + m * k - n) 0) - 1) ||
             (n + Z.max (- a) 0 + Z.max (a + m * k - n) 0 <? a + m * k + Z.max (- a) 0)) with false by lia.
    replace (k =? 0) with false by lia.
    unfold slice_indices. replace (k <? 0) with false by lia. unfold clamp_idx.
    replace (a + Z.max (- a) 0 <? 0) with false by lia.
    replace (n + Z.max (- a) 0 + Z.max (a + m * k - n) 0 <? a + Z.max (- a) 0) with false by lia.
    replace (a + m * k + Z.max (- a) 0 <? 0) with false by lia.
    replace (n + Z.max (- a) 0 + Z.max (a + m * k - n) 0 <? a + m * k + Z.max (- a) 0) with false by lia.
    unfold hd_size.
    replace (a + m * k + Z.max (- a) 0 - (a + Z.max (- a) 0)) with (m * k) by lia.
    replace (m * k =? 0) with false by nia.
    replace (m * k <? 0) with false by nia. replace (k <? 0) with false by lia. cbn [Bool.eqb negb orb].
    rewrite (Z.abs_eq (m * k)) by nia. rewrite (Z.abs_eq k) by lia.
    replace (m * k - 1) with ((k - 1) + (m - 1) * k) by lia.
    rewrite Z.div_add by lia. rewrite Z.div_small by lia.
    f_equal. f_equal; lia.
  - assert (k < 0) by lia. assert (m * k <= k) by nia.
    set (e := a + m * k) in *. set (pb := Z.max (- e - 1) 0). set (pa := Z.max (a - n + 1) 0).
    unfold getitem_axis.
    replace ((a + pb <? - (n + pb + pa)) || (n + pb + pa <=? a + pb)) with false by lia.
    assert (Hstop : match (if e + pb =? -1 then None else Some (e + pb)) with
                    | Some s => (s <? - (n + pb + pa) - 1) || (n + pb + pa <? s) | None => false end = false).
    { destruct (e + pb =? -1) eqn:E; [reflexivity|]. lia. }
    rewrite Hstop. replace (k =? 0) with false by lia.
    unfold slice_indices. replace (k <? 0) with true by lia. unfold clamp_idx.
    replace (a + pb <? 0) with false by lia.
    replace (n + pb + pa - 1 <? a + pb) with false by lia.
    assert (Hl : match (if e + pb =? -1 then None else Some (e + pb)) with
                 | Some x => if x <? 0 then if x + (n + pb + pa) <? -1 then -1 else x + (n + pb + pa)
                             else if n + pb + pa - 1 <? x then n + pb + pa - 1 else x
                 | None => -1 end = e + pb).
    { destruct (e + pb =? -1) eqn:E; [lia|].
      replace (e + pb <? 0) with false by lia. replace (n + pb + pa - 1 <? e + pb) with false by lia.
      reflexivity. }
    rewrite Hl. unfold hd_size.
    replace (e + pb - (a + pb)) with (m * k) by lia.
    replace (m * k =? 0) with false by nia.
    replace (m * k <? 0) with true by nia. replace (k <? 0) with true by lia. cbn [Bool.eqb negb orb].
    rewrite (Z.abs_neq (m * k)) by nia. rewrite (Z.abs_neq k) by lia.
    replace (- (m * k) - 1) with ((- k - 1) + (m - 1) * (- k)) by lia.
    rewrite Z.div_add by lia. rewrite Z.div_small by lia.
    f_equal. f_equal; lia.
Qed.

Lemma apply_plan_nocrop : forall n m a k, 0 < n -> 0 < m ->
  pl_crop (plan_of a k m n) = false ->
  apply_plan false n (plan_of a k m n) = Ok (AxRes m a k) /\ k = 1.
Proof.
  intros n m a k Hn Hm. unfold apply_plan, plan_of. cbv zeta.
  destruct (0 <? k) eqn:Ek; cbn [pl_pb pl_pa pl_start pl_stop pl_step pl_crop]; [|discriminate].
  intros Hc. assert (k = 1) by lia. subst k. split; [|reflexivity].
  f_equal. f_equal; lia.
Qed.

Lemma apply_plan_zero_step : forall n m a, apply_plan true n (plan_of a 0 m n) = Err VE.
Proof.
  intros. unfold apply_plan, plan_of. cbv zeta. cbn [Z.ltb Z.compare pl_pb pl_pa pl_start pl_stop pl_step].
  unfold getitem_axis.
  destruct ((_ <? _) || (_ <=? _)); [reflexivity|].
  destruct (match _ with Some s => _ | None => false end); reflexivity.
Qed.

(* the heart of the matter: along one axis the result has the target's size and its voxel j
   holds source voxel a + k*j when that lies inside the source and padding otherwise *)
Theorem axis_match_1d : forall tol n m a k c, (0 <= tol)%Q -> 0 < n -> 0 < m -> k <> 0 ->
  (c = true \/ pl_crop (plan_of a k m n) = false) ->
  exists p, axis_plan tol (inject_Z a) k m n = Ok p /\
  apply_plan c n p = Ok (AxRes m a k) /\
  0 <= pl_pb p /\ 0 <= pl_pa p /\
  Z.of_nat (length (axis_map n (AxRes m a k))) = m /\
  forall j, 0 <= j < m ->
    nth (Z.to_nat j) (axis_map n (AxRes m a k)) None =
    (if (0 <=? a + j * k) && (a + j * k <? n) then Some (a + j * k) else None).
Proof.
  intros tol n m a k c Ht Hn Hm Hk Hc.
  exists (plan_of a k m n). split; [now apply axis_plan_exact|]. split.
  - destruct c.
    + now apply apply_plan_crop.
    + destruct Hc as [Hc|Hc]; [discriminate|].
      destruct (apply_plan_nocrop n m a k Hn Hm Hc) as [H1 H2]. exact H1.
  - split; [unfold plan_of; cbv zeta; destruct (0 <? k); cbn [pl_pb]; lia|].
    split; [unfold plan_of; cbv zeta; destruct (0 <? k); cbn [pl_pa]; lia|].
    unfold axis_map, zrange. cbn [r_size r_first r_step]. split.
    + rewrite !map_length, seq_length. lia.
    + intros j Hj.
      rewrite nth_indep with (d' := (fun k0 => if (0 <=? a + k0 * k) && (a + k0 * k <? n) then Some (a + k0 * k) else None) 0)
        by (rewrite !map_length, seq_length; lia).
      rewrite map_nth with (f := fun k0 => if (0 <=? a + k0 * k) && (a + k0 * k <? n) then Some (a + k0 * k) else None).
      rewrite nth_indep with (d' := Z.of_nat 0) by (rewrite map_length, seq_length; lia).
      rewrite map_nth. rewrite seq_nth by lia. cbn [plus]. rewrite Z2Nat.id by lia. reflexivity.
Qed.

(* ---- index mapping agrees with mapping through physical space ------------------- *)
Lemma veq_refl : forall a, veq a a.
Proof. intros a. unfold veq. repeat split; reflexivity. Qed.
Lemma veq_sym : forall a b, veq a b -> veq b a.
Proof. intros a b (H1 & H2 & H3). unfold veq. repeat split; symmetry; assumption. Qed.
Lemma veq_trans : forall a b c, veq a b -> veq b c -> veq a c.
Proof. intros a b c (H1 & H2 & H3) (K1 & K2 & K3). unfold veq. repeat split; etransitivity; eassumption. Qed.

Lemma lin_inv_lin : forall B y, ~ (det B == 0)%Q -> veq (lin B (inv_lin B y)) y.
Proof.
  intros [[b00 b01 b02] [b10 b11 b12] [b20 b21 b22] tb] [x y z] Hd.
  unfold veq, lin, inv_lin, det, dot, cross, vadd, vscale in *;
    cbn [vx vy vz f_c0 f_c1 f_c2 f_t] in *.
  repeat split; field; exact Hd.
Qed.

Lemma inv_lin_lin : forall B y, ~ (det B == 0)%Q -> veq (inv_lin B (lin B y)) y.
Proof.
  intros [[b00 b01 b02] [b10 b11 b12] [b20 b21 b22] tb] [x y z] Hd.
  unfold veq, lin, inv_lin, det, dot, cross, vadd, vscale in *;
    cbn [vx vy vz f_c0 f_c1 f_c2 f_t] in *.
  repeat split; field; exact Hd.
Qed.

Lemma lin_compat : forall B a b, veq a b -> veq (lin B a) (lin B b).
Proof.
  intros B a b (H1 & H2 & H3). unfold veq, lin, vadd, vscale; cbn [vx vy vz].
  rewrite H1, H2, H3. repeat split; reflexivity.
Qed.
Lemma inv_lin_compat : forall B a b, veq a b -> veq (inv_lin B a) (inv_lin B b).
Proof.
  intros B a b (H1 & H2 & H3). unfold veq, inv_lin, dot; cbn [vx vy vz].
  rewrite H1, H2, H3. repeat split; reflexivity.
Qed.

(* T = inv(B).A really is "to physical space with A, back with inv(B)" (no hypothesis needed) *)
Lemma v2v_is_inverse_after_phys : forall A B i,
  veq (phys (v2v_aff A B) i) (inv_apply B (phys A i)).
Proof.
  intros [[a00 a01 a02] [a10 a11 a12] [a20 a21 a22] [ta0 ta1 ta2]] B [ix iy iz].
  set (r0 := cross (f_c1 B) (f_c2 B)). set (r1 := cross (f_c2 B) (f_c0 B)). set (r2 := cross (f_c0 B) (f_c1 B)).
  unfold veq, phys, lin, v2v_aff, inv_apply, inv_lin. fold r0 r1 r2.
  destruct r0 as [r00 r01 r02], r1 as [r10 r11 r12], r2 as [r20 r21 r22].
  destruct (f_t B) as [tb0 tb1 tb2]. set (d := det B).
  unfold dot, vadd, vsub, vscale, Qdiv; cbn [vx vy vz f_c0 f_c1 f_c2 f_t].
  repeat split; ring.
Qed.

Theorem ref2idx_inverts : forall B x, ~ (det B == 0)%Q -> veq (phys B (inv_apply B x)) x.
Proof.
  intros B x Hd. unfold phys, inv_apply.
  pose proof (lin_inv_lin B (vsub x (f_t B)) Hd) as (H1 & H2 & H3).
  destruct (lin B (inv_lin B (vsub x (f_t B)))) as [l1 l2 l3]. destruct x as [x1 x2 x3], (f_t B) as [t1 t2 t3].
  unfold veq, vadd, vsub in *; cbn [vx vy vz] in *. rewrite H1, H2, H3. repeat split; ring.
Qed.

Theorem idx2ref2idx : forall B i, ~ (det B == 0)%Q -> veq (inv_apply B (phys B i)) i.
Proof.
  intros B i Hd. unfold inv_apply.
  apply veq_trans with (inv_lin B (lin B i)); [|now apply inv_lin_lin].
  apply inv_lin_compat. unfold phys. destruct (lin B i) as [l1 l2 l3], (f_t B) as [t1 t2 t3].
  unfold veq, vadd, vsub; cbn [vx vy vz]. repeat split; ring.
Qed.

Lemma phys_compat : forall B a b, veq a b -> veq (phys B a) (phys B b).
Proof.
  intros B a b H. unfold phys. pose proof (lin_compat B a b H) as (H1 & H2 & H3).
  destruct (lin B a) as [l1 l2 l3], (lin B b) as [m1 m2 m3], (f_t B) as [t1 t2 t3]. unfold veq, vadd in *; cbn [vx vy vz] in *.
  rewrite H1, H2, H3. repeat split; reflexivity.
Qed.

Theorem v2v_via_physical : forall A B i, ~ (det B == 0)%Q ->
  veq (phys B (phys (v2v_aff A B) i)) (phys A i).
Proof.
  intros A B i Hd.
  apply veq_trans with (phys B (inv_apply B (phys A i))).
  - apply phys_compat, v2v_is_inverse_after_phys.
  - now apply ref2idx_inverts.
Qed.

(* ---- bounds checks ------------------------------------------------------------------ *)
Lemma qmin_lt : forall a b c, (qmin a b < c)%Q <-> (a < c)%Q \/ (b < c)%Q.
Proof.
  intros a b c. unfold qmin. destruct (Qle_bool a b) eqn:E.
  - apply Qle_bool_iff in E. split; [tauto|]. intros [H|H]; lra.
  - assert (~ (a <= b)%Q) by (intros H; apply Qle_bool_iff in H; congruence).
    split; [tauto|]. intros [H0|H0]; lra.
Qed.
Lemma qmax_gt : forall a b c, (c < qmax a b)%Q <-> (c < a)%Q \/ (c < b)%Q.
Proof.
  intros a b c. unfold qmax. destruct (Qle_bool a b) eqn:E.
  - apply Qle_bool_iff in E. split; [tauto|]. intros [H|H]; lra.
  - assert (~ (a <= b)%Q) by (intros H; apply Qle_bool_iff in H; congruence).
    split; [tauto|]. intros [H0|H0]; lra.
Qed.

Lemma fold_min_lt : forall d xs m0 c,
  (fold_left (fun m p => qmin m (comp p d)) xs m0 < c)%Q <->
  (m0 < c)%Q \/ exists p, In p xs /\ (comp p d < c)%Q.
Proof.
  intros d xs. induction xs as [|x xs IH]; intros m0 c; cbn [fold_left].
  - split; [tauto|]. intros [H|(p & [] & _)]. exact H.
  - rewrite IH, qmin_lt. split.
    + intros [[H|H]|(p & Hp & H)]; [tauto|right; exists x; cbn; tauto|right; exists p; cbn; tauto].
    + intros [H|(p & [Hp|Hp] & H)]; [tauto|subst; tauto|right; exists p; tauto].
Qed.
Lemma fold_max_gt : forall d xs m0 c,
  (c < fold_left (fun m p => qmax m (comp p d)) xs m0)%Q <->
  (c < m0)%Q \/ exists p, In p xs /\ (c < comp p d)%Q.
Proof.
  intros d xs. induction xs as [|x xs IH]; intros m0 c; cbn [fold_left].
  - split; [tauto|]. intros [H|(p & [] & _)]. exact H.
  - rewrite IH, qmax_gt. split.
    + intros [[H|H]|(p & Hp & H)]; [tauto|right; exists x; cbn; tauto|right; exists p; cbn; tauto].
    + intros [H|(p & [Hp|Hp] & H)]; [tauto|subst; tauto|right; exists p; tauto].
Qed.

Definition outside (shape : t3 Z) (p : vec3) (d : ax) : Prop :=
  (comp p d < - half)%Q \/ (inject_Z (sel shape d) - half < comp p d)%Q.

Lemma axis_fails_iff : forall shape d x xs,
  axis_fails shape d x xs = true <-> exists p, In p (x :: xs) /\ outside shape p d.
Proof.
  intros shape d x xs. unfold axis_fails, min_over, max_over, outside.
  rewrite orb_true_iff, !Qltb_true_lt, fold_min_lt, fold_max_gt. split.
  - intros [[H|(p & Hp & H)]|[H|(p & Hp & H)]];
      [exists x|exists p|exists x|exists p]; cbn [In]; tauto.
  - intros (p & [Hp|Hp] & [H|H]); subst.
    + left; left; exact H.
    + right; left; exact H.
    + left; right; exists p; tauto.
    + right; right; exists p; tauto.
Qed.

Theorem bounds_fail_iff : forall shape x xs,
  exists b, bounds_fail shape (x :: xs) = Some b /\
  (b = true <-> exists p d, In p (x :: xs) /\ outside shape p d).
Proof.
  intros shape x xs. eexists. split; [reflexivity|].
  rewrite !orb_true_iff, !axis_fails_iff. split.
  - intros [[(p & Hp & H)|(p & Hp & H)]|(p & Hp & H)]; [exists p, X0|exists p, X1|exists p, X2]; tauto.
  - intros (p & d & Hp & H). destruct d; [left; left|left; right|right]; exists p; tauto.
Qed.

(* the transformer without rounding: refusal (ValueError) exactly when some mapped point is
   outside the target by more than half a voxel on some axis; otherwise all mapped points *)
Theorem v2v_bounds_exact : forall A B shape x xs, ~ (det B == 0)%Q ->
  let out := map (phys (v2v_aff A B)) (x :: xs) in
  ((exists p d, In p out /\ outside shape p d) -> v2v A B shape false true (x :: xs) = Err VE) /\
  (~ (exists p d, In p out /\ outside shape p d) -> v2v A B shape false true (x :: xs) = Ok out).
Proof.
  intros A B shape x xs Hd out. unfold v2v.
  assert (E : Qeq_bool (det B) 0 = false).
  { destruct (Qeq_bool (det B) 0) eqn:E; [apply Qeq_bool_iff in E; contradiction|reflexivity]. }
  rewrite E. fold out. subst out. cbn [map].
  destruct (bounds_fail_iff shape (phys (v2v_aff A B) x) (map (phys (v2v_aff A B)) xs)) as (b & Hb & Hiff).
  rewrite Hb. destruct b.
  - split; [reflexivity|]. intros H. exfalso. apply H. now apply Hiff.
  - split; [|reflexivity]. intros H. apply Hiff in H. discriminate.
Qed.

(* with rounding the check is applied to the returned (rounded) indices *)
Theorem v2v_bounds_rounded : forall A B shape x xs, ~ (det B == 0)%Q ->
  let out := map vround (map (phys (v2v_aff A B)) (x :: xs)) in
  ((exists p d, In p out /\ outside shape p d) -> v2v A B shape true true (x :: xs) = Err VE) /\
  (~ (exists p d, In p out /\ outside shape p d) -> v2v A B shape true true (x :: xs) = Ok out).
Proof.
  intros A B shape x xs Hd out. unfold v2v.
  assert (E : Qeq_bool (det B) 0 = false).
  { destruct (Qeq_bool (det B) 0) eqn:E; [apply Qeq_bool_iff in E; contradiction|reflexivity]. }
  rewrite E. fold out. subst out. cbn [map].
  destruct (bounds_fail_iff shape (vround (phys (v2v_aff A B) x)) (map vround (map (phys (v2v_aff A B)) xs))) as (b & Hb & Hiff).
  rewrite Hb. destruct b.
  - split; [reflexivity|]. intros H. exfalso. apply H. now apply Hiff.
  - split; [|reflexivity]. intros H. apply Hiff in H. discriminate.
Qed.

Theorem v2v_unchecked : forall A B shape r pts, ~ (det B == 0)%Q ->
  v2v A B shape r false pts =
  Ok (if r then map vround (map (phys (v2v_aff A B)) pts) else map (phys (v2v_aff A B)) pts).
Proof.
  intros A B shape r pts Hd. unfold v2v.
  assert (E : Qeq_bool (det B) 0 = false).
  { destruct (Qeq_bool (det B) 0) eqn:E; [apply Qeq_bool_iff in E; contradiction|reflexivity]. }
  rewrite E. destruct r; reflexivity.
Qed.

(* map_reference_to_indices: the check looks at the unrounded indices, RuntimeError *)
Theorem ref2idx_bounds_exact : forall B shape r x xs, ~ (det B == 0)%Q ->
  let out := map (inv_apply B) (x :: xs) in
  ((exists p d, In p out /\ outside shape p d) -> ref2idx B shape r true (x :: xs) = Err RT) /\
  (~ (exists p d, In p out /\ outside shape p d) ->
     ref2idx B shape r true (x :: xs) = Ok (if r then map vround out else out)).
Proof.
  intros B shape r x xs Hd out. unfold ref2idx.
  assert (E : Qeq_bool (det B) 0 = false).
  { destruct (Qeq_bool (det B) 0) eqn:E; [apply Qeq_bool_iff in E; contradiction|reflexivity]. }
  rewrite E. fold out. subst out. cbn [map].
  destruct (bounds_fail_iff shape (inv_apply B x) (map (inv_apply B) xs)) as (b & Hb & Hiff).
  rewrite Hb. destruct b.
  - split; [reflexivity|]. intros H. exfalso. apply H. now apply Hiff.
  - split; [|reflexivity]. intros H. apply Hiff in H. discriminate.
Qed.

(* relation between the rounded and the unrounded test: rounding never turns a point that is
   outside by more than half a voxel into an accepted one, and only points on or beyond a face fail *)
Lemma rne_bounds : forall q, (inject_Z (rne q) - half <= q)%Q /\ (q <= inject_Z (rne q) + half)%Q.
Proof.
  intros q. unfold rne, half.
  pose proof (Qfloor_le q) as H1. pose proof (Qlt_floor q) as H2.
  rewrite inject_Z_plus in H2. change (inject_Z 1) with 1%Q in H2.
  destruct (q - inject_Z (Qfloor q) ?= 1 # 2)%Q eqn:E.
  - apply Qeq_alt in E. destruct (Z.even (Qfloor q)).
    + lra.
    + rewrite inject_Z_plus. change (inject_Z 1) with 1%Q. lra.
  - apply Qlt_alt in E. lra.
  - apply Qgt_alt in E. rewrite inject_Z_plus. change (inject_Z 1) with 1%Q. lra.
Qed.

Lemma Zhalf_hi : forall n b, (inject_Z n - (1#2) < inject_Z b)%Q -> n <= b.
Proof. intros n b H. unfold Qlt, Qminus, Qplus, Qopp, inject_Z in H. cbn in H. lia. Qed.
Lemma Zhalf_lo : forall b, (inject_Z b < - (1#2))%Q -> b <= -1.
Proof. intros b H. unfold Qlt, Qopp, inject_Z in H. cbn in H. lia. Qed.
Lemma Zle_inj : forall a b, a <= b -> (inject_Z a <= inject_Z b)%Q.
Proof. intros. now rewrite <- Zle_Qle. Qed.
Lemma comp_vround : forall p d, comp (vround p) d = inject_Z (rne (comp p d)).
Proof. intros p d. destruct d; reflexivity. Qed.

Theorem rounded_outside_is_on_or_beyond_face : forall shape p d,
  outside shape (vround p) d ->
  (comp p d <= - half)%Q \/ (inject_Z (sel shape d) - half <= comp p d)%Q.
Proof.
  intros shape p d H. unfold outside in H. rewrite comp_vround in H.
  pose proof (rne_bounds (comp p d)) as [Hb1 Hb2]. unfold half in *.
  destruct H as [H|H]; [left|right].
  - apply Zhalf_lo in H. apply Zle_inj in H. change (inject_Z (-1)) with (-1)%Q in H. lra.
  - apply Zhalf_hi in H. apply Zle_inj in H. lra.
Qed.

Theorem outside_stays_outside_after_rounding : forall shape p d,
  outside shape p d -> outside shape (vround p) d.
Proof.
  intros shape p d H. unfold outside in *. rewrite comp_vround.
  pose proof (rne_bounds (comp p d)) as [Hb1 Hb2]. unfold half in *.
  destruct H as [H|H]; [left|right].
  - assert (Hz : (rne (comp p d) <= -1)%Z).
    { destruct (Z_le_gt_dec (rne (comp p d)) (-1)); [assumption|].
      assert (Hz : (0 <= rne (comp p d))%Z) by lia. apply Zle_inj in Hz.
      change (inject_Z 0) with 0%Q in Hz. lra. }
    apply Zle_inj in Hz. change (inject_Z (-1)) with (-1)%Q in Hz. lra.
  - assert (Hz : (sel shape d <= rne (comp p d))%Z).
    { destruct (Z_le_gt_dec (sel shape d) (rne (comp p d))); [assumption|].
      assert (Hz : (rne (comp p d) + 1 <= sel shape d)%Z) by lia. apply Zle_inj in Hz.
      rewrite inject_Z_plus in Hz. change (inject_Z 1) with 1%Q in Hz. lra. }
    apply Zle_inj in Hz. lra.
Qed.

(* ---- what "affine within tolerance" means ------------------------------------------ *)
Definition qclose_spec (tol : option Q) (a b : Q) : Prop :=
  match tol with
  | None => (a == b)%Q
  | Some t => (Qabs' (a - b) <= t + rtol * Qabs' b)%Q
  end.
Lemma qclose_iff : forall tol a b, qclose tol a b = true <-> qclose_spec tol a b.
Proof.
  intros [t|] a b; unfold qclose, qclose_spec.
  - apply Qle_bool_iff.
  - apply Qeq_bool_iff.
Qed.
Definition vclose_spec tol (a b : vec3) : Prop :=
  qclose_spec tol (vx a) (vx b) /\ qclose_spec tol (vy a) (vy b) /\ qclose_spec tol (vz a) (vz b).
Lemma vclose_iff : forall tol a b, vclose tol a b = true <-> vclose_spec tol a b.
Proof.
  intros tol a b. unfold vclose, vclose_spec. rewrite !andb_true_iff, !qclose_iff. tauto.
Qed.
Theorem affine_close_iff : forall tol g h,
  affine_close tol g h = true <->
  (forall j, vclose_spec tol (col g j) (col h j)) /\ vclose_spec tol (g_pos g) (g_pos h).
Proof.
  intros tol g h. unfold affine_close. rewrite !andb_true_iff, !vclose_iff. split.
  - intros [[[H0 H1] H2] H3]. split; [intros j; destruct j; assumption|assumption].
  - intros [H H3]. repeat split; try apply H; apply H3.
Qed.
Lemma Qabs'_spec : forall q, (Qabs' q == Qabs q)%Q.
Proof.
  intros q. unfold Qabs'. destruct (Qle_bool 0 q) eqn:E.
  - apply Qle_bool_iff in E. now rewrite Qabs_pos.
  - assert (~ (0 <= q)%Q) by (intros H; apply Qle_bool_iff in H; congruence).
    rewrite Qabs_neg by lra. reflexivity.
Qed.
