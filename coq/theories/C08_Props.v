(* C08 - property theorems.  Nothing but statements, `exact <lemma>`, Print Assumptions and
   non-vacuity Examples.
   Reading guide: the affine lives over ANY commutative ring R with a torsion-free ring
   morphism inj : Z -> R ([Zring], instance: the canonical rationals Qc used by the executable
   model, [C08_premises_inhabited]); voxel values are ANY type Vx with ANY pad-value function;
   the order test [ltb] is ANY boolean function (its only property is needed for handedness).
   [physZ A (j0,j1,j2)] = A . (j0,j1,j2,1);  [inr s j] = 0 <= j < s per axis;  [wf s] = s >= 1.
   An index map sends a voxel index of the result to [Some] index of the receiver or to
   [None] (= new voxel, padding). *)
From Coq Require Import String ZArith List Bool QArith Qcanon.
From HD Require Import C08_Model C08_Proofs C08_Proofs_Step C08_Proofs_More C08_Proofs_Qc C08_Proofs_Ext C08_Proofs_Orient C08_Proofs_Top C08_Proofs_Inv C08_Proofs_Scale C08_Proofs_Hist C08_Proofs_Conv.
Import ListNotations.
Open Scope string_scope.
Open Scope Z_scope.

(* 1. one spatial operation (getitem with ints/slices/negative steps, flip, permute, swap, pad,
      pad_to / crop_to / pad_or_crop_to, to_patient_orientation, ensure_handedness): every
      voxel of the result that has a pre-image lies exactly where the pre-image lay and carries
      its value in every channel; the shape stays >= 1 *)
Theorem C08_step_fixes_voxels :
  forall R rO rI radd rmul rsub ropp inj ltb Vx padval,
  Zring R rO rI radd rmul rsub ropp inj ->
  forall v o v' f,
  vol_step_sp R rO radd rmul rsub ropp inj ltb Vx padval v o = Ok (v', f) -> wf (v_shape R Vx v) ->
  wf (v_shape R Vx v') /\
  forall j, inr (v_shape R Vx v') j -> forall i, f j = Some i ->
    inr (v_shape R Vx v) i /\
    physZ R radd rmul inj (v_aff R Vx v') j = physZ R radd rmul inj (v_aff R Vx v) i /\
    forall c, v_arr R Vx v' j c = v_arr R Vx v i c.
Proof. exact top_step_fixes_voxels. Qed.
Print Assumptions C08_step_fixes_voxels.

(* 2. every operation (channel operations, copy, with_array included) keeps the affine scaled
      orthogonal: columns pairwise orthogonal and non-zero *)
Theorem C08_step_keeps_scaled_orthogonal :
  forall R rO rI radd rmul rsub ropp inj ltb Vx padval,
  Zring R rO rI radd rmul rsub ropp inj ->
  forall v o v' f,
  step_tr R rO radd rmul rsub ropp inj ltb Vx padval v o = Ok (v', f) ->
  wf (v_shape R Vx v) -> scaled_orthogonal R rO radd rmul (v_aff R Vx v) ->
  scaled_orthogonal R rO radd rmul (v_aff R Vx v') /\ wf (v_shape R Vx v').
Proof. exact top_step_keeps_scaled_orthogonal. Qed.
Print Assumptions C08_step_keeps_scaled_orthogonal.

(* 3. EVERY finite history (refused operations leave the object as it was): with Phi the
      composed index map, every voxel with a pre-image in the initial volume lies where that
      voxel lay; if no with_array occurs it also carries the initial values up to one
      re-indexing psi of the channels (get_channel / permute_channel_axes) *)
Theorem C08_history_fixes_voxels :
  forall R rO rI radd rmul rsub ropp inj ltb Vx padval,
  Zring R rO rI radd rmul rsub ropp inj ->
  forall ops v, wf (v_shape R Vx v) ->
  let v' := fst (run_tr R rO radd rmul rsub ropp inj ltb Vx padval v ops) in
  let Phi := snd (run_tr R rO radd rmul rsub ropp inj ltb Vx padval v ops) in
  v' = run R rO radd rmul rsub ropp inj ltb Vx padval v ops /\
  wf (v_shape R Vx v') /\
  (scaled_orthogonal R rO radd rmul (v_aff R Vx v) -> scaled_orthogonal R rO radd rmul (v_aff R Vx v')) /\
  v_patient R Vx v' = v_patient R Vx v /\ v_for R Vx v' = v_for R Vx v /\
  (forall j, inr (v_shape R Vx v') j -> forall i, Phi j = Some i ->
     inr (v_shape R Vx v) i /\
     physZ R radd rmul inj (v_aff R Vx v') j = physZ R radd rmul inj (v_aff R Vx v) i) /\
  (no_with_array ops = true ->
   exists psi : list Z -> list Z,
     forall j, inr (v_shape R Vx v') j -> forall i, Phi j = Some i ->
       forall c, v_arr R Vx v' j c = v_arr R Vx v i (psi c)).
Proof. exact top_history. Qed.
Print Assumptions C08_history_fixes_voxels.

(* 4. new voxels are padding: the index map of pad is None exactly outside the embedded old
      box, and there the value is the edge voxel (EDGE) or the constant / statistic of the whole
      array (of the voxel's own channel when per_channel is effective) *)
Theorem C08_pad_new_voxels_are_padding :
  forall R radd rmul inj Vx padval (v : vol R Vx) w m cv pc v' f l,
  vol_pad R radd rmul inj Vx padval v w m cv pc = Ok (v', f) -> prep_pad_width w = Ok l ->
  f = pad_map (v_shape R Vx v) (pw_triple l) /\
  forall j c, f j = None ->
    let '(n0, n1, n2) := v_shape R Vx v in
    let '((a0, _), (a1, _), (a2, _)) := pw_triple l in
    let '(j0, j1, j2) := j in
    match m with
    | PEdge => v_arr R Vx v' j c =
               v_arr R Vx v (clampz n0 (j0 - a0), clampz n1 (j1 - a1), clampz n2 (j2 - a2)) c
    | _ => if per_channel_eff R Vx v m pc
           then In c (all_cidx (cshape R Vx v)) ->
                v_arr R Vx v' j c =
                padval m (v_isint R Vx v) cv (materialise_chan Vx (v_shape R Vx v) (v_arr R Vx v) c)
           else v_arr R Vx v' j c =
                padval m (v_isint R Vx v) cv
                       (materialise Vx (v_shape R Vx v) (cshape R Vx v) (v_arr R Vx v))
    end.
Proof. exact pad_new_voxels_are_padding. Qed.
Print Assumptions C08_pad_new_voxels_are_padding.

Theorem C08_pad_map_classifies : forall shape a0 b0 a1 b1 a2 b2 j,
  0 <= a0 -> 0 <= b0 -> 0 <= a1 -> 0 <= b1 -> 0 <= a2 -> 0 <= b2 ->
  inr (pad_shape shape ((a0, b0), (a1, b1), (a2, b2))) j ->
  match pad_map shape ((a0, b0), (a1, b1), (a2, b2)) j with
  | Some i => inr shape i /\ i = (let '(j0, j1, j2) := j in (j0 - a0, j1 - a1, j2 - a2))
  | None => ~ inr shape (let '(j0, j1, j2) := j in (j0 - a0, j1 - a1, j2 - a2))
  end.
Proof. exact pad_map_spec. Qed.
Print Assumptions C08_pad_map_classifies.

(* 5. a geometry-only object undergoes the identical change of shape and affine, and is left
      alone by channel operations and with_array *)
Theorem C08_geometry_commutes :
  forall R rO radd rmul rsub ropp inj ltb Vx padval (v : vol R Vx) o v',
  step R rO radd rmul rsub ropp inj ltb Vx padval v o = Ok v' ->
  match gstep R rO radd rmul rsub ropp inj ltb Vx (geom_of R Vx v) o with
  | Some r => r = Ok (geom_of R Vx v')
  | None => geom_of R Vx v' = geom_of R Vx v
  end.
Proof. exact geometry_commutes. Qed.
Print Assumptions C08_geometry_commutes.

(* 5b. ... and refuses whatever the volume refuses, with the same error class (pad-like
       operations: for a valid mode name - VolumeGeometry.pad documents that it ignores the mode) *)
Theorem C08_geometry_refusal_commutes :
  forall R rO radd rmul rsub ropp inj ltb Vx padval (v : vol R Vx) o k,
  modes_ok Vx o ->
  step R rO radd rmul rsub ropp inj ltb Vx padval v (Sp o) = Err k ->
  gstep R rO radd rmul rsub ropp inj ltb Vx (geom_of R Vx v) (Sp o) = Some (Err k).
Proof. exact geometry_refusal_commutes. Qed.
Print Assumptions C08_geometry_refusal_commutes.

Theorem C08_geom_with_array_geometry : forall R Vx (g : geom R) sh a i ch v',
  geom_with_array R Vx g sh a i ch = Ok v' -> geom_of R Vx v' = g /\ v_arr R Vx v' = a.
Proof. exact geom_with_array_geometry. Qed.
Print Assumptions C08_geom_with_array_geometry.

(* 6. channels, coordinate system and frame of reference are carried along untouched by every
      spatial operation; copy is the identity; with_array without explicit channels keeps them *)
Theorem C08_channels_untouched :
  forall R rO rI radd rmul rsub ropp inj ltb Vx padval,
  Zring R rO rI radd rmul rsub ropp inj ->
  forall v o v' f,
  vol_step_sp R rO radd rmul rsub ropp inj ltb Vx padval v o = Ok (v', f) ->
  v_chans R Vx v' = v_chans R Vx v /\ v_patient R Vx v' = v_patient R Vx v /\ v_for R Vx v' = v_for R Vx v.
Proof. exact top_channels_untouched. Qed.
Print Assumptions C08_channels_untouched.

Theorem C08_copy_is_identity :
  forall R rO radd rmul rsub ropp inj ltb Vx padval (v : vol R Vx),
  step_tr R rO radd rmul rsub ropp inj ltb Vx padval v Copy = Ok (v, imap_id).
Proof. exact copy_is_identity. Qed.
Print Assumptions C08_copy_is_identity.

Theorem C08_with_array_keeps_channels : forall R Vx (v : vol R Vx) sh a i v',
  vol_with_array R Vx v sh a i None = Ok v' ->
  v_arr R Vx v' = a /\ v_aff R Vx v' = v_aff R Vx v /\ v_shape R Vx v' = v_shape R Vx v /\
  ((Z.of_nat (length sh) =? 3) = false -> v_chans R Vx v' = v_chans R Vx v).
Proof. exact with_array_keeps_channels. Qed.
Print Assumptions C08_with_array_keeps_channels.

(* 7. ensure_handedness reaches the requested handedness (non-degenerate affine) *)
Theorem C08_handedness_reached :
  forall R rO rI radd rmul rsub ropp inj ltb Vx padval,
  Zring R rO rI radd rmul rsub ropp inj ->
  (forall x, x <> rO -> ltb (ropp x) rO = negb (ltb x rO)) ->
  forall v h fa sw v' f,
  vol_step_sp R rO radd rmul rsub ropp inj ltb Vx padval v (OHanded h fa sw) = Ok (v', f) ->
  det3 R radd rmul rsub (v_aff R Vx v) <> rO ->
  is_left R rO radd rmul rsub ltb (v_aff R Vx v') = match h with HLeft => true | _ => false end.
Proof. exact top_handedness_reached. Qed.
Print Assumptions C08_handedness_reached.

(* 8. refusals, each characterised exactly *)
Theorem C08_permute_accepts_iff : forall R Vx (v : vol R Vx) l,
  (exists r, vol_perm R Vx v l = Ok r) <-> is_perm3 l = true.
Proof. exact permute_accepts_iff. Qed.
Print Assumptions C08_permute_accepts_iff.

Theorem C08_is_perm3_iff : forall l, is_perm3 l = true <->
  exists a b c, l = [a; b; c] /\ 0 <= a <= 2 /\ 0 <= b <= 2 /\ 0 <= c <= 2 /\ a <> b /\ a <> c /\ b <> c.
Proof. exact is_perm3_iff. Qed.
Print Assumptions C08_is_perm3_iff.

Theorem C08_int_index_refused_iff : forall n i,
  check_item n (IInt i) = Err "IndexError" <-> (i < - n \/ n <= i).
Proof. exact int_index_refused_iff. Qed.
Print Assumptions C08_int_index_refused_iff.

Theorem C08_slice_bounds_refused_iff : forall n a b s,
  check_item n (ISlc a b s) = Err "ValueError" <->
  ((exists x, a = Some x /\ (x < - n \/ n <= x)) \/ (exists x, b = Some x /\ (x < - n - 1 \/ n < x))).
Proof. exact slice_bounds_refused_iff. Qed.
Print Assumptions C08_slice_bounds_refused_iff.

Theorem C08_empty_slice_refused_iff : forall n a b st, st <> 0 ->
  (dim_of n (Some (a, b, Some st)) = Err "IndexError" <->
   let '(f, l, _) := slice_indices a b st n in range_len f l st = 0).
Proof. exact empty_slice_refused_iff. Qed.
Print Assumptions C08_empty_slice_refused_iff.

Theorem C08_pad_int_refused_iff : forall R radd rmul inj Vx padval (v : vol R Vx) p m cv pc, m <> PBad ->
  (vol_pad R radd rmul inj Vx padval v (PWInt p) m cv pc = Err "ValueError" <-> p < 0).
Proof. exact pad_int_refused_iff. Qed.
Print Assumptions C08_pad_int_refused_iff.

Theorem C08_pad_flat_accepted_iff : forall l r, prep_pad_width (PWFlat l) = Ok r <->
  exists a b, l = [a; b] /\ 0 <= a /\ 0 <= b /\ r = [(a, b); (a, b); (a, b)].
Proof. exact prep_pad_width_flat_ok. Qed.
Print Assumptions C08_pad_flat_accepted_iff.

Theorem C08_pad_nested_accepted_iff : forall l r, prep_pad_width (PWNest l) = Ok r <->
  ((exists a b c, l = [[a]; [b]; [c]] /\ 0 <= a /\ 0 <= b /\ 0 <= c /\ r = [(a, a); (b, b); (c, c)]) \/
   (exists a a' b b' c c', l = [[a; a']; [b; b']; [c; c']] /\
      0 <= a /\ 0 <= a' /\ 0 <= b /\ 0 <= b' /\ 0 <= c /\ 0 <= c' /\ r = [(a, a'); (b, b'); (c, c')])).
Proof. exact prep_pad_width_nest_ok. Qed.
Print Assumptions C08_pad_nested_accepted_iff.

Theorem C08_orientation_needs_patient :
  forall R rO radd rmul rsub ropp inj ltb Vx padval (v : vol R Vx) o, v_patient R Vx v = false ->
  vol_step_sp R rO radd rmul rsub ropp inj ltb Vx padval v (OOrient o) = Err "RuntimeError".
Proof. exact orientation_needs_patient. Qed.
Print Assumptions C08_orientation_needs_patient.

(* 9. the premises are inhabited by the executable instance *)
Theorem C08_premises_inhabited :
  Zring Qc (Q2Qc 0) (Q2Qc 1) Qcplus Qcmult Qcminus Qcopp qc_inj /\
  (forall x, x <> Q2Qc 0 -> qc_ltb (Qcopp x) (Q2Qc 0) = negb (qc_ltb x (Q2Qc 0))).
Proof. exact (conj Zring_Qc qc_ltb_opp). Qed.
Print Assumptions C08_premises_inhabited.

(* 10. to_patient_orientation reaches the requested orientation.  [Dom A (m0,p0) (m1,p1) (m2,p2)]:
       column d of A has a strictly dominant, non-zero component on patient axis m_d (its key
       -|x| is strictly below the other two under [ltb]), of sign p_d, and m0, m1, m2 differ - the
       affines without 45-degree ties.  On them get_closest_patient_orientation is the arg-max
       rule, and for each of the 48 valid requests the operation is accepted and the closest
       orientation of its result IS the request.  [SignLaws]: -x<0 <-> 0<x, 0<-x <-> x<0, not both
       x<0 and 0<x, neither only for x = 0. *)
Theorem C08_closest_is_argmax : forall R rO ropp ltb (A : aff R) s0 s1 s2,
  Dom R rO ropp ltb A s0 s1 s2 -> closest R rO ropp ltb A = [code s0; code s1; code s2].
Proof. exact closest_dominant. Qed.
Print Assumptions C08_closest_is_argmax.

Theorem C08_orientation_reached :
  forall R rO rI radd rmul rsub ropp inj ltb Vx padval,
  Zring R rO rI radd rmul rsub ropp inj -> SignLaws R rO ropp ltb ->
  forall v o v' f s0 s1 s2,
  wf (v_shape R Vx v) -> Dom R rO ropp ltb (v_aff R Vx v) s0 s1 s2 ->
  vol_step_sp R rO radd rmul rsub ropp inj ltb Vx padval v (OOrient o) = Ok (v', f) ->
  closest R rO ropp ltb (v_aff R Vx v') = o.
Proof. exact top_orientation_reached. Qed.
Print Assumptions C08_orientation_reached.

Theorem C08_orientation_accepted :
  forall R rO rI radd rmul rsub ropp inj ltb Vx padval,
  Zring R rO rI radd rmul rsub ropp inj -> SignLaws R rO ropp ltb ->
  forall v o d s0 s1 s2,
  wf (v_shape R Vx v) -> Dom R rO ropp ltb (v_aff R Vx v) s0 s1 s2 -> v_patient R Vx v = true ->
  normalize_orientation o = Ok d ->
  exists v' f, vol_step_sp R rO radd rmul rsub ropp inj ltb Vx padval v (OOrient o) = Ok (v', f) /\
               closest R rO ropp ltb (v_aff R Vx v') = o.
Proof. exact top_orientation_accepted. Qed.
Print Assumptions C08_orientation_accepted.

Theorem C08_sign_laws_inhabited : SignLaws Qc (Q2Qc 0) Qcopp qc_ltb.
Proof. exact SignLaws_Qc. Qed.
Print Assumptions C08_sign_laws_inhabited.

(* 11. nothing but pad creates voxels: every voxel of the result of any other spatial operation
       (getitem, flip, permute, swap, crop_to, orientation, handedness, random flip / permutation /
       crop) has a pre-image in the receiver - for one operation and for every history without
       pad; flips, permutations, swaps, re-orientation, handedness fixes and their random
       variants re-arrange: the index map is a bijection of the two index boxes (no voxel lost,
       none duplicated) - for one operation and for every history of such operations *)
Theorem C08_only_pad_creates_voxels :
  forall R rO radd rmul rsub ropp inj ltb Vx padval (v : vol R Vx) o v' f,
  nopad o = true -> vol_step_sp R rO radd rmul rsub ropp inj ltb Vx padval v o = Ok (v', f) ->
  wf (v_shape R Vx v) ->
  wf (v_shape R Vx v') /\
  forall j, inr (v_shape R Vx v') j -> exists i, f j = Some i /\ inr (v_shape R Vx v) i.
Proof. exact step_nopad_total. Qed.
Print Assumptions C08_only_pad_creates_voxels.

Theorem C08_rearrangements_are_bijections :
  forall R rO radd rmul rsub ropp inj ltb Vx padval (v : vol R Vx) o v' f,
  rearr o = true -> vol_step_sp R rO radd rmul rsub ropp inj ltb Vx padval v o = Ok (v', f) ->
  wf (v_shape R Vx v) ->
  wf (v_shape R Vx v') /\
  (forall j, inr (v_shape R Vx v') j -> exists i, f j = Some i /\ inr (v_shape R Vx v) i) /\
  (forall i, inr (v_shape R Vx v) i -> exists j, inr (v_shape R Vx v') j /\ f j = Some i) /\
  (forall j j' i, inr (v_shape R Vx v') j -> inr (v_shape R Vx v') j' -> f j = Some i -> f j' = Some i -> j = j').
Proof. exact step_rearr_bijective. Qed.
Print Assumptions C08_rearrangements_are_bijections.

Theorem C08_history_without_pad_creates_no_voxel :
  forall R rO radd rmul rsub ropp inj ltb Vx padval ops (v : vol R Vx),
  forallb (op_nopad Vx) ops = true -> wf (v_shape R Vx v) ->
  let r := run_tr R rO radd rmul rsub ropp inj ltb Vx padval v ops in
  wf (v_shape R Vx (fst r)) /\
  forall j, inr (v_shape R Vx (fst r)) j -> exists i, snd r j = Some i /\ inr (v_shape R Vx v) i.
Proof. exact history_nopad_total. Qed.
Print Assumptions C08_history_without_pad_creates_no_voxel.

Theorem C08_history_of_rearrangements_is_bijection :
  forall R rO radd rmul rsub ropp inj ltb Vx padval ops (v : vol R Vx),
  forallb (op_rearr Vx) ops = true -> wf (v_shape R Vx v) ->
  let r := run_tr R rO radd rmul rsub ropp inj ltb Vx padval v ops in
  wf (v_shape R Vx (fst r)) /\
  (forall j, inr (v_shape R Vx (fst r)) j -> exists i, snd r j = Some i /\ inr (v_shape R Vx v) i) /\
  (forall i, inr (v_shape R Vx v) i -> exists j, inr (v_shape R Vx (fst r)) j /\ snd r j = Some i) /\
  (forall j j' i, inr (v_shape R Vx (fst r)) j -> inr (v_shape R Vx (fst r)) j' ->
     snd r j = Some i -> snd r j' = Some i -> j = j').
Proof. exact history_rearr_bijective. Qed.
Print Assumptions C08_history_of_rearrangements_is_bijection.

(* 11b. no voxel is duplicated: for EVERY spatial operation (pad included) and every finite
        history the index map is injective on the voxels that have a pre-image, and pre-images lie
        inside the receiver's index box *)
Theorem C08_no_voxel_duplicated :
  forall R rO radd rmul rsub ropp inj ltb Vx padval (v : vol R Vx) o v' f,
  vol_step_sp R rO radd rmul rsub ropp inj ltb Vx padval v o = Ok (v', f) -> wf (v_shape R Vx v) ->
  wf (v_shape R Vx v') /\
  (forall j i, inr (v_shape R Vx v') j -> f j = Some i -> inr (v_shape R Vx v) i) /\
  (forall j j' i, inr (v_shape R Vx v') j -> inr (v_shape R Vx v') j' -> f j = Some i -> f j' = Some i -> j = j').
Proof. exact step_injective. Qed.
Print Assumptions C08_no_voxel_duplicated.

Theorem C08_history_duplicates_no_voxel :
  forall R rO radd rmul rsub ropp inj ltb Vx padval ops (v : vol R Vx), wf (v_shape R Vx v) ->
  let r := run_tr R rO radd rmul rsub ropp inj ltb Vx padval v ops in
  wf (v_shape R Vx (fst r)) /\
  (forall j i, inr (v_shape R Vx (fst r)) j -> snd r j = Some i -> inr (v_shape R Vx v) i) /\
  (forall j j' i, inr (v_shape R Vx (fst r)) j -> inr (v_shape R Vx (fst r)) j' ->
     snd r j = Some i -> snd r j' = Some i -> j = j').
Proof. exact history_injective. Qed.
Print Assumptions C08_history_duplicates_no_voxel.

(* 12. the geometry-only object driven through the SAME finite history (it follows spatial
       operations and copy, is left alone by channel operations and with_array, stays as it was
       when it refuses) ends with exactly the geometry of the volume - every history whose pad
       modes are valid names *)
Theorem C08_history_geometry_commutes :
  forall R rO radd rmul rsub ropp inj ltb Vx padval ops (v : vol R Vx),
  Forall (op_modes_ok Vx) ops ->
  geom_of R Vx (run R rO radd rmul rsub ropp inj ltb Vx padval v ops) =
  grun R rO radd rmul rsub ropp inj ltb Vx (geom_of R Vx v) ops.
Proof. exact history_geometry_commutes. Qed.
Print Assumptions C08_history_geometry_commutes.

(* 13. only the three spatial dimensions can be indexed (fix D92): more than three index items
       are refused by volume and geometry alike, so no index reaches the channel axes *)
Theorem C08_getitem_more_than_three_items_refused :
  forall R rO radd rmul rsub ropp inj ltb Vx padval (v : vol R Vx) ix,
  3 < Z.of_nat (length (items_of_index ix)) ->
  step R rO radd rmul rsub ropp inj ltb Vx padval v (Sp (OGet ix)) = Err "IndexError" /\
  gstep R rO radd rmul rsub ropp inj ltb Vx (geom_of R Vx v) (Sp (OGet ix)) = Some (Err "IndexError").
Proof. exact getitem_too_many_refused. Qed.
Print Assumptions C08_getitem_more_than_three_items_refused.

Theorem C08_getitem_accepts_at_most_three_items :
  forall R rO radd rmul rsub ropp inj ltb Vx padval (v : vol R Vx) ix r,
  vol_step_sp R rO radd rmul rsub ropp inj ltb Vx padval v (OGet ix) = Ok r ->
  Z.of_nat (length (items_of_index ix)) <= 3.
Proof. exact getitem_accepts_at_most_three. Qed.
Print Assumptions C08_getitem_accepts_at_most_three_items.

(* 14. the coordinate -> index direction (inverse_affine, map_reference_to_indices,
       VolumeToVolumeTransformer).  np.linalg.inv is Cramer's rule: over ANY commutative ring and
       for ANY matrix the adjugate applied to the physical coordinate of index (i, j, k) is
       det * (i, j, k) [lookup_num]; the executable instance divides by det in the field Qc
       [q_lookup, q_inv_aff, q_xform].  A scaled orthogonal affine is invertible; inverse_affine is a
       two-sided inverse; and for EVERY finite history from a scaled orthogonal volume the result is
       invertible and ITS coordinate -> index query finds every voxel that descends from an initial
       voxel at exactly the coordinate that voxel had (as a function, and as the transformer
       initial -> result and back).  Queries are pure: what a history reports for its operations
       does not depend on the queries interleaved with them. *)
Theorem C08_inverse_is_cramer :
  forall R rO rI radd rmul rsub ropp, ring_theory rO rI radd rmul rsub ropp (@eq R) ->
  forall (A : aff R) i j k,
  lookup_num R radd rmul rsub A (phys R radd rmul A i j k) =
  V (rmul (det3 R radd rmul rsub A) i) (rmul (det3 R radd rmul rsub A) j) (rmul (det3 R radd rmul rsub A) k).
Proof. exact cramer_left. Qed.
Print Assumptions C08_inverse_is_cramer.

Theorem C08_scaled_orthogonal_is_invertible : forall A : aff Qc,
  scaled_orthogonal Qc (Q2Qc 0) Qcplus Qcmult A -> q_det A <> q_zero.
Proof. exact so_det_nonzero. Qed.
Print Assumptions C08_scaled_orthogonal_is_invertible.

Theorem C08_inverse_affine_is_inverse : forall A : aff Qc, q_det A <> q_zero ->
  (forall i j k,
     let p := phys Qc Qcplus Qcmult A i j k in
     phys Qc Qcplus Qcmult (q_inv_aff A) (vx p) (vy p) (vz p) = V i j k) /\
  (forall p0 p1 p2,
     let n := phys Qc Qcplus Qcmult (q_inv_aff A) p0 p1 p2 in
     phys Qc Qcplus Qcmult A (vx n) (vy n) (vz n) = V p0 p1 p2).
Proof. exact inverse_affine_is_inverse. Qed.
Print Assumptions C08_inverse_affine_is_inverse.

Theorem C08_inverse_affine_is_lookup : forall (A : aff Qc) p0 p1 p2,
  phys Qc Qcplus Qcmult (q_inv_aff A) p0 p1 p2 = q_lookup A (V p0 p1 p2).
Proof. exact q_inv_aff_spec. Qed.
Print Assumptions C08_inverse_affine_is_lookup.

Theorem C08_history_lookup_finds_voxels : forall (ops : list qop) (v : qvol),
  wf (v_shape _ _ v) -> scaled_orthogonal Qc (Q2Qc 0) Qcplus Qcmult (v_aff _ _ v) ->
  let v' := fst (run_tr Qc (Q2Qc 0) Qcplus Qcmult Qcminus Qcopp qc_inj qc_ltb Q q_padval v ops) in
  let Phi := snd (run_tr Qc (Q2Qc 0) Qcplus Qcmult Qcminus Qcopp qc_inj qc_ltb Q q_padval v ops) in
  q_det (v_aff _ _ v') <> q_zero /\
  forall j, inr (v_shape _ _ v') j -> forall i, Phi j = Some i ->
    inr (v_shape _ _ v) i /\
    q_lookup (v_aff _ _ v') (q_phys (v_aff _ _ v) i) = vecZ j /\
    (let '(i0, i1, i2) := i in
     phys Qc Qcplus Qcmult (q_xform (v_aff _ _ v) (v_aff _ _ v')) (qc_inj i0) (qc_inj i1) (qc_inj i2)) = vecZ j /\
    (let '(j0, j1, j2) := j in
     phys Qc Qcplus Qcmult (q_xform (v_aff _ _ v') (v_aff _ _ v)) (qc_inj j0) (qc_inj j1) (qc_inj j2)) = vecZ i.
Proof. exact history_lookup_finds_voxels. Qed.
Print Assumptions C08_history_lookup_finds_voxels.

Theorem C08_queries_do_not_change_history : forall evs A0 v g,
  length (run_events_from A0 v g evs) = length evs /\
  op_outputs evs (run_events_from A0 v g evs) = run_hist_from v g (ops_of evs).
Proof. intros. split; [apply query_outputs_aligned|apply queries_do_not_change_history]. Qed.
Print Assumptions C08_queries_do_not_change_history.

(* 15. NO LENGTH SCALE.  [svol k v] / [sgeom k g] / [saff k A] = the object with every entry of its
      affine (the three columns and the origin) multiplied by k: the same voxels measured in another unit
      of length, e.g. a whole-slide volume at 0.25 um per pixel = 1/4000 of a volume with unit pixels.
      [PosScale k] = "k > 0" as far as the order test can tell: multiplying both sides of a comparison
      by k does not change it (for the executable instance exactly 0 < k, C08_positive_scale_Qc).
      For every such k and EVERY operation of the alphabet: the operation is refused on the scaled
      receiver iff it is refused on the unscaled one, with the same error class; if accepted it has the
      same index map, shape, channels and array, and its affine is k times the affine obtained from the
      unscaled receiver - entry by entry, so no entry is ever compared with, rounded to, or replaced
      because of an absolute length.  (Found missing by seeded regression C08-m10: entries below 1e-5 mm
      were zeroed after a permutation.) *)
Theorem C08_step_has_no_length_scale :
  forall R rO rI radd rmul rsub ropp inj ltb Vx padval,
  Zring R rO rI radd rmul rsub ropp inj ->
  forall k, PosScale R rmul ltb k ->
  forall v o,
  step_tr R rO radd rmul rsub ropp inj ltb Vx padval (svol R rmul Vx k v) o =
  match step_tr R rO radd rmul rsub ropp inj ltb Vx padval v o with
  | Ok (v', f) => Ok (svol R rmul Vx k v', f)
  | Err e => Err e
  end.
Proof. exact top_step_scale. Qed.
Print Assumptions C08_step_has_no_length_scale.

(* 16. the same for EVERY finite history, of a volume and of its geometry-only object: the composed
      index map does not depend on the scale and the final object is the k-fold of the final object
      of the unscaled history *)
Theorem C08_history_has_no_length_scale :
  forall R rO rI radd rmul rsub ropp inj ltb Vx padval,
  Zring R rO rI radd rmul rsub ropp inj ->
  forall k, PosScale R rmul ltb k ->
  forall ops v,
  let r := run_tr R rO radd rmul rsub ropp inj ltb Vx padval v ops in
  run_tr R rO radd rmul rsub ropp inj ltb Vx padval (svol R rmul Vx k v) ops = (svol R rmul Vx k (fst r), snd r) /\
  grun R rO radd rmul rsub ropp inj ltb Vx (sgeom R rmul k (geom_of R Vx v)) ops =
    sgeom R rmul k (grun R rO radd rmul rsub ropp inj ltb Vx (geom_of R Vx v) ops).
Proof. exact top_history_scale. Qed.
Print Assumptions C08_history_has_no_length_scale.

(* 17. the two order-dependent observations of an affine - closest patient orientation and
      handedness - do not see the scale *)
Theorem C08_orientation_and_handedness_ignore_scale :
  forall R rO rI radd rmul rsub ropp inj ltb,
  Zring R rO rI radd rmul rsub ropp inj ->
  forall k, PosScale R rmul ltb k ->
  forall A,
  closest R rO ropp ltb (saff R rmul k A) = closest R rO ropp ltb A /\
  is_left R rO radd rmul rsub ltb (saff R rmul k A) = is_left R rO radd rmul rsub ltb A.
Proof. exact top_observations_scale. Qed.
Print Assumptions C08_orientation_and_handedness_ignore_scale.

Theorem C08_positive_scale_Qc : forall k : Qc,
  PosScale Qc Qcmult qc_ltb k <-> qc_ltb (Q2Qc 0) k = true.
Proof. exact PosScale_Qc. Qed.
Print Assumptions C08_positive_scale_Qc.

(* non-vacuity of 15-17: a slide volume at 0.25 um per pixel, tilted by 1.15 degrees: off-axis entries
   of 1/200020 mm (5e-6 mm) and an origin component of 3e-6 mm; it is the 1/4000-fold of a volume
   with unit pixels; after a cyclic permutation and a handedness fix by swapping axes the tiny
   entries are at their new places, unchanged *)
Example C08_example_micro_scale :
  qc_ltb (Q2Qc 0%Q) ex_k = true /\
  this (vy (c0 (v_aff _ _ ex_micro))) = (1 # 200020)%Q /\ this (vz (tr (v_aff _ _ ex_micro))) = (3 # 1000000)%Q /\
  let r := run_tr Qc (Q2Qc 0) Qcplus Qcmult Qcminus Qcopp qc_inj qc_ltb Q q_padval ex_micro ex_ops_scale in
  v_shape _ _ (fst r) = (2, 3, 2) /\ snd r (1, 2, 0) = Some (0, 2, 1) /\
  this (vy (c2 (v_aff _ _ (fst r)))) = (1 # 200020)%Q /\ this (vx (c1 (v_aff _ _ (fst r)))) = (-1 # 200020)%Q /\
  this (vz (tr (v_aff _ _ (fst r)))) = (3 # 1000000)%Q.
Proof. exact ex_scale. Qed.
Print Assumptions C08_example_micro_scale.

(* ---- non-vacuity of 10-12 *)
Example C08_example_dominant : Dom Qc (Q2Qc 0) Qcopp qc_ltb ex_aff (2, true) (1, false) (0, false).
Proof. exact ex_dom. Qed.
Print Assumptions C08_example_dominant.

Example C08_example_orientation :
  wf (v_shape _ _ ex_vol2) /\
  closest Qc (Q2Qc 0) Qcopp qc_ltb (v_aff _ _ ex_vol2) = [4; 3; 1] /\
  match q_step_tr ex_vol2 (Sp (OOrient [5; 2; 0])) with
  | Ok (v', f) => closest Qc (Q2Qc 0) Qcopp qc_ltb (v_aff _ _ v') = [5; 2; 0] /\
                  v_shape _ _ v' = (2, 3, 2) /\ f (0, 0, 0) = Some (1, 2, 1)
  | Err _ => False
  end.
Proof. exact ex_orientation. Qed.
Print Assumptions C08_example_orientation.

Example C08_example_rearrangements :
  forallb (op_rearr Q) ex_ops_rearr = true /\ forallb (op_nopad Q) (Sp (OCropTo [1; 2; 2]) :: ex_ops_rearr) = true /\
  let r := run_tr Qc (Q2Qc 0) Qcplus Qcmult Qcminus Qcopp qc_inj qc_ltb Q q_padval ex_vol2 ex_ops_rearr in
  v_shape _ _ (fst r) = (3, 2, 2) /\ snd r (0, 0, 0) = Some (1, 0, 0) /\ snd r (2, 1, 1) = Some (0, 2, 1).
Proof. exact ex_rearr. Qed.
Print Assumptions C08_example_rearrangements.

Example C08_example_geometry_history :
  Forall (op_modes_ok Q) ex_ops_rearr /\
  g_shape _ (grun Qc (Q2Qc 0) Qcplus Qcmult Qcminus Qcopp qc_inj qc_ltb Q (geom_of _ _ ex_vol2) ex_ops_rearr) = (3, 2, 2).
Proof. exact ex_geometry_history. Qed.
Print Assumptions C08_example_geometry_history.

(* ---- non-vacuity: a rotated, left-handed 2x3x2 volume with one channel dimension; a history
   of five accepted operations incl. a negative-step slice ending at index 0, a per-channel
   MEAN pad, a re-orientation and a handedness fix; voxel (0,0,2) of the result descends from
   initial voxel (1,2,0) *)
Definition ex_vol : qvol :=
  mkvol (Aff (V (q 0 1) (q 3 5) (q 4 5)) (V (q 0 1) (q (-4) 5) (q 3 5)) (V (q (-2) 1) (q 0 1) (q 0 1))
             (V (q 1 2) (q 0 1) (q (-7) 1)))
        (2, 3, 2) [(0, [1; 2])] (map inject_Z [1;2;3;4;5;6;7;8;9;10;11;12;13;14;15;16;17;18;19;20;21;22;23;24])
        true true (Some 5).
Definition ex_ops : list qop :=
  [Sp (OGet (XTup [IInt 1; ISlc None None (Some (-1))]));
   Sp (OPad (PWNest [[1; 0]; [0; 0]; [0; 1]]) PMean (Qmake 0 1) true);
   Sp (OOrient [5; 2; 0]);
   Sp (OHanded HRight (Some 1) None);
   GetChannel false [(0, 2)]].

Example C08_example_history :
  wf (v_shape _ _ ex_vol) /\ no_with_array ex_ops = true /\
  let r := run_tr Qc (Q2Qc 0) Qcplus Qcmult Qcminus Qcopp qc_inj qc_ltb Q q_padval ex_vol ex_ops in
  v_shape _ _ (fst r) = (2, 3, 3) /\ snd r (0, 0, 2) = Some (1, 2, 0) /\ snd r (0, 0, 0) = None /\
  v_arr _ _ (fst r) (0, 0, 2) [] = v_arr _ _ ex_vol (1, 2, 0) [1].
Proof. vm_compute. repeat split; reflexivity. Qed.
Print Assumptions C08_example_history.

(* non-vacuity of 14: ex_vol2 is scaled orthogonal; after a slice with a negative step of 2, an
   EDGE pad, a re-orientation and a handedness fix the coordinate -> index query of the result,
   asked for the coordinate initial voxel (1,2,0) had, answers (0,0,2) - its descendant *)
Example C08_example_lookup :
  wf (v_shape _ _ ex_vol2) /\ scaled_orthogonal Qc (Q2Qc 0) Qcplus Qcmult (v_aff _ _ ex_vol2) /\
  let r := run_tr Qc (Q2Qc 0) Qcplus Qcmult Qcminus Qcopp qc_inj qc_ltb Q q_padval ex_vol2 ex_ops_inv in
  v_shape _ _ (fst r) = (2, 2, 3) /\ snd r (0, 0, 2) = Some (1, 2, 0) /\
  vec_int (q_lookup (v_aff _ _ (fst r)) (q_phys (v_aff _ _ ex_vol2) (1, 2, 0))) = Some (0, 0, 2) /\
  vec_int (q_lookup (v_aff _ _ ex_vol2) (q_phys (v_aff _ _ ex_vol2) (1, 2, 0))) = Some (1, 2, 0).
Proof. exact ex_lookup. Qed.
Print Assumptions C08_example_lookup.

(* 16. "new voxels are padding" for EVERY finite history - where each voxel of the result comes
       from.  With Phi the composed index map: a voxel with Phi j = Some i is initial voxel i at
       its coordinate (3.); a voxel with Phi j = None descends from a voxel m of an intermediate
       object vmid that ONE pad-family operation of the history (pad, pad_to_spatial_shape,
       pad_or_crop_to_spatial_shape: nopad s = false) created: vmid IS the result of a Volume.pad
       call on vpre (the receiver, or its crop) in which m is a new voxel (fp m = None - so 4.
       gives its value: edge / constant / statistic of vpre), the rest of the history (ops2) carries
       m to j, j lies at exactly the physical coordinate the padding voxel m had, and - no with_array
       in ops2 - holds the value written by that pad, up to one channel re-indexing *)
Theorem C08_history_new_voxels_are_padding :
  forall R rO rI radd rmul rsub ropp inj ltb Vx padval,
  Zring R rO rI radd rmul rsub ropp inj ->
  forall ops (v : vol R Vx), wf (v_shape R Vx v) ->
  let r := run_tr R rO radd rmul rsub ropp inj ltb Vx padval v ops in
  forall j, inr (v_shape R Vx (fst r)) j ->
  match snd r j with
  | Some i => inr (v_shape R Vx v) i /\
              physZ R radd rmul inj (v_aff R Vx (fst r)) j = physZ R radd rmul inj (v_aff R Vx v) i
  | None =>
      exists ops1 s ops2 vpre w md cv pc vmid fp l m,
        ops = (ops1 ++ Sp s :: ops2)%list /\ nopad s = false /\
        step R rO radd rmul rsub ropp inj ltb Vx padval
             (run R rO radd rmul rsub ropp inj ltb Vx padval v ops1) (Sp s) = Ok vmid /\
        vol_pad R radd rmul inj Vx padval vpre w md cv pc = Ok (vmid, fp) /\ prep_pad_width w = Ok l /\
        wf (v_shape R Vx vpre) /\
        v_chans R Vx vpre = v_chans R Vx (run R rO radd rmul rsub ropp inj ltb Vx padval v ops1) /\
        inr (v_shape R Vx vmid) m /\ fp m = None /\
        fst (run_tr R rO radd rmul rsub ropp inj ltb Vx padval vmid ops2) = fst r /\
        snd (run_tr R rO radd rmul rsub ropp inj ltb Vx padval vmid ops2) j = Some m /\
        physZ R radd rmul inj (v_aff R Vx (fst r)) j = physZ R radd rmul inj (v_aff R Vx vmid) m /\
        (no_with_array ops2 = true ->
         exists psi : list Z -> list Z, forall c, v_arr R Vx (fst r) j c = v_arr R Vx vmid m (psi c))
  end.
Proof. exact history_new_voxels_are_padding. Qed.
Print Assumptions C08_history_new_voxels_are_padding.

(* 16b. one operation: a voxel without pre-image is written by a pad call *)
Theorem C08_new_voxel_comes_from_pad :
  forall R rO radd rmul rsub ropp inj ltb Vx padval (v : vol R Vx) o v' f m,
  vol_step_sp R rO radd rmul rsub ropp inj ltb Vx padval v o = Ok (v', f) -> wf (v_shape R Vx v) ->
  inr (v_shape R Vx v') m -> f m = None ->
  nopad o = false /\
  exists vpre w md cv pc fp l,
    vol_pad R radd rmul inj Vx padval vpre w md cv pc = Ok (v', fp) /\ prep_pad_width w = Ok l /\ fp m = None /\
    wf (v_shape R Vx vpre) /\ v_chans R Vx vpre = v_chans R Vx v.
Proof. exact new_voxel_comes_from_pad. Qed.
Print Assumptions C08_new_voxel_comes_from_pad.

(* non-vacuity of 16: reverse, pad_or_crop_to (3,2,3) with the MEAN, flip, cyclic permutation, EDGE
   pad, crop_to (4,4,3) on the rotated left-handed 2x3x2 volume.  Result voxel (2,1,1) is initial
   voxel (1,0,1); (1,3,1) descends from voxel (2,0,2) that the MEAN pad created with value 5;
   (0,0,0) was created by the later EDGE pad *)
Example C08_example_history_padding :
  wf (v_shape _ _ ex_vol2) /\ no_with_array ex_h_ops2 = true /\ nopad ex_h_pad = false /\
  let r := q_run_tr ex_vol2 (ex_h_ops1 ++ Sp ex_h_pad :: ex_h_ops2) in
  v_shape _ _ (fst r) = (4, 4, 3) /\ snd r (2, 1, 1) = Some (1, 0, 1) /\
  snd r (1, 3, 1) = None /\ snd r (0, 0, 0) = None /\
  match q_step_tr (q_run ex_vol2 ex_h_ops1) (Sp ex_h_pad) with
  | Ok (vmid, f) =>
      v_shape _ _ vmid = (3, 2, 3) /\ f (2, 0, 2) = None /\
      snd (q_run_tr vmid ex_h_ops2) (1, 3, 1) = Some (2, 0, 2) /\
      snd (q_run_tr vmid ex_h_ops2) (0, 0, 0) = None /\
      v_arr _ _ (fst r) (1, 3, 1) [] = v_arr _ _ vmid (2, 0, 2) [] /\
      v_arr _ _ vmid (2, 0, 2) [] = inject_Z 5
  | Err _ => False
  end.
Proof. exact ex_history_padding. Qed.
Print Assumptions C08_example_history_padding.

(* 17. the residue of 10 is settled: WITH ties [C08_orientation_reached] is FALSE of the faithful
       model.  A scaled orthogonal patient volume whose first two columns lie at exactly 45 degrees
       between two patient axes has closest orientation L A H; the request A L H is accepted and the
       closest orientation of the result is L P H.  The real code replays it.  No voxel moves (1.-3.
       hold for this operation as for every other) *)
Theorem C08_orientation_reached_with_ties_refuted :
  exists (v : qvol) o v' f,
    wf (v_shape _ _ v) /\ scaled_orthogonal Qc (Q2Qc 0) Qcplus Qcmult (v_aff _ _ v) /\
    v_patient _ _ v = true /\ normalize_orientation o = Ok o /\
    closest Qc (Q2Qc 0) Qcopp qc_ltb (v_aff _ _ v) = [0; 3; 4] /\
    q_step_tr v (Sp (OOrient o)) = Ok (v', f) /\
    o = [3; 0; 4] /\ closest Qc (Q2Qc 0) Qcopp qc_ltb (v_aff _ _ v') = [0; 2; 4] /\
    closest Qc (Q2Qc 0) Qcopp qc_ltb (v_aff _ _ v') <> o.
Proof. exact orientation_reached_with_ties_refuted. Qed.
Print Assumptions C08_orientation_reached_with_ties_refuted.

(* 18. index items of foreign types (numpy integers, floats, lists, None, Ellipsis, str; bool is an
       int).  [getitem_ext] = the type dispatch of _prepare_getitem_index in front of the checks: an
       index that is accepted consists of at most three ints / slices that pass their bounds checks
       (so it IS an index of theorems 1-3); an index holding a foreign item is never accepted; the
       refusal is a TypeError exactly when there are at most three items and every item before the
       first foreign one passes its own check (an out-of-range item in front wins, more than three
       items are refused first) *)
Theorem C08_getitem_accepted_index_is_ints_and_slices : forall shape x ix,
  getitem_ext shape x = Ok ix ->
  exists its, x = XOk (map Some its) /\ ix = XTup its /\ Z.of_nat (length its) <= 3 /\
              exists sl, check_items shape 0 its = Ok sl.
Proof. exact getitem_ext_sound. Qed.
Print Assumptions C08_getitem_accepted_index_is_ints_and_slices.

Theorem C08_getitem_foreign_item_refused : forall shape,
  getitem_ext shape XBadType = Err "TypeError" /\
  forall l, In None l -> exists k, getitem_ext shape (XOk l) = Err k.
Proof. exact getitem_ext_foreign_refused. Qed.
Print Assumptions C08_getitem_foreign_item_refused.

Theorem C08_getitem_type_error_iff : forall shape l,
  getitem_ext shape (XOk l) = Err "TypeError" <->
  (Z.of_nat (length l) <= 3 /\
   exists pre post sl, l = (map Some pre ++ None :: post)%list /\ check_items shape 0 pre = Ok sl).
Proof. exact getitem_ext_type_error_iff. Qed.
Print Assumptions C08_getitem_type_error_iff.

(* 19. VolumeToVolumeTransformer(initial, result).__call__ - plain, and with round_output=True,
       check_bounds=True - asked of the result of ANY finite history from a scaled orthogonal volume
       for an initial voxel i that survives as voxel j (Phi j = Some i): the plain call answers exactly
       j, the rounded bounds-checked call is accepted and answers j *)
Theorem C08_history_transformer_call_finds_voxels : forall (ops : list qop) (v : qvol),
  wf (v_shape _ _ v) -> scaled_orthogonal Qc (Q2Qc 0) Qcplus Qcmult (v_aff _ _ v) ->
  let v' := fst (q_run_tr v ops) in
  let Phi := snd (q_run_tr v ops) in
  forall j, inr (v_shape _ _ v') j -> forall i, Phi j = Some i ->
  forall vals,
    observe (v_aff _ _ v) (v_aff _ _ v') (v_shape _ _ v') vals (QXfCall [i]) = VL (vvec (vecZ j)) /\
    observe (v_aff _ _ v) (v_aff _ _ v') (v_shape _ _ v') vals (QXfRound [i]) =
      VL [let '(j0, j1, j2) := j in VL [VZ j0; VZ j1; VZ j2]].
Proof. exact history_transformer_call_finds_voxels. Qed.
Print Assumptions C08_history_transformer_call_finds_voxels.

(* 20. THE PROPERTY SENTENCE as one statement.  For every finite history (refused operations leave
       the object as it was) from a volume with shape >= 1 and a scaled orthogonal affine, whose pad
       modes are valid names: the result has shape >= 1, a scaled orthogonal affine, the same
       coordinate system and frame of reference; every voxel of the result is either a retained voxel
       found at exactly the physical coordinate it had, or descends from a padding voxel written by
       one pad call of the history and lies where that padding voxel lay; no voxel is duplicated;
       retained voxels keep their values (up to one channel re-indexing when channel operations
       occur, if no with_array occurs); spatial operations and copies leave the channel table
       untouched; and the geometry-only object driven through the same history ends with exactly
       the geometry of the volume.  (The original object is unchanged by construction: the model is
       functional; the correspondence run checks the receiver after every call.) *)
Theorem C08_property_end_to_end :
  forall R rO rI radd rmul rsub ropp inj ltb Vx padval,
  Zring R rO rI radd rmul rsub ropp inj ->
  forall ops (v : vol R Vx),
  wf (v_shape R Vx v) -> scaled_orthogonal R rO radd rmul (v_aff R Vx v) -> Forall (op_modes_ok Vx) ops ->
  let r := run_tr R rO radd rmul rsub ropp inj ltb Vx padval v ops in
  let v' := fst r in
  wf (v_shape R Vx v') /\ scaled_orthogonal R rO radd rmul (v_aff R Vx v') /\
  v_patient R Vx v' = v_patient R Vx v /\ v_for R Vx v' = v_for R Vx v /\
  (forall j, inr (v_shape R Vx v') j ->
     match snd r j with
     | Some i => inr (v_shape R Vx v) i /\
                 physZ R radd rmul inj (v_aff R Vx v') j = physZ R radd rmul inj (v_aff R Vx v) i
     | None => exists ops1 s ops2 vpre w md cv pc vmid fp l m,
         ops = (ops1 ++ Sp s :: ops2)%list /\ nopad s = false /\
         vol_pad R radd rmul inj Vx padval vpre w md cv pc = Ok (vmid, fp) /\ prep_pad_width w = Ok l /\
         inr (v_shape R Vx vmid) m /\ fp m = None /\
         snd (run_tr R rO radd rmul rsub ropp inj ltb Vx padval vmid ops2) j = Some m /\
         physZ R radd rmul inj (v_aff R Vx v') j = physZ R radd rmul inj (v_aff R Vx vmid) m
     end) /\
  (forall j j' i, inr (v_shape R Vx v') j -> inr (v_shape R Vx v') j' ->
     snd r j = Some i -> snd r j' = Some i -> j = j') /\
  (no_with_array ops = true ->
   exists psi : list Z -> list Z, forall j, inr (v_shape R Vx v') j -> forall i, snd r j = Some i ->
     forall c, v_arr R Vx v' j c = v_arr R Vx v i (psi c)) /\
  (forallb op_spatial ops = true -> v_chans R Vx v' = v_chans R Vx v) /\
  geom_of R Vx v' = grun R rO radd rmul rsub ropp inj ltb Vx (geom_of R Vx v) ops.
Proof. exact property_end_to_end. Qed.
Print Assumptions C08_property_end_to_end.

Example C08_example_end_to_end :
  let ops := (ex_h_ops1 ++ Sp ex_h_pad :: ex_h_ops2)%list in
  wf (v_shape _ _ ex_vol2) /\ scaled_orthogonal Qc (Q2Qc 0) Qcplus Qcmult (v_aff _ _ ex_vol2) /\
  Forall (op_modes_ok Q) ops /\ forallb op_spatial ops = true /\ no_with_array ops = true /\
  v_shape _ _ (fst (q_run_tr ex_vol2 ops)) = (4, 4, 3).
Proof. exact ex_end_to_end. Qed.
Print Assumptions C08_example_end_to_end.

(* 21. the convention-facing and DICOM-facing queries speak about the same points: the affine
       returned by get_affine(output_convention) sends every index to the convention image (rows
       permuted / negated) of the point the LPH affine sends it to - a change of convention moves no
       voxel; get_plane_position(k) is the physical coordinate of voxel (k, 0, 0) *)
Theorem C08_convention_moves_no_voxel : forall d0 d1 d2 (A : aff Qc) (i j k : Qc),
  phys Qc Qcplus Qcmult (conv_aff d0 d1 d2 A) i j k = conv_vec d0 d1 d2 (phys Qc Qcplus Qcmult A i j k).
Proof. exact convention_moves_no_voxel. Qed.
Print Assumptions C08_convention_moves_no_voxel.

Theorem C08_plane_position_is_voxel_coordinate : forall A0 A shape vals k,
  0 <= k < (let '(n0, _, _) := shape in n0) ->
  observe A0 A shape vals (QPlanePos [k]) = VL [VL (vvec (q_phys A (k, 0, 0)))].
Proof. exact plane_position_is_voxel_coordinate. Qed.
Print Assumptions C08_plane_position_is_voxel_coordinate.
