(* C03 - proofs, part 6: the allow_missing_positions = False read-back (the default of the
   plain Image interface) on a COMPLETE stack p0 + m sp n, m ranging over S >= 2 consecutive
   integers in any order: the rank-based volume index of plane m is m - m0, the spacing is
   (Qeq) sp, the origin is the plane m0 - i.e. the strict branch agrees with the
   gap-tolerant one proved in C03_Proofs_Stack.v. *)
From Coq Require Import String ZArith List Bool Lia QArith Qround Qfield Lqa Permutation Sorted FinFun.
From HD Require Import Base.Val Base.PySlice C03_Model C03_Proofs_Geom C03_Proofs_Stack C03_Proofs_Infer.
Import ListNotations.

Open Scope Z_scope.
Lemma count_lt_zrange : forall k a m,
  length (filter (fun x => x <? m) (zrange_from a k)) = Z.to_nat (Z.max 0 (Z.min (Z.of_nat k) (m - a))).
Proof.
  induction k as [|k IH]; intros a m; [cbn; lia|].
  cbn [zrange_from filter]. destruct (a <? m) eqn:E; cbn [length]; rewrite IH; lia.
Qed.
Lemma count_perm : forall (f : Z -> bool) l l', Permutation l l' -> length (filter f l) = length (filter f l').
Proof.
  intros f l l' P. induction P as [|x l l' P IH|x y l|l l' l'' P1 IH1 P2 IH2]; cbn [filter].
  - reflexivity.
  - destruct (f x); cbn [length]; rewrite IH; reflexivity.
  - destruct (f x), (f y); reflexivity.
  - congruence.
Qed.

Lemma Forall2_map_eq_in : forall {A B C} (R : A -> B -> Prop) (f : A -> C) (g : B -> C) l1 l2,
  Forall2 R l1 l2 -> (forall a b, In b l2 -> R a b -> f a = g b) -> map f l1 = map g l2.
Proof.
  intros A B C R f g l1 l2 H. induction H as [|x y l1 l2 Hxy H IH]; intros Hfg; [reflexivity|].
  cbn [map]. rewrite (Hfg x y (or_introl eq_refl) Hxy), IH; [reflexivity|].
  intros a b Hb. apply Hfg. right. exact Hb.
Qed.

Open Scope Q_scope.
Section Strict.
  Variables (rowcos colcos p0 : v3) (sp : Q).
  Notation n := (normal rowcos colcos).
  Hypothesis Hn : vdot n n == 1.
  Hypothesis Hsp : 0 < sp.
  Notation c0 := (vdot n p0).
  Notation OL := (on_line n p0 sp).
  Notation DR := (fun (d : Q) (m : Z) => d == c0 + inject_Z m * sp).

  Lemma DR_lt_bool : forall d1 m1 d2 m2, DR d1 m1 -> DR d2 m2 -> qlt_bool d1 d2 = (m1 <? m2)%Z.
  Proof.
    intros d1 m1 d2 m2 H1 H2. unfold qlt_bool.
    pose proof (DR_le rowcos colcos p0 sp Hsp d2 m2 d1 m1 H2 H1) as L.
    destruct (Qle_bool d2 d1) eqn:E; cbn [negb].
    - apply Qle_bool_iff in E. apply L in E. lia.
    - assert (~ d2 <= d1) by (intros C; apply Qle_bool_iff in C; congruence).
      assert (~ (m2 <= m1)%Z) by (intros C; apply L in C; contradiction). lia.
  Qed.

  Lemma rank_labels : forall ds ms d m, Forall2 DR ds ms -> DR d m ->
    length (filter (fun d' => qlt_bool d' d) ds) = length (filter (fun m' => (m' <? m)%Z) ms).
  Proof.
    intros ds ms d m H Hd. induction H as [|d' m' ds ms Hdm H IH]; [reflexivity|].
    cbn [filter]. rewrite (DR_lt_bool _ _ _ _ Hdm Hd). destruct (m' <? m)%Z; cbn [length]; rewrite IH; reflexivity.
  Qed.

  (* the strict branch on a complete stack; hint = None or the recorded spacing *)
  Lemma core_complete : forall ps ms m0 hint, Forall2 OL ps ms -> NoDup ms -> (2 <= length ms)%nat ->
    (forall m, In m ms -> (m0 <= m <= m0 + Z.of_nat (length ms) - 1)%Z) ->
    (hint = None \/ exists h, hint = Some h /\ h == sp) ->
    exists sp', sp' == sp /\
      vol_positions_core false hint rowcos colcos ps = Ok (Some (sp', map (fun m => (m - m0)%Z) ms)).
  Proof.
    intros ps ms m0 hint H Hnd Hlen Hrange Hhint.
    pose proof (line_distances rowcos colcos p0 sp Hn ps ms H) as HD.
    assert (Hne : map (vdot n) ps <> []).
    { intros E. rewrite E in HD. inversion HD; subst. cbn in Hlen. lia. }
    destruct (line_min rowcos colcos p0 sp Hsp _ _ HD Hne) as (mmin & Hmin_in & Hmin_d & Hmin_all).
    destruct (line_max rowcos colcos p0 sp Hsp _ _ HD Hne) as (mmax & Hmax_in & Hmax_d & Hmax_all).
    destruct (Forall2_perm_l _ _ _ _ (Permutation_sym (qsort_perm (map (vdot n) ps))) HD) as (ns & Pns & Fns).
    assert (Hns : ns = zrange_from m0 (length ns)).
    { apply incr_consecutive.
      - apply (sorted_labels rowcos colcos p0 sp Hsp _ _ (qsort_sorted _) Fns). apply (Permutation_NoDup Pns Hnd).
      - intros x Hx. rewrite <- (Permutation_length Pns). apply Hrange.
        apply (Permutation_in _ (Permutation_sym Pns) Hx). }
    assert (Hlenns : length ns = length ms) by (symmetry; apply Permutation_length; exact Pns).
    assert (Em0 : In m0 ms).
    { apply (Permutation_in _ (Permutation_sym Pns)). rewrite Hns. apply zrange_from_in. lia. }
    assert (Em1 : In (m0 + Z.of_nat (length ms) - 1)%Z ms).
    { apply (Permutation_in _ (Permutation_sym Pns)). rewrite Hns. apply zrange_from_in. lia. }
    assert (Emin : mmin = m0) by (pose proof (Hmin_all _ Em0); pose proof (Hrange _ Hmin_in); lia).
    assert (Emax : mmax = (m0 + Z.of_nat (length ms) - 1)%Z)
      by (pose proof (Hmax_all _ Em1); pose proof (Hrange _ Hmax_in); lia).
    assert (Hlt : mmin <> mmax) by lia.
    pose proof Fns as Fns'. rewrite Hns in Fns'. pose proof (diffs_consecutive rowcos colcos p0 sp _ _ _ Fns') as Hdiffs.
    unfold vol_positions_core. cbv zeta.
    set (ds := map (vdot n) ps) in *.
    set (dmin := qmin_list (hd 0 ds) ds) in *. set (dmax := qmax_list (hd 0 ds) ds) in *.
    assert (Hcnt : length ds = length ms) by (subst ds; rewrite map_length; apply (Forall2_len _ _ _ H)).
    set (sp' := (dmax - dmin) / inject_Z (Z.of_nat (length ds) - 1)).
    assert (Esp : sp' == sp).
    { subst sp'. rewrite Hmin_d, Hmax_d, Emin, Emax, Hcnt.
      assert (Hk : 0 < inject_Z (Z.of_nat (length ms) - 1)).
      { change 0 with (inject_Z 0). rewrite <- Zlt_Qlt. lia. }
      replace (m0 + Z.of_nat (length ms) - 1)%Z with (m0 + (Z.of_nat (length ms) - 1))%Z by lia.
      rewrite inject_Z_plus. field. lra. }
    assert (Hpos : 0 < sp') by (rewrite Esp; exact Hsp).
    (* the hint agrees *)
    assert (Ehint : negb (match hint with Some h => isclose RTOL (qabs sp') h | None => true end) = false).
    { destruct Hhint as [-> | (h & -> & Eh)]; [reflexivity|]. apply negb_false_iff.
      unfold isclose. apply Qle_bool_iff. rewrite (qabs_pos _ Hpos).
      assert (E : sp' - h == 0) by (rewrite Esp, Eh; ring).
      rewrite (qabs_zero _ E). apply Qmult_le_0_compat; [unfold RTOL; lra|apply qabs_nonneg]. }
    rewrite Ehint.
    (* extreme positions, perpendicularity *)
    destruct (Forall2_in_r _ _ _ _ H Hmin_in) as (q1 & Hq1 & Rq1).
    destruct (Forall2_in_r _ _ _ _ H Hmax_in) as (q2 & Hq2 & Rq2).
    destruct (find_pos_map (vdot n) (fun d => Qeq_bool d dmin) ps) as (p1 & E1 & Hp1 & Hd1).
    { exists q1. split; [exact Hq1|]. apply Qeq_bool_iff.
      rewrite (line_distance rowcos colcos p0 sp Hn _ _ Rq1). symmetry. exact Hmin_d. }
    destruct (find_pos_map (vdot n) (fun d => Qeq_bool d dmax) ps) as (p2 & E2 & Hp2 & Hd2).
    { exists q2. split; [exact Hq2|]. apply Qeq_bool_iff.
      rewrite (line_distance rowcos colcos p0 sp Hn _ _ Rq2). symmetry. exact Hmax_d. }
    fold ds in E1, E2. rewrite E1, E2.
    destruct (Forall2_in_l _ _ _ _ H Hp1) as (m1 & Hm1 & R1).
    destruct (Forall2_in_l _ _ _ _ H Hp2) as (m2 & Hm2 & R2).
    apply Qeq_bool_iff in Hd1, Hd2.
    assert (m1 = mmin).
    { apply (DR_eq rowcos colcos p0 sp Hsp (vdot n p1) m1 dmin mmin);
        [apply (line_distance rowcos colcos p0 sp Hn); exact R1|exact Hmin_d|exact Hd1]. }
    assert (m2 = mmax).
    { apply (DR_eq rowcos colcos p0 sp Hsp (vdot n p2) m2 dmax mmax);
        [apply (line_distance rowcos colcos p0 sp Hn); exact R2|exact Hmax_d|exact Hd2]. }
    subst m1 m2.
    rewrite (line_perp rowcos colcos p0 sp Hn Hsp p1 mmin p2 mmax R1 R2 Hlt).
    assert (Ereg : forallb (fun d => isclose RTOL d sp') (diffs (qsort ds)) = true).
    { apply forallb_forall. intros d Hd. rewrite Forall_forall in Hdiffs. specialize (Hdiffs d Hd).
      unfold isclose. apply Qle_bool_iff.
      assert (E : d - sp' == 0) by (rewrite Hdiffs, Esp; ring).
      rewrite (qabs_zero _ E). apply Qmult_le_0_compat; [unfold RTOL; lra|apply qabs_nonneg]. }
    fold sp'. rewrite Ereg. cbn [andb].
    (* rank of each distance = m - m0 *)
    assert (Eidx : map (fun d => Z.of_nat (length (filter (fun d' => qlt_bool d' d) ds))) ds
                   = map (fun m => (m - m0)%Z) ms).
    { apply (Forall2_map_eq_in _ _ _ _ _ HD). intros d m Hm Hdm.
      rewrite (rank_labels ds ms d m HD Hdm).
      rewrite (count_perm (fun m' => (m' <? m)%Z) ms ns Pns), Hns, count_lt_zrange.
      specialize (Hrange m Hm). lia. }
    rewrite Eidx. exists (qabs sp'). split; [rewrite (qabs_pos _ Hpos); exact Esp|reflexivity].
  Qed.

  (* stacked_full, strict branch, complete stack *)
  Lemma stacked_complete : forall st ms m0,
    st_rowcos st = rowcos -> st_colcos st = colcos ->
    (st_sbs st = None \/ exists h, st_sbs st = Some h /\ h == sp) ->
    Forall2 OL (map fst (st_planes st)) ms -> NoDup ms -> (2 <= length ms)%nat ->
    (forall m, In m ms -> (m0 <= m <= m0 + Z.of_nat (length ms) - 1)%Z) ->
    exists origin sp',
      sp' == sp /\ In origin (map fst (st_planes st)) /\ OL origin m0 /\
      stacked_full false st =
      Ok (attr_aff origin rowcos colcos (st_spr st) (st_spc st) sp', Z.of_nat (length ms),
          map (fun m => (m - m0)%Z) ms).
  Proof.
    intros st ms m0 Hrc Hcc Hsbs H Hnd Hlen Hrange.
    set (hint' := match st_sbs st with Some h => Some (qabs h) | None => None end).
    assert (Hh' : hint' = None \/ exists h, hint' = Some h /\ h == sp).
    { subst hint'. destruct Hsbs as [-> | (h & -> & Eh)]; [left; reflexivity|].
      right. exists (qabs h). split; [reflexivity|].
      assert (0 < h) by (rewrite Eh; exact Hsp). rewrite (qabs_pos _ H0). exact Eh. }
    destruct (core_complete _ ms m0 hint' H Hnd Hlen Hrange Hh') as (sp' & Esp & Ecore).
    assert (Em0 : In m0 ms).
    { (* m0 is attained: NoDup list of length S inside a range of size S *)
      destruct (in_dec Z.eq_dec m0 ms) as [Hin | Hnin]; [exact Hin|exfalso].
      assert (Hr' : forall m, In m ms -> (m0 + 1 <= m <= m0 + Z.of_nat (length ms) - 1)%Z).
      { intros m Hm. specialize (Hrange m Hm). assert (m <> m0) by (intros ->; contradiction). lia. }
      assert (Hincl : incl ms (zrange_from (m0 + 1) (length ms - 1))).
      { intros m Hm. apply zrange_from_in. specialize (Hr' m Hm). lia. }
      pose proof (NoDup_incl_length Hnd Hincl) as L. rewrite zrange_from_length in L. lia. }
    destruct (find_idx0_line OL _ _ m0 H Em0) as (origin & Eo & Hino & Ro).
    exists origin, sp'. split; [exact Esp|]. split; [exact Hino|]. split; [exact Ro|].
    unfold stacked_full, bind, get_volume_positions. rewrite Hrc, Hcc. fold hint'.
    assert (Ez : match hint' with Some h => Qeq_bool h 0 | None => false end = false).
    { destruct Hh' as [-> | (h & -> & Eh)]; [reflexivity|].
      destruct (Qeq_bool h 0) eqn:E; [|reflexivity]. apply Qeq_bool_iff in E. lra. }
    rewrite Ez.
    destruct (map fst (st_planes st)) as [|a [|b l]] eqn:EP.
    { inversion H; subst. cbn in Hlen. lia. }
    { inversion H as [|? ? ? ? ? Ht]; subst. inversion Ht; subst. cbn in Hlen. lia. }
    rewrite Ecore. rewrite Eo.
    f_equal. f_equal. f_equal.
    (* number of slices = max index + 1 = S *)
    destruct (zmax_list_spec (map (fun m => (m - m0)%Z) ms) 0) as (Hzin & Hz0 & Hzall).
    assert (Hlast : In (m0 + Z.of_nat (length ms) - 1)%Z ms).
    { destruct (in_dec Z.eq_dec (m0 + Z.of_nat (length ms) - 1)%Z ms) as [Hin | Hnin]; [exact Hin|exfalso].
      assert (Hincl : incl ms (zrange_from m0 (length ms - 1))).
      { intros m Hm. apply zrange_from_in. specialize (Hrange m Hm).
        assert (m <> (m0 + Z.of_nat (length ms) - 1)%Z) by (intros ->; contradiction). lia. }
      pose proof (NoDup_incl_length Hnd Hincl) as L. rewrite zrange_from_length in L. lia. }
    assert (Hge : (Z.of_nat (length ms) - 1 <= zmax_list 0 (map (fun m => (m - m0)%Z) ms))%Z).
    { apply Hzall. apply in_map_iff. exists (m0 + Z.of_nat (length ms) - 1)%Z. split; [lia|exact Hlast]. }
    destruct Hzin as [Ez0 | Hzin]; [lia|].
    apply in_map_iff in Hzin as (m & Em & Hm). specialize (Hrange m Hm). lia.
  Qed.
End Strict.

(* ---- a volume, every slice stored, read back through the strict branch ---------------------- *)
Lemma on_line_spacing : forall nn p0 sp sp' p m, sp' == sp -> on_line nn p0 sp p m -> on_line nn p0 sp' p m.
Proof.
  intros nn p0 sp sp' p m E (X & Y & Z). unfold on_line, veq, vadd, vscale in *; cbn [vx vy vz] in *.
  rewrite X, Y, Z, E. repeat split; reflexivity.
Qed.

Theorem volume_stacked_strict : forall (pos d0 d1 d2 : v3) (s0 s1 s2 : Q) (sg : Z),
  (sg = 1 \/ sg = -1)%Z -> vdot d1 d1 == 1 -> vdot d2 d2 == 1 -> vdot d1 d2 == 0 ->
  d0 =v= vscale (inject_Z sg) (vcross d1 d2) -> 0 < s0 ->
  forall rows cols arr, (2 <= length arr)%nat ->
  let A := vol_aff pos d0 d1 d2 s0 s1 s2 in
  let st := seg_from_volume pos d0 d1 d2 s0 s1 s2 rows cols arr false in
  let S := Z.of_nat (length arr) in
  let j := (if sg =? 1 then 0 else S - 1)%Z in
  exists sp',
    sp' == s0 /\
    stacked_full false st =
    Ok (attr_aff (physZ A j 0 0) d2 d1 s1 s2 sp', S,
        map (fun i => (sg * (i - j))%Z) (zrange_from 0 (length arr))) /\
    (forall i r c : Z,
       physZ (attr_aff (physZ A j 0 0) d2 d1 s1 s2 sp') (sg * (i - j)) r c =v= physZ A i r c).
Proof.
  intros pos d0 d1 d2 s0 s1 s2 sg Hsg H11 H22 H12 H0 Hs0 rows cols arr Hlen A st S j.
  pose proof (normal_unit' d1 d2 H11 H22 H12) as Hn.
  assert (Hjv : (sg = 1 /\ j = 0)%Z \/ (sg = -1 /\ j = S - 1)%Z)
    by (subst j; destruct Hsg as [-> | ->]; [left|right]; split; reflexivity).
  clearbody j. clear Hsg.
  set (nn := normal d2 d1) in *.
  set (is := zrange_from 0 (length arr)).
  set (ms := map (fun i => (sg * i)%Z) is).
  assert (HP : map fst (st_planes st) = map (fun i => physZ A i 0 0) is).
  { subst st. rewrite seg_volume_planes, map_map. cbn [fst]. unfold kept.
    rewrite <- (map_map fst (fun i => physZ A i 0 0)). rewrite indexed_fst. reflexivity. }
  assert (HF : Forall2 (on_line nn pos s0) (map fst (st_planes st)) ms).
  { rewrite HP. subst ms. generalize is. intros l. induction l as [|i l IH]; cbn [map]; [constructor|].
    constructor; [apply (volume_plane_on_line pos d0 d1 d2 s0 s1 s2 sg H11 H22 H12 H0)|exact IH]. }
  assert (Hnd : NoDup ms).
  { subst ms. apply Injective_map_NoDup; [intros a b Hab; destruct Hjv as [(-> & _) | (-> & _)]; lia|apply zrange_from_nodup]. }
  assert (Hlms : length ms = length arr) by (subst ms is; rewrite map_length; apply zrange_from_length).
  set (m0 := (sg * j)%Z).
  assert (Hrange : forall m, In m ms -> (m0 <= m <= m0 + Z.of_nat (length ms) - 1)%Z).
  { intros m Hm. subst ms. apply in_map_iff in Hm as (i & <- & Hi). subst is. apply zrange_from_in in Hi.
    rewrite Hlms. subst m0 S. destruct Hjv as [(-> & ->) | (-> & ->)]; lia. }
  destruct (stacked_complete d2 d1 pos s0 Hn Hs0 st ms m0 eq_refl eq_refl
              (or_intror (ex_intro _ s0 (conj eq_refl (Qeq_refl s0)))) HF Hnd ltac:(rewrite Hlms; exact Hlen) Hrange)
    as (origin & sp' & Esp & Hino & Ro & E).
  (* the origin is plane j *)
  rewrite HP in Hino. apply in_map_iff in Hino as (i0 & Eo & Hi0).
  assert (Ei0 : i0 = j).
  { assert (E' : (sg * i0 = m0)%Z).
    { apply (DR_eq d2 d1 pos s0 Hs0 (vdot nn origin) (sg * i0)%Z (vdot nn origin) m0);
        [apply (line_distance d2 d1 pos s0 Hn); rewrite <- Eo; apply (volume_plane_on_line pos d0 d1 d2 s0 s1 s2 sg H11 H22 H12 H0)
        |apply (line_distance d2 d1 pos s0 Hn); exact Ro|reflexivity]. }
    subst m0. destruct Hjv as [(-> & _) | (-> & _)]; lia. }
  subst i0. exists sp'. split; [exact Esp|]. split.
  - rewrite E, <- Eo, Hlms. cbn [st st_spr st_spc seg_from_volume]. f_equal. f_equal.
    subst ms. rewrite map_map. apply map_ext. intros i. subst m0. lia.
  - intros i r c.
    assert (Ro' : on_line nn pos sp' (physZ A j 0 0) m0).
    { apply (on_line_spacing nn pos s0 sp' _ _ Esp). rewrite Eo. exact Ro. }
    replace (sg * (i - j))%Z with (sg * i - m0)%Z by (subst m0; lia).
    eapply veq_trans; [apply (line_voxel d2 d1 pos sp') with (1 := Ro')|].
    destruct H0 as (X & Y & Z). unfold physZ. rewrite inject_Z_mult.
    generalize (inject_Z i) (inject_Z sg) (inject_Z r) (inject_Z c) X Y Z. intros qi g qr qc X' Y' Z'.
    subst A nn. unfold vol_aff, normal, phys, vadd, vscale, veq in *; cbn [vx vy vz a0 a1 a2 atr] in *.
    rewrite X', Y', Z', Esp.
    destruct d1 as [x1 y1 z1], d2 as [x2 y2 z2], pos as [px py pz]; cbn [vx vy vz vcross] in *.
    repeat split; ring.
Qed.
