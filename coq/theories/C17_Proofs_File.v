(* C17 - proofs, part 4: the string rule of a file round trip and store -> file -> load. *)
From Coq Require Import String ZArith List Bool Ascii Lia.
From HD Require Import Base.Val C17_Model C17_Proofs C17_Proofs_Ext.
Import ListNotations.
Open Scope string_scope.
Open Scope Z_scope.

Fixpoint spaces (n : nat) : string := match n with O => "" | S n' => String " " (spaces n') end.
Fixpoint last_is_space (s : string) : bool :=
  match s with
  | EmptyString => false
  | String c t => match t with EmptyString => is_space c | _ => last_is_space t end
  end.

Lemma is_space_eq : forall c, is_space c = true -> c = " "%char.
Proof. intros c H. now apply Ascii.eqb_eq in H. Qed.

(* rstrip removes a run of trailing blanks and nothing else *)
Lemma rstrip_split : forall s, exists n, s = rstrip s ++ spaces n.
Proof.
  induction s as [|c t [n IH]]; [exists O; reflexivity|]. cbn [rstrip].
  destruct (rstrip t) as [|a u] eqn:E.
  - cbn [append] in IH. destruct (is_space c) eqn:Sp.
    + exists (S n). apply is_space_eq in Sp. subst c. cbn. now rewrite <- IH.
    + exists n. cbn. now rewrite <- IH.
  - exists n. cbn [append] in *. now rewrite <- IH.
Qed.

Lemma rstrip_no_trailing_blank : forall s, last_is_space (rstrip s) = false.
Proof.
  induction s as [|c t IH]; [reflexivity|]. cbn [rstrip].
  destruct (rstrip t) as [|a u] eqn:E.
  - destruct (is_space c) eqn:Sp; [reflexivity | cbn; exact Sp].
  - exact IH.
Qed.

Lemma rstrip_spaces : forall n, rstrip (spaces n) = "".
Proof. induction n as [|n IH]; [reflexivity|]. cbn [spaces rstrip]. now rewrite IH. Qed.

Lemma rstrip_app_spaces : forall p n, rstrip (p ++ spaces n) = rstrip p.
Proof.
  induction p as [|c t IH]; intros n; cbn [append]; [apply rstrip_spaces|]. cbn [rstrip]. now rewrite IH.
Qed.

Lemma rstrip_clean : forall p, last_is_space p = false -> rstrip p = p.
Proof.
  induction p as [|c t IH]; intros H; [reflexivity|]. cbn [rstrip]. destruct t as [|a u].
  - cbn in H |- *. now rewrite H.
  - cbn [last_is_space] in H. rewrite (IH H). reflexivity.
Qed.

(* the result is THE prefix without trailing blank that differs from s by blanks only *)
Lemma rstrip_unique : forall s p n, s = p ++ spaces n -> last_is_space p = false -> rstrip s = p.
Proof. intros s p n -> H. rewrite rstrip_app_spaces. now apply rstrip_clean. Qed.

Lemma rstrip_id_iff : forall s, rstrip s = s <-> last_is_space s = false.
Proof. intros s. split; [intros <-; apply rstrip_no_trailing_blank | apply rstrip_clean]. Qed.

Lemma rstrip_idem : forall s, rstrip (rstrip s) = rstrip s.
Proof. intros s. apply rstrip_clean, rstrip_no_trailing_blank. Qed.

(* ---- datasets -------------------------------------------------------------------------------------- *)
Definition oclean (o : option string) : Prop := match o with Some s => last_is_space s = false | None => True end.
Definition clean (d : dsobj) : Prop :=
  oclean (d_cv d) /\ oclean (d_lcv d) /\ oclean (d_urn d) /\ oclean (d_meaning d) /\ oclean (d_scheme d) /\
  oclean (d_version d).

Lemma omap_rstrip_clean : forall o, oclean o -> option_map rstrip o = o.
Proof. intros [s|] H; [cbn in *; now rewrite rstrip_clean | reflexivity]. Qed.

Lemma file_roundtrip_clean : forall d, clean d -> file_roundtrip d = plain d.
Proof.
  intros d [A [B [C [D [E F]]]]]. unfold file_roundtrip, plain.
  now rewrite !omap_rstrip_clean by assumption.
Qed.

Lemma file_roundtrip_is_clean : forall d, clean (file_roundtrip d).
Proof.
  intros d. unfold clean, file_roundtrip; cbn.
  repeat split; match goal with |- oclean (option_map rstrip ?o) => destruct o; cbn; auto using rstrip_no_trailing_blank end.
Qed.

Lemma file_roundtrip_idem : forall d, file_roundtrip (file_roundtrip d) = file_roundtrip d.
Proof.
  intros d. rewrite (file_roundtrip_clean _ (file_roundtrip_is_clean d)). reflexivity.
Qed.

Lemma file_roundtrip_wf : forall d, wf_concept d -> wf_concept (file_roundtrip d).
Proof.
  intros d [A [B C]]. unfold wf_concept, count_cv in *. cbn.
  destruct (d_cv d), (d_lcv d), (d_urn d), (d_meaning d), (d_scheme d); cbn in *; repeat split; try lia; try discriminate;
    try contradiction.
Qed.

(* store -> file -> load: every attribute comes back without its trailing blanks, in the same attribute *)
Lemma store_file_load_spec : forall v s m ver, slen m <= 64 ->
  exists d', store_file_load v s m ver = Ok d' /\
    attr_slot (select_attr v) d' = Some (rstrip v) /\ (forall a, a <> select_attr v -> attr_slot a d' = None) /\
    ds_value d' = Some (rstrip v) /\ ds_scheme d' = Ok (rstrip s) /\ ds_meaning d' = Ok (rstrip m) /\
    ds_version d' = option_map rstrip ver /\ d_cc d' = true.
Proof.
  intros v s m ver Hm. unfold store_file_load, init.
  replace (64 <? slen m) with false by (symmetry; apply Z.ltb_ge; exact Hm). cbn [bind].
  destruct (select_attr v) eqn:E; cbn; eexists; (split; [reflexivity|]); cbn; rewrite ?E;
    repeat split; intros [] Hn; try reflexivity; contradiction.
Qed.

Lemma store_file_load_eq : forall v s m ver d, init v s m ver = Ok d ->
  store_file_load v s m ver = Ok (set_cc (file_roundtrip d)).
Proof.
  intros v s m ver d Hd. unfold store_file_load. rewrite Hd. cbn [bind from_dataset nth_error].
  assert (W : wf_concept (file_roundtrip d)) by (apply file_roundtrip_wf; eapply init_wf; eauto).
  rewrite (proj2 (fd_check_ok _) W). reflexivity.
Qed.

Lemma init_clean : forall v s m ver d, init v s m ver = Ok d ->
  last_is_space v = false -> last_is_space s = false -> last_is_space m = false -> oclean ver -> clean d.
Proof.
  intros v s m ver d H Cv Cs Cm Cver. unfold init in H. destruct (64 <? slen m); [discriminate|]. injection H as <-.
  destruct (select_attr v); repeat split; cbn; auto.
Qed.

(* ... hence unchanged exactly for values that do not end in a blank *)
Lemma store_file_load_unchanged : forall v s m ver, slen m <= 64 ->
  last_is_space v = false -> last_is_space s = false -> last_is_space m = false -> oclean ver ->
  exists d d', init v s m ver = Ok d /\ store_file_load v s m ver = Ok d' /\ d' = d /\
    attr_slot (select_attr v) d' = Some v /\ ds_value d' = Some v /\ ds_scheme d' = Ok s /\ ds_meaning d' = Ok m /\
    ds_version d' = ver.
Proof.
  intros v s m ver Hm Cv Cs Cm Cver.
  destruct (proj2 (init_ok_iff v s m ver) Hm) as [d Hd].
  pose proof (store_load v s m ver d Hd) as [S1 [S2 [S3 [S4 [S5 [S6 [S7 S8]]]]]]].
  exists d, d. split; [exact Hd|]. split; [|repeat split; assumption].
  rewrite (store_file_load_eq v s m ver d Hd), (file_roundtrip_clean d (init_clean v s m ver d Hd Cv Cs Cm Cver)).
  destruct d; cbn in S8 |- *. now rewrite S8.
Qed.

(* observation: a value that ends in a blank does not survive the file (DICOM padding) *)
Lemma trailing_blank_lost :
  exists v s m ver d d', init v s m ver = Ok d /\ store_file_load v s m ver = Ok d' /\
    ds_value d = Some v /\ ds_value d' <> Some v /\ obj_eq (fun _ => None) (HD d) (HD d') = Ok false.
Proof.
  exists "abc ", "DCM", "m", None. do 2 eexists. repeat split. cbn. discriminate.
Qed.

(* the code read from the file equals the code written, both ways, and hashes alike (no trailing blanks) *)
Lemma file_copy_equal : forall srt v s m ver, slen m <= 64 ->
  last_is_space v = false -> last_is_space s = false -> last_is_space m = false -> oclean ver ->
  exists d d', init v s m ver = Ok d /\ store_file_load v s m ver = Ok d' /\
    obj_eq srt (HD d) (HD d') = Ok true /\ obj_eq srt (HD d') (HD d) = Ok true /\ hash_key (HD d) = hash_key (HD d').
Proof.
  intros srt v s m ver Hm Cv Cs Cm Cver.
  destruct (store_file_load_unchanged v s m ver Hm Cv Cs Cm Cver) as [d [d' [Hd [Hl [-> _]]]]].
  exists d, d. split; [exact Hd|]. split; [exact Hl|].
  assert (R : self_ready (HD d) = true) by (apply built_ready; eapply built_init; eauto).
  split; [now apply eq_refl_obj|]. split; [now apply eq_refl_obj | reflexivity].
Qed.
