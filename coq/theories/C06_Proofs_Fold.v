(* C06 - soundness of the folding (image.py:714-843) against the staged pipeline. *)
From Coq Require Import String ZArith List Bool Lia ZifyBool QArith Qfield Lqa Qminmax.
From HD Require Import Base.Val C06_Model C06_Proofs.
Import ListNotations.
Open Scope Z_scope.

Definition fn_guard (fn : vfn) (w : Q) : Prop :=
  match fn with Linear => (1 < w)%Q | LinearExact => (0 < w)%Q | Sigmoid => ~ (w == 0)%Q end.

Lemma Qeq_bool_false m : ~ (m == 0)%Q -> Qeq_bool m 0 = false.
Proof. intros H. destruct (Qeq_bool m 0) eqn:E; [|reflexivity]. apply Qeq_bool_iff in E. contradiction. Qed.

Section Fold.
Variable E : Q -> Q.
Hypothesis E_compat : forall a b, (a == b)%Q -> (E a == E b)%Q.
Hypothesis E_inv : forall t, (E (- t) * E t == 1)%Q.
Hypothesis E_pos : forall t, (0 < E t)%Q.

(* the window stage with the inversion folded in equals the staged window + presentation stages *)
Lemma window_staged fn c w ymin ymax inv y : fn_guard fn w -> (ymin <= ymax)%Q ->
  (window E fn c w ymin ymax inv y == st_present inv (ymin, ymax) (std_window E fn c w ymin ymax y))%Q.
Proof.
  intros G H. unfold st_present. cbn [fst snd].
  destruct inv.
  - destruct fn; cbn [fn_guard] in G.
    + rewrite window_invert_linear by (reflexivity || assumption).
      rewrite window_linear_is_standard by assumption. reflexivity.
    + rewrite window_invert_linear by (reflexivity || assumption).
      rewrite window_exact_is_standard by assumption. reflexivity.
    + rewrite (window_invert_sigmoid E E_compat E_inv E_pos) by assumption. reflexivity.
  - destruct fn; cbn [fn_guard] in G.
    + now apply window_linear_is_standard.
    + now apply window_exact_is_standard.
    + reflexivity.
Qed.

(* case: rescale (or none) + window *)
Theorem fold_rescale_window_sound : forall f c w m b ymin ymax odt imin imax x,
  fd_rwvm f = None -> fd_modlut f = None -> fd_window f = Some (c, w) ->
  fd_rescale f = Some (m, b) -> ~ (m == 0)%Q -> (ymin <= ymax)%Q -> fn_guard (fd_fn f) w ->
  exists e, fold E f ymin ymax odt (Some imin) (Some imax) = Ok (e, None) /\
    (eff_apply_r E ymin ymax e x ==
     staged E (MRescale m b) (VWin (fd_fn f) c w) (fd_invert f) ymin ymax imin imax x)%Q.
Proof.
  intros f c w m b ymin ymax odt imin imax x Hr Hm Hw Hs Hm0 Hy G.
  unfold fold. rewrite Hr, Hm, Hw, Hs. cbn [fst snd]. rewrite (Qeq_bool_false m Hm0).
  unfold staged, st_range, st_modality, st_voi.
  destruct (fd_fn f) eqn:FN; eexists; (split; [reflexivity|]); cbn [eff_apply_r fn_guard] in *.
  - rewrite fold_window_linear by (assumption || lra). now apply window_staged.
  - rewrite fold_window_exact by (assumption || lra). now apply window_staged.
  - rewrite (fold_window_sigmoid E E_compat) by assumption. now apply window_staged.
Qed.

Lemma window_compat_x fn c w ymin ymax inv a b : (a == b)%Q ->
  (window E fn c w ymin ymax inv a == window E fn c w ymin ymax inv b)%Q.
Proof.
  intros H. unfold window. destruct fn.
  - apply Qclip_compat. destruct inv; rewrite H; reflexivity.
  - apply Qclip_compat. destruct inv; rewrite H; reflexivity.
  - destruct inv.
    + rewrite (E_compat (- (4) * (c - a) / w) (- (4) * (c - b) / w)) by (rewrite H; reflexivity). reflexivity.
    + rewrite (E_compat (- (4) * (a - c) / w) (- (4) * (b - c) / w)) by (rewrite H; reflexivity). reflexivity.
Qed.

Theorem fold_window_alone_sound : forall f c w ymin ymax odt imin imax x,
  fd_rwvm f = None -> fd_modlut f = None -> fd_window f = Some (c, w) ->
  fd_rescale f = None -> (ymin <= ymax)%Q -> fn_guard (fd_fn f) w ->
  exists e, fold E f ymin ymax odt (Some imin) (Some imax) = Ok (e, None) /\
    (eff_apply_r E ymin ymax e x ==
     staged E MNone (VWin (fd_fn f) c w) (fd_invert f) ymin ymax imin imax x)%Q.
Proof.
  intros f c w ymin ymax odt imin imax x Hr Hm Hw Hs Hy G.
  unfold fold. rewrite Hr, Hm, Hw, Hs. cbn [fst snd].
  change (Qeq_bool 1 0) with false. cbn [negb].
  unfold staged, st_range, st_modality, st_voi.
  assert (X : (1 * inject_Z x + 0 == inject_Z x)%Q) by ring.
  assert (N1 : ~ (1 == 0)%Q) by (intro; lra).
  destruct (fd_fn f) eqn:FN; eexists; (split; [reflexivity|]); cbn [eff_apply_r fn_guard] in *.
  - rewrite fold_window_linear by (assumption || lra).
    rewrite (window_compat_x _ _ _ _ _ _ _ _ X). now apply window_staged.
  - rewrite fold_window_exact by (assumption || lra).
    rewrite (window_compat_x _ _ _ _ _ _ _ _ X). now apply window_staged.
  - rewrite (fold_window_sigmoid E E_compat) by assumption.
    rewrite (window_compat_x _ _ _ _ _ _ _ _ X). now apply window_staged.
Qed.

(* case: rescale alone, with or without presentation inversion *)
Theorem fold_rescale_alone_sound : forall f m b ymin ymax odt imin imax x,
  fd_rwvm f = None -> fd_modlut f = None -> fd_window f = None -> fd_voilut f = None ->
  fd_rescale f = Some (m, b) ->
  exists e, fold E f ymin ymax odt (Some imin) (Some imax) = Ok (e, None) /\
    (eff_apply_r E ymin ymax e x ==
     staged E (MRescale m b) VNone (fd_invert f) ymin ymax imin imax x)%Q.
Proof.
  intros f m b ymin ymax odt imin imax x Hr Hm Hw Hv Hs.
  unfold fold. rewrite Hr, Hm, Hw, Hv, Hs. cbn [fst snd].
  unfold staged, st_range, st_modality, st_voi, st_present. cbn [fst snd].
  destruct (fd_invert f); eexists; (split; [reflexivity|]); cbn [eff_apply_r].
  - apply fold_rescale_invert.
  - ring.
Qed.

Theorem fold_nothing_sound : forall f ymin ymax odt imin imax x,
  fd_rwvm f = None -> fd_modlut f = None -> fd_window f = None -> fd_voilut f = None ->
  fd_rescale f = None ->
  exists e, fold E f ymin ymax odt (Some imin) (Some imax) = Ok (e, None) /\
    (eff_apply_r E ymin ymax e x ==
     staged E MNone VNone (fd_invert f) ymin ymax imin imax x)%Q.
Proof.
  intros f ymin ymax odt imin imax x Hr Hm Hw Hv Hs.
  unfold fold. rewrite Hr, Hm, Hw, Hv, Hs. cbn [fst snd].
  unfold staged, st_range, st_modality, st_voi, st_present. cbn [fst snd].
  destruct (fd_invert f); eexists; (split; [reflexivity|]); cbn [eff_apply_r].
  - rewrite inject_Z_plus. ring.
  - reflexivity.
Qed.

(* case: modality LUT + window: the window is applied to the table *)
Theorem fold_modlut_window_sound : forall f ml mdata c w ymin ymax odt imin imax x,
  fd_rwvm f = None -> fd_modlut f = Some ml -> lut_data ml = Ok mdata -> mdata <> [] ->
  fd_window f = Some (c, w) -> is_float odt = true -> (ymin <= ymax)%Q -> fn_guard (fd_fn f) w ->
  exists e, fold E f ymin ymax odt (Some imin) (Some imax) = Ok (e, None) /\
    (eff_apply_r E ymin ymax e x ==
     staged E (MLut (ld_first ml) mdata) (VWin (fd_fn f) c w) (fd_invert f) ymin ymax imin imax x)%Q.
Proof.
  intros f ml mdata c w ymin ymax odt imin imax x Hr Hm Hd Hne Hw Hf Hy G.
  unfold fold. rewrite Hr, Hm. unfold bind. rewrite Hd, Hw, Hf. cbn [negb].
  eexists. split; [reflexivity|]. cbn [eff_apply_r].
  rewrite (lut_lookup_map (fun v => window E (fd_fn f) c w ymin ymax (fd_invert f) (inject_Z v)) 0 0%Q)
    by assumption.
  unfold staged, st_range, st_modality, st_voi. now apply window_staged.
Qed.

(* case: modality LUT alone *)
Theorem fold_modlut_alone_sound : forall f ml mdata ymin ymax odt imin imax x,
  fd_rwvm f = None -> fd_modlut f = Some ml -> lut_data ml = Ok mdata -> mdata <> [] ->
  fd_window f = None -> fd_voilut f = None -> 0 < ld_bits ml ->
  Forall (fun v => 0 <= v < 2 ^ ld_bits ml) mdata ->
  exists e, fold E f ymin ymax odt (Some imin) (Some imax) = Ok (e, None) /\
    (eff_apply_r E ymin ymax e x ==
     staged E (MLut (ld_first ml) mdata) VNone (fd_invert f) ymin ymax imin imax x)%Q.
Proof.
  intros f ml mdata ymin ymax odt imin imax x Hr Hm Hd Hne Hw Hv Hb Hrange.
  unfold fold. rewrite Hr, Hm. unfold bind. rewrite Hd, Hw, Hv.
  eexists. split; [reflexivity|]. cbn [eff_apply_r].
  unfold staged, st_range, st_modality, st_voi, st_present. cbn [fst snd].
  destruct (fd_invert f).
  - rewrite inverted_lut_exact by assumption. rewrite map_map.
    rewrite (lut_lookup_map (fun v => inject_Z (lmin mdata + lmax mdata - v)) 0 0%Q) by assumption.
    unfold Zminus. rewrite !inject_Z_plus, inject_Z_opp. ring.
  - rewrite (lut_lookup_map inject_Z 0 0%Q) by assumption. reflexivity.
Qed.

(* case: integer rescale with slope >= 1 + VOI LUT (scaled, possibly inverted, subsampled) *)
Lemma Qfloor_affine (m b x : Z) : Qfloor' (inject_Z m * inject_Z x + inject_Z b) = m * x + b.
Proof. unfold Qfloor', inject_Z, Qmult, Qplus. cbn [Qnum Qden Pos.mul]. rewrite Z.div_1_r. ring. Qed.
Lemma Qis_int_inject z : Qis_int (inject_Z z) = true.
Proof. unfold Qis_int, inject_Z. cbn [Qnum Qden]. rewrite Z.mod_1_r. reflexivity. Qed.
Lemma Qfloor_inject z : Qfloor' (inject_Z z) = z.
Proof. unfold Qfloor', inject_Z. cbn [Qnum Qden]. apply Z.div_1_r. Qed.

Theorem fold_rescale_voilut_sound : forall f vl vdata (m b : Z) ymin ymax odt imin imax x,
  fd_rwvm f = None -> fd_modlut f = None -> fd_window f = None ->
  fd_voilut f = Some vl -> lut_data vl = Ok vdata -> vdata <> [] -> lmin vdata < lmax vdata ->
  fd_rescale f = Some (inject_Z m, inject_Z b) -> 1 <= m -> (ld_first vl - b) mod m = 0 ->
  is_float odt = true -> (ymin < ymax)%Q ->
  exists e, fold E f ymin ymax odt (Some imin) (Some imax) = Ok (e, None) /\
    (eff_apply_r E ymin ymax e x ==
     staged E (MRescale (inject_Z m) (inject_Z b)) (VLut (ld_first vl) vdata) (fd_invert f)
            ymin ymax imin imax x)%Q.
Proof.
  clear E_compat E_inv E_pos.
  intros f vl vdata m b ymin ymax odt imin imax x Hr Hm Hw Hv Hd Hne Hmm Hs Hm1 Hdiv Hf Hy.
  unfold fold. rewrite Hr, Hm, Hw, Hv, Hs. cbn [fst snd].
  rewrite !Qis_int_inject, !Qfloor_inject. cbn [andb negb].
  replace (m <=? 0) with false by lia. rewrite Hf. cbn [negb].
  unfold bind. rewrite Hd. unfold scaled_lut_data.
  assert (Hq : Qle_bool (ymax - ymin) 0 = false).
  { destruct (Qle_bool (ymax - ymin) 0) eqn:Q1; [|reflexivity]. apply Qle_bool_iff in Q1. lra. }
  rewrite Hq. replace (lmax vdata =? lmin vdata) with false by lia.
  replace ((ld_first vl - b) mod m =? 0) with true by lia. cbn [negb].
  set (g := fun v : Z => if fd_invert f
                  then (inject_Z (lmax vdata - v) * ((ymax - ymin) / inject_Z (lmax vdata - lmin vdata)) + ymin)%Q
                  else (inject_Z (v - lmin vdata) * ((ymax - ymin) / inject_Z (lmax vdata - lmin vdata)) + ymin)%Q).
  set (sdata := map g vdata).
  assert (Hsne : sdata <> []) by (subst sdata; destruct vdata; [congruence | discriminate]).
  eexists. split; [reflexivity|]. cbn [eff_apply_r].
  change (if m =? 1 then sdata
          else if (zlen sdata - 1) mod m =? 0 then stride 0%Q m sdata
               else stride 0%Q m sdata ++ [last sdata 0%Q]) with (folded_table 0%Q m sdata).
  rewrite fold_voilut_sound by assumption.
  subst sdata. rewrite (lut_lookup_map g 0 0%Q) by assumption.
  unfold staged, st_range, st_modality, st_voi, st_present. cbn [fst snd].
  rewrite Qfloor_affine.
  set (v := lut_lookup 0 (ld_first vl) vdata (m * x + b)).
  subst g. cbn beta.
  destruct (fd_invert f).
  - rewrite scaled_invert by assumption. rewrite scaled_is_staged by assumption. reflexivity.
  - apply scaled_is_staged. assumption.
Qed.

(* a non-positive integer slope is refused in this branch *)
Theorem fold_rescale_voilut_nonpositive : forall f vl (m b : Z) ymin ymax odt imin imax,
  fd_rwvm f = None -> fd_modlut f = None -> fd_window f = None -> fd_voilut f = Some vl ->
  fd_rescale f = Some (inject_Z m, inject_Z b) -> m <= 0 ->
  fold E f ymin ymax odt imin imax = Err "ValueError".
Proof.
  clear E_compat E_inv E_pos.
  intros f vl m b ymin ymax odt imin imax Hr Hm Hw Hv Hs Hm0.
  unfold fold. rewrite Hr, Hm, Hw, Hv, Hs. cbn [fst snd].
  rewrite !Qis_int_inject, !Qfloor_inject. cbn [andb negb].
  replace (m <=? 0) with true by lia. reflexivity.
Qed.
(* ... and so is a non-integer slope or intercept *)
Theorem fold_rescale_voilut_nonint : forall f vl m b ymin ymax odt imin imax,
  fd_rwvm f = None -> fd_modlut f = None -> fd_window f = None -> fd_voilut f = Some vl ->
  fd_rescale f = Some (m, b) -> Qis_int b && Qis_int m = false ->
  fold E f ymin ymax odt imin imax = Err "ValueError".
Proof.
  clear E_compat E_inv E_pos.
  intros f vl m b ymin ymax odt imin imax Hr Hm Hw Hv Hs Hi.
  unfold fold. rewrite Hr, Hm, Hw, Hv, Hs. cbn [fst snd]. rewrite Hi. reflexivity.
Qed.

(* case: modality LUT + VOI LUT (scaled to the output range, possibly inverted) *)
Theorem fold_lut_lut_sound : forall f ml mdata vl vdata ymin ymax odt imin imax x,
  fd_rwvm f = None -> fd_modlut f = Some ml -> lut_data ml = Ok mdata -> mdata <> [] ->
  fd_window f = None -> fd_voilut f = Some vl -> lut_data vl = Ok vdata -> vdata <> [] ->
  lmin vdata < lmax vdata -> is_float odt = true -> (ymin < ymax)%Q ->
  exists e, fold E f ymin ymax odt (Some imin) (Some imax) = Ok (e, None) /\
    (eff_apply_r E ymin ymax e x ==
     staged E (MLut (ld_first ml) mdata) (VLut (ld_first vl) vdata) (fd_invert f)
            ymin ymax imin imax x)%Q.
Proof.
  clear E_compat E_inv E_pos.
  intros f ml mdata vl vdata ymin ymax odt imin imax x Hr Hm Hd Hne Hw Hv Hvd Hvne Hmm Hf Hy.
  unfold fold. rewrite Hr, Hm. unfold bind. rewrite Hd, Hw, Hv, Hf. cbn [negb]. rewrite Hvd.
  unfold scaled_lut_data.
  assert (Hq : Qle_bool (ymax - ymin) 0 = false).
  { destruct (Qle_bool (ymax - ymin) 0) eqn:Q1; [|reflexivity]. apply Qle_bool_iff in Q1. lra. }
  rewrite Hq. replace (lmax vdata =? lmin vdata) with false by lia.
  set (g := fun v : Z => if fd_invert f
                  then (inject_Z (lmax vdata - v) * ((ymax - ymin) / inject_Z (lmax vdata - lmin vdata)) + ymin)%Q
                  else (inject_Z (v - lmin vdata) * ((ymax - ymin) / inject_Z (lmax vdata - lmin vdata)) + ymin)%Q).
  eexists. split; [reflexivity|]. cbn [eff_apply_r].
  rewrite (lut_lookup_map (fun v => lut_lookup 0%Q (ld_first vl) (map g vdata) v) 0 0%Q) by assumption.
  rewrite (lut_lookup_map g 0 0%Q) by assumption.
  unfold staged, st_range, st_modality, st_voi, st_present. cbn [fst snd].
  rewrite Qfloor_inject.
  set (v := lut_lookup 0 (ld_first vl) vdata (lut_lookup 0 (ld_first ml) mdata x)).
  subst g. cbn beta.
  destruct (fd_invert f).
  - rewrite scaled_invert by assumption. rewrite scaled_is_staged by assumption. reflexivity.
  - apply scaled_is_staged. assumption.
Qed.

(* real world value map: independent of every other stage *)
Theorem fold_rwvm_sound : forall f r ymin ymax odt imin imax,
  fd_rwvm f = Some r ->
  fold E f ymin ymax odt imin imax =
  Ok (match r with
      | RLut first data => (ELut first data false F64, None)
      | RLin s i a b => (EAffine s i, Some (a, b))
      end).
Proof. intros f r ymin ymax odt imin imax H. unfold fold. rewrite H. destruct r; reflexivity. Qed.

End Fold.

Definition E0 (t : Q) : Q := 1%Q.
