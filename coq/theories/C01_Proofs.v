(* C01 - proofs, part 1: bits and bytes.
   pack loop = global packing, frame i of the packed bytes unpacks to the i-th
   frame, lazy byte range = eager byte range, round-half-even quantisation. *)
From Coq Require Import String ZArith List Bool Lia ZifyBool Arith.
From HD Require Import Base.Val Base.ListZ Base.BitWindow C01_Model.
Import ListNotations.
Open Scope Z_scope.
Ltac Zify.zify_post_hook ::= Z.to_euclidean_division_equations.

(* ------------------------------------------------------------------ *)
(* pack_bits                                                            *)
(* ------------------------------------------------------------------ *)
Lemma pack_aux_fuel : forall f1 f2 (l : list bool),
  (length l <= f1)%nat -> (length l <= f2)%nat -> pack_aux f1 l = pack_aux f2 l.
Proof.
  induction f1 as [|f1 IH]; intros f2 l H1 H2.
  - destruct l; [|cbn in H1; lia]. destruct f2; reflexivity.
  - destruct l as [|a l'].
    + destruct f2; reflexivity.
    + destruct f2 as [|f2]; [cbn in H2; lia|].
      cbn [pack_aux]. f_equal. apply IH.
      * rewrite skipn_length. cbn [length] in *. lia.
      * rewrite skipn_length. cbn [length] in *. lia.
Qed.

Lemma pack_bits_nil : pack_bits [] = [].
Proof. reflexivity. Qed.

Lemma pack_bits_step : forall l, l <> [] ->
  pack_bits l = byte_of (firstn 8 l) :: pack_bits (skipn 8 l).
Proof.
  intros l Hl. destruct l as [|a l']; [contradiction|].
  unfold pack_bits. cbn [length]. cbn [pack_aux]. f_equal.
  apply pack_aux_fuel.
  - rewrite skipn_length. cbn [length]. lia.
  - lia.
Qed.

Lemma pack_app : forall k (a b : list bool), length a = (8 * k)%nat ->
  pack_bits (a ++ b) = pack_bits a ++ pack_bits b.
Proof.
  induction k as [|k IH]; intros a b Ha.
  - destruct a; [reflexivity|cbn in Ha; lia].
  - assert (Hne : a <> []) by (intro; subst; cbn in Ha; lia).
    assert (Hne' : a ++ b <> []) by (destruct a; [contradiction|discriminate]).
    rewrite (pack_bits_step _ Hne'), (pack_bits_step _ Hne).
    rewrite firstn_app, skipn_app.
    replace (8 - length a)%nat with 0%nat by lia.
    change (firstn 0 b) with (@nil bool). change (skipn 0 b) with b.
    rewrite app_nil_r. cbn [app]. f_equal.
    apply IH. rewrite skipn_length. lia.
Qed.

Lemma take8_spec : forall l enc r, take8 l = (enc, r) ->
  enc ++ r = l /\ (exists k, length enc = (8 * k)%nat) /\ (length r < 8)%nat.
Proof.
  intros l enc r H. unfold take8 in H.
  assert (Ha : enc = firstn (8 * (length l / 8)) l) by congruence.
  assert (Hb : r = skipn (8 * (length l / 8)) l) by congruence.
  clear H. subst enc r.
  split; [apply firstn_skipn|]. split.
  - exists (length l / 8)%nat. rewrite firstn_length.
    apply Nat.min_l. apply Nat.mul_div_le. discriminate.
  - rewrite skipn_length.
    pose proof (Nat.div_mod (length l) 8 ltac:(discriminate)) as Hd.
    pose proof (Nat.mod_upper_bound (length l) 8 ltac:(discriminate)) as Hm.
    remember (length l / 8)%nat as q. remember (length l mod 8)%nat as r.
    clear Heqq Heqr. lia.
Qed.

Lemma loop_invariant : forall fs out rem,
  (length rem < 8)%nat ->
  let '(out', rem') := fold_left bin_step fs (out, rem) in
  out' ++ pack_bits rem' = out ++ pack_bits (rem ++ concat fs) /\ (length rem' < 8)%nat.
Proof.
  induction fs as [|f fs IH]; intros out rem Hr.
  - cbn [fold_left concat]. rewrite app_nil_r. auto.
  - cbn [fold_left]. unfold bin_step at 2.
    destruct (take8 (rem ++ f)) as [enc r] eqn:E.
    apply take8_spec in E. destruct E as (Hc & (k & Hk) & Hr').
    specialize (IH (out ++ pack_bits enc) r Hr').
    destruct (fold_left bin_step fs (out ++ pack_bits enc, r)) as [out' rem'].
    destruct IH as (IH1 & IH2). split; [|exact IH2].
    rewrite IH1. rewrite <- app_assoc. f_equal.
    rewrite <- (pack_app k enc _ Hk). f_equal.
    cbn [concat]. rewrite !app_assoc. f_equal. rewrite <- Hc. reflexivity.
Qed.

Lemma flat_map_pack_aligned : forall k (fs : list (list bool)),
  (forall f, In f fs -> length f = (8 * k)%nat) ->
  flat_map pack_bits fs = pack_bits (concat fs).
Proof.
  induction fs as [|f fs IH]; intros H; [reflexivity|].
  cbn [flat_map concat]. rewrite (pack_app k f); [|apply H; now left].
  f_equal. apply IH. intros g Hg. apply H. now right.
Qed.

(* T1 *)
Theorem pack_loop_is_global_pack : forall n (fs : list (list bool)),
  1 <= n -> (forall f, In f fs -> zlen f = n) ->
  bin_pixel_data n fs = pack_bits (concat fs).
Proof.
  intros n fs Hn Hlen. unfold bin_pixel_data.
  destruct (n mod 8 =? 0) eqn:E.
  - apply (flat_map_pack_aligned (Z.to_nat (n / 8))).
    intros f Hf. specialize (Hlen f Hf). unfold zlen in Hlen. lia.
  - pose proof (loop_invariant fs [] [] ltac:(cbn; lia)) as H.
    destruct (fold_left bin_step fs ([], [])) as [out rem].
    destruct H as (H & _). cbn [app] in H. rewrite <- H.
    destruct rem; [rewrite pack_bits_nil, app_nil_r|]; reflexivity.
Qed.

(* ------------------------------------------------------------------ *)
(* unpack_bits                                                          *)
(* ------------------------------------------------------------------ *)
Lemma bits_of_length : forall k z, length (bits_of k z) = k.
Proof. induction k; intros z; cbn; [reflexivity|]. now rewrite IHk. Qed.

Lemma bits_of_byte_of : forall k l, (length l <= k)%nat ->
  bits_of k (byte_of l) = l ++ repeat false (k - length l).
Proof.
  induction k as [|k IH]; intros l Hl.
  - destruct l; [reflexivity|cbn in Hl; lia].
  - destruct l as [|b t].
    + cbn [byte_of bits_of length app]. replace (S k - 0)%nat with (S k) by lia.
      cbn [repeat]. f_equal. change (0 / 2) with 0.
      specialize (IH [] ltac:(cbn; lia)). cbn [byte_of length app] in IH.
      rewrite IH. f_equal. lia.
    + cbn [byte_of bits_of length app].
      assert (Ho : Z.odd (Z.b2z b + 2 * byte_of t) = b).
      { rewrite Z.odd_add_mul_2. now destruct b. }
      assert (Hd : (Z.b2z b + 2 * byte_of t) / 2 = byte_of t).
      { destruct b; cbn [Z.b2z]; lia. }
      rewrite Ho, Hd. f_equal.
      rewrite IH by (cbn in Hl; lia). f_equal.
Qed.

Lemma unpack_app : forall a b, unpack_bits (a ++ b) = unpack_bits a ++ unpack_bits b.
Proof. intros. unfold unpack_bits. apply flat_map_app. Qed.

Lemma unpack_pack_aux : forall f l, (length l <= f)%nat ->
  exists k, unpack_bits (pack_aux f l) = l ++ repeat false k.
Proof.
  induction f as [|f IH]; intros l Hl.
  - destruct l; [|cbn in Hl; lia]. exists 0%nat. reflexivity.
  - destruct l as [|a l'] eqn:El.
    + exists 0%nat. reflexivity.
    + rewrite <- El in *. assert (Hne : l <> []) by (subst; discriminate).
      assert (Hp : pack_aux (S f) l = byte_of (firstn 8 l) :: pack_aux f (skipn 8 l))
        by (subst l; reflexivity).
      rewrite Hp. change (unpack_bits (?x :: ?r)) with (bits_of 8 x ++ unpack_bits r).
      destruct (le_lt_dec 8 (length l)) as [Hge|Hlt].
      * destruct (IH (skipn 8 l)) as (k & Hk); [rewrite skipn_length; lia|].
        exists k. rewrite Hk, bits_of_byte_of by (rewrite firstn_length; lia).
        rewrite firstn_length. replace (8 - Nat.min 8 (length l))%nat with 0%nat by lia.
        cbn [repeat]. rewrite app_nil_r, app_assoc, firstn_skipn. reflexivity.
      * rewrite firstn_all2 by lia. rewrite skipn_all2 by lia.
        assert (Hn : pack_aux f [] = []) by (destruct f; reflexivity).
        rewrite Hn. cbn [unpack_bits flat_map]. rewrite app_nil_r.
        exists (8 - length l)%nat. apply bits_of_byte_of. lia.
Qed.

Lemma unpack_pack : forall l, exists k, unpack_bits (pack_bits l) = l ++ repeat false k.
Proof. intros l. apply unpack_pack_aux. lia. Qed.

Lemma unpack_skipn : forall a l,
  skipn (8 * a) (unpack_bits l) = unpack_bits (skipn a l).
Proof.
  induction a as [|a IH]; intros l; [reflexivity|].
  destruct l as [|x l]; [reflexivity|].
  change (unpack_bits (x :: l)) with (bits_of 8 x ++ unpack_bits l).
  rewrite skipn_app, bits_of_length.
  rewrite (skipn_all2 (bits_of 8 x)) by (rewrite bits_of_length; lia).
  cbn [app skipn]. replace (8 * S a - 8)%nat with (8 * a)%nat by lia. apply IH.
Qed.

Lemma unpack_firstn : forall a l,
  firstn (8 * a) (unpack_bits l) = unpack_bits (firstn a l).
Proof.
  induction a as [|a IH]; intros l; [reflexivity|].
  destruct l as [|x l]; [reflexivity|].
  change (unpack_bits (x :: l)) with (bits_of 8 x ++ unpack_bits l).
  cbn [firstn]. change (unpack_bits (x :: ?r)) with (bits_of 8 x ++ unpack_bits r).
  rewrite firstn_app, bits_of_length.
  rewrite (firstn_all2 (bits_of 8 x)) by (rewrite bits_of_length; lia).
  f_equal. replace (8 * S a - 8)%nat with (8 * a)%nat by lia. apply IH.
Qed.

Lemma unpack_slice : forall a b bytes, 0 <= a <= b ->
  unpack_bits (slice a b bytes) =
  window bool (8 * Z.to_nat a) (8 * Z.to_nat b) (unpack_bits bytes).
Proof.
  intros a b bytes H. unfold slice, window.
  rewrite <- unpack_firstn, <- unpack_skipn. f_equal. lia.
Qed.

(* the byte range of get_raw_frame contains the bits of frame i *)
Lemma raw_range_bits : forall n i, 1 <= n -> 0 <= i ->
  let '(a, b) := raw_range 1 n i in
  0 <= a <= b /\ 8 * a <= i * n /\ i * n + n <= 8 * b /\ i * n - 8 * a = (i * n) mod 8.
Proof.
  intros n i Hn Hi. unfold raw_range.
  replace (1 * n) with n by lia. change (1 =? 1) with true. cbn [andb].
  destruct (n mod 8 =? 0) eqn:E; cbn [negb].
  - assert (Hk : n = 8 * (n / 8)) by lia.
    set (k := n / 8) in *. assert (0 <= k) by lia.
    assert (E1 : i * n = 8 * (i * k)) by (rewrite Hk; ring).
    rewrite E1. replace (8 * (i * k)) with ((i * k) * 8) by ring.
    rewrite Z.mod_mul by lia. nia.
  - replace ((i + 1) * n) with (i * n + n) by ring.
    assert (0 <= i * n) by nia.
    set (x := i * n) in *. lia.
Qed.

(* T2 *)
Theorem raw_frame_unpack : forall n (fs : list (list bool)) i pad,
  1 <= n -> (forall f, In f fs -> zlen f = n) -> 0 <= i < zlen fs ->
  let bytes := pack_bits (concat fs) ++ pad in
  let '(a, b) := raw_range 1 n i in
  firstn (Z.to_nat n) (skipn (Z.to_nat ((i * n) mod 8)) (unpack_bits (slice a b bytes)))
  = nth (Z.to_nat i) fs [].
Proof.
  intros n fs i pad Hn Hlen Hi bytes.
  pose proof (raw_range_bits n i Hn ltac:(lia)) as HR.
  destruct (raw_range 1 n i) as [a b]. destruct HR as (Hab & H1 & H2 & H3).
  rewrite unpack_slice by exact Hab.
  subst bytes. rewrite unpack_app.
  destruct (unpack_pack (concat fs)) as (k & Hk). rewrite Hk, <- app_assoc.
  assert (0 <= i * n) by nia.
  replace (Z.to_nat ((i * n) mod 8)) with (Z.to_nat (i * n) - 8 * Z.to_nat a)%nat by lia.
  rewrite window_inner by lia.
  rewrite Z2Nat.inj_mul by lia.
  apply concat_frame.
  - intros f Hf. specialize (Hlen f Hf). unfold zlen in Hlen. lia.
  - unfold zlen in Hi. lia.
Qed.

(* ------------------------------------------------------------------ *)
(* lazy reader range = eager range                                      *)
(* ------------------------------------------------------------------ *)
(* T3 *)
Theorem lazy_range_is_raw_range : forall bits n i,
  (bits = 1 \/ bits = 8 \/ bits = 16) -> 1 <= n -> 0 <= i ->
  let '(a, b) := raw_range bits n i in
  let '(o, l) := lazy_range bits n i in
  o = a /\ o + l = b.
Proof.
  intros bits n i Hb Hn Hi. unfold raw_range, lazy_range.
  destruct Hb as [-> | [-> | ->]].
  - change (1 =? 1) with true. cbn [andb]. replace (1 * n) with n by lia.
    destruct (n mod 8 =? 0) eqn:E; cbn [negb].
    + assert (Hk : n = 8 * (n / 8)) by lia.
      set (k := n / 8) in *.
      assert (E1 : i * n = (i * k) * 8) by (rewrite Hk; ring).
      rewrite E1, Z.div_mul, Z.mod_mul by lia.
      split; [ring|]. replace (0 + n + 7) with (n + 7) by ring. lia.
    + replace ((i + 1) * n) with (i * n + n) by ring.
      assert (0 <= i * n) by nia. set (x := i * n) in *. lia.
  - change (8 =? 1) with false. cbn [andb].
    replace (8 * n / 8) with n by lia. replace (n * 8 / 8) with n by lia. lia.
  - change (16 =? 1) with false. cbn [andb].
    replace (16 * n / 8) with (2 * n) by lia. replace (n * 16 / 8) with (2 * n) by lia. lia.
Qed.

(* ------------------------------------------------------------------ *)
(* round half to even                                                   *)
(* ------------------------------------------------------------------ *)
Definition nearest_even (a b v : Z) : Prop :=
  2 * Z.abs (v * b - a) <= b /\ (2 * Z.abs (v * b - a) = b -> Z.even v = true).

(* T4 *)
Theorem rhe_is_nearest_even : forall a b, 0 < b -> nearest_even a b (rhe a b).
Proof.
  intros a b Hb. unfold nearest_even, rhe.
  pose proof (Z.div_mod a b ltac:(lia)) as Hd.
  pose proof (Z.mod_pos_bound a b Hb) as Hm.
  set (q := a / b) in *. set (r := a mod b) in *.
  destruct (2 * r <? b) eqn:E1.
  - split; [nia|]. intros H. exfalso. nia.
  - destruct (b <? 2 * r) eqn:E2.
    + split; [nia|]. intros H. exfalso. nia.
    + destruct (Z.even q) eqn:E3.
      * split; [nia|]. intros _. exact E3.
      * split; [nia|]. intros _. rewrite Z.even_add, E3. reflexivity.
Qed.

Theorem rhe_unique : forall a b v, 0 < b -> nearest_even a b v -> v = rhe a b.
Proof.
  intros a b v Hb (H1 & H2).
  pose proof (rhe_is_nearest_even a b Hb) as (R1 & R2).
  set (w := rhe a b) in *.
  assert (Hc : v = w \/ v = w + 1 \/ v + 1 = w) by nia.
  destruct Hc as [Hc | [Hc | Hc]]; [exact Hc| |].
  - exfalso. clearbody w. subst v.
    assert (E1 : 2 * Z.abs ((w + 1) * b - a) = b) by nia.
    assert (E2 : 2 * Z.abs (w * b - a) = b) by nia.
    specialize (H2 E1). specialize (R2 E2).
    rewrite Z.even_add, R2 in H2. discriminate.
  - exfalso. clearbody w. subst w.
    assert (E1 : 2 * Z.abs ((v + 1) * b - a) = b) by nia.
    assert (E2 : 2 * Z.abs (v * b - a) = b) by nia.
    specialize (H2 E2). specialize (R2 E1).
    rewrite Z.even_add, H2 in R2. discriminate.
Qed.

Lemma rhe_range : forall a b m, 0 < b -> 0 <= m -> 0 <= a <= b * m -> 0 <= rhe a b <= m.
Proof.
  intros a b m Hb Hm Ha. unfold rhe.
  pose proof (Z.div_mod a b ltac:(lia)) as Hd.
  pose proof (Z.mod_pos_bound a b Hb) as Hmm.
  set (q := a / b) in *. set (r := a mod b) in *.
  assert (0 <= q) by nia.
  assert (q <= m) by nia.
  destruct (2 * r <? b) eqn:E1; [lia|].
  assert (q < m) by nia.
  destruct (b <? 2 * r); [lia|]. destruct (Z.even q); lia.
Qed.
