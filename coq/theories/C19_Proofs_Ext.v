(* C19 - lemmas and proofs of the extension: selector, total characterisation of the
   real-world read, batch reads, end-to-end store/read theorems, transform flags,
   RealWorldValueMapping.apply, volume read *)
From Coq Require Import String ZArith List Bool QArith Lia ZifyBool Permutation Sorted.
From HD Require Import Base.Val C19_Model C19_Proofs.
Import ListNotations.
Open Scope Z_scope.
Ltac Zify.zify_post_hook ::= Z.to_euclidean_division_equations.

(* ====================================================================== *)
(* generic: first error wins                                               *)
(* ====================================================================== *)
Lemma res_all_map_ok {A B} (g : A -> res B) (l : list A) : forall out,
  res_all (map g l) = Ok out <-> Forall2 (fun x y => g x = Ok y) l out.
Proof.
  induction l as [|a l IH]; intros out; cbn [map res_all].
  - split; [inversion 1; constructor|inversion 1; reflexivity].
  - destruct (g a) as [b|k] eqn:Ea.
    + destruct (res_all (map g l)) as [t|k] eqn:El; cbn [bind].
      * split.
        -- inversion 1; subst. constructor; [exact Ea|]. now apply IH.
        -- inversion 1 as [|x y l' out' Hxy Hrest]; subst. rewrite Ea in Hxy. inversion Hxy; subst.
           apply IH in Hrest. congruence.
      * split; [discriminate|].
        inversion 1 as [|x y l' out' Hxy Hrest]; subst. apply IH in Hrest. discriminate.
    + split; [discriminate|]. inversion 1; subst. congruence.
Qed.

Lemma res_all_map_err {A B} (g : A -> res B) (l : list A) e :
  res_all (map g l) = Err e <->
  exists pre x post, l = pre ++ x :: post /\ (forall y, In y pre -> exists v, g y = Ok v) /\ g x = Err e.
Proof.
  induction l as [|a l IH]; cbn [map res_all].
  - split; [discriminate|]. intros [pre [x [post [H _]]]]. destruct pre; discriminate.
  - destruct (g a) as [b|k] eqn:Ea.
    + destruct (res_all (map g l)) as [t|k] eqn:El; cbn [bind].
      * split; [discriminate|]. intros [pre [x [post [H [Hpre Hx]]]]].
        destruct pre as [|p pre]; cbn [app] in H; inversion H; subst.
        -- congruence.
        -- assert (E : Ok t = Err e); [|discriminate]. apply IH.
           exists pre, x, post. split; [reflexivity|]. split; [|exact Hx].
           intros y Hy. apply Hpre. now right.
      * split.
        -- intros H. inversion H; subst. destruct (proj1 IH eq_refl) as [pre [x [post [-> [Hpre Hx]]]]].
           exists (a :: pre), x, post. split; [reflexivity|]. split; [|exact Hx].
           intros y [<-|Hy]; [eauto|now apply Hpre].
        -- intros [pre [x [post [H [Hpre Hx]]]]].
           destruct pre as [|p pre]; cbn [app] in H; inversion H; subst.
           ++ congruence.
           ++ apply IH.
              exists pre, x, post. split; [reflexivity|]. split; [|exact Hx].
              intros y Hy. apply Hpre. now right.
    + split.
      * inversion 1; subst. exists [], a, l. split; [reflexivity|]. split; [intros y []|exact Ea].
      * intros [pre [x [post [H [Hpre Hx]]]]].
        destruct pre as [|p pre]; cbn [app] in H; inversion H; subst.
        -- congruence.
        -- destruct (Hpre p (or_introl eq_refl)) as [v Hv]. congruence.
Qed.

Lemma Forall2_impl' {A B} (P Q : A -> B -> Prop) l t :
  (forall a b, P a b -> Q a b) -> Forall2 P l t -> Forall2 Q l t.
Proof. intros H F. induction F; constructor; auto. Qed.

Lemma Forall2_length' {A B} (P : A -> B -> Prop) l t : Forall2 P l t -> length l = length t.
Proof. intros F. induction F; cbn [length]; congruence. Qed.

Lemma nth_error_ext' {A} (l1 l2 : list A) : (forall n, nth_error l1 n = nth_error l2 n) -> l1 = l2.
Proof.
  revert l2. induction l1 as [|a l1 IH]; destruct l2 as [|b l2]; intros H; try reflexivity.
  - specialize (H 0%nat). discriminate.
  - specialize (H 0%nat). discriminate.
  - f_equal.
    + specialize (H 0%nat). now inversion H.
    + apply IH. intros n. exact (H (S n)).
Qed.

(* ====================================================================== *)
(* selecting one of the mappings attached to a frame                        *)
(* ====================================================================== *)
Lemma find_label_spec s l m :
  find_label s l = Some m <->
  exists pre post, l = pre ++ (s, m) :: post /\ forall p, In p pre -> fst p <> s.
Proof.
  induction l as [|[lbl m0] r IH]; cbn [find_label].
  - split; [discriminate|]. intros [pre [post [H _]]]. destruct pre; discriminate.
  - destruct (String.eqb lbl s) eqn:E.
    + apply String.eqb_eq in E. subst lbl. split.
      * inversion 1; subst. exists [], r. split; [reflexivity|intros p []].
      * intros [pre [post [H Hpre]]]. destruct pre as [|p0 pre]; cbn [app] in H; inversion H; subst.
        -- reflexivity.
        -- exfalso. apply (Hpre (s, m0)); [now left|reflexivity].
    + apply String.eqb_neq in E. rewrite IH. split.
      * intros [pre [post [-> Hpre]]]. exists ((lbl, m0) :: pre), post. split; [reflexivity|].
        intros p [<-|Hp]; [exact E|now apply Hpre].
      * intros [pre [post [H Hpre]]]. destruct pre as [|p0 pre]; cbn [app] in H; inversion H; subst.
        -- exfalso. now apply E.
        -- exists pre, post. split; [reflexivity|]. intros p Hp. apply Hpre. now right.
Qed.

(* which mapping a selector designates: Python indexing (negative from the end) or the first
   mapping carrying the label *)
Definition sel_spec (l : list (string * mapping)) (sel : selector) (m : mapping) : Prop :=
  match sel with
  | SIdx z => let n := Z.of_nat (length l) in
              - n <= z < n /\ nth_error (map snd l) (Z.to_nat (z mod n)) = Some m
  | SLabel s => exists pre post, l = pre ++ (s, m) :: post /\ forall p, In p pre -> fst p <> s
  end.

Lemma selector_ok l sel m : select_mapping l sel = Ok m <-> sel_spec l sel m.
Proof.
  destruct sel as [z|s]; cbn [select_mapping sel_spec].
  - set (n := Z.of_nat (length l)).
    assert (Hmod : - n <= z < n -> z mod n = if z <? 0 then z + n else z).
    { intros H. destruct (z <? 0) eqn:Ez.
      - rewrite <- (Z.mod_add z 1 n) by lia. rewrite Z.mul_1_l. apply Z.mod_small. lia.
      - apply Z.mod_small. lia. }
    destruct (((if z <? 0 then z + n else z) <? 0) || (n <=? (if z <? 0 then z + n else z))) eqn:E2.
    + split; [discriminate|]. intros [H _]. destruct (z <? 0) eqn:Ez; lia.
    + assert (Hr : - n <= z < n) by (destruct (z <? 0) eqn:Ez; lia).
      rewrite (Hmod Hr). rewrite nth_error_map.
      destruct (nth_error l (Z.to_nat (if z <? 0 then z + n else z))) as [p|] eqn:E3; cbn [option_map].
      * split; [inversion 1; subst; auto|intros [_ H]; inversion H; reflexivity].
      * apply nth_error_None in E3. subst n. destruct (z <? 0) eqn:Ez; lia.
  - rewrite <- find_label_spec. destruct (find_label s l); split; congruence.
Qed.

Lemma selector_err_kind l sel e : select_mapping l sel = Err e -> e = "IndexError"%string.
Proof.
  destruct sel as [z|s]; cbn [select_mapping].
  - destruct (_ || _); [inversion 1; reflexivity|].
    destruct (nth_error _ _); [discriminate|inversion 1; reflexivity].
  - destruct (find_label s l); [discriminate|inversion 1; reflexivity].
Qed.

Lemma selector_refused l sel :
  select_mapping l sel = Err "IndexError" <-> forall m, ~ sel_spec l sel m.
Proof.
  split.
  - intros H m Hs. apply selector_ok in Hs. congruence.
  - intros H. destruct (select_mapping l sel) as [m|e] eqn:E.
    + exfalso. apply (H m). now apply selector_ok.
    + apply selector_err_kind in E. now subst.
Qed.

(* ====================================================================== *)
(* single frame with the real-world flag: total characterisation            *)
(* ====================================================================== *)
Lemma std_index_err_kind n f ai e : std_index n f ai = Err e -> e = "IndexError"%string.
Proof. unfold std_index. destruct ai; destruct (_ || _); inversion 1; reflexivity. Qed.

Lemma apply_mapping_err_kind m ws e : apply_mapping m ws = Err e -> e = "ValueError"%string.
Proof.
  destruct ws as [|w0 ws]; [inversion 1; reflexivity|].
  destruct m; cbn [apply_mapping]; destruct (existsb _ _); inversion 1; reflexivity.
Qed.

Lemma get_frame_rw_ok w R C M n bytes maps sel f ai vs :
  get_frame_rw w R C M n bytes maps sel f ai = Ok vs <->
  exists k m, std_index n f ai = Ok k /\ select_mapping (frame_maps maps M k) sel = Ok m /\
              apply_mapping m (read_frame w R C bytes k) = Ok vs.
Proof.
  unfold get_frame_rw. split.
  - destruct (std_index n f ai) as [k|e] eqn:E1; cbn [bind]; [|discriminate].
    destruct (select_mapping (frame_maps maps M k) sel) as [m|e] eqn:E2; cbn [bind]; [|discriminate].
    intros H. exists k, m. auto.
  - intros [k [m [-> [H2 H3]]]]. cbn [bind]. rewrite H2. exact H3.
Qed.

Lemma get_frame_rw_err w R C M n bytes maps sel f ai e :
  get_frame_rw w R C M n bytes maps sel f ai = Err e <->
  (e = "IndexError"%string /\
   (std_index n f ai = Err "IndexError" \/
    exists k, std_index n f ai = Ok k /\ select_mapping (frame_maps maps M k) sel = Err "IndexError")) \/
  (e = "ValueError"%string /\
   exists k m, std_index n f ai = Ok k /\ select_mapping (frame_maps maps M k) sel = Ok m /\
               apply_mapping m (read_frame w R C bytes k) = Err "ValueError").
Proof.
  unfold get_frame_rw. split.
  - destruct (std_index n f ai) as [k|e1] eqn:E1; cbn [bind].
    + destruct (select_mapping (frame_maps maps M k) sel) as [m|e2] eqn:E2; cbn [bind].
      * intros H. pose proof (apply_mapping_err_kind _ _ _ H). subst e. right. split; [reflexivity|].
        exists k, m. auto.
      * inversion 1; subst. pose proof (selector_err_kind _ _ _ E2). subst e. left. split; [reflexivity|].
        right. exists k. auto.
    + inversion 1; subst. pose proof (std_index_err_kind _ _ _ _ E1). subst e. left. auto.
  - intros [[-> [H|[k [H1 H2]]]]|[-> [k [m [H1 [H2 H3]]]]]].
    + rewrite H. reflexivity.
    + rewrite H1. cbn [bind]. rewrite H2. reflexivity.
    + rewrite H1. cbn [bind]. rewrite H2. exact H3.
Qed.

(* ====================================================================== *)
(* batch read of stored frames                                              *)
(* ====================================================================== *)
Definition requested (nframes : Z) (fs : option (list Z)) (ai : bool) : list Z :=
  match fs with Some l => l | None => all_frames nframes ai end.

Lemma get_stored_frames_ok w R C n bytes fs ai out :
  get_stored_frames w R C n bytes fs ai = Ok out <->
  requested n fs ai <> [] /\
  Forall2 (fun f fr => exists k, std_index n f ai = Ok k /\ fr = read_frame w R C bytes k)
          (requested n fs ai) out.
Proof.
  unfold get_stored_frames. fold (requested n fs ai). set (l := requested n fs ai).
  assert (Hiff : forall f fr, get_stored_frame w R C n bytes f ai = Ok fr <->
                              exists k, std_index n f ai = Ok k /\ fr = read_frame w R C bytes k).
  { intros f fr. unfold get_stored_frame. destruct (std_index n f ai) as [k|e]; cbn [bind].
    - split; [inversion 1; eauto|intros [k' [H ->]]; inversion H; reflexivity].
    - split; [discriminate|intros [k' [H _]]; discriminate]. }
  destruct (res_all (map (fun f => get_stored_frame w R C n bytes f ai) l)) as [t|e] eqn:E; cbn [bind].
  - apply res_all_map_ok in E. split.
    + destruct t as [|t0 t]; [discriminate|]. inversion 1; subst. split.
      * intros Hl. rewrite Hl in E. inversion E.
      * eapply Forall2_impl'; [|exact E]. intros a b. apply Hiff.
    + intros [Hne H2].
      assert (E' : Forall2 (fun x y => get_stored_frame w R C n bytes x ai = Ok y) l out).
      { eapply Forall2_impl'; [|exact H2]. intros a b. apply Hiff. }
      apply res_all_map_ok in E, E'. rewrite E in E'. inversion E'; subst.
      destruct out as [|o out]; [|reflexivity].
      apply res_all_map_ok in E. inversion E; subst. congruence.
  - split; [discriminate|]. intros [_ H2].
    assert (E' : Forall2 (fun x y => get_stored_frame w R C n bytes x ai = Ok y) l out).
    { eapply Forall2_impl'; [|exact H2]. intros a b. apply Hiff. }
    apply res_all_map_ok in E'. congruence.
Qed.

Lemma get_stored_frames_err w R C n bytes fs ai e :
  get_stored_frames w R C n bytes fs ai = Err e <->
  (e = "ValueError"%string /\ requested n fs ai = []) \/
  (e = "IndexError"%string /\ exists f, In f (requested n fs ai) /\ std_index n f ai = Err "IndexError").
Proof.
  unfold get_stored_frames. fold (requested n fs ai). set (l := requested n fs ai).
  destruct (res_all (map (fun f => get_stored_frame w R C n bytes f ai) l)) as [t|e1] eqn:E; cbn [bind].
  - pose proof (proj1 (res_all_map_ok _ _ _) E) as F. split.
    + destruct t as [|t0 t]; [|discriminate]. inversion 1; subst. left. split; [reflexivity|].
      inversion F; reflexivity.
    + intros [[-> Hl]|[-> [f [Hf Hbad]]]].
      * rewrite Hl in F. inversion F; subst. reflexivity.
      * exfalso. clear E. induction F as [|x y l' t' Hxy F IH]; [contradiction|].
        destruct Hf as [<-|Hf]; [|auto].
        unfold get_stored_frame in Hxy. rewrite Hbad in Hxy. discriminate.
  - apply res_all_map_err in E. destruct E as [pre [x [post [Hl [Hpre Hx]]]]].
    assert (Hk : std_index n x ai = Err e1).
    { unfold get_stored_frame in Hx. destruct (std_index n x ai) as [k|k]; cbn [bind] in Hx; [discriminate|now inversion Hx]. }
    pose proof (std_index_err_kind _ _ _ _ Hk). subst e1. split.
    + inversion 1; subst. right. split; [reflexivity|]. exists x. split; [|exact Hk].
      rewrite Hl. apply in_or_app. right. now left.
    + intros [[-> Hnil]|[-> _]]; [|reflexivity]. rewrite Hnil in Hl. destruct pre; discriminate.
Qed.

(* every frame of an image, in either convention *)
Lemma all_frames_valid n ai :
  Forall2 (fun f k => std_index n f ai = Ok k) (all_frames n ai) (zrange n).
Proof.
  unfold all_frames.
  assert (H : forall l, (forall k, In k l -> 0 <= k < n) ->
            Forall2 (fun f k => std_index n f ai = Ok k) (if ai then l else map (fun k => k + 1) l) l).
  { induction l as [|a l IH]; intros Hl; [destruct ai; constructor|].
    assert (Ha : 0 <= a < n) by (apply Hl; now left).
    assert (IH' := IH (fun k Hk => Hl k (or_intror Hk))).
    destruct ai; cbn [map]; constructor; try exact IH'.
    - apply std_index_index. lia.
    - apply std_index_number. lia. }
  destruct ai; apply (H (zrange n)); intros k Hk; now apply in_zrange.
Qed.

(* ====================================================================== *)
(* end to end: what the constructor stores is what the image interface reads *)
(* ====================================================================== *)
Section EndToEnd.
  Variable get : Z -> Z -> Z -> Z -> Z.
  Variables N R C M : Z.
  Variable w : nat.
  Hypothesis get_fits : forall i r c j, 0 <= get i r c j < 256 ^ Z.of_nat w.
  Hypothesis HR : 0 <= R.
  Hypothesis HC : 0 <= C.
  Hypothesis HM : 0 < M.
  Notation bytes := (pm_bytes get N R C M w).

  Lemma divmod_frame i j : 0 <= j < M -> (i * M + j) / M = i /\ (i * M + j) mod M = j.
  Proof.
    intros Hj. split.
    - rewrite Z.div_add_l by lia. rewrite Z.div_small by lia. lia.
    - rewrite Z.add_comm, Z.mod_add by lia. apply Z.mod_small. lia.
  Qed.

  Lemma read_all_frames : 0 <= N ->
    map (read_frame w R C bytes) (zrange (N * M)) = pm_frames get N R C M.
  Proof.
    intros HN. apply nth_error_ext'. intros n.
    destruct (Nat.ltb n (Z.to_nat (N * M))) eqn:En.
    - apply Nat.ltb_lt in En. set (k := Z.of_nat n).
      assert (Hk : 0 <= k < N * M) by lia.
      replace n with (Z.to_nat k) by lia.
      rewrite (nth_error_map_zrange (read_frame w R C bytes)) by exact Hk.
      rewrite (read_frame_stored get N R C M w get_fits k HR HC HM Hk).
      assert (Hi : 0 <= k / M < N) by (split; [apply Z.div_pos; lia|apply Z.div_lt_upper_bound; lia]).
      assert (Hj : 0 <= k mod M < M) by (apply Z.mod_pos_bound; lia).
      assert (Hkk : k = (k / M) * M + k mod M) by (rewrite Z.mul_comm; apply Z.div_mod; lia).
      rewrite Hkk at 3. symmetry. now apply pm_frames_nth.
    - apply Nat.ltb_ge in En.
      replace (nth_error (map (read_frame w R C bytes) (zrange (N * M))) n) with (@None (list Z))
        by (symmetry; apply nth_error_None; rewrite map_length, zrange_length; exact En).
      symmetry. apply nth_error_None. rewrite pm_frames_length.
      rewrite <- Z2Nat.inj_mul by lia. exact En.
  Qed.

  (* read (write x) = x: all frames at once, in either numbering convention *)
  Lemma store_read_all ai : 0 < N ->
    get_stored_frames w R C (N * M) bytes None ai = Ok (pm_frames get N R C M).
  Proof.
    intros HN. apply get_stored_frames_ok. cbn [requested]. split.
    - intros H. pose proof (all_frames_valid (N * M) ai) as F. rewrite H in F.
      apply Forall2_length' in F. rewrite zrange_length in F. cbn [length] in F. nia.
    - rewrite <- read_all_frames by lia.
      pose proof (all_frames_valid (N * M) ai) as F.
      induction F as [|f k fs ks Hfk F IH]; cbn [map]; constructor; [|exact IH].
      exists k. auto.
  Qed.

  (* one frame: frame of plane i and channel j, by number and by index *)
  Lemma store_read_one i j : 0 <= i < N -> 0 <= j < M ->
    get_stored_frame w R C (N * M) bytes (i * M + j + 1) false = Ok (frame_words get R C i j) /\
    get_stored_frame w R C (N * M) bytes (i * M + j) true = Ok (frame_words get R C i j).
  Proof.
    intros Hi Hj. assert (Hk : 0 <= i * M + j < N * M) by nia.
    destruct (divmod_frame i j Hj) as [Hd Hm].
    unfold get_stored_frame. split.
    - replace (std_index (N * M) (i * M + j + 1) false) with (Ok (i * M + j))
        by (symmetry; apply std_index_number; lia).
      cbn [bind]. rewrite (read_frame_stored get N R C M w get_fits _ HR HC HM Hk), Hd, Hm. reflexivity.
    - replace (std_index (N * M) (i * M + j) true) with (Ok (i * M + j))
        by (symmetry; apply std_index_index; lia).
      cbn [bind]. rewrite (read_frame_stored get N R C M w get_fits _ HR HC HM Hk), Hd, Hm. reflexivity.
  Qed.

  (* with the real-world flag: the mappings of channel j (the shared ones if there is one channel)
     applied to plane i, channel j *)
  Lemma store_read_real_world maps sel i j (ai : bool) : 0 <= i < N -> 0 <= j < M ->
    get_frame_rw w R C M (N * M) bytes maps sel (if ai then i * M + j else i * M + j + 1) ai =
    bind (select_mapping (nth (Z.to_nat (if 1 <? M then j else 0)) maps []) sel)
         (fun m => apply_mapping m (frame_words get R C i j)).
  Proof.
    intros Hi Hj. assert (Hk : 0 <= i * M + j < N * M) by nia.
    destruct (divmod_frame i j Hj) as [Hd Hm].
    unfold get_frame_rw.
    replace (std_index (N * M) (if ai then i * M + j else i * M + j + 1) ai) with (Ok (i * M + j)).
    2:{ symmetry. destruct ai; [apply std_index_index|apply std_index_number]; lia. }
    cbn [bind]. unfold frame_maps.
    rewrite (read_frame_stored get N R C M w get_fits _ HR HC HM Hk), Hd, Hm. reflexivity.
  Qed.
End EndToEnd.

(* the composite statement, from the constructor's acceptance to the read *)
Lemma pm_accept_facts c n r cc m a w : pm_validate c = Ok (n, r, cc, m, a, w) ->
  0 < m /\ (a = PixelData -> w = 1%nat \/ w = 2%nat) /\
  (a = FloatPixelData -> w = 4%nat) /\ (a = DoubleFloatPixelData -> w = 8%nat).
Proof.
  intros H. apply pm_validate_sound in H. destruct H as [_ _ _ _ _ _ Hmaps _ Hattr _].
  split.
  - unfold maps_ok in Hmaps. destruct (Nat.eqb _ 4).
    + destruct Hmaps as [l0 [ls [_ [_ Hm]]]]. lia.
    + destruct Hmaps as [k [_ [_ Hm]]]. lia.
  - unfold pm_attr in Hattr. destruct (c_dtype c); inversion Hattr; subst;
      repeat split; intros; try discriminate; auto.
Qed.

Lemma pm_roundtrip_e2e : forall c get n r cc m w,
  pm_validate c = Ok (n, r, cc, m, PixelData, w) ->
  (forall i r c j, 0 <= get i r c j < 256 ^ Z.of_nat w) ->
  0 < n -> 0 <= r -> 0 <= cc ->
  let bytes := pm_bytes get n r cc m w in
  (forall ai, get_stored_frames w r cc (n * m) bytes None ai = Ok (pm_frames get n r cc m)) /\
  (forall i j, 0 <= i < n -> 0 <= j < m ->
     get_stored_frame w r cc (n * m) bytes (i * m + j + 1) false = Ok (frame_words get r cc i j) /\
     get_stored_frame w r cc (n * m) bytes (i * m + j) true = Ok (frame_words get r cc i j) /\
     forall y x, 0 <= y < r -> 0 <= x < cc ->
       nth_error (frame_words get r cc i j) (Z.to_nat (y * cc + x)) = Some (get i y x j)) /\
  (forall maps sel i j (ai : bool), 0 <= i < n -> 0 <= j < m ->
     get_frame_rw w r cc m (n * m) bytes maps sel (if ai then i * m + j else i * m + j + 1) ai =
     bind (select_mapping (nth (Z.to_nat (if 1 <? m then j else 0)) maps []) sel)
          (fun mp => apply_mapping mp (frame_words get r cc i j))).
Proof.
  intros c get n r cc m w Hv Hfit Hn Hr Hc bytes.
  destruct (pm_accept_facts _ _ _ _ _ _ _ Hv) as [Hm _].
  split; [|split].
  - intros ai. now apply store_read_all.
  - intros i j Hi Hj. destruct (store_read_one get n r cc m w Hfit Hr Hc Hm i j Hi Hj) as [H1 H2].
    split; [exact H1|]. split; [exact H2|]. intros y x Hy Hx. now apply frame_words_nth.
  - intros maps sel i j ai Hi Hj. now apply store_read_real_world.
Qed.

(* ====================================================================== *)
(* transform flags of get_frame(s)                                          *)
(* ====================================================================== *)
(* declarative table of the 27 flag combinations *)
Definition flags_spec (rw md voi : option bool) : res tmode :=
  match rw, md, voi with
  | Some true, Some true, _ => Err "ValueError"
  | Some true, _, Some true => Err "ValueError"
  | Some true, _, _ => Ok (TRealWorld false)
  | None, Some true, Some false => Ok TStored
  | None, Some true, _ => Ok TWindow
  | None, Some false, Some false => Ok (TRealWorld false)
  | None, Some false, _ => Err "ValueError"
  | None, None, Some true => Ok (TRealWorld true)
  | None, None, _ => Ok (TRealWorld false)
  | Some false, Some false, Some false => Ok TStored
  | Some false, Some false, _ => Err "ValueError"
  | Some false, _, Some false => Ok TStored
  | Some false, _, _ => Ok TWindow
  end.

Lemma resolve_flags_table rw md voi : resolve_flags rw md voi = flags_spec rw md voi.
Proof. destruct rw as [[|]|], md as [[|]|], voi as [[|]|]; reflexivity. Qed.

(* the real world mapping is applied exactly on request (flag True, or left unset while nothing
   else is demanded); stored values come back exactly when it is switched off *)
Lemma flags_real_world_iff rw md voi :
  resolve_flags rw md voi = Ok (TRealWorld false) <->
  md <> Some true /\ voi <> Some true /\
  (rw = Some true \/ (rw = None /\ (md = Some false -> voi = Some false))).
Proof.
  destruct rw as [[|]|], md as [[|]|], voi as [[|]|]; vm_compute; split;
    try discriminate; intros H;
    try reflexivity;
    try (repeat split; try discriminate; try (left; reflexivity);
         try (right; split; [reflexivity|intros; try reflexivity; discriminate]); fail);
    try (destruct H as [H1 [H2 [H3|[H3 H4]]]]; try congruence;
         try (specialize (H4 eq_refl)); congruence).
Qed.

Lemma flags_stored_iff rw md voi :
  resolve_flags rw md voi = Ok TStored <->
  voi = Some false /\ (rw = Some false \/ (rw = None /\ md = Some true)).
Proof.
  destruct rw as [[|]|], md as [[|]|], voi as [[|]|]; vm_compute; split;
    try discriminate; intros H; try reflexivity;
    try (split; [reflexivity|]; try (left; reflexivity); right; split; reflexivity);
    try (destruct H as [H1 [H2|[H2 H3]]]; congruence).
Qed.

Lemma get_frame_flags_real_world w R C M n bytes maps sel rw md voi c wd f ai :
  resolve_flags rw md voi = Ok (TRealWorld false) ->
  get_frame_flags w R C M n bytes maps sel rw md voi c wd f ai =
  get_frame_rw w R C M n bytes maps sel f ai.
Proof.
  intros H. unfold get_frame_flags, get_frame_rw, frame_transform. rewrite H. cbn [bind].
  destruct (std_index n f ai) as [k|e]; cbn [bind]; [|reflexivity].
  destruct (select_mapping (frame_maps maps M k) sel); reflexivity.
Qed.

Lemma get_frame_flags_stored w R C M n bytes maps sel rw md voi c wd f ai :
  resolve_flags rw md voi = Ok TStored ->
  get_frame_flags w R C M n bytes maps sel rw md voi c wd f ai =
  bind (get_stored_frame w R C n bytes f ai) (fun ws => Ok (map inject_Z ws)).
Proof.
  intros H. unfold get_frame_flags, get_stored_frame, frame_transform. rewrite H. cbn [bind].
  destruct (std_index n f ai) as [k|e]; reflexivity.
Qed.

Lemma get_frame_flags_refused w R C M n bytes maps sel rw md voi c wd f ai e :
  resolve_flags rw md voi = Err e -> forall k, std_index n f ai = Ok k ->
  get_frame_flags w R C M n bytes maps sel rw md voi c wd f ai = Err e.
Proof.
  intros H k Hk. unfold get_frame_flags, frame_transform. rewrite Hk, H. reflexivity.
Qed.

Lemma get_frames_flags_sequential w R C M n bytes maps sel rw md voi c wd fs ai : fs <> [] ->
  get_frames_flags w R C M n bytes maps sel rw md voi c wd (Some fs) ai =
  res_all (map (fun f => get_frame_flags w R C M n bytes maps sel rw md voi c wd f ai) fs).
Proof.
  intros Hne. destruct fs as [|f0 fs]; [congruence|]. unfold get_frames_flags.
  destruct (std_index n f0 ai) as [k0|e] eqn:E1; cbn [bind].
  - destruct (frame_transform (frame_maps maps M k0) sel rw md voi c wd) as [t|e] eqn:E2; cbn [bind];
      [reflexivity|].
    cbn [map res_all].
    assert (H : get_frame_flags w R C M n bytes maps sel rw md voi c wd f0 ai = Err e).
    { unfold get_frame_flags. rewrite E1. cbn [bind]. rewrite E2. reflexivity. }
    now rewrite H.
  - cbn [map res_all].
    assert (H : get_frame_flags w R C M n bytes maps sel rw md voi c wd f0 ai = Err e).
    { unfold get_frame_flags. rewrite E1. reflexivity. }
    now rewrite H.
Qed.

(* ====================================================================== *)
(* RealWorldValueMapping.apply                                              *)
(* ====================================================================== *)
Lemma rwvm_apply_spec int_array m ws :
  rwvm_apply int_array m ws =
  match m with
  | MLut _ _ => if int_array then apply_mapping m ws else Err "ValueError"
  | MLin _ _ _ _ => apply_mapping m ws
  end.
Proof. destruct m, int_array; reflexivity. Qed.

(* ====================================================================== *)
(* volume read                                                              *)
(* ====================================================================== *)
Definition desc (a b : list Z * list Z) : Prop := zkey (fst b) <= zkey (fst a).

Lemma insert_desc_perm x l : Permutation (insert_desc x l) (x :: l).
Proof.
  induction l as [|y r IH]; cbn [insert_desc]; [apply Permutation_refl|].
  destruct (zkey (fst y) <? zkey (fst x)); [apply Permutation_refl|].
  eapply perm_trans; [apply perm_skip; exact IH|apply perm_swap].
Qed.

Lemma sort_desc_perm l : Permutation (sort_desc l) l.
Proof.
  induction l as [|x l IH]; cbn [sort_desc fold_right]; [constructor|].
  eapply perm_trans; [apply insert_desc_perm|]. now apply perm_skip.
Qed.

Lemma insert_desc_sorted x l : StronglySorted desc l -> StronglySorted desc (insert_desc x l).
Proof.
  induction l as [|y r IH]; intros Hs; cbn [insert_desc].
  - constructor; constructor.
  - inversion Hs as [|y' r' H1 H2]; subst.
    destruct (zkey (fst y) <? zkey (fst x)) eqn:E.
    + constructor; [exact Hs|]. constructor; [unfold desc; lia|].
      eapply Forall_impl; [|exact H2]. intros a Ha. unfold desc in *. lia.
    + constructor; [apply IH; exact H1|].
      apply Forall_forall. intros a Ha. apply (Permutation_in _ (insert_desc_perm x r)) in Ha.
      destruct Ha as [<-|Ha]; [unfold desc; lia|].
      rewrite Forall_forall in H2. auto.
Qed.

Lemma sort_desc_sorted l : StronglySorted desc (sort_desc l).
Proof.
  induction l as [|x l IH]; cbn [sort_desc fold_right]; [constructor|].
  now apply insert_desc_sorted.
Qed.

Lemma dedup_length_le l : (length (dedup l) <= length l)%nat.
Proof.
  induction l as [|x r IH]; cbn [dedup length]; [lia|].
  destruct (existsb (key_eqb x) r); cbn [length]; lia.
Qed.

Lemma dedup_length_NoDup l : length (dedup l) = length l <-> NoDup l.
Proof.
  induction l as [|x r IH]; cbn [dedup length].
  - split; [constructor|reflexivity].
  - destruct (existsb (key_eqb x) r) eqn:E.
    + apply existsb_key_eqb_In in E. pose proof (dedup_length_le r) as Hle. split; [lia|].
      intros Hnd. inversion Hnd; subst. contradiction.
    + cbn [length]. split.
      * intros H. constructor; [|apply IH; lia].
        intros Hin. apply existsb_key_eqb_In in Hin. congruence.
      * intros H. inversion H; subst. f_equal. now apply IH.
Qed.

Lemma in_combine_nth_error {A B} (l : list A) : forall (t : list B) a b,
  In (a, b) (combine l t) <-> exists i, nth_error l i = Some a /\ nth_error t i = Some b.
Proof.
  induction l as [|x l IH]; intros t a b.
  - cbn [combine]. split; [contradiction|]. intros [i [H _]]. destruct i; discriminate.
  - destruct t as [|y t]; cbn [combine].
    + split; [contradiction|]. intros [i [_ H]]. destruct i; discriminate.
    + split.
      * intros [H|H].
        -- inversion H; subst. exists 0%nat. auto.
        -- apply IH in H. destruct H as [i [H1 H2]]. exists (S i). auto.
      * intros [[|i] [H1 H2]]; cbn [nth_error] in *.
        -- inversion H1; inversion H2; subst. now left.
        -- right. apply IH. eauto.
Qed.

Lemma pm_volume_ok pos frames sl : pm_volume pos frames = Ok sl ->
  NoDup pos /\ Permutation sl (combine pos frames) /\ StronglySorted desc sl /\
  forall p fr, In (p, fr) sl <->
               exists i, nth_error pos i = Some p /\ nth_error frames i = Some fr.
Proof.
  unfold pm_volume. destruct (Nat.ltb (length (dedup pos)) (length pos)) eqn:E; [discriminate|].
  intros Hok. inversion Hok; subst. apply Nat.ltb_ge in E. pose proof (dedup_length_le pos) as Hle.
  split; [apply dedup_length_NoDup; lia|]. split; [apply sort_desc_perm|].
  split; [apply sort_desc_sorted|]. intros p fr. rewrite <- in_combine_nth_error. split.
  - apply Permutation_in. apply sort_desc_perm.
  - apply Permutation_in. apply Permutation_sym. apply sort_desc_perm.
Qed.

Lemma pm_volume_refused pos frames :
  (pm_volume pos frames = Err "RuntimeError" <-> ~ NoDup pos) /\
  (forall e, pm_volume pos frames = Err e -> e = "RuntimeError"%string).
Proof.
  unfold pm_volume. pose proof (dedup_length_le pos) as Hle.
  destruct (Nat.ltb (length (dedup pos)) (length pos)) eqn:E.
  - apply Nat.ltb_lt in E. split; [|inversion 1; reflexivity]. split; [|reflexivity].
    intros _ H. apply dedup_length_NoDup in H. lia.
  - apply Nat.ltb_ge in E. split; [|discriminate]. split; [discriminate|].
    intros H. exfalso. apply H. apply dedup_length_NoDup. lia.
Qed.

(* the volume of a stored single-channel map: the slice at position p is the plane given at p *)
Lemma pm_volume_roundtrip : forall get N R C w pos sl,
  (forall i r c j, 0 <= get i r c j < 256 ^ Z.of_nat w) -> 0 <= R -> 0 <= C -> 0 <= N ->
  length pos = Z.to_nat N ->
  pm_volume pos (map (read_frame w R C (pm_bytes get N R C 1 w)) (zrange N)) = Ok sl ->
  StronglySorted desc sl /\ length sl = Z.to_nat N /\
  forall p fr, In (p, fr) sl <->
    exists i, 0 <= i < N /\ nth_error pos (Z.to_nat i) = Some p /\ fr = frame_words get R C i 0.
Proof.
  intros get N R C w pos sl Hfit HR HC HN Hlen Hv.
  apply pm_volume_ok in Hv. destruct Hv as [_ [Hperm [Hs Hin]]].
  split; [exact Hs|]. split.
  - rewrite (Permutation_length Hperm), combine_length, map_length, zrange_length. lia.
  - intros p fr. rewrite Hin. split.
    + intros [i [H1 H2]].
      assert (Hi : (i < Z.to_nat N)%nat) by (rewrite <- Hlen; apply nth_error_Some; congruence).
      exists (Z.of_nat i). split; [lia|]. rewrite Nat2Z.id. split; [exact H1|].
      replace i with (Z.to_nat (Z.of_nat i)) in H2 by lia.
      rewrite (nth_error_map_zrange (read_frame w R C (pm_bytes get N R C 1 w))) in H2 by lia.
      inversion H2; subst.
      rewrite (read_frame_stored get N R C 1 w Hfit (Z.of_nat i) HR HC) by lia.
      rewrite Z.div_1_r, Z.mod_1_r. reflexivity.
    + intros [i [Hi [H1 ->]]]. exists (Z.to_nat i). split; [exact H1|].
      rewrite (nth_error_map_zrange (read_frame w R C (pm_bytes get N R C 1 w))) by lia.
      rewrite (read_frame_stored get N R C 1 w Hfit i HR HC) by lia.
      rewrite Z.div_1_r, Z.mod_1_r. reflexivity.
Qed.

(* ====================================================================== *)
(* byte level: where each byte of each element is stored                     *)
(* ====================================================================== *)
Lemma le_bytes_nth : forall w x t, (t < w)%nat ->
  nth_error (le_bytes w x) t = Some ((x / 256 ^ Z.of_nat t) mod 256).
Proof.
  induction w as [|w IH]; intros x t Ht; [lia|]. cbn [le_bytes]. destruct t as [|t].
  - cbn [nth_error]. now rewrite Z.pow_0_r, Z.div_1_r.
  - cbn [nth_error]. rewrite IH by lia. f_equal. f_equal.
    rewrite Nat2Z.inj_succ, Z.pow_succ_r by lia. rewrite Z.div_div by lia. reflexivity.
Qed.

Lemma flat_map_nth_const {A B} (g : A -> list B) (len : nat) (l : list A) :
  (forall x, length (g x) = len) -> forall k o a, nth_error l k = Some a -> (o < len)%nat ->
  nth_error (flat_map g l) (k * len + o) = nth_error (g a) o.
Proof.
  intros Hlen. induction l as [|y l IH]; intros k o a Hk Ho; [destruct k; discriminate|].
  cbn [flat_map]. destruct k as [|k]; cbn [nth_error] in Hk.
  - inversion Hk; subst. cbn [Nat.mul Nat.add]. apply nth_error_app1. now rewrite Hlen.
  - rewrite nth_error_app2 by (rewrite Hlen; lia). rewrite Hlen.
    replace (S k * len + o - len)%nat with (k * len + o)%nat by lia. now apply IH.
Qed.

Lemma pm_bytes_nth get N R C M w i j r c t :
  0 <= i < N -> 0 <= j < M -> 0 <= r < R -> 0 <= c < C -> (t < w)%nat ->
  nth_error (pm_bytes get N R C M w)
            (Z.to_nat (((i * M + j) * R + r) * C + c) * w + t) =
  Some ((get i r c j / 256 ^ Z.of_nat t) mod 256).
Proof.
  intros Hi Hj Hr Hc Ht. unfold pm_bytes.
  rewrite (flat_map_nth_const (le_bytes w) w _ (fun x => le_bytes_length w x) _ t (get i r c j));
    [now apply le_bytes_nth|now apply pm_words_nth|exact Ht].
Qed.

Lemma pm_bytes_length get N R C M w :
  length (pm_bytes get N R C M w) =
  (Z.to_nat N * (Z.to_nat M * (Z.to_nat R * Z.to_nat C)) * w)%nat.
Proof.
  unfold pm_bytes. rewrite (length_flat_map_const' _ _ w) by (intros; apply le_bytes_length).
  now rewrite pm_words_length.
Qed.

(* ====================================================================== *)
(* dimension index values are ONTO 1..#distinct positions                    *)
(* ====================================================================== *)
Lemma rank_onto col v : 1 <= v <= Z.of_nat (length (dedup col)) ->
  exists p, In p col /\ rank col p = v.
Proof.
  intros Hv. set (n := length (dedup col)).
  set (l := map (rank col) (dedup col)).
  set (l' := map (fun k => 1 + Z.of_nat k) (seq 0 n)).
  assert (Hnd : NoDup l).
  { subst l.
    assert (G : forall d, NoDup d -> (forall x, In x d -> In x col) -> NoDup (map (rank col) d)).
    { induction d as [|a d IHd]; intros Hd Hin; cbn [map]; constructor.
      - intros Hm. apply in_map_iff in Hm. destruct Hm as [y [Hy Hyin]]. inversion Hd; subst.
        assert (y = a).
        { apply (proj1 (proj2 (rank_order col y a (Hin y (or_intror Hyin)) (Hin a (or_introl eq_refl))))).
          exact Hy. }
        subst. contradiction.
      - inversion Hd; subst. apply IHd; [assumption|]. intros x Hx. apply Hin. now right. }
    apply G; [apply NoDup_dedup|intros x Hx; exact (proj1 (In_dedup x col) Hx)]. }
  assert (Hincl : incl l l').
  { intros x Hx. subst l. apply in_map_iff in Hx. destruct Hx as [p [<- Hp]]. apply (proj1 (In_dedup p col)) in Hp.
    pose proof (rank_bounds col p Hp) as Hb. subst l'. apply in_map_iff.
    exists (Z.to_nat (rank col p - 1)). split; [lia|]. apply in_seq. subst n. lia. }
  assert (Hlen : (length l' <= length l)%nat).
  { subst l l'. rewrite !map_length, seq_length. subst n. lia. }
  pose proof (NoDup_length_incl Hnd Hlen Hincl) as Hback.
  assert (Hin : In v l').
  { subst l'. apply in_map_iff. exists (Z.to_nat (v - 1)). split; [lia|apply in_seq; subst n; lia]. }
  apply Hback in Hin. subst l. apply in_map_iff in Hin. destruct Hin as [p [Hp Hpin]].
  exists p. split; [exact (proj1 (In_dedup p col) Hpin)|exact Hp].
Qed.

(* ====================================================================== *)
(* statements assembled for C19_Props.v                                      *)
(* ====================================================================== *)
Lemma selector_full : forall l sel,
  (forall m, select_mapping l sel = Ok m <-> sel_spec l sel m) /\
  (select_mapping l sel = Err "IndexError" <-> forall m, ~ sel_spec l sel m) /\
  (forall e, select_mapping l sel = Err e -> e = "IndexError"%string).
Proof.
  intros l sel. split; [intros m; apply selector_ok|]. split; [apply selector_refused|].
  intros e. apply selector_err_kind.
Qed.

Lemma read_real_world_total : forall w R C M n bytes maps sel f ai,
  (forall vs, get_frame_rw w R C M n bytes maps sel f ai = Ok vs <->
     exists k m, std_index n f ai = Ok k /\ select_mapping (frame_maps maps M k) sel = Ok m /\
                 apply_mapping m (read_frame w R C bytes k) = Ok vs) /\
  (forall e, get_frame_rw w R C M n bytes maps sel f ai = Err e <->
     (e = "IndexError"%string /\
      (std_index n f ai = Err "IndexError" \/
       exists k, std_index n f ai = Ok k /\
                 select_mapping (frame_maps maps M k) sel = Err "IndexError")) \/
     (e = "ValueError"%string /\
      exists k m, std_index n f ai = Ok k /\ select_mapping (frame_maps maps M k) sel = Ok m /\
                  apply_mapping m (read_frame w R C bytes k) = Err "ValueError")).
Proof. intros. split; [intros vs; apply get_frame_rw_ok|intros e; apply get_frame_rw_err]. Qed.

Lemma stored_batch_total : forall w R C n bytes fs ai,
  (forall out, get_stored_frames w R C n bytes fs ai = Ok out <->
     requested n fs ai <> [] /\
     Forall2 (fun f fr => exists k, std_index n f ai = Ok k /\ fr = read_frame w R C bytes k)
             (requested n fs ai) out) /\
  (forall e, get_stored_frames w R C n bytes fs ai = Err e <->
     (e = "ValueError"%string /\ requested n fs ai = []) \/
     (e = "IndexError"%string /\
      exists f, In f (requested n fs ai) /\ std_index n f ai = Err "IndexError")).
Proof. intros. split; [intros out; apply get_stored_frames_ok|intros e; apply get_stored_frames_err]. Qed.

Lemma real_world_on_request : forall rw md voi,
  (resolve_flags rw md voi = Ok (TRealWorld false) <->
   md <> Some true /\ voi <> Some true /\
   (rw = Some true \/ (rw = None /\ (md = Some false -> voi = Some false)))) /\
  (resolve_flags rw md voi = Ok (TRealWorld false) ->
   forall w R C M n bytes maps sel c wd f ai,
   get_frame_flags w R C M n bytes maps sel rw md voi c wd f ai =
   get_frame_rw w R C M n bytes maps sel f ai).
Proof.
  intros. split; [apply flags_real_world_iff|]. intros H. intros.
  now apply get_frame_flags_real_world.
Qed.

Lemma stored_when_off : forall rw md voi,
  (resolve_flags rw md voi = Ok TStored <->
   voi = Some false /\ (rw = Some false \/ (rw = None /\ md = Some true))) /\
  (resolve_flags rw md voi = Ok TStored ->
   forall w R C M n bytes maps sel c wd f ai,
   get_frame_flags w R C M n bytes maps sel rw md voi c wd f ai =
   bind (get_stored_frame w R C n bytes f ai) (fun ws => Ok (map inject_Z ws))).
Proof.
  intros. split; [apply flags_stored_iff|]. intros H. intros. now apply get_frame_flags_stored.
Qed.

Lemma flags_refused : forall rw md voi e, resolve_flags rw md voi = Err e ->
  e = "ValueError"%string /\
  forall w R C M n bytes maps sel c wd f ai k, std_index n f ai = Ok k ->
  get_frame_flags w R C M n bytes maps sel rw md voi c wd f ai = Err e.
Proof.
  intros rw md voi e H. split.
  - rewrite resolve_flags_table in H.
    destruct rw as [[|]|], md as [[|]|], voi as [[|]|]; cbn in H; inversion H; reflexivity.
  - intros. eapply get_frame_flags_refused; eauto.
Qed.

Lemma volume_refused_full : forall pos frames,
  (pm_volume pos frames = Err "RuntimeError" <-> ~ NoDup pos) /\
  (forall e, pm_volume pos frames = Err e -> e = "RuntimeError"%string).
Proof. exact pm_volume_refused. Qed.

Lemma pm_bytes_at : forall get N R C M w,
  length (pm_bytes get N R C M w) =
    (Z.to_nat N * (Z.to_nat M * (Z.to_nat R * Z.to_nat C)) * w)%nat /\
  forall i j r c t, 0 <= i < N -> 0 <= j < M -> 0 <= r < R -> 0 <= c < C -> (t < w)%nat ->
  nth_error (pm_bytes get N R C M w)
            (Z.to_nat (((i * M + j) * R + r) * C + c) * w + t) =
  Some ((get i r c j / 256 ^ Z.of_nat t) mod 256).
Proof. intros. split; [apply pm_bytes_length|intros; now apply pm_bytes_nth]. Qed.

(* ====================================================================== *)
(* non-vacuity                                                              *)
(* ====================================================================== *)
Example ext_example :
  let get := fun i r c j => nth (Z.to_nat (((i * 2 + j) * 1 + r) * 2 + c)) [7; 300; 2; 65535; 4; 5; 6; 1] 0 in
  let cfg := {| c_nsrc := 2; c_uniform := true; c_multiframe := false; c_srcplanes := 2;
                c_dtype := DU16; c_ts := Explicit; c_wwpos := true; c_shape := [2; 1; 2; 2];
                c_maps := MNested [1; 2]; c_pp := None |} in
  let bytes := pm_bytes get 2 1 2 2 2 in
  let maps := [[("a"%string, MLin (1#2) 1 0 400)];
               [("b"%string, MLut 0 [0; 1; (5#2)]%Q); ("c"%string, MLin 2 0 0 65535)]] in
  pm_validate cfg = Ok (2, 1, 2, 2, PixelData, 2%nat) /\
  get_stored_frames 2 1 2 4 bytes None false = Ok [[7; 300]; [2; 65535]; [4; 5]; [6; 1]] /\
  get_stored_frames 2 1 2 4 bytes (Some []) false = Err "ValueError" /\
  get_stored_frames 2 1 2 4 bytes (Some [1; 5]) false = Err "IndexError" /\
  get_frame_flags 2 1 2 2 4 bytes maps (SIdx 0) None None (Some false) 1 2 1 false = Ok [(9#2); (302#2)]%Q /\
  get_frame_flags 2 1 2 2 4 bytes maps (SIdx (-1)) (Some true) None None 1 2 2 false = Ok [4; 131070]%Q /\
  get_frame_flags 2 1 2 2 4 bytes maps (SLabel "b") None None (Some false) 1 2 2 false = Err "ValueError" /\
  get_frame_flags 2 1 2 2 4 bytes maps (SIdx 0) (Some false) None (Some false) 1 2 4 false = Ok [6; 1]%Q /\
  get_frame_flags 2 1 2 2 4 bytes maps (SIdx 0) None (Some true) None 1 3 4 false = Ok [1; (3#4)]%Q /\
  get_frame_flags 2 1 2 2 4 bytes maps (SIdx 0) None None (Some true) 1 2 1 false = Err "RuntimeError" /\
  rwvm_apply false (MLut 0 [0; 1]%Q) [0; 1] = Err "ValueError" /\
  pm_volume [[0; 0; 8]; [0; 0; 24]; [0; 0; 16]] [[1]; [2]; [3]] =
    Ok [([0; 0; 24], [2]); ([0; 0; 16], [3]); ([0; 0; 8], [1])] /\
  pm_volume [[0; 0; 8]; [0; 0; 8]] [[1]; [2]] = Err "RuntimeError".
Proof. vm_compute. repeat split; reflexivity. Qed.
