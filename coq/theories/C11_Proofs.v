(* C11 - proofs (see C11_Props.v for the statements). *)
From Coq Require Import String ZArith List Bool QArith Qround Qreduction Lia Lqa Permutation Sorted.
From HD Require Import Base.Val C11_Model.
Import ListNotations.
Open Scope Q_scope.

(* ---------- booleans over Q ---------------------------------------------------- *)
Lemma Qlt_b_true a b : Qlt_b a b = true <-> a < b.
Proof.
  unfold Qlt_b. rewrite negb_true_iff. split; intro H.
  - apply Qnot_le_lt. intro L. apply Qle_bool_iff in L. congruence.
  - destruct (Qle_bool b a) eqn:E; [|reflexivity]. apply Qle_bool_iff in E. lra.
Qed.
Lemma Qlt_b_false a b : Qlt_b a b = false <-> b <= a.
Proof.
  unfold Qlt_b. rewrite negb_false_iff. apply Qle_bool_iff.
Qed.
Lemma Qabs_nonneg q : 0 <= Qabs_ q.
Proof.
  unfold Qabs_. destruct (Qle_bool 0 q) eqn:E.
  - now apply Qle_bool_iff.
  - assert (~ 0 <= q) by (intro L; apply Qle_bool_iff in L; congruence). lra.
Qed.
Lemma Qabs_pos q : 0 <= q -> Qabs_ q == q.
Proof. intro H. unfold Qabs_. apply Qle_bool_iff in H. rewrite H. reflexivity. Qed.
Lemma Qabs_neg q : q <= 0 -> Qabs_ q == - q.
Proof.
  intro H. unfold Qabs_. destruct (Qle_bool 0 q) eqn:E; [|reflexivity].
  apply Qle_bool_iff in E. lra.
Qed.
Lemma Qabs_zero q : q == 0 -> Qabs_ q == 0.
Proof. intro H. rewrite Qabs_pos; lra. Qed.

Lemma isclose_eq rtol atol a b : 0 <= rtol -> 0 <= atol -> a == b -> isclose rtol atol a b = true.
Proof.
  intros Hr Ha E. unfold isclose. apply Qle_bool_iff.
  assert (Z0 : Qabs_ (a - b) == 0) by (apply Qabs_zero; lra).
  pose proof (Qabs_nonneg b). rewrite Z0. nra.
Qed.
Lemma isclose_spec rtol atol a b :
  isclose rtol atol a b = true <-> Qabs_ (a - b) <= atol + rtol * Qabs_ b.
Proof. unfold isclose. apply Qle_bool_iff. Qed.

(* ---------- guards ---------------------------------------------------------------- *)
Lemma flags_require_sort : forall ps rowc colc o,
  o_sort o = false -> (o_dups o = true \/ o_missing o = true) ->
  get_volume_positions ps rowc colc o = Err "ValueError"%string.
Proof.
  intros ps rowc colc o Hs [H|H]; unfold get_volume_positions; rewrite Hs, H; cbn [negb andb orb];
  [reflexivity | destruct (o_dups o); reflexivity].
Qed.

Lemma both_tolerances_refused : forall ps rowc colc o r a,
  o_rtol o = Some r -> o_atol o = Some a ->
  exists k, get_volume_positions ps rowc colc o = Err k.
Proof.
  intros ps rowc colc o r a Hr Ha. unfold get_volume_positions.
  destruct (negb (o_sort o) && (o_dups o || o_missing o)); [eexists; reflexivity|].
  destruct (norm_hint (o_hint o)); [|eexists; reflexivity].
  rewrite Hr, Ha. cbn [tolerances]. eexists; reflexivity.
Qed.

Lemma single_plane : forall p rowc colc o h t,
  negb (o_sort o) && (o_dups o || o_missing o) = false ->
  norm_hint (o_hint o) = Ok h -> tolerances (o_rtol o) (o_atol o) = Ok t ->
  get_volume_positions [p] rowc colc o = Ok (Some (hint_or_one h, [0%Z])).
Proof.
  intros p rowc colc o h [rt at_] G H T. unfold get_volume_positions. rewrite G, H, T. reflexivity.
Qed.

Lemma empty_refused : forall rowc colc o, exists k, get_volume_positions [] rowc colc o = Err k.
Proof.
  intros. unfold get_volume_positions.
  destruct (negb (o_sort o) && (o_dups o || o_missing o)); [eexists; reflexivity|].
  destruct (norm_hint (o_hint o)); [|eexists; reflexivity].
  destruct (tolerances (o_rtol o) (o_atol o)) as [[? ?]|]; eexists; reflexivity.
Qed.

Lemma bad_convention_refused : forall rowc colc c0 c1 rh,
  conv_ok c0 c1 = false <-> normal_vector rowc colc c0 c1 rh = Err "ValueError"%string.
Proof.
  intros. unfold normal_vector. destruct (conv_ok c0 c1); split; intro H; try reflexivity; discriminate.
Qed.

(* the normal: positive direction for each convention; flipping handedness or swapping the two index
   directions negates it, and it is orthogonal to both in-plane directions *)
Lemma veq_intro a b : vx a == vx b -> vy a == vy b -> vz a == vz b ->
  forall n, dot n a == dot n b.
Proof. intros H1 H2 H3 n. unfold dot. rewrite H1, H2, H3. reflexivity. Qed.

Lemma normal_handedness : forall rowc colc c0 c1 n1 n2,
  normal_vector rowc colc c0 c1 true = Ok n1 -> normal_vector rowc colc c0 c1 false = Ok n2 ->
  forall p, dot n2 p == - dot n1 p.
Proof.
  intros rowc colc c0 c1 n1 n2. unfold normal_vector. destruct (conv_ok c0 c1); [|discriminate].
  intros H1 H2 p. injection H1 as <-. injection H2 as <-.
  unfold dot, cross; cbn [vx vy vz]. ring.
Qed.
Lemma normal_swap : forall rowc colc c0 c1 rh n1 n2,
  normal_vector rowc colc c0 c1 rh = Ok n1 -> normal_vector rowc colc c1 c0 rh = Ok n2 ->
  forall p, dot n2 p == - dot n1 p.
Proof.
  intros rowc colc c0 c1 rh n1 n2. unfold normal_vector.
  replace (conv_ok c1 c0) with (conv_ok c0 c1) by (unfold conv_ok; apply xorb_comm).
  destruct (conv_ok c0 c1); [|discriminate].
  intros H1 H2 p. injection H1 as <-. injection H2 as <-.
  destruct rh; unfold dot, cross; cbn [vx vy vz]; ring.
Qed.
Lemma normal_orthogonal : forall rowc colc c0 c1 rh n,
  normal_vector rowc colc c0 c1 rh = Ok n -> dot n rowc == 0 /\ dot n colc == 0.
Proof.
  intros rowc colc c0 c1 rh n. unfold normal_vector. destruct (conv_ok c0 c1) eqn:C; [|discriminate].
  intro H. injection H as <-.
  destruct c0, c1; try discriminate C; destruct rh; unfold dot, cross, rot_col, vneg; cbn [vx vy vz]; split; ring.
Qed.
(* in-plane translations do not change the slice distance *)
Lemma distance_inplane : forall rowc colc c0 c1 rh n p a b,
  normal_vector rowc colc c0 c1 rh = Ok n ->
  dot n (vadd p (vadd (vscale a rowc) (vscale b colc))) == dot n p.
Proof.
  intros rowc colc c0 c1 rh n p a b H. destruct (normal_orthogonal _ _ _ _ _ _ H) as [Hr Hc].
  unfold dot, vadd, vscale in *; cbn [vx vy vz] in *. 
  transitivity (vx n * vx p + vy n * vy p + vz n * vz p
                + a * (vx n * vx rowc + vy n * vy rowc + vz n * vz rowc)
                + b * (vx n * vx colc + vy n * vy colc + vz n * vz colc)); [ring|].
  rewrite Hr, Hc. ring.
Qed.
