(* C16 - coded concepts behind the integer keys: the numbering `cc_key` is injective on the range used, so
   integer equality of keys IS pydicom/highdicom code equality (value, scheme designator, scheme version), and
   the exactness theorems can be read on coded concepts. *)
From Coq Require Import String ZArith List Bool Lia ZifyBool.
From HD Require Import Base.Val C16_Model C16_Proofs.
Import ListNotations.
Open Scope Z_scope.

Lemma cc_key_eqb : forall a b, cc_ok a = true -> cc_ok b = true -> (cc_key a =? cc_key b) = cc_eqb a b.
Proof.
  intros [v s ver] [v' s' ver'] Ha Hb.
  unfold cc_ok, cc_key, ck, cc_eqb, optz_eqb in *. cbn [cc_value cc_scheme cc_version] in *.
  destruct ver as [k|], ver' as [k'|]; lia.
Qed.

Lemma cc_key_inj : forall a b, cc_ok a = true -> cc_ok b = true -> cc_key a = cc_key b -> a = b.
Proof.
  intros [v s ver] [v' s' ver'] Ha Hb H.
  unfold cc_ok, cc_key, ck in *. cbn [cc_value cc_scheme cc_version] in *.
  destruct ver as [k|], ver' as [k'|]; try lia.
  - assert (v = v' /\ s = s' /\ k = k') as (-> & -> & ->) by lia. reflexivity.
  - assert (v = v' /\ s = s') as (-> & ->) by lia. reflexivity.
Qed.

(* the version is compared: same value and scheme, another version (or none) is another code *)
Lemma cc_version_distinguishes : forall v s k k',
  cc_eqb (CC v s (Some k)) (CC v s None) = false /\
  cc_eqb (CC v s None) (CC v s (Some k)) = false /\
  (k <> k' -> cc_eqb (CC v s (Some k)) (CC v s (Some k')) = false) /\
  cc_eqb (CC v s (Some k)) (CC v s (Some k)) = true.
Proof.
  intros. unfold cc_eqb, optz_eqb. cbn [cc_value cc_scheme cc_version]. repeat split; try lia.
Qed.

Lemma existsb_keys : forall c l, cc_ok c = true -> forallb cc_ok l = true ->
  existsb (fun s => s =? cc_key c) (map cc_key l) = existsb (fun s => cc_eqb s c) l.
Proof.
  intros c l Hc. induction l as [|x l IH]; intros Hl; [reflexivity|].
  cbn [forallb] in Hl. apply andb_true_iff in Hl as [Hx Hl].
  cbn [map existsb]. rewrite (cc_key_eqb x c Hx Hc), (IH Hl). reflexivity.
Qed.

Lemma sat_common_coded : forall f g ffind fsite gfind gsites,
  coded_filter f ffind fsite -> coded_group g gfind gsites ->
  sat_common f g = sat_common_cc ffind fsite (f_tuid f) gfind gsites (g_tuid g).
Proof.
  intros f g ffind fsite gfind gsites (Hff & Hffo & Hfs & Hfso) (Hgf & Hgfo & Hgs & Hgso).
  unfold sat_common, sat_common_cc. rewrite Hff, Hfs, Hgf, Hgs.
  f_equal. f_equal.
  - destruct ffind as [c|]; cbn [option_map]; [|reflexivity].
    destruct gfind as [c'|]; cbn [option_map]; [|reflexivity].
    cbn [optcc_ok] in *. apply cc_key_eqb; assumption.
  - destruct fsite as [c|]; cbn [option_map]; [|reflexivity].
    cbn [optcc_ok] in *. apply existsb_keys; assumption.
Qed.

Lemma filter_sat_cc : forall (K : kind) f ffind fsite cf cs gs,
  coded_filter f ffind fsite -> (forall g, In g gs -> coded_group g (cf g) (cs g)) ->
  filter (fun g => kind_eqb (g_kind g) K && sat f g) gs =
  filter (fun g => kind_eqb (g_kind g) K && sat_cc f ffind fsite cf cs g) gs.
Proof.
  intros K f ffind fsite cf cs gs Hf Hg. apply filter_ext_in. intros g Hin.
  unfold sat, sat_cc. rewrite (sat_common_coded f g ffind fsite (cf g) (cs g) Hf (Hg g Hin)). reflexivity.
Qed.

Lemma filter_sat_image_cc : forall f ffind fsite cf cs gs,
  coded_filter f ffind fsite -> (forall g, In g gs -> coded_group g (cf g) (cs g)) ->
  filter (fun g => kind_eqb (g_kind g) ImageK && sat_image f g) gs =
  filter (fun g => kind_eqb (g_kind g) ImageK && sat_image_cc f ffind fsite cf cs g) gs.
Proof.
  intros f ffind fsite cf cs gs Hf Hg. apply filter_ext_in. intros g Hin.
  unfold sat_image, sat_image_cc. rewrite (sat_common_coded f g ffind fsite (cf g) (cs g) Hf (Hg g Hin)). reflexivity.
Qed.

Theorem query_exact_planar_coded : forall pre gs f ffind fsite cf cs,
  no_im pre = true -> Forall good gs -> check_planar f = Ok tt ->
  coded_filter f ffind fsite -> (forall g, In g gs -> coded_group g (cf g) (cs g)) ->
  get_planar (report pre gs) f
  = Ok (map build (filter (fun g => kind_eqb (g_kind g) Planar && sat_cc f ffind fsite cf cs g) gs)).
Proof.
  intros pre gs f ffind fsite cf cs Hp Hg Hc Hf Hcg.
  rewrite (query_exact_planar pre gs f Hp Hg Hc), (filter_sat_cc Planar f ffind fsite cf cs gs Hf Hcg). reflexivity.
Qed.

Theorem query_exact_volumetric_coded : forall pre gs f ffind fsite cf cs,
  no_im pre = true -> Forall good gs -> check_volumetric f = Ok tt ->
  coded_filter f ffind fsite -> (forall g, In g gs -> coded_group g (cf g) (cs g)) ->
  get_volumetric (report pre gs) f
  = Ok (map build (filter (fun g => kind_eqb (g_kind g) Volumetric && sat_cc f ffind fsite cf cs g) gs)).
Proof.
  intros pre gs f ffind fsite cf cs Hp Hg Hc Hf Hcg.
  rewrite (query_exact_volumetric pre gs f Hp Hg Hc), (filter_sat_cc Volumetric f ffind fsite cf cs gs Hf Hcg).
  reflexivity.
Qed.

Theorem query_exact_image_coded : forall pre gs f ffind fsite cf cs,
  no_im pre = true -> Forall good gs ->
  coded_filter f ffind fsite -> (forall g, In g gs -> coded_group g (cf g) (cs g)) ->
  get_image (report pre gs) f
  = Ok (map build (filter (fun g => kind_eqb (g_kind g) ImageK && sat_image_cc f ffind fsite cf cs g) gs)).
Proof.
  intros pre gs f ffind fsite cf cs Hp Hg Hf Hcg.
  rewrite (query_exact_image pre gs f Hp Hg), (filter_sat_image_cc f ffind fsite cf cs gs Hf Hcg). reflexivity.
Qed.
