(* C08 - proofs, part 2: lifting the facts about the three primitive methods to every
   method of _VolumeBase (generic in the object type), to every operation of Volume, and to
   every finite history; geometry simulation; channels; handedness. *)
From Coq Require Import String ZArith List Bool Lia ZifyBool Ring.
From HD Require Import C08_Model C08_Proofs.
Import ListNotations.
Ltac Zify.zify_post_hook ::= Z.to_euclidean_division_equations.
Open Scope Z_scope.

Section Generic.
Variable R : Type.
Variables (rO rI : R) (radd rmul rsub : R -> R -> R) (ropp : R -> R).
Variable inj : Z -> R.
Variable ltb : R -> R -> bool.
Variable Vx : Type.
Variable padval : pmode -> bool -> Vx -> list Vx -> Vx.

(* ================================================================== lifting *)
Section Lift.
Variable T : Type.
Variable t_aff : T -> aff R.
Variable t_shape : T -> idx.
Variable t_patient : T -> bool.
Variable t_get : T -> index -> res (T * imap).
Variable t_pad : T -> padw -> pmode -> Vx -> bool -> res (T * imap).
Variable t_perm : T -> list Z -> res (T * imap).

Variable P : T -> T -> imap -> Prop.
Hypothesis P_id : forall t, P t t imap_id.
Hypothesis P_comp : forall t t' t'' f1 f2, P t t' f1 -> P t' t'' f2 -> P t t'' (imap_comp f2 f1).
Hypothesis P_get : forall t ix t' f, t_get t ix = Ok (t', f) -> P t t' f.
Hypothesis P_pad : forall t w m cv pc t' f, t_pad t w m cv pc = Ok (t', f) -> P t t' f.
Hypothesis P_perm : forall t l t' f, t_perm t l = Ok (t', f) -> P t t' f.

Notation stepT := (step_sp R rO radd rmul rsub ropp ltb Vx T t_aff t_shape t_patient t_get t_pad t_perm).

Lemma flip_lift : forall t ax t' f, flip_spatial T t_get t ax = Ok (t', f) -> P t t' f.
Proof.
  intros t ax t' f H. unfold flip_spatial in H.
  destruct (_ || _); [discriminate|]. eapply P_get; exact H.
Qed.

Lemma swap_lift : forall t a b t' f, swap_axes_m T t_perm t a b = Ok (t', f) -> P t t' f.
Proof.
  intros t a b t' f H. unfold swap_axes_m in H.
  destruct (_ || _); [discriminate|]. destruct (a =? b); [discriminate|]. eapply P_perm; exact H.
Qed.

Theorem step_sp_lift : forall t o t' f, stepT t o = Ok (t', f) -> P t t' f.
Proof.
  intros t o t' f H. destruct o; cbn [step_sp] in H.
  - eapply P_get; exact H.
  - eapply flip_lift; exact H.
  - eapply P_perm; exact H.
  - eapply swap_lift; exact H.
  - eapply P_pad; exact H.
  - unfold pad_to in H. destruct (negb _); [discriminate|].
    inv_bind H as w Ew. eapply P_pad; exact H.
  - unfold crop_to in H. destruct (negb _); [discriminate|].
    inv_bind H as its Ei. eapply P_get; exact H.
  - unfold pad_or_crop_to in H. destruct (negb _); [discriminate|].
    destruct (pad_or_crop_plan _ _) as [pw cr].
    inv_bind H as c Ec. inv_bind H as p Ep. destruct c as [c fc], p as [p fp]. cbn [fst snd] in *.
    inversion H; subst. eapply P_comp; [eapply P_get|eapply P_pad]; eassumption.
  - unfold to_orientation in H. destruct (negb _); [discriminate|].
    inv_bind H as des Ed. inv_bind H as pf Ep. destruct pf as [perm flips].
    inv_bind H as fl Ef. inv_bind H as p Epm. destruct fl as [fl ffl], p as [p fp]. cbn [fst snd] in *.
    inversion H; subst. eapply P_comp; [|eapply P_perm; eassumption].
    destruct flips; [inversion Ef; subst; apply P_id|eapply flip_lift; exact Ef].
  - unfold ensure_handedness in H.
    destruct flip_axis as [a|], swap_axes as [sw|]; try discriminate; destruct h; try discriminate;
      destruct (Bool.eqb _ _);
      try (inversion H; subst; apply P_id);
      try (eapply flip_lift; exact H).
    all: try (destruct sw as [|a [|b [|? ?]]]; try discriminate; eapply swap_lift; exact H).
  - unfold rand_op in H. inv_bind H as pl Epl. destruct pl as [ix|p]; [eapply P_get|eapply P_perm]; exact H.
Qed.
End Lift.

(* ================================================================== forward simulation *)
Section Sim.
Variables T1 T2 : Type.
Variable aff1 : T1 -> aff R. Variable aff2 : T2 -> aff R.
Variable shape1 : T1 -> idx. Variable shape2 : T2 -> idx.
Variable pat1 : T1 -> bool. Variable pat2 : T2 -> bool.
Variable get1 : T1 -> index -> res (T1 * imap). Variable get2 : T2 -> index -> res (T2 * imap).
Variable pad1 : T1 -> padw -> pmode -> Vx -> bool -> res (T1 * imap).
Variable pad2 : T2 -> padw -> pmode -> Vx -> bool -> res (T2 * imap).
Variable perm1 : T1 -> list Z -> res (T1 * imap). Variable perm2 : T2 -> list Z -> res (T2 * imap).
Variable sim : T1 -> T2 -> Prop.
Hypothesis sim_aff : forall a b, sim a b -> aff1 a = aff2 b.
Hypothesis sim_shape : forall a b, sim a b -> shape1 a = shape2 b.
Hypothesis sim_pat : forall a b, sim a b -> pat1 a = pat2 b.
Hypothesis sim_get : forall a b ix a' f, sim a b -> get1 a ix = Ok (a', f) ->
  exists b', get2 b ix = Ok (b', f) /\ sim a' b'.
Hypothesis sim_pad : forall a b w m cv pc a' f, sim a b -> pad1 a w m cv pc = Ok (a', f) ->
  exists b', pad2 b w m cv pc = Ok (b', f) /\ sim a' b'.
Hypothesis sim_perm : forall a b l a' f, sim a b -> perm1 a l = Ok (a', f) ->
  exists b', perm2 b l = Ok (b', f) /\ sim a' b'.

Notation step1 := (step_sp R rO radd rmul rsub ropp ltb Vx T1 aff1 shape1 pat1 get1 pad1 perm1).
Notation step2 := (step_sp R rO radd rmul rsub ropp ltb Vx T2 aff2 shape2 pat2 get2 pad2 perm2).

Lemma flip_sim : forall a b ax a' f, sim a b -> flip_spatial T1 get1 a ax = Ok (a', f) ->
  exists b', flip_spatial T2 get2 b ax = Ok (b', f) /\ sim a' b'.
Proof.
  intros a b ax a' f S H. unfold flip_spatial in *.
  destruct (_ || _); [discriminate|]. eapply sim_get; eassumption.
Qed.

Lemma swap_sim : forall a b x y a' f, sim a b -> swap_axes_m T1 perm1 a x y = Ok (a', f) ->
  exists b', swap_axes_m T2 perm2 b x y = Ok (b', f) /\ sim a' b'.
Proof.
  intros a b x y a' f S H. unfold swap_axes_m in *.
  destruct (_ || _); [discriminate|]. destruct (x =? y); [discriminate|]. eapply sim_perm; eassumption.
Qed.

Theorem step_sp_sim : forall a b o a' f, sim a b -> step1 a o = Ok (a', f) ->
  exists b', step2 b o = Ok (b', f) /\ sim a' b'.
Proof.
  intros a b o a' f S H. destruct o; cbn [step_sp] in *.
  - eapply sim_get; eassumption.
  - eapply flip_sim; eassumption.
  - eapply sim_perm; eassumption.
  - eapply swap_sim; eassumption.
  - eapply sim_pad; eassumption.
  - unfold pad_to in *. rewrite <- (sim_shape a b S). destruct (negb _); [discriminate|].
    inv_bind H as w Ew. cbn [bind]. eapply sim_pad; eassumption.
  - unfold crop_to in *. rewrite <- (sim_shape a b S). destruct (negb _); [discriminate|].
    inv_bind H as its Ei. cbn [bind]. eapply sim_get; eassumption.
  - unfold pad_or_crop_to in *. rewrite <- (sim_shape a b S). destruct (negb _); [discriminate|].
    destruct (pad_or_crop_plan _ _) as [pw cr].
    inv_bind H as c Ec. inv_bind H as p Ep. destruct c as [c fc], p as [p fp]. cbn [fst snd] in *.
    inversion H; subst.
    destruct (sim_get _ _ _ _ _ S Ec) as (c2 & Ec2 & Sc). rewrite Ec2; cbn [bind fst snd].
    destruct (sim_pad _ _ _ _ _ _ _ _ Sc Ep) as (p2 & Ep2 & Sp). rewrite Ep2; cbn [bind fst snd].
    eexists; split; [reflexivity|exact Sp].
  - unfold to_orientation in *. rewrite <- (sim_pat a b S), <- (sim_aff a b S).
    destruct (negb _); [discriminate|].
    inv_bind H as des Ed. cbn [bind]. inv_bind H as pf Ep. cbn [bind]. destruct pf as [perm flips].
    inv_bind H as fl Ef. inv_bind H as p Epm. destruct fl as [fl ffl], p as [p fp]. cbn [fst snd] in *.
    inversion H; subst.
    assert (exists fl2, match flips with [] => Ok (b, imap_id) | _ :: _ => flip_spatial T2 get2 b (FList flips) end
                        = Ok (fl2, ffl) /\ sim fl fl2) as (fl2 & Ef2 & Sf).
    { destruct flips; [inversion Ef; subst; eexists; split; [reflexivity|exact S]|].
      eapply flip_sim; eassumption. }
    rewrite Ef2; cbn [bind fst snd].
    destruct (sim_perm _ _ _ _ _ Sf Epm) as (p2 & Ep2 & Sp). rewrite Ep2; cbn [bind fst snd].
    eexists; split; [reflexivity|exact Sp].
  - unfold ensure_handedness in *. rewrite <- (sim_aff a b S).
    destruct flip_axis as [x|], swap_axes as [sw|]; try discriminate; destruct h; try discriminate;
      destruct (Bool.eqb _ _);
      try (inversion H; subst; eexists; split; [reflexivity|exact S]);
      try (eapply flip_sim; eassumption).
    all: try (destruct sw as [|x [|y [|? ?]]]; try discriminate; eapply swap_sim; eassumption).
  - unfold rand_op in *. rewrite <- (sim_shape a b S). inv_bind H as pl Epl. cbn [bind].
    destruct pl as [ix|p]; [eapply sim_get|eapply sim_perm]; eassumption.
Qed.

(* ---- refusals are simulated as well (pad-like operations: for a valid mode, because
   VolumeGeometry.pad ignores the mode) *)
Definition mode_ok (m : pmode) : Prop := m <> PBad.
Definition modes_ok (o : sop Vx) : Prop :=
  match o with
  | OPad _ m _ _ | OPadTo _ m _ _ | OPadOrCropTo _ m _ _ => mode_ok m
  | _ => True
  end.
Hypothesis sim_get_err : forall a b ix k, sim a b -> get1 a ix = Err k -> get2 b ix = Err k.
Hypothesis sim_pad_err : forall a b w m cv pc k, sim a b -> mode_ok m ->
  pad1 a w m cv pc = Err k -> pad2 b w m cv pc = Err k.
Hypothesis sim_perm_err : forall a b l k, sim a b -> perm1 a l = Err k -> perm2 b l = Err k.

Lemma flip_sim_err : forall a b ax k, sim a b -> flip_spatial T1 get1 a ax = Err k ->
  flip_spatial T2 get2 b ax = Err k.
Proof.
  intros a b ax k S H. unfold flip_spatial in *.
  destruct (_ || _); [inversion H; reflexivity|]. eapply sim_get_err; eassumption.
Qed.

Lemma swap_sim_err : forall a b x y k, sim a b -> swap_axes_m T1 perm1 a x y = Err k ->
  swap_axes_m T2 perm2 b x y = Err k.
Proof.
  intros a b x y k S H. unfold swap_axes_m in *.
  destruct (_ || _); [inversion H; reflexivity|]. destruct (x =? y); [inversion H; reflexivity|]. eapply sim_perm_err; eassumption.
Qed.

Theorem step_sp_sim_err : forall a b o k, sim a b -> modes_ok o -> step1 a o = Err k -> step2 b o = Err k.
Proof.
  intros a b o k S M H. destruct o; cbn [step_sp modes_ok] in *.
  - eapply sim_get_err; eassumption.
  - eapply flip_sim_err; eassumption.
  - eapply sim_perm_err; eassumption.
  - eapply swap_sim_err; eassumption.
  - eapply sim_pad_err; eassumption.
  - unfold pad_to in *. rewrite <- (sim_shape a b S). destruct (negb _); [inversion H; reflexivity|].
    destruct (pad_to_widths _ _) as [w|]; cbn [bind] in *; [|inversion H; reflexivity]. eapply sim_pad_err; eassumption.
  - unfold crop_to in *. rewrite <- (sim_shape a b S). destruct (negb _); [inversion H; reflexivity|].
    destruct (crop_to_items _ _) as [its|]; cbn [bind] in *; [|inversion H; reflexivity]. eapply sim_get_err; eassumption.
  - unfold pad_or_crop_to in *. rewrite <- (sim_shape a b S). destruct (negb _); [inversion H; reflexivity|].
    destruct (pad_or_crop_plan _ _) as [pw cr].
    destruct (get1 a (XTup cr)) as [[c fc]|kc] eqn:Ec; cbn [bind fst snd] in H.
    + destruct (sim_get _ _ _ _ _ S Ec) as (c2 & Ec2 & Sc). rewrite Ec2; cbn [bind fst snd].
      destruct (pad1 c (PWNest pw) m cval pc) as [[p fp]|kp] eqn:Ep; cbn [bind] in H; [discriminate|].
      inversion H; subst kp. rewrite (sim_pad_err _ _ _ _ _ _ _ Sc M Ep). reflexivity.
    + inversion H; subst kc. rewrite (sim_get_err _ _ _ _ S Ec). reflexivity.
  - unfold to_orientation in *. rewrite <- (sim_pat a b S), <- (sim_aff a b S).
    destruct (negb _); [inversion H; reflexivity|].
    destruct (normalize_orientation o) as [des|]; cbn [bind] in *; [|inversion H; reflexivity].
    destruct (orient_plan _ des) as [[perm flips]|]; cbn [bind] in *; [|inversion H; reflexivity].
    destruct (match flips with [] => Ok (a, imap_id) | _ :: _ => flip_spatial T1 get1 a (FList flips) end)
      as [[fl ffl]|kf] eqn:Ef; cbn [bind fst snd] in H.
    + assert (exists fl2, match flips with [] => Ok (b, imap_id) | _ :: _ => flip_spatial T2 get2 b (FList flips) end
                          = Ok (fl2, ffl) /\ sim fl fl2) as (fl2 & Ef2 & Sf).
      { destruct flips; [inversion Ef; subst; eexists; split; [reflexivity|exact S]|].
        eapply flip_sim; eassumption. }
      rewrite Ef2; cbn [bind fst snd].
      destruct (perm1 fl perm) as [[p fp]|kp] eqn:Ep; cbn [bind] in H; [discriminate|].
      inversion H; subst kp. rewrite (sim_perm_err _ _ _ _ Sf Ep). reflexivity.
    + inversion H; subst kf. destruct flips; [discriminate|].
      rewrite (flip_sim_err _ _ _ _ S Ef). reflexivity.
  - unfold ensure_handedness in *. rewrite <- (sim_aff a b S).
    destruct flip_axis as [x|], swap_axes as [sw|]; try (inversion H; reflexivity); destruct h; try (inversion H; reflexivity);
      destruct (Bool.eqb _ _); try discriminate;
      try (eapply flip_sim_err; eassumption).
    all: try (destruct sw as [|x [|y [|? ?]]]; try (inversion H; reflexivity); eapply swap_sim_err; eassumption).
  - unfold rand_op in *. rewrite <- (sim_shape a b S).
    destruct (rand_plan _ r) as [pl|]; cbn [bind] in *; [|inversion H; reflexivity].
    destruct pl as [ix|p]; [eapply sim_get_err|eapply sim_perm_err]; eassumption.
Qed.
End Sim.

(* ================================================================== Volume *)
Variable Rth : ring_theory rO rI radd rmul rsub ropp (@eq R).
Hypothesis inj_add : forall a b, inj (a + b) = radd (inj a) (inj b).
Hypothesis inj_mul : forall a b, inj (a * b) = rmul (inj a) (inj b).
Hypothesis inj_opp : forall a, inj (- a) = ropp (inj a).
(* wrapped in [id] so that a bare [subst] cannot eliminate the section variable rI *)
Hypothesis inj_1 : id (inj 1 = rI).
Hypothesis inj_regular : forall s x, s <> 0 -> rmul (inj s) x = rO -> x = rO.
Add Ring Rr2 : Rth.

Notation volT := (vol R Vx).
Notation geomT := (geom R).
Notation physz := (physZ R radd rmul inj).
Notation so := (scaled_orthogonal R rO radd rmul).
Notation vget := (vol_get R radd rmul inj Vx).
Notation vpad := (vol_pad R radd rmul inj Vx padval).
Notation vperm := (vol_perm R Vx).
Notation gget := (geom_get R radd rmul inj).
Notation gpad := (geom_pad R radd rmul inj Vx).
Notation gperm := (geom_perm R).
Notation vstep_sp := (vol_step_sp R rO radd rmul rsub ropp inj ltb Vx padval).
Notation gstep_sp := (geom_step_sp R rO radd rmul rsub ropp inj ltb Vx).
Notation vstep_tr := (step_tr R rO radd rmul rsub ropp inj ltb Vx padval).
Notation vrun_tr := (run_tr R rO radd rmul rsub ropp inj ltb Vx padval).

(* what one spatial operation does to a volume: nothing but the array order, shape and affine
   change; the shape stays positive; the affine stays scaled orthogonal; every voxel of the
   result that has a pre-image under the index map lies where its pre-image lay and carries
   its values in all channels *)
Definition Fix (v v' : volT) (f : imap) : Prop :=
  v_chans _ _ v' = v_chans _ _ v /\ v_patient _ _ v' = v_patient _ _ v /\ v_for _ _ v' = v_for _ _ v /\
  (wf (v_shape _ _ v) ->
     wf (v_shape _ _ v') /\
     (so (v_aff _ _ v) -> so (v_aff _ _ v')) /\
     forall j, inr (v_shape _ _ v') j -> forall i, f j = Some i ->
       inr (v_shape _ _ v) i /\ physz (v_aff _ _ v') j = physz (v_aff _ _ v) i /\
       forall c, v_arr _ _ v' j c = v_arr _ _ v i c).

Lemma Fix_id : forall v, Fix v v imap_id.
Proof.
  intros v. split; [reflexivity|]. split; [reflexivity|]. split; [reflexivity|].
  intros W. split; [exact W|]. split; [auto|].
  intros j Hj i Hi. inversion Hi; subst. repeat split; auto.
Qed.

Lemma Fix_comp : forall v v' v'' f1 f2, Fix v v' f1 -> Fix v' v'' f2 -> Fix v v'' (imap_comp f2 f1).
Proof.
  intros v v' v'' f1 f2 (C1 & Pa1 & Fo1 & H1) (C2 & Pa2 & Fo2 & H2).
  split; [congruence|]. split; [congruence|]. split; [congruence|].
  intros W. destruct (H1 W) as (W1 & S1 & V1). destruct (H2 W1) as (W2 & S2 & V2).
  split; [exact W2|]. split; [auto|].
  intros j Hj i Hi. unfold imap_comp in Hi. destruct (f2 j) as [m|] eqn:Em; [|discriminate].
  destruct (V2 j Hj m Em) as (Im & Pm & Am). destruct (V1 m Im i Hi) as (Ii & Pi & Ai).
  split; [exact Ii|]. split; [congruence|]. intros c. rewrite Am. apply Ai.
Qed.

Lemma vol_get_Fix : forall v ix v' f, vget v ix = Ok (v', f) -> Fix v v' f.
Proof.
  intros v ix v' f H. unfold vol_get in H. inv_bind H as p Ep. inversion H; subst; clear H.
  split; [reflexivity|]. split; [reflexivity|]. split; [reflexivity|]. cbn [v_shape v_aff v_arr].
  intros W. destruct (prep_getitem_spec _ _ _ W Ep) as (W' & B).
  split; [exact W'|]. split.
  { intros S. apply (get_aff_keeps R rO rI radd rmul rsub ropp Rth inj inj_regular); [|exact S].
    apply (prep_getitem_steps _ _ _ W Ep). }
  intros j Hj i Hi. destruct (B j Hj) as (i' & E' & I'). rewrite E' in Hi. inversion Hi; subst i'.
  split; [exact I'|]. split.
  - rewrite (get_aff_phys R rO rI radd rmul rsub ropp Rth inj inj_add inj_mul). rewrite E'. reflexivity.
  - intros c. rewrite E'. reflexivity.
Qed.

Lemma vol_perm_Fix : forall v l v' f, vperm v l = Ok (v', f) -> Fix v v' f.
Proof.
  intros v l v' f H. unfold vol_perm in H. destruct (is_perm3 l) eqn:Ep; [|discriminate].
  inversion H; subst; clear H.
  split; [reflexivity|]. split; [reflexivity|]. split; [reflexivity|]. cbn [v_shape v_aff v_arr].
  intros W. split; [apply perm_shape_wf; assumption|]. split.
  { intros S. apply (perm_aff_keeps R rO rI radd rmul rsub ropp Rth); assumption. }
  intros j Hj i Hi. destruct (perm_map_inr _ _ _ Ep Hj) as (i' & E' & I'). rewrite E' in Hi.
  inversion Hi; subst i'. split; [exact I'|]. split.
  - rewrite (perm_aff_phys R rO rI radd rmul rsub ropp Rth inj _ _ _ Ep). rewrite E'. reflexivity.
  - intros c. rewrite E'. reflexivity.
Qed.

Lemma existsb_neg_false : forall a b c : Z * Z,
  existsb (fun p => (fst p <? 0) || (snd p <? 0)) [a; b; c] = false ->
  0 <= fst a /\ 0 <= snd a /\ 0 <= fst b /\ 0 <= snd b /\ 0 <= fst c /\ 0 <= snd c.
Proof. intros [a a'] [b b'] [c c']; cbn. lia. Qed.

Lemma vol_pad_inv : forall v w m cv pc v' f, vpad v w m cv pc = Ok (v', f) ->
  exists l, prep_pad_width w = Ok l /\ existsb (fun p => (fst p <? 0) || (snd p <? 0)) l = false /\
    v_aff _ _ v' = pad_aff R radd rmul inj (v_aff _ _ v) (pw_triple l) /\
    v_shape _ _ v' = pad_shape (v_shape _ _ v) (pw_triple l) /\
    v_chans _ _ v' = v_chans _ _ v /\ v_patient _ _ v' = v_patient _ _ v /\ v_for _ _ v' = v_for _ _ v /\
    f = pad_map (v_shape _ _ v) (pw_triple l) /\
    forall j c i, f j = Some i -> v_arr _ _ v' j c = v_arr _ _ v i c.
Proof.
  intros v w m cv pc v' f H. unfold vol_pad in H.
  destruct m; try discriminate;
    (destruct (prep_pad_width w) as [l|] eqn:El; cbn [bind] in H; [|discriminate];
     destruct (existsb _ l) eqn:Ex; [discriminate|];
     destruct (v_shape _ _ v) as [[n0 n1] n2] eqn:Es;
     destruct (pw_triple l) as [[[a0 b0] [a1 b1]] [a2 b2]] eqn:Et;
     cbv zeta in H; inversion H; subst v' f; clear H;
     exists l; cbn [v_aff v_shape v_chans v_patient v_for v_arr]; rewrite ?Et;
     split; [reflexivity|]; split; [exact Ex|]; split; [reflexivity|]; split; [reflexivity|];
     split; [reflexivity|]; split; [reflexivity|]; split; [reflexivity|]; split; [reflexivity|];
     intros j c i Hj; rewrite Hj; reflexivity).
Qed.

Lemma vol_pad_Fix : forall v w m cv pc v' f, vpad v w m cv pc = Ok (v', f) -> Fix v v' f.
Proof.
  intros v w m cv pc v' f H.
  destruct (vol_pad_inv _ _ _ _ _ _ _ H) as (l & El & Ex & EA & ES & EC & EP & EF & Ef & Ev).
  destruct (prep_pad_width_len _ _ El) as (a & b & c & ->).
  destruct (existsb_neg_false _ _ _ Ex) as (A0 & A1 & B0 & B1 & C0 & C1).
  destruct a as [a0 b0], b as [a1 b1], c as [a2 b2]. cbn [pw_triple fst snd] in *.
  split; [exact EC|]. split; [exact EP|]. split; [exact EF|].
  intros W. rewrite ES, EA. destruct (v_shape _ _ v) as [[n0 n1] n2] eqn:Es.
  split; [cbn in *; lia|]. split; [intros S; apply pad_aff_keeps; exact S|].
  intros [[j0 j1] j2] Hj i Hi.
  pose proof (pad_map_spec (n0, n1, n2) a0 b0 a1 b1 a2 b2 (j0, j1, j2) A0 A1 B0 B1 C0 C1 Hj) as Hs.
  rewrite Ef in Hi. rewrite Hi in Hs. destruct Hs as (Ii & ->).
  split; [exact Ii|]. split.
  - apply (pad_aff_phys R rO rI radd rmul rsub ropp Rth inj inj_add inj_opp).
  - intros c. apply Ev. rewrite Ef. exact Hi.
Qed.

Theorem vol_step_sp_Fix : forall v o v' f, vstep_sp v o = Ok (v', f) -> Fix v v' f.
Proof.
  intros v o v' f H. unfold vol_step_sp in H.
  eapply (step_sp_lift volT (v_aff R Vx) (v_shape R Vx) (v_patient R Vx) vget vpad vperm Fix
            Fix_id Fix_comp vol_get_Fix vol_pad_Fix vol_perm_Fix); exact H.
Qed.

(* ---- geometry: forward simulation by geom_of *)
Definition gsim (v : volT) (g : geomT) : Prop := geom_of R Vx v = g.

Lemma sim_get_vg : forall v g ix v' f, gsim v g -> vget v ix = Ok (v', f) ->
  exists g', gget g ix = Ok (g', f) /\ gsim v' g'.
Proof.
  intros v g ix v' f <- H. unfold vol_get in H. inv_bind H as p Ep. inversion H; subst; clear H.
  unfold geom_get, geom_of; cbn. rewrite Ep; cbn. eexists; split; reflexivity.
Qed.

Lemma sim_perm_vg : forall v g l v' f, gsim v g -> vperm v l = Ok (v', f) ->
  exists g', gperm g l = Ok (g', f) /\ gsim v' g'.
Proof.
  intros v g l v' f <- H. unfold vol_perm in H. destruct (is_perm3 l) eqn:Ep; [|discriminate].
  inversion H; subst; clear H. unfold geom_perm, geom_of; cbn. rewrite Ep. eexists; split; reflexivity.
Qed.

Lemma sim_pad_vg : forall v g w m cv pc v' f, gsim v g -> vpad v w m cv pc = Ok (v', f) ->
  exists g', gpad g w m cv pc = Ok (g', f) /\ gsim v' g'.
Proof.
  intros v g w m cv pc v' f <- H. unfold vol_pad in H. unfold geom_pad, geom_of, gsim; cbn.
  destruct m; try discriminate;
    (destruct (prep_pad_width w) as [l|] eqn:El; cbn [bind] in H |- *; [|discriminate];
     destruct (existsb _ l) eqn:Ex; [discriminate|];
     destruct (v_shape _ _ v) as [[n0 n1] n2] eqn:Es;
     destruct (pw_triple l) as [[[a0 b0] [a1 b1]] [a2 b2]] eqn:Et;
     inversion H; subst; clear H; cbn; eexists; split; reflexivity).
Qed.

Theorem geometry_commutes_sp : forall v o v' f, vstep_sp v o = Ok (v', f) ->
  gstep_sp (geom_of R Vx v) o = Ok (geom_of R Vx v', f).
Proof.
  intros v o v' f H. unfold vol_step_sp in H. unfold geom_step_sp.
  destruct (step_sp_sim volT geomT (v_aff R Vx) (g_aff R) (v_shape R Vx) (g_shape R)
              (v_patient R Vx) (g_patient R) vget gget vpad gpad vperm gperm gsim
              ltac:(intros a b <-; reflexivity) ltac:(intros a b <-; reflexivity)
              ltac:(intros a b <-; reflexivity) sim_get_vg sim_pad_vg sim_perm_vg
              v (geom_of R Vx v) o v' f eq_refl H) as (g' & Hg & <-).
  exact Hg.
Qed.

Lemma sim_get_err_vg : forall v g ix k, gsim v g -> vget v ix = Err k -> gget g ix = Err k.
Proof.
  intros v g ix k <- H. unfold vol_get in H. unfold geom_get, geom_of; cbn.
  destruct (prep_getitem _ ix); cbn [bind] in *; [discriminate|inversion H; reflexivity].
Qed.

Lemma sim_perm_err_vg : forall v g l k, gsim v g -> vperm v l = Err k -> gperm g l = Err k.
Proof.
  intros v g l k <- H. unfold vol_perm in H. unfold geom_perm.
  destruct (is_perm3 l); [discriminate|inversion H; reflexivity].
Qed.

Lemma sim_pad_err_vg : forall v g w m cv pc k, gsim v g -> m <> PBad -> vpad v w m cv pc = Err k ->
  gpad g w m cv pc = Err k.
Proof.
  intros v g w m cv pc k <- Hm H. unfold vol_pad in H. unfold geom_pad.
  destruct m; try congruence;
    (destruct (prep_pad_width w) as [l|] eqn:El; cbn [bind] in H |- *; [|inversion H; reflexivity];
     rewrite (prep_pad_width_nonneg _ _ El) in H;
     destruct (v_shape _ _ v) as [[n0 n1] n2];
     destruct (pw_triple l) as [[[a0 b0] [a1 b1]] [a2 b2]]; discriminate).
Qed.

(* the geometry refuses whatever the volume refuses, with the same error class *)
Theorem geometry_refusal_commutes_sp : forall v o k,
  modes_ok o -> vstep_sp v o = Err k -> gstep_sp (geom_of R Vx v) o = Err k.
Proof.
  intros v o k M H. unfold vol_step_sp in H. unfold geom_step_sp.
  exact (step_sp_sim_err volT geomT (v_aff R Vx) (g_aff R) (v_shape R Vx) (g_shape R)
              (v_patient R Vx) (g_patient R) vget gget vpad gpad vperm gperm gsim
              ltac:(intros a b <-; reflexivity) ltac:(intros a b <-; reflexivity)
              ltac:(intros a b <-; reflexivity) sim_get_vg
              sim_get_err_vg sim_pad_err_vg sim_perm_err_vg
              v (geom_of R Vx v) o k eq_refl M H).
Qed.

(* ================================================================== all operations *)
(* positions only (holds for every operation, with_array included) *)
Definition FixPos (v v' : volT) (f : imap) : Prop :=
  v_patient _ _ v' = v_patient _ _ v /\ v_for _ _ v' = v_for _ _ v /\
  (wf (v_shape _ _ v) ->
     wf (v_shape _ _ v') /\
     (so (v_aff _ _ v) -> so (v_aff _ _ v')) /\
     forall j, inr (v_shape _ _ v') j -> forall i, f j = Some i ->
       inr (v_shape _ _ v) i /\ physz (v_aff _ _ v') j = physz (v_aff _ _ v) i).

(* values: up to one re-indexing of the channels that is the same for all voxels *)
Definition FixVal (v v' : volT) (f : imap) : Prop :=
  wf (v_shape _ _ v) ->
  exists psi : list Z -> list Z,
    forall j, inr (v_shape _ _ v') j -> forall i, f j = Some i ->
      forall c, v_arr _ _ v' j c = v_arr _ _ v i (psi c).

Lemma Fix_FixPos : forall v v' f, Fix v v' f -> FixPos v v' f.
Proof.
  intros v v' f (_ & Pa & Fo & H). split; [exact Pa|]. split; [exact Fo|].
  intros W. destruct (H W) as (W' & S & V). split; [exact W'|]. split; [exact S|].
  intros j Hj i Hi. destruct (V j Hj i Hi) as (A & B & _). auto.
Qed.

Lemma Fix_FixVal : forall v v' f, Fix v v' f -> FixVal v v' f.
Proof.
  intros v v' f (_ & _ & _ & H) W. destruct (H W) as (_ & _ & V). exists (fun c => c).
  intros j Hj i Hi c. destruct (V j Hj i Hi) as (_ & _ & C). apply C.
Qed.

Lemma FixPos_id : forall v, FixPos v v imap_id.
Proof. intros v. apply Fix_FixPos, Fix_id. Qed.

Lemma FixPos_same_geometry : forall v v', v_aff _ _ v' = v_aff _ _ v -> v_shape _ _ v' = v_shape _ _ v ->
  v_patient _ _ v' = v_patient _ _ v -> v_for _ _ v' = v_for _ _ v -> FixPos v v' imap_id.
Proof.
  intros v v' EA ES EP EF. split; [exact EP|]. split; [exact EF|]. rewrite EA, ES.
  intros W. split; [exact W|]. split; [auto|]. intros j Hj i Hi. inversion Hi; subst. auto.
Qed.

Lemma FixPos_comp : forall v v' v'' f1 f2, FixPos v v' f1 -> FixPos v' v'' f2 -> FixPos v v'' (imap_comp f2 f1).
Proof.
  intros v v' v'' f1 f2 (Pa1 & Fo1 & H1) (Pa2 & Fo2 & H2).
  split; [congruence|]. split; [congruence|].
  intros W. destruct (H1 W) as (W1 & S1 & V1). destruct (H2 W1) as (W2 & S2 & V2).
  split; [exact W2|]. split; [auto|].
  intros j Hj i Hi. unfold imap_comp in Hi. destruct (f2 j) as [m|] eqn:Em; [|discriminate].
  destruct (V2 j Hj m Em) as (Im & Pm). destruct (V1 m Im i Hi) as (Ii & Pi).
  split; [exact Ii|congruence].
Qed.

Definition is_with_array (o : op Vx) : bool := match o with WithArray _ _ _ _ => true | _ => false end.

Lemma step_tr_geometry : forall v o v' f, vstep_tr v o = Ok (v', f) ->
  match o with
  | Sp _ => True
  | _ => f = imap_id /\ v_aff _ _ v' = v_aff _ _ v /\ v_shape _ _ v' = v_shape _ _ v /\
         v_patient _ _ v' = v_patient _ _ v /\ v_for _ _ v' = v_for _ _ v
  end.
Proof.
  intros v o v' f H. destruct o; cbn [step_tr] in H; [exact I|..].
  - inversion H; subst. cbn. auto.
  - inv_bind H as x Ex. inversion H; subst; clear H. unfold vol_with_array in Ex.
    destruct (negb _); [discriminate|].
    destruct (match chans with Some ch => Ok ch | None => _ end) as [ch|]; [|discriminate].
    destruct (ctor_ok _ _); [|discriminate]. inversion Ex; subst. cbn. auto.
  - inv_bind H as x Ex. inversion H; subst; clear H. unfold vol_get_channel in Ex.
    inv_bind Ex as pl Epl. inversion Ex; subst. cbn. auto.
  - inv_bind H as x Ex. inversion H; subst; clear H. unfold vol_permute_channels in Ex.
    inv_bind Ex as pl Epl. destruct (has_dup ds); [discriminate|]. destruct (negb _); [discriminate|].
    inversion Ex; subst. cbn. auto.
  - inv_bind H as x Ex. inversion H; subst; clear H. unfold vol_squeeze_channel in Ex.
    destruct ds as [l|].
    + inv_bind Ex as ks Eks. destruct (existsb _ ks); [discriminate|]. destruct (has_dup l); [discriminate|].
      inversion Ex; subst. cbn. auto.
    + inversion Ex; subst. cbn. auto.
Qed.

Theorem step_tr_FixPos : forall v o v' f, vstep_tr v o = Ok (v', f) -> FixPos v v' f.
Proof.
  intros v o v' f H. pose proof (step_tr_geometry v o v' f H) as G.
  destruct o; [apply Fix_FixPos, (vol_step_sp_Fix v o); exact H|..];
    destruct G as (-> & EA & ES & EP & EF); apply FixPos_same_geometry; assumption.
Qed.

Theorem step_tr_FixVal : forall v o v' f, is_with_array o = false ->
  vstep_tr v o = Ok (v', f) -> FixVal v v' f.
Proof.
  intros v o v' f Hn H. destruct o; cbn [step_tr] in H; try discriminate.
  - apply Fix_FixVal, (vol_step_sp_Fix v o); exact H.
  - inversion H; subst. intros _. exists (fun c => c). intros j _ i Hi c. inversion Hi; subst. reflexivity.
  - inv_bind H as x Ex. inversion H; subst; clear H. unfold vol_get_channel in Ex.
    inv_bind Ex as pl Epl. inversion Ex; subst. intros _. eexists. intros j _ i Hi c.
    inversion Hi; subst. cbn. reflexivity.
  - inv_bind H as x Ex. inversion H; subst; clear H. unfold vol_permute_channels in Ex.
    inv_bind Ex as pl Epl. destruct (has_dup ds); [discriminate|]. destruct (negb _); [discriminate|].
    inversion Ex; subst. intros _. eexists. intros j _ i Hi c. inversion Hi; subst. cbn. reflexivity.
  - inv_bind H as x Ex. inversion H; subst; clear H. unfold vol_squeeze_channel in Ex.
    destruct ds as [l|].
    + inv_bind Ex as ks Eks. destruct (existsb _ ks); [discriminate|]. destruct (has_dup l); [discriminate|].
      inversion Ex; subst. intros _. eexists. intros j _ i Hi c. inversion Hi; subst. cbn. reflexivity.
    + inversion Ex; subst. intros _. eexists. intros j _ i Hi c. inversion Hi; subst. cbn. reflexivity.
Qed.

(* ---- every finite history *)
Lemma run_tr_FixPos_from : forall ops v0 s, FixPos v0 (fst s) (snd s) ->
  FixPos v0 (fst (fold_left (step_skip_tr R rO radd rmul rsub ropp inj ltb Vx padval) ops s))
            (snd (fold_left (step_skip_tr R rO radd rmul rsub ropp inj ltb Vx padval) ops s)).
Proof.
  induction ops as [|o ops IH]; intros v0 s H; [exact H|]. cbn [fold_left]. apply IH.
  unfold step_skip_tr. destruct (vstep_tr (fst s) o) as [[v' f]|] eqn:E; [|exact H].
  cbn [fst snd]. eapply FixPos_comp; [exact H|]. eapply step_tr_FixPos; exact E.
Qed.

Theorem history_fixes_positions : forall ops v, FixPos v (fst (vrun_tr v ops)) (snd (vrun_tr v ops)).
Proof. intros ops v. unfold run_tr. apply run_tr_FixPos_from. cbn. apply FixPos_id. Qed.

(* the value part needs the shape of the intermediate volumes to be positive: carry FixPos along *)
Definition FixBoth (v v' : volT) (f : imap) : Prop := FixPos v v' f /\ FixVal v v' f.

Lemma FixBoth_comp : forall v v' v'' f1 f2, FixBoth v v' f1 -> FixBoth v' v'' f2 ->
  FixBoth v v'' (imap_comp f2 f1).
Proof.
  intros v v' v'' f1 f2 [P1 V1] [P2 V2]. split; [eapply FixPos_comp; eassumption|].
  intros W. destruct P1 as (_ & _ & H1). destruct (H1 W) as (W1 & _ & Q1).
  destruct P2 as (_ & _ & H2). destruct (H2 W1) as (W2 & _ & Q2).
  destruct (V1 W) as (psi1 & A1). destruct (V2 W1) as (psi2 & A2).
  exists (fun c => psi1 (psi2 c)). intros j Hj i Hi c.
  unfold imap_comp in Hi. destruct (f2 j) as [m|] eqn:Em; [|discriminate].
  rewrite (A2 j Hj m Em). destruct (Q2 j Hj m Em) as (Im & _). apply (A1 m Im i Hi).
Qed.

Lemma run_tr_FixBoth_from : forall ops v0 s, forallb (fun o => negb (is_with_array o)) ops = true ->
  FixBoth v0 (fst s) (snd s) ->
  FixBoth v0 (fst (fold_left (step_skip_tr R rO radd rmul rsub ropp inj ltb Vx padval) ops s))
             (snd (fold_left (step_skip_tr R rO radd rmul rsub ropp inj ltb Vx padval) ops s)).
Proof.
  induction ops as [|o ops IH]; intros v0 s Hn H; [exact H|]. cbn [fold_left forallb] in *.
  apply andb_prop in Hn as [Ho Hn]. apply IH; [exact Hn|].
  unfold step_skip_tr. destruct (vstep_tr (fst s) o) as [[v' f]|] eqn:E; [|exact H].
  cbn [fst snd]. eapply FixBoth_comp; [exact H|]. split.
  - eapply step_tr_FixPos; exact E.
  - eapply step_tr_FixVal; [|exact E]. destruct (is_with_array o); [discriminate|reflexivity].
Qed.

Theorem history_fixes_voxels : forall ops v, forallb (fun o => negb (is_with_array o)) ops = true ->
  FixBoth v (fst (vrun_tr v ops)) (snd (vrun_tr v ops)).
Proof.
  intros ops v Hn. unfold run_tr. apply run_tr_FixBoth_from; [exact Hn|]. cbn. split.
  - apply FixPos_id.
  - intros _. exists (fun c => c). intros j _ i Hi c. inversion Hi; subst. reflexivity.
Qed.

(* untraced and traced runs agree *)
Lemma run_tr_fst : forall ops v f,
  fst (fold_left (step_skip_tr R rO radd rmul rsub ropp inj ltb Vx padval) ops (v, f)) =
  run R rO radd rmul rsub ropp inj ltb Vx padval v ops.
Proof.
  induction ops as [|o ops IH]; intros v f; [reflexivity|]. unfold run in *. cbn [fold_left].
  unfold step_skip_tr at 2, step_skip at 2, step. cbn [fst snd].
  destruct (vstep_tr v o) as [[v' g]|]; cbn [fst snd]; apply IH.
Qed.

(* ================================================================== channels *)
Theorem channels_untouched_sp : forall v o v' f, vstep_sp v o = Ok (v', f) ->
  v_chans _ _ v' = v_chans _ _ v.
Proof. intros v o v' f H. apply (vol_step_sp_Fix v o v' f H). Qed.

Theorem copy_is_identity : forall v, vstep_tr v Copy = Ok (v, imap_id).
Proof. intros [A s ch a i p fo]. reflexivity. Qed.

Theorem with_array_keeps_channels : forall v sh a i v', vol_with_array R Vx v sh a i None = Ok v' ->
  v_arr _ _ v' = a /\ v_aff _ _ v' = v_aff _ _ v /\ v_shape _ _ v' = v_shape _ _ v /\
  ((Z.of_nat (length sh) =? 3) = false -> v_chans _ _ v' = v_chans _ _ v).
Proof.
  intros v sh a i v' H. unfold vol_with_array in H. destruct (negb _); [discriminate|].
  destruct (Z.of_nat (length sh) =? 3) eqn:E3.
  - destruct (ctor_ok _ _); [|discriminate]. inversion H; subst. cbn. repeat split; auto. discriminate.
  - destruct (list_eqb _ _); [|discriminate]. destruct (ctor_ok _ _); [|discriminate].
    inversion H; subst. cbn. auto.
Qed.

(* ================================================================== handedness *)
Hypothesis ltb_opp : forall x, x <> rO -> ltb (ropp x) rO = negb (ltb x rO).
Notation detR := (det3 R radd rmul rsub).
Notation leftR := (is_left R rO radd rmul rsub ltb).

Lemma check_items_slc : forall shape d a b s l r, check_items shape d (ISlc a b s :: l) = Ok r ->
  exists r', r = (a, b, s) :: r' /\ check_items shape (d + 1) l = Ok r'.
Proof.
  intros shape d a b s l r H. cbn [check_items] in H. inv_bind H as x Ex. inv_bind H as y Ey.
  inversion H; subst. cbn [check_item] in Ex.
  destruct (match a with Some _ => _ | None => _ end); [discriminate|].
  destruct (match b with Some _ => _ | None => _ end); [discriminate|]. inversion Ex; subst. eauto.
Qed.

Lemma dim_of_step : forall n a b st f s z, dim_of n (Some (a, b, Some st)) = Ok (f, s, z) -> s = st.
Proof.
  intros n a b st f s z H. cbn [dim_of] in H. destruct (st =? 0); [discriminate|].
  destruct (slice_indices a b st n) as [[f' l'] s']. destruct (hd_size f' l' st); [|discriminate].
  inversion H; reflexivity.
Qed.

Lemma dim_of_full : forall n f s z, dim_of n (Some (None, None, None)) = Ok (f, s, z) -> s = 1.
Proof.
  intros n f s z H. cbn [dim_of] in H. change (1 =? 0) with false in H. cbv iota in H.
  destruct (slice_indices None None 1 n) as [[f' l'] s']. destruct (hd_size f' l' 1); [|discriminate].
  inversion H; reflexivity.
Qed.

Definition flip_item (a d : Z) : item :=
  if existsb (Z.eqb d) [a] then ISlc (Some (-1)) None (Some (-1)) else ISlc None None None.

Lemma flip_item_cases : forall a d, 
  (flip_item a d = ISlc (Some (-1)) None (Some (-1)) /\ a = d) \/
  (flip_item a d = ISlc None None None /\ a <> d).
Proof. intros a d. unfold flip_item. cbn [existsb]. destruct (d =? a) eqn:E; cbn [orb]; [left|right]; split; auto; lia. Qed.

Lemma dim_of_flip_item : forall n a d b s l f st z,
  check_items n d (flip_item a d :: l) = Ok (s :: b) -> dim_of (sel3 n d) (Some s) = Ok (f, st, z) ->
  st = if a =? d then -1 else 1.
Proof.
  intros n a d b s l f st z Hc Hd.
  destruct (flip_item_cases a d) as [[E Ea]|[E Ea]]; rewrite E in Hc;
    apply check_items_slc in Hc as (r' & Er & _); inversion Er; subst s.
  - apply dim_of_step in Hd. replace (a =? d) with true by lia. exact Hd.
  - apply dim_of_full in Hd. replace (a =? d) with false by lia. exact Hd.
Qed.

Lemma flip_plan_steps : forall shape a p, 0 <= a <= 2 ->
  prep_getitem shape (XTup [flip_item a 0; flip_item a 1; flip_item a 2]) = Ok p ->
  let '(s0, s1, s2) := gp_s p in s0 * s1 * s2 = -1.
Proof.
  intros [[n0 n1] n2] a p Ha H. unfold prep_getitem in H. cbn [items_of_index length] in H.
  change (3 <? Z.of_nat 3) with false in H. cbv iota in H.
  inv_bind H as sl Es.
  assert (exists x0 x1 x2, sl = [x0; x1; x2] /\
          check_items (n0, n1, n2) 0 (flip_item a 0 :: [flip_item a 1; flip_item a 2]) = Ok (x0 :: [x1; x2]) /\
          check_items (n0, n1, n2) 1 (flip_item a 1 :: [flip_item a 2]) = Ok (x1 :: [x2]) /\
          check_items (n0, n1, n2) 2 (flip_item a 2 :: []) = Ok (x2 :: [])) as (x0 & x1 & x2 & -> & C0 & C1 & C2).
  { pose proof Es as Es'. cbn [check_items] in Es.
    inv_bind Es as y0 Y0. inv_bind Es as r0 R0. inv_bind R0 as y1 Y1. inv_bind R0 as r1 R1.
    inv_bind R1 as y2 Y2. cbn [bind] in R1. inversion R1; subst r1. inversion R0; subst r0. inversion Es; subst sl.
    exists y0, y1, y2. split; [reflexivity|]. split; [exact Es'|].
    cbn [check_items]. change (0 + 1) with 1 in *. change (1 + 1) with 2 in *.
    rewrite Y1, Y2. cbn [bind]. split; reflexivity. }
  cbn [nth_error] in H.
  inv_bind H as d0 E0. inv_bind H as d1 E1. inv_bind H as d2 E2.
  destruct d0 as [[f0 s0] z0], d1 as [[f1 s1] z1], d2 as [[f2 s2] z2].
  inversion H; subst p; cbn [gp_s].
  pose proof (dim_of_flip_item (n0, n1, n2) a 0 _ _ _ _ _ _ C0 E0) as S0.
  pose proof (dim_of_flip_item (n0, n1, n2) a 1 _ _ _ _ _ _ C1 E1) as S1.
  pose proof (dim_of_flip_item (n0, n1, n2) a 2 _ _ _ _ _ _ C2 E2) as S2.
  subst s0 s1 s2.
  assert (Ha' : a = 0 \/ a = 1 \/ a = 2) by lia.
  destruct Ha' as [-> | [-> | ->]]; reflexivity.
Qed.

Theorem handedness_reached : forall v h fa sw v' f,
  vstep_sp v (OHanded h fa sw) = Ok (v', f) ->
  detR (v_aff _ _ v) <> rO ->
  leftR (v_aff _ _ v') = match h with HLeft => true | _ => false end.
Proof.
  intros v h fa sw v' f H D. unfold vol_step_sp in H. cbn [step_sp] in H. unfold ensure_handedness in H.
  assert (Hflip : forall a, flip_spatial volT vget v (FInt a) = Ok (v', f) ->
                  detR (v_aff _ _ v') = ropp (detR (v_aff _ _ v))).
  { intros a Hf. unfold flip_spatial in Hf. destruct (_ || _) eqn:Eg; [discriminate|].
    cbn [length existsb] in Eg. assert (Ha : 0 <= a <= 2) by lia.
    unfold vol_get in Hf. inv_bind Hf as p Ep. inversion Hf; subst; clear Hf. cbn [v_aff].
    rewrite (det_get_aff R rO rI radd rmul rsub ropp Rth).
    change (prep_getitem (v_shape R Vx v) (XTup [flip_item a 0; flip_item a 1; flip_item a 2]) = Ok p) in Ep.
    pose proof (flip_plan_steps _ a p Ha Ep) as Hs. destruct (gp_s p) as [[s0 s1] s2].
    rewrite <- !inj_mul, Hs. replace (-1) with (- (1)) by reflexivity. rewrite inj_opp, (inj_1 : inj 1 = rI). ring. }
  assert (Hswap : forall a b, swap_axes_m volT vperm v a b = Ok (v', f) ->
                  detR (v_aff _ _ v') = ropp (detR (v_aff _ _ v))).
  { intros a b Hs. unfold swap_axes_m in Hs. destruct (_ || _) eqn:Eg; [discriminate|].
    destruct (a =? b) eqn:Eab; [discriminate|]. unfold vol_perm in Hs.
    destruct (is_perm3 _); [|discriminate]. inversion Hs; subst; clear Hs. cbn [v_aff perm_triple].
    apply (det_swap R rO rI radd rmul rsub ropp Rth); lia. }
  assert (Hneg : forall hl, Bool.eqb hl (leftR (v_aff _ _ v)) = false ->
                 detR (v_aff _ _ v') = ropp (detR (v_aff _ _ v)) -> leftR (v_aff _ _ v') = hl).
  { intros hl Hb Hd. unfold is_left in *. rewrite Hd, ltb_opp by exact D.
    destruct hl, (ltb (detR (v_aff _ _ v)) rO); cbn in *; congruence. }
  destruct fa as [a|], sw as [s|]; try discriminate; destruct h; try discriminate;
    destruct (Bool.eqb _ _) eqn:Eb;
    try (inversion H; subst; unfold is_left in *;
         destruct (ltb (detR (v_aff _ _ v')) rO); cbn in Eb; congruence);
    try (apply Hneg; [exact Eb|eapply Hflip; exact H]).
  all: destruct s as [|a [|b [|? ?]]]; try discriminate; apply Hneg; [exact Eb|eapply Hswap; exact H].
Qed.

End Generic.
