(* C01 - proofs, part 8 (extension): worker schedules (any completion order of
   the encode tasks gives the same object) and iter_segments. *)
From Coq Require Import String ZArith List Bool Lia ZifyBool Arith Permutation.
From HD Require Import Base.Val Base.ListZ Base.BitWindow C01_Model C01_Proofs C01_Proofs_Frames
  C01_Proofs_Lut C01_Proofs_Value C01_Proofs_Full C01_Proofs_Hist C01_Proofs_Ext.
Import ListNotations.
Open Scope Z_scope.
Ltac Zify.zify_post_hook ::= Z.to_euclidean_division_equations.

(* ------------------------------------------------------------------ *)
(* the pool                                                             *)
(* ------------------------------------------------------------------ *)
Lemma set_nth_length {A} : forall n (v : A) l, length (set_nth n v l) = length l.
Proof.
  induction n as [|n IH]; intros v [|x l]; cbn [set_nth length]; try reflexivity. now rewrite IH.
Qed.

Lemma nth_set_nth {A} : forall n (v : A) l k d, (n < length l)%nat ->
  nth k (set_nth n v l) d = if Nat.eqb k n then v else nth k l d.
Proof.
  induction n as [|n IH]; intros v [|x l] k d H; cbn [length] in H; try lia; cbn [set_nth].
  - destruct k; reflexivity.
  - destruct k as [|k]; [reflexivity|]. cbn [nth Nat.eqb]. apply IH. lia.
Qed.

Lemma pool_step_length {A} : forall (tasks : list A) slots id,
  length (pool_step tasks slots id) = length slots.
Proof.
  intros. unfold pool_step. destruct ((0 <=? id) && (id <? zlen tasks)); [apply set_nth_length|reflexivity].
Qed.

Lemma pool_fold_length {A} : forall (tasks : list A) pi slots,
  length (fold_left (pool_step tasks) pi slots) = length slots.
Proof.
  intros tasks pi. induction pi as [|id pi IH]; intros slots; [reflexivity|].
  cbn [fold_left]. now rewrite IH, pool_step_length.
Qed.

(* slot k holds the result of task k iff task k was completed *)
Lemma pool_fold_nth {A} : forall (tasks : list A) pi slots k,
  length slots = length tasks -> (k < length tasks)%nat ->
  nth k (fold_left (pool_step tasks) pi slots) None =
  if memz (Z.of_nat k) pi then nth_error tasks k else nth k slots None.
Proof.
  intros tasks pi. induction pi as [|id pi IH]; intros slots k Hl Hk; [reflexivity|].
  cbn [fold_left]. rewrite IH by (rewrite ?pool_step_length; assumption).
  unfold memz. cbn [existsb]. fold (memz (Z.of_nat k) pi).
  destruct (memz (Z.of_nat k) pi); [now rewrite orb_true_r|]. rewrite orb_false_r.
  unfold pool_step. destruct ((0 <=? id) && (id <? zlen tasks)) eqn:E.
  - rewrite nth_set_nth by (unfold zlen in E; lia).
    destruct (Nat.eqb k (Z.to_nat id)) eqn:Ek.
    + apply Nat.eqb_eq in Ek. subst k. replace (Z.of_nat (Z.to_nat id) =? id) with true by lia. reflexivity.
    + apply Nat.eqb_neq in Ek. replace (Z.of_nat k =? id) with false by lia. reflexivity.
  - replace (Z.of_nat k =? id) with false by (unfold zlen in E; lia). reflexivity.
Qed.

Lemma gather_map_some {A} : forall (l : list A), gather (map Some l) = Ok l.
Proof. induction l as [|x l IH]; [reflexivity|]. cbn [map gather]. now rewrite IH. Qed.

(* whatever order the pool completes the tasks in, the results gathered in
   submission order are the results of the submitted tasks, in submission order *)
Theorem gather_any_schedule : forall (tasks : list (list Z)) pi,
  Permutation pi (zrange (zlen tasks)) -> gather (pool_run tasks pi) = Ok tasks.
Proof.
  intros tasks pi Hp.
  assert (E : pool_run tasks pi = map Some tasks).
  { unfold pool_run. apply (nth_ext _ _ None None).
    - now rewrite pool_fold_length, repeat_length, map_length.
    - intros k Hk. rewrite pool_fold_length, repeat_length in Hk.
      rewrite pool_fold_nth by (rewrite ?repeat_length; auto).
      assert (Hm : memz (Z.of_nat k) pi = true).
      { apply memz_in. apply (Permutation_in _ (Permutation_sym Hp)). apply in_zrange. unfold zlen. lia. }
      rewrite Hm. rewrite (nth_error_nth' tasks [] Hk).
      rewrite (nth_indep _ None (Some [])) by now rewrite map_length.
      now rewrite (map_nth Some). }
  rewrite E. apply gather_map_some.
Qed.

(* a task that is never completed blocks the constructor *)
Lemma gather_incomplete : forall (tasks : list (list Z)) pi k,
  0 <= k < zlen tasks -> ~ In k pi -> exists e, gather (pool_run tasks pi) = Err e.
Proof.
  intros tasks pi k Hk Hn.
  assert (Hnth : nth (Z.to_nat k) (pool_run tasks pi) None = None).
  { unfold pool_run. rewrite pool_fold_nth by (rewrite ?repeat_length; unfold zlen in Hk; auto; lia).
    replace (Z.of_nat (Z.to_nat k)) with k by lia.
    destruct (memz k pi) eqn:E; [apply memz_in in E; contradiction|]. apply nth_repeat. }
  assert (Hlen : (Z.to_nat k < length (pool_run tasks pi))%nat).
  { unfold pool_run. rewrite pool_fold_length, repeat_length. unfold zlen in Hk. lia. }
  revert Hnth Hlen. generalize (Z.to_nat k) (pool_run tasks pi). clear.
  intros n l. revert n. induction l as [|[x|] l IH]; intros n Hn Hl; cbn [length] in Hl; [lia| |].
  - destruct n as [|n]; [discriminate|]. cbn [nth] in Hn. destruct (IH n Hn ltac:(lia)) as (e & He).
    exists e. cbn [gather]. now rewrite He.
  - now eexists.
Qed.

(* THE PROPERTY over schedules: with workers (encapsulated syntax), whatever
   order the pool completes the encode tasks in, the constructor builds the same
   object as without workers - so every round-trip theorem holds for it *)
Theorem sched_independent : forall c i perm st pi,
  construct c i perm = Ok st -> Permutation pi (zrange (zlen (s_meta st))) ->
  construct_sched c i perm pi = Ok st.
Proof.
  intros c i perm st pi Hc Hp. unfold construct_sched. rewrite Hc. cbn [bind].
  destruct (native c); [reflexivity|].
  destruct (construct_inv c i perm st Hc) as (a & inc & om & _ & _ & _ & _ & Hst).
  cbv zeta in Hst. destruct Hst as (_ & Hst).
  assert (Hl : zlen (s_frames st) = zlen (s_meta st)).
  { rewrite Hst. cbn [s_frames s_meta]. unfold zlen. now rewrite !map_length. }
  rewrite gather_any_schedule by now rewrite Hl. cbn [bind]. now destruct st.
Qed.

(* ------------------------------------------------------------------ *)
(* iter_segments                                                        *)
(* ------------------------------------------------------------------ *)
Lemma nth_zrange : forall n N, (n < Z.to_nat N)%nat -> nth n (zrange N) 0 = Z.of_nat n.
Proof.
  intros n N H. unfold zrange. rewrite (nth_indep _ 0 (Z.of_nat 0)) by (now rewrite map_length, seq_length).
  rewrite map_nth, seq_nth by exact H. reflexivity.
Qed.

Lemma in_indexed {A} : forall (l : list A) k x d,
  In (k, x) (indexed l) <-> 0 <= k < zlen l /\ nth (Z.to_nat k) l d = x.
Proof.
  intros l k x d. unfold indexed.
  assert (Hlen : length (zrange (zlen l)) = length l) by (rewrite zrange_length; unfold zlen; lia).
  split.
  - intros H. destruct (In_nth _ _ (0, d) H) as (n & Hn & E).
    rewrite combine_length, Hlen, Nat.min_id in Hn. rewrite combine_nth in E by exact Hlen.
    injection E as E1 E2. rewrite nth_zrange in E1 by (unfold zlen; lia). subst k.
    rewrite Nat2Z.id. unfold zlen. split; [lia|exact E2].
  - intros (Hk & E). unfold zlen in Hk.
    assert (Hn : (Z.to_nat k < length (combine (zrange (zlen l)) l))%nat)
      by (rewrite combine_length, Hlen, Nat.min_id; lia).
    pose proof (nth_In _ (0, d) Hn) as Hin. rewrite combine_nth in Hin by exact Hlen.
    rewrite nth_zrange in Hin by (unfold zlen; lia). rewrite E in Hin.
    now replace (Z.of_nat (Z.to_nat k)) with k in Hin by lia.
Qed.

(* membership in the output of iter_segments *)
Lemma in_iter_segs : forall g st s grp j px,
  In (s, grp) (iter_segs g st) -> In (j, px) grp ->
  In s (segs (s_cfg st)) /\
  exists idx, 0 <= idx < zlen (s_meta st) /\ nth (Z.to_nat idx) (s_meta st) (0, 0) = (s, j) /\ px = g idx.
Proof.
  intros g st s grp j px H Hg. unfold iter_segs in H. apply in_flat_map in H as (s' & Hs' & H).
  destruct (filter (fun im => fst (snd im) =? s') (indexed (s_meta st))) as [|im0 fr] eqn:E; [contradiction|].
  destruct H as [H | []]. injection H as <- <-. split; [exact Hs'|].
  change (In (j, px) (map (fun im : Z * (Z * Z) => (snd (snd im), g (fst im))) (im0 :: fr))) in Hg.
  rewrite <- E in Hg. apply in_map_iff in Hg as ([idx [s2 j2]] & Heq & Hin).
  cbn [fst snd] in Heq. injection Heq as <- <-.
  apply filter_In in Hin as (Hin & Hs2). cbn [fst snd] in Hs2.
  apply (in_indexed _ _ _ (0, 0)) in Hin as (Hidx & Hnth).
  exists idx. repeat split; try lia. rewrite Hnth. f_equal. lia.
Qed.

Lemma iter_segs_in : forall g st s j idx,
  In s (segs (s_cfg st)) -> 0 <= idx < zlen (s_meta st) ->
  nth (Z.to_nat idx) (s_meta st) (0, 0) = (s, j) ->
  exists grp, In (s, grp) (iter_segs g st) /\ In (j, g idx) grp.
Proof.
  intros g st s j idx Hs Hidx Hnth.
  assert (Hin : In (idx, (s, j)) (filter (fun im => fst (snd im) =? s) (indexed (s_meta st)))).
  { apply filter_In. split; [|cbn [fst snd]; lia]. apply (in_indexed _ _ _ (0, 0)). now split. }
  unfold iter_segs.
  destruct (filter (fun im => fst (snd im) =? s) (indexed (s_meta st))) as [|im0 fr] eqn:E; [contradiction|].
  eexists. split.
  - apply in_flat_map. exists s. split; [exact Hs|]. rewrite E. left. reflexivity.
  - apply in_map_iff. exists (idx, (s, j)). split; [reflexivity|exact Hin].
Qed.

(* the frame the getter returns for a stored index is the plane of its key *)
Lemma getter_is_key_plane : forall c i perm st a lazy warm idx s j,
  valid c i = true -> Permutation perm (zrange (nsrc c)) -> construct c i perm = Ok st ->
  check_and_cast c i = Ok a ->
  0 <= idx < zlen (s_meta st) -> nth (Z.to_nat idx) (s_meta st) (0, 0) = (s, j) ->
  In s (seg_iter c) /\ 0 <= j < nsrc c /\ frame_getter lazy warm st idx = seg_plane c a s j.
Proof.
  intros c i perm st a lazy warm idx s j Hv Hperm Hc Ha Hidx Hnth.
  assert (Hin : In (s, j) (s_meta st)).
  { rewrite <- Hnth. apply nth_In. unfold zlen in Hidx. lia. }
  destruct (constructed_planes_in_src c i perm st s j Hperm Hc Hin) as (Hsrc & Hs).
  assert (Hj : 0 <= j < nsrc c) by (unfold in_src in Hsrc; lia).
  split; [exact Hs|]. split; [exact Hj|].
  rewrite (getter_history_independent c i perm st lazy warm idx Hv Hperm Hc Hidx).
  rewrite <- (fetch_correct c i perm st a lazy s j Hv Hperm Hc Ha Hs Hj).
  unfold fetch.
  assert (Hkeys : NoDup (s_meta st)).
  { destruct (construct_inv c i perm st Hc) as (a' & inc & om & Hsn & _ & _ & _ & Hst).
    cbv zeta in Hst. destruct Hst as (_ & ->). cbn [s_meta]. apply keys_NoDup.
    - apply NoDup_filter. apply (Permutation_NoDup (Permutation_sym Hperm)). apply NoDup_zrange.
    - now apply seg_iter_NoDup. }
  destruct (find_frame st s j) as [k|] eqn:Ef.
  - unfold find_frame in Ef. apply find_from_some in Ef as (Hk & Hkn).
    replace (k - 0) with k in Hkn by lia.
    assert (Z.to_nat k = Z.to_nat idx).
    { apply (proj1 (NoDup_nth (s_meta st) (0, 0)) Hkeys); unfold zlen in *; try lia. congruence. }
    now replace k with idx by lia.
  - unfold find_frame in Ef. apply find_from_none in Ef. contradiction.
Qed.

(* iter_segments (BINARY / FRACTIONAL) yields only input planes: every frame
   yielded under segment s with source j is the (s, j) plane of the input *)
Theorem iter_segments_sound : forall c i perm st lazy warm s grp j px,
  valid c i = true -> Permutation perm (zrange (nsrc c)) -> construct c i perm = Ok st ->
  ty c <> LABELMAP ->
  In (s, grp) (iter_segs (frame_getter lazy warm st) st) -> In (j, px) grp ->
  0 <= j < nsrc c /\
  exists k, 0 <= k < zlen (segs c) /\ s = nthz k (segs c) 0 /\ px = expected_col c i j k.
Proof.
  intros c i perm st lazy warm s grp j px Hv Hperm Hc Hty Hin Hg.
  destruct (construct_inv c i perm st Hc) as (a & _ & _ & _ & Ha & _).
  destruct (in_iter_segs _ _ _ _ _ _ Hin Hg) as (Hs & idx & Hidx & Hnth & ->).
  destruct (getter_is_key_plane c i perm st a lazy warm idx s j Hv Hperm Hc Ha Hidx Hnth) as (_ & Hj & ->).
  split; [exact Hj|].
  rewrite (constructed_cfg c i perm st Hc) in Hs.
  destruct (in_nthz _ _ Hs) as (k & Hk & <-). exists k. split; [exact Hk|]. split; [reflexivity|].
  unfold expected_col. apply (list_eq_map_nth _ (npix c)); [now apply (seg_plane_zlen c i)|].
  intros p Hp. apply (seg_plane_expected c i a j k p Hv Ha Hty Hj Hk Hp).
Qed.

(* ... and all of them: every (segment, source) plane of the input that is not
   entirely empty is yielded, under its segment, with its source *)
Theorem iter_segments_complete : forall c i perm st lazy warm j k,
  valid c i = true -> Permutation perm (zrange (nsrc c)) -> construct c i perm = Ok st ->
  ty c <> LABELMAP -> 0 <= j < nsrc c -> 0 <= k < zlen (segs c) ->
  expected_col c i j k <> zeros (npix c) ->
  exists grp, In (nthz k (segs c) 0, grp) (iter_segs (frame_getter lazy warm st) st) /\
              In (j, expected_col c i j k) grp.
Proof.
  intros c i perm st lazy warm j k Hv Hperm Hc Hty Hj Hk Hne.
  destruct (construct_inv c i perm st Hc) as (a & _ & _ & _ & Ha & _).
  set (s := nthz k (segs c) 0).
  assert (Hs : In s (segs c)) by (apply nthz_in; exact Hk).
  assert (Hsi : In s (seg_iter c)) by (unfold seg_iter; destruct (ty c); auto; contradiction).
  assert (Hcol : seg_plane c a s j = expected_col c i j k).
  { unfold expected_col. apply (list_eq_map_nth _ (npix c)); [now apply (seg_plane_zlen c i)|].
    intros p Hp. apply (seg_plane_expected c i a j k p Hv Ha Hty Hj Hk Hp). }
  pose proof (fetch_correct c i perm st a lazy s j Hv Hperm Hc Ha Hsi Hj) as Hf.
  pose proof (constructed_cfg c i perm st Hc) as Hcfg.
  unfold fetch in Hf. rewrite Hcfg in Hf.
  destruct (find_frame st s j) as [idx|] eqn:Ef; [|congruence].
  unfold find_frame in Ef. apply find_from_some in Ef as (Hidx & Hnth).
  replace (idx - 0) with idx in Hnth by lia.
  destruct (iter_segs_in (frame_getter lazy warm st) st s j idx) as (grp & H1 & H2);
    [now rewrite Hcfg|lia|exact Hnth|].
  exists grp. split; [exact H1|].
  rewrite (getter_history_independent c i perm st lazy warm idx Hv Hperm Hc ltac:(lia)) in H2.
  now rewrite Hf, Hcol in H2.
Qed.

(* non-vacuity of the extension (statement repeated in C01_Props.v) *)
Lemma nonvacuous_extension :
  let c1 := Cfg BINARY DInt 1 1 true [1; 2] 1 3 1 3 3 true in
  let i2 := Stack [[[1;1];[0;0];[0;1]]; [[0;0];[0;0];[0;0]]; [[0;1];[1;0];[1;0]]] in
  let c3 := Cfg FRACTIONAL DFloat 2 3 true [1] 1 3 1 3 1 true in
  let i3 := Stack [[[1];[2];[0]]] in
  let c4 := Cfg FRACTIONAL DInt 1 100 true [1; 2] 1 2 1 2 2 false in
  let i4 := Stack [[[1;0];[0;1]]; [[0;1];[1;0]]] in
  valid c1 i2 = true /\ valid c3 i3 = true /\ valid c4 i4 = true /\
  plane_defect c1 i2 0 = Some "RuntimeError"%string /\ plane_defect c1 i2 2 = None /\
  plane_defect c3 i3 0 = Some "ValueError"%string /\
  match construct c1 i2 [2;0;1] with
  | Ok st =>
      read_guard st [2;1;2;5] false true = Ok tt /\
      read_g (frame_getter false true st) st [2;1;2;5] false true
        = Ok [[[0;1];[1;0];[1;0]]; [[0;0];[0;0];[0;0]]; [[0;1];[1;0];[1;0]]; [[0;0];[0;0];[0;0]]] /\
      read_combined (frame_getter true false st) st [2;1;2;5] false true
        = Ok [[2;1;1]; [0;0;0]; [2;1;1]; [0;0;0]] /\
      read_combined (frame_getter false false st) st [2;0] false false = Err "RuntimeError"%string /\
      spec_combined c1 i2 false [2;0] = Err "RuntimeError"%string
  | Err _ => False
  end /\
  match construct c4 i4 [0;1] with
  | Ok st =>
      zlen (s_meta st) = 4 /\
      construct_sched c4 i4 [0;1] [3;1;0;2] = Ok st /\
      construct_sched c4 i4 [0;1] [3;1;2] = Err "TimeoutError"%string /\
      iter_segs (cached_frame st) st
        = [(1, [(0, [100;0]); (1, [0;100])]); (2, [(0, [0;100]); (1, [100;0])])]
  | Err _ => False
  end.
Proof. vm_compute. repeat split. Qed.
