(* C05 - proofs about colour layout (PlanarConfiguration) and about the cache of the
   decoded array: every read of an in-memory image answers from the CURRENT description and
   PixelData, whatever was decoded and cached before (any history of reads and edits). *)
From Coq Require Import String ZArith List Bool Lia ZifyBool Arith.
From HD Require Import Base.Val Base.ListZ C05_Model C05_Proofs.
Import ListNotations.
Open Scope Z_scope.
Ltac Zify.zify_post_hook ::= Z.to_euclidean_division_equations.

(* ------------------------------------------------------------------ *)
(* planar configuration                                                *)
(* ------------------------------------------------------------------ *)
(* colour-by-plane is defined for byte-aligned samples only (the bit-packed branch of
   decode_frame ignores the planar configuration; BitsAllocated = 1 with three samples
   per pixel is not a DICOM image) *)
Definition valid_c (c : cfmt) : Prop :=
  valid_fmt (c_fmt c) /\ (c_planar c = true -> f_bits (c_fmt c) <> 1).

Definition spec_frame_c (c : cfmt) (pd : list Z) (i : Z) : list Z :=
  deplane_on c (spec_frame (c_fmt c) pd i).

Lemma deplane_nil : forall p s, deplane p s [] = [].
Proof. intros [] s; reflexivity. Qed.

Lemma zrange_length : forall n, length (zrange n) = Z.to_nat n.
Proof. intros n. unfold zrange. now rewrite map_length, seq_length. Qed.

Lemma nth_error_zrange : forall n k, (k < Z.to_nat n)%nat -> nth_error (zrange n) k = Some (Z.of_nat k).
Proof.
  intros n k Hk. unfold zrange. rewrite nth_error_map.
  rewrite (nth_error_nth' _ 0%nat) by (now rewrite seq_length).
  rewrite seq_nth by exact Hk. reflexivity.
Qed.

Lemma nth_map_zrange : forall {A} (g : Z -> A) n k d, (k < Z.to_nat n)%nat ->
  nth k (map g (zrange n)) d = g (Z.of_nat k).
Proof.
  intros A g n k d Hk. apply nth_error_nth. rewrite nth_error_map, nth_error_zrange by exact Hk. reflexivity.
Qed.

Lemma deplane_length : forall p s l, length (deplane p s l) = length l.
Proof.
  intros [] s l; [|reflexivity]. unfold deplane. rewrite map_length, zrange_length. unfold zlen. lia.
Qed.

(* sample s of pixel p of the returned frame is element p of plane s of the stored frame *)
Lemma deplane_layout : forall spp rc l p s, 1 <= spp -> zlen l = rc * spp -> 0 <= p < rc -> 0 <= s < spp ->
  nth_error (deplane true spp l) (Z.to_nat (p * spp + s)) = nth_error l (Z.to_nat (s * rc + p)).
Proof.
  intros spp rc l p s Hs Hl Hp Hss. unfold deplane.
  assert (Hk : 0 <= p * spp + s < zlen l) by nia.
  rewrite nth_error_map, nth_error_zrange by lia. cbn [option_map].
  rewrite Z2Nat.id by lia.
  assert (E1 : (p * spp + s) mod spp = s) by (symmetry; apply (Z.mod_unique_pos _ _ p); lia).
  assert (E2 : (p * spp + s) / spp = p) by (symmetry; apply (Z.div_unique_pos _ _ p s); lia).
  assert (E3 : zlen l / spp = rc) by (rewrite Hl; apply Z.div_mul; lia).
  rewrite E1, E2, E3.
  symmetry. apply nth_error_nth'. unfold zlen in *. nia.
Qed.

Lemma deplane_off : forall spp l, deplane false spp l = l.
Proof. reflexivity. Qed.

Lemma frame_eager_c_ok : forall c pd i, valid_c c -> enough (c_fmt c) pd -> 0 <= i < f_frames (c_fmt c) ->
  frame_eager_c c pd i = Ok (spec_frame_c c pd i).
Proof.
  intros c pd i (Hv & Hp) He Hi. unfold frame_eager_c, decode_native_c, spec_frame_c. cbv zeta.
  pose proof (frame_eager_ok (c_fmt c) pd i Hv He Hi) as H. unfold frame_eager in H. rewrite H.
  destruct (f_bits (c_fmt c) =? 1) eqn:E.
  - unfold deplane_on. destruct (c_planar c) eqn:P; [|reflexivity].
    exfalso. apply Hp; [reflexivity|lia].
  - reflexivity.
Qed.

Lemma frame_lazy_c_eager : forall c pd i, frame_lazy_c c pd i = frame_eager_c c pd i.
Proof. intros c pd i. unfold frame_lazy_c, frame_eager_c. now rewrite raw_ranges_agree. Qed.

Lemma frame_of_array_c_ok : forall c pd i, valid_c c -> enough (c_fmt c) pd -> 0 <= i < f_frames (c_fmt c) ->
  frame_of_array_c c pd i = Ok (spec_frame_c c pd i).
Proof.
  intros c pd i (Hv & Hp) He Hi.
  destruct (native_paths_agree (c_fmt c) pd i Hv He Hi) as (_ & _ & H).
  unfold frame_of_array in H. unfold frame_of_array_c, whole_array_c, rmap, spec_frame_c.
  destruct (whole_array (c_fmt c) pd) as [fs|k]; cbn [bind] in *; [|discriminate].
  inversion H as [H']. f_equal.
  replace (nth (Z.to_nat i) (map (deplane_on c) fs) [])
    with (nth (Z.to_nat i) (map (deplane_on c) fs) (deplane_on c []))
    by (unfold deplane_on; now rewrite deplane_nil).
  now rewrite map_nth.
Qed.

Lemma native_paths_agree_c : forall c pd i, valid_c c -> enough (c_fmt c) pd -> 0 <= i < f_frames (c_fmt c) ->
  frame_eager_c c pd i = Ok (spec_frame_c c pd i) /\
  frame_lazy_c c pd i = Ok (spec_frame_c c pd i) /\
  frame_of_array_c c pd i = Ok (spec_frame_c c pd i).
Proof.
  intros c pd i Hv He Hi. split; [|split].
  - now apply frame_eager_c_ok.
  - rewrite frame_lazy_c_eager. now apply frame_eager_c_ok.
  - now apply frame_of_array_c_ok.
Qed.

(* ------------------------------------------------------------------ *)
(* the whole array, as a list of frames                                *)
(* ------------------------------------------------------------------ *)
Lemma whole_array_length : forall m pd fs, whole_array m pd = Ok fs -> length fs = Z.to_nat (f_frames m).
Proof.
  intros m pd fs. unfold whole_array. cbv zeta.
  destruct (f_bits m =? 1).
  - destruct (_ <? _); intro H; inversion H. apply chunks_length.
  - destruct (_ <? _); intro H; inversion H. apply chunks_length.
Qed.

Lemma whole_array_spec : forall m pd, valid_fmt m -> enough m pd ->
  whole_array m pd = Ok (map (spec_frame m pd) (zrange (f_frames m))).
Proof.
  intros m pd Hv He.
  assert (Hn : 1 <= f_frames m) by (destruct Hv as (_ & _ & H); exact H).
  destruct (whole_array m pd) as [fs|k] eqn:W.
  - f_equal. pose proof (whole_array_length m pd fs W) as L.
    apply (nth_ext _ _ [] []).
    + now rewrite map_length, zrange_length.
    + intros k Hk. rewrite nth_map_zrange by lia.
      destruct (native_paths_agree m pd (Z.of_nat k) Hv He ltac:(lia)) as (_ & _ & H).
      unfold frame_of_array in H. rewrite W in H. cbn [bind] in H. inversion H as [H'].
      rewrite Nat2Z.id in *. reflexivity.
  - destruct (native_paths_agree m pd 0 Hv He ltac:(lia)) as (_ & _ & H).
    unfold frame_of_array in H. rewrite W in H. discriminate.
Qed.

Lemma whole_array_c_spec : forall c pd, valid_c c -> enough (c_fmt c) pd ->
  whole_array_c c pd = Ok (map (spec_frame_c c pd) (zrange (f_frames (c_fmt c)))).
Proof.
  intros c pd (Hv & _) He. unfold whole_array_c, rmap. rewrite whole_array_spec by assumption.
  cbn [bind]. now rewrite map_map.
Qed.

(* ------------------------------------------------------------------ *)
(* the cache is never served stale                                     *)
(* ------------------------------------------------------------------ *)
Definition content (st : img) : cfmt * list Z := (i_c st, i_pd st).

Lemma fmt_eqb_eq : forall a b, fmt_eqb a b = true -> a = b.
Proof.
  intros [a1 a2 a3 a4 a5] [b1 b2 b3 b4 b5]. unfold fmt_eqb. cbn [f_bits f_stored f_signed f_npx f_frames].
  intro H. repeat (apply andb_true_iff in H; destruct H as [H ?]).
  repeat match goal with
         | X : (_ =? _) = true |- _ => apply Z.eqb_eq in X
         | X : Bool.eqb _ _ = true |- _ => apply eqb_prop in X
         end.
  subst. reflexivity.
Qed.

Lemma cfmt_eqb_eq : forall a b, cfmt_eqb a b = true -> a = b.
Proof.
  intros [a1 a2 a3 a4] [b1 b2 b3 b4]. unfold cfmt_eqb. cbn [c_fmt c_spp c_planar c_rows].
  intro H. do 3 (apply andb_true_iff in H; destruct H as [H ?]).
  repeat match goal with
         | X : (_ =? _) = true |- _ => apply Z.eqb_eq in X
         | X : Bool.eqb _ _ = true |- _ => apply eqb_prop in X
         | X : fmt_eqb _ _ = true |- _ => apply fmt_eqb_eq in X
         end.
  subst. reflexivity.
Qed.

Lemma zlist_eqb_eq : forall a b, zlist_eqb a b = true -> a = b.
Proof.
  induction a as [|x a IH]; intros [|y b] H; cbn [zlist_eqb] in H; try discriminate; [reflexivity|].
  apply andb_true_iff in H. destruct H as [H1 H2]. apply Z.eqb_eq in H1. apply IH in H2. now subst.
Qed.

Lemma cfmt_eqb_refl : forall a, cfmt_eqb a a = true.
Proof.
  intros [[a1 a2 a3 a4 a5] b c d]. unfold cfmt_eqb, fmt_eqb. cbn [c_fmt c_spp c_planar c_rows f_bits f_stored f_signed f_npx f_frames].
  rewrite !Z.eqb_refl, !eqb_reflx. reflexivity.
Qed.

Lemma zlist_eqb_refl : forall a, zlist_eqb a a = true.
Proof. induction a as [|x a IH]; [reflexivity|]. cbn [zlist_eqb]. now rewrite Z.eqb_refl, IH. Qed.

(* Dataset.pixel_array in ANY cache state: the decode of the current content, content untouched *)
Lemma pixel_array_spec : forall st,
  snd (pixel_array st) = whole_array_c (i_c st) (i_pd st) /\ content (fst (pixel_array st)) = content st.
Proof.
  intros [c pd cache]. unfold pixel_array, content. cbn [i_c i_pd i_cache].
  assert (F : forall p : img * res (list (list Z)),
             p = match whole_array_c c pd with
                 | Ok a => (Img c pd (Some (c, pd)), Ok a)
                 | Err k => (Img c pd cache, Err k)
                 end ->
             snd p = whole_array_c c pd /\ (i_c (fst p), i_pd (fst p)) = (c, pd)).
  { intros p ->. destruct (whole_array_c c pd); cbn [fst snd i_c i_pd]; split; reflexivity. }
  destruct cache as [[c' pd']|].
  - destruct (cfmt_eqb c' c && zlist_eqb pd' pd) eqn:E.
    + apply andb_true_iff in E. destruct E as [E1 E2].
      apply cfmt_eqb_eq in E1. apply zlist_eqb_eq in E2. subst. cbn [fst snd i_c i_pd]. split; reflexivity.
    + now apply F.
  - now apply F.
Qed.

Definition ref_one (c : cfmt) (pd : list Z) (f : Z) (ai : bool) : res (list Z) :=
  bind (std_index (f_frames (c_fmt c)) f ai) (fun i => Ok (spec_frame_c c pd i)).

(* get_stored_frame in ANY cache state *)
Lemma st_one_spec : forall st f ai, valid_c (i_c st) -> enough (c_fmt (i_c st)) (i_pd st) ->
  snd (st_one st f ai) = ref_one (i_c st) (i_pd st) f ai /\ content (fst (st_one st f ai)) = content st.
Proof.
  intros st f ai Hv He. unfold st_one, ref_one.
  destruct (index_total (f_frames (c_fmt (i_c st))) f ai) as [(i & E & Hi) | E]; rewrite E; cbn [bind fst snd];
    [|split; reflexivity].
  destruct (i_cache st) as [k|] eqn:C; cbn [fst snd].
  - destruct (pixel_array_spec st) as [P1 P2]. rewrite P1. split; [|exact P2].
    apply (frame_of_array_c_ok (i_c st) (i_pd st) i Hv He Hi).
  - split; [|reflexivity]. now apply frame_eager_c_ok.
Qed.

Lemma st_batch_loop_spec : forall fs st ai, valid_c (i_c st) -> enough (c_fmt (i_c st)) (i_pd st) ->
  snd (st_batch_loop st fs ai) = sequence (map (fun f => ref_one (i_c st) (i_pd st) f ai) fs) /\
  content (fst (st_batch_loop st fs ai)) = content st.
Proof.
  induction fs as [|f r IH]; intros st ai Hv He; cbn [st_batch_loop map sequence]; [split; reflexivity|].
  destruct (st_one_spec st f ai Hv He) as [S1 S2].
  destruct (st_one st f ai) as [st' [a|k]]; cbn [fst snd] in *; rewrite <- S1; cbn [bind fst snd]; [|split; [reflexivity|exact S2]].
  unfold content in S2. inversion S2 as [[Sc Sp]].
  assert (Hv' : valid_c (i_c st')) by now rewrite Sc.
  assert (He' : enough (c_fmt (i_c st')) (i_pd st')) by now rewrite Sc, Sp.
  destruct (IH st' ai Hv' He') as [B1 B2]. rewrite B1, Sc, Sp. split; [reflexivity|].
  rewrite B2. unfold content. now rewrite Sc, Sp.
Qed.

Definition ref_batch (c : cfmt) (pd : list Z) (fs : list Z) (ai : bool) : res (list (list Z)) :=
  match fs with
  | [] => Err "ValueError"
  | _ => sequence (map (fun f => ref_one c pd f ai) fs)
  end.

Lemma st_batch_spec : forall fs st ai, valid_c (i_c st) -> enough (c_fmt (i_c st)) (i_pd st) ->
  snd (st_batch st fs ai) = ref_batch (i_c st) (i_pd st) fs ai /\ content (fst (st_batch st fs ai)) = content st.
Proof.
  intros fs st ai Hv He. unfold st_batch, ref_batch.
  destruct (st_batch_loop_spec fs st ai Hv He) as [B1 B2].
  destruct fs as [|f r].
  - cbn [st_batch_loop fst snd]. split; reflexivity.
  - destruct (snd (st_batch_loop st (f :: r) ai)) eqn:S; rewrite <- B1; split; try exact B2; exact S.
Qed.

(* get_frames with the transforms off walks exactly the path of get_stored_frames - same answer AND same
   cache afterwards - in every cache state, for every request (no validity hypothesis needed): the only
   differences in the code (frame bytes fetched by index + 1, own test for a single-frame image, first
   number standardised up front) cannot be observed.  With the pre-D108 rank test this is false for a
   single colour frame with an array cached. *)
Lemma st_frames_one_eq : forall st f ai, st_frames_one st f ai = st_one st f ai.
Proof.
  intros st f ai. unfold st_frames_one, st_one. cbv zeta.
  destruct (index_total (f_frames (c_fmt (i_c st))) f ai) as [(i & E & Hi) | E]; rewrite E; [|reflexivity].
  destruct (i_cache st) as [k|].
  - destruct (f_frames (c_fmt (i_c st)) =? 1) eqn:N; [|reflexivity].
    assert (i = 0) by lia. subst i. reflexivity.
  - unfold get_raw_frame.
    assert (E1 : std_index (f_frames (c_fmt (i_c st))) (i + 1) false = Ok i)
      by (apply index_rule; right; repeat split; lia).
    rewrite E1. reflexivity.
Qed.

Lemma st_frames_loop_eq : forall fs st ai, st_frames_loop st fs ai = st_batch_loop st fs ai.
Proof.
  induction fs as [|f r IH]; intros st ai; cbn [st_frames_loop st_batch_loop]; [reflexivity|].
  rewrite st_frames_one_eq. destruct (snd (st_one st f ai)); [|reflexivity]. now rewrite IH.
Qed.

Lemma st_frames_eq : forall fs st ai, st_frames st fs ai = st_batch st fs ai.
Proof.
  intros [|f0 r] st ai; unfold st_frames, st_batch; [reflexivity|].
  set (n := f_frames (c_fmt (i_c st))).
  destruct (std_index n f0 ai) as [i|k] eqn:E.
  - rewrite st_frames_loop_eq. cbv zeta. destruct (snd (st_batch_loop st (f0 :: r) ai)); reflexivity.
  - assert (L : st_batch_loop st (f0 :: r) ai = (st, Err k)).
    { cbn [st_batch_loop]. unfold st_one. fold n. rewrite E. reflexivity. }
    cbv zeta. rewrite L. reflexivity.
Qed.

Lemma st_decode_raw_spec : forall st f ai, valid_c (i_c st) -> enough (c_fmt (i_c st)) (i_pd st) ->
  st_decode_raw st f ai = ref_one (i_c st) (i_pd st) f ai.
Proof.
  intros st f ai Hv He. unfold st_decode_raw, ref_one, get_raw_frame. cbv zeta.
  destruct (index_total (f_frames (c_fmt (i_c st))) f ai) as [(i & E & Hi) | E]; rewrite E; cbn [bind]; [|reflexivity].
  apply (frame_eager_c_ok (i_c st) (i_pd st) i Hv He Hi).
Qed.

(* ------------------------------------------------------------------ *)
(* any history of reads and edits                                      *)
(* ------------------------------------------------------------------ *)
(* cache-free reference: the answer is a function of the current content only *)
Definition ref_step (x : cfmt * list Z) (o : op) : (cfmt * list Z) * val :=
  let c := fst x in let pd := snd x in
  match o with
  | OWhole => (x, vans c vz_list2 (Ok (map (spec_frame_c c pd) (zrange (f_frames (c_fmt c))))))
  | OOne f ai => (x, vans c vz_list (ref_one c pd f ai))
  | OBatch fs ai => (x, vans c vz_list2 (ref_batch c pd fs ai))
  | ORaw f ai => (x, vres vz_list (get_raw_frame false (c_fmt c) pd f ai))
  | ODecodeRaw f ai => (x, vans c vz_list (ref_one c pd f ai))
  | OAssign pd' => ((c, pd'), VNone)
  | OInplace pd' => ((c, pd'), VNone)
  | OHeader c' => ((c', pd), VNone)
  | OFrames fs ai => (x, vans64 c vz_list2 (ref_batch c pd fs ai))
  end.

Fixpoint ref_ops (x : cfmt * list Z) (ops : list op) : list val :=
  match ops with
  | [] => []
  | o :: r => snd (ref_step x o) :: ref_ops (fst (ref_step x o)) r
  end.

(* the image is a valid image initially and after every edit *)
Fixpoint ops_valid (x : cfmt * list Z) (ops : list op) : Prop :=
  valid_c (fst x) /\ enough (c_fmt (fst x)) (snd x) /\
  match ops with
  | [] => True
  | o :: r => ops_valid (fst (ref_step x o)) r
  end.

Lemma step_spec : forall st o, valid_c (i_c st) -> enough (c_fmt (i_c st)) (i_pd st) ->
  snd (step st o) = snd (ref_step (content st) o) /\ content (fst (step st o)) = fst (ref_step (content st) o).
Proof.
  intros st o Hv He. destruct o as [|f ai|fs ai|f ai|f ai|pd'|pd'|c'|fs ai]; unfold step, ref_step, content; cbn [fst snd i_c i_pd].
  - destruct (pixel_array_spec st) as [P1 P2]. rewrite P1, whole_array_c_spec by assumption. split; [reflexivity|exact P2].
  - destruct (st_one_spec st f ai Hv He) as [P1 P2]. rewrite P1. split; [reflexivity|exact P2].
  - destruct (st_batch_spec fs st ai Hv He) as [P1 P2]. rewrite P1. split; [reflexivity|exact P2].
  - split; reflexivity.
  - rewrite st_decode_raw_spec by assumption. split; reflexivity.
  - split; reflexivity.
  - split; reflexivity.
  - split; reflexivity.
  - rewrite st_frames_eq. destruct (st_batch_spec fs st ai Hv He) as [P1 P2]. rewrite P1. split; [reflexivity|exact P2].
Qed.

Lemma history_irrelevant : forall ops st, ops_valid (content st) ops ->
  run_ops st ops = ref_ops (content st) ops.
Proof.
  induction ops as [|o r IH]; intros st Hval; [reflexivity|].
  cbn [ops_valid] in Hval. destruct Hval as (Hv & He & Hr). cbn [content fst snd] in Hv, He.
  destruct (step_spec st o Hv He) as [S1 S2].
  cbn [run_ops ref_ops]. rewrite S1. f_equal.
  rewrite <- S2 in Hr. rewrite (IH _ Hr). now rewrite S2.
Qed.
