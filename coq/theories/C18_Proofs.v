(* C18 - proofs about the bulk annotation model, part 1: list machinery,
   prefix-sum index list, graphic data round trip. *)
From Coq Require Import String ZArith List Bool Lia ZifyBool Arith.
From HD Require Import Base.Val Base.ListZ C18_Model.
Import ListNotations.
Ltac Zify.zify_post_hook ::= Z.to_euclidean_division_equations.
Open Scope Z_scope.

(* ---- small list lemmas ---------------------------------------------------- *)
Lemma firstn_app_exact {A} : forall (r l : list A), firstn (length r) (r ++ l) = r.
Proof. induction r as [|x r IH]; intros l; cbn; [now destruct l|]. now rewrite IH. Qed.

Lemma skipn_app_exact {A} : forall (r l : list A), skipn (length r) (r ++ l) = l.
Proof. induction r as [|x r IH]; intros l; cbn; [reflexivity|]. apply IH. Qed.

Lemma zlen_app {A} : forall (a b : list A), zlen (a ++ b) = zlen a + zlen b.
Proof. intros. unfold zlen. rewrite app_length. lia. Qed.

Lemma zlen_nonneg {A} : forall (a : list A), 0 <= zlen a.
Proof. intros. unfold zlen. lia. Qed.

Lemma zlen_cons {A} : forall (x : A) l, zlen (x :: l) = 1 + zlen l.
Proof. intros. unfold zlen. cbn [length]. lia. Qed.

Fixpoint sumz (l : list Z) : Z := match l with [] => 0 | x :: t => x + sumz t end.

Lemma zlen_concat {A} : forall (ll : list (list A)), zlen (concat ll) = sumz (map zlen ll).
Proof. induction ll as [|a t IH]; [reflexivity|]. cbn [concat map sumz]. now rewrite zlen_app, IH. Qed.

Lemma sumz_const : forall (l : list Z) k, (forall x, In x l -> x = k) -> sumz l = k * zlen l.
Proof.
  induction l as [|x t IH]; intros k H; [cbn; unfold zlen; cbn; lia|].
  cbn [sumz]. rewrite zlen_cons, (H x) by now left. rewrite (IH k) by (intros y Hy; apply H; now right). lia.
Qed.

Lemma forallb_In {A} (f : A -> bool) l x : forallb f l = true -> In x l -> f x = true.
Proof. intros H Hin. rewrite forallb_forall in H. now apply H. Qed.

(* ---- chunk (reshape / equal split) ------------------------------------------ *)
Lemma chunk_step {A} : forall (f k : nat) (l : list A), l <> [] ->
  chunk (S f) k l = firstn k l :: chunk f k (skipn k l).
Proof. intros f k l H. destruct l; [congruence|reflexivity]. Qed.

Lemma chunk_concat {A} : forall (k : nat) (rows : list (list A)) (fuel : nat),
  (0 < k)%nat -> (forall r, In r rows -> length r = k) ->
  (length (concat rows) <= fuel)%nat ->
  chunk fuel k (concat rows) = rows.
Proof.
  intros k rows. induction rows as [|r t IH]; intros fuel Hk Hlen Hfuel.
  - cbn. now destruct fuel.
  - assert (Hr : length r = k) by (apply Hlen; now left).
    cbn [concat] in *. rewrite app_length in Hfuel.
    destruct fuel as [|f]; [lia|].
    rewrite chunk_step by (destruct r; [cbn in Hr; lia|discriminate]).
    subst k. rewrite firstn_app_exact, skipn_app_exact. f_equal.
    apply IH; [exact Hk| intros r0 H0; apply Hlen; now right | lia].
Qed.

Lemma length_concat_const {A} : forall (k : nat) (rows : list (list A)),
  (forall r, In r rows -> length r = k) -> length (concat rows) = (k * length rows)%nat.
Proof.
  induction rows as [|r t IH]; intros H; cbn [concat length]; [lia|].
  rewrite app_length, (H r) by now left. rewrite IH by (intros r0 H0; apply H; now right). lia.
Qed.

(* ---- split at prefix-sum bounds -------------------------------------------------- *)
Fixpoint bounds (acc : Z) (lens : list Z) : list Z :=
  acc :: match lens with [] => [] | x :: t => bounds (acc + x) t end.

Fixpoint starts (acc : Z) (spans : list Z) : list Z :=
  match spans with [] => [] | x :: t => acc :: starts (acc + x) t end.

Lemma slice_rows_mid {A} : forall (pre a rest : list A),
  slice_rows (zlen pre) (zlen pre + zlen a) (pre ++ a ++ rest) = a.
Proof.
  intros. unfold slice_rows, zlen.
  replace (Z.to_nat (Z.of_nat (length pre) + Z.of_nat (length a) - Z.of_nat (length pre))) with (length a) by lia.
  rewrite Nat2Z.id, skipn_app_exact. apply firstn_app_exact.
Qed.

Lemma split_at_cons2 {A} : forall a b t (l : list A),
  split_at (a :: b :: t) l = slice_rows a b l :: split_at (b :: t) l.
Proof. reflexivity. Qed.

Lemma bounds_hd : forall acc lens, exists bs, bounds acc lens = acc :: bs.
Proof. intros acc lens. destruct lens; cbn; eauto. Qed.

Lemma split_bounds {A} : forall (gd : list (list A)) (pre : list A),
  split_at (bounds (zlen pre) (map zlen gd)) (pre ++ concat gd) = gd.
Proof.
  induction gd as [|a t IH]; intros pre; [reflexivity|].
  cbn [map bounds concat].
  destruct (bounds_hd (zlen pre + zlen a) (map zlen t)) as (bs & Eb).
  rewrite Eb, split_at_cons2, <- Eb, slice_rows_mid. f_equal.
  rewrite <- zlen_app, app_assoc. apply IH.
Qed.

(* the "prefix-sum index list" lemma: the code builds it with cumsum, +1,
   [:-1] and a leading 1; that is the list of 1-based start offsets *)
Lemma cumsum_is_starts : forall spans acc, spans <> [] ->
  (acc + 1) :: removelast (map (fun c => c + 1) (cumsum_from acc spans))
  = map (fun s => s + 1) (starts acc spans).
Proof.
  induction spans as [|x t IH]; intros acc Hne; [congruence|].
  destruct t as [|y t'].
  - reflexivity.
  - cbn [cumsum_from map starts] in *.
    specialize (IH (acc + x) ltac:(discriminate)). cbn [cumsum_from map starts] in IH.
    f_equal. rewrite <- IH. reflexivity.
Qed.

Lemma point_index_list_starts : forall sd gd, gd <> [] ->
  point_index_list sd gd = map (fun s => s + 1) (starts 0 (map (fun a => zlen a * sd) gd)).
Proof.
  intros sd gd H. unfold point_index_list.
  apply (cumsum_is_starts (map (fun a => zlen a * sd) gd) 0).
  destruct gd; [congruence|discriminate].
Qed.

Lemma starts_scale : forall (sd : Z) (lens : list Z) acc, 0 < sd ->
  map (fun i => (i + 1 - 1) / sd) (starts (acc * sd) (map (fun n => n * sd) lens)) = starts acc lens.
Proof.
  induction lens as [|x t IH]; intros acc Hsd; [reflexivity|].
  cbn [map starts]. f_equal.
  - replace (acc * sd + 1 - 1) with (acc * sd) by lia. apply Z.div_mul. lia.
  - replace (acc * sd + x * sd) with ((acc + x) * sd) by lia. now apply IH.
Qed.

Lemma starts_bounds : forall lens acc, starts acc lens ++ [acc + sumz lens] = bounds acc lens.
Proof.
  induction lens as [|x t IH]; intros acc; cbn [starts bounds sumz app].
  - f_equal. lia.
  - f_equal. rewrite <- IH. do 2 f_equal. lia.
Qed.

(* the division points np.split receives are the row bounds of the annotations *)
Lemma div_points : forall (sd : Z) (gd : list annot), 0 < sd -> gd <> [] ->
  0 :: tl (map (fun i => (i - 1) / sd) (point_index_list sd gd)) ++ [sumz (map zlen gd)]
  = bounds 0 (map zlen gd).
Proof.
  intros sd gd Hsd Hne. rewrite point_index_list_starts by exact Hne.
  unfold annot in *.
  assert (E : map (fun i => (i - 1) / sd) (map (fun s => s + 1) (starts 0 (map (fun a : list row => zlen a * sd) gd)))
              = starts 0 (map zlen gd)).
  { rewrite map_map. rewrite <- (starts_scale sd (map zlen gd) 0 Hsd).
    rewrite map_map. reflexivity. }
  rewrite E. destruct gd as [|a t]; [congruence|]. cbn [map starts tl bounds sumz].
  f_equal. rewrite <- starts_bounds. reflexivity.
Qed.

(* ---- reshape / split recover the structure --------------------------------------- *)
Lemma zlen_concat_const {A} : forall (k : Z) (rows : list (list A)),
  (forall r, In r rows -> zlen r = k) -> zlen (concat rows) = k * zlen rows.
Proof.
  intros k rows H. rewrite zlen_concat. rewrite (sumz_const _ k).
  - unfold zlen. now rewrite map_length.
  - intros x Hx. apply in_map_iff in Hx as (r & <- & Hr). now apply H.
Qed.

Lemma reshape_concat {A} : forall (k : Z) (rows : list (list A)),
  0 < k -> (forall r, In r rows -> zlen r = k) ->
  reshape_rows k (concat rows) = Ok rows.
Proof.
  intros k rows Hk H. unfold reshape_rows.
  replace (k <=? 0) with false by lia.
  rewrite (zlen_concat_const k rows H).
  replace (k * zlen rows) with (zlen rows * k) by lia. rewrite Z.mod_mul by lia.
  cbn [Z.eqb negb]. f_equal. apply chunk_concat; [lia| |lia].
  intros r Hr. specialize (H r Hr). unfold zlen in H. lia.
Qed.

Lemma split_sections_concat {A} : forall (k : Z) (gd : list (list A)) (sections : Z),
  0 < k -> gd <> [] -> (forall a, In a gd -> zlen a = k) -> sections = zlen gd ->
  split_sections sections (concat gd) = Ok gd.
Proof.
  intros k gd sections Hk Hne H ->. unfold split_sections.
  assert (Hn : 0 < zlen gd) by (destruct gd; [congruence|rewrite zlen_cons; pose proof (zlen_nonneg gd); lia]).
  replace (zlen gd =? 0) with false by lia.
  rewrite (zlen_concat_const k gd H). rewrite Z.mod_mul by lia. cbn [Z.eqb negb].
  rewrite Z.div_mul by lia. f_equal. apply chunk_concat; [lia| |lia].
  intros r Hr. specialize (H r Hr). unfold zlen in H. lia.
Qed.

(* rows with a shared third coordinate: drop it, re-insert it *)
Lemma reinsert_z : forall (z0 : word) (rows : list row),
  (forall r, In r rows -> zlen r = 3 /\ third r = z0) ->
  map (fun r => r ++ [z0]) (map (firstn 2) rows) = rows.
Proof.
  intros z0 rows H. rewrite map_map. rewrite <- (map_id rows) at 2. apply map_ext_in.
  intros r Hr. destruct (H r Hr) as [Hl Hz].
  destruct r as [|a [|b [|c [|x r']]]]; unfold zlen in Hl; cbn [length] in Hl; try lia.
  unfold third in Hz. cbn in Hz. subst. reflexivity.
Qed.

Lemma reshape_dropz : forall (rows : list row),
  (forall r, In r rows -> zlen r = 3) ->
  reshape_rows 2 (flat_map (firstn 2) rows) = Ok (map (firstn 2) rows).
Proof.
  intros rows H. rewrite flat_map_concat_map. apply reshape_concat; [lia|].
  intros r Hr. apply in_map_iff in Hr as (r0 & <- & Hr0). specialize (H r0 Hr0).
  destruct r0 as [|a [|b [|c r']]]; unfold zlen in *; cbn [length] in *; try lia. reflexivity.
Qed.

(* ---- inversion of a successful encode -------------------------------------------------- *)
Definition dim (gd : list annot) : Z :=
  match concat gd with r0 :: _ => zlen r0 | [] => 0 end.

Definition common_z (dbl : bool) (gd : list annot) : bool :=
  match concat gd with
  | r0 :: _ => (zlen r0 =? 3) && forallb (fun r => feq dbl (third r0) (third r)) (concat gd)
  | [] => false
  end.

(* the z words that compare equal as floats are the same words (fails only
   when +0.0 and -0.0 are mixed in one z column) *)
Definition z_agree (dbl : bool) (gd : list annot) : bool :=
  match concat gd with
  | r0 :: _ => forallb (fun r => implb (feq dbl (third r0) (third r)) (third r0 =? third r)) (concat gd)
  | [] => true
  end.

Definition stored_dim (dbl : bool) (gd : list annot) : Z := if common_z dbl gd then 2 else dim gd.

Definition stored_row (dbl : bool) (gd : list annot) (r : row) : row :=
  if common_z dbl gd then firstn 2 r else r.

Lemma encode_inv : forall dbl gt gd e, encode dbl gt gd = Ok e ->
  exists r0 rest, concat gd = r0 :: rest /\
    forallb (annot_ok dbl gt) gd = true /\
    (forall r, In r (concat gd) -> zlen r = dim gd) /\
    (dim gd = 2 \/ dim gd = 3) /\
    (forall r w, In r (concat gd) -> In w r -> is_finite dbl w = true) /\
    e = mkEnc dbl gt (zlen gd)
              (if common_z dbl gd then flat_map (firstn 2) (concat gd) else concat (concat gd))
              (if common_z dbl gd then Some (third r0) else None)
              (if is_poly gt then Some (point_index_list (stored_dim dbl gd) gd) else None).
Proof.
  intros dbl gt gd e H. unfold encode in H.
  destruct (forallb (annot_ok dbl gt) gd) eqn:Eok; cbn [negb] in H; [|discriminate].
  destruct (concat gd) as [|r0 rest] eqn:Erows; [discriminate|].
  destruct (forallb (fun r => zlen r =? zlen r0) (r0 :: rest)) eqn:Elen; cbn [negb] in H; [|discriminate].
  destruct ((zlen r0 =? 2) || (zlen r0 =? 3)) eqn:Ed; cbn [negb] in H; [|discriminate].
  destruct (forallb (forallb (is_finite dbl)) (r0 :: rest)) eqn:Efin; cbn [negb] in H; [|discriminate].
  exists r0, rest. unfold dim, common_z, stored_dim, dim, common_z. rewrite Erows.
  repeat split.
  - intros r Hr. pose proof (forallb_In _ _ _ Elen Hr) as Hx. cbn beta in Hx. lia.
  - lia.
  - intros r w Hr Hw. exact (forallb_In _ _ _ (forallb_In _ _ _ Efin Hr) Hw).
  - inversion H. reflexivity.
Qed.

(* ---- graphic data round trip ------------------------------------------------------------ *)
Definition split_for (gt : gtype) (sd : Z) (idx : option (list Z)) (rows : list row) : res (list annot) :=
  match gt with
  | RECTANGLE | ELLIPSE => split_sections (zlen rows / 4) rows
  | POINT => split_sections (zlen rows) rows
  | POLYLINE | POLYGON =>
      match idx with
      | None => Err "AttributeError"
      | Some idx => Ok (split_at (0 :: tl (map (fun i => (i - 1) / sd) idx) ++ [zlen rows]) rows)
      end
  end.

Lemma decode_unfold : forall e cd,
  decode e cd =
  let sd := match e_cz e with Some _ => 2 | None => cd end in
  bind (reshape_rows sd (e_data e)) (fun rows2 =>
    split_for (e_gt e) sd (e_idx e)
      (match e_cz e with Some z => map (fun r => r ++ [z]) rows2 | None => rows2 end)).
Proof. intros. unfold decode, split_for. destruct (e_gt e); reflexivity. Qed.

Lemma annot_ok_count : forall dbl gt a, annot_ok dbl gt a = true -> count_ok gt (zlen a) = true.
Proof. intros dbl gt a H. unfold annot_ok in H. now apply andb_prop in H as [H _]. Qed.

Lemma split_recover : forall dbl gt (gd : list annot) sd, 0 < sd -> gd <> [] ->
  forallb (annot_ok dbl gt) gd = true ->
  split_for gt sd (if is_poly gt then Some (point_index_list sd gd) else None) (concat gd) = Ok gd.
Proof.
  intros dbl gt gd sd Hsd Hne Hok.
  assert (Hc : forall a, In a gd -> count_ok gt (zlen a) = true)
    by (intros a Ha; apply (annot_ok_count dbl); exact (forallb_In _ _ _ Hok Ha)).
  assert (Hn : 0 < zlen gd) by (destruct gd; [congruence|rewrite zlen_cons; pose proof (zlen_nonneg gd); lia]).
  destruct gt; cbn [split_for is_poly].
  - (* POINT *)
    apply (split_sections_concat 1); [lia|exact Hne| |].
    + intros a Ha. specialize (Hc a Ha). cbn in Hc. lia.
    + rewrite (zlen_concat_const 1); [lia|]. intros a Ha. specialize (Hc a Ha). cbn in Hc. lia.
  - (* POLYLINE *)
    rewrite zlen_concat, (div_points sd gd Hsd Hne). f_equal. apply (split_bounds gd []).
  - (* POLYGON *)
    rewrite zlen_concat, (div_points sd gd Hsd Hne). f_equal. apply (split_bounds gd []).
  - (* ELLIPSE *)
    apply (split_sections_concat 4); [lia|exact Hne| |].
    + intros a Ha. specialize (Hc a Ha). cbn in Hc. lia.
    + rewrite (zlen_concat_const 4); [|intros a Ha; specialize (Hc a Ha); cbn in Hc; lia].
      lia.
  - (* RECTANGLE *)
    apply (split_sections_concat 4); [lia|exact Hne| |].
    + intros a Ha. specialize (Hc a Ha). cbn in Hc. lia.
    + rewrite (zlen_concat_const 4); [|intros a Ha; specialize (Hc a Ha); cbn in Hc; lia].
      lia.
Qed.

Lemma graphic_roundtrip : forall dbl gt gd e,
  encode dbl gt gd = Ok e -> z_agree dbl gd = true -> decode e (dim gd) = Ok gd.
Proof.
  intros dbl gt gd e He Hz.
  destruct (encode_inv _ _ _ _ He) as (r0 & rest & Erows & Hok & Hlen & Hd & _ & ->).
  assert (Hne : gd <> []) by (intros ->; discriminate).
  rewrite decode_unfold. cbn [e_cz e_data e_gt e_idx]. unfold stored_dim.
  destruct (common_z dbl gd) eqn:Ec; cbn zeta.
  - unfold common_z in Ec. rewrite Erows in Ec. apply andb_prop in Ec as [E3 Efeq].
    assert (Hd3 : dim gd = 3) by (unfold dim; rewrite Erows; lia).
    rewrite <- Erows in Efeq.
    rewrite reshape_dropz by (intros r Hr; rewrite (Hlen r Hr); exact Hd3).
    cbn [bind]. rewrite reinsert_z.
    + apply (split_recover dbl); [lia|exact Hne|exact Hok].
    + intros r Hr. split; [rewrite (Hlen r Hr); exact Hd3|].
      unfold z_agree in Hz. rewrite Erows in Hz. rewrite <- Erows in Hz.
      pose proof (forallb_In _ _ _ Hz Hr) as H1. pose proof (forallb_In _ _ _ Efeq Hr) as H2.
      cbn beta in H1, H2. rewrite H2 in H1. cbn [implb] in H1. lia.
  - rewrite reshape_concat by (try exact Hlen; lia). cbn [bind].
    apply (split_recover dbl); [lia|exact Hne|exact Hok].
Qed.

(* a group with a shared z decodes to 3-D data whatever dimensionality is asked for *)
Lemma graphic_roundtrip_common : forall dbl gt gd e cd,
  encode dbl gt gd = Ok e -> z_agree dbl gd = true -> common_z dbl gd = true -> decode e cd = Ok gd.
Proof.
  intros dbl gt gd e cd He Hz Hc.
  rewrite <- (graphic_roundtrip dbl gt gd e He Hz).
  destruct (encode_inv _ _ _ _ He) as (r0 & rest & _ & _ & _ & _ & _ & ->).
  rewrite !decode_unfold. cbn [e_cz e_data e_gt e_idx]. rewrite Hc. reflexivity.
Qed.

(* ---- per annotation access ------------------------------------------------------------------ *)
Lemma per_annotation : forall dbl gt gd e k,
  encode dbl gt gd = Ok e -> z_agree dbl gd = true ->
  get_coordinates (decode e (dim gd)) k =
    if k <? 1 then Err VE
    else match nth_error gd (Z.to_nat (k - 1)) with Some a => Ok a | None => Err "IndexError" end.
Proof.
  intros dbl gt gd e k He Hz. rewrite (graphic_roundtrip _ _ _ _ He Hz). reflexivity.
Qed.

Lemma per_annotation_in_range : forall dbl gt gd e k,
  encode dbl gt gd = Ok e -> z_agree dbl gd = true -> 1 <= k <= zlen gd ->
  exists a, nth_error gd (Z.to_nat (k - 1)) = Some a /\ get_coordinates (decode e (dim gd)) k = Ok a.
Proof.
  intros dbl gt gd e k He Hz Hk. rewrite (per_annotation _ _ _ _ _ He Hz).
  replace (k <? 1) with false by lia.
  destruct (nth_error gd (Z.to_nat (k - 1))) as [a|] eqn:E; [eauto|].
  apply nth_error_None in E. unfold zlen in Hk. lia.
Qed.

Lemma per_annotation_out_of_range : forall dbl gt gd e k,
  encode dbl gt gd = Ok e -> z_agree dbl gd = true ->
  (k < 1 -> get_coordinates (decode e (dim gd)) k = Err VE) /\
  (zlen gd < k -> get_coordinates (decode e (dim gd)) k = Err "IndexError").
Proof.
  intros dbl gt gd e k He Hz. rewrite (per_annotation _ _ _ _ _ He Hz). split; intros Hk.
  - replace (k <? 1) with true by lia. reflexivity.
  - pose proof (zlen_nonneg gd). replace (k <? 1) with false by lia.
    destruct (nth_error gd (Z.to_nat (k - 1))) as [a|] eqn:E; [|reflexivity].
    assert (nth_error gd (Z.to_nat (k - 1)) <> None) as Hn by congruence.
    apply nth_error_Some in Hn. unfold zlen in Hk. lia.
Qed.

(* ---- which inputs are accepted ------------------------------------------------------------------ *)
Definition admissible (dbl : bool) (gt : gtype) (gd : list annot) : Prop :=
  gd <> [] /\
  (forall a, In a gd -> count_ok gt (zlen a) = true /\ (gt = POLYGON -> closed dbl a = false)) /\
  (exists d, (d = 2 \/ d = 3) /\ forall a r, In a gd -> In r a -> zlen r = d) /\
  (forall a r w, In a gd -> In r a -> In w r -> is_finite dbl w = true).

Lemma annot_ok_spec : forall dbl gt a,
  annot_ok dbl gt a = true <-> count_ok gt (zlen a) = true /\ (gt = POLYGON -> closed dbl a = false).
Proof.
  intros dbl gt a. unfold annot_ok. rewrite andb_true_iff. split; intros [H1 H2]; split; try exact H1.
  - intros ->. now apply negb_true_iff in H2.
  - destruct gt; try reflexivity. apply negb_true_iff. now apply H2.
Qed.

Lemma encode_only_value_error : forall dbl gt gd, (exists e, encode dbl gt gd = Ok e) \/ encode dbl gt gd = Err VE.
Proof.
  intros dbl gt gd. unfold encode.
  destruct (negb (forallb (annot_ok dbl gt) gd)); [now right|].
  destruct (concat gd) as [|r0 rest]; [now right|].
  destruct (negb (forallb (fun r => zlen r =? zlen r0) (r0 :: rest))); [now right|].
  destruct (negb ((zlen r0 =? 2) || (zlen r0 =? 3))); [now right|].
  destruct (negb (forallb (forallb (is_finite dbl)) (r0 :: rest))); [now right|].
  left. eauto.
Qed.

Lemma count_ok_pos : forall gt n, count_ok gt n = true -> 1 <= n.
Proof. intros gt n H. destruct gt; cbn in H; lia. Qed.

Lemma encode_accepts_iff : forall dbl gt gd,
  (exists e, encode dbl gt gd = Ok e) <-> admissible dbl gt gd.
Proof.
  intros dbl gt gd. split.
  - intros (e & He). destruct (encode_inv _ _ _ _ He) as (r0 & rest & Erows & Hok & Hlen & Hd & Hfin & _).
    repeat split.
    + intros ->. discriminate.
    + apply (annot_ok_spec dbl gt a). exact (forallb_In _ _ _ Hok H).
    + apply (annot_ok_spec dbl gt a). exact (forallb_In _ _ _ Hok H).
    + exists (dim gd). split; [exact Hd|]. intros a r Ha Hr. apply Hlen. apply in_concat. eauto.
    + intros a r w Ha Hr Hw. apply (Hfin r w); [apply in_concat; eauto|exact Hw].
  - intros (Hne & Hann & (d & Hd & Hdim) & Hfin). unfold encode.
    assert (Hok : forallb (annot_ok dbl gt) gd = true).
    { apply forallb_forall. intros a Ha. apply annot_ok_spec. now apply Hann. }
    rewrite Hok. cbn [negb].
    destruct (concat gd) as [|r0 rest] eqn:Erows.
    { exfalso. destruct gd as [|a t]; [congruence|].
      destruct (Hann a (or_introl eq_refl)) as [Hc _]. apply count_ok_pos in Hc.
      destruct a as [|r a']; [unfold zlen in Hc; cbn in Hc; lia|]. discriminate. }
    assert (Hin : forall r, In r (r0 :: rest) -> exists a, In a gd /\ In r a).
    { intros r Hr. rewrite <- Erows in Hr. apply in_concat in Hr as (a & Ha & Hra). eauto. }
    assert (Hr0 : zlen r0 = d) by (destruct (Hin r0 (or_introl eq_refl)) as (a & Ha & Hra); now apply (Hdim a)).
    replace (forallb (fun r => zlen r =? zlen r0) (r0 :: rest)) with true.
    2:{ symmetry. apply forallb_forall. intros r Hr. destruct (Hin r Hr) as (a & Ha & Hra).
        rewrite (Hdim a r Ha Hra), Hr0. lia. }
    cbn [negb]. replace ((zlen r0 =? 2) || (zlen r0 =? 3)) with true by lia. cbn [negb].
    replace (forallb (forallb (is_finite dbl)) (r0 :: rest)) with true.
    2:{ symmetry. apply forallb_forall. intros r Hr. destruct (Hin r Hr) as (a & Ha & Hra).
        apply forallb_forall. intros w Hw. now apply (Hfin a r w). }
    cbn [negb]. eauto.
Qed.

Lemma malformed_rejected : forall dbl gt gd, ~ admissible dbl gt gd <-> encode dbl gt gd = Err VE.
Proof.
  intros dbl gt gd. rewrite <- encode_accepts_iff. split.
  - intros H. destruct (encode_only_value_error dbl gt gd) as [He|He]; [contradiction|exact He].
  - intros He (e & He'). congruence.
Qed.

(* the individual rejection rules, each as its own consequence *)
Lemma reject_wrong_count : forall dbl gt gd a, In a gd -> count_ok gt (zlen a) = false -> encode dbl gt gd = Err VE.
Proof.
  intros dbl gt gd a Ha Hc. apply malformed_rejected. intros (_ & Hann & _).
  destruct (Hann a Ha) as [H _]. congruence.
Qed.

Lemma reject_closed_polygon : forall dbl gd a, In a gd -> closed dbl a = true -> encode dbl POLYGON gd = Err VE.
Proof.
  intros dbl gd a Ha Hc. apply malformed_rejected. intros (_ & Hann & _).
  destruct (Hann a Ha) as [_ H]. rewrite H in Hc by reflexivity. discriminate.
Qed.

Lemma reject_non_finite : forall dbl gt gd a r w, In a gd -> In r a -> In w r -> is_finite dbl w = false ->
  encode dbl gt gd = Err VE.
Proof.
  intros dbl gt gd a r w Ha Hr Hw Hf. apply malformed_rejected. intros (_ & _ & _ & Hfin).
  rewrite (Hfin a r w Ha Hr Hw) in Hf. discriminate.
Qed.

Lemma reject_empty : forall dbl gt, encode dbl gt [] = Err VE.
Proof. intros. apply malformed_rejected. intros (H & _). congruence. Qed.

Lemma reject_bad_dimension : forall dbl gt gd a r, In a gd -> In r a -> zlen r <> 2 -> zlen r <> 3 ->
  encode dbl gt gd = Err VE.
Proof.
  intros dbl gt gd a r Ha Hr H2 H3. apply malformed_rejected. intros (_ & _ & (d & Hd & Hdim) & _).
  specialize (Hdim a r Ha Hr). lia.
Qed.

Lemma reject_mixed_dimension : forall dbl gt gd a r a' r', In a gd -> In r a -> In a' gd -> In r' a' ->
  zlen r <> zlen r' -> encode dbl gt gd = Err VE.
Proof.
  intros dbl gt gd a r a' r' Ha Hr Ha' Hr' Hne. apply malformed_rejected. intros (_ & _ & (d & Hd & Hdim) & _).
  rewrite (Hdim a r Ha Hr), (Hdim a' r' Ha' Hr') in Hne. congruence.
Qed.
